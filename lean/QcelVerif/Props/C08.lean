import QcelVerif.Model.ToString
import QcelVerif.Lemmas.FixedFmt
import QcelVerif.Lemmas.ToString
/-!
# C08 — program input blocks state exactly the molecule they were made from

Property theorems about the model `Model/ToString.lean` (+ the float-print checker `Model/FixedFmt.lean`).
Every theorem holds for all molecules (any number of atoms / fragments).

Manifest (names as listed in harness/c08.py THEOREMS):
  FixedFmt.rhe_isNearestEven, FixedFmt.isNearestEven_unique, FixedFmt.isFixedRounding_unique,
  FixedFmt.isFixedRounding_spec,
  ToString.formatter_lists_shown_atoms, ToString.formatter_length, ToString.extract_atomLines, ToString.spelling,
  ToString.ghost_suppressed_only_xyz_empty, ToString.npSplit_flatten, ToString.fragment_blocks_partition,
  ToString.molpro_dummy_indices, ToString.chgmult_stated, ToString.announced_unit_is_used,
  ToString.unit_error_rows, ToString.unit_none_rows, ToString.checked_coordinates, ToString.words_atomLine
-/
namespace QcelVerif.FixedFmt

/-! ## the float-print checker -/

/-- the rounding the printer uses is a nearest integer, the even one on an exact tie -/
theorem rhe_isNearestEven (tn td : Nat) (h : 0 < td) : IsNearestEven (rhe tn td) tn td := by
  have h1 : td * (tn / td) + tn % td = tn := Nat.div_add_mod tn td
  have hr : tn % td < td := Nat.mod_lt _ h
  have hc : td * (tn / td) = tn / td * td := Nat.mul_comm _ _
  have hs : (tn / td + 1) * td = tn / td * td + td := by rw [Nat.add_mul, Nat.one_mul]
  unfold rhe IsNearestEven
  simp only
  split
  · refine ⟨by omega, by omega, ?_⟩; intro h; omega
  · split
    · rw [hs]; refine ⟨by omega, by omega, ?_⟩; intro h; omega
    · split
      · next he => refine ⟨by omega, by omega, fun _ => he⟩
      · next he => rw [hs]; refine ⟨by omega, by omega, fun _ => by omega⟩

/-- at most one integer is nearest-with-ties-to-even -/
theorem isNearestEven_unique {N N' tn td : Nat} (h : 0 < td)
    (a : IsNearestEven N tn td) (b : IsNearestEven N' tn td) : N = N' := by
  obtain ⟨a1, a2, a3⟩ := a
  obtain ⟨b1, b2, b3⟩ := b
  have key : ∀ {X Y : Nat}, 2 * (X * td) ≤ 2 * tn + td → 2 * tn ≤ 2 * (X * td) + td →
      ((2 * (X * td) = 2 * tn + td ∨ 2 * tn = 2 * (X * td) + td) → X % 2 = 0) →
      2 * (Y * td) ≤ 2 * tn + td → 2 * tn ≤ 2 * (Y * td) + td →
      ((2 * (Y * td) = 2 * tn + td ∨ 2 * tn = 2 * (Y * td) + td) → Y % 2 = 0) → X < Y → False := by
    intro X Y x1 x2 x3 y1 y2 y3 hlt
    by_cases h2 : X + 2 ≤ Y
    · have : (X + 2) * td ≤ Y * td := Nat.mul_le_mul_right td h2
      rw [Nat.add_mul] at this
      omega
    · have hY : Y = X + 1 := by omega
      subst hY
      have hs : (X + 1) * td = X * td + td := by rw [Nat.add_mul, Nat.one_mul]
      rw [hs] at y1 y2 y3
      have e1 : X % 2 = 0 := x3 (Or.inr (by omega))
      have e2 : (X + 1) % 2 = 0 := y3 (Or.inl (by omega))
      omega
  rcases Nat.lt_trichotomy N N' with hlt | heq | hgt
  · exact (key a1 a2 a3 b1 b2 b3 hlt).elim
  · exact heq
  · exact (key b1 b2 b3 a1 a2 a3 hgt).elim

/-- **uniqueness**: for a given sign bit, exact value and precision at most one string passes the checker -/
theorem isFixedRounding_unique {neg : Bool} {q : Rat} {prec : Nat} {s s' : Str}
    (h : isFixedRounding neg q prec s = true) (h' : isFixedRounding neg q prec s' = true) : s = s' := by
  simp only [isFixedRounding, Bool.and_eq_true, decide_eq_true_eq] at h h'
  rw [h.2, h'.2]

/-- … and exactly one does when the sign bit is consistent with the value -/
theorem isFixedRounding_exists {neg : Bool} {q : Rat} {prec : Nat} (hs : signOk neg q = true) :
    isFixedRounding neg q prec (fmtFixedQ neg q prec) = true := by
  simp [isFixedRounding, hs]

theorem fixedDigits_shape (N prec : Nat) :
    ∃ I F : Str, fixedDigits N prec = I ++ (if prec = 0 then [] else '.' :: F) ∧ F.length = prec ∧ I ≠ [] ∧
      digitsVal (I ++ F) = N ∧ ∀ c ∈ I ++ F, isDigitChar c = true := by
  obtain ⟨ds, hds⟩ : ∃ ds, ds = padZeros (prec + 1) (natDigits N) := ⟨_, rfl⟩
  have hlen : prec + 1 ≤ ds.length := by rw [hds]; exact padZeros_length _ _
  refine ⟨ds.take (ds.length - prec), ds.drop (ds.length - prec), ?_, ?_, ?_, ?_, ?_⟩
  · unfold fixedDigits
    rw [← hds]
    by_cases hp : prec = 0
    · simp [hp]
    · simp only [hp, if_false]
  · simp [List.length_drop]; omega
  · intro hnil
    have : (ds.take (ds.length - prec)).length = 0 := by rw [hnil]; rfl
    simp [List.length_take] at this
    omega
  · rw [List.take_append_drop, hds]
    unfold padZeros
    rw [digitsVal_zeros_append, digitsVal_natDigits]
  · rw [List.take_append_drop, hds]
    intro c hc
    unfold padZeros at hc
    simp only [List.mem_append, List.mem_replicate] at hc
    rcases hc with ⟨_, rfl⟩ | hc
    · decide
    · exact natDigits_all_digits N c hc

/-- **what passing means**: the text is `[-]I[.F]` with exactly `prec` fraction digits, all digits, and the
integer `N` it spells (so the decimal value is `N / 10^prec`) is a nearest integer to `|q|·10^prec`, the even
one on an exact tie — i.e. `|N/10^prec − |q|| ≤ ½·10^-prec`; by `isNearestEven_unique` no other `N` qualifies. -/
theorem isFixedRounding_spec {neg : Bool} {q : Rat} {prec : Nat} {s : Str}
    (h : isFixedRounding neg q prec s = true) :
    ∃ I F : Str, s = (if neg then ['-'] else []) ++ I ++ (if prec = 0 then [] else '.' :: F) ∧
      F.length = prec ∧ I ≠ [] ∧ (∀ c ∈ I ++ F, isDigitChar c = true) ∧
      IsNearestEven (digitsVal (I ++ F)) (q.num.natAbs * 10 ^ prec) q.den ∧
      (neg = true → q.num ≤ 0) ∧ (neg = false → 0 ≤ q.num) := by
  simp only [isFixedRounding, Bool.and_eq_true, decide_eq_true_eq] at h
  obtain ⟨hs, rfl⟩ := h
  obtain ⟨I, F, e, hF, hI, hv, hd⟩ := fixedDigits_shape (rhe (q.num.natAbs * 10 ^ prec) q.den) prec
  refine ⟨I, F, ?_, hF, hI, hd, ?_, ?_, ?_⟩
  · unfold fmtFixedQ fmtFixed; rw [e, List.append_assoc]
  · rw [hv]; exact rhe_isNearestEven _ _ q.den_pos
  · intro hn; subst hn; simpa [signOk] using hs
  · intro hn; subst hn; simpa [signOk] using hs

-- test (compiled evaluation, not a theorem): a negative zero at three places
#guard isFixedRounding true (-(1 : Rat) / 10000) 3 "-0.000".toList
-- test: exact ties go to the even digit: 0.125 → 0.12, 0.375 → 0.38
#guard fmtFixed false 1 8 2 = "0.12".toList && fmtFixed false 3 8 2 = "0.38".toList

end QcelVerif.FixedFmt


namespace QcelVerif.ToString
open QcelVerif.FixedFmt

/-! ## atoms listed once, in order -/

/-- `_atoms_formatter` succeeded ⇒ its lines are exactly one line per *shown* atom (real, or ghost with a
non-empty ghost format), in the molecule's order, each made of that atom's own label and its own coordinates;
and every shown atom did get a label. -/
theorem formatter_lists_shown_atoms (afmt gfmt : Str) (w : Nat) (x : Bool) :
    ∀ (atoms : List Atom) (lines : List Str), atomsFormatter afmt gfmt w x atoms = .ok lines →
      lines = (atoms.filter (shown gfmt)).map (fun a => atomLine w x (labelOf afmt gfmt a) a.xyz) ∧
      ∀ a ∈ atoms.filter (shown gfmt), ∃ l, atomLabel afmt gfmt a = .ok (some l) := by
  intro atoms
  induction atoms with
  | nil => intro lines h; simp [atomsFormatter] at h; subst h; simp
  | cons a t ih =>
    intro lines h
    unfold atomsFormatter at h
    cases hl : atomLabel afmt gfmt a with
    | error e => simp [hl] at h
    | ok ol =>
      cases ol with
      | none =>
        simp only [hl] at h
        have hs := atomLabel_none hl
        obtain ⟨e1, e2⟩ := ih lines h
        simp only [List.filter_cons, hs, Bool.false_eq_true, if_false]
        exact ⟨e1, e2⟩
      | some nuc =>
        simp only [hl] at h
        have hs := atomLabel_some hl
        cases hr : atomsFormatter afmt gfmt w x t with
        | error e => simp [hr] at h
        | ok rest =>
          simp only [hr, Except.ok.injEq] at h
          obtain ⟨e1, e2⟩ := ih rest hr
          simp only [List.filter_cons, hs, if_true, List.map_cons]
          refine ⟨?_, ?_⟩
          · rw [← h, e1]; simp [labelOf, hl]
          · intro b hb
            simp only [List.mem_cons] at hb
            rcases hb with rfl | hb
            · exact ⟨nuc, hl⟩
            · exact e2 b hb

/-- the number of atom lines is the number of shown atoms — all atoms when the ghost format is non-empty -/
theorem formatter_length {afmt gfmt : Str} {w : Nat} {x : Bool} {atoms : List Atom} {lines : List Str}
    (h : atomsFormatter afmt gfmt w x atoms = .ok lines) :
    lines.length = (atoms.filter (shown gfmt)).length ∧ (gfmt.isEmpty = false → lines.length = atoms.length) := by
  have e := (formatter_lists_shown_atoms afmt gfmt w x atoms lines h).1
  refine ⟨by rw [e, List.length_map], fun hg => ?_⟩
  rw [e, List.length_map]
  congr 1
  apply List.filter_eq_self.2
  intro a _
  simp [shown, hg]

/-- the line of one atom: label left-aligned in `width`, then x, y, z right-aligned in `width`, separated by two
blanks; turbomole (`xyze`) puts the three coordinates first and the right-stripped label last -/
theorem atomLine_shape (w : Nat) (nuc a b c : Str) :
    atomLine w false nuc [a, b, c] = padRight w nuc ++ sp2 ++ (padLeft w a ++ sp2 ++ (padLeft w b ++ sp2 ++ padLeft w c)) ∧
    atomLine w true nuc [a, b, c] = padLeft w a ++ sp2 ++ (padLeft w b ++ sp2 ++ (padLeft w c ++ sp2 ++ rstrip (padRight w nuc))) := by
  constructor <;> simp [atomLine, joinWith]

/-! ## tokenising an atom line (what `line.split()` sees) -/

def wstep (c : Char) (st : Bool × List Str) : Bool × List Str :=
  if c = ' ' then (false, st.2)
  else if st.1 then
    match st.2 with
    | w :: r => (true, (c :: w) :: r)
    | [] => (true, [[c]])
  else (true, [c] :: st.2)

/-- blank-separated words of a line (Python `str.split()` on blanks) -/
def words (l : Str) : List Str := (l.foldr wstep (false, [])).2

theorem wfold_append (a : Str) : ∀ W : List Str,
    a.foldr wstep (false, W) = ((a.foldr wstep (false, [])).1, (a.foldr wstep (false, [])).2 ++ W) ∧
    ((a.foldr wstep (false, [])).1 = true → (a.foldr wstep (false, [])).2 ≠ []) := by
  induction a with
  | nil => intro W; simp
  | cons c t ih =>
    intro W
    obtain ⟨e, inv⟩ := ih W
    simp only [List.foldr_cons]
    rw [e]
    generalize hst : t.foldr wstep (false, []) = st at inv ⊢
    obtain ⟨o, ws⟩ := st
    unfold wstep
    by_cases hc : c = ' '
    · simp [hc]
    · cases o with
      | false => simp [hc]
      | true =>
        cases ws with
        | nil => exact absurd rfl (inv rfl)
        | cons w r => simp [hc]

theorem words_append_space (a b : Str) : words (a ++ ' ' :: b) = words a ++ words b := by
  unfold words
  rw [List.foldr_append, List.foldr_cons]
  have : wstep ' ' (b.foldr wstep (false, [])) = (false, (b.foldr wstep (false, [])).2) := by simp [wstep]
  rw [this, (wfold_append a _).1]

theorem words_space_cons (l : Str) : words (' ' :: l) = words l := by simp [words, wstep]

theorem words_spaces_append (k : Nat) (l : Str) : words (List.replicate k ' ' ++ l) = words l := by
  induction k with
  | zero => simp
  | succ k ih => rw [List.replicate_succ, List.cons_append, words_space_cons, ih]

theorem words_append_spaces (l : Str) (k : Nat) : words (l ++ List.replicate k ' ') = words l := by
  cases k with
  | zero => simp
  | succ k =>
    rw [List.replicate_succ, words_append_space]
    have : words (List.replicate k ' ') = [] := by
      have := words_spaces_append k []
      simpa [words] using this
    rw [this, List.append_nil]

theorem words_token (s : Str) (hne : s ≠ []) (hs : ∀ c ∈ s, c ≠ ' ') : s.foldr wstep (false, []) = (true, [s]) := by
  induction s with
  | nil => exact absurd rfl hne
  | cons c t ih =>
    have hc : c ≠ ' ' := hs c (by simp)
    cases t with
    | nil => simp [wstep, hc]
    | cons d u =>
      rw [List.foldr_cons, ih (by simp) (fun x hx => hs x (by simp [hx]))]
      simp [wstep, hc]

/-- **what a whitespace tokeniser reads from an atom line**: the words of the label, then exactly the three
coordinate texts in x, y, z order (they are non-empty and blank-free: see `isFixedRounding_spec`). -/
theorem words_atomLine (w : Nat) (nuc a b c : Str)
    (ha : a ≠ [] ∧ ∀ x ∈ a, x ≠ ' ') (hb : b ≠ [] ∧ ∀ x ∈ b, x ≠ ' ') (hc : c ≠ [] ∧ ∀ x ∈ c, x ≠ ' ') :
    words (atomLine w false nuc [a, b, c]) = words nuc ++ [a, b, c] := by
  have tok : ∀ s : Str, (s ≠ [] ∧ ∀ x ∈ s, x ≠ ' ') → words (padLeft w s) = [s] := by
    intro s hs
    unfold padLeft
    rw [words_spaces_append]
    unfold words
    rw [words_token s hs.1 hs.2]
  rw [(atomLine_shape w nuc a b c).1]
  simp only [sp2, List.append_assoc, List.cons_append, List.nil_append]
  rw [words_append_space, words_space_cons, words_append_space, words_space_cons, words_append_space, words_space_cons,
    tok a ha, tok b hb, tok c hc]
  unfold padRight
  rw [words_append_spaces]
  simp
-- test: the tokens of a gamess ghost line
#guard words (atomLine 12 false " H -1".toList ["0.000".toList, "-0.000".toList, "2.835".toList]) ==
  ["H", "-1", "0.000", "-0.000", "2.835"].map String.toList

/-- non-vacuity (test): a ghost between two real atoms, suppressed and not -/
example : atomsFormatter (lit "{elem}") [] 4 false
      [⟨-1, 1, ['H'], [], [], true, [['1'], ['2'], ['3']]⟩, ⟨-1, 2, ['H', 'e'], [], [], false, [['4'], ['5'], ['6']]⟩]
    = .ok ["H        1     2     3".toList] := by decide

/-! ## per-dtype spelling of real and ghost atoms -/

/-- the label each program wants (independent statement; `xyz`, `xyz+` are the defaults, SDF uses its own column) -/
def spell (d : Dtype) (a : Atom) : Str :=
  match d with
  | .xyz | .xyzp | .qchem => if a.real then a.elem else '@' :: a.elem
  | .orca => if a.real then a.elem else a.elem ++ [':']
  | .cfour | .madness => if a.real then a.elem else ['G', 'H']
  | .molpro | .mrchem | .turbomole | .sdf => a.elem
  | .nwchem => if a.real then a.elem ++ a.elbl else 'b' :: 'q' :: (a.elem ++ a.elbl)
  | .gamess => if a.real then ' ' :: (a.elem ++ (a.elbl ++ ' ' :: natStr a.elez))
               else ' ' :: (a.elem ++ ' ' :: '-' :: natStr a.elez)
  | .terachem => if a.real then a.elem else 'X' :: a.elem
  | .psi4 => if a.real then a.elem ++ a.elbl else 'G' :: 'h' :: '(' :: (a.elem ++ (a.elbl ++ [')']))

/-- every atom of every molecule is labelled with the program's spelling (no caller override reaches any
branch but xyz/xyz+; there the statement is for the defaults) -/
theorem spelling (o : Opts) (a : Atom) (hd : o.dtype ≠ .sdf)
    (hx : (o.dtype = .xyz ∨ o.dtype = .xyzp) → o.afmt = none ∧ o.gfmt = none) :
    atomLabel (formats o).1 (formats o).2.1 a = .ok (some (spell o.dtype a)) := by
  cases hdt : o.dtype <;> simp [hdt] at hd hx <;>
    cases hr : a.real <;>
    simp [formats, hdt, hx, atomLabel, hr, applyFmt, lit, fmtGo, fieldValue, plainNameChar, Except.map, spell, natStr]

/-- SDF puts the symbol, or the ghost word (default `Gh`), right-aligned in its 3-character column -/
theorem spelling_sdf (gf : Str) (a : Atom) :
    sdfAtomLine gf a = (a.xyz.map (padLeft 10)).flatten ++ padLeft 3 (if a.real then a.elem else gf) ++
      lit "  0  0     0  0  0  0  0  0" := rfl

/-- ghosts are dropped only by xyz/xyz+ with `ghost_format=""`: every other call lists every atom -/
theorem ghost_suppressed_only_xyz_empty (o : Opts) (m : Mol) (atoms : List Str)
    (h : atomBlock o m = .ok atoms)
    (hne : ¬ ((o.dtype = .xyz ∨ o.dtype = .xyzp) ∧ o.gfmt = some [])) :
    atoms.length = m.atoms.length := by
  unfold atomBlock at h
  have key : o.dtype ≠ .sdf → (formats o).2.1.isEmpty = false := by
    intro _
    cases hdt : o.dtype <;> simp [formats, hdt, lit] at hne ⊢
    all_goals
      cases hg : o.gfmt with
      | none => simp [lit]
      | some g => cases g <;> simp_all
  cases hdt : o.dtype <;> simp only [hdt] at h
  case sdf => simp at h; rw [← h]; simp
  all_goals exact (formatter_length h).2 (key (by simp [hdt]))

/-- … and that one call does drop them -/
example : atomBlock ⟨.xyz, .dflt, none, some [], 2, .bohr, false⟩
      ⟨[⟨-1, 2, ['H', 'e'], [], [], false, [['4'], ['5'], ['6']]⟩], none, 0, 1, [], [0], [1], false, false, none, []⟩
    = .ok [] := by decide

/-! ## layout: reading the atom block back -/

/-- success of `render` exposes its three stages -/
theorem render_ok {o : Opts} {m : Mol} {r : Out} (h : render o m = .ok r) :
    ∃ atoms body uw, atomBlock o m = .ok atoms ∧ bodyOf o.dtype atoms m = .ok body ∧
      unitWord o.dtype (resolve o.dtype o.req) = .ok uw ∧
      r = ⟨header o.dtype m uw atoms.length ++ body ++ footer o.dtype m uw, fieldsOf o.dtype,
           keywordsOf o.dtype m uw atoms⟩ := by
  unfold render at h
  cases ha : atomBlock o m with
  | error e => simp [ha, bind, Except.bind] at h
  | ok atoms =>
    cases hb : bodyOf o.dtype atoms m with
    | error e => simp [ha, hb, bind, Except.bind] at h
    | ok body =>
      cases hu : unitWord o.dtype (resolve o.dtype o.req) with
      | error e => simp [ha, hb, hu, bind, Except.bind] at h
      | ok uw =>
        simp only [ha, hb, hu, bind, Except.bind, pure, Except.pure, Except.ok.injEq] at h
        exact ⟨atoms, body, uw, rfl, hb, rfl, h.symm⟩

/-- how many lines each format puts before the atom block (the format's layout, stated independently) -/
def hdrLen (d : Dtype) (m : Mol) : Nat :=
  match d with
  | .xyz | .xyzp | .terachem | .madness | .qchem => 2
  | .orca | .gamess | .sdf => 3
  | .cfour | .nwchem | .psi4 | .turbomole => 1
  | .mrchem => 5
  | .molpro => (if m.fixOrient || m.fixCom then 1 else 0) +
      (match m.fixSymm with | none => 1 | some s => if s = lit "c1" then 1 else 0) + 3

/-- … and after it -/
def ftrLen (d : Dtype) (m : Mol) : Nat :=
  match d with
  | .xyz | .xyzp | .cfour | .terachem => 0
  | .orca | .madness | .gamess | .turbomole | .qchem | .mrchem => 1
  | .nwchem => 2
  | .molpro => 3 + (if m.atoms.all (·.real) then 0 else 1)
  | .psi4 => 1 + (if m.fixCom then 1 else 0) + (if m.fixOrient then 1 else 0)
  | .sdf => m.bonds.length

/-- a positional reader: skip `h` lines, ignore the last `f` -/
def readBlock (h f : Nat) (l : List Str) : List Str := (l.drop h).take (l.length - h - f)

theorem readBlock_append (H B T : List Str) : readBlock H.length T.length (H ++ B ++ T) = B := by
  unfold readBlock
  rw [List.append_assoc, List.drop_left]
  simp only [List.length_append]
  have : H.length + (B.length + T.length) - H.length - T.length = B.length := by omega
  rw [this, List.take_left]

theorem header_length (d : Dtype) (m : Mol) (uw : UnitWord) (n : Nat) : (header d m uw n).length = hdrLen d m := by
  cases d
  case molpro =>
    cases hfs : m.fixSymm with
    | none => by_cases hc : (m.fixOrient || m.fixCom) = true <;> simp [header, hdrLen, hfs, hc]
    | some s =>
      by_cases hc : (m.fixOrient || m.fixCom) = true <;> by_cases hs : s = lit "c1" <;>
        simp [header, hdrLen, hfs, hc, hs]
  all_goals simp [header, hdrLen]

theorem footer_length (d : Dtype) (m : Mol) (uw : UnitWord) : (footer d m uw).length = ftrLen d m := by
  cases d
  case molpro =>
    have e := ghostIndices_isEmpty m.atoms 0
    simp only [footer, ftrLen, e]
    cases m.atoms.all (·.real) <;> simp
  case psi4 => cases hc : m.fixCom <;> cases ho : m.fixOrient <;> simp [footer, ftrLen, hc, ho]
  all_goals simp [footer, ftrLen]

/-- what the block between header and footer is, in terms of the formatter's lines -/
def blockOf (d : Dtype) (atoms : List Str) : List Str :=
  match d with
  | .turbomole => atoms.map lower
  | _ => atoms

/-- psi4/qchem interleave `--` and charge/multiplicity lines; a reader drops them -/
def unfrag (d : Dtype) (l : List Str) : List Str :=
  match d with
  | .psi4 | .qchem => stripHeaders false l
  | _ => l

/-! ## fragments -/

/-- `np.split` at ascending separators is a partition: the blocks concatenate to the list (from `prev` on),
there is one more block than separators -/
theorem npSplit_flatten {α} (l : List α) : ∀ (seps : List Nat) (prev : Nat), Ascending prev seps →
    (npSplit l prev seps).flatten = l.drop prev ∧ (npSplit l prev seps).length = seps.length + 1
  | [], prev, _ => by simp [npSplit]
  | s :: t, prev, h => by
    obtain ⟨h1, h2⟩ := h
    obtain ⟨e, n⟩ := npSplit_flatten l t s h2
    refine ⟨?_, by simp [npSplit, n]⟩
    simp only [npSplit, List.flatten_cons, e]
    exact take_drop_append_drop l h1

/-- block `k` is `l[seps[k-1] : seps[k]]`: its length is the difference of consecutive separators -/
theorem npSplit_head_length {α} (l : List α) (prev s : Nat) (t : List Nat) (h1 : prev ≤ s) (h2 : s ≤ l.length) :
    ((npSplit l prev (s :: t)).head?.map List.length) = some (s - prev) := by
  simp [npSplit, List.length_drop, List.length_take]; omega

theorem fragLoop_strip (multi : Bool) : ∀ (blocks : List (List Str)) (fc fm : List Int) (out : List Str),
    fragLoop multi blocks fc fm = .ok out → (∀ b ∈ blocks, ∀ l ∈ b, l ≠ lit "--") →
    stripHeaders false out = blocks.flatten := by
  intro blocks
  induction blocks with
  | nil => intro fc fm out h _; simp [fragLoop] at h; subst h; rfl
  | cons b bs ih =>
    intro fc fm out h hb
    have hb0 : ∀ l ∈ b, l ≠ lit "--" := hb b (by simp)
    have hbs : ∀ b' ∈ bs, ∀ l ∈ b', l ≠ lit "--" := fun b' hb' => hb b' (by simp [hb'])
    unfold fragLoop at h
    cases multi with
    | true =>
      simp only [if_true] at h
      cases fc with
      | nil => simp at h
      | cons c fc' =>
        cases fm with
        | nil => simp at h
        | cons mm fm' =>
          simp only at h
          cases hr : fragLoop true bs fc' fm' with
          | error e => simp [hr] at h
          | ok r =>
            simp only [hr, Except.ok.injEq] at h
            subst h
            show stripHeaders false (lit "--" :: chgMultLine c mm :: (b ++ r)) = _
            rw [stripHeaders, if_pos rfl, stripHeaders, List.flatten_cons,
              stripHeaders_append_plain b hb0, ih fc' fm' r hr hbs]
    | false =>
      simp only [Bool.false_eq_true, if_false] at h
      cases hr : fragLoop false bs fc.tail fm.tail with
      | error e => simp [hr] at h
      | ok r =>
        simp only [hr, Except.ok.injEq] at h
        subst h
        rw [List.flatten_cons, stripHeaders_append_plain b hb0, ih fc.tail fm.tail r hr hbs]

/-- with more than one fragment, block `k` is headed by `--` and fragment `k`'s charge and multiplicity -/
theorem fragLoop_headers : ∀ (blocks : List (List Str)) (fc fm : List Int) (out : List Str),
    fragLoop true blocks fc fm = .ok out →
    blocks.length ≤ fc.length ∧ blocks.length ≤ fm.length ∧
    out = ((blocks.zip (fc.zip fm)).map (fun x => lit "--" :: chgMultLine x.2.1 x.2.2 :: x.1)).flatten := by
  intro blocks
  induction blocks with
  | nil => intro fc fm out h; simp [fragLoop] at h; subst h; simp
  | cons b bs ih =>
    intro fc fm out h
    unfold fragLoop at h
    simp only [if_true] at h
    cases fc with
    | nil => simp at h
    | cons c fc' =>
      cases fm with
      | nil => simp at h
      | cons mm fm' =>
        simp only at h
        cases hr : fragLoop true bs fc' fm' with
        | error e => simp [hr] at h
        | ok r =>
          simp only [hr, Except.ok.injEq] at h
          obtain ⟨l1, l2, e⟩ := ih fc' fm' r hr
          subst h
          refine ⟨by simp; omega, by simp; omega, ?_⟩
          simp [e]

/-- **fragment blocks partition the atom lines** (psi4, qchem), any number of fragments: removing the
`--`/charge-multiplicity pairs from the fragment loop's output gives back the atom lines, in order, nothing
lost or repeated; with ≥ 1 separator every block is headed by its own fragment's charge and multiplicity and
the blocks are `np.split`'s, which concatenate to the atom lines. -/
theorem fragment_blocks_partition {atoms body : List Str} {m : Mol}
    (h : fragBlocks atoms m = .ok body) (hasc : Ascending 0 m.seps) (hsep : ∀ l ∈ atoms, l ≠ lit "--") :
    stripHeaders false body = atoms ∧
    (npSplit atoms 0 m.seps).flatten = atoms ∧ (npSplit atoms 0 m.seps).length = m.seps.length + 1 ∧
    (m.seps ≠ [] →
      (npSplit atoms 0 m.seps).length ≤ m.fcharges.length ∧ (npSplit atoms 0 m.seps).length ≤ m.fmults.length ∧
      body = (((npSplit atoms 0 m.seps).zip (m.fcharges.zip m.fmults)).map
                (fun x => lit "--" :: chgMultLine x.2.1 x.2.2 :: x.1)).flatten) := by
  obtain ⟨e, n⟩ := npSplit_flatten atoms m.seps 0 hasc
  simp only [List.drop_zero] at e
  unfold fragBlocks at h
  have hmem : ∀ b ∈ npSplit atoms 0 m.seps, ∀ l ∈ b, l ≠ lit "--" := by
    intro b hb l hl
    apply hsep
    rw [← e]
    exact List.mem_flatten.2 ⟨b, hb, hl⟩
  refine ⟨?_, e, n, ?_⟩
  · rw [fragLoop_strip _ _ _ _ _ h hmem, e]
  · intro hne
    have hm : decide (1 < (npSplit atoms 0 m.seps).length) = true := by
      rw [n]
      cases hs : m.seps with
      | nil => exact absurd hs hne
      | cons _ _ => simp
    simp only [hm] at h
    exact fragLoop_headers _ _ _ _ h

/-- an atom line (three coordinates) is never the separator `--`: it contains blanks -/
theorem atomLine_ne_dashes (w : Nat) (nuc : Str) (xyz : List Str) (h : xyz.length = 3) :
    atomLine w false nuc xyz ≠ lit "--" := by
  match xyz, h with
  | [a, b, c], _ =>
    intro he
    have hm : ' ' ∈ atomLine w false nuc [a, b, c] := by simp [atomLine, joinWith, sp2]
    rw [he] at hm
    exact absurd hm (by decide)

/-- so for every molecule record (three coordinates per atom) the hypothesis `hsep` below holds -/
theorem formatter_no_dashes {afmt gfmt : Str} {w : Nat} {atoms : List Atom} {lines : List Str}
    (h : atomsFormatter afmt gfmt w false atoms = .ok lines) (h3 : ∀ a ∈ atoms, a.xyz.length = 3) :
    ∀ l ∈ lines, l ≠ lit "--" := by
  intro l hl
  rw [(formatter_lists_shown_atoms afmt gfmt w false atoms lines h).1] at hl
  obtain ⟨a, ha, rfl⟩ := List.mem_map.1 hl
  exact atomLine_ne_dashes w _ _ (h3 a (List.mem_filter.1 ha).1)

/-- **layout read-back**, all dtypes, all molecules: skip the format's header lines, ignore its footer
lines, drop the `--`/charge-multiplicity pairs (psi4, qchem) — what is left is exactly the list of atom
lines the formatter produced (lower-cased by turbomole): nothing else in the text is an atom line and no
atom line is missing.  (`hsep`: no atom line is literally `--`; see `atomLine_ne_dashes`.) -/
theorem extract_atomLines {o : Opts} {m : Mol} {r : Out} {atoms : List Str}
    (h : render o m = .ok r) (ha : atomBlock o m = .ok atoms)
    (hsep : ∀ l ∈ atoms, l ≠ lit "--") (hasc : Ascending 0 m.seps) :
    unfrag o.dtype (readBlock (hdrLen o.dtype m) (ftrLen o.dtype m) r.lines) = blockOf o.dtype atoms := by
  obtain ⟨atoms', body, uw, ha', hb, _, hr⟩ := render_ok h
  rw [ha] at ha'
  cases ha'
  subst hr
  simp only
  rw [← header_length o.dtype m uw atoms.length, ← footer_length o.dtype m uw, readBlock_append]
  cases hd : o.dtype <;> simp only [hd, bodyOf, Except.ok.injEq] at hb <;>
    first
    | (subst hb; rfl)
    | exact (fragment_blocks_partition hb hasc hsep).1

/-- non-vacuity (test, kernel-evaluated): a two-fragment psi4 block with a ghost; the hypotheses of
`extract_atomLines` hold and its conclusion is the two atom lines -/
def exMol : Mol :=
  ⟨[⟨-1, 1, ['H'], [], [], true, [['1'], ['2'], ['3']]⟩, ⟨-1, 2, ['H', 'e'], [], ['x'], false, [['4'], ['5'], ['6']]⟩],
   some ['m'], 1, 2, [1], [1, 0], [1, 2], true, false, none, []⟩
def exOpts : Opts := ⟨.psi4, .dflt, none, none, 3, .bohr, false⟩

example : (render exOpts exMol).map (·.lines) = .ok
    (["1 2", "--", "1 1", "H      1    2    3", "--", "0 2", "Gh(Hex)    4    5    6", "units bohr", "no_com"].map String.toList) := by
  decide
example : ∃ r atoms, render exOpts exMol = .ok r ∧ atomBlock exOpts exMol = .ok atoms ∧
    (∀ l ∈ atoms, l ≠ lit "--") ∧ Ascending 0 exMol.seps ∧ atoms.length = 2 := by
  refine ⟨_, _, rfl, rfl, ?_, by simp [Ascending, exMol], rfl⟩
  decide

/-! ## molpro dummy card -/

/-- the numbers on the molpro `dummy` card are exactly the 1-based positions of the ghost atoms, in
ascending order without repetition; the card is absent exactly when every atom is real -/
theorem molpro_dummy_indices (atoms : List Atom) :
    (∀ n, n ∈ ghostIndices 0 atoms ↔ ∃ i a, atoms[i]? = some a ∧ a.real = false ∧ n = i + 1) ∧
    List.Pairwise (· < ·) (ghostIndices 0 atoms) ∧
    ((ghostIndices 0 atoms).isEmpty = atoms.all (·.real)) := by
  refine ⟨fun n => ?_, ghostIndices_sorted atoms 0, ghostIndices_isEmpty atoms 0⟩
  rw [ghostIndices_mem atoms 0 n]
  simp

/-- (test) ghosts at positions 2 and 3 of four atoms -/
example : ghostIndices 0 [⟨-1, 1, [], [], [], true, []⟩, ⟨-1, 1, [], [], [], false, []⟩, ⟨-1, 1, [], [], [], false, []⟩,
    ⟨-1, 1, [], [], [], true, []⟩] = [2, 3] := by decide

/-! ## charge and multiplicity -/

def notSp (c : Char) : Bool := c != ' '

/-- the two leading blank-separated integers of a line -/
def readTwo (l : Str) : Int × Int :=
  (readInt (l.takeWhile notSp), readInt (((l.dropWhile notSp).drop 1).takeWhile notSp))

theorem takeWhile_ne_space (s r : Str) (hs : ∀ c ∈ s, c ≠ ' ') :
    (s ++ ' ' :: r).takeWhile notSp = s ∧ (s ++ ' ' :: r).dropWhile notSp = ' ' :: r := by
  induction s with
  | nil => simp [List.takeWhile_cons, List.dropWhile_cons, notSp]
  | cons c t ih =>
    have hc : notSp c = true := by simp [notSp, hs c (by simp)]
    obtain ⟨e1, e2⟩ := ih (fun d hd => hs d (by simp [hd]))
    simp only [List.cons_append, List.takeWhile_cons, List.dropWhile_cons, hc, if_true, e1, e2, and_self]

theorem takeWhile_ne_space_end (s : Str) (hs : ∀ c ∈ s, c ≠ ' ') : s.takeWhile notSp = s := by
  induction s with
  | nil => rfl
  | cons c t ih =>
    have hc : notSp c = true := by simp [notSp, hs c (by simp)]
    simp only [List.takeWhile_cons, hc, if_true, ih (fun d hd => hs d (by simp [hd]))]

/-- reading `"c m"` or `"c m rest"` back gives the integers that were written -/
theorem readTwo_chgMult (c mm : Int) :
    readTwo (chgMultLine c mm) = (c, mm) ∧ ∀ rest, readTwo (intStr c ++ ' ' :: intStr mm ++ ' ' :: rest) = (c, mm) := by
  constructor
  · unfold readTwo chgMultLine
    obtain ⟨e1, e2⟩ := takeWhile_ne_space (intStr c) (intStr mm) (intStr_no_space c)
    rw [e1, e2, List.drop_one, List.tail_cons, takeWhile_ne_space_end _ (intStr_no_space mm), readInt_intStr, readInt_intStr]
  · intro rest
    have ea : intStr c ++ ' ' :: intStr mm ++ ' ' :: rest = intStr c ++ ' ' :: (intStr mm ++ ' ' :: rest) := by simp
    rw [ea]
    unfold readTwo
    obtain ⟨e1, e2⟩ := takeWhile_ne_space (intStr c) (intStr mm ++ ' ' :: rest) (intStr_no_space c)
    rw [e1, e2, List.drop_one, List.tail_cons, (takeWhile_ne_space (intStr mm) rest (intStr_no_space mm)).1,
      readInt_intStr, readInt_intStr]

def kwGet (k : Str) (kws : List (Str × KwVal)) : Option KwVal := (kws.find? (fun kv => kv.1 = k)).map (·.2)

/-- **charge and multiplicity are the molecule's**, per format with a slot (integer charges; every molecule,
every unit word `uw`, every number `n` of atom lines):
text slots are read back with `readTwo`/`readInt`, keyword slots with `kwGet`;
molpro states spin = multiplicity − 1, nwchem `scf__nopen` = multiplicity − 1 and only for non-singlets,
madness only a `spin_restricted` flag.  terachem, turbomole and nglview-sdf have no slot at all. -/
theorem chgmult_stated (m : Mol) (uw : UnitWord) (n : Nat) (atoms : List Str) :
    -- xyz, xyz+ : second line "c m name"
    ((header .xyz m uw n)[1]?.map readTwo = some (m.charge, m.mult) ∧
     (header .xyzp m uw n)[1]?.map readTwo = some (m.charge, m.mult)) ∧
    -- orca : "*xyz c m"
    (header .orca m uw n)[2]? = some (lit "*xyz " ++ chgMultLine m.charge m.mult) ∧
    -- psi4 first line, qchem second line : "c m"
    ((header .psi4 m uw n)[0]?.map readTwo = some (m.charge, m.mult) ∧
     (header .qchem m uw n)[1]?.map readTwo = some (m.charge, m.mult)) ∧
    -- mrchem : text and keywords
    ((header .mrchem m uw n)[1]? = some (lit "charge = " ++ intStr m.charge) ∧
     (header .mrchem m uw n)[2]? = some (lit "multiplicity = " ++ intStr m.mult) ∧
     kwGet (lit "charge") (keywordsOf .mrchem m uw atoms) = some (.int m.charge) ∧
     kwGet (lit "multiplicity") (keywordsOf .mrchem m uw atoms) = some (.int m.mult)) ∧
    -- molpro : the last two cards
    ((footer .molpro m uw).reverse[1]? = some (lit "set,charge=" ++ intStr m.charge ++ lit ".0") ∧
     (footer .molpro m uw).reverse[0]? = some (lit "set,spin=" ++ intStr (m.mult - 1))) ∧
    -- cfour, gamess keywords
    (kwGet (lit "charge") (keywordsOf .cfour m uw atoms) = some (.int m.charge) ∧
     kwGet (lit "multiplicity") (keywordsOf .cfour m uw atoms) = some (.int m.mult) ∧
     kwGet (lit "contrl__icharg") (keywordsOf .gamess m uw atoms) = some (.int m.charge) ∧
     kwGet (lit "contrl__mult") (keywordsOf .gamess m uw atoms) = some (.int m.mult)) ∧
    -- nwchem keywords
    (kwGet (lit "charge") (keywordsOf .nwchem m uw atoms) = some (.int m.charge) ∧
     (m.mult ≠ 1 →
        kwGet (lit "scf__nopen") (keywordsOf .nwchem m uw atoms) = some (.int (m.mult - 1)) ∧
        kwGet (lit "dft__mult") (keywordsOf .nwchem m uw atoms) = some (.int m.mult) ∧
        kwGet (lit "mcscf__multiplicity") (keywordsOf .nwchem m uw atoms) = some (.int m.mult)) ∧
     (m.mult = 1 → keywordsOf .nwchem m uw atoms = [(lit "charge", .int m.charge)])) ∧
    -- madness keywords
    (kwGet (lit "charge") (keywordsOf .madness m uw atoms) = some (.int m.charge) ∧
     (kwGet (lit "spin_restricted") (keywordsOf .madness m uw atoms) = some (.str (lit "false")) ↔ m.mult ≠ 1)) ∧
    -- no slot
    (keywordsOf .terachem m uw atoms = [] ∧ keywordsOf .turbomole m uw atoms = [] ∧ keywordsOf .sdf m uw atoms = []) := by
  have r1 := (readTwo_chgMult m.charge m.mult).1
  have r2 := (readTwo_chgMult m.charge m.mult).2 m.nameOr
  refine ⟨⟨?_, ?_⟩, ?_, ⟨?_, ?_⟩, ⟨?_, ?_, ?_, ?_⟩, ⟨?_, ?_⟩, ⟨?_, ?_, ?_, ?_⟩, ⟨?_, ?_, ?_⟩, ⟨?_, ?_⟩, ?_⟩
  · simp only [header, List.getElem?_cons_succ, List.getElem?_cons_zero, Option.map_some]
    rw [← r2]
  · simp only [header, List.getElem?_cons_succ, List.getElem?_cons_zero, Option.map_some]
    rw [← r2]
  · simp [header]
  · simp [header, r1]
  · simp [header, r1]
  · simp [header]
  · simp [header]
  · simp [kwGet, keywordsOf, lit]
  · simp [kwGet, keywordsOf, lit]
  · simp [footer]
  · simp [footer]
  · simp [kwGet, keywordsOf, lit]
  · simp [kwGet, keywordsOf, lit]
  · simp [kwGet, keywordsOf, lit]
  · simp [kwGet, keywordsOf, lit]
  · simp [kwGet, keywordsOf, lit]
  · intro h; simp [kwGet, keywordsOf, lit, h]
  · intro h; simp [keywordsOf, h]
  · simp [kwGet, keywordsOf, lit]
  · by_cases h : m.mult = 1 <;> simp [kwGet, keywordsOf, lit, h]
  · simp [keywordsOf]

/-! ## the announced unit is the unit used: the complete decision table -/

/-- what the target program understands when it reads the unit word -/
inductive Announce where
  | unit (u : TUnit)   -- a length unit
  | nothing            -- the format has no unit slot and fixes no unit (mrchem)
  | notAUnit           -- the slot holds something the program cannot read as a unit (the word `None`)
  deriving DecidableEq, Repr

/-- each program's own vocabulary (stated independently of `umap`); turbomole `$coord` is Bohr and an SDF
mol block is Angstrom by definition of those formats -/
def readWord (d : Dtype) (uw : UnitWord) : Announce :=
  match d, uw with
  | .turbomole, .silent => .unit .bohr
  | .sdf, .silent => .unit .angstrom
  | _, .silent => .nothing
  | _, .pyNone => .notAUnit
  | d, .word w =>
    let tbl : List (Str × TUnit) :=
      match d with
      | .xyz | .xyzp => [([], .angstrom), (lit "au", .bohr), (lit "nm", .nm), (lit "pm", .pm)]
      | .terachem => [([], .angstrom), (lit "au", .bohr)]
      | .orca => [(lit "!", .angstrom), (lit "! Bohrs", .bohr)]
      | .cfour | .molpro | .psi4 => [(lit "angstrom", .angstrom), (lit "bohr", .bohr)]
      | .nwchem => [(lit "angstroms", .angstrom), (lit "bohr", .bohr), (lit "nanometers", .nm), (lit "picometers", .pm)]
      | .madness => [(lit "angstrom", .angstrom), (lit "au", .bohr)]
      | .gamess => [(lit "angs", .angstrom), (lit "bohr", .bohr)]
      | .qchem => [(lit "False", .angstrom), (lit "True", .bohr)]     -- INPUT_BOHR
      | _ => []
    match tbl.find? (fun e => e.1 = w) with
    | some e => .unit e.2
    | none => .notAUnit

/-- the factor that converts `stored` coordinates into unit `u` (the specification) -/
def idealFactor (stored : SUnit) (u : TUnit) (pinned : Bool) : Factor :=
  match stored, u with
  | .bohr, .bohr | .angstrom, .angstrom => .one
  | .angstrom, .bohr => if pinned then .pinned else .invB2A
  | .bohr, .angstrom => .b2a
  | s, .nm => .conv s .nm
  | s, .pm => .conv s .pm

/-- one row of the table: what happens for (dtype, stored unit, `units=` request, pinned or not) -/
def outcome (d : Dtype) (s : SUnit) (r : Req) (p : Bool) : Except Err (Factor × Announce) :=
  (unitWord d (resolve d r)).map fun uw => (selectFactor s (resolve d r) p, readWord d uw)

def rowOk (d : Dtype) (s : SUnit) (r : Req) (p : Bool) : Bool :=
  match outcome d s r p with
  | .ok (f, .unit u) => decide (f = idealFactor s u p)
  | _ => true

theorem rowOk_all (d : Dtype) (s : SUnit) (r : Req) (p : Bool) : rowOk d s r p = true := by
  cases d <;> cases s <;> cases r <;> cases p <;> decide

/-- **announced unit = unit used**: in every one of the 14 × 2 × 5 × 2 rows, whenever the unit word that is
written (the same `unitWord` every branch of `render` uses) is read by the target program as unit `u`, the
factor that multiplied the stored coordinates is the one converting stored → `u`. -/
theorem announced_unit_is_used (d : Dtype) (s : SUnit) (r : Req) (p : Bool) (f : Factor) (u : TUnit)
    (h : outcome d s r p = .ok (f, .unit u)) : f = idealFactor s u p := by
  have hk := rowOk_all d s r p
  unfold rowOk at hk
  rw [h] at hk
  simpa using hk

/-- non-vacuity: e.g. nwchem in picometers from Angstrom storage announces pm -/
example : outcome .nwchem .angstrom .pm true = .ok (.conv .angstrom .pm, .unit .pm) := by decide

/-- the rows that refuse -/
def refuses (d : Dtype) (r : Req) : Option Err :=
  match d, resolve d r with
  | .orca, .nm | .orca, .pm | .terachem, .nm | .terachem, .pm | .psi4, .nm | .psi4, .pm
  | .qchem, .nm | .qchem, .pm => some .keyError
  | .turbomole, .angstrom | .turbomole, .nm | .turbomole, .pm => some .keyError
  | .sdf, .bohr | .sdf, .nm | .sdf, .pm => some .valueError
  | _, _ => none

/-- **error rows, explicit**: a row raises exactly when the format cannot spell the unit — KeyError for
orca/terachem/psi4/qchem × nm, pm and turbomole × anything but Bohr, ValueError for SDF × anything but
Angstrom — independent of storage unit and pinning; every other row renders. -/
theorem unit_error_rows (d : Dtype) (s : SUnit) (r : Req) (p : Bool) :
    (∀ e, outcome d s r p = .error e ↔ refuses d r = some e) := by
  cases d <;> cases s <;> cases r <;> cases p <;> intro e <;> cases e <;> decide

/-- **rows that write the word `None`** instead of a unit (outside the property's quantifier: formats that do
not spell nm/pm but do not refuse either): exactly cfour, molpro, gamess, madness × nm, pm. -/
theorem unit_none_rows (d : Dtype) (s : SUnit) (r : Req) (p : Bool) :
    (outcome d s r p).map (·.2) = .ok .notAUnit ↔
      ((d = .cfour ∨ d = .molpro ∨ d = .gamess ∨ d = .madness) ∧ (r = .nm ∨ r = .pm)) := by
  cases d <;> cases s <;> cases r <;> cases p <;> decide

/-- mrchem never announces anything (its coordinates are in whatever unit was requested) -/
theorem mrchem_announces_nothing (s : SUnit) (r : Req) (p : Bool) :
    ∃ f, outcome .mrchem s r p = .ok (f, .nothing) := ⟨_, rfl⟩

/-! ## coordinates: the chain text ↔ printed double ↔ stored coordinate × selected factor -/

theorem checkCoords_ok (f : Rat) (prec : Nat) : ∀ (coords : List (List Coord)) (i : Nat),
    checkCoords f prec i coords = .ok →
    ∀ cs ∈ coords, ∀ c ∈ cs, isRoundedTo (c.x * f) c.p = true ∧ isFixedRounding c.neg c.p prec c.text = true := by
  intro coords
  induction coords with
  | nil => intro i _ cs hcs; simp at hcs
  | cons cs0 t ih =>
    intro i h cs hcs c hc
    unfold checkCoords at h
    by_cases h1 : (cs0.all fun c => isRoundedTo (c.x * f) c.p) = true
    · by_cases h2 : (cs0.all fun c => isFixedRounding c.neg c.p prec c.text) = true
      · simp only [h1, h2, Bool.not_true, Bool.false_eq_true, if_false] at h
        simp only [List.mem_cons] at hcs
        rcases hcs with rfl | hcs
        · exact ⟨List.all_eq_true.1 h1 c hc, List.all_eq_true.1 h2 c hc⟩
        · exact ih (i + 1) h cs hcs c hc
      · simp [h1, h2] at h
    · simp [h1] at h

/-- **what the driver has checked before it renders**: there is a value `f` for the factor the model selects
(`selectFactor`, to_string.py:98-110) such that every printed coordinate text is the unique correctly rounded
`prec`-digit decimal (4 digits for SDF) of a double `p` that is within relative 2⁻⁵³ of `x · f` for the stored
coordinate `x` — the two third-party steps (numpy multiply, CPython print) are pinned on every value used. -/
theorem checked_coordinates {o : Opts} {prec : Nat} {c : Consts} {coords : List (List Coord)}
    (h : checkParams o prec c coords = .ok) :
    ∃ f, factorValue c (selectFactor o.stored (resolve o.dtype o.req) o.pinned) = some f ∧
      ∀ cs ∈ coords, ∀ cd ∈ cs, isRoundedTo (cd.x * f) cd.p = true ∧
        isFixedRounding cd.neg cd.p (branchPrec o.dtype prec) cd.text = true := by
  unfold checkParams at h
  cases hf : factorValue c (selectFactor o.stored (resolve o.dtype o.req) o.pinned) with
  | none => simp [hf] at h
  | some f =>
    simp only [hf] at h
    exact ⟨f, rfl, checkCoords_ok f _ coords 0 h⟩

-- test: 1.5 Å × (1/0.52917721067 as a double) printed at 5 places
#guard checkParams ⟨.psi4, .bohr, none, none, 12, .angstrom, false⟩ 5
  ⟨(4766404577572741 : Rat) / 9007199254740992, (4255284937222083 : Rat) / 2251799813685248, none, none⟩
  [[⟨(3 : Rat) / 2, (1595731851458281 : Rat) / 562949953421312, false, "2.83459".toList⟩]] == .ok

end QcelVerif.ToString
