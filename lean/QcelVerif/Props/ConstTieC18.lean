import QcelVerif.Model.MeasureRadii
import QcelVerif.Gen.SrcConsts
import QcelVerif.Props.ConstTieLib
/-!
# C18 — the literals of the measure / connectivity models are those of `misc.py` and `connectivity.py`

Inline in the models: the clip bounds `(-1, 1)` of `compute_angle` (`Measure.angleCos`), the factor `-1.0` of
`compute_dihedral`'s first vector (`dihedralXY`, `dihedralArgs`), the fall-back radius `1.8` of `guess_connectivity`
(both `covalentradii.get(s, missing=1.8)` and the `except NotAnElementError` branch; `Measure.missing18`), the strict
bond criterion `dists < (r_i + r_j) * threshold` and the truthiness test of `default_connectivity`.  The default
`threshold=1.2` is an argument of the model: it is pinned to the double harness/c18.py uses when it leaves the keyword
out (line 1833).  `Gen/SrcConsts.lean` is rewritten on every run from the two sources (by `ast`).

PROPERTY-THEOREMS: measure_float_literals_ok missing_radius_matches_source clip_bounds_match_source
  dihedral_first_vector_matches_source bond_criterion_matches_source threshold_default_matches_source
  default_connectivity_matches_source
-/
namespace QcelVerif.Measure
open QcelVerif QcelVerif.ConstTie V3

theorem measure_float_literals_ok :
    FloatLit.ok Src.guess_connectivity.threshold Src.guess_connectivity.threshold_dec Src.guess_connectivity.threshold_bits Src.guess_connectivity.threshold_f64 = true ∧
    FloatLit.ok Src.guess_connectivity.missing_radius Src.guess_connectivity.missing_radius_dec Src.guess_connectivity.missing_radius_bits Src.guess_connectivity.missing_radius_f64 = true ∧
    FloatLit.ok Src.guess_connectivity.unknown_symbol_radius Src.guess_connectivity.unknown_symbol_radius_dec Src.guess_connectivity.unknown_symbol_radius_bits Src.guess_connectivity.unknown_symbol_radius_f64 = true ∧
    FloatLit.ok Src.compute_dihedral.v1_factor Src.compute_dihedral.v1_factor_dec Src.compute_dihedral.v1_factor_bits Src.compute_dihedral.v1_factor_f64 = true := by
  decide +kernel

/-- the model's fall-back radius is the double of BOTH source literals (`missing=1.8` and the handler's `1.8`) -/
theorem missing_radius_matches_source :
    missing18 = Src.guess_connectivity.missing_radius_f64 ∧
    missing18 = Src.guess_connectivity.unknown_symbol_radius_f64 := by
  decide +kernel

/-- `cosine_angle = np.clip(dot / denom, lo, hi)` with the source's bounds -/
theorem clip_bounds_match_source (n12 n23 : Rat) (p1 p2 p3 : V3 Rat) :
    angleCos n12 n23 p1 p2 p3 =
      clip (dot (p1 - p2) (p2 - p3) / (n12 * n23))
        ((Src.compute_angle.clip_lo : Int) : Rat) ((Src.compute_angle.clip_hi : Int) : Rat) := by
  have h1 : Src.compute_angle.clip_lo = -1 := by decide
  have h2 : Src.compute_angle.clip_hi = 1 := by decide
  rw [h1, h2]
  simp [angleCos]

/-- `v1 = -1.0 * (points2 - points1)`: the model's first vector carries the source's factor -/
theorem dihedral_first_vector_matches_source (n : Rat) (p1 p2 p3 p4 : V3 Rat) :
    dihedralXY n p1 p2 p3 p4 =
      (let v1 := Src.compute_dihedral.v1_factor_f64 • (p2 - p1)
       let v2 := (1 / n) • (p3 - p2)
       let v3 := p4 - p3
       let v := v1 - (dot v1 v1) • v2
       let w := v3 - (dot v3 v2) • v2
       (dot v w, dot (cross v2 v) w)) := by
  have h : Src.compute_dihedral.v1_factor_f64 = -1 := by decide +kernel
  rw [h]
  rfl

/-- two atoms are bonded iff the cutoff `(r_a + r_b)·thr` is positive and the squared distance is strictly below its
square — the source's `dists < cutoff` on the non-negative root -/
theorem bond_criterion_matches_source (thr : Rat) (a b : Atom Rat) :
    bonded thr a b = decide (0 < (a.r + b.r) * thr ∧ distSq a.p b.p < ((a.r + b.r) * thr) * ((a.r + b.r) * thr)) ∧
    Src.guess_connectivity.criterion_strict = true :=
  ⟨rfl, by decide⟩

/-- `threshold=1.2`: the double harness/c18.py hands to the model when the keyword is left out -/
theorem threshold_default_matches_source :
    Src.guess_connectivity.threshold_f64 = (5404319552844595 : Rat) / 4503599627370496 ∧
    Src.guess_connectivity.threshold = 6 / 5 := by
  decide +kernel

/-- `default_connectivity=None` by default, and it is applied only when truthy: `None` and `0` give plain pairs -/
theorem default_connectivity_matches_source (thr : Rat) (atoms : List (Atom Rat)) :
    Src.guess_connectivity.default_connectivity = none ∧
    guessConnectivityDC thr none atoms = (guessConnectivity thr atoms).map (fun (i, j) => (i, j, none)) ∧
    guessConnectivityDC thr (some 0) atoms = (guessConnectivity thr atoms).map (fun (i, j) => (i, j, none)) := by
  refine ⟨by decide, rfl, ?_⟩
  simp [guessConnectivityDC]

end QcelVerif.Measure
