import QcelVerif.Props.C11
import QcelVerif.Lemmas.HashConcrete
import QcelVerif.Model.HashConcrete
/-!
# C11 — the hypotheses of the general theorems, discharged for the CONCRETE parameters of the driver

`Props/C11.lean` / `Props/C11Preimage.lean` take as hypotheses
  * `FlOk fl`      : the rounding of `x * 10^k` to a double is within 1/256 for `|y| ≤ 2^45`;
  * `Params.Ok P`  : the float printers are injective, non-empty, delimiter-free.
The driver (`Driver/C11.lean: drvParams = concreteParams …`) runs with `fl = rndDouble` (round-to-nearest-even
to 53 bits), `reprF = reprRd`, `reprB = reprRat` (shortest `repr` of a short decimal).  Here:

  * `flOk_concrete`            : `FlOk rndDouble` — unconditional.
  * `concrete_printer_exact`   : read back as a decimal literal, `reprRd k r` denotes exactly
                                 `(-1)^neg · mag / 10^k` — for EVERY `k` and EVERY `r : Rd` (no bound on `mag`).
  * `reprF_concrete_ok`        : hence `reprRd k` is injective, non-empty, over `0-9 + - . e` — all `r`, all `k`.
  * `reprB_concrete_ok`        : `reprRat` likewise on `DecPrintable` bond orders (denominator divides `10^k`,
                                 `k ≤ 18`; e.g. every multiple of 1/8).  On other rationals `reprRat` prints `?`
                                 and is NOT injective, so `Params.Ok` (which quantifies over all rationals) is false
                                 of the concrete printer; `preimage_injective_on` generalises `preimage_injective`
                                 to a domain of bond orders (the old theorem is its instance at `True`).
  * every theorem of the audited list that took `FlOk` / `Params.Ok`, restated at `concreteParams` with those
    hypotheses gone (`…_concrete`).

DOMAIN.  Canonical values are `Rd = ⟨neg, mag⟩` read at `k` decimals.  Printing is proved for all of them.
Rounding (`FlOk`) is needed by the general theorems only on `Bdd k x` (`|x·10^k| ≤ 2^45`), which the ASSUMPTIONS
imply for every validated molecule in scope: `|coordinate| < 1e5` bohr → `< 1e13 < 2^45 ≈ 3.5e13`; masses `< 300`
→ `< 3e8`; charges `|q| < 1e3` → `< 1e7`.

STILL ABSTRACT.  `sha1` (collision-freeness stays an explicit hypothesis of `hash_eq_iff_fields_agree_concrete`)
and `massOf` (C01's table, arbitrary here).  STILL TRUSTED about the parameters: only that CPython's
`repr(float)` / `json.dumps` prints, for the double nearest to `mag/10^k` with at most 15 significant digits,
the same characters as `reprRd` — which the driver/harness compare character by character on every preimage —
and that numpy's product `x * 10**k` is the correctly rounded double (`rndDouble`, compared on value streams).

PROPERTY-THEOREMS: flOk_concrete concrete_printer_exact reprF_concrete_ok reprB_concrete_ok
  preimage_injective_on concreteParams_okOn preimage_injective_concrete hash_sign_of_zero_concrete
  prepArr_small_zero_concrete round_stable_concrete hash_noise_concrete prep_idempotent_concrete
  construct_hash_concrete canon_eq_iff_fields_agree_concrete hash_eq_iff_fields_agree_concrete
  round_separates_concrete single_edit_changes_canon_concrete
-/
namespace QcelVerif.Hash

/-! ## the concrete rounding -/

/-- **`rndDouble` satisfies `FlOk`**: `|rndDouble y − y| ≤ 1/256` whenever `|y| ≤ 2^45` (no other hypothesis). -/
theorem flOk_concrete : FlOk rndDouble := flOk_rndDouble

/-- test: 207.9766525 · 10^6 (a default mass on a decimal near-tie) is within 1/256 of its rounding -/
example : |rndDouble (2079766525 / 10) - 2079766525 / 10| ≤ 1 / 256 :=
  flOk_concrete _ (by rw [abs_le]; constructor <;> norm_num)

/-! ## the concrete printers -/

/-- **The concrete printer prints the exact value.**  `decode` (a reader of decimal literals
`[-]I[.F][e±X]`, `Lemmas/HashConcrete.lean`) maps the printed string back to sign bit and magnitude. -/
theorem concrete_printer_exact (k : Nat) (r : Rd) : decode (reprRd k r) = (r.neg, (r.mag : Rat) / (10 : Rat) ^ k) :=
  decode_reprDec r.neg r.mag k

/-- tests (kernel evaluation of the printer itself) -/
example : reprRd 8 ⟨true, 0⟩ = "-0.0".toList := by decide +kernel
example : reprRd 8 ⟨false, 1⟩ = "1e-08".toList := by decide +kernel
example : reprRd 8 ⟨true, 150000000⟩ = "-1.5".toList := by decide +kernel
example : reprRd 6 ⟨false, 15994915⟩ = "15.994915".toList := by decide +kernel
example : reprRd 4 ⟨false, 10000⟩ = "1.0".toList := by decide +kernel

/-- **`reprF` of the driver meets what `Params.Ok` asks**, for every number of decimals and every value. -/
theorem reprF_concrete_ok (k : Nat) : Atomic (fun _ : Rd => True) (reprRd k) := reprRd_atomic k

/-- **`reprB` of the driver meets it on printable bond orders** (not on all rationals: see the header). -/
theorem reprB_concrete_ok : Atomic DecPrintable reprRat := reprRat_atomic

/-- the bond orders of the model stream (multiples of 1/8) are printable; so is any `n / 10^j`, `j ≤ 18` -/
theorem decPrintable_eighths (n : Int) : DecPrintable ((n : Rat) / 8) := by
  apply decPrintable_of_dvd _ 3 (by norm_num)
  have h : ((Rat.divInt n 8).den : Int) ∣ 8 := Rat.den_dvd n 8
  have e : Rat.divInt n 8 = (n : Rat) / 8 := by rw [Rat.divInt_eq_div]; norm_num
  rw [e] at h
  have h' : ((n : Rat) / 8).den ∣ 8 := by exact_mod_cast h
  exact Nat.dvd_trans h' (by decide)

/-- non-vacuity: 1.5 is printable, 1/3 is not (the printer answers `?`) -/
example : DecPrintable (3 / 2) ∧ ¬ DecPrintable (1 / 3) := by decide +kernel

/-- `reprRat` is NOT injective on all rationals — why `Params.Ok` cannot hold of the concrete printer -/
theorem reprRat_not_injective : reprRat (1 / 3) = reprRat (1 / 7) ∧ (1 / 3 : Rat) ≠ 1 / 7 := by decide +kernel

/-! ## `preimage_injective` with a domain for the bond orders -/

/-- `Params.Ok` with the bond-order printer assumed only on a domain `SB` -/
structure Params.OkOn {D} (P : Params D) (SB : Rat → Prop) : Prop where
  reprF : ∀ k, Atomic (fun _ : Rd => True) (P.reprF k)
  reprB : Atomic SB P.reprB

theorem Params.Ok.okOn {D} {P : Params D} (h : P.Ok) : P.OkOn (fun _ => True) := ⟨h.reprF, h.reprB⟩

/-- every stored bond order lies in `SB` -/
def Canon.BondsIn (SB : Rat → Prop) (c : Canon) : Prop := ∀ l, c.connectivity = some l → ∀ b ∈ l, SB b.order

theorem renderBond_sd_on {SB : Rat → Prop} {reprB : Rat → List Char} (hB : Atomic SB reprB) :
    SD (fun b : Bond => SB b.order) (renderBond reprB) where
  head a _ := ⟨'[', _, rfl, by decide⟩
  split x y s t hx hy h _ _ := by
    simp only [renderBond, List.cons_append, List.append_assoc, List.cons.injEq, true_and, List.nil_append] at h
    have comma : ∀ r : List Char, ∀ c r', (',' :: r) = c :: r' → tokCh c = false := by
      intro r c r' e; injection e with e1 _; subst e1; decide
    have brack : ∀ r : List Char, ∀ c r', (']' :: r) = c :: r' → tokCh c = false := by
      intro r c r' e; injection e with e1 _; subst e1; decide
    obtain ⟨h1, h2⟩ := tok_split (showNat_atomic.tok x.a trivial) (showNat_atomic.tok y.a trivial) (comma _) (comma _) h
    simp only [List.cons.injEq, true_and] at h2
    obtain ⟨h3, h4⟩ := tok_split (showNat_atomic.tok x.b trivial) (showNat_atomic.tok y.b trivial) (comma _) (comma _) h2
    simp only [List.cons.injEq, true_and] at h4
    obtain ⟨h5, h6⟩ := tok_split (hB.tok x.order hx) (hB.tok y.order hy) (brack _) (brack _) h4
    simp only [List.cons.injEq, true_and] at h6
    refine ⟨?_, h6⟩
    have := hB.inj _ _ hx hy h5
    cases x; cases y
    simp only [Bond.mk.injEq]
    exact ⟨showNat_inj h1, showNat_inj h3, this⟩

theorem renderConn_inj_on {SB : Rat → Prop} {reprB : Rat → List Char} (hB : Atomic SB reprB) :
    ∀ a b : Option (List Bond), (∀ l, a = some l → ∀ x ∈ l, SB x.order) → (∀ l, b = some l → ∀ x ∈ l, SB x.order) →
      renderConn reprB a = renderConn reprB b → a = b
  | none, none, _, _, _ => rfl
  | none, some l, _, _, h => by
      have := congrArg List.head? h
      simp [renderConn, renderList] at this
  | some l, none, _, _, h => by
      have := congrArg List.head? h
      simp [renderConn, renderList] at this
  | some l, some l', ha, hb, h => by
      simp only [renderConn] at h
      have := renderList_inj (renderBond_sd_on hB) l l' [] [] (ha l rfl) (hb l' rfl) (by simpa using h)
      rw [this.1]

/-- **The preimage is injective on validated canonical data whose bond orders lie in the printer's domain.** -/
theorem preimage_injective_on {D} (P : Params D) (SB : Rat → Prop) (hP : P.OkOn SB) (c c' : Canon)
    (hc : c.Valid) (hc' : c'.Valid) (hb : c.BondsIn SB) (hb' : c'.BondsIn SB)
    (h : preimage P c = preimage P c') : c = c' := by
  unfold preimage at h
  have T : ∀ {α} (l : List α), ∀ x ∈ l, (fun _ : α => True) x := fun _ _ _ => trivial
  obtain ⟨e1, h⟩ := renderList_inj showStr_atomic.sd _ _ _ _ hc.letters hc'.letters h
  obtain ⟨e2, h⟩ := renderList_inj (hP.reprF MASS_NOISE).sd _ _ _ _ (T _) (T _) h
  rw [← List.append_assoc, ← List.append_assoc (P.reprF CHARGE_NOISE c'.charge)] at h
  have open_ : ∀ (f : Bool → List Char) (l : List Bool) (r : List Char), ∀ ch r', renderList f l ++ r = ch :: r' → tokCh ch = false := by
    intro f l r ch r' e
    simp only [renderList, List.cons_append] at e
    injection e with e1 _; subst e1; decide
  have tokU : ∀ (x : Rd) (m : Int), ∀ ch ∈ P.reprF CHARGE_NOISE x ++ showInt m, tokCh ch = true := by
    intro x m ch hch
    rcases List.mem_append.mp hch with h1 | h1
    · exact (hP.reprF CHARGE_NOISE).tok x trivial ch h1
    · exact showInt_tok m ch h1
  obtain ⟨eU, h⟩ := tok_split (tokU c.charge c.mult) (tokU c'.charge c'.mult) (open_ _ _ _) (open_ _ _ _) h
  obtain ⟨e5, h⟩ := renderList_inj showBool_atomic.sd _ _ _ _ (T _) (T _) h
  obtain ⟨e6, h⟩ := renderList_inj (hP.reprF GEOMETRY_NOISE).sd _ _ _ _ (T _) (T _) h
  obtain ⟨e7, h⟩ := renderList_inj (renderList_sd showInt_atomic.sd) _ _ _ _ (fun _ _ => T _) (fun _ _ => T _) h
  obtain ⟨e8, h⟩ := renderList_inj (hP.reprF CHARGE_NOISE).sd _ _ _ _ (T _) (T _) h
  have h' : renderList showInt c.fragMults ++ (renderConn P.reprB c.connectivity ++ [])
      = renderList showInt c'.fragMults ++ (renderConn P.reprB c'.connectivity ++ []) := by simpa using h
  obtain ⟨e9, h'⟩ := renderList_inj showInt_atomic.sd _ _ _ _ (T _) (T _) h'
  have e10 := renderConn_inj_on hP.reprB _ _ hb hb' (by simpa using h')
  have e3 : c.charge = c'.charge := by rw [hc.chargeTied, hc'.chargeTied, e8]
  have e4 : c.mult = c'.mult := by
    rw [e3] at eU
    exact showInt_inj _ _ (List.append_cancel_left eU)
  cases c; cases c'
  simp only [Canon.mk.injEq]
  simp_all

/-- the existing theorem is the instance `SB = True` (sanity: nothing was lost by generalising) -/
example {D} (P : Params D) (hP : P.Ok) (c c' : Canon) (hc : c.Valid) (hc' : c'.Valid)
    (h : preimage P c = preimage P c') : c = c' :=
  preimage_injective_on P (fun _ => True) hP.okOn c c' hc hc' (fun _ _ _ _ => trivial) (fun _ _ _ _ => trivial) h

/-! ## the concrete parameters: hypotheses discharged -/

section concrete
variable {D : Type} (massOf : List Char → Dbl) (sha1 : List Char → D)

/-- the rounding hypothesis at the concrete parameters -/
theorem flOk_concreteParams : FlOk (concreteParams massOf sha1).fl := flOk_rndDouble

/-- **The concrete parameters satisfy the printing hypotheses** (bond orders on `DecPrintable`). -/
theorem concreteParams_okOn : (concreteParams massOf sha1).OkOn DecPrintable :=
  ⟨reprF_concrete_ok, reprB_concrete_ok⟩

/-- **`preimage_injective` at the concrete printers — no printing hypothesis left.** -/
theorem preimage_injective_concrete (c c' : Canon) (hc : c.Valid) (hc' : c'.Valid)
    (hb : c.BondsIn DecPrintable) (hb' : c'.BondsIn DecPrintable)
    (h : preimage (concreteParams massOf sha1) c = preimage (concreteParams massOf sha1) c') : c = c' :=
  preimage_injective_on (concreteParams massOf sha1) DecPrintable (concreteParams_okOn massOf sha1) c c' hc hc' hb hb' h

/-- non-vacuity: validated canonical data with a printable bond order -/
example : Canon.Valid
    { symbols := ["H".toList, "H".toList], masses := [⟨false, 1007825⟩, ⟨false, 1007825⟩],
      charge := ⟨false, 0⟩, mult := 1, real := [true, true], geometry := List.replicate 6 ⟨false, 0⟩,
      fragments := [[0, 1]], fragCharges := [⟨false, 0⟩], fragMults := [1], connectivity := some [⟨0, 1, 3 / 2⟩] }
    ∧ Canon.BondsIn DecPrintable
    { symbols := ["H".toList, "H".toList], masses := [⟨false, 1007825⟩, ⟨false, 1007825⟩],
      charge := ⟨false, 0⟩, mult := 1, real := [true, true], geometry := List.replicate 6 ⟨false, 0⟩,
      fragments := [[0, 1]], fragCharges := [⟨false, 0⟩], fragMults := [1], connectivity := some [⟨0, 1, 3 / 2⟩] } := by
  refine ⟨⟨by decide, by decide⟩, ?_⟩
  intro l hl b hb
  simp only [Option.some.injEq] at hl
  subst hl
  simp only [List.mem_cons, List.not_mem_nil, or_false] at hb
  subst hb
  decide +kernel

theorem hash_sign_of_zero_concrete (m : Mol) (hm : m.Bounded (concreteParams massOf sha1)) :
    hash (concreteParams massOf sha1) m.posZeros = hash (concreteParams massOf sha1) m :=
  hash_sign_of_zero (concreteParams massOf sha1) (flOk_concreteParams massOf sha1) m hm

theorem prepArr_small_zero_concrete (k : Nat) (q : Rat) (h : |q * (10 : Rat) ^ k| < 1/2 - 1/256) :
    prepArr rndDouble k (.val q) = ⟨false, 0⟩ :=
  prepArr_small_zero flOk_concrete k q h

theorem round_stable_concrete (k : Nat) (x d : Rat) (n : Int)
    (hb : |x * (10 : Rat) ^ k| ≤ 2 ^ 45 - 1)
    (hn : |x * (10 : Rat) ^ k - n| ≤ 48 / 100) (hd : |d| * (10 : Rat) ^ k ≤ 1 / 100) :
    roundTo rndDouble k (.val (x + d)) = n ∧ roundTo rndDouble k (.val x) = n ∧
      prepArr rndDouble k (.val (x + d)) = prepArr rndDouble k (.val x) :=
  round_stable flOk_concrete k x d n hb hn hd

theorem hash_noise_concrete (m : Mol) (g' : List Dbl) (h : List.Forall₂ NoiseClose m.geometry g') :
    hash (concreteParams massOf sha1) { m with geometry := g' } = hash (concreteParams massOf sha1) m :=
  hash_noise (concreteParams massOf sha1) (flOk_concreteParams massOf sha1) m g' h

theorem prep_idempotent_concrete (k : Nat) (x : Dbl) (hx : Bdd k x)
    (hm : ((prepArr rndDouble k x).mag : Rat) ≤ 2 ^ 45) :
    prepArr rndDouble k ((prepArr rndDouble k x).toDbl k) = prepArr rndDouble k x :=
  prep_idempotent flOk_concrete k x hx hm

theorem construct_hash_concrete (m : Mol)
    (hg : ∀ x ∈ m.geometry, Bdd GEOMETRY_NOISE x ∧ ((prepArr rndDouble GEOMETRY_NOISE x).mag : Rat) ≤ 2 ^ 45) :
    hash (concreteParams massOf sha1) (construct rndDouble m)
      = hash (concreteParams massOf sha1) { m with connectivity := m.connectivity.map prepBonds } :=
  construct_hash (concreteParams massOf sha1) (flOk_concreteParams massOf sha1) m hg

theorem canon_eq_iff_fields_agree_concrete (a b : Mol)
    (ha : a.Bounded (concreteParams massOf sha1)) (hb : b.Bounded (concreteParams massOf sha1))
    (na : a.NoBand (concreteParams massOf sha1)) (nb : b.NoBand (concreteParams massOf sha1)) :
    canon (concreteParams massOf sha1) a = canon (concreteParams massOf sha1) b ↔ FieldsAgree (concreteParams massOf sha1) a b :=
  canon_eq_iff_fields_agree (concreteParams massOf sha1) (flOk_concreteParams massOf sha1) a b ha hb na nb

/-- **hash equal ⇔ listed fields agree after rounding, at the concrete rounding and printers.**  The only
hypothesis about a parameter that is left is SHA-1's (no collision between these two preimages). -/
theorem hash_eq_iff_fields_agree_concrete (a b : Mol)
    (hsha : sha1 (preimage (concreteParams massOf sha1) (canon (concreteParams massOf sha1) a))
        = sha1 (preimage (concreteParams massOf sha1) (canon (concreteParams massOf sha1) b)) →
      preimage (concreteParams massOf sha1) (canon (concreteParams massOf sha1) a)
        = preimage (concreteParams massOf sha1) (canon (concreteParams massOf sha1) b))
    (va : a.Valid (concreteParams massOf sha1)) (vb : b.Valid (concreteParams massOf sha1))
    (pa : (canon (concreteParams massOf sha1) a).BondsIn DecPrintable)
    (pb : (canon (concreteParams massOf sha1) b).BondsIn DecPrintable)
    (ha : a.Bounded (concreteParams massOf sha1)) (hb : b.Bounded (concreteParams massOf sha1))
    (na : a.NoBand (concreteParams massOf sha1)) (nb : b.NoBand (concreteParams massOf sha1)) :
    hash (concreteParams massOf sha1) a = hash (concreteParams massOf sha1) b ↔ FieldsAgree (concreteParams massOf sha1) a b := by
  rw [← canon_eq_iff_fields_agree_concrete massOf sha1 a b ha hb na nb]
  constructor
  · intro h
    exact preimage_injective_concrete massOf sha1 _ _ va vb pa pb (hsha h)
  · exact hash_of_canon _ a b

theorem round_separates_concrete (k : Nat) (x y : Rat)
    (hx : Bdd k (.val x)) (hy : Bdd k (.val y)) (h : 1 + 1 / 64 ≤ |x - y| * (10 : Rat) ^ k) :
    roundTo rndDouble k (.val x) ≠ roundTo rndDouble k (.val y) :=
  round_separates flOk_concrete k x y hx hy h

theorem single_edit_changes_canon_concrete (m : Mol) (l₁ l₂ : List Dbl) (x y : Rat)
    (hgeo : m.geometry = l₁ ++ .val x :: l₂)
    (hedit : 1 + 1 / 64 ≤ |x - y| * (10 : Rat) ^ 8)
    (b : Mol) (hb : b = { m with geometry := l₁ ++ .val y :: l₂ })
    (bm : m.Bounded (concreteParams massOf sha1)) (bb : b.Bounded (concreteParams massOf sha1))
    (nm : m.NoBand (concreteParams massOf sha1)) (nb : b.NoBand (concreteParams massOf sha1)) :
    canon (concreteParams massOf sha1) m ≠ canon (concreteParams massOf sha1) b :=
  single_edit_changes_canon (concreteParams massOf sha1) (flOk_concreteParams massOf sha1) m l₁ l₂ x y hgeo hedit b hb bm bb nm nb

end concrete

/-- non-vacuity of the `Bounded` hypotheses at the concrete parameters: a coordinate of 1e5 bohr is inside -/
example : Bdd GEOMETRY_NOISE (.val 100000) := by
  unfold Bdd; simp only [Dbl.toRat, GEOMETRY_NOISE]; rw [abs_le]; constructor <;> norm_num

end QcelVerif.Hash
