import QcelVerif.Props.C04C06
/-!
# C04 (extension) — an isotope given by its mass number only is self-consistent

The class `Props/C04C06.lean` left open: a mass number supplied (argument `elea` or label `2H`) WITHOUT a
mass.  The answer then carries `A` = the supplied number and, as mass, the first candidate inside the
window of `E+str(A)`: the element's default mass (first candidate, nucleus.py:199) if it lies within
`mtol` of the tabulated mass of `A`, else that tabulated mass.  Fed back, the mass must re-derive `A`
(`massToA`, nucleus.py:237-246).  That holds when

  * (T1) every tabulated mass rounds (half-even) to its own mass number, and
  * (T2) the default mass of an element is not within the window of any OTHER nuclide of the element,

two facts about the periodic table (`IsotopesReDerive N rd rng B`, `B` = the widest window for which (T2)
is claimed).  General theorem here (any table, any odd rounding function): `rederives_of_A_clue`.
The facts are decided for the shipped table under `rd64` with `B = 1/4 u` by kernel evaluation, element
by element over the tabulated mass-number range (`elementIsoOk`; `Props/C04DefaultTab{A..E}.lean`).

Core Lean only.  PROPERTY-THEOREMS: rederives_of_A_clue  selfConsistent_of_A_clue
-/
namespace QcelVerif.Nucleus
open QcelVerif QcelVerif.PStr QcelVerif.PT

/-- **(T1) + (T2) for a table**, over the mass numbers the physical-range test admits
(`A = −1` or `amin ≤ A ≤ amax`, nucleus.py:195): whenever `E + str(a)` is tabulated, its (rounded) mass
`tm` rounds half-even to `a`, and the element's default mass `zm` is either that very mass or further
than `B` away from it (float-evaluated, as `offer_mass_number`'s test evaluates it). -/
def IsotopesReDerive (N : NTables) (rd : Rat → Rat) (rng : Nat → Option Range) (B : Rat) : Prop :=
  ∀ (z : Int) (sym : Nat) (zm : Rat) (r : Range) (a : Int) (tm : Rat),
    N.pt.toE (.int z) false = some sym → tableMass N rd (.int z) = .ok zm → rng sym = some r →
    (a = -1 ∨ (r.amin ≤ a ∧ a ≤ r.amax)) →
    tableMass N rd (.str (unpack sym ++ intStr a)) = .ok tm →
    roundHalfEven tm = a ∧ (tm = zm ∨ B < absR (rd (zm - tm)))

theorem mem_optList {α} {x : α} {o : Option α} (h : x ∈ optList o) : o = some x := by
  cases o with
  | none => cases h
  | some y => simp [optList] at h; rw [h]

/-- a mass-value clue among the isotope clues comes from a mass claim (argument or label) -/
theorem claimsMass_of_clue {rd : Rat → Rat} {i : Input} {lab : Option Label} {clues : List Clue} {m : Rat}
    (hl : labelOf i = .ok lab) (hc : cluesOf rd i lab = .ok clues) (h : Clue.massValue m ∈ clues) :
    ClaimsMass rd i m := by
  obtain ⟨lm, hlm, rfl⟩ := cluesOf_ok hc
  simp only [List.mem_append, List.mem_map] at h
  rcases h with ((⟨_, _, hh⟩ | ⟨p, hp, hh⟩) | ⟨_, _, hh⟩) | ⟨m', hm', hh⟩
  · cases hh
  · cases hh
    exact Or.inl ⟨p, mem_optList hp, rfl⟩
  · cases hh
  · have hmm : m' = m := by cases hh; rfl
    subst hmm
    obtain ⟨t, ht, htm⟩ := mapM_ok_of_mem_right hlm m' hm'
    obtain ⟨q, hq, hrd⟩ := labelMass_ok htm
    have hb := mem_optList ht
    cases hlab : lab with
    | none => rw [hlab] at hb; cases hb
    | some L =>
      rw [hlab] at hb
      simp only [Option.bind_some] at hb
      exact Or.inr ⟨L, t, q, (labelOf_ok hl).1 L hlab, hb, hq, hrd⟩

/-- **A mass number supplied without a mass re-derives itself** — ANY table with (T1)+(T2) up to `B`, ANY
odd rounding function, ANY input with `nonphysical = False` and `0 ≤ mtol ≤ B` that carries a mass-number
clue (argument or label) and no mass clue: the returned mass, read back as a mass clue, suggests exactly
the returned mass number (`massToA … o.mass = o.A`), and it IS the tabulated mass of `E+str(A)`. -/
theorem rederives_of_A_clue (N : NTables) (rd : Rat → Rat) (rng : Nat → Option Range) (B : Rat)
    (hiso : IsotopesReDerive N rd rng B) (hodd : ∀ x, rd (-x) = -(rd x))
    (i : Input) (o : Output) (h : reconcileWith N rd rng i = .ok o)
    (hnp : i.nonphysical = false) (hm0 : 0 ≤ i.mtol.val) (hmB : i.mtol.val ≤ B)
    (a : Int) (hA : ClaimsA i a) (hM : ∀ m, ¬ ClaimsMass rd i m) :
    massToA N rd o.E i.mtol.val o.mass = o.A ∧
    tableMass N rd (.str (unpack o.E ++ intStr o.A)) = .ok o.mass := by
  obtain ⟨zo, lab, clues, late, hz, hzf, hE, hc, hlate, hm, ha, _, _⟩ := reconcileWith_ok h
  obtain ⟨x0, hx0, hoff0, hall⟩ := offers_eq hz hzf
  obtain ⟨_, hx0E, hx0m, _, r, hr0, hap, _⟩ := offerZ_ok hoff0
  have hsym : x0.sym = o.E := by rw [hE] at hx0E; exact (Option.some.inj hx0E).symm
  obtain ⟨_, _, _, _, _, _, hlab, _, _, _⟩ := zStage_ok hz
  obtain ⟨hmem_m, hall_m⟩ := firstPassing_some hm
  obtain ⟨_, hall_a⟩ := firstPassing_some ha
  have holdsA : ∀ L ∈ late, APred.holds L.aPred o.A = true := fun L hL =>
    hall_a L.aPred (List.mem_append.mpr (Or.inr (List.mem_map.mpr ⟨L, hL, rfl⟩)))
  have holdsM : ∀ L ∈ late, MPred.holds rd L.mPred o.mass = true := fun L hL =>
    hall_m L.mPred (List.mem_append.mpr (Or.inr (List.mem_map.mpr ⟨L, hL, rfl⟩)))
  -- the offer made for the supplied mass number
  obtain ⟨La, hLa, hoLa⟩ := mapM_ok_of_mem_left hlate _ (clue_of_ClaimsA hlab hc hA)
  obtain ⟨_, hLap, hLatm, hLamp⟩ := offerClue_massNumber hoLa
  have hoA : o.A = a := by
    have := holdsA La hLa
    rw [hLap] at this
    simpa [APred.holds] using this
  have hrange : a = -1 ∨ (r.amin ≤ a ∧ a ≤ r.amax) := by
    have := hall_a x0.aPred (List.mem_append.mpr (Or.inl (List.mem_map.mpr ⟨x0, hx0, rfl⟩)))
    rw [hap, hnp, hoA] at this
    simpa [APred.holds] using this
  obtain ⟨hround, hfar⟩ := hiso o.Z o.E x0.zMass r a La.m hE hx0m (by rw [← hsym]; exact hr0) hrange hLatm
  have hnear : absR (rd (o.mass - La.m)) ≤ i.mtol.val := by
    have := holdsM La hLa
    rw [hLamp] at this
    simpa [MPred.holds] using this
  -- every late offer carries the same tabulated mass
  have hlate_m : ∀ L ∈ late, L.m = La.m := by
    intro L hL
    obtain ⟨c, hcm, hoL⟩ := mapM_ok_of_mem_right hlate L hL
    cases c with
    | massNumber a' =>
      obtain ⟨_, hp, htm, _⟩ := offerClue_massNumber hoL
      have h1 := holdsA L hL
      rw [hp] at h1
      have h2 : o.A = a' := by simpa [APred.holds] using h1
      have h3 : a' = a := by rw [← h2, hoA]
      subst h3
      rw [hLatm] at htm
      exact (Except.ok.inj htm).symm
    | massValue m => exact absurd (claimsMass_of_clue hlab hc hcm) (hM m)
  -- the returned mass is that tabulated mass
  have hmass : o.mass = La.m := by
    rcases List.mem_append.mp hmem_m with hmm | hmm
    · obtain ⟨x, hx, hxm⟩ := List.mem_map.mp hmm
      rw [hall x hx] at hxm
      rcases hfar with heq | hgt
      · rw [← hxm, heq]
      · rw [← hxm] at hnear
        exact absurd (Rat.le_trans hnear hmB) (Rat.not_le.mpr hgt)
    · obtain ⟨L, hL, hLm⟩ := List.mem_map.mp hmm
      rw [← hLm]; exact hlate_m L hL
  have hkey : tableMass N rd (.str (unpack o.E ++ intStr (roundHalfEven o.mass))) = .ok o.mass := by
    rw [hmass, hround]; exact hLatm
  have hz0 : rd (o.mass - o.mass) = 0 := by
    have h0 : o.mass - o.mass = 0 := by grind
    have := hodd 0
    rw [h0]; grind
  refine ⟨?_, by rw [hoA, hmass]; exact hLatm⟩
  unfold massToA
  simp only [hkey, hz0]
  have : ¬ i.mtol.val < absR 0 := by unfold absR; grind
  rw [if_neg this, hmass, hround, hoA]

end QcelVerif.Nucleus

namespace QcelVerif.FromArrays
open QcelVerif QcelVerif.PStr QcelVerif.Nucleus

/-- through the adapter: an answer to clues that carry a mass number (argument or label) and no mass is
`SelfConsistent`, given (T1)+(T2) up to `B ≥ mtol ≥ 0`, `nonphysical = False`, and a rounding function
that is odd and a projection -/
theorem selfConsistent_of_A_clue (N : NTables) (rd : Rat → Rat) (rng : Nat → Option Range) (B : Rat)
    (hiso : IsotopesReDerive N rd rng B) (hodd : ∀ x, rd (-x) = -(rd x)) (hidem : ∀ x, rd (rd x) = rd x)
    (st : NucSettings) (c : Clue) (u : Nuc) (h : reconOfC06With N rd rng st c = .ok u)
    (hnp : st.nonphysical = false) (hm0 : 0 ≤ st.mtol) (hmB : st.mtol ≤ B)
    (a : Int) (hA : ClaimsA (toInput st c) a) (hM : ∀ m, ¬ ClaimsMass rd (toInput st c) m) :
    SelfConsistent N rd st.mtol u := by
  obtain ⟨o, ho, rfl⟩ := reconOfC06With_ok h
  refine ⟨mass_rounded hidem ho, ?_⟩
  rw [massToAStr_toNuc]
  exact (rederives_of_A_clue N rd rng B hiso hodd (toInput st c) o ho hnp hm0 hmB a hA hM).1

/-! ## the table facts, decided element by element (shipped table, `rd64`, `B = 1/4`) -/

/-- the integers `lo … hi` -/
def intRange (lo hi : Int) : List Int := (List.range (hi + 1 - lo).toNat).map (fun (k : Nat) => lo + (k : Int))

theorem mem_intRange {lo hi a : Int} (h1 : lo ≤ a) (h2 : a ≤ hi) : a ∈ intRange lo hi := by
  unfold intRange
  refine List.mem_map.mpr ⟨(a - lo).toNat, List.mem_range.mpr (by omega), by omega⟩

/-- the widest window for which (T2) is decided -/
def isoB : Rat := 9865 / 10000

/-- one candidate nuclide `sym + str(a)`: not tabulated, or its mass rounds to `a` and the element's default
mass `zm` is that mass or further than `isoB` from it -/
def isoOk (sym : Nat) (zm : Rat) (a : Int) : Bool :=
  match tableMass shippedN rd64 (.str (unpack sym ++ intStr a)) with
  | .error _ => true
  | .ok tm => roundHalfEven tm == a && (tm == zm || decide (isoB < absR (rd64 (zm - tm))))

/-- element row check: every mass number the physical-range test admits (−1 and `amin … amax`) passes `isoOk` -/
def elementIsoOk (r : Nat × Nat × Nat) : Bool :=
  match shippedN.pt.toE (.int (r.1 : Int)) false, tableMass shippedN rd64 (.int (r.1 : Int)) with
  | some sym, .ok zm =>
    match elRange shippedN rd64 sym with
    | some rg => ((-1) :: intRange rg.amin rg.amax).all (isoOk sym zm)
    | none => true
  | _, _ => true

/-- the row checks give (T1)+(T2) for the shipped table -/
theorem isotopesReDerive_of_rows (hrows : Gen.PT.elements.all elementIsoOk = true) :
    IsotopesReDerive shippedN rd64 (elRange shippedN rd64) isoB := by
  intro z sym zm r a tm hE hzm hr hrange htm
  obtain ⟨row, hrow, hz⟩ := row_of_toE hE
  have hok := (List.all_eq_true.mp hrows) row hrow
  unfold elementIsoOk at hok
  simp only [hz, hE, hzm, hr] at hok
  have hmem : a ∈ (-1) :: intRange r.amin r.amax := by
    rcases hrange with rfl | ⟨h1, h2⟩
    · exact List.mem_cons_self
    · exact List.mem_cons_of_mem _ (mem_intRange h1 h2)
  have := (List.all_eq_true.mp hok) a hmem
  unfold isoOk at this
  simp only [htm, Bool.and_eq_true, Bool.or_eq_true, beq_iff_eq, decide_eq_true_eq] at this
  exact this

/-- chunks of a list checked separately give the whole list -/
theorem all_drop_of_chunk {α} (f : α → Bool) (l : List α) (k n : Nat)
    (h1 : ((l.drop k).take n).all f = true) (h2 : (l.drop (k + n)).all f = true) :
    (l.drop k).all f = true := by
  have e := List.take_append_drop n (l.drop k)
  rw [← e, List.all_append, h1, List.drop_drop, h2]
  rfl

end QcelVerif.FromArrays
