import QcelVerif.Props.C16
import QcelVerif.Props.C16Unique
import QcelVerif.Lemmas.OrientApprox

/-!
# C16 — what the theorems give for the certificates the driver ACTUALLY has

`Props/C16.lean` / `Props/C16Unique.lean` assume EXACT certificates (`Orth V`, `Vᵀ T V = diag l`).
`numpy.linalg.eigh` output is certified per call only up to residuals of ~1e-15
(`certResiduals` = `(‖VᵀV-1‖, ‖VVᵀ-1‖, ‖VᵀTV-diag l‖)`, max-entry norm, evaluated exactly in ℚ by
the driver).  Here every conclusion that is continuous in the certificate gets an explicit-ε version
over any linearly ordered field, for ANY `V`, any number of atoms, any masses (signs included):

1. centre of mass — `orient_com_zero` (Props/C16.lean) needs NO certificate: it holds for any `V`
   and is exact in the model (the model centres in exact arithmetic; the rounding of the weighted
   mean in the implementation is outside the model and is covered by the correspondence tolerance
   `4e-15·(1+max|x|)` only).  Restated here as `orient_com_approx` to make that explicit.
2. `inertia_defect` (identity, any commutative ring) and `inertia_diagonal_approx`,
   `inertia_diagonal_of_cert`, `inertia_diagonal_driver`: the inertia tensor of the ORIENTED geometry
   is within `B_diag = ε₂ + (3εb + εa)·S` (diagonal) / `B_off = ε₂ + εa·S` (off-diagonal) of `diag l`,
   `S = Σ|mᵢ||xᵢ-c|²` (= tr T / 2 for non-negative masses, `absS_half_trace`).
3. `cert_entries`, `moments_ascending_approx` (ascending up to `2·B_diag`),
   `eigenvalue_near_certified_partial` (every eigenvalue of `T` with an eigenvector in the range of `V` is within
   `3(ε₂ + |μ|εa)` of a certified `lᵢ`).
4. `overlap_offdiag_approx`, `eigframe_unique_approx`: two approximate eigen-frames of (nearby) tensors with
   separated moments agree up to column signs within an explicit `O(ε/gap)` bound;
   `second_pass_frame_approx_partial`, `eigframe_rigid_approx_partial`: the second `eigh` call on an oriented geometry returns
   `diag(±1)`, and the frame of a rigid copy pulled back by `R` is the original frame up to signs, within that bound
   (frame level; the geometry-level consequence needs stability of the phase decisions — `-- FULL:` notes).
-/

namespace QcelVerif.Orient

/-! ## 2. the inertia tensor of the oriented geometry -/

/-- **Transformation law with explicit defect, for ANY `V`** (generalises `inertia_transforms`):
`I(xV) = Vᵀ I(x) V + (Σ m p(VVᵀ-1)pᵀ)·1 - (Σ m |p|²)·(VᵀV-1)` — any commutative ring, any atoms. -/
theorem inertia_defect {R : Type} [CommRing R] (V : M3 R) (ms : List R) (g : List (V3 R)) :
    inertia ms (rotate g V) = M3.add (M3.mul (M3.mul (M3.tr V) (inertia ms g)) V)
      (M3.sub (M3.smul (wsumF (fun p => V3.dot (V3.mulMat p (M3.sub (M3.mul V (M3.tr V)) M3.one)) p) ms g) M3.one)
              (M3.smul (wsumF V3.normSq ms g) (M3.sub (M3.mul (M3.tr V) V) M3.one))) :=
  inertia_defect_sandwich V ms g

/-- for orthogonal `V` the defect vanishes: `inertia_transforms` is the special case -/
example {R : Type} [CommRing R] {V : M3 R} (hV : Orth V) (ms : List R) (g : List (V3 R)) :
    inertia ms (rotate g V) = M3.mul (M3.mul (M3.tr V) (inertia ms g)) V := inertia_transforms hV ms g

/-- the tensor after whole-column sign flips (`a² = b² = c² = 1`) -/
theorem inertia_flip {R : Type} [CommRing R] {a b c : R} (ha : a * a = 1) (hb : b * b = 1) (hc : c * c = 1)
    (ms : List R) (g : List (V3 R)) :
    inertia ms (g.map (V3.flip a b c)) = sandwich (M3.diag a b c) (inertia ms g) := by
  have hmap : g.map (V3.flip a b c) = rotate g (M3.diag a b c) := by
    simp only [rotate]; apply List.map_congr_left; intro p _; exact (mulMat_diag p a b c).symm
  rw [hmap, inertia_transforms (orth_diag ha hb hc)]
  rfl

section Ordered
variable {K : Type} [Field K] [LinearOrder K] [IsStrictOrderedRing K]

/-! ### 1. centre of mass: exact in the model, no certificate needed -/

/-- **Centre of mass, approximate certificate.**  Whatever the residuals of the certificate are (no
hypothesis on `V` at all), the mass-weighted sum of the oriented coordinates is exactly zero in the
model: this clause is not continuous-in-the-certificate, it is independent of it. -/
theorem orient_com_approx {noise : K} {ms : List K} {xs : List (V3 K)} {V : M3 K} {out : List (V3 K)} {l : V3 K} {eo ed : K}
    (_hc : isEigFrame (orientTensor ms xs) V l eo ed = true)
    (h : orientCore noise ms xs V = .ok out) : wsum ms out = V3.zero := orient_com_zero h

/-- the entries of the tensor of the ROTATED geometry (before the phase loop) -/
theorem inertia_rotated_approx {ms : List K} {g : List (V3 K)} {V : M3 K} {l : V3 K} {εa εb ε₂ : K}
    (ha : M3.maxAbs (M3.sub (M3.mul (M3.tr V) V) M3.one) ≤ εa)
    (hb : M3.maxAbs (M3.sub (M3.mul V (M3.tr V)) M3.one) ≤ εb)
    (hd : M3.maxAbs (M3.sub (M3.mul (M3.mul (M3.tr V) (inertia ms g)) V) (M3.diag l.x l.y l.z)) ≤ ε₂) :
    let I := inertia ms (rotate g V)
    let S := absS ms g
    |I.xx - l.x| ≤ inertiaBoundDiag εa εb ε₂ S ∧ |I.yy - l.y| ≤ inertiaBoundDiag εa εb ε₂ S ∧
    |I.zz - l.z| ≤ inertiaBoundDiag εa εb ε₂ S ∧
    |I.xy| ≤ inertiaBoundOff εa ε₂ S ∧ |I.xz| ≤ inertiaBoundOff εa ε₂ S ∧ |I.yz| ≤ inertiaBoundOff εa ε₂ S := by
  intro I S
  obtain ⟨d1, d2, d3, d7, d8, d9, -, -, -⟩ := inertiaDefect_bound (V := V) ha hb ms g
  obtain ⟨c1, c2, c3, -, c5, c6, -, -, c9⟩ := maxAbs_entries hd
  have hI : I = M3.add (sandwich V (inertia ms g)) (inertiaDefect ms g V) := inertia_defect_sandwich V ms g
  simp only [M3.sub, M3.diag, sub_zero] at c1 c2 c3 c5 c6 c9
  have e1 := congrArg M3.xx hI; have e2 := congrArg M3.xy hI; have e3 := congrArg M3.xz hI
  have e5 := congrArg M3.yy hI; have e6 := congrArg M3.yz hI; have e9 := congrArg M3.zz hI
  simp only [M3.add] at e1 e2 e3 e5 e6 e9
  unfold sandwich at e1 e2 e3 e5 e6 e9
  simp only [inertiaBoundDiag, inertiaBoundOff]
  have tri : ∀ {x a d l' β γ : K}, x = a + d → |a - l'| ≤ β → |d| ≤ γ → |x - l'| ≤ β + γ := by
    intro x a d l' β γ hx h1 h2
    have p1 := abs_le.mp h1; have p2 := abs_le.mp h2
    rw [hx, abs_le]; constructor <;> linarith [p1.1, p1.2, p2.1, p2.2]
  have tri0 : ∀ {x a d β γ : K}, x = a + d → |a| ≤ β → |d| ≤ γ → |x| ≤ β + γ := by
    intro x a d β γ hx h1 h2
    have p1 := abs_le.mp h1; have p2 := abs_le.mp h2
    rw [hx, abs_le]; constructor <;> linarith [p1.1, p1.2, p2.1, p2.2]
  exact ⟨tri e1 c1 d1, tri e5 c5 d2, tri e9 c9 d3, tri0 e2 c2 d7, tri0 e3 c3 d8, tri0 e6 c6 d9⟩

/-- **Diagonal tensor up to an explicit bound, approximate certificate.**
`εa ≥ ‖VᵀV-1‖`, `εb ≥ ‖VVᵀ-1‖`, `ε₂ ≥ ‖VᵀTV-diag l‖` (the three residuals the driver computes, `T` the
tensor handed to `eigh`).  Then the inertia tensor `I` of the oriented geometry `out` — recomputed from
the rotated and phased coordinates — satisfies, with `S = Σ|mᵢ||xᵢ-c|²`:
`|I_aa - l_a| ≤ ε₂ + (3εb + εa)·S` and `|I_ab| ≤ ε₂ + εa·S` (`a ≠ b`); `I` is symmetric by construction. -/
theorem inertia_diagonal_approx {noise : K} {ms : List K} {xs : List (V3 K)} {V : M3 K} {out : List (V3 K)} {l : V3 K}
    {εa εb ε₂ : K}
    (ha : M3.maxAbs (M3.sub (M3.mul (M3.tr V) V) M3.one) ≤ εa)
    (hb : M3.maxAbs (M3.sub (M3.mul V (M3.tr V)) M3.one) ≤ εb)
    (hd : M3.maxAbs (M3.sub (M3.mul (M3.mul (M3.tr V) (orientTensor ms xs)) V) (M3.diag l.x l.y l.z)) ≤ ε₂)
    (h : orientCore noise ms xs V = .ok out) :
    let I := inertia ms out
    let S := absS ms (center ms xs)
    (|I.xx - l.x| ≤ inertiaBoundDiag εa εb ε₂ S ∧ |I.yy - l.y| ≤ inertiaBoundDiag εa εb ε₂ S ∧
      |I.zz - l.z| ≤ inertiaBoundDiag εa εb ε₂ S) ∧
    (|I.xy| ≤ inertiaBoundOff εa ε₂ S ∧ |I.xz| ≤ inertiaBoundOff εa ε₂ S ∧ |I.yz| ≤ inertiaBoundOff εa ε₂ S) ∧
    (I.yx = I.xy ∧ I.zx = I.xz ∧ I.zy = I.yz) := by
  intro I S
  obtain ⟨_, _, rfl⟩ := orientCore_ok h
  obtain ⟨r1, r2, r3, r4, r5, r6⟩ := inertia_rotated_approx (g := center ms xs) ha hb hd
  have hI : I = sandwich (M3.diag (colSign noise ((rotate (center ms xs) V).map (·.x)))
      (colSign noise ((rotate (center ms xs) V).map (·.y))) (colSign noise ((rotate (center ms xs) V).map (·.z))))
      (inertia ms (rotate (center ms xs) V)) := by
    simp only [I]
    rw [phase_eq]
    exact inertia_flip (pm_sq (colSign_pm _ _)) (pm_sq (colSign_pm _ _)) (pm_sq (colSign_pm _ _)) ms _
  rw [sandwich_diag_entries] at hI
  set sx := colSign noise ((rotate (center ms xs) V).map (·.x)) with hsx
  set sy := colSign noise ((rotate (center ms xs) V).map (·.y)) with hsy
  set sz := colSign noise ((rotate (center ms xs) V).map (·.z)) with hsz
  have px := colSign_pm noise ((rotate (center ms xs) V).map (·.x))
  have py := colSign_pm noise ((rotate (center ms xs) V).map (·.y))
  have pz := colSign_pm noise ((rotate (center ms xs) V).map (·.z))
  rw [← hsx] at px; rw [← hsy] at py; rw [← hsz] at pz
  refine ⟨⟨?_, ?_, ?_⟩, ⟨?_, ?_, ?_⟩, ⟨rfl, rfl, rfl⟩⟩
  · rw [hI]; simp only; rw [pm_sq px, one_mul]; exact r1
  · rw [hI]; simp only; rw [pm_sq py, one_mul]; exact r2
  · rw [hI]; simp only; rw [pm_sq pz, one_mul]; exact r3
  · rw [hI]; simp only; rw [abs_pm_mul2 px py]; exact r4
  · rw [hI]; simp only; rw [abs_pm_mul2 px pz]; exact r5
  · rw [hI]; simp only; rw [abs_pm_mul2 py pz]; exact r6

/-- the same in the max-entry norm: `‖I(out) - diag l‖ ≤ B_diag` when the residuals are non-negative
numbers (they are: they bound absolute values) -/
theorem inertia_diagonal_maxAbs {noise : K} {ms : List K} {xs : List (V3 K)} {V : M3 K} {out : List (V3 K)} {l : V3 K}
    {εa εb ε₂ : K}
    (ha : M3.maxAbs (M3.sub (M3.mul (M3.tr V) V) M3.one) ≤ εa)
    (hb : M3.maxAbs (M3.sub (M3.mul V (M3.tr V)) M3.one) ≤ εb)
    (hd : M3.maxAbs (M3.sub (M3.mul (M3.mul (M3.tr V) (orientTensor ms xs)) V) (M3.diag l.x l.y l.z)) ≤ ε₂)
    (h : orientCore noise ms xs V = .ok out) :
    M3.maxAbs (M3.sub (inertia ms out) (M3.diag l.x l.y l.z)) ≤ inertiaBoundDiag εa εb ε₂ (absS ms (center ms xs)) := by
  obtain ⟨⟨a1, a2, a3⟩, ⟨b1, b2, b3⟩, ⟨s1, s2, s3⟩⟩ := inertia_diagonal_approx ha hb hd h
  have hS := absS_nonneg ms (center ms xs)
  have hb0 : 0 ≤ εb := le_trans (maxAbs_nonneg _) hb
  have mono : inertiaBoundOff εa ε₂ (absS ms (center ms xs)) ≤ inertiaBoundDiag εa εb ε₂ (absS ms (center ms xs)) := by
    simp only [inertiaBoundOff, inertiaBoundDiag]; nlinarith [mul_nonneg hb0 hS]
  rw [maxAbs_le_iff]
  simp only [M3.sub, M3.diag, sub_zero]
  rw [s1, s2, s3]
  exact ⟨a1, le_trans b1 mono, le_trans b2 mono, le_trans b1 mono, a2, le_trans b3 mono, le_trans b2 mono, le_trans b3 mono, a3⟩

/-- **…from the certificate function the driver evaluates.**  `isEigFrame T V l eo ed = true` (any
tolerances `eo`, `ed`, not just 0) gives the bounds with `εa = εb = eo`, `ε₂ = ed`:
diagonal `ed + 4·eo·S`, off-diagonal `ed + eo·S`. -/
theorem inertia_diagonal_of_cert {noise : K} {ms : List K} {xs : List (V3 K)} {V : M3 K} {out : List (V3 K)} {l : V3 K}
    {eo ed : K} (hc : isEigFrame (orientTensor ms xs) V l eo ed = true) (h : orientCore noise ms xs V = .ok out) :
    let I := inertia ms out
    let S := absS ms (center ms xs)
    (|I.xx - l.x| ≤ ed + 4 * eo * S ∧ |I.yy - l.y| ≤ ed + 4 * eo * S ∧ |I.zz - l.z| ≤ ed + 4 * eo * S) ∧
    (|I.xy| ≤ ed + eo * S ∧ |I.xz| ≤ ed + eo * S ∧ |I.yz| ≤ ed + eo * S) ∧
    (l.x ≤ l.y ∧ l.y ≤ l.z) := by
  intro I S
  unfold isEigFrame certResiduals at hc
  simp only [Bool.and_eq_true, decide_eq_true_eq] at hc
  obtain ⟨⟨⟨⟨h1, h2⟩, h3⟩, h4⟩, h5⟩ := hc
  obtain ⟨⟨a1, a2, a3⟩, ⟨b1, b2, b3⟩, -⟩ := inertia_diagonal_approx h1 h2 h3 h
  simp only [inertiaBoundDiag, inertiaBoundOff] at a1 a2 a3 b1 b2 b3
  have e : ed + (3 * eo + eo) * S = ed + 4 * eo * S := by ring
  rw [e] at a1 a2 a3
  exact ⟨⟨a1, a2, a3⟩, ⟨b1, b2, b3⟩, h4, h5⟩

/-- **…and for exactly the numbers the driver prints** (`inertiaBounds`, output field `B`): with the
call's own residuals as tolerances no hypothesis on `V` or `l` is left at all. -/
theorem inertia_diagonal_driver {noise : K} {ms : List K} {xs : List (V3 K)} {V : M3 K} {out : List (V3 K)} (l : V3 K)
    (h : orientCore noise ms xs V = .ok out) :
    let I := inertia ms out
    let B := inertiaBounds ms xs V l
    (|I.xx - l.x| ≤ B.2.2 ∧ |I.yy - l.y| ≤ B.2.2 ∧ |I.zz - l.z| ≤ B.2.2) ∧
    (|I.xy| ≤ B.2.1 ∧ |I.xz| ≤ B.2.1 ∧ |I.yz| ≤ B.2.1) := by
  intro I B
  obtain ⟨hd, ho, -⟩ := inertia_diagonal_approx (l := l) (le_refl _) (le_refl _) (le_refl _) h
  exact ⟨hd, ho⟩

/-- non-negative masses (every validated molecule): `S` is half the trace of the tensor handed to `eigh`,
so the bounds are `B(ε₁, ε₂, tr T)` -/
theorem absS_half_trace {ms : List K} (hm : ∀ m ∈ ms, 0 ≤ m) (xs : List (V3 K)) :
    2 * absS ms (center ms xs) = (orientTensor ms xs).xx + (orientTensor ms xs).yy + (orientTensor ms xs).zz :=
  absS_eq_half_trace hm _

/-! ## 3. the moments -/

/-- what the third residual says entry by entry (Gershgorin data): the diagonal of `VᵀTV` is within `ε₂`
of `l`, its off-diagonal within `ε₂` of 0 -/
theorem cert_entries {T V : M3 K} {l : V3 K} {ε₂ : K}
    (hd : M3.maxAbs (M3.sub (M3.mul (M3.mul (M3.tr V) T) V) (M3.diag l.x l.y l.z)) ≤ ε₂) :
    let A := M3.mul (M3.mul (M3.tr V) T) V
    (|A.xx - l.x| ≤ ε₂ ∧ |A.yy - l.y| ≤ ε₂ ∧ |A.zz - l.z| ≤ ε₂) ∧
    (|A.xy| ≤ ε₂ ∧ |A.xz| ≤ ε₂ ∧ |A.yx| ≤ ε₂ ∧ |A.yz| ≤ ε₂ ∧ |A.zx| ≤ ε₂ ∧ |A.zy| ≤ ε₂) := by
  intro A
  obtain ⟨c1, c2, c3, c4, c5, c6, c7, c8, c9⟩ := maxAbs_entries hd
  simp only [M3.sub, M3.diag, sub_zero] at c1 c2 c3 c4 c5 c6 c7 c8 c9
  exact ⟨⟨c1, c5, c9⟩, c2, c3, c4, c6, c7, c8⟩

/-- **Moments ascending up to `2·B_diag`.**  With certified-ascending `l`, the principal moments of the
oriented geometry (diagonal of its inertia tensor) satisfy `I_xx ≤ I_yy + 2B`, `I_yy ≤ I_zz + 2B`; and
if consecutive certified eigenvalues are more than `2B` apart the moments ascend strictly. -/
theorem moments_ascending_approx {noise : K} {ms : List K} {xs : List (V3 K)} {V : M3 K} {out : List (V3 K)} {l : V3 K}
    {εa εb ε₂ : K}
    (ha : M3.maxAbs (M3.sub (M3.mul (M3.tr V) V) M3.one) ≤ εa)
    (hb : M3.maxAbs (M3.sub (M3.mul V (M3.tr V)) M3.one) ≤ εb)
    (hd : M3.maxAbs (M3.sub (M3.mul (M3.mul (M3.tr V) (orientTensor ms xs)) V) (M3.diag l.x l.y l.z)) ≤ ε₂)
    (h : orientCore noise ms xs V = .ok out) (hxy : l.x ≤ l.y) (hyz : l.y ≤ l.z) :
    let I := inertia ms out
    let B := inertiaBoundDiag εa εb ε₂ (absS ms (center ms xs))
    (I.xx ≤ I.yy + 2 * B ∧ I.yy ≤ I.zz + 2 * B) ∧
    (2 * B < l.y - l.x → I.xx < I.yy) ∧ (2 * B < l.z - l.y → I.yy < I.zz) := by
  intro I B
  obtain ⟨⟨a1, a2, a3⟩, -, -⟩ := inertia_diagonal_approx ha hb hd h
  have p1 := abs_le.mp a1; have p2 := abs_le.mp a2; have p3 := abs_le.mp a3
  refine ⟨⟨?_, ?_⟩, ?_, ?_⟩
  · linarith [p1.2, p2.1]
  · linarith [p2.2, p3.1]
  · intro hg; linarith [p1.2, p2.1]
  · intro hg; linarith [p2.2, p3.1]

/-- **Every eigenvalue reachable through `V` is near a certified one** (Gershgorin / Bauer–Fike in
dimension 3, no exactness assumed).  If `u = V w`, `w ≠ 0`, is an eigenvector of `T` for `μ`, then `μ` is
within `3(ε₂ + |μ|εa)` of one of the certified `l`.  (For exactly orthogonal `V` every vector is `V w`,
`w = Vᵀu`.)
-- FULL: "every eigenvalue of `T`" needs surjectivity of `V` (true when `3εb < 1`, by a determinant
--        argument that is not proved here); existence of eigenvalues is not available over ℚ. -/
theorem eigenvalue_near_certified_partial {T V : M3 K} {l : V3 K} {εa ε₂ μ : K} {w : V3 K}
    (ha : M3.maxAbs (M3.sub (M3.mul (M3.tr V) V) M3.one) ≤ εa)
    (hd : M3.maxAbs (M3.sub (M3.mul (M3.mul (M3.tr V) T) V) (M3.diag l.x l.y l.z)) ≤ ε₂)
    (hw : w ≠ V3.zero)
    (he : M3.mulVec T (M3.mulVec V w) = V3.smul μ (M3.mulVec V w)) :
    |l.x - μ| ≤ 3 * (ε₂ + |μ| * εa) ∨ |l.y - μ| ≤ 3 * (ε₂ + |μ| * εa) ∨ |l.z - μ| ≤ 3 * (ε₂ + |μ| * εa) := by
  have h1 : M3.mulVec (M3.mul (M3.mul (M3.tr V) T) V) w = M3.mulVec (M3.tr V) (M3.mulVec T (M3.mulVec V w)) := by
    rw [← mulVec_mulVec, ← mulVec_mulVec]
  have h2 : M3.mulVec (M3.mul (M3.tr V) V) w = M3.mulVec (M3.tr V) (M3.mulVec V w) := by rw [← mulVec_mulVec]
  have hAG : M3.mulVec (M3.mul (M3.mul (M3.tr V) T) V) w = V3.smul μ (M3.mulVec (M3.mul (M3.tr V) V) w) := by
    rw [h1, he, mulVec_smul, ← h2]
  obtain ⟨g1, g2, g3, g4, g5, g6, g7, g8, g9⟩ := maxAbs_entries ha
  obtain ⟨c1, c2, c3, c4, c5, c6, c7, c8, c9⟩ := maxAbs_entries hd
  generalize M3.mul (M3.mul (M3.tr V) T) V = A at hAG c1 c2 c3 c4 c5 c6 c7 c8 c9
  generalize M3.mul (M3.tr V) V = G at hAG g1 g2 g3 g4 g5 g6 g7 g8 g9
  simp only [M3.sub, M3.one, M3.diag, sub_zero] at g1 g2 g3 g4 g5 g6 g7 g8 g9 c1 c2 c3 c4 c5 c6 c7 c8 c9
  have hx := congrArg V3.x hAG; have hy := congrArg V3.y hAG; have hz := congrArg V3.z hAG
  simp only [M3.mulVec, V3.smul] at hx hy hz
  rcases exists_max_comp hw with ⟨m1, m2, hp⟩ | ⟨m1, m2, hp⟩ | ⟨m1, m2, hp⟩
  · left
    refine row_bound (wi := w.x) (w1 := w.x) (w2 := w.y) (w3 := w.z)
      (e1 := μ * (G.xx - 1) - (A.xx - l.x)) (e2 := μ * G.xy - A.xy) (e3 := μ * G.xz - A.xz) ?_
      (pert_entry_bound g1 c1) (pert_entry_bound g2 c2) (pert_entry_bound g3 c3) (le_refl _) m1 m2 hp
    linear_combination hx
  · right; left
    refine row_bound (wi := w.y) (w1 := w.x) (w2 := w.y) (w3 := w.z)
      (e1 := μ * G.yx - A.yx) (e2 := μ * (G.yy - 1) - (A.yy - l.y)) (e3 := μ * G.yz - A.yz) ?_
      (pert_entry_bound g4 c4) (pert_entry_bound g5 c5) (pert_entry_bound g6 c6) m1 (le_refl _) m2 hp
    linear_combination hy
  · right; right
    refine row_bound (wi := w.z) (w1 := w.x) (w2 := w.y) (w3 := w.z)
      (e1 := μ * G.zx - A.zx) (e2 := μ * G.zy - A.zy) (e3 := μ * (G.zz - 1) - (A.zz - l.z)) ?_
      (pert_entry_bound g7 c7) (pert_entry_bound g8 c8) (pert_entry_bound g9 c9) m1 m2 (le_refl _) hp
    linear_combination hz

/-! ## 4. uniqueness of the eigen-frame, quantitatively -/

/-- `V, l` is an eigen-frame of `T` up to `ε₁` (both orthogonality residuals) and `ε₂` (diagonalisation):
what `isEigFrame T V l ε₁ ε₂` certifies, without the ordering of `l` -/
def ApproxFrame (T V : M3 K) (l : V3 K) (ε₁ ε₂ : K) : Prop :=
  M3.maxAbs (M3.sub (M3.mul (M3.tr V) V) M3.one) ≤ ε₁ ∧ M3.maxAbs (M3.sub (M3.mul V (M3.tr V)) M3.one) ≤ ε₁ ∧
  M3.maxAbs (M3.sub (M3.mul (M3.mul (M3.tr V) T) V) (M3.diag l.x l.y l.z)) ≤ ε₂

omit [IsStrictOrderedRing K] in
theorem approxFrame_of_cert {T V : M3 K} {l : V3 K} {eo ed : K} (hc : isEigFrame T V l eo ed = true) :
    ApproxFrame T V l eo ed := by
  unfold isEigFrame certResiduals at hc
  simp only [Bool.and_eq_true, decide_eq_true_eq] at hc
  obtain ⟨⟨⟨⟨h1, h2⟩, h3⟩, -⟩, -⟩ := hc
  exact ⟨h1, h2, h3⟩

/-- an exact frame is an approximate frame at tolerance 0 -/
theorem approxFrame_of_exact {T V : M3 K} {l : V3 K} (hV : Orth V)
    (hD : M3.mul (M3.mul (M3.tr V) T) V = M3.diag l.x l.y l.z) : ApproxFrame T V l 0 0 := by
  have hz : ∀ A : M3 K, M3.maxAbs (M3.sub A A) = 0 := by
    intro A; simp [M3.maxAbs, M3.sub]
  unfold ApproxFrame
  rw [hV.1, hV.2, hD, hz, hz]
  exact ⟨le_refl _, le_refl _, le_refl _⟩

/-- numerator of the overlap bound: `(1+ε₁)(6ε₂ + 3θ + 18τε₁)`  (`τ ≥ ‖T‖,‖T'‖`, `θ ≥ ‖T-T'‖`) -/
def overlapDelta (ε₁ ε₂ τ θ : K) : K := (1 + ε₁) * (6 * ε₂ + 3 * θ + 18 * τ * ε₁)

/-- **Off-components of `VᵀV'` are bounded by residual / gap** (step 1: times the gap).
Two approximate eigen-frames `(V,l)` of `T` and `(V',l')` of `T'` (max-entry norms `‖T‖,‖T'‖ ≤ τ`,
`‖T-T'‖ ≤ θ`).  Then every entry of `M = VᵀV'` satisfies `|(lᵢ - l'ⱼ)·Mᵢⱼ| ≤ (1+ε₁)(6ε₂ + 3θ + 18τε₁)`.
For exact frames of the same `T` this is `(lᵢ - l'ⱼ)Mᵢⱼ = 0` (`intertwine_entries`). -/
theorem overlap_offdiag_approx {T T' V V' : M3 K} {l l' : V3 K} {ε₁ ε₂ τ θ : K}
    (hF : ApproxFrame T V l ε₁ ε₂) (hF' : ApproxFrame T' V' l' ε₁ ε₂)
    (hT : M3.maxAbs T ≤ τ) (hT' : M3.maxAbs T' ≤ τ) (hθ : M3.maxAbs (M3.sub T T') ≤ θ) :
    let M := M3.mul (M3.tr V) V'
    let δ := overlapDelta ε₁ ε₂ τ θ
    |(l.x - l'.x) * M.xx| ≤ δ ∧ |(l.x - l'.y) * M.xy| ≤ δ ∧ |(l.x - l'.z) * M.xz| ≤ δ ∧
    |(l.y - l'.x) * M.yx| ≤ δ ∧ |(l.y - l'.y) * M.yy| ≤ δ ∧ |(l.y - l'.z) * M.yz| ≤ δ ∧
    |(l.z - l'.x) * M.zx| ≤ δ ∧ |(l.z - l'.y) * M.zy| ≤ δ ∧ |(l.z - l'.z) * M.zz| ≤ δ := by
  intro M δ
  obtain ⟨hc0, hc1, hc2⟩ := col_normSq_le (V := V) hF.1
  obtain ⟨hc0', hc1', hc2'⟩ := col_normSq_le (V := V') hF'.1
  have hM : M3.maxAbs M ≤ 1 + ε₁ := overlap_maxAbs hc0 hc1 hc2 hc0' hc1' hc2'
  have t1 := maxAbs_mul_le hM (show M3.maxAbs (M3.sub (sandwich V' T') (M3.diag l'.x l'.y l'.z)) ≤ ε₂ from hF'.2.2)
  have t2 := maxAbs_mul_le (show M3.maxAbs (M3.sub (sandwich V T) (M3.diag l.x l.y l.z)) ≤ ε₂ from hF.2.2) hM
  have t3 := sandwich2_bound hθ hc0 hc1 hc2 hc0' hc1' hc2'
  have hTF : M3.maxAbs (M3.mul T (E1 V)) ≤ 3 * τ * ε₁ := maxAbs_mul_le hT hF.2.1
  have hFT : M3.maxAbs (M3.mul (E1 V') T') ≤ 3 * ε₁ * τ := maxAbs_mul_le (show M3.maxAbs (E1 V') ≤ ε₁ from hF'.2.1) hT'
  have t4 := sandwich2_bound hTF hc0 hc1 hc2 hc0' hc1' hc2'
  have t5 := sandwich2_bound hFT hc0 hc1 hc2 hc0' hc1' hc2'
  have total := maxAbs_add_le (maxAbs_sub_le t1 t2) (maxAbs_add_le t3 (maxAbs_sub_le t4 t5))
  rw [← intertwine_defect] at total
  have hδ : 3 * (1 + ε₁) * ε₂ + 3 * ε₂ * (1 + ε₁) + (3 * θ * (1 + ε₁) + (3 * (3 * τ * ε₁) * (1 + ε₁) + 3 * (3 * ε₁ * τ) * (1 + ε₁))) = δ := by
    simp only [δ, overlapDelta]; ring
  rw [hδ] at total
  obtain ⟨e1, e2, e3, e4, e5, e6, e7, e8, e9⟩ := maxAbs_entries total
  simp only [M3.sub, M3.mul, M3.diag, M3.tr] at e1 e2 e3 e4 e5 e6 e7 e8 e9
  simp only [M, M3.mul, M3.tr]
  refine ⟨?_, ?_, ?_, ?_, ?_, ?_, ?_, ?_, ?_⟩
  · refine le_of_eq_of_le (congrArg _ ?_) e1; ring
  · refine le_of_eq_of_le (congrArg _ ?_) e2; ring
  · refine le_of_eq_of_le (congrArg _ ?_) e3; ring
  · refine le_of_eq_of_le (congrArg _ ?_) e4; ring
  · refine le_of_eq_of_le (congrArg _ ?_) e5; ring
  · refine le_of_eq_of_le (congrArg _ ?_) e6; ring
  · refine le_of_eq_of_le (congrArg _ ?_) e7; ring
  · refine le_of_eq_of_le (congrArg _ ?_) e8; ring
  · refine le_of_eq_of_le (congrArg _ ?_) e9; ring

/-- the moments of the two frames are separated: `|lᵢ - l'ⱼ| ≥ γ` for `i ≠ j` (checkable on the numbers
`eigh` returned for the two calls) -/
def Gapped (l l' : V3 K) (γ : K) : Prop :=
  γ ≤ |l.x - l'.y| ∧ γ ≤ |l.x - l'.z| ∧ γ ≤ |l.y - l'.x| ∧ γ ≤ |l.y - l'.z| ∧ γ ≤ |l.z - l'.x| ∧ γ ≤ |l.z - l'.y|

/-- entrywise distance of the two frames as a function of `ε₁` and `η = δ/γ`:
`(1+ε₁)·(κ + 2η + 3ε₁)`, `κ = ε₁ + 3ε₁(1+ε₁) + 2η²` -/
def frameBound (ε₁ η : K) : K := (1 + ε₁) * ((ε₁ + 3 * ε₁ * (1 + ε₁) + 2 * (η * η)) + 2 * η + 3 * ε₁)

/-- **Quantitative eigen-frame uniqueness** (3×3, explicit constants; replaces `eigframe_unique` when the
certificates are only approximate).  Two approximate eigen-frames `(V,l)` of `T`, `(V',l')` of `T'`
(residuals `ε₁`, `ε₂`; `‖T‖,‖T'‖ ≤ τ`; `‖T-T'‖ ≤ θ`) whose moments are separated by `γ > 0` (`Gapped`).
Then there are signs `d₀,d₁,d₂ ∈ {1,-1}` with `‖V' - V·diag(d)‖ ≤ frameBound ε₁ (δ/γ)`, `δ = overlapDelta`:
to first order `7ε₁ + 2δ/γ`, i.e. `O(ε/gap)`.  At `ε₁ = ε₂ = θ = 0` the bound is 0 (`eigframe_unique`). -/
theorem eigframe_unique_approx {T T' V V' : M3 K} {l l' : V3 K} {ε₁ ε₂ τ θ γ : K}
    (hF : ApproxFrame T V l ε₁ ε₂) (hF' : ApproxFrame T' V' l' ε₁ ε₂)
    (hT : M3.maxAbs T ≤ τ) (hT' : M3.maxAbs T' ≤ τ) (hθ : M3.maxAbs (M3.sub T T') ≤ θ)
    (hγ : 0 < γ) (hgap : Gapped l l' γ) :
    ∃ d0 d1 d2 : K, (d0 = 1 ∨ d0 = -1) ∧ (d1 = 1 ∨ d1 = -1) ∧ (d2 = 1 ∨ d2 = -1) ∧
      M3.maxAbs (M3.sub V' (M3.mul V (M3.diag d0 d1 d2))) ≤ frameBound ε₁ (overlapDelta ε₁ ε₂ τ θ / γ) := by
  obtain ⟨-, o2, o3, o4, -, o6, o7, o8, -⟩ := overlap_offdiag_approx hF hF' hT hT' hθ
  obtain ⟨g2, g3, g4, g6, g7, g8⟩ := hgap
  set M := M3.mul (M3.tr V) V' with hMdef
  set η := overlapDelta ε₁ ε₂ τ θ / γ with hη
  have m2 : |M.xy| ≤ η := div_bound o2 g2 hγ
  have m3 : |M.xz| ≤ η := div_bound o3 g3 hγ
  have m4 : |M.yx| ≤ η := div_bound o4 g4 hγ
  have m6 : |M.yz| ≤ η := div_bound o6 g6 hγ
  have m7 : |M.zx| ≤ η := div_bound o7 g7 hγ
  have m8 : |M.zy| ≤ η := div_bound o8 g8 hγ
  obtain ⟨hc0, hc1, hc2⟩ := col_normSq_le (V := V) hF.1
  obtain ⟨hc0', hc1', hc2'⟩ := col_normSq_le (V := V') hF'.1
  have hε : 0 ≤ ε₁ := le_trans (maxAbs_nonneg _) hF.1
  have hc : (1 : K) ≤ 1 + ε₁ := by linarith
  -- Gram identity for the diagonal of M
  have hgram := overlap_gram V V'
  rw [← hMdef] at hgram
  have s := sandwich2_bound (show M3.maxAbs (E1 V) ≤ ε₁ from hF.2.1) hc0' hc1' hc2' hc0' hc1' hc2'
  obtain ⟨s1, -, -, -, s5, -, -, -, s9⟩ := maxAbs_entries s
  obtain ⟨q1, -, -, -, q5, -, -, -, q9⟩ := maxAbs_entries hF'.1
  have k1 := congrArg M3.xx hgram; have k5 := congrArg M3.yy hgram; have k9 := congrArg M3.zz hgram
  generalize M3.mul (M3.mul (M3.tr V') (E1 V)) V' = Sm at k1 k5 k9 s1 s5 s9
  generalize M3.mul (M3.tr V') V' = G' at k1 k5 k9 q1 q5 q9
  simp only [M3.mul, M3.tr, M3.add] at k1 k5 k9
  simp only [M3.sub, M3.one] at q1 q5 q9
  have d0b := diag_from_gram (m := M.xx) (p := M.yx) (q := M.zx) (g := G'.xx - 1) (s := Sm.xx) (by linear_combination k1) q1 s1 m4 m7
  have d1b := diag_from_gram (m := M.yy) (p := M.xy) (q := M.zy) (g := G'.yy - 1) (s := Sm.yy) (by linear_combination k5) q5 s5 m2 m8
  have d2b := diag_from_gram (m := M.zz) (p := M.xz) (q := M.yz) (g := G'.zz - 1) (s := Sm.zz) (by linear_combination k9) q9 s9 m3 m6
  refine ⟨if 0 ≤ M.xx then 1 else -1, if 0 ≤ M.yy then 1 else -1, if 0 ≤ M.zz then 1 else -1, ?_, ?_, ?_, ?_⟩
  · split_ifs <;> simp
  · split_ifs <;> simp
  · split_ifs <;> simp
  · rw [frame_diff, ← hMdef]
    have hVmax : M3.maxAbs V ≤ 1 + ε₁ := maxAbs_le_of_cols hc hc0 hc1 hc2
    have hV'max : M3.maxAbs V' ≤ 1 + ε₁ := maxAbs_le_of_cols hc hc0' hc1' hc2'
    have p1 : M3.maxAbs (M3.mul V (M3.sub M (M3.diag (if 0 ≤ M.xx then 1 else -1) (if 0 ≤ M.yy then 1 else -1) (if 0 ≤ M.zz then 1 else -1))))
        ≤ (1 + ε₁) * ((ε₁ + 3 * ε₁ * (1 + ε₁) + 2 * (η * η)) + 2 * η) := by
      apply mul_near_diag_bound hVmax <;> simp only [M3.sub, M3.diag, sub_zero]
      · exact d0b
      · exact d1b
      · exact d2b
      · exact m2
      · exact m3
      · exact m4
      · exact m6
      · exact m7
      · exact m8
    have p2 : M3.maxAbs (M3.mul (E1 V) V') ≤ 3 * ε₁ * (1 + ε₁) := maxAbs_mul_le (show M3.maxAbs (E1 V) ≤ ε₁ from hF.2.1) hV'max
    refine le_trans (maxAbs_sub_le p1 p2) (le_of_eq ?_)
    simp only [frameBound]; ring

/-- tolerances can only be enlarged -/
theorem ApproxFrame.mono {T V : M3 K} {l : V3 K} {ε₁ ε₂ ε₁' ε₂' : K} (h : ApproxFrame T V l ε₁ ε₂)
    (h1 : ε₁ ≤ ε₁') (h2 : ε₂ ≤ ε₂') : ApproxFrame T V l ε₁' ε₂' :=
  ⟨le_trans h.1 h1, le_trans h.2.1 h1, le_trans h.2.2 h2⟩

/-- **Second pass, quantitatively** (theorems 2 and 4 together).  `out` = geometry oriented with a frame
`(V,l)` whose residuals are `εa, εb, ε₂`; `B = B_diag` of `inertia_diagonal_approx`.  Let `(V2,l2)` be ANY
approximate eigen-frame (residuals `ε₁`, `E₂ ≥ B`) of the tensor of `out` — what the second `eigh` call is
certified to return — with moments separated from `l` by `γ`.  Then `V2` is `diag(±1)` up to
`frameBound ε₁ (overlapDelta ε₁ E₂ τ 0 / γ)` entrywise: the second rotation moves no coordinate by more than
that bound times `3·max|coordinate|`  (exact version: `orient_idempotent`, where `V2 = diag(±1)` exactly).
-- FULL: equality of the PHASED second-pass geometry with `out` up to this bound additionally needs every
--        phase decision to be stable under the perturbation (deciding atom further than the bound from the
--        `noise` threshold); that stability statement is not proved here — the harness checks it per case
--        (`decisions_stable`) with a first-order bound of the same shape `2·δT/gap`. -/
theorem second_pass_frame_approx_partial {noise : K} {ms : List K} {xs : List (V3 K)} {V V2 : M3 K} {out : List (V3 K)}
    {l l2 : V3 K} {εa εb ε₂ ε₁ E₂ τ γ : K}
    (ha : M3.maxAbs (M3.sub (M3.mul (M3.tr V) V) M3.one) ≤ εa)
    (hb : M3.maxAbs (M3.sub (M3.mul V (M3.tr V)) M3.one) ≤ εb)
    (hd : M3.maxAbs (M3.sub (M3.mul (M3.mul (M3.tr V) (orientTensor ms xs)) V) (M3.diag l.x l.y l.z)) ≤ ε₂)
    (h : orientCore noise ms xs V = .ok out)
    (hB : inertiaBoundDiag εa εb ε₂ (absS ms (center ms xs)) ≤ E₂) (hε : 0 ≤ ε₁)
    (h2 : ApproxFrame (orientTensor ms out) V2 l2 ε₁ E₂)
    (hτ : M3.maxAbs (orientTensor ms out) ≤ τ) (hγ : 0 < γ) (hgap : Gapped l l2 γ) :
    ∃ d0 d1 d2 : K, (d0 = 1 ∨ d0 = -1) ∧ (d1 = 1 ∨ d1 = -1) ∧ (d2 = 1 ∨ d2 = -1) ∧
      M3.maxAbs (M3.sub V2 (M3.diag d0 d1 d2)) ≤ frameBound ε₁ (overlapDelta ε₁ E₂ τ 0 / γ) := by
  have hT : orientTensor ms out = inertia ms out := by
    unfold orientTensor; rw [center_of_centred (orient_com_zero h)]
  have h1 : ApproxFrame (orientTensor ms out) M3.one l ε₁ E₂ := by
    have hz : ∀ A : M3 K, M3.maxAbs (M3.sub A A) = 0 := by
      intro A; simp [M3.maxAbs, M3.sub]
    refine ⟨?_, ?_, ?_⟩
    · rw [tr_one, one_mul3, hz]; exact hε
    · rw [tr_one, mul_one3, hz]; exact hε
    · rw [tr_one, one_mul3, mul_one3, hT]
      exact le_trans (inertia_diagonal_maxAbs ha hb hd h) hB
  have hθ : M3.maxAbs (M3.sub (orientTensor ms out) (orientTensor ms out)) ≤ 0 := by
    simp [M3.maxAbs, M3.sub]
  obtain ⟨d0, d1, d2, p0, p1, p2, hb'⟩ := eigframe_unique_approx h1 h2 hτ hτ hθ hγ hgap
  rw [one_mul3] at hb'
  exact ⟨d0, d1, d2, p0, p1, p2, hb'⟩

/-- **Rigid copies, quantitatively (frames).**  `ys = xs·R + t` with `R` exactly orthogonal.  `(V,l)` an
approximate eigen-frame of the tensor of `xs`, `(V',l')` one of the tensor of `ys` (residuals `ε₁`, `ε₂` each),
moments separated by `γ`.  Then the frame found for the copy, pulled back by `R`, is the original frame up to
column signs: `‖R·V' - V·diag(d)‖ ≤ frameBound (3ε₁) (overlapDelta (3ε₁) ε₂ τ 0 / γ)` (the factor 3: the max-entry
norm of `R(V'V'ᵀ-1)Rᵀ`).  Exact version: `orient_rigid_invariant` (`V' = Rᵀ V diag(±1)`).
-- FULL: equality of the two ORIENTED geometries up to this bound times the molecular extent needs, again,
--        stability of the phase decisions, which is checked per case by the harness and not proved here. -/
theorem eigframe_rigid_approx_partial {ms : List K} {xs : List (V3 K)} (hl : ms.length = xs.length) (hM : massSum ms ≠ 0)
    {R V V' : M3 K} (hR : Orth R) (t : V3 K) {l l' : V3 K} {ε₁ ε₂ τ γ : K}
    (hF : ApproxFrame (orientTensor ms xs) V l ε₁ ε₂)
    (hF' : ApproxFrame (orientTensor ms (xs.map (fun p => V3.add (V3.mulMat p R) t))) V' l' ε₁ ε₂)
    (hτ : M3.maxAbs (orientTensor ms xs) ≤ τ) (hγ : 0 < γ) (hgap : Gapped l l' γ) :
    ∃ d0 d1 d2 : K, (d0 = 1 ∨ d0 = -1) ∧ (d1 = 1 ∨ d1 = -1) ∧ (d2 = 1 ∨ d2 = -1) ∧
      M3.maxAbs (M3.sub (M3.mul R V') (M3.mul V (M3.diag d0 d1 d2)))
        ≤ frameBound (3 * ε₁) (overlapDelta (3 * ε₁) ε₂ τ 0 / γ) := by
  have hε : 0 ≤ ε₁ := le_trans (maxAbs_nonneg _) hF.1
  obtain ⟨f1, f2, f3⟩ := hF'
  rw [orientTensor_rigid hl hM hR t] at f3
  -- the pulled-back frame W = R V'
  have e1 : M3.mul (M3.tr (M3.mul R V')) (M3.mul R V') = M3.mul (M3.tr V') V' := by
    rw [tr_mul, mul_assoc3, ← mul_assoc3 (M3.tr R) R V', hR.1, one_mul3]
  have e3 : M3.mul (M3.mul (M3.tr (M3.mul R V')) (orientTensor ms xs)) (M3.mul R V')
      = M3.mul (M3.mul (M3.tr V') (M3.mul (M3.mul (M3.tr R) (orientTensor ms xs)) R)) V' := by
    have := sandwich_sandwich R V' (orientTensor ms xs)
    unfold sandwich at this
    exact this.symm
  have e2 : M3.sub (M3.mul (M3.mul R V') (M3.tr (M3.mul R V'))) M3.one
      = M3.mul (M3.mul (M3.tr (M3.tr R)) (M3.sub (M3.mul V' (M3.tr V')) M3.one)) (M3.tr R) := by
    have hRR := hR.2
    have h9 := congrArg M3.xx hRR; have h8 := congrArg M3.xy hRR; have h7 := congrArg M3.xz hRR
    have h6 := congrArg M3.yx hRR; have h5 := congrArg M3.yy hRR; have h4 := congrArg M3.yz hRR
    have h3 := congrArg M3.zx hRR; have h2 := congrArg M3.zy hRR; have h1 := congrArg M3.zz hRR
    simp only [M3.mul, M3.tr, M3.one] at h1 h2 h3 h4 h5 h6 h7 h8 h9
    apply M3.ext' <;> simp only [M3.mul, M3.tr, M3.sub, M3.one]
    · linear_combination h9
    · linear_combination h8
    · linear_combination h7
    · linear_combination h6
    · linear_combination h5
    · linear_combination h4
    · linear_combination h3
    · linear_combination h2
    · linear_combination h1
  have rows : V3.normSq (M3.col0 (M3.tr R)) ≤ 1 ∧ V3.normSq (M3.col1 (M3.tr R)) ≤ 1 ∧ V3.normSq (M3.col2 (M3.tr R)) ≤ 1 := by
    have hRR := hR.2
    have h9 := congrArg M3.xx hRR; have h5 := congrArg M3.yy hRR; have h1 := congrArg M3.zz hRR
    simp only [M3.mul, M3.tr, M3.one] at h1 h5 h9
    simp only [V3.normSq, M3.col0, M3.col1, M3.col2, M3.tr]
    exact ⟨le_of_eq h9, le_of_eq h5, le_of_eq h1⟩
  have hW2 : M3.maxAbs (M3.sub (M3.mul (M3.mul R V') (M3.tr (M3.mul R V'))) M3.one) ≤ 3 * ε₁ := by
    rw [e2]
    have := sandwich2_bound f2 rows.1 rows.2.1 rows.2.2 rows.1 rows.2.1 rows.2.2
    linarith
  have hW : ApproxFrame (orientTensor ms xs) (M3.mul R V') l' (3 * ε₁) ε₂ := by
    refine ⟨?_, hW2, ?_⟩
    · rw [e1]; exact le_trans f1 (by linarith)
    · rw [e3]; exact f3
  have hθ : M3.maxAbs (M3.sub (orientTensor ms xs) (orientTensor ms xs)) ≤ 0 := by
    simp [M3.maxAbs, M3.sub]
  exact eigframe_unique_approx (hF.mono (by linarith) (le_refl _)) hW hτ hτ hθ hγ hgap

end Ordered

/-! ## non-vacuity (tests, `K = ℚ`): a frame that is NOT orthogonal and NOT an exact eigen-frame -/
section Examples

/-- a shear of the identity by 1/1000: `VᵀV ≠ 1`, `VVᵀ ≠ 1`, `VᵀTV` not diagonal -/
def apV : M3 ℚ := ⟨1, 1 / 1000, 0, 0, 1, 0, 0, 0, 1⟩
/-- the model's oriented geometry of the test molecule of `Props/C16.lean` with that frame -/
def apOut : List (V3 ℚ) := [⟨2, 501 / 500, 0⟩, ⟨2, -499 / 500, 0⟩, ⟨-2, -1 / 500, 0⟩]

/-- test: the certificate function accepts `apV` at tolerances (1/1000, 1/500) and not at tolerance 0 -/
example : isEigFrame (orientTensor exMs exXs) apV ⟨2, 16, 18⟩ (1 / 1000) (1 / 500) = true ∧
    isEigFrame (orientTensor exMs exXs) apV ⟨2, 16, 18⟩ 0 0 = false := by decide +kernel
example : orientCore (1 / 100000000) exMs exXs apV = .ok apOut := by decide +kernel
/-- test: the residual triple and the printed bounds for this call: `S = 18`, `B_off = 1/50`, `B_diag = 37/500` -/
example : certResiduals (orientTensor exMs exXs) apV ⟨2, 16, 18⟩ = (1 / 1000, 1 / 1000, 1 / 500) ∧
    inertiaBounds exMs exXs apV ⟨2, 16, 18⟩ = (18, 1 / 50, 37 / 500) := by decide +kernel
/-- test: the oriented tensor is genuinely non-diagonal (`I_xy = -2/125`), inside the proved bound `1/50`, and the
defect term of `inertia_defect` is non-zero — the hypotheses of `inertia_diagonal_approx` are met non-trivially -/
example : (inertia exMs apOut).xy = -2 / 125 ∧ |(inertia exMs apOut).xy| ≤ 1 / 50 ∧
    inertiaDefect exMs (center exMs exXs) apV ≠ M3.zero := by decide +kernel
/-- the theorem applied to the test data -/
example : |(inertia exMs apOut).xy| ≤ (inertiaBounds exMs exXs apV ⟨2, 16, 18⟩).2.1 :=
  (inertia_diagonal_driver (noise := 1 / 100000000) (ms := exMs) (xs := exXs) (V := apV) (out := apOut) ⟨2, 16, 18⟩
    (by decide +kernel)).2.1
example : (inertia exMs apOut).xx ≤ (inertia exMs apOut).yy + 2 * (37 / 500) :=
  (moments_ascending_approx (noise := 1 / 100000000) (ms := exMs) (xs := exXs) (V := apV) (out := apOut) (l := ⟨2, 16, 18⟩)
    (εa := 1 / 1000) (εb := 1 / 1000) (ε₂ := 1 / 500)
    (by decide +kernel) (by decide +kernel) (by decide +kernel) (by decide +kernel) (by decide +kernel) (by decide +kernel)).1.1.trans
    (by decide +kernel)

/-- test for `eigenvalue_near_certified_partial`: `u = apV·w = e_y` is an exact eigenvector of `T = diag(2,16,18)` for `μ = 16`
with `w = (-1/1000, 1, 0)`; the theorem places `μ` within `3(1/500 + 16/1000)` of a certified value -/
example : |(2 : ℚ) - 16| ≤ 3 * (1 / 500 + |16| * (1 / 1000)) ∨ |(16 : ℚ) - 16| ≤ 3 * (1 / 500 + |16| * (1 / 1000)) ∨
    |(18 : ℚ) - 16| ≤ 3 * (1 / 500 + |16| * (1 / 1000)) :=
  eigenvalue_near_certified_partial (T := M3.diag 2 16 18) (V := apV) (l := ⟨2, 16, 18⟩) (w := ⟨-1 / 1000, 1, 0⟩)
    (by decide +kernel) (by decide +kernel) (by decide +kernel) (by decide +kernel)

/-- a second, different approximate frame of `diag(10,20,26)`: signs flipped and sheared -/
def apV' : M3 ℚ := ⟨-1, 0, 0, 1 / 1000, 1, 0, 0, 0, -1⟩

/-- test: all hypotheses of `eigframe_unique_approx` hold for `T = T' = diag(10,20,26)`, `V = apV`, `V' = apV'`
(neither orthogonal, `V' ≠ V·diag(±1)`), gap 6 -/
example : ApproxFrame (M3.diag 10 20 26) apV (⟨10, 20, 26⟩ : V3 ℚ) (1 / 1000) (1 / 50) ∧
    ApproxFrame (M3.diag 10 20 26) apV' (⟨10, 20, 26⟩ : V3 ℚ) (1 / 1000) (1 / 50) ∧
    M3.maxAbs (M3.diag (10 : ℚ) 20 26) ≤ 26 ∧ Gapped (⟨10, 20, 26⟩ : V3 ℚ) ⟨10, 20, 26⟩ 6 ∧
    ¬ ∃ d0 d1 d2 : ℚ, apV' = M3.mul apV (M3.diag d0 d1 d2) := by
  refine ⟨by unfold ApproxFrame; decide +kernel, by unfold ApproxFrame; decide +kernel, by decide +kernel,
    by unfold Gapped; decide +kernel, ?_⟩
  rintro ⟨d0, d1, d2, h⟩
  have h1 := congrArg M3.yx h
  simp [M3.mul, M3.diag, apV, apV'] at h1
/-- the theorem applied to them: signs exist with `‖V' - V diag(d)‖` below the explicit bound
(here the true distance is 1/1000, for `d = (-1, 1, -1)`) -/
example : ∃ d0 d1 d2 : ℚ, (d0 = 1 ∨ d0 = -1) ∧ (d1 = 1 ∨ d1 = -1) ∧ (d2 = 1 ∨ d2 = -1) ∧
    M3.maxAbs (M3.sub apV' (M3.mul apV (M3.diag d0 d1 d2))) ≤ frameBound (1 / 1000) (overlapDelta (1 / 1000) (1 / 50) 26 0 / 6) :=
  eigframe_unique_approx (T := M3.diag 10 20 26) (T' := M3.diag 10 20 26) (l := ⟨10, 20, 26⟩) (l' := ⟨10, 20, 26⟩)
    (by unfold ApproxFrame; decide +kernel) (by unfold ApproxFrame; decide +kernel) (by decide +kernel) (by decide +kernel)
    (by decide +kernel) (by decide +kernel) (by unfold Gapped; decide +kernel)
/-- test: the bound is informative (well below the size 1 of a frame entry) -/
example : frameBound (1 / 1000 : ℚ) (overlapDelta (1 / 1000) (1 / 50) 26 0 / 6) < 1 / 4 := by
  norm_num [frameBound, overlapDelta]

end Examples

end QcelVerif.Orient
