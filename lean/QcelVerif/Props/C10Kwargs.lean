import QcelVerif.Gen.SerTables
/-!
# C10 — the keyword arguments of the third-party codec calls, as the models assume them

`Model/JsonText.lean` prints with CPython's `json.dumps` DEFAULTS (separators `", "` / `": "`, `ensure_ascii=True`,
`allow_nan=True`, no `indent`, no `sort_keys`): that is right exactly when `json_dumps` / `jsonext_dumps` pass nothing but
`cls=`.  `Model/Serialize.lean` writes `bytes` as msgpack `bin` (`use_bin_type=True`), decodes `str` as text
(`raw=False`) and runs the object hooks named below.  `Gen.codecCalls` / `Gen.jsonEncoders` are re-read from
`qcelemental/util/serialization.py` by `ast` on every run (harness/c10.py:extract_tables); a keyword added, dropped or
changed there breaks `codec_calls_match_source`.
-/
namespace QcelVerif.Ser

/-- what the models assume of every `json.` / `msgpack.` call of util/serialization.py -/
def assumedCodecCalls : List (String × String × Nat × List (String × String)) :=
  [("json_dumps", "json.dumps", 1, [("cls", "JSONArrayEncoder")]),
   ("jsonext_dumps", "json.dumps", 1, [("cls", "JSONExtArrayEncoder")]),
   ("msgpack_dumps", "msgpack.dumps", 1, [("default", "msgpack_encode"), ("use_bin_type", "True")]),
   ("msgpackext_dumps", "msgpack.dumps", 1, [("default", "msgpackext_encode"), ("use_bin_type", "True")]),
   ("json_loads", "json.loads", 1, [("object_hook", "jsonext_decode")]),
   ("jsonext_loads", "json.loads", 1, [("object_hook", "jsonext_decode")]),
   ("msgpack_loads", "msgpack.loads", 1, [("object_hook", "msgpackext_decode"), ("raw", "False")]),
   ("msgpackext_loads", "msgpack.loads", 1, [("object_hook", "msgpackext_decode"), ("raw", "False")])]

/-- the flat encoder ravels, the -ext encoder builds the `_nd_` envelope; both extend `json.JSONEncoder` -/
def assumedJsonEncoders : List (String × String × String) :=
  [("JSONArrayEncoder", "json.JSONEncoder", "ravel"), ("JSONExtArrayEncoder", "json.JSONEncoder", "_nd_")]

/-- `ProtoModel.Config` sets exactly these names: no `json_loads` / `json_dumps` override, so `parse_raw(encoding="json")`
(`Reader.pydJson`) is pydantic's own `json.loads` -/
def assumedProtoConfigKeys : List String :=
  ["allow_mutation", "extra", "force_skip_defaults", "json_encoders", "serialize_default_excludes",
   "serialize_skip_defaults"]

/-- the codec calls in the working tree are exactly the ones the models assume (callee, arity, every keyword and its
value): in particular `json.dumps` gets no `separators` / `indent` / `ensure_ascii` / `allow_nan` / `sort_keys` -/
theorem codec_calls_match_source :
    Gen.codecCalls = assumedCodecCalls ∧ Gen.jsonEncoders = assumedJsonEncoders ∧
      Gen.protoConfigKeys = assumedProtoConfigKeys := by decide

end QcelVerif.Ser
