import QcelVerif.Gen.FromStringFlow
import QcelVerif.Props.C07Text
/-!
# C07 — the COMPOSITION of the psi4 text reader, regenerated from the source, against M1

`Gen/FromStringFlow.lean` holds the statements of `_filter_universals`, `_filter_mints`, `filter_fragment`, `parse_as_psi4_ish` and the
head of `from_string` as printed by `harness/c07_flow.py`; `Model/MolTextFlow.lean` evaluates them on M1's line classes.
-/
namespace QcelVerif.C07Flow
open QcelVerif.MolText QcelVerif.Gen

/-! ## shape obligations -/

/-- SHAPE [rfl]: the head of `from_string` strips, then removes comments; `parse_as_psi4_ish` chains pubchem, universals, libefp,
mints (only mints is given `unsettled`), raises MoleculeFormatError on leftover text and only then returns; the dtype dispatch
sends xyz / xyz+ to `parse_as_xyz_ish(strict=True/False)` and psi4 / psi4+ to `parse_as_psi4_ish(unsettled=False/True)`. -/
theorem shape_dispatch :
    FromStringFlow.pre = [.strip, .filterComments] ∧
    FromStringFlow.psi4Ish = [.initMolinit, .call .pubchem false, .update, .call .universals false, .update, .call .libefp false, .update,
      .call .mints true, .update, .raiseIfLeft "MoleculeFormatError", .ret] ∧
    FromStringFlow.dispatch = [("xyz", "parse_as_xyz_ish", "strict", true), ("xyz+", "parse_as_xyz_ish", "strict", false),
      ("psi4", "parse_as_psi4_ish", "unsettled", false), ("psi4+", "parse_as_psi4_ish", "unsettled", true)] := ⟨rfl, rfl, rfl⟩

/-- the line loop of `_filter_universals` as the proofs below walk through it -/
def universalsLoop : List LStmt :=
  [.strip, .subnIfNot .com .com [.set .fixCom .tt], .subnIfNot .orient .orient [.set .fixOrientation .tt],
   .subnIfNot .bohrang .bohrang [.ifElif .uang .units .angstrom .ubohr .units .bohr],
   .subnIfNot .symmetry .symmetry [.set .fixSymmetry (.lowerGroup .pg)], .keep]

/-- SHAPE [rfl]: `_filter_universals` = four flags cleared, one loop over the lines (strip; com, orient, bohrang, symmetry each tried
only while not yet found, in this order, on every line; non-empty lines kept), remnant joined by newlines -/
theorem shape_universals :
    FromStringFlow.universals = [.initRecon, .initProcessed, .flagFalse .com, .flagFalse .orient, .flagFalse .bohrang, .flagFalse .symmetry,
      .forLines universalsLoop, .retJoin "\n"] := rfl

/-- the line loop of `filter_fragment` -/
def fragmentLoop : List LStmt :=
  [.strip, .subnIfNot .fcgmp .cgmp [.append .fragmentCharges (.floatGroup .chg), .append .fragmentMultiplicities (.intGroup .mult)],
   .sub .unsettled .atomVcart [.unknown "process_atom_unsettled"], .sub .unsettled .atomZmat1 [.unknown "process_atom_unsettled"],
   .sub .unsettled .atomZmat2 [.unknown "process_atom_unsettled"], .sub .unsettled .atomZmat3 [.unknown "process_atom_unsettled"],
   .sub .unsettled .atomZmat4 [.unknown "process_atom_unsettled"], .sub .unsettled .variable [.unknown "process_variable"],
   .sub .settled .atomCartesian [.append .elbl (.strGroup .nucleus), .append .geom (.floatGroup .x), .append .geom (.floatGroup .y),
     .append .geom (.floatGroup .z)], .keep]

/-- SHAPE [rfl]: `_filter_mints` = one loop over the `--`-separated fragments (strip; the FIRST fragment, if it is a lone CHGMULT line,
stores the system charge / multiplicity, every other fragment goes through `filter_fragment`; non-empty remnants kept), nothing after
the loop but the return; `filter_fragment` = fragment separator from the atoms read so far, first CHGMULT line is the fragment's,
Cartesian atom lines consumed, `None`/`None` appended when no CHGMULT line was found -/
theorem shape_mints :
    FromStringFlow.mints = [.initRecon, .initProcessed, .initList .always .elbl, .initList .always .fragmentSeparators,
      .initList .always .fragmentCharges, .initList .always .fragmentMultiplicities, .initList .unsettled .geomUnsettled,
      .initList .unsettled .variables, .initList .settled .geom,
      .forFrags [.stripFrag, .sysOrFragment .cgmp [.set .molecularCharge (.floatGroup .chg), .set .molecularMultiplicity (.intGroup .mult)], .keepFrag],
      .retJoin "\n--\n"] ∧
    FromStringFlow.filterFragment = [.initRecon, .startAtom, .sepIfStart, .flagFalse .fcgmp, .forLines fragmentLoop,
      .ifNotFlag .fcgmp [.append .fragmentCharges .none, .append .fragmentMultiplicities .none], .retJoin "\n"] := ⟨rfl, rfl⟩

/-! ## `_filter_universals` = M1's `univGo` -/

/-- M1's universals state seen as the flags and the record of the source's loop -/
def emb (u : UState) (q : Processed) (rc : List Line) : LState :=
  { fl := { com := u.com, orient := u.ori, bohrang := u.units.isSome, symmetry := u.sym.isSome },
    p := some { q with units := u.units, fixCom := u.com, fixOrient := u.ori, fixSym := u.sym },
    recon := rc, bad := false }

/-- one line of M1's `univGo`: the new state and whether the line stays -/
def uStep (u : UState) (l : Line) : UState × Bool :=
  match l with
  | .com => if u.com then (u, true) else ({ u with com := true }, false)
  | .orient => if u.ori then (u, true) else ({ u with ori := true }, false)
  | .units b => if u.units.isSome then (u, true) else ({ u with units := some b }, false)
  | .sym pg => if u.sym.isSome then (u, true) else ({ u with sym := some pg }, false)
  | _ => (u, true)

theorem univGo_cons (u : UState) (l : Line) (ls : List Line) :
    univGo u (l :: ls) = ((univGo (uStep u l).1 ls).1, (if (uStep u l).2 then [l] else []) ++ (univGo (uStep u l).1 ls).2) := by
  cases l <;> simp only [univGo, uStep] <;> split <;> simp_all

theorem line_step (u : UState) (q : Processed) (rc : List Line) (l : Line) :
    lstmts false universalsLoop (emb u q rc) (some l)
      = emb (uStep u l).1 q (rc ++ (if (uStep u l).2 && l != .blank then [l] else [])) := by
  obtain ⟨c, o, un, sy⟩ := u
  cases l with
  | units b =>
    cases b <;> cases c <;> cases o <;> cases un <;> cases sy <;>
      simp [universalsLoop, lstmts, lstmt, emb, uStep, Flags.get, Flags.set, patHits, stores, store1, grpTruthy, grpStr, unitOf]
  | _ =>
    cases c <;> cases o <;> cases un <;> cases sy <;>
      simp [universalsLoop, lstmts, lstmt, emb, uStep, Flags.get, Flags.set, patHits, stores, store1, grpTruthy, grpStr, unitOf]

theorem forLines_universals (ls : List Line) : ∀ (u : UState) (q : Processed) (rc : List Line),
    forLines false universalsLoop (emb u q rc) ls
      = emb (univGo u ls).1 q (rc ++ (univGo u ls).2.filter (· != .blank)) := by
  induction ls with
  | nil => intro u q rc; simp [forLines, univGo]
  | cons l ls ih =>
    intro u q rc
    rw [forLines, line_step, ih, univGo_cons]
    cases h1 : (uStep u l).2 <;> cases h2 : (l != .blank) <;> simp [List.filter, h2]

/-- M1 drops blank lines before `univGo`; the source drops them in the loop (`if line:`): the same -/
theorem univGo_filter_blank (ls : List Line) : ∀ u : UState,
    univGo u (ls.filter (· != .blank)) = ((univGo u ls).1, (univGo u ls).2.filter (· != .blank)) := by
  induction ls with
  | nil => intro u; simp [univGo]
  | cons l ls ih =>
    intro u
    by_cases hb : l = .blank
    · subst hb; simp [univGo, ih]
    · have : (l != .blank) = true := by simpa using hb
      have hf : (l :: ls).filter (· != Line.blank) = l :: ls.filter (· != Line.blank) := by simp [List.filter, this]
      rw [hf, univGo_cons, univGo_cons, ih]
      cases (uStep u l).2 <;> simp [List.filter, this]

/-- **universals_flow_eq**: `_filter_universals` as regenerated from the source, run from a fresh record on ANY list of (stripped,
classified) lines, consumes exactly what M1's `univGo` consumes after blank lines are dropped: same four stored fields, same remnant
lines in the same order, every statement interpreted. -/
theorem universals_flow_eq (ls : List Line) :
    runFilter false FromStringFlow.universals (some {}) ls
      = (some { ({} : Processed) with units := (univGo {} (ls.filter (· != .blank))).1.units,
                                      fixCom := (univGo {} (ls.filter (· != .blank))).1.com,
                                      fixOrient := (univGo {} (ls.filter (· != .blank))).1.ori,
                                      fixSym := (univGo {} (ls.filter (· != .blank))).1.sym },
         (univGo {} (ls.filter (· != .blank))).2, true) := by
  have h : forLines false universalsLoop ({} : LState) ls
      = emb (univGo {} ls).1 {} ((univGo {} ls).2.filter (· != .blank)) := by
    have := forLines_universals ls {} {} []
    rw [List.nil_append] at this
    exact this
  rw [univGo_filter_blank]
  simp only [runFilter, shape_universals, stmts, stmt, Flags.set]
  simp [h, emb]

/-! ## `parse_as_psi4_ish`, `_filter_mints`: kernel tests (the for-all theorems are in Props/C07FlowMints.lean: `mints_flow_eq`,
`psi4_flow_eq`, `srcRead_eq_parseText_partial`) -/

def np (s : String) : NumParts := (parseNumber s.toList).getD { neg := false, ip := [], fp := [], hasDot := false, exp := none }
def atomL (n : String) (z : String) : Line := .atom n.toList (np "0") (np "0") (np z)

/-- test [decide]: system header + two fragments with their own CHGMULT lines, keywords anywhere, a blank line -/
example : srcPsi4Lines FromStringFlow.prog
      [.cgmp (np "0") "1".toList, .marker, .cgmp (np "-1") "2".toList, atomL "He" "0", .units true, .marker, .blank, atomL "@He" "3", .cgmp (np "1") "2".toList, .com]
    = parsePsi4Lines
      [.cgmp (np "0") "1".toList, .marker, .cgmp (np "-1") "2".toList, atomL "He" "0", .units true, .marker, .blank, atomL "@He" "3", .cgmp (np "1") "2".toList, .com] := by
  decide

/-- test [decide]: leftover text (a second units line, a second CHGMULT line in one fragment) is MoleculeFormatError in both -/
example : srcPsi4Lines FromStringFlow.prog [.units true, atomL "He" "0", .units false] = .formatError ∧
    parsePsi4Lines [.units true, atomL "He" "0", .units false] = .formatError ∧
    srcPsi4Lines FromStringFlow.prog [.cgmp (np "0") "1".toList, atomL "He" "0", .cgmp (np "0") "1".toList] = .formatError ∧
    parsePsi4Lines [.cgmp (np "0") "1".toList, atomL "He" "0", .cgmp (np "0") "1".toList] = .formatError := by
  decide

/-- test [decide]: no atom at all; a lone CHGMULT line is the system header only in the FIRST fragment -/
example : srcPsi4Lines FromStringFlow.prog [] = parsePsi4Lines [] ∧
    srcPsi4Lines FromStringFlow.prog [atomL "He" "0", .marker, .cgmp (np "0") "1".toList] = parsePsi4Lines [atomL "He" "0", .marker, .cgmp (np "0") "1".toList] ∧
    srcPsi4Lines FromStringFlow.prog [.pubchem] = .outOfScope := by
  decide

end QcelVerif.C07Flow
