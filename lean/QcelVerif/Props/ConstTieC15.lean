import QcelVerif.Model.Formula
import QcelVerif.Gen.SrcConsts
/-!
# C15 — the literals of `Model/Formula.lean` are those of `molecular_formula.py`

Inline in the model: the two supported orders and their spellings (`parseOrder`), the default order, the Hill rule's
`"C"` then `"H"` (`fromSymbols`), "a count is printed only above 1" (`render`).  `Gen/SrcConsts.lean` is rewritten on
every run from `qcelemental/molutil/molecular_formula.py` (by `ast`).  Core Lean only.

PROPERTY-THEOREMS: orders_match_source count_rule_matches_source hill_symbols_match_source
-/
namespace QcelVerif.Formula
open QcelVerif

/-- the model reads exactly the source's `supported_orders` (in its order), and the default of both functions -/
theorem orders_match_source :
    Src.molecular_formula_from_symbols.supported_orders.map parseOrder = [some .alphabetical, some .hill] ∧
    parseOrder Src.molecular_formula_from_symbols.order = some .alphabetical ∧
    Src.order_molecular_formula.order = Src.molecular_formula_from_symbols.order ∧
    (∀ s : String, (String.ofList (s.toList.map lowerC)) ∉ Src.molecular_formula_from_symbols.supported_orders →
      parseOrder s = none) := by
  refine ⟨by decide, by decide, by decide, ?_⟩
  intro s hs
  have hl : Src.molecular_formula_from_symbols.supported_orders = ["alphabetical", "hill"] := by decide
  rw [hl] at hs
  simp only [List.mem_cons, List.not_mem_nil, or_false, not_or] at hs
  simp [parseOrder, hs.1, hs.2]

/-- test (non-vacuity): "Hill " (trailing blank) is not a supported order -/
example : (String.ofList ("Hill ".toList.map lowerC)) ∉ Src.molecular_formula_from_symbols.supported_orders := by decide

/-- `if c > k: ret.append(str(c))` and the implicit count of a symbol without digits, with the source's `k = 1` -/
theorem count_rule_matches_source (k : String) (n : Nat) :
    render [(k, n)] = (if n > Src.molecular_formula_from_symbols.count_shown_above.toNat then k ++ toString n else k) ∧
    Src.order_molecular_formula.implicit_count = 1 := by
  have h : Src.molecular_formula_from_symbols.count_shown_above.toNat = 1 := by decide
  rw [h]
  refine ⟨?_, by decide⟩
  simp [render, String.join]

/-- Hill order puts the source's two symbols first, in the source's order -/
theorem hill_symbols_match_source (syms : List String) :
    fromSymbols syms .hill =
      render (tokens strLe (Src.molecular_formula_from_symbols.hill_first.getD 0 "") (Src.molecular_formula_from_symbols.hill_first.getD 1 "")
        .hill (syms.map title)) := by
  have h0 : Src.molecular_formula_from_symbols.hill_first.getD 0 "" = "C" := by decide
  have h1 : Src.molecular_formula_from_symbols.hill_first.getD 1 "" = "H" := by decide
  rw [h0, h1]
  rfl

end QcelVerif.Formula
