import QcelVerif.Props.C05
import QcelVerif.Lemmas.ChgMultAst
import QcelVerif.Model.ChgMultSrc
/-!
# C05 — the decision logic regenerated from `chgmult.py` is the hand model's

`Gen/ChgMultSrc.lean` is rewritten on every run from `qcelemental/molparse/chgmult.py` by `harness/c05_src.py`
(rule lambdas with their guards and loops, candidate-list statements of the four search dimensions, the product order
of `reconcile`).  `Model/ChgMultAst.lean` evaluates those terms; `vfcSrc` (`Model/ChgMultSrc.lean`) is
`validate_and_fill_chgmult` run on them.  Here:

* `rules_src_eq_model` — for every specification and every candidate of the right shape, the generated rule list
  evaluates (without raising) to the hand model's `rulesOk`; any fragment count (the per-fragment loops by the index
  lemma `optAllN_some`);
* `ranges_src_eq_model` — for every specification the generated candidate statements evaluate (without raising) to the
  hand model's `candC / candFc / candM / candFm`;
* `order_src_eq_model` — `reconcile` multiplies the de-duplicated lists in the order total charge, fragment charges,
  total multiplicity, fragment multiplicities, which is the order the lambdas take them in and the model's;
* `vfcSrc_eq_vfc` — hence the two procedures are the same function, and every C05 theorem holds of `vfcSrc`
  (`vfc_sound_src`, …).

The early multiplicity screen, the `zero_ghost_fragments` rewriting, `unique_everseen` and `itertools.product` stay
hand-modelled (shared by both procedures).

PROPERTY-THEOREMS: rules_src_eq_model ranges_src_eq_model order_src_eq_model vfcSrc_eq_vfc vfcSrcLazy_eq_vfc vfc_sound_src
  vfc_sound_plain_src vfc_error_is_validation_src vfc_deterministic_src vfc_accepts_valid_full_src vfc_idem_src
  vfc_default_src
-/
set_option linter.unusedSimpArgs false
namespace QcelVerif.ChgMult
open Ast QcelVerif.Gen.ChgMultSrc

/-- one entry per fragment in the specification and in the candidate (what `from_arrays` passes and what
`itertools.product` yields; outside it Python raises IndexError or ignores the surplus) -/
structure Shape (e : Inp) (o : Out) : Prop where
  fc : e.fc.length = e.frags.length
  fm : e.fm.length = e.frags.length
  ofc : o.fc.length = e.frags.length
  ofm : o.fm.length = e.frags.length

/-! ### each generated rule, evaluated -/

theorem rule_1_eval (e : Inp) (o : Out) : evalItem (envOf e (some o)) rule_1 = some true := by
  simp [rule_1, evalItem, evalGuarded, evalB, evalL, envOf, Env.noCand]
  rw [optAll_some o.fc _ (fun _ => true) (by simp), optAll_some o.fm _ (fun _ => true) (by simp)]
  have : ∀ l : List Int, l.all (fun _ => true) = true := by intro l; induction l <;> simp_all
  rw [this, this]

theorem rule_2_eval (e : Inp) (o : Out) :
    evalItem (envOf e (some o)) rule_2 = some (o.c == isum o.fc) := by
  simp [rule_2, evalItem, evalGuarded, evalB, evalL, evalI, envOf, Env.noCand, bind2, Cmp.eval]

theorem rule_3_eval (e : Inp) (o : Out) : evalItem (envOf e (some o)) rule_3 =
    some (decide (1 ≤ o.m) && o.fm.all (fun x => decide (1 ≤ x))) := by
  simp [rule_3, evalItem, evalGuarded, evalB, evalL, evalI, envOf, Env.noCand, bind2, Cmp.eval]
  rw [optAll_some o.fm _ (fun x => decide (1 ≤ x)) (by intro x _; simp [Env.push])]
  cases h : decide (1 ≤ o.m) <;> simp

theorem rule_4_eval (e : Inp) (o : Out) : evalItem (envOf e (some o)) rule_4 =
    some (sufficient (isum (e.frags.map isum)) o.c o.m) := by
  simp [rule_4, zel_1, evalItem, evalGuarded, evalB, evalL, evalI, envOf, Env.noCand, bind2, Cmp.eval,
    isum_flatten, sufficient]

theorem rule_5_eval (e : Inp) (o : Out) : evalItem (envOf e (some o)) rule_5 =
    some (parityOk (isum (e.frags.map isum)) o.c o.m) := by
  simp [rule_5, zel_1, evalItem, evalGuarded, evalB, evalL, evalI, envOf, Env.noCand, bind2, Cmp.eval,
    isum_flatten, parityOk, pyMod_two]

theorem rule_4i_eval (e : Inp) (o : Out) (S : Shape e o) : evalItem (envOf e (some o)) rule_4i =
    some (allN e.frags.length (fun k =>
      sufficient ((e.frags.map isum).getD k 0) (o.fc.getD k 0) (o.fm.getD k 0))) := by
  simp only [rule_4i, evalItem, evalI, Env.noCand, envOf, Int.toNat_natCast]
  apply optAllN_some
  intro k hk
  obtain ⟨c, h1, h1'⟩ := exists_getD o.fc k 0 (by rw [S.ofc]; exact hk)
  obtain ⟨m, h2, h2'⟩ := exists_getD o.fm k 0 (by rw [S.ofm]; exact hk)
  obtain ⟨z, h3, h3'⟩ := exists_getD (e.frags.map isum) k 0 (by simpa using hk)
  rw [h1', h2', h3']
  simp [evalGuarded, evalB, evalI, evalL, Env.noCand, bind2, Cmp.eval, h1, h2, h3, sufficient]

theorem rule_5i_eval (e : Inp) (o : Out) (S : Shape e o) : evalItem (envOf e (some o)) rule_5i =
    some (allN e.frags.length (fun k =>
      parityOk ((e.frags.map isum).getD k 0) (o.fc.getD k 0) (o.fm.getD k 0))) := by
  simp only [rule_5i, evalItem, evalI, Env.noCand, envOf, Int.toNat_natCast]
  apply optAllN_some
  intro k hk
  obtain ⟨c, h1, h1'⟩ := exists_getD o.fc k 0 (by rw [S.ofc]; exact hk)
  obtain ⟨m, h2, h2'⟩ := exists_getD o.fm k 0 (by rw [S.ofm]; exact hk)
  obtain ⟨z, h3, h3'⟩ := exists_getD (e.frags.map isum) k 0 (by simpa using hk)
  rw [h1', h2', h3']
  simp [evalGuarded, evalB, evalI, evalL, Env.noCand, bind2, Cmp.eval, h1, h2, h3, parityOk, pyMod_two]

theorem rule_6_eval (e : Inp) (o : Out) :
    evalItem (envOf e (some o)) rule_6 = some (keeps e.c o.c) := by
  cases h : e.c <;>
    simp [rule_6, evalItem, evalGuarded, evalB, evalL, evalI, evalO, envOf, Env.noCand, bind2, Cmp.eval, keeps, h]

theorem rule_7_eval (e : Inp) (o : Out) :
    evalItem (envOf e (some o)) rule_7 = some (keeps e.m o.m) := by
  cases h : e.m <;>
    simp [rule_7, evalItem, evalGuarded, evalB, evalL, evalI, evalO, envOf, Env.noCand, bind2, Cmp.eval, keeps, h]

theorem rule_6i_eval (e : Inp) (o : Out) (S : Shape e o) : evalItem (envOf e (some o)) rule_6i =
    some (allN e.frags.length (fun k => keeps (e.fc.getD k none) (o.fc.getD k 0))) := by
  simp only [rule_6i, evalItem, evalI, evalOL, Env.noCand, envOf, Option.map_some, Int.toNat_natCast, S.fc]
  apply optAllN_some
  intro k hk
  obtain ⟨c, h1, h1'⟩ := exists_getD o.fc k 0 (by rw [S.ofc]; exact hk)
  obtain ⟨s, h2, h2'⟩ := exists_getD e.fc k none (by rw [S.fc]; exact hk)
  rw [h1', h2']
  cases s <;>
    simp [evalGuarded, evalB, evalI, evalL, evalO, evalOL, Env.noCand, bind2, Cmp.eval, h1, h2, keeps]

theorem rule_7i_eval (e : Inp) (o : Out) (S : Shape e o) : evalItem (envOf e (some o)) rule_7i =
    some (allN e.frags.length (fun k => keeps (e.fm.getD k none) (o.fm.getD k 0))) := by
  simp only [rule_7i, evalItem, evalI, evalOL, Env.noCand, envOf, Option.map_some, Int.toNat_natCast, S.fm]
  apply optAllN_some
  intro k hk
  obtain ⟨c, h1, h1'⟩ := exists_getD o.fm k 0 (by rw [S.ofm]; exact hk)
  obtain ⟨s, h2, h2'⟩ := exists_getD e.fm k none (by rw [S.fm]; exact hk)
  rw [h1', h2']
  cases s <;>
    simp [evalGuarded, evalB, evalI, evalL, evalO, evalOL, Env.noCand, bind2, Cmp.eval, h1, h2, keeps]

theorem rule_8_eval (e : Inp) (o : Out) : evalItem (envOf e (some o)) rule_8 =
    some (!(highSpinRequired e) || o.m == highSpin o.fm) := by
  simp [rule_8, evalItem, evalGuarded, evalB, evalL, evalI, evalO, evalOL, envOf, Env.noCand, bind2, Cmp.eval]
  rw [optAny_some e.fm _ (fun x => x.isNone) (by intro x _; simp [Env.push])]
  rw [optMap_some o.fm _ (fun x => x - 1) (by intro x _; simp [Env.push])]
  simp [highSpinRequired, highSpin]
  cases h1 : e.m.isNone <;> cases h2 : e.fm.any (·.isNone) <;> simp_all

theorem rule_9i_eval (e : Inp) (o : Out) (S : Shape e o) : evalItem (envOf e (some o)) rule_9i =
    some (allN e.frags.length (fun k =>
      !(isGhost (e.frags.getD k [])) || (o.fc.getD k 0 == 0 && o.fm.getD k 0 == 1))) := by
  simp only [rule_9i, evalItem, evalI, Env.noCand, envOf, Int.toNat_natCast]
  apply optAllN_some
  intro k hk
  obtain ⟨c, h1, h1'⟩ := exists_getD o.fc k 0 (by rw [S.ofc]; exact hk)
  obtain ⟨m, h2, h2'⟩ := exists_getD o.fm k 0 (by rw [S.ofm]; exact hk)
  obtain ⟨f, h3, h3'⟩ := exists_getD e.frags k [] hk
  rw [h1', h2', h3']
  simp [evalGuarded, evalB, evalI, evalL, Env.noCand, bind2, Cmp.eval, h1, h2, h3]
  rw [optAll_some f _ (fun x => x == 0) (by intro x _; simp [Env.push])]
  have hgf : (f.all fun x => x == 0) = isGhost f := rfl
  rw [hgf]
  cases isGhost f <;> cases hc : (c == 0) <;> simp [hc]

/-! ### the model's list recursions, by index -/

theorem fragRules_eq_allN : ∀ (fs : List (List Int)) (cs ms : List Int),
    cs.length = fs.length → ms.length = fs.length →
    fragRules fs cs ms =
      (allN fs.length (fun k => sufficient ((fs.map isum).getD k 0) (cs.getD k 0) (ms.getD k 0)) &&
       allN fs.length (fun k => parityOk ((fs.map isum).getD k 0) (cs.getD k 0) (ms.getD k 0)) &&
       allN fs.length (fun k => !(isGhost (fs.getD k [])) || (cs.getD k 0 == 0 && ms.getD k 0 == 1)))
  | [], [], [], _, _ => by simp [fragRules, allN]
  | [], _ :: _, _, h, _ => by simp at h
  | [], [], _ :: _, _, h => by simp at h
  | _ :: _, [], _, h, _ => by simp at h
  | _ :: _, _ :: _, [], _, h => by simp at h
  | f :: fs, c :: cs, m :: ms, h1, h2 => by
      have ih := fragRules_eq_allN fs cs ms (by simpa using h1) (by simpa using h2)
      simp only [fragRules, List.length_cons, allN_succ, List.map_cons, List.getD_cons_zero,
        List.getD_cons_succ, ih]
      ac_rfl

theorem keepsAll_eq_allN : ∀ (s : List (Option Int)) (v : List Int), v.length = s.length →
    keepsAll s v = allN s.length (fun k => keeps (s.getD k none) (v.getD k 0))
  | [], [], _ => by simp [keepsAll, allN]
  | [], _ :: _, h => by simp at h
  | _ :: _, [], h => by simp at h
  | a :: s, x :: v, h => by
      have ih := keepsAll_eq_allN s v (by simpa using h)
      simp only [keepsAll, List.length_cons, allN_succ, List.getD_cons_zero, List.getD_cons_succ, ih]

/-! ### the rules half -/

/-- **The generated rule list is the model's rule predicate.**  For every specification `e` and every candidate `o`
with one entry per fragment, evaluating the rule lambdas translated from `chgmult.py` (with their guards, the
per-fragment ones for every fragment index) never raises and gives exactly `rulesOk e o`. -/
theorem rules_src_eq_model (e : Inp) (o : Out) (S : Shape e o) :
    evalRules (envOf e (some o)) genRules = some (rulesOk e o) := by
  have hfr := fragRules_eq_allN e.frags o.fc o.fm S.ofc S.ofm
  have hk1 := keepsAll_eq_allN e.fc o.fc (by rw [S.ofc, S.fc])
  have hk2 := keepsAll_eq_allN e.fm o.fm (by rw [S.ofm, S.fm])
  rw [S.fc] at hk1
  rw [S.fm] at hk2
  simp only [genRules, evalRules, rule_1_eval, rule_2_eval, rule_3_eval, rule_4_eval, rule_5_eval, rule_6_eval,
    rule_7_eval, rule_8_eval, rule_4i_eval e o S, rule_5i_eval e o S, rule_6i_eval e o S, rule_7i_eval e o S,
    rule_9i_eval e o S, rulesOk, hfr, hk1, hk2, S.ofc, S.ofm, beq_self_eq_true, Bool.true_and, Bool.and_true]
  congr 1
  ac_rfl

/-- test (non-vacuity of `Shape`, and the theorem's two sides on a concrete candidate) -/
example : Shape { frags := [[2],[2]], c := some 2, fc := [none, none], m := none, fm := [none, none], zgf := false }
    { c := 2, fc := [2, 0], m := 1, fm := [1, 1] } := ⟨rfl, rfl, rfl, rfl⟩

/-! ### the candidate statements, evaluated -/

/-- an environment outside the rule lambdas (no candidate), under any binders -/
abbrev envB (e : Inp) (b : List (Option Int)) : Env := { e := e, o := none, b := b }

theorem eval_applyDefault (env : Env) (L : OLExpr) (xs : List (Option Int)) (d : Int)
    (h : evalOL env L = some xs) :
    evalL env (.mapOpt L (.ite (.isNone (.bvar 0)) (.lit d) (.ofOpt (.bvar 0)))) = some (applyDefault xs d) := by
  simp only [evalL, h]
  rw [optMap_some xs _ (fun o => o.getD d)]
  · rfl
  · intro x _
    cases x <;> simp [evalI, evalB, evalO, Env.push]

theorem eval_highSpin (env : Env) (X : LExpr) (ys : List Int) (h : evalL env X = some ys) :
    evalI env (.add (.lit 1) (.sumOver X (.sub (.bvar 0) (.lit 1)))) = some (highSpin ys) := by
  simp only [evalI, h]
  rw [optMap_some ys _ (fun x => x - 1) (by intro x _; simp [evalI, Env.push, bind2])]
  simp [bind2, highSpin]

theorem eval_missing_frag_chg (e : Inp) (b) :
    evalI (envB e b) missing_frag_chg_2 = some (e.c.getD 0 - sumKnown e.fc) := by
  cases h : e.c <;>
    simp [missing_frag_chg_2, missing_frag_chg_1, evalI, evalB, evalO, evalOL, bind2, h]

theorem eval_frag_mult_lo_1 (e : Inp) (b) :
    evalI (envB e b) frag_mult_lo_1 = some (highSpin (applyDefault e.fm 1)) :=
  eval_highSpin _ _ _ (eval_applyDefault _ _ _ _ rfl)

theorem eval_frag_mult_hi_1 (e : Inp) (b) :
    evalI (envB e b) frag_mult_hi_1 = some (highSpin (applyDefault e.fm 2)) :=
  eval_highSpin _ _ _ (eval_applyDefault _ _ _ _ rfl)

theorem eval_removeNone (e : Inp) (b) (h : e.fm.any (·.isNone) = true) :
    evalOL (envB e b) (.removeNone .fragMults) = some (removeFirstNone e.fm) := by
  simp only [evalOL]
  rw [if_pos h]

theorem eval_frag_mult_lo_2 (e : Inp) (b) (h : e.fm.any (·.isNone) = true) :
    evalI (envB e b) frag_mult_lo_2 = some (highSpin (applyDefault (removeFirstNone e.fm) 1)) :=
  eval_highSpin _ _ _ (eval_applyDefault _ _ _ _ (eval_removeNone e b h))

theorem eval_frag_mult_hi_2 (e : Inp) (b) (h : e.fm.any (·.isNone) = true) :
    evalI (envB e b) frag_mult_hi_2 = some (highSpin (applyDefault (removeFirstNone e.fm) 2)) :=
  eval_highSpin _ _ _ (eval_applyDefault _ _ _ _ (eval_removeNone e b h))


/-- the condition of the S6 `if` -/
theorem eval_s6cond (e : Inp) (b) :
    evalB (envB e b) (.and (.not (.isNone .molMult)) (.anyO .fragMults (.isNone (.bvar 0)))) =
      some (e.m.isSome && e.fm.any (·.isNone)) := by
  simp only [evalB, evalO, evalOL]
  rw [optAny_some e.fm _ (fun x => x.isNone) (by intro x _; simp [Env.push])]
  cases e.m <;> simp

theorem eval_missing_mult_lo (e : Inp) (b) :
    evalI (envB e b) missing_mult_lo_3 = some (missingMult e).1 := by
  simp only [missing_mult_lo_3, evalI, eval_s6cond]
  cases hm : e.m with
  | none => simp [missingMult, hm, missing_mult_lo_2, evalI]
  | some m =>
    cases ha : e.fm.any (·.isNone) with
    | false => simp [missingMult, hm, ha, missing_mult_lo_2, evalI]
    | true =>
      simp [missingMult, hm, ha, missing_mult_lo_1, evalI, evalO, eval_frag_mult_hi_2 e b ha, bind2]

theorem eval_missing_mult_hi (e : Inp) (b) :
    evalI (envB e b) missing_mult_hi_3 = some (missingMult e).2 := by
  simp only [missing_mult_hi_3, evalI, eval_s6cond]
  cases hm : e.m with
  | none => simp [missingMult, hm, missing_mult_hi_2, evalI]
  | some m =>
    cases ha : e.fm.any (·.isNone) with
    | false => simp [missingMult, hm, ha, missing_mult_hi_2, evalI]
    | true =>
      simp [missingMult, hm, ha, missing_mult_hi_1, evalI, evalO, eval_frag_mult_lo_2 e b ha, bind2]

theorem gens_c_eval (e : Inp) : evalGens (envOf e none) gens_c = some (candC e) := by
  cases h : e.c <;>
    simp [gens_c, evalGens, evalGen, evalB, evalI, evalO, evalOL, envOf, candC, h]

theorem gens_m_eval (e : Inp) : evalGens (envOf e none) gens_m = some (candM e) := by
  have e1 := eval_frag_mult_lo_1 e []
  have e2 := eval_frag_mult_hi_1 e []
  cases h : e.m <;>
    simp [gens_m, evalGens, evalGen, evalB, evalI, evalO, evalOL, envOf, candM, h, e1, e2, bind2, pyRange_succ]

theorem gens_fc_at (e : Inp) (k : Nat) (hk : k < e.fc.length) (hl : e.fc.length = e.frags.length) :
    evalPerFragAt (envOf e none) k gens_fc =
      some (match e.fc[k] with | some x => [x] | none => [e.c.getD 0 - sumKnown e.fc, 0]) := by
  have hm := eval_missing_frag_chg e [some (k : Int)]
  have hx : e.fc[k]? = some e.fc[k] := List.getElem?_eq_getElem hk
  have hk' : k < e.frags.length := hl ▸ hk
  cases hv : e.fc[k] <;> rw [hv] at hx <;>
    simp [gens_fc, evalPerFragAt, evalGen, evalB, evalI, evalO, evalOL, envOf, hk, hk', hx, hv, hm, bind2]


theorem max_eq (x y : Int) : (if x < y then y else x) = max x y := by
  simp only [Int.max_def]; split <;> split <;> omega

theorem gens_fm_at (e : Inp) (k : Nat) (hk : k < e.fm.length) (hl : e.fm.length = e.frags.length) :
    evalPerFragAt (envOf e none) k gens_fm =
      some (match e.fm[k] with
        | some x => [x]
        | none => (irange (max (missingMult e).1 1) (missingMult e).2).reverse ++ [1, 2]) := by
  have hlo := eval_missing_mult_lo e [some (k : Int)]
  have hhi := eval_missing_mult_hi e [some (k : Int)]
  have hx : e.fm[k]? = some e.fm[k] := List.getElem?_eq_getElem hk
  have hk' : k < e.frags.length := hl ▸ hk
  cases hv : e.fm[k] <;> rw [hv] at hx <;>
    simp [gens_fm, evalPerFragAt, evalGen, evalB, evalI, evalO, evalOL, envOf, hk, hk', hx, hv, hlo, hhi, bind2,
      max_eq, pyRange_succ]

theorem gens_fc_eval (e : Inp) (hl : e.fc.length = e.frags.length) :
    evalPerFrag (envOf e none) gens_fc = some (candFc e) := by
  have := optTab_some e.fc (fun k => evalPerFragAt (envOf e none) k gens_fc)
    (fun o => match o with | some x => [x] | none => [e.c.getD 0 - sumKnown e.fc, 0])
    (fun k hk => gens_fc_at e k hk hl)
  rw [hl] at this
  exact this

theorem gens_fm_eval (e : Inp) (hl : e.fm.length = e.frags.length) :
    evalPerFrag (envOf e none) gens_fm = some (candFm e) := by
  have := optTab_some e.fm (fun k => evalPerFragAt (envOf e none) k gens_fm)
    (fun o => match o with
      | some x => [x]
      | none => (irange (max (missingMult e).1 1) (missingMult e).2).reverse ++ [1, 2])
    (fun k hk => gens_fm_at e k hk hl)
  rw [hl] at this
  exact this

/-! ### the ranges half -/

/-- the hand model's four candidate lists -/
def modelRanges (e : Inp) : Ranges := { c := candC e, fc := candFc e, m := candM e, fm := candFm e }

/-- **The generated candidate statements build the model's candidate lists.**  For every specification with one entry
per fragment, evaluating the append / range statements translated from `chgmult.py` (in source order, the
per-fragment ones for every fragment index) never raises and gives exactly `candC`, `candFc`, `candM`, `candFm`. -/
theorem ranges_src_eq_model (e : Inp) (hfc : e.fc.length = e.frags.length) (hfm : e.fm.length = e.frags.length) :
    evalDims (envOf e none) genDims = some (modelRanges e) := by
  simp [evalDims, genDims, gens_c_eval, gens_m_eval, gens_fc_eval e hfc, gens_fm_eval e hfm, modelRanges]

/-- test (non-vacuity): a well-formed three-fragment specification -/
example : (Inp.mk [[7],[7],[7]] (some 1) [none, some (-1), none] (some 3) [none, none, some 2] false).fc.length =
    (Inp.mk [[7],[7],[7]] (some 1) [none, some (-1), none] (some 3) [none, none, some 2] false).frags.length := rfl

theorem candidatesOf_modelRanges (e : Inp) : candidatesOf (modelRanges e) = candidates e := rfl

/-- **`reconcile` multiplies the lists in the model's order**: total charge, fragment charges, total multiplicity,
fragment multiplicities (leftmost slowest) — the order in which the rule lambdas take them — and every list goes through
`unique_everseen`. -/
theorem order_src_eq_model :
    genOrder = [Dim.c, Dim.fc, Dim.m, Dim.fm] ∧ genDeduped = [Dim.c, Dim.fc, Dim.m, Dim.fm] := by decide

/-! ### the two procedures are one function -/

/-- every candidate of the product has one entry per fragment -/
theorem candidates_shape (e : Inp) (hfc : e.fc.length = e.frags.length) (hfm : e.fm.length = e.frags.length)
    (o : Out) (ho : o ∈ candidates e) : Shape e o := by
  rw [mem_candidates] at ho
  obtain ⟨_, h2, _, h4⟩ := ho
  have l2 := length_of_mem_prod _ _ ((mem_prod _ _).2 h2)
  have l4 := length_of_mem_prod _ _ ((mem_prod _ _).2 h4)
  simp only [candFc, candFm, List.length_map] at l2 l4
  exact ⟨hfc, hfm, by rw [l2, hfc], by rw [l4, hfm]⟩

/-- any way of assessing candidates that agrees with the model's rule predicate on well-shaped candidates gives the
hand model -/
theorem vfcGen_eq_vfc (ev : Env → List RuleItem → Option Bool)
    (hev : ∀ e o, Shape e o → ev (envOf e (some o)) genRules = some (rulesOk e o)) (i : Inp) :
    vfcGen ev genRules genDims i = vfc i := by
  unfold vfcGen vfc
  cases hw : wellFormed i with
  | false => simp
  | true =>
    cases hp : precheckFails i with
    | true => simp
    | false =>
      have hl := effective_lengths i hw
      simp only [Bool.not_true, Bool.false_eq_true, ↓reduceIte]
      rw [ranges_src_eq_model _ hl.1 hl.2]
      simp only [candidatesOf_modelRanges]
      rw [searchFirst_eq_find _ (rulesOk (effective i)) _
        (fun o ho => hev _ o (candidates_shape _ hl.1 hl.2 o ho))]
      cases List.find? (rulesOk (effective i)) (candidates (effective i)) <;> rfl

/-- **The source-derived procedure is the hand model**, on every input (any fragment count, any electron counts,
either flag, malformed input included). -/
theorem vfcSrc_eq_vfc (i : Inp) : vfcSrc i = vfc i :=
  vfcGen_eq_vfc evalRules rules_src_eq_model i

/-- … and so is its lazily-assessing variant (the one the driver runs on every case line) -/
theorem vfcSrcLazy_eq_vfc (i : Inp) : vfcSrcLazy i = vfc i :=
  vfcGen_eq_vfc evalRulesLazy
    (fun e o S => evalRulesLazy_of_evalRules _ _ _ (rules_src_eq_model e o S)) i

/-! ### every C05 theorem, for the source-derived procedure -/

/-- **Soundness** of the procedure built from the source's own rules and ranges. -/
theorem vfc_sound_src (i : Inp) (o : Out) (h : vfcSrc i = .ok o) : Rules (effective i) o :=
  vfc_sound i o (vfcSrc_eq_vfc i ▸ h)

theorem vfc_sound_plain_src (i : Inp) (o : Out) (hz : i.zgf = false) (h : vfcSrc i = .ok o) : Rules i o :=
  vfc_sound_plain i o hz (vfcSrc_eq_vfc i ▸ h)

theorem vfc_error_is_validation_src (i : Inp) (hw : wellFormed i = true) :
    (∃ o, vfcSrc i = .ok o ∧ Rules (effective i) o) ∨ vfcSrc i = .error .validation := by
  rw [vfcSrc_eq_vfc]; exact vfc_error_is_validation i hw

theorem vfc_deterministic_src (i j : Inp) (h : i = j) : vfcSrc i = vfcSrc j := by rw [h]

theorem vfc_accepts_valid_full_src (frags : List (List Int)) (o : Out)
    (hR : Rules (fullSpec frags o false) o) : vfcSrc (fullSpec frags o false) = .ok o := by
  rw [vfcSrc_eq_vfc]; exact vfc_accepts_valid_full frags o hR

theorem vfc_idem_src (i : Inp) (o : Out) (h : vfcSrc i = .ok o) : vfcSrc (specifiedBy i o) = .ok o := by
  rw [vfcSrc_eq_vfc] at h ⊢; exact vfc_idem i o h

theorem vfc_default_src (frags : List (List Int)) (hz : ∀ f ∈ frags, 0 ≤ isum f) :
    vfcSrc (unspec frags) = .ok (defaultOut frags) := by
  rw [vfcSrc_eq_vfc]; exact vfc_default frags hz

/-! ### tests (labelled as tests): the source-derived procedure on docstring examples, by evaluation -/

/-- test: hypotheses of the `_src` implications are satisfiable (He/He, +2) -/
example : vfcSrc { frags := [[2],[2]], c := some 2, fc := [none, none], m := none, fm := [none, none], zgf := false }
    = .ok { c := 2, fc := [2, 0], m := 1, fm := [1, 1] } := by decide
/-- test -/
example : vfcSrc { frags := [[7],[7],[7]], c := some 1, fc := [none, some (-1), none], m := some 3, fm := [none, none, some 2], zgf := false }
    = .ok { c := 1, fc := [2, -1, 0], m := 3, fm := [2, 1, 2] } := by decide
/-- test -/
example : vfcSrc { frags := [[2],[2],[10]], c := some 2, fc := [none, some (-2), some 0], m := none, fm := [none, none, none], zgf := false }
    = .error .validation := by decide
/-- test: a well-formed input for `vfc_error_is_validation_src` -/
example : wellFormed { frags := [[0,0],[2]], c := none, fc := [some 2, none], m := none, fm := [none, none], zgf := false } = true := by decide
/-- test: `Rules (fullSpec …)` is satisfiable (for `vfc_accepts_valid_full_src`) -/
example : Rules (fullSpec [[2],[2]] { c := 2, fc := [2, 0], m := 1, fm := [1, 1] } false) { c := 2, fc := [2, 0], m := 1, fm := [1, 1] } :=
  (rulesOk_iff_Rules _ _ rfl rfl).1 (by decide)
/-- test: non-negative electron counts (for `vfc_default_src`) -/
example : ∀ f ∈ [[1], [2, 0]], 0 ≤ isum f := by decide

end QcelVerif.ChgMult
