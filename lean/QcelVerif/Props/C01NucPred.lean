import QcelVerif.Model.PTShipped
import QcelVerif.Model.F64Check
/-! C01 row predicate for the nuclide theorems (kernel evaluation over the generated tables); split out so that lake builds them in parallel. -/
namespace QcelVerif.PT
open QcelVerif QcelVerif.PStr
set_option maxRecDepth 100000

/-- row predicate of `nuclides_resolve` -/
def nuclideRowOk (r : Nat × Nat × Nat × Nat) : Bool :=
  let a := PyVal.str (unpack r.1)
  shipped.resolve a false == some r.1 &&
  shipped.toE a false == some r.2.1 && shipped.toZ a false == shipped.el2z r.2.1 &&
  (shipped.el2z r.2.1).isSome &&
  shipped.toA a == some r.2.2.1 && shipped.toMass a == some r.2.2.2 &&
  shipped.resolve a true == (if shipped.isElementSymbol r.1 then some r.1 else none)

/-- row predicate of `nuclides_resolve_anycase` -/
def nuclideRowAnycaseOk (r : Nat × Nat × Nat × Nat) : Bool :=
  shipped.resolve (.str (lower (unpack r.1))) false == some r.1 &&
  shipped.resolve (.str (upper (unpack r.1))) false == some r.1

/-- row predicate of `tree_is_dict` -/
def treeRowOk (r : Nat × Nat × Nat × Nat) : Bool := Gen.PT.tree.lookup r.1 == some r.2

/-- `float(mass)` as the model computes it (`Dec.toF64` of the decimal text) is the double nearest
to the tabulated decimal — checked against the independent statement `F64Check.nearestOk` -/
def massFloatOk (r : Nat × Nat × Nat × Nat) : Bool :=
  match Dec.parse (unpack r.2.2.2) with
  | some d => if d.coeff == 0 then Nat.beq d.toF64 0 else F64Check.nearestOk d d.toF64
  | none => false

end QcelVerif.PT
