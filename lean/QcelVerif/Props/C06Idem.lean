import QcelVerif.Props.C06Hist
import QcelVerif.Lemmas.PStr
/-!
# C06 — feeding the output back; concrete instances on a three-row toy table (tests / non-vacuity)
-/
namespace QcelVerif.Nucleus
open QcelVerif QcelVerif.PStr QcelVerif.PT

theorem truncInt_intCast (z : Int) : truncInt (z : Rat) = z := by
  unfold truncInt
  split
  · exact Rat.floor_intCast z
  · have : -(z : Rat) = ((-z : Int) : Rat) := by simp
    rw [this, Rat.floor_intCast]; omega

theorem lower_expectedUser (i : Input) : lower (expectedUser i) = expectedUser i := by
  unfold expectedUser
  cases i.label with
  | none => rfl
  | some l =>
    simp only
    split
    · split
      · exact lower_lower _
      · rfl
    · exact lower_lower _

/-- the last steps of `reconcileWith` on a fed-back output, given what the isotope clues produced -/
theorem feedback_finish (N : NTables) (rd : Rat → Rat) (rng : Nat → Option Range) (fb : Input) (o : Output)
    (x0 : ZOffer) (cl : List Clue) (late : List Late)
    (hz : zStage N rd rng fb = .ok ([x0, x0], none)) (hx0 : x0.z = o.Z)
    (hE : N.pt.toE (.int o.Z) false = some o.E)
    (hcl : cluesOf rd fb none = .ok cl)
    (hlate : cl.mapM (offerClue N rd o.E fb.mtol.val) = .ok late)
    (P1 : ∀ L ∈ late, APred.holds L.aPred o.A = true ∧ MPred.holds rd L.mPred o.mass = true)
    (P2 : ∃ L ∈ late, L.m = o.mass ∧ L.a = o.A ∧ L.mPred = .eq o.mass ∧ L.aPred = .eq o.A)
    (P3 : APred.holds x0.aPred o.A = true ∧ MPred.holds rd x0.mPred o.mass = true)
    (hreal : realClues fb none = [o.real]) (huser : userClues fb none = [o.user]) :
    ∃ o', reconcileWith N rd rng fb = .ok o' ∧ Output.pyEq o' o = true := by
  obtain ⟨L0, hL0, hL0m, hL0a, hL0mp, hL0ap⟩ := P2
  -- mass
  have hm : firstPassing (MPred.holds rd) ([x0, x0].map (·.zMass) ++ late.map (·.m))
      ([x0, x0].map (·.mPred) ++ late.map (·.mPred)) = some o.mass := by
    obtain ⟨y, hy⟩ := firstPassing_of_mem (holds := MPred.holds rd)
      (c := [x0, x0].map (·.zMass) ++ late.map (·.m)) (p := [x0, x0].map (·.mPred) ++ late.map (·.mPred))
      (x := o.mass)
      (List.mem_append.mpr (Or.inr (List.mem_map.mpr ⟨L0, hL0, hL0m⟩)))
      (by
        intro q hq
        rcases List.mem_append.mp hq with hq | hq
        · simp at hq; rw [hq]; exact P3.2
        · obtain ⟨L, hL, rfl⟩ := List.mem_map.mp hq; exact (P1 L hL).2)
    have := (firstPassing_some hy).2 L0.mPred (List.mem_append.mpr (Or.inr (List.mem_map.mpr ⟨L0, hL0, rfl⟩)))
    rw [hL0mp] at this
    simp [MPred.holds] at this
    rw [hy, this]
  have ha : firstPassing APred.holds ([x0, x0].map (·.zA) ++ late.map (·.a))
      ([x0, x0].map (·.aPred) ++ late.map (·.aPred)) = some o.A := by
    obtain ⟨y, hy⟩ := firstPassing_of_mem (holds := APred.holds)
      (c := [x0, x0].map (·.zA) ++ late.map (·.a)) (p := [x0, x0].map (·.aPred) ++ late.map (·.aPred))
      (x := o.A)
      (List.mem_append.mpr (Or.inr (List.mem_map.mpr ⟨L0, hL0, hL0a⟩)))
      (by
        intro q hq
        rcases List.mem_append.mp hq with hq | hq
        · simp at hq; rw [hq]; exact P3.1
        · obtain ⟨L, hL, rfl⟩ := List.mem_map.mp hq; exact (P1 L hL).1)
    have := (firstPassing_some hy).2 L0.aPred (List.mem_append.mpr (Or.inr (List.mem_map.mpr ⟨L0, hL0, rfl⟩)))
    rw [hL0ap] at this
    simp [APred.holds] at this
    rw [hy, this]
  have hr : ∃ y, firstPassing (fun (p c : PyNum) => c.val == p.val) (PyNum.bool true :: realClues fb none) (realClues fb none) = some y ∧ y.val = o.real.val := by
    rw [hreal]
    obtain ⟨y, hy⟩ := firstPassing_of_mem (holds := fun (p c : PyNum) => c.val == p.val)
      (c := [PyNum.bool true, o.real]) (p := [o.real]) (x := o.real) (by simp) (by simp)
    have := (firstPassing_some hy).2 o.real (by simp)
    exact ⟨y, hy, by simpa using this⟩
  have hu : firstPassing (fun (p c : Bytes) => c == p) ([] :: userClues fb none) (userClues fb none) = some o.user := by
    rw [huser]
    obtain ⟨y, hy⟩ := firstPassing_of_mem (holds := fun (p c : Bytes) => c == p)
      (c := [[], o.user]) (p := [o.user]) (x := o.user) (by simp) (by simp)
    have := (firstPassing_some hy).2 o.user (by simp)
    simp at this
    rw [hy, this]
  obtain ⟨y, hy, hyv⟩ := hr
  have hzf : firstPassing (fun (p c : Int) => c == p) ([x0, x0].map (·.z)) ([x0, x0].map (·.z)) = some o.Z := by
    simp [firstPassing, hx0]
  refine ⟨{ A := o.A, Z := o.Z, E := o.E, mass := o.mass, real := y, user := o.user }, ?_, ?_⟩
  · unfold reconcileWith
    simp only [hz, bind, Except.bind, hzf, ofOpt, hE, hcl, hlate, hm, ha, hy, hu, pure, Except.pure]
  · simp [Output.pyEq_iff, hyv]

theorem absR_neg (x : Rat) : absR (-x) = absR x := by
  unfold absR
  split <;> split <;> grind

theorem sub_eq_neg_sub (a b : Rat) : a - b = -(b - a) := by grind

/-- **Feeding the output back — PARTIAL.**  A successful output `o` whose element round-trips in the table
(`hZrt`; true of the shipped table: `shipped_coherent`), whose mass is a double (`hrd`), and whose mass
re-derives its own mass number (`hre`: the rounded mass names `E+str(A)` within `mtol`, or no nuclide
when `A = −1`) is reproduced (`==`) when fed back, for any rounding function that is odd (`hodd`).
-- FULL: the property claims this for every successful output.  `hre` is *proved* to follow from the first
-- call whenever a mass clue was supplied (`reconcile_idem_mass_clue` below).  Without a mass clue it
-- follows for the shipped table when mtol ≤ 1/4 (every tabulated mass is within 1/4 u of its mass
-- number, `shipped_coherent`) but that derivation needs monotonicity of `rd` and is not formalised; for
-- wide windows the full statement is false (`feedback_wide_window_counterexample`: A=2, Z=1, mtol=2
-- returns A=2 with the mass of H1, which re-derives A=1).  Before the repair c8bc76e of /repo it was
-- also false at |fl(mass − tabulated)| = mtol exactly (strict `<` in offer_mass_number). -/
theorem reconcile_idem_partial (N : NTables) (rd : Rat → Rat) (rng : Nat → Option Range) (hcoh : DefaultCoherent N)
    (hodd : ∀ x, rd (-x) = -(rd x))
    (i : Input) (o : Output) (h : reconcileWith N rd rng i = .ok o)
    (hZrt : N.pt.toZ (.str (unpack o.E)) true = some o.Z.toNat ∧ 0 ≤ o.Z)
    (hrd : rd o.mass = o.mass)
    (hre : massToA N rd o.E i.mtol.val o.mass = o.A) :
    ∃ o', reconcileWith N rd rng (feedback i o) = .ok o' ∧ Output.pyEq o' o = true := by
  have hwin : o.A ≠ -1 → ∃ tm, tableMass N rd (.str (unpack o.E ++ intStr o.A)) = .ok tm ∧
      absR (rd (o.mass - tm)) ≤ i.mtol.val := by
    intro hA
    rcases massToA_spec N rd o.E i.mtol.val o.mass with hneg | ⟨tm, htm, hle, _⟩
    · rw [hre] at hneg; exact absurd hneg hA
    · rw [hre] at htm
      refine ⟨tm, htm, ?_⟩
      rw [sub_eq_neg_sub, hodd, absR_neg]; exact hle
  obtain ⟨zo, lab, clues, late, hz, hzf, hE, hc, hlate, hm, ha, hr, hu⟩ := reconcileWith_ok h
  obtain ⟨x0, hx0, hoff0, hall⟩ := offers_eq hz hzf
  have hx0z := (offerZ_ok hoff0).1
  obtain ⟨_, hall_m⟩ := firstPassing_some hm
  obtain ⟨_, hall_a⟩ := firstPassing_some ha
  have P3 : APred.holds x0.aPred o.A = true ∧ MPred.holds rd x0.mPred o.mass = true :=
    ⟨hall_a x0.aPred (List.mem_append.mpr (Or.inl (List.mem_map.mpr ⟨x0, hx0, rfl⟩))),
     hall_m x0.mPred (List.mem_append.mpr (Or.inl (List.mem_map.mpr ⟨x0, hx0, rfl⟩)))⟩
  have huser : o.user = expectedUser i := (reconcile_sound N rd rng hcoh i o h).2.2.2.2.2.2.2.2
  -- first stage of the fed-back call
  have hoffE : offerE N rd rng i.nonphysical (unpack o.E) = .ok x0 := by
    unfold offerE
    simp only [hZrt.1, ofOpt, bind, Except.bind]
    rw [Int.toNat_of_nonneg hZrt.2]; exact hoff0
  have hzfb : zStage N rd rng (feedback i o) = .ok ([x0, x0], none) := by
    unfold zStage
    have e1 : (feedback i o).Z = some (.int o.Z) := rfl
    have e2 : (feedback i o).E = some (unpack o.E) := rfl
    have e3 : (feedback i o).nonphysical = i.nonphysical := rfl
    have e4 : labelOf (feedback i o) = .ok none := rfl
    have e5 : (PyNum.int o.Z).val = (o.Z : Rat) := rfl
    simp only [e1, e2, e3, e4, e5, optList, List.mapM_cons, List.mapM_nil, truncInt_intCast, hoff0, hoffE,
      bind, Except.bind, pure, Except.pure, Option.bind_none, List.append_nil, List.cons_append, List.nil_append]
  have hrealfb : realClues (feedback i o) none = [o.real] := rfl
  have huserfb : userClues (feedback i o) none = [o.user] := by
    show [lower o.user] = [o.user]
    rw [huser, lower_expectedUser]
  have hmt : (feedback i o).mtol.val = i.mtol.val := rfl
  -- the mass clue of the fed-back call
  let Lm : Late := { a := o.A, aPred := .eq o.A, m := o.mass, mPred := .eq o.mass }
  have hLm : offerClue N rd o.E i.mtol.val (.massValue o.mass) = .ok Lm := by
    unfold offerClue; simp only [hre, pure, Except.pure]; rfl
  have hLmP : APred.holds Lm.aPred o.A = true ∧ MPred.holds rd Lm.mPred o.mass = true := by
    simp [Lm, APred.holds, MPred.holds]
  by_cases hA : o.A = -1
  · have hcl : cluesOf rd (feedback i o) none = .ok [.massValue o.mass] := by
      unfold cluesOf feedback
      simp only [hA, if_true, optList, Option.bind_none, List.mapM_nil, bind, Except.bind, pure, Except.pure,
        List.map_nil, List.map_cons, List.nil_append, List.append_nil, PyNum.val, hrd]
    refine feedback_finish N rd rng (feedback i o) o x0 _ [Lm] hzfb hx0z hE hcl ?_ ?_ ?_ P3 hrealfb huserfb
    · simp only [hmt, List.mapM_cons, List.mapM_nil, hLm, bind, Except.bind, pure, Except.pure]
    · intro L hL; simp at hL; subst hL; exact hLmP
    · exact ⟨Lm, by simp, rfl, rfl, rfl, rfl⟩
  · obtain ⟨tm, htm, hlt⟩ := hwin hA
    let La : Late := { a := o.A, aPred := .eq o.A, m := tm, mPred := .near tm i.mtol.val }
    have hLa : offerClue N rd o.E i.mtol.val (.massNumber o.A) = .ok La := by
      unfold offerClue; simp only [htm, bind, Except.bind, pure, Except.pure]; rfl
    have hcl : cluesOf rd (feedback i o) none = .ok [.massNumber o.A, .massValue o.mass] := by
      unfold cluesOf feedback
      simp only [hA, if_false, optList, Option.bind_none, List.mapM_nil, bind, Except.bind, pure, Except.pure,
        List.map_nil, List.map_cons, List.nil_append, List.append_nil, List.cons_append, PyNum.val, hrd,
        truncInt_intCast]
    refine feedback_finish N rd rng (feedback i o) o x0 _ [La, Lm] hzfb hx0z hE hcl ?_ ?_ ?_ P3 hrealfb huserfb
    · simp only [hmt, List.mapM_cons, List.mapM_nil, hLa, hLm, bind, Except.bind, pure, Except.pure]
    · intro L hL
      simp at hL
      rcases hL with rfl | rfl
      · simp [La, APred.holds, MPred.holds, hlt]
      · exact hLmP
    · exact ⟨Lm, by simp, rfl, rfl, rfl, rfl⟩


/-- **Feeding the output back — full when a mass was supplied.**  If the call carried a mass clue
(argument or label), then for any idempotent odd rounding function and a table whose element round-trips,
the output fed back is reproduced (`==`) — no further hypothesis: the supplied mass pins both the mass
and, through `massToA`, the mass number of the output. -/
theorem reconcile_idem_mass_clue (N : NTables) (rd : Rat → Rat) (rng : Nat → Option Range) (hcoh : DefaultCoherent N)
    (hodd : ∀ x, rd (-x) = -(rd x)) (hidem : ∀ x, rd (rd x) = rd x)
    (i : Input) (o : Output) (h : reconcileWith N rd rng i = .ok o)
    (hZrt : N.pt.toZ (.str (unpack o.E)) true = some o.Z.toNat ∧ 0 ≤ o.Z)
    (m : Rat) (hM : ClaimsMass rd i m) :
    ∃ o', reconcileWith N rd rng (feedback i o) = .ok o' ∧ Output.pyEq o' o = true := by
  have hmass : m = o.mass := (reconcile_sound N rd rng hcoh i o h).2.2.2.1 m hM
  have hrd : rd o.mass = o.mass := by
    rw [← hmass]
    rcases hM with ⟨p, _, rfl⟩ | ⟨L, t, q, _, _, _, rfl⟩ <;> exact hidem _
  have hre : massToA N rd o.E i.mtol.val o.mass = o.A := by
    obtain ⟨zo, lab, clues, late, hz, _, _, hc, hlate, _, ha, _, _⟩ := reconcileWith_ok h
    obtain ⟨_, _, _, _, _, _, hlab, _, _, _⟩ := zStage_ok hz
    obtain ⟨_, hall_a⟩ := firstPassing_some ha
    obtain ⟨L, hL, hoL⟩ := mapM_ok_of_mem_left hlate _ (clue_of_ClaimsMass hlab hc hM)
    obtain ⟨_, hp, _, _⟩ := offerClue_massValue hoL
    have h1 := hall_a L.aPred (List.mem_append.mpr (Or.inr (List.mem_map.mpr ⟨L, hL, rfl⟩)))
    rw [hp] at h1
    simp [APred.holds] at h1
    rw [← hmass]; exact h1.symm
  exact reconcile_idem_partial N rd rng hcoh hodd i o h hZrt hrd hre

instance : DecidableEq (Except Err Output) := fun a b =>
  match a, b with
  | .ok x, .ok y => if h : x = y then isTrue (by rw [h]) else isFalse (by intro e; cases e; exact h rfl)
  | .error x, .error y => if h : x = y then isTrue (by rw [h]) else isFalse (by intro e; cases e; exact h rfl)
  | .ok _, .error _ => isFalse (by intro e; cases e)
  | .error _, .ok _ => isFalse (by intro e; cases e)

/-- toy table: element H (Z = 1) with nuclides H1 (mass "1.0"), H2 ("2.0"); bare H = H1 -/
def toyPT : PT.Tables :=
  { eliso := .node (.node .leaf (pack [72]) (pack [72], 1, pack [49, 46, 48]) .leaf)
                   (pack [72, 49]) (pack [72], 1, pack [49, 46, 48])
                   (.node .leaf (pack [72, 50]) (pack [72], 2, pack [50, 46, 48]) .leaf)
    elements := [(1, pack [72], pack [72, 121, 100, 114, 111, 103, 101, 110])] }

def toyN : NTables :=
  { pt := toyPT
    nuclides := [(pack [72, 49], pack [72], 1, pack [49, 46, 48]), (pack [72, 50], pack [72], 2, pack [50, 46, 48]),
                 (pack [72], pack [72], 1, pack [49, 46, 48])] }

/-- `Z=1, mass = 2 + 1/4, mtol = 1/4` -/
def inEdge : Input :=
  { A := none, Z := some (.int 1), E := none, mass := some (.float (9/4)), real := none, label := none,
    speclabel := true, nonphysical := false, mtol := .float (1/4) }
def outEdge : Output := { A := 2, Z := 1, E := pack [72], mass := 9/4, real := .bool true, user := [] }

/-- **The window edge is reproduced** (test; this instance was a counter-example before /repo's repair
c8bc76e, when `offer_mass_number` demanded a distance `< mtol`): a mass exactly `mtol` above the tabulated
mass of H2 reconciles to `A = 2`, and the output fed back gives the same output. -/
theorem feedback_edge_reproduced :
    reconcile toyN id inEdge = .ok outEdge ∧ reconcile toyN id (feedback inEdge outEdge) = .ok outEdge := by
  constructor <;> decide +kernel

/-- `A=2, Z=1, mtol=2` -/
def inWide : Input :=
  { A := some (.int 2), Z := some (.int 1), E := none, mass := none, real := none, label := none,
    speclabel := true, nonphysical := false, mtol := .int 2 }
def outWide : Output := { A := 2, Z := 1, E := pack [72], mass := 1, real := .bool true, user := [] }

/-- **Why `hre` cannot be dropped: a window wide enough to reach the neighbouring nuclide.**  With
`mtol = 2` the call `A=2, Z=1` returns `A = 2` together with the mass of H1 (the default mass is the first
candidate and lies inside the window of H2); fed back, that mass re-derives `A = 1` and the call is a
ValidationError.  The real code does the same (`reconcile_nucleus(A=2, Z=1, mtol=2)`); such windows are
outside the property's quantifier (ASSUMPTIONS: mtol ≤ 0.25 u). -/
theorem feedback_wide_window_counterexample :
    reconcile toyN id inWide = .ok outWide ∧
    reconcile toyN id (feedback inWide outWide) = .error (.validation .massNumber) := by
  constructor <;> decide +kernel

/-! ### tests / non-vacuity: the hypotheses of the theorems are met by concrete successful calls -/

/-- label `@2h_Tag@2.0` (ghost, A = 2, tag) together with A=2.0, Z=True, E="h", real=0 -/
def inFull : Input :=
  { A := some (.float 2), Z := some (.bool true), E := some [104], mass := some (.int 2), real := some (.int 0)
    label := some [64, 50, 104, 95, 84, 97, 103, 64, 50, 46, 48], speclabel := true, nonphysical := false
    mtol := .float (1/1000) }

example : reconcile toyN id inFull =
    .ok { A := 2, Z := 1, E := pack [72], mass := 2, real := .int 0, user := [95, 116, 97, 103] } := by
  decide +kernel
-- the same under rd64
example : reconcile toyN rd64 inFull =
    .ok { A := 2, Z := 1, E := pack [72], mass := 2, real := .int 0, user := [95, 116, 97, 103] } := by
  decide +kernel
-- the hypotheses of `reconcile_idem_partial` are met by that output, and the fed-back call reproduces it
example : toyN.pt.toZ (.str (unpack (pack [72]))) true = some (1 : Int).toNat ∧
    massToA toyN id (pack [72]) (1/1000) 2 = 2 := by
  decide +kernel
example : reconcile toyN id (feedback inFull { A := 2, Z := 1, E := pack [72], mass := 2, real := .int 0, user := [95, 116, 97, 103] }) =
    .ok { A := 2, Z := 1, E := pack [72], mass := 2, real := .int 0, user := [95, 116, 97, 103] } := by
  decide +kernel
-- default isotope
example : reconcile toyN id { inFull with A := none, mass := none, label := none } =
    .ok { A := 1, Z := 1, E := pack [72], mass := 1, real := .int 0, user := [] } := by decide +kernel
-- conflicts are errors (instances of the conflict theorems)
example : reconcile toyN id { inFull with A := some (.int 1) } = .error (.validation .mass) := by decide +kernel
example : reconcile toyN id { inFull with real := some (.bool true) } = .error (.validation .realGhost) := by decide +kernel
example : reconcile toyN id { inFull with A := some (.int 3) } = .error .notAnElement := by decide +kernel
example : reconcile toyN id { inFull with label := some [64, 50, 104, 41] } = .error .unparseable := by decide +kernel
-- the parsed label
example : parseLabel [64, 50, 104, 95, 84, 97, 103, 64, 50, 46, 48] =
    some { A := some 2, Z := none, E := some [104], mass := some [50, 46, 48], real := false, user := some [95, 84, 97, 103] } := by
  decide
example : parseLabel [71, 104, 40, 49, 95, 120, 41] =   -- Gh(1_x)
    some { A := none, Z := some 1, E := none, mass := none, real := false, user := some [95, 120] } := by decide
-- the toy table meets `DefaultCoherent`-style facts used as hypotheses
example : toyN.pt.toMass (.str (unpack (pack [72]) ++ intStr 1)) = toyN.pt.toMass (.int 1) := by decide +kernel
-- Python-equal inputs
example : Input.pyEq inFull { inFull with A := some (.int 2), Z := some (.float 1), real := some (.bool false) } = true := by
  decide +kernel
-- a memo table with capacity 1: the second key evicts the first, results stay those of `f`
example : (Lru.run Input.pyEq (reconcile toyN id) { cap := 1, entries := [] }
      [.call inFull, .call inEdge, .call inFull, .clear, .call inEdge]).map (·.2) =
    [reconcile toyN id inFull, reconcile toyN id inEdge, reconcile toyN id inFull, reconcile toyN id inEdge] := by
  decide +kernel

end QcelVerif.Nucleus
