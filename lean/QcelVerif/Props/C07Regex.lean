import QcelVerif.Lemmas.C07ReNumber
import QcelVerif.Lemmas.C07ReSep
import QcelVerif.Lemmas.C07ReXyz1
import QcelVerif.Lemmas.C07ReXyz1strict
import QcelVerif.Lemmas.C07ReComment
import QcelVerif.Lemmas.C07ReChgmult
import QcelVerif.Lemmas.C07ReAtomLine
import QcelVerif.Lemmas.C07ReSimpleNuc
import QcelVerif.Lemmas.C07ReNucleus
import QcelVerif.Lemmas.C07ReUnits
import QcelVerif.Lemmas.C07ReKeywords
import QcelVerif.Lemmas.C07ReEfp
import QcelVerif.Lemmas.C07ReFrags
/-!
# C07 — the text grammar of M1 is the one in the source

`Gen/FromStringRegex.lean` is regenerated on every run from `qcelemental/molparse/regex.py`, from the compiled patterns of
`qcelemental/molparse/from_string.py` (pattern and flags of every compile site) and from `util/misc.py:filter_comments`
(CPython's own parse tree, re-encoded constructor by constructor: `harness/c07_regex.py` + `harness/regex_gen.py`).

For the patterns below the hand-written recogniser of M1 (`Model/MolText.lean`: what every other C07 theorem reasons about) is proved
EQUAL to the generic backtracking regex engine (`Model/RegexEngine.lean`, proved equal to its list-of-successes semantics in
`Lemmas/RegexEngine.lean`) run on the generated AST through the entry point the code uses — for EVERY string (`List Char`; no
length bound, no ASCII restriction on the Lean side), same acceptance and same captured texts:

  NUMBER (on a token)   `number_eq_regex`, `number_extent`, `number_group_whole`
  SEP (as a splitter)   `sep_eq_regex`
  the comment pattern   `comment_eq_regex`          `re.sub(r"(^|[^\\])#.*", r"\1", s)` = `filterComments`
  xyz1strict            `xyz1strict_eq_regex`
  xyz1                  `xyz1_eq_regex`             incl. the unit groups as `process_bohrang` reads them
  xyz2 (prefix match)   `xyz2_eq_regex`             groups `chg`, `mult` of the FIRST way to match (greedy)
  cgmp                  `cgmp_eq_regex`             groups `chg`, `mult`
  anchored substitution `anchored_sub_is_match`     `re.sub(\A…, …, line)` finds a match only at the start: it is `re.match`

Each of them rests on a `…_shape` theorem proved by `rfl` (generated AST = the stage decomposition the proof walks through): an edit
of the pattern in the source that changes CPython's parse tree breaks it.  `generated_cannot_match_empty` is why the scan of
`re.sub` / `re.split` (`Model/RegexOps.lean`) never meets the empty-match rules of CPython that it does not model.

  atom_cartesian        `atom_eq_regex`, `nucleus_extent`, `atom_parts`     NUCLEUS SEP CARTXYZ, groups nucleus / x / y / z
  atom_cartesian_strict `atomStrict_eq_regex`
  com, orient, symmetry `com_eq_regex`, `orient_eq_regex`, `sym_eq_regex`
  bohrang               `units_eq_regex_partial` (lines without newline; `units_newline_counterexample` shows the hypothesis is needed)

  efpxyzabc             `efp_eq_regex`
  fragment_marker       `frags_eq_regex`            `re.split` over the whole multi-line text vs M1's marker LINES

NOT proved: efppoints (the three-point EFP form: M1 declares such texts out of scope; engine vs CPython three-way only); and that the
line filters of M1 compose these recognisers the way `_filter_xyz` / `_filter_universals` / `_filter_libefp` / `_filter_mints` do
(which recogniser is tried on which line, first-occurrence rules, remnants) - that composition stays a differential tie.
What stays differential for the proved ones: that engine + translator reproduce CPython's `re` (X lines), ASCII only.
-/
namespace QcelVerif.C07Regex
open QcelVerif.MolText QcelVerif.Regex QcelVerif.Gen

/-- NUMBER, the extent: from any cursor, the ways NUMBER's body matches are exactly the splits of the remaining text into a token
accepted by M1's `isNumber` and a rest; nothing but the cursor moves -/
theorem number_extent : NumExt := fun s st x hs => numberBody_mem s st x hs

/-- `re.compile(NUMBER, re.VERBOSE).fullmatch(t)` succeeds exactly when M1's `isNumber t` -/
theorem number_eq_regex (t : Str) : isNumberRe t = isNumberHand t := MolText.number_eq_regex t

/-- and then group 1 is the whole token (what `_float` is given) -/
theorem number_group_whole (t : Str) (st : St) (h : FromStringRegex.number.fullMatch (toBytes t) = some st) :
    st.group 1 = some (toBytes t) := number_group t st h

/-- `re.split(SEP, s)` = M1's `splitSep` -/
theorem sep_eq_regex (s : Str) : splitSepRe s = splitSepHand s := MolText.sep_eq_regex s

/-- `filter_comments`: `re.sub(<comment pattern>, r"\1", s)` = M1's `filterComments` -/
theorem comment_eq_regex (s : Str) : filterCommentsRe s = filterCommentsHand s := MolText.comment_eq_regex s

/-- strict xyz count line `\A(?P<nat>\d+)\Z` = M1's `isNatLine` (group `nat` = the line) -/
theorem xyz1strict_eq_regex (s : Str) : xyz1strictRe s = xyz1strictHand s := MolText.xyz1strict_eq_regex s

/-- xyz+ count line: acceptance and the unit read by `process_bohrang` = M1's `matchXyz1` -/
theorem xyz1_eq_regex (s : Str) : xyz1Re s = xyz1Hand s := MolText.xyz1_eq_regex s

/-- xyz+ title line, `\A` CHGMULT as a prefix match: acceptance and the texts of `chg` / `mult` = M1's `matchXyz2` -/
theorem xyz2_eq_regex (s : Str) : xyz2Re s = xyz2Hand s := xyz2_eq_regex_of number_extent s

/-- psi4 CHGMULT line `\A CHGMULT \Z`: acceptance and the texts of `chg` / `mult` = M1's `classify … = .cgmp` -/
theorem cgmp_eq_regex (s : Str) : cgmpRe s = cgmpHand s := cgmp_eq_regex_of number_extent s

/-- strict xyz atom line `\A(?P<nucleus>SIMPLENUCLEUS) SEP CARTXYZ \Z` (IGNORECASE): acceptance and the texts of nucleus / x / y / z =
M1's view (four separator fields: a NUCLEUS that is 1-3 letters or 1-3 digits, then three NUMBERs) -/
theorem atomStrict_eq_regex (s : Str) : atomStrictRe s = atomStrictHand s :=
  atomStrict_eq_regex_of simpleNuc_ext (fun _ h => isSimpleNucleus_no_sep h) (fun _ h => isSimpleNucleus_ne_nil h)
    (fun _ h => simple_isNucleus h) s

/-- NUCLEUS inside a line: from the start of a line the nucleus group of atom_cartesian takes exactly the prefixes M1's `isNucleus`
accepts (backtracking included: every accepted prefix, not only the longest) and captures the prefix -/
theorem nucleus_extent : NucExtFor nucLine (fun t => isNucleus t) := nucLine_ext

/-- atom line `\A(?P<nucleus>NUCLEUS) SEP CARTXYZ \Z` (IGNORECASE): acceptance and the texts of nucleus / x / y / z = M1's line
classifier answering `.atom` with the four separator fields -/
theorem atom_eq_regex (s : Str) : atomRe s = atomHand s :=
  atom_eq_regex_of nucLine_ext (fun _ h => isNucleus_no_sep h) (fun _ h => isNucleus_ne_nil h) s

/-- what M1 stores for an atom line: the label is the text of group `nucleus`, the coordinates are `parseNumber` of the texts of
groups x / y / z -/
theorem atom_parts (s n : Str) (px py pz : NumParts) (h : classify s = .atom n px py pz) :
    ∃ x y z, atomRe s = some (n, x, y, z) ∧ parseNumber x = some px ∧ parseNumber y = some py ∧ parseNumber z = some pz := by
  obtain ⟨_, x, y, z, hs, _, hx, hy, hz⟩ := (classify_atom_iff s n px py pz).mp h
  refine ⟨x, y, z, ?_, hx, hy, hz⟩
  rw [atom_eq_regex]
  simp [atomHand, h, hs]

/-- `no_com` / `nocom` line (com, IGNORECASE) = M1's classifier answering `.com`, every string -/
theorem com_eq_regex (s : Str) : comRe s = comHand s := MolText.com_eq_regex s

/-- `no_reorient` / `noreorient` line (orient, IGNORECASE) = M1's classifier answering `.orient`, every string -/
theorem orient_eq_regex (s : Str) : orientRe s = orientHand s := MolText.orient_eq_regex s

/-- `symmetry` line: acceptance and the lower-cased text of group `pg` = M1's classifier answering `.sym pg`, every string -/
theorem sym_eq_regex (s : Str) : symRe s = symHand s := MolText.sym_eq_regex s

/-- one-line EFP fragment `\A efp SEP (\w+) (SEP NUMBER){6} ENDL \Z` (IGNORECASE): acceptance and the texts of efpfile, x, y, z, a, b, c =
M1's classifier answering `.efp` (eight separator fields, an optional trailing separator run), every string -/
theorem efp_eq_regex (s : Str) : efpRe s = efpHand s := MolText.efp_eq_regex s

/-- fragment markers: `re.split(r'^\s*--\s*$' [MULTILINE], text)`, each piece then cut into its non-empty stripped lines (what the
callers do next) = M1's line view: the non-empty stripped lines of the text split at the lines that are exactly `--`; every text -/
theorem frags_eq_regex (s : Str) : fragsRe s = fragsHand s := MolText.frags_eq_regex s

/-- `units` line (bohrang, IGNORECASE) as `process_bohrang` reads it = M1's classifier answering `.units`, for every line without a
newline (M1 lets the two dots of `a.u.` be ANY character, the regex excludes a newline there; lines never hold one) -/
theorem units_eq_regex_partial (s : Str) (hnl : ∀ c ∈ s, c ≠ '\n') : unitsRe s = unitsHand s := units_eq_regex s hnl
-- FULL: `unitsRe s = unitsHand s` for every s is FALSE (`units_newline_counterexample`); the hypothesis is met by every line of a text
-- (lines come from `str.split("\n")`), which is where `_filter_universals` applies the pattern.

/-- the hypothesis of `units_eq_regex_partial` cannot be dropped -/
theorem units_newline_counterexample : unitsRe "units a\nu\n".toList ≠ unitsHand "units a\nu\n".toList := by decide

-- non-vacuity of `units_eq_regex_partial` and `atom_parts`
example : (∀ c ∈ "units a.u.".toList, c ≠ '\n') ∧ unitsHand "units a.u.".toList = some (some true) := by decide
example : atomHand "Gh(He_a) 0 0 1.5".toList = some ("Gh(He_a)".toList, "0".toList, "0".toList, "1.5".toList) := by decide

/-- the line structure of every atom line, generic in the nucleus pattern: if the nucleus group takes exactly the prefixes a hand
predicate `P` accepts (`NucExtFor`), the whole line pattern = "four separator fields, `P`, NUMBER, NUMBER, NUMBER" -/
theorem atom_line_structure (N : Re) (P : Str → Bool) (gx gy gz : Nat) (hN : NucExtFor N P)
    (hPsep : ∀ t, P t = true → ∀ c ∈ t, isSep c = false) (hPne : ∀ t, P t = true → t ≠ []) (hg : GroupsApart gx gy gz) (s : Str) :
    ((atomLineRe N gx gy gz).matchPrefix (toBytes s)).bind (fun st => atomGroups st 1 gx gy gz) = lineHand P s :=
  atomLine_eq N P gx gy gz hN hPsep hPne hg s

-- non-vacuity of `atom_line_structure`: its hypotheses hold for SIMPLENUCLEUS (used in `atomStrict_eq_regex`)
example : NucExtFor simpleNuc isSimpleNucleus ∧ GroupsApart 5 7 9 := ⟨simpleNuc_ext, groupsApart_strict⟩

/-- what M1 stores for a CHGMULT line is `parseNumber` of the very text of group `chg` -/
theorem cgmp_parts (s : Str) (cn : NumParts) (m : Str) (h : classify s = .cgmp cn m) :
    ∃ c, cgmpRe s = some (c, m) ∧ parseNumber c = some cn := by
  obtain ⟨_, c, h1, h2, _, _⟩ := (classify_cgmp_iff s cn m).mp h
  refine ⟨c, ?_, h2⟩
  rw [cgmp_eq_regex]
  simp [cgmpHand, h, h1]

/-- `re.sub` / `re.subn` / `re.search` with a pattern that starts with `\A` (every line pattern of from_string.py) can only match at
the start of the line: the substitution is decided by `re.match` -/
theorem anchored_sub_is_match (r : Re) (s : List Nat) :
    (Re.seq .bos r).search s = ((Re.seq .bos r).matchPrefix s).map fun st => (0, st) := search_bos r s

/-- the line patterns the theorems above treat through `matchPrefix` do start with `\A` -/
theorem anchored_patterns :
    (∃ r, FromStringRegex.xyz1strict = .seq .bos r) ∧ (∃ r, FromStringRegex.xyz1 = .seq .bos r) ∧
    (∃ r, FromStringRegex.xyz2 = .seq .bos r) ∧ (∃ r, FromStringRegex.cgmp = .seq .bos r) ∧
    (∃ r, FromStringRegex.atomCartesian = .seq .bos r) ∧ (∃ r, FromStringRegex.atomCartesianStrict = .seq .bos r) ∧
    (∃ r, FromStringRegex.com = .seq .bos r) ∧ (∃ r, FromStringRegex.orient = .seq .bos r) ∧
    (∃ r, FromStringRegex.bohrang = .seq .bos r) ∧ (∃ r, FromStringRegex.symmetry = .seq .bos r) ∧
    (∃ r, FromStringRegex.efpxyzabc = .seq .bos r) :=
  ⟨⟨_, rfl⟩, ⟨_, rfl⟩, ⟨_, rfl⟩, ⟨_, rfl⟩, ⟨_, rfl⟩, ⟨_, rfl⟩, ⟨_, rfl⟩, ⟨_, rfl⟩, ⟨_, rfl⟩, ⟨_, rfl⟩, ⟨_, rfl⟩⟩

/-- none of the patterns that are scanned (`re.sub`, `re.split`) can match the empty string, and no generated AST repeats a nullable
body (the engine's fuel never truncates: `Regex.rep_fuel_irrelevant`) -/
theorem generated_cannot_match_empty :
    FromStringRegex.comment.nullable = false ∧ FromStringRegex.sep.nullable = false ∧ FromStringRegex.fragmentMarker.nullable = false ∧
    (FromStringRegex.byName.all fun x => x.2.1.wf) = true := by
  decide

/-- the shape obligations (each `rfl` in `Lemmas/C07ReShapes.lean`), gathered: generated AST = stage decomposition -/
theorem shapes :
    FromStringRegex.number = .group 1 numberBody ∧ FromStringRegex.sep = sepPlus ∧
    FromStringRegex.comment = .seq commentHead commentTail ∧
    FromStringRegex.xyz1strict = .seq .bos (.seq (.group 1 digits1) .eos) ∧
    FromStringRegex.xyz1 = .seq .bos (.seq (.group 1 digits1) (.seq wsComma0 (.seq xyz1Unit .eos))) ∧
    FromStringRegex.xyz2 = .seq .bos chgmultRe ∧ FromStringRegex.chgmult = chgmultRe ∧
    FromStringRegex.cgmp = .seq .bos (.seq (.group 1 (.group 2 numberBody)) (.seq sepPlus (.seq (.group 3 digits1) .eos))) ∧
    FromStringRegex.atomCartesian = atomLineRe nucLine 16 18 20 ∧ FromStringRegex.atomCartesianStrict = atomLineRe simpleNuc 5 7 9 :=
  ⟨number_shape, sep_shape, comment_shape, xyz1strict_shape, xyz1_shape, xyz2_shape, chgmult_shape, cgmp_shape,
    atomCartesian_shape, atomCartesianStrict_shape⟩

/-- more shape obligations [rfl]: the NUCLEUS group of atom_cartesian cut into ghost / label / mass / close stages, bohrang -/
theorem shapes_nucleus_units :
    nucLine = .seq nucGhost (.seq nucLabel (.seq nucMass nucClose)) ∧
    FromStringRegex.bohrang =
      .seq .bos (.seq (ciL 117) (.seq (ciL 110) (.seq (ciL 105) (.seq (ciL 116) (.seq optS (.seq wsEq1 (.seq unitsG .eos))))))) :=
  ⟨nucLine_cut, bohrang_shape⟩

/-- shape obligations [rfl] of the keyword, efp and marker patterns -/
theorem shapes_keywords_efp_marker :
    FromStringRegex.fragmentMarker = FragMarker.fmRe ∧
    FromStringRegex.efpxyzabc =
      .seq .bos (Kw.litK [101, 102, 112] (.seq sepPlus (.seq (.group 1 (.group 2 Kw.word1)) (Efp.sepNums Efp.numGroups Efp.endlEos)))) :=
  ⟨fragmentMarker_shape, efpxyzabc_shape⟩

/-! tests (concrete evaluations of the engine on the generated ASTs, `decide`) and non-vacuity -/

-- test: '-1.5D+02 , 12abc' as xyz+ title line: chg = '-1.5D+02', mult = '12' (the rest is free text)
example : xyz2Re "-1.5D+02 , 12abc".toList = some ("-1.5D+02".toList, "12".toList) := by decide
-- test: the same line is not a whole-line CHGMULT line
example : cgmpRe "-1.5D+02 , 12abc".toList = none := by decide
example : cgmpRe "0 1".toList = some ("0".toList, "1".toList) := by decide
-- test: atom lines
example : atomRe "gH(he_x@4.0026) 1 2 3".toList = some ("gH(he_x@4.0026)".toList, "1".toList, "2".toList, "3".toList) := by decide
example : atomRe "Gh(He 0 0 0".toList = none := by decide
example : atomStrictRe "he 0. .5e1,1D0".toList = some ("he".toList, "0.".toList, ".5e1".toList, "1D0".toList) := by decide
example : atomStrictRe "He_a 0 0 0".toList = none := by decide
-- test: efp line with a trailing separator run; marker split over blank lines
example : efpRe "EFP c6h6 0.0,0.0,0.0 1.0,2.0,3.0 ,".toList
    = some ("c6h6".toList, ["0.0".toList, "0.0".toList, "0.0".toList, "1.0".toList, "2.0".toList, "3.0".toList]) := by decide
example : fragsRe "a\n --\t\n\n--\nb".toList = some [["a".toList], [], ["b".toList]] := by decide
-- test: count lines
example : xyz1strictRe "12".toList = some "12".toList := by decide
example : xyz1strictRe "12 x".toList = none := by decide
example : xyz1Re "3 ,\tAU".toList = some (some true) := by decide
example : xyz1Re "3 ang".toList = some (some false) := by decide
example : xyz1Re "3 angstrom".toList = none := by decide
-- non-vacuity of `cgmp_parts`
example : cgmpHand "0 1".toList = some ("0".toList, "1".toList) := by decide
-- non-vacuity of `number_group_whole`
example : (FromStringRegex.number.fullMatch (toBytes "1.5e3".toList)).isSome = true := by decide

end QcelVerif.C07Regex
