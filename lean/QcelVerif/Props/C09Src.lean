import QcelVerif.Gen.MolSchemaSrc
import QcelVerif.Props.C09
/-!
# C09 — the hand model of the schema translators computes what the SOURCE-DERIVED terms compute

`Gen/MolSchemaSrc.lean` is rewritten on every run by `harness/c09_src.py:gen_molschema_src`, which reads by python `ast`
(never by importing) `to_schema` (qcelemental/molparse/to_schema.py: geometry copy, unit chain, `nat`, `name`, the
`dtype in [1, 2]` branch with every `molecule[...] = ...` statement, the dtype 1 / 2 layouts, the refusal of other dtypes,
`unnp`), `from_schema` (qcelemental/molparse/from_schema.py: the name / version chain, the fragment pattern, every keyword of
the `contiguize_from_fragment_pattern` and `from_arrays` calls, the stamp) and `_filter_defaults`
(qcelemental/models/molecule.py), and emits them as terms of the small syntax of `Model/MolSchemaAst.lean`.

This file proves, for ALL records and ALL schema dictionaries, that the generic evaluator AT THE GENERATED TERMS equals
`Model/MolSchema.lean`'s `toSchema` / `fromSchemaArgs` (for every `np_out` and `copy` flag, and that the caller's record keeps
its geometry) and restates the round-trip and Bohr-geometry headlines of `Props/C09.lean` over the source-derived functions.
`_filter_defaults` is tied in `Props/C09SrcFilter.lean` (evaluator `Model/MolDictAst.lean`).
A change of any of these regions in the source changes a generated term (or is refused by the translator) and breaks an
obligation here, whether or not a generated molecule exposes it.

PROPERTY-THEOREMS: src_translated src_toSchema_eq src_toSchema_total src_toSchema_bad_dtype src_toSchema_keys
  src_fromSchema_eq src_fromArrays_constants src_roundtrip_args_partial src_exported_geometry_bohr
-/
namespace QcelVerif.MolSchema
open Src

/-- the translator recognised every region (otherwise it emits inert terms and `false` here) -/

theorem src_translated : Gen.translationOk = true := rfl

section dec
variable {K : Type}
@[simp] theorem decStr_map (o : Option String) : decStr (K := K) (o.map .str) = o := by cases o <;> rfl
@[simp] theorem decInt_map (o : Option Int) : decInt (K := K) (o.map .int) = o := by cases o <;> rfl
@[simp] theorem decNum_map (o : Option K) : decNum (o.map .num) = o := by cases o <;> rfl
@[simp] theorem decBool_map (o : Option Bool) : decBool (K := K) (o.map .bool) = o := by cases o <;> rfl
@[simp] theorem decStrs_map (o : Option (List String)) : decStrs (K := K) (o.map .strs) = o := by cases o <;> rfl
@[simp] theorem decNums_map (o : Option (List K)) : decNums (o.map .nums) = o := by cases o <;> rfl
@[simp] theorem decInts_map (o : Option (List Int)) : decInts (K := K) (o.map .ints) = o := by cases o <;> rfl
@[simp] theorem decBools_map (o : Option (List Bool)) : decBools (K := K) (o.map .bools) = o := by cases o <;> rfl
@[simp] theorem decFrags_map (o : Option (List (List Int))) : decFrags (K := K) (o.map .frags) = o := by cases o <;> rfl
@[simp] theorem decConn_map (o : Option (List (Nat × Nat × K))) : decConn (o.map .conn) = o := by cases o <;> rfl

/-- `if k in molrec: molecule[k'] = molrec[k]` writes exactly the record's entry -/
theorem guarded_lookup (rec : Dict K) (g : String) :
    (if (rec g).isSome then (lookup rec g).map some else .ok none) = (.ok (rec g) : Except SErr _) := by
  unfold lookup
  cases rec g <;> rfl
end dec

variable {K : Type} [Mul K]

theorem src_geom (E : Env K) (hu : E.units = "Bohr") (prov : PV K) (r : Molrec K) (al : Bool) :
    evalChain E (recDict prov r) al (.nums r.geom) (.nums r.geom) Gen.toSchemaFn.unitChain Gen.toSchemaFn.unitElse
      = .ok (.nums (exportGeom (E.conv "Angstrom" "Bohr") r), .nums r.geom) := by
  rcases r with ⟨units, iutau, geom⟩
  cases units <;> cases iutau <;>
    simp [Gen.toSchemaFn, evalChain, evalAtom, evalAct, evalFactor, scaleBy, lookup, recDict, unitsName, hu, exportGeom]


def verInt : Version → Int
  | .v1 => 1
  | .v2 => 2

theorem src_stmts (prov : PV K) (r : Molrec K) (g nm : PV K) (nat : Nat) :
    (evalStmts (recDict prov r) g nm nat Gen.toSchemaFn.stmts Dict.empty).map decodeMol
      = .ok { symbols := some r.elem, geometry := decNums (some g), masses := some r.mass, atomicNumbers := some r.elez,
              massNumbers := some r.elea, atomLabels := some r.elbl, real := some r.real, name := decStr (some nm),
              comment := r.comment, charge := some r.charge, mult := some r.mult,
              fragments := some ((npSplit (List.range nat) r.seps).map (·.map Int.ofNat)),
              fragCharges := some r.fragCharges, fragMults := some r.fragMults, fixCom := some r.fixCom,
              fixOri := some r.fixOri, fixSym := r.fixSym, connectivity := r.connectivity, validated := some true } := by
  simp only [Gen.toSchemaFn, evalStmts, evalRhs, guarded_lookup]
  simp [lookup, recDict, Except.map, decodeMol, Dict.set, Dict.setOpt, Dict.empty, decStrs, decNums, decInts, decBools, decNum, decInt,
    decFrags, decBool]

theorem src_toSchema_eq (E : Env K) (hu : E.units = "Bohr") (prov : PV K) (r : Molrec K) (v : Version) :
    (evalToSchema Gen.toSchemaFn E (verInt v) (recDict prov r)).map (fun p => (decode p.1, p.2))
      = .ok (toSchema (E.conv "Angstrom" "Bohr") E.fg r v, PV.nums r.geom) := by
  have hg : lookup (recDict prov r) Gen.toSchemaFn.geomKey = .ok (.nums r.geom) := by
    simp [Gen.toSchemaFn, lookup, recDict]
  have hfg : recDict prov r Gen.toSchemaFn.fgKey = some (.strs r.elem) := by simp [Gen.toSchemaFn, recDict]
  have hnm : ((recDict prov r Gen.toSchemaFn.nameKey).getD (.str (E.fg r.elem))) = .str (nameOf E.fg r) := by
    simp only [Gen.toSchemaFn, recDict, nameOf]
    cases r.name <;> simp
  have hdt : verInt v ∈ Gen.toSchemaFn.dtypes := by cases v <;> simp [Gen.toSchemaFn, verInt]
  have hug : (E.units != Gen.toSchemaFn.unitsGuard) = false := by simp [Gen.toSchemaFn, hu]
  have hnd : Gen.toSchemaFn.natDiv = 3 := rfl
  have hst := src_stmts prov r (.nums (exportGeom (E.conv "Angstrom" "Bohr") r)) (.str (nameOf E.fg r))
    ((exportGeom (E.conv "Angstrom" "Bohr") r).length / 3)
  unfold evalToSchema
  rw [hg]
  simp only [src_geom E hu, hfg, hnm, hdt, hug, hnd, if_true]
  cases hm : evalStmts (recDict prov r) (.nums (exportGeom (E.conv "Angstrom" "Bohr") r)) (.str (nameOf E.fg r))
      ((exportGeom (E.conv "Angstrom" "Bohr") r).length / 3) Gen.toSchemaFn.stmts Dict.empty with
  | error e => rw [hm] at hst; simp [Except.map] at hst
  | ok mol =>
    rw [hm] at hst
    simp only [Except.map, Except.ok.injEq] at hst
    have hd : ∀ (m : Dict K) a b, decodeMol ((m.set "schema_name" a).set "schema_version" b) = decodeMol m := by
      intros; simp [decodeMol, Dict.set]
    have he : decodeMol (Dict.empty : Dict K) = emptyDict := by
      simp [decodeMol, Dict.empty, emptyDict, decStr, decInt, decNums, decStrs, decInts, decBools, decNum, decFrags, decBool, decConn]
    simp only [decNums, decStr] at hst
    cases v
    · simp [verInt, Gen.toSchemaFn, assocI, evalShape, applyEntries, KeyE.eval, decode, Out.empty, hd, he, hst,
        toSchema, molDict, Except.map, exportGeom_length]
      simp [Dict.set, Dict.empty, decStr, decInt]
    · simp [verInt, Gen.toSchemaFn, assocI, evalShape, applyEntries, KeyE.eval, decode, hd, hst, toSchema, molDict,
        Except.map, exportGeom_length]
      simp [Dict.set, decStr, decInt]

/-! ## from_schema -/

section fs
variable {K : Type}

/-- the part of `fromSchemaArgs` after the version sniffing -/
def bodyOf (ms : MolDict K) : Except Err (FAArgs K) :=
  match ms.symbols, ms.geometry with
  | some symbols, some geometry =>
    let pat := match ms.fragments with
      | some p => p
      | none => [arange symbols.length]
    contiguize pat geometry ms.massNumbers ms.atomicNumbers (some symbols) ms.masses ms.real ms.atomLabels >>= fun dc =>
    match dc.elem with
    | some elem =>
      pure { geom := dc.geom, elea := dc.elea, elez := dc.elez, elem := elem, mass := dc.mass,
             real := dc.real, elbl := dc.elbl, name := ms.name, fixCom := ms.fixCom, fixOri := ms.fixOri,
             fixSym := ms.fixSym, seps := dc.seps, fragCharges := ms.fragCharges, fragMults := ms.fragMults,
             charge := ms.charge, mult := ms.mult, comment := ms.comment, connectivity := ms.connectivity }
    | none => .error .key
  | _, _ => .error .key

theorem fromSchemaArgs_eq (d : SchemaDict K) : fromSchemaArgs d = sniff d >>= bodyOf := rfl

def liftE {α : Type} : Except Err α → Except SErr α
  | .ok a => .ok a
  | .error e => .error (.err e)

theorem contiguize_elem (pat : List (List Int)) (geom : List K) (elea elez : Option (List Int))
    (elem : Option (List String)) (mass : Option (List K)) (real : Option (List Bool)) (elbl : Option (List String))
    (c : Contig K) (h : contiguize pat geom elea elez elem mass real elbl = .ok c) : c.elem = elem := by
  unfold contiguize at h
  simp only [] at h
  repeat' split at h
  all_goals first | (cases h; done) | (cases h; rfl)

@[simp] theorem optOf_ints (o : Option (List Int)) : optOf (K := K) decInts ((o.map .ints).getD .none) = .ok o := by cases o <;> rfl
@[simp] theorem optOf_nums (o : Option (List K)) : optOf decNums ((o.map .nums).getD .none) = .ok o := by cases o <;> rfl
@[simp] theorem optOf_strs (o : Option (List String)) : optOf (K := K) decStrs ((o.map .strs).getD .none) = .ok o := by cases o <;> rfl
@[simp] theorem optOf_bools (o : Option (List Bool)) : optOf (K := K) decBools ((o.map .bools).getD .none) = .ok o := by cases o <;> rfl
@[simp] theorem optOf_str (o : Option String) : optOf (K := K) decStr ((o.map .str).getD .none) = .ok o := by cases o <;> rfl
@[simp] theorem optOf_int (o : Option Int) : optOf (K := K) decInt ((o.map .int).getD .none) = .ok o := by cases o <;> rfl
@[simp] theorem optOf_num (o : Option K) : optOf decNum ((o.map .num).getD .none) = .ok o := by cases o <;> rfl
@[simp] theorem optOf_bool (o : Option Bool) : optOf (K := K) decBool ((o.map .bool).getD .none) = .ok o := by cases o <;> rfl
@[simp] theorem optOf_conn (o : Option (List (Nat × Nat × K))) : optOf decConn ((o.map .conn).getD .none) = .ok o := by cases o <;> rfl
@[simp] theorem optOf_enc_ints (o : Option (List Int)) : optOf (K := K) decInts (encOpt .ints o) = .ok o := by cases o <;> rfl
@[simp] theorem optOf_enc_nums (o : Option (List K)) : optOf decNums (encOpt .nums o) = .ok o := by cases o <;> rfl
@[simp] theorem optOf_enc_strs (o : Option (List String)) : optOf (K := K) decStrs (encOpt .strs o) = .ok o := by cases o <;> rfl
@[simp] theorem optOf_enc_bools (o : Option (List Bool)) : optOf (K := K) decBools (encOpt .bools o) = .ok o := by cases o <;> rfl

@[simp] theorem optOf_strs_lit (l : List String) : optOf (K := K) decStrs (PV.strs l) = .ok (some l) := rfl

@[simp] theorem encOpt_some {α : Type} (f : α → PV K) (x : α) : encOpt f (some x) = f x := rfl

theorem src_body (n : Option String) (v : Option Int) (ms : MolDict K) :
    evalBody Gen.fromSchemaFn (encTop n v ms) = liftE (bodyOf ms) := by
  rcases ms with ⟨symbols, geometry, masses, atomicNumbers, massNumbers, atomLabels, real, name, comment, charge, mult,
    fragments, fragCharges, fragMults, fixCom, fixOri, fixSym, connectivity, validated⟩
  cases symbols <;> cases geometry <;> cases fragments <;>
    simp [evalBody, Gen.fromSchemaFn, encTop, encMol, evalArgs, evalArg, lookup, Dict.get, kwArg, bodyOf, liftE, reqOf, decNums,
      decStrs, bind, Except.bind]
  · rename_i syms geo
    cases hc : contiguize _ geo massNumbers atomicNumbers (some syms) masses real atomLabels with
    | error e => simp
    | ok c =>
      have hel := contiguize_elem _ _ _ _ _ _ _ _ c hc
      simp [evalFArgs, evalFArg, contigDict, lookup, faOfKw, kwArg, reqOf, hel, encTop, encMol, Dict.get, bind, Except.bind,
        decNums, decStrs, decNats, encOpt_some, pure, Except.pure]
  · rename_i syms geo frs
    cases hc : contiguize _ geo massNumbers atomicNumbers (some syms) masses real atomLabels with
    | error e => simp
    | ok c =>
      have hel := contiguize_elem _ _ _ _ _ _ _ _ c hc
      simp [evalFArgs, evalFArg, contigDict, lookup, faOfKw, kwArg, reqOf, hel, encTop, encMol, Dict.get, bind, Except.bind,
        decNums, decStrs, decNats, encOpt_some, pure, Except.pure]

theorem src_fromSchema_eq (d : SchemaDict K) :
    evalFromSchema Gen.fromSchemaFn (encode d) = liftE (fromSchemaArgs d) := by
  rw [fromSchemaArgs_eq]
  unfold evalFromSchema
  have hs : Gen.fromSchemaFn.sniff = [{ prefixes := ["qc_schema", "qcschema"], version := 1, nest := some "molecule" },
      { prefixes := ["qcschema_molecule"], version := 2, nest := none }] := rfl
  have he : Gen.fromSchemaFn.elseRaises = true := rfl
  rw [hs, he]
  simp only [evalSniff, sniff, encode, encTop, List.any_cons, List.any_nil, Bool.or_false, if_true, decStr_map, decInt_map,
    String.reduceEq, if_false]
  by_cases h1 : ((startsWith (d.schemaName.getD "") "qc_schema" || startsWith (d.schemaName.getD "") "qcschema") &&
      d.schemaVersion == some 1) = true
  · simp only [h1, if_true]
    cases hm : d.molecule with
    | none => simp [liftE, bind, Except.bind]
    | some m => simp [src_body, bind, Except.bind]
  · simp only [h1, if_false]
    by_cases h2 : (startsWith (d.schemaName.getD "") "qcschema_molecule" && d.schemaVersion == some 2) = true
    · simp only [h2, if_true]
      simp [src_body, bind, Except.bind]
    · simp [h2, liftE, bind, Except.bind]

end fs

/-! ## headlines over the source-derived functions -/

/-- non-vacuity of the hypothesis `E.units = "Bohr"` (the only export unit dtype 1 / 2 allow), with both flags set -/
example : ∃ E : Env Int, E.units = "Bohr" ∧ E.npOut = true ∧ E.copy = false :=
  ⟨{ conv := fun _ _ => 2, fg := fun _ => "H", units := "Bohr", npOut := true, copy := false }, rfl, rfl, rfl⟩

/-- the source-derived `to_schema` never fails on a record, whatever `np_out` / `copy`, and leaves the caller's geometry alone -/
theorem src_toSchema_total (E : Env K) (hu : E.units = "Bohr") (prov : PV K) (r : Molrec K) (v : Version) :
    ∃ o, evalToSchema Gen.toSchemaFn E (verInt v) (recDict prov r) = .ok (o, PV.nums r.geom) ∧
      decode o = toSchema (E.conv "Angstrom" "Bohr") E.fg r v := by
  have h := src_toSchema_eq E hu prov r v
  cases hm : evalToSchema Gen.toSchemaFn E (verInt v) (recDict prov r) with
  | error e => rw [hm] at h; simp [Except.map] at h
  | ok p =>
    rw [hm] at h
    simp only [Except.map, Except.ok.injEq, Prod.mk.injEq] at h
    exact ⟨p.1, by rw [← h.2], h.1⟩

/-- a `dtype` outside the list written in the source is refused with ValidationError -/
theorem src_toSchema_bad_dtype (E : Env K) (hu : E.units = "Bohr") (prov : PV K) (r : Molrec K) (dt : Int)
    (h1 : dt ≠ 1) (h2 : dt ≠ 2) :
    evalToSchema Gen.toSchemaFn E dt (recDict prov r) = .error (.err .validation) := by
  have hg : lookup (recDict prov r) Gen.toSchemaFn.geomKey = .ok (.nums r.geom) := by
    simp [Gen.toSchemaFn, lookup, recDict]
  have hfg : recDict prov r Gen.toSchemaFn.fgKey = some (.strs r.elem) := by simp [Gen.toSchemaFn, recDict]
  have hdt : ¬ dt ∈ Gen.toSchemaFn.dtypes := by simp [Gen.toSchemaFn, h1, h2]
  have her : Gen.toSchemaFn.elseRaises = true := rfl
  unfold evalToSchema
  rw [hg]
  simp only [src_geom E hu, hfg, hdt, her, if_true, if_false]

example : (3 : Int) ≠ 1 ∧ (3 : Int) ≠ 2 := by decide

/-- PARTIAL: `from_schema ∘ to_schema` over the source-derived functions hands `from_arrays` the record's own data.
-- FULL: the dictionary `to_schema` returned is passed to `from_schema` through `decode` / `encode` (the 19 molecule keys,
-- `schema_name`, `schema_version`, the `molecule` nesting); that the evaluator of `from_schema` reads no other entry of it
-- (e.g. `provenance`) is visible in the term `Gen.fromSchemaFn` but not stated as a theorem. -/
theorem src_roundtrip_args_partial (E : Env K) (hu : E.units = "Bohr") (prov : PV K) (r : Molrec K) (hinv : Inv r)
    (v : Version) :
    ∃ o, evalToSchema Gen.toSchemaFn E (verInt v) (recDict prov r) = .ok (o, PV.nums r.geom) ∧
      evalFromSchema Gen.fromSchemaFn (encode (decode o)) = .ok (argsOf (E.conv "Angstrom" "Bohr") E.fg r) := by
  obtain ⟨o, ho, hd⟩ := src_toSchema_total E hu prov r v
  refine ⟨o, ho, ?_⟩
  rw [src_fromSchema_eq, hd, roundtrip_args _ _ r hinv v]
  rfl

/-- non-vacuity of `Inv` (test) -/
example : Inv (⟨.angstrom, none, [0, 0, 0], [1], [1], ["H"], [1], [true], [""], [], [0], [2], 0, 2, false, false, none, none,
    none, none⟩ : Molrec Int) :=
  ⟨rfl, by decide, rfl, rfl, rfl, rfl, rfl, rfl, by simp⟩

/-- the geometry written by the source-derived `to_schema` is `exportGeom`: the stored one times the Bohr factor
(`exported_geometry_bohr` of Props/C09.lean spells the factor out: 1, the record's own `input_units_to_au`, or the default) -/
theorem src_exported_geometry_bohr (E : Env K) (hu : E.units = "Bohr") (prov : PV K) (r : Molrec K) (v : Version) :
    ∃ o, evalToSchema Gen.toSchemaFn E (verInt v) (recDict prov r) = .ok (o, PV.nums r.geom) ∧
      (match v with | .v1 => ((decode o).molecule.getD emptyDict).geometry | .v2 => (decode o).top.geometry)
        = some (exportGeom (E.conv "Angstrom" "Bohr") r) := by
  obtain ⟨o, ho, hd⟩ := src_toSchema_total E hu prov r v
  refine ⟨o, ho, ?_⟩
  rw [hd]
  cases v <;> simp [toSchema, molDict]

/-- the literals of the `from_arrays` call and the two switches of `from_schema` the hand model takes for granted -/
theorem src_fromArrays_constants :
    faLit Gen.fromSchemaFn "units" = some (.strLit "Bohr") ∧ faLit Gen.fromSchemaFn "domain" = some (.strLit "qm") ∧
    faLit Gen.fromSchemaFn "input_units_to_au" = some .noneLit ∧ faLit Gen.fromSchemaFn "speclabel" = some (.boolLit false) ∧
    Gen.fromSchemaFn.throwReorder = true ∧ Gen.fromSchemaFn.stampOverwrites = true ∧
    Gen.toSchemaFn.unnpUnlessNpOut = true := by decide

def MStmt.key : MStmt → String
  | .set k _ => k
  | .setIfIn _ k _ => k

/-- the keys the source writes into the `molecule` dictionary are the 19 of the hand model's `MolDict` and `provenance`,
each exactly once (so `decode` loses no entry but `provenance`) -/
theorem src_toSchema_keys :
    Gen.toSchemaFn.stmts.map MStmt.key = ["validated", "symbols", "geometry", "masses", "atomic_numbers", "mass_numbers",
      "atom_labels", "name", "comment", "molecular_charge", "molecular_multiplicity", "real", "fragments", "fragment_charges",
      "fragment_multiplicities", "fix_com", "fix_orientation", "fix_symmetry", "provenance", "connectivity"] := by decide

end QcelVerif.MolSchema
