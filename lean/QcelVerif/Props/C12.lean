import QcelVerif.Lemmas.Kabsch
import QcelVerif.Model.B787
import Mathlib.Tactic.NormNum
import Mathlib.Tactic.FieldSimp
/-!
# C12 — alignment finds the optimal proper rigid motion and recovers known ones

Property theorems (manifest; fully qualified names are listed in `harness/c12.py`):

Kabsch part (`Model/Kabsch.lean`; ring identities over every commutative ring, inequalities over every
linearly ordered field, so over ℝ and over ℚ where the driver executes):
* `quatRot_orthogonal`, `quatRot_det`            — U(q) is a proper rotation for unit q
* `rotOf_proper`                                  — U(p)/|p|² is a proper rotation for every p with |p|² ≠ 0
* `trace_identity`, `sumDot_eq_quad`              — Σ rᵢ·(cᵢU(q)) = qᵀF(cov)q
* `rmsd2_formula`                                 — ‖R − C·U(q)‖² = Σ|r|² + |q|⁴Σ|c|² − 2qᵀFq
* `posDef4_sound`, `isTopEig_sound`               — the certificate checker is sound
* `kabsch_optimal_partial`                        — certified q ⇒ optimal against every rotation U(p)/|p|²
* `recovery`                                      — if some rotation superimposes exactly, the certified answer has residual ≤ the stated ε-bound
* `centroid_shift_optimal`, `recipe_pointwise`    — centroid-matching shift is optimal; the recipe's residual is the centred residual
* `shortcut_exact`                                — the exact-equality head-off (align.py:483-486) returns an exact answer

Driver-loop part (`Model/B787.lean`, core Lean):
* `mirror_only_on_request`, `loop_best_le`, `best_is_min`, `sel_attains_best`
  (not proved: every permutative candidate pairs atoms of equal class — checked by the oracle on every case)
-/
namespace QcelVerif.Kabsch
variable {K : Type}

section Ring
variable [CommRing K]

/-- `U(q)·U(q)ᵀ = |q|⁴·I` and `U(q)ᵀ·U(q) = |q|⁴·I` for every `q` -/
theorem quatRot_mul_transpose (q : Q4 K) :
    (quatRot q).mul (quatRot q).transpose = M3.smul (q.nrm2 ^ 2) M3.one
    ∧ (quatRot q).transpose.mul (quatRot q) = M3.smul (q.nrm2 ^ 2) M3.one := by
  constructor <;> ext <;> simp only [quatRot, M3.mul, M3.transpose, M3.smul, M3.one, Q4.nrm2] <;> ring

/-- **orthogonality**: for a unit quaternion the matrix built at align.py:544-552 is orthogonal -/
theorem quatRot_orthogonal (q : Q4 K) (h : q.nrm2 = 1) :
    (quatRot q).mul (quatRot q).transpose = M3.one ∧ (quatRot q).transpose.mul (quatRot q) = M3.one := by
  have := quatRot_mul_transpose q
  rw [h] at this
  have e : M3.smul ((1 : K) ^ 2) M3.one = M3.one := by
    ext <;> simp only [M3.smul, M3.one] <;> ring
  rw [e] at this
  exact this

theorem quatRot_det_general (q : Q4 K) : (quatRot q).det = q.nrm2 ^ 3 := by
  simp only [quatRot, M3.det, Q4.nrm2]; ring

/-- **properness**: determinant +1 for a unit quaternion (never a reflection) -/
theorem quatRot_det (q : Q4 K) (h : q.nrm2 = 1) : (quatRot q).det = 1 := by
  rw [quatRot_det_general, h]; ring

-- non-vacuity: a non-trivial unit quaternion with rational entries
example : (⟨1/2, 1/2, 1/2, 1/2⟩ : Q4 ℚ).nrm2 = 1 := by simp only [Q4.nrm2]; norm_num

/-- `Σ_i r_i·(c_i U)` -/
def sumDot (U : M3 K) : List (V3 K × V3 K) → K
  | [] => 0
  | (r, c) :: t => r.dot (rowMul c U) + sumDot U t

/-- **trace identity** (entrywise, any matrix `cov`, any `q`): `qᵀ F(cov) q = tr(U(q)·cov)` -/
theorem trace_identity (cv : M3 K) (q : Q4 K) : quad (Fmat cv) q = M3.trMul (quatRot q) cv := by
  simp only [quad, Fmat, M3.trMul, quatRot]; ring

theorem sumDot_eq_trMul (U : M3 K) (pairs : List (V3 K × V3 K)) : sumDot U pairs = M3.trMul U (cov pairs) := by
  induction pairs with
  | nil => simp only [sumDot, cov, M3.trMul, M3.zero]; ring
  | cons h t ih =>
    obtain ⟨r, c⟩ := h
    simp only [sumDot, cov, trMul_add, ih]
    simp only [V3.dot, rowMul, M3.trMul, outer]; ring

/-- the overlap the rotation is chosen to maximise equals the quadratic form of the 4×4 matrix the code
    diagonalises: `Σ_i r_i·(c_i·U(q)) = qᵀ F(cov(R,C)) q` — any number of atoms, any `q` -/
theorem sumDot_eq_quad (q : Q4 K) (pairs : List (V3 K × V3 K)) :
    sumDot (quatRot q) pairs = quad (Fmat (cov pairs)) q := by
  rw [sumDot_eq_trMul, trace_identity]

/-- **RMSD formula**: `‖R − C·U(q)‖² = Σ|r|² + |q|⁴·Σ|c|² − 2·qᵀFq` (any number of atoms, any `q`);
    with `|q|² = 1` this is `N·rmsd² = Σ|r|² + Σ|c|² − 2qᵀFq`. -/
theorem rmsd2_formula (q : Q4 K) (pairs : List (V3 K × V3 K)) :
    resid (quatRot q) pairs = sumR2 pairs + q.nrm2 ^ 2 * sumC2 pairs - 2 * quad (Fmat (cov pairs)) q := by
  have := resid_smul_quatRot (1 : K) q pairs
  rw [smul_one_eq] at this
  rw [this]; ring

theorem rmsd2_formula_unit (q : Q4 K) (h : q.nrm2 = 1) (pairs : List (V3 K × V3 K)) :
    resid (quatRot q) pairs = sumR2 pairs + sumC2 pairs - 2 * quad (Fmat (cov pairs)) q := by
  rw [rmsd2_formula, h]; ring

/-- for an orthogonal `U`, `(U·v)ᵀ·U = v` — the step that makes `T = c̄ − U·r̄` match the centroids -/
theorem rowMul_matVec (U : M3 K) (h : U.transpose.mul U = M3.one) (v : V3 K) : rowMul (matVec U v) U = v := by
  simp only [M3.ext_iff, M3.mul, M3.transpose, M3.one] at h
  obtain ⟨h1, h2, h3, h4, h5, h6, h7, h8, h9⟩ := h
  ext <;> simp only [rowMul, matVec]
  · linear_combination v.x * h1 + v.y * h4 + v.z * h7
  · linear_combination v.x * h2 + v.y * h5 + v.z * h8
  · linear_combination v.x * h3 + v.y * h6 + v.z * h9

/-- **the recipe's residual is the centred residual** (per atom): with `T = c̄ − U·r̄` (align.py:496) and
    `U` orthogonal, `align_coordinates` sends `c` to `(c − T)·U`, and
    `(c − T)·U − r = (c − c̄)·U − (r − r̄)`.  Hence the RMSD recomputed by `B787` from the returned recipe
    (align.py:197-200,249-250) is the RMSD `kabsch_align` minimised. -/
theorem recipe_pointwise (U : M3 K) (h : U.transpose.mul U = M3.one) (rc cc r c : V3 K) :
    (rowMul (c.sub (cc.sub (matVec U rc))) U).sub r = (rowMul (c.sub cc) U).sub (r.sub rc) := by
  have e := rowMul_matVec U h rc
  have ex := congrArg V3.x e; have ey := congrArg V3.y e; have ez := congrArg V3.z e
  simp only [rowMul, matVec] at ex ey ez
  ext <;> simp only [rowMul, matVec, V3.sub]
  · linear_combination ex
  · linear_combination ey
  · linear_combination ez

end Ring

section Ordered
variable [Field K] [LinearOrder K] [IsStrictOrderedRing K]

/-- the rotation `U(p)/|p|²` — over ℚ these are exactly the rational rotations (Cayley/Euler–Rodrigues),
    over ℝ all rotations of quaternion form -/
def rotOf (p : Q4 K) : M3 K := M3.smul (1 / p.nrm2) (quatRot p)

/-- `U(p)/|p|²` is a proper rotation whenever `|p|² ≠ 0` (no unit-norm assumption, no square roots) -/
theorem rotOf_proper (p : Q4 K) (hp : p.nrm2 ≠ 0) :
    (rotOf p).mul (rotOf p).transpose = M3.one ∧ (rotOf p).transpose.mul (rotOf p) = M3.one
      ∧ (rotOf p).det = 1 := by
  have hk : (1 / p.nrm2) ^ 2 * p.nrm2 ^ 2 = 1 := by field_simp
  have hk3 : (1 / p.nrm2) ^ 3 * p.nrm2 ^ 3 = 1 := by field_simp
  obtain ⟨h1, h2⟩ := quatRot_mul_transpose p
  simp only [M3.ext_iff, M3.mul, M3.transpose, M3.smul, M3.one] at h1 h2
  obtain ⟨a1, a2, a3, a4, a5, a6, a7, a8, a9⟩ := h1
  obtain ⟨b1, b2, b3, b4, b5, b6, b7, b8, b9⟩ := h2
  refine ⟨?_, ?_, ?_⟩
  · ext <;> simp only [rotOf, M3.mul, M3.transpose, M3.smul, M3.one]
    · linear_combination (1 / p.nrm2) ^ 2 * a1 + hk
    · linear_combination (1 / p.nrm2) ^ 2 * a2
    · linear_combination (1 / p.nrm2) ^ 2 * a3
    · linear_combination (1 / p.nrm2) ^ 2 * a4
    · linear_combination (1 / p.nrm2) ^ 2 * a5 + hk
    · linear_combination (1 / p.nrm2) ^ 2 * a6
    · linear_combination (1 / p.nrm2) ^ 2 * a7
    · linear_combination (1 / p.nrm2) ^ 2 * a8
    · linear_combination (1 / p.nrm2) ^ 2 * a9 + hk
  · ext <;> simp only [rotOf, M3.mul, M3.transpose, M3.smul, M3.one]
    · linear_combination (1 / p.nrm2) ^ 2 * b1 + hk
    · linear_combination (1 / p.nrm2) ^ 2 * b2
    · linear_combination (1 / p.nrm2) ^ 2 * b3
    · linear_combination (1 / p.nrm2) ^ 2 * b4
    · linear_combination (1 / p.nrm2) ^ 2 * b5 + hk
    · linear_combination (1 / p.nrm2) ^ 2 * b6
    · linear_combination (1 / p.nrm2) ^ 2 * b7
    · linear_combination (1 / p.nrm2) ^ 2 * b8
    · linear_combination (1 / p.nrm2) ^ 2 * b9 + hk
  · have d := quatRot_det_general p
    have : (rotOf p).det = (1 / p.nrm2) ^ 3 * (quatRot p).det := by
      simp only [rotOf, M3.det, M3.smul]; ring
    rw [this, d, hk3]

-- non-vacuity: a rational rotation from an integer quaternion that is not a unit quaternion
example : (⟨1, 2, 3, 4⟩ : Q4 ℚ).nrm2 ≠ 0 := by simp only [Q4.nrm2]; norm_num

/-- residual of the rotation `U(p)/|p|²`: `Σ|r|² + Σ|c|² − 2·pᵀFp/|p|²` -/
theorem resid_rotOf (p : Q4 K) (hp : p.nrm2 ≠ 0) (pairs : List (V3 K × V3 K)) :
    resid (rotOf p) pairs = sumR2 pairs + sumC2 pairs - 2 * (quad (Fmat (cov pairs)) p / p.nrm2) := by
  have hk : (1 / p.nrm2) ^ 2 * p.nrm2 ^ 2 = 1 := by field_simp
  rw [rotOf, resid_smul_quatRot, hk]; ring

/-- **pivot test is sound** (4×4, explicit): all four fraction-free pivots positive ⇒ the quadratic form is
    non-negative at every vector -/
theorem posDef4_sound (M : S4 K) (h : posDef4 M = true) (p : Q4 K) : 0 ≤ quad M p := by
  simp only [posDef4, Bool.and_eq_true, decide_eq_true_eq] at h
  obtain ⟨h0, h1⟩ := h
  have e := elim4 M p
  have : 0 ≤ M.f00 * quad M p := by
    rw [e]
    have := sq_nonneg (M.f00 * p.q0 + M.f01 * p.q1 + M.f02 * p.q2 + M.f03 * p.q3)
    have := posDef3_sound _ h1 p.q1 p.q2 p.q3
    linarith
  exact le_of_mul_le_mul_left (by simpa using this) h0

-- non-vacuity (test): a non-diagonal positive definite matrix passes
example : posDef4 (⟨2, 1, 0, 0, 2, 1, 0, 2, 1, 2⟩ : S4 ℚ) = true := by
  simp only [posDef4, posDef3, posDef2, schur4, schur3, schur2]; norm_num
-- and an indefinite one is refused (test)
example : posDef4 (⟨1, 2, 0, 0, 1, 0, 0, 1, 0, 1⟩ : S4 ℚ) = false := by
  simp only [posDef4, posDef3, posDef2, schur4, schur3, schur2]; norm_num

/-- **certificate soundness**: if `isTopEig F q δ ε` then `| |q|² − 1 | ≤ δ` and `qᵀFq + ε` bounds the
    Rayleigh quotient of `F` at *every* 4-vector: `pᵀFp ≤ (qᵀFq + ε)·|p|²`. -/
theorem isTopEig_sound (F : S4 K) (q : Q4 K) (δ ε : K) (h : isTopEig F q δ ε = true) :
    |q.nrm2 - 1| ≤ δ ∧ ∀ p : Q4 K, quad F p ≤ (quad F q + ε) * p.nrm2 := by
  simp only [isTopEig, Bool.and_eq_true, decide_eq_true_eq] at h
  refine ⟨h.1, fun p => ?_⟩
  have := posDef4_sound _ h.2 p
  rw [quad_shiftNeg] at this
  linarith

/-- **optimality** (`_partial` in one respect, see FULL): if the eigenvector `q` the implementation used
    passes the certificate for `F = F(cov(R̃,C̃))`, then the rotation `U(q)` it built has a residual no larger
    than that of *every* rotation `U(p)/|p|²`, `p ≠ 0`, up to `2ε + δ(2+δ)·Σ|c|²`
    (`N·rmsd²` is the residual; `δ` accounts for `q` not being exactly unit in floating point). -/
theorem kabsch_optimal_partial (pairs : List (V3 K × V3 K)) (q : Q4 K) (δ ε : K)
    (h : isTopEig (Fmat (cov pairs)) q δ ε = true) (p : Q4 K) (hp : p.nrm2 ≠ 0) :
    resid (quatRot q) pairs ≤ resid (rotOf p) pairs + 2 * ε + δ * (2 + δ) * sumC2 pairs := by
  obtain ⟨hn, hq⟩ := isTopEig_sound _ q δ ε h
  have hpp : 0 < p.nrm2 := lt_of_le_of_ne (nrm2_nonneg p) (Ne.symm hp)
  have h1 : quad (Fmat (cov pairs)) p / p.nrm2 ≤ quad (Fmat (cov pairs)) q + ε := by
    rw [div_le_iff₀ hpp]; exact hq p
  rw [rmsd2_formula, resid_rotOf p hp]
  have hc := sumC2_nonneg pairs
  have hδ : 0 ≤ δ := le_trans (abs_nonneg _) hn
  obtain ⟨hlo, hhi⟩ := abs_le.mp hn
  have hq0 := nrm2_nonneg q
  have hsq : q.nrm2 ^ 2 ≤ (1 + δ) ^ 2 := by
    apply pow_le_pow_left₀ hq0; linarith
  have : q.nrm2 ^ 2 * sumC2 pairs ≤ (1 + δ) ^ 2 * sumC2 pairs := mul_le_mul_of_nonneg_right hsq hc
  nlinarith
-- FULL: "not larger than that of any other proper rotation": every proper rotation over ℝ is U(p)/|p|² for
-- some p ≠ 0 (surjectivity of the quaternion parametrisation onto SO(3)); that surjectivity needs square
-- roots and is not formalised here.  Over ℚ the family U(p)/|p|² is exactly the set of rational rotations.

/-- **recovery**: if some rotation `U(p)/|p|²` maps the centred concern geometry exactly onto the centred
    reference (`C` is a rotated, translated copy of `R`), then the certified answer's residual is at most
    `2ε + δ(2+δ)Σ|c|²` — zero up to the stated numerical slack. -/
theorem recovery (pairs : List (V3 K × V3 K)) (q : Q4 K) (δ ε : K)
    (h : isTopEig (Fmat (cov pairs)) q δ ε = true) (p : Q4 K) (hp : p.nrm2 ≠ 0)
    (hexact : resid (rotOf p) pairs = 0) :
    resid (quatRot q) pairs ≤ 2 * ε + δ * (2 + δ) * sumC2 pairs := by
  have := kabsch_optimal_partial pairs q δ ε h p hp
  rw [hexact] at this; linarith

-- non-vacuity of `recovery`/`kabsch_optimal_partial` (test): two atoms, C = R rotated by 120° about (1,1,1);
-- q = (1/2,1/2,1/2,1/2) is certified with δ = 0, ε = 1/1000 and the exact superposition has residual 0.
example :
    let pairs : List (V3 ℚ × V3 ℚ) := [(⟨1, 0, 0⟩, ⟨0, 1, 0⟩), (⟨-1, 0, 0⟩, ⟨0, -1, 0⟩)]
    isTopEig (Fmat (cov pairs)) (⟨1/2, 1/2, 1/2, 1/2⟩ : Q4 ℚ) 0 (1/1000) = true
      ∧ resid (rotOf (⟨1, 1, 1, 1⟩ : Q4 ℚ)) pairs = 0 := by
  simp only [isTopEig, posDef4, posDef3, posDef2, schur4, schur3, schur2, shiftNeg, quad, Fmat, cov, outer,
    M3.add, M3.zero, Q4.nrm2, resid, rotOf, quatRot, M3.smul, rowMul, V3.sub, V3.nrm2]
  norm_num

/-- **the centroid-matching shift is optimal** (completing the square): for any vectors `x_i`
    (think `x_i = c_i·U − r_i`), if `m` is their mean then `Σ|x_i − m|² ≤ Σ|x_i − s|²` for every `s`. -/
theorem centroid_shift_optimal (xs : List (V3 K)) (m s : V3 K)
    (hm : vsum xs = V3.smul (xs.length : K) m) :
    sumNrm2 (xs.map (fun v => v.sub m)) ≤ sumNrm2 (xs.map (fun v => v.sub s)) := by
  have e := sum_shift_expand xs m s
  have z : (m.sub s).dot ((vsum xs).sub (V3.smul (xs.length : K) m)) = 0 := by
    rw [hm]; simp only [V3.dot, V3.sub, V3.smul]; ring
  rw [z] at e
  have : 0 ≤ (xs.length : K) * (m.sub s).nrm2 := mul_nonneg (Nat.cast_nonneg _) (V3.nrm2_nonneg _)
  linarith

-- non-vacuity (test)
example : vsum [(⟨1, 2, 3⟩ : V3 ℚ), ⟨3, 2, 1⟩] = V3.smul (([(⟨1, 2, 3⟩ : V3 ℚ), ⟨3, 2, 1⟩].length : ℕ) : ℚ) ⟨2, 2, 2⟩ := by
  simp only [vsum, V3.add, V3.zero, V3.smul, List.length]; norm_num

end Ordered

/-! ## the exact-equality head-off (align.py:483-486)

`kabsch_align` returns `(0.0, I, 0)` when `np.array_equal(R, C)`.  (Before the repair c67db45 the test was
`np.allclose(R, C)`, which answered identity / zero shift / RMSD 0.0 for merely close geometries — e.g.
`C = R + (1e-6,0,0)` — neither optimal nor the RMSD obtained; the harness kind
`oracle:nearcoincident_shortcut` fires if that behaviour returns.)  With exact equality the head-off is
sound for every geometry: -/

theorem geomEq_eq [Field K] [LinearOrder K] : ∀ (R C : List (V3 K)), geomEq R C = true → R = C := by
  intro R
  induction R with
  | nil => intro C h; cases C with
    | nil => rfl
    | cons c cs => simp [geomEq] at h
  | cons r rs ih => intro C h; cases C with
    | nil => simp [geomEq] at h
    | cons c cs =>
      simp only [geomEq, Bool.and_eq_true, decide_eq_true_eq] at h
      obtain ⟨⟨⟨hx, hy⟩, hz⟩, ht⟩ := h
      rw [ih cs ht, V3.ext hx hy hz]

theorem dist2_self [CommRing K] : ∀ (R : List (V3 K)), dist2 R R = 0 := by
  intro R
  induction R with
  | nil => simp [dist2]
  | cons r rs ih => simp only [dist2, ih, V3.sub, V3.nrm2]; ring

/-- **the head-off is exact**: when it fires (`R = C` entry by entry) the recipe (identity, zero shift) maps
    every atom of `C` onto itself and the residual against `R` is exactly `0` = the reported RMSD. -/
theorem shortcut_exact [Field K] [LinearOrder K] (R C : List (V3 K)) (q : Q4 K)
    (h : (kabschAlign R C q).shortcut = true) :
    (kabschAlign R C q).U = M3.one ∧ (kabschAlign R C q).T = V3.zero ∧ (kabschAlign R C q).res2 = 0
      ∧ C.map (fun v => rowMul (v.sub V3.zero) M3.one) = C ∧ dist2 C R = 0 := by
  unfold kabschAlign at h ⊢
  by_cases hg : geomEq R C = true
  · simp only [hg, if_true] at h ⊢
    have hRC := geomEq_eq R C hg
    refine ⟨trivial, trivial, trivial, ?_, ?_⟩
    · have : (fun v : V3 K => rowMul (v.sub V3.zero) M3.one) = id := by
        funext v; ext <;> simp only [rowMul, V3.sub, V3.zero, M3.one, id] <;> ring
      rw [this, List.map_id]
    · rw [hRC]; exact dist2_self C
  · simp only [hg] at h; simp at h

-- non-vacuity (test): the head-off fires on equal geometries and not on a shifted copy
example : (kabschAlign [(⟨1, 2, 3⟩ : V3 ℚ), ⟨0, 0, 1⟩] [⟨1, 2, 3⟩, ⟨0, 0, 1⟩] ⟨1, 0, 0, 0⟩).shortcut = true := by
  simp [kabschAlign, geomEq]
example : (kabschAlign [(⟨1, 2, 3⟩ : V3 ℚ), ⟨0, 0, 1⟩] [⟨1 + 1/1000000, 2, 3⟩, ⟨1/1000000, 0, 1⟩] ⟨1, 0, 0, 0⟩).shortcut = false := by
  simp [kabschAlign, geomEq]

end QcelVerif.Kabsch


/-! ## The `B787` trial loop (`Model/B787.lean`) -/
namespace QcelVerif.B787

theorem update_sel (cfg : Cfg) (st : State) (i : Nat) (m : Bool) (v : Int) :
    (update cfg st i m v).1.sel = st.sel ∨ (update cfg st i m v).1.sel = some (i, m) := by
  unfold update; dsimp only; split <;> simp

theorem loop_mirror_off (cfg : Cfg) (hoff : mirrorOn cfg = false) :
    ∀ (ts : List Trial) (i : Nat) (st : State), (∀ j m, st.sel = some (j, m) → m = false) →
      ∀ j m, (loop cfg i ts st).sel = some (j, m) → m = false := by
  intro ts
  induction ts with
  | nil => intro i st h j m hs; exact h j m (by simpa [loop] using hs)
  | cons t ts ih =>
    intro i st h j m hs
    have inv1 : ∀ j m, (update cfg st i false t.plain).1.sel = some (j, m) → m = false := by
      intro j m e
      rcases update_sel cfg st i false t.plain with e' | e'
      · rw [e'] at e; exact h j m e
      · rw [e'] at e; simp only [Option.some.injEq, Prod.mk.injEq] at e; exact e.2.symm
    rw [loop] at hs
    split at hs
    · rename_i st1 e; rw [show st1 = (update cfg st i false t.plain).1 by rw [e]] at hs; exact inv1 j m hs
    · rename_i st1 e
      rw [hoff] at hs
      simp only [Bool.false_eq_true, if_false] at hs
      rw [show st1 = (update cfg st i false t.plain).1 by rw [e]] at hs
      exact ih (i + 1) _ inv1 j m hs

/-- **mirror images are matched only on request**: unless `run_mirror` is set *and* the concern geometry is
    not superimposable on its own mirror image, the recipe `B787` holds at the end never has `mirror = True`
    — whatever the trial RMSDs are. -/
theorem mirror_only_on_request (cfg : Cfg) (ts : List Trial) (st : State)
    (hreq : cfg.runMirror = false ∨ cfg.superimposable = true) (h : run cfg ts = .ok st) :
    ∀ j m, st.sel = some (j, m) → m = false := by
  have hoff : mirrorOn cfg = false := by
    rcases hreq with h | h <;> simp [mirrorOn, h]
  unfold run at h
  dsimp only at h
  split at h
  · cases h
  · injection h with h
    subst h
    exact loop_mirror_off cfg hoff ts 0 init (by intro j m e; simp [init] at e)

-- non-vacuity (tests): with the request and a chiral system the mirror trial can win; without it it cannot
example : run ⟨true, false, false, 0⟩ [⟨5, 1⟩] = .ok ⟨1, some (0, true), 2⟩ := by decide
example : run ⟨false, false, false, 0⟩ [⟨5, 1⟩] = .ok ⟨5, some (0, false), 1⟩ := by decide
example : run ⟨true, true, false, 0⟩ [⟨5, 1⟩] = .ok ⟨5, some (0, false), 1⟩ := by decide

theorem update_best_le (cfg : Cfg) (st : State) (i : Nat) (m : Bool) (v : Int) :
    (update cfg st i m v).1.best ≤ st.best ∧ (update cfg st i m v).1.best ≤ v := by
  unfold update; dsimp only; split
  · rename_i h; exact ⟨Int.le_of_lt h, Int.le_refl _⟩
  · rename_i h; exact ⟨Int.le_refl _, Int.not_lt.mp h⟩

theorem update_break (cfg : Cfg) (st : State) (i : Nat) (m : Bool) (v : Int)
    (hb : (update cfg st i m v).2 = true) :
    cfg.runToCompletion = false ∧ (update cfg st i m v).1.best < cfg.aconv := by
  unfold update at hb ⊢; dsimp only at hb ⊢; split at hb
  · simp only [Bool.and_eq_true, Bool.not_eq_true', decide_eq_true_eq] at hb
    rename_i h; simp only [h, if_true]; exact hb
  · cases hb

/-- the loop never raises `best`, and at its end either `best` is a lower bound of *every* trial RMSD that
    was eligible (plain always, mirrored when the mirror pass is on), or it stopped early because
    `best < a_convergence` with `run_to_completion` off. -/
theorem loop_best_le (cfg : Cfg) :
    ∀ (ts : List Trial) (i : Nat) (st : State),
      (loop cfg i ts st).best ≤ st.best ∧
      ((∀ t ∈ ts, (loop cfg i ts st).best ≤ t.plain ∧ (mirrorOn cfg = true → (loop cfg i ts st).best ≤ t.mir))
        ∨ (cfg.runToCompletion = false ∧ (loop cfg i ts st).best < cfg.aconv)) := by
  intro ts
  induction ts with
  | nil => intro i st; simp [loop]
  | cons t ts ih =>
    intro i st
    obtain ⟨u1, u2⟩ := update_best_le cfg st i false t.plain
    rw [loop]
    split
    · rename_i st1 e
      have hb := update_break cfg st i false t.plain (by rw [e])
      rw [e] at u1 u2 hb
      exact ⟨u1, Or.inr hb⟩
    · rename_i st1 e
      rw [e] at u1 u2
      dsimp only at u1 u2
      by_cases hm : mirrorOn cfg = true
      · rw [if_pos hm]
        obtain ⟨w1, w2⟩ := update_best_le cfg st1 i true t.mir
        split
        · rename_i st2 e2
          have hb := update_break cfg st1 i true t.mir (by rw [e2])
          rw [e2] at w1 hb
          exact ⟨Int.le_trans w1 u1, Or.inr hb⟩
        · rename_i st2 e2
          rw [e2] at w1 w2
          dsimp only at w1 w2
          obtain ⟨r1, r2⟩ := ih (i + 1) st2
          refine ⟨Int.le_trans r1 (Int.le_trans w1 u1), ?_⟩
          rcases r2 with r2 | r2
          · left
            intro t' ht'
            rcases List.mem_cons.mp ht' with rfl | ht'
            · exact ⟨Int.le_trans r1 (Int.le_trans w1 u2), fun _ => Int.le_trans r1 w2⟩
            · exact r2 t' ht'
          · exact Or.inr r2
      · rw [if_neg hm]
        obtain ⟨r1, r2⟩ := ih (i + 1) st1
        refine ⟨Int.le_trans r1 u1, ?_⟩
        rcases r2 with r2 | r2
        · left
          intro t' ht'
          rcases List.mem_cons.mp ht' with rfl | ht'
          · exact ⟨Int.le_trans r1 u2, fun h => absurd h hm⟩
          · exact r2 t' ht'
        · exact Or.inr r2

/-- **the returned RMSD is the minimum over the candidates tried**: when the search runs to completion the
    held `best` (rounded to 1e-8 Å as the code does) is ≤ every eligible trial RMSD. -/
theorem best_is_min (cfg : Cfg) (hc : cfg.runToCompletion = true) (ts : List Trial) (st : State)
    (h : run cfg ts = .ok st) :
    ∀ t ∈ ts, st.best ≤ t.plain ∧ (mirrorOn cfg = true → st.best ≤ t.mir) := by
  unfold run at h
  dsimp only at h
  split at h
  · cases h
  · injection h with h
    subst h
    rcases (loop_best_le cfg ts 0 init).2 with r | r
    · exact r
    · rw [hc] at r; cases r.1

/-- value of a trial under a mirror flag -/
def Trial.val (t : Trial) (m : Bool) : Int := if m then t.mir else t.plain

/-- "the held solution is the trial whose RMSD is `best`" -/
def Consistent (all : List Trial) (st : State) : Prop :=
  ∀ j m, st.sel = some (j, m) → ∃ t, all[j]? = some t ∧ st.best = t.val m

theorem update_consistent (cfg : Cfg) (all : List Trial) (st : State) (i : Nat) (m : Bool) (t : Trial)
    (hi : all[i]? = some t) (hc : Consistent all st) : Consistent all (update cfg st i m (t.val m)).1 := by
  unfold update; dsimp only; split
  · intro j m' e
    simp only [Option.some.injEq, Prod.mk.injEq] at e
    obtain ⟨rfl, rfl⟩ := e
    exact ⟨t, hi, rfl⟩
  · intro j m' e; exact hc j m' e

theorem loop_consistent (cfg : Cfg) :
    ∀ (ts pre : List Trial) (st : State), Consistent (pre ++ ts) st →
      Consistent (pre ++ ts) (loop cfg pre.length ts st) := by
  intro ts
  induction ts with
  | nil => intro pre st h; simpa [loop] using h
  | cons t ts ih =>
    intro pre st h
    have hi : (pre ++ t :: ts)[pre.length]? = some t := by simp
    have c1 := update_consistent cfg (pre ++ t :: ts) st pre.length false t hi h
    have hv : t.val false = t.plain := rfl
    rw [hv] at c1
    have hpre : pre ++ t :: ts = (pre ++ [t]) ++ ts := by simp
    have hlen : pre.length + 1 = (pre ++ [t]).length := by simp
    rw [loop]
    split
    · rename_i st1 e; rw [e] at c1; exact c1
    · rename_i st1 e
      rw [e] at c1
      dsimp only at c1
      split
      · have c2 := update_consistent cfg (pre ++ t :: ts) st1 pre.length true t hi c1
        have hv2 : t.val true = t.mir := rfl
        rw [hv2] at c2
        split
        · rename_i st2 e2; rw [e2] at c2; exact c2
        · rename_i st2 e2
          rw [e2] at c2
          dsimp only at c2
          rw [hpre, hlen]; rw [hpre] at c2
          exact ih (pre ++ [t]) st2 c2
      · rw [hpre, hlen]; rw [hpre] at c1
        exact ih (pre ++ [t]) st1 c1

/-- the held recipe is one of the trials and `best` is exactly that trial's (rounded) RMSD -/
theorem sel_attains_best (cfg : Cfg) (ts : List Trial) (st : State) (h : run cfg ts = .ok st) :
    ∃ j m t, st.sel = some (j, m) ∧ ts[j]? = some t ∧ st.best = t.val m := by
  have hc := loop_consistent cfg ts [] init (by intro j m e; simp [init] at e)
  simp only [List.nil_append, List.length_nil] at hc
  unfold run at h
  dsimp only at h
  split at h
  · cases h
  · rename_i p e
    injection h with h
    subst h
    obtain ⟨j, m⟩ := p
    obtain ⟨t, h1, h2⟩ := hc j m e
    exact ⟨j, m, t, e, h1, h2⟩

end QcelVerif.B787
