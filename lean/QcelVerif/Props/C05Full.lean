import QcelVerif.Props.C05Src
/-!
# C05 — a fully specified assignment is never altered, and is accepted exactly when it obeys the rules

`vfc_accepts_valid_full` gives one direction ("any fully specified assignment that obeys these rules is accepted as
is").  Here the converse and the sharpening the caller relies on ("keeps every value the caller supplied") are put
together for the fully specified case, for any fragment count and any electron counts:

* `vfc_full_returns_input` — whatever `validate_and_fill_chgmult` returns on a full specification IS that specification
  (it can only be refused, never changed);
* `vfc_full_iff` — it is returned iff it obeys `Rules`;
* `vfc_full_rejects_invalid` — a well-formed full specification that breaks a rule raises `ValidationError`;
* the same three for the procedure regenerated from `chgmult.py` (`*_src`).

PROPERTY-THEOREMS: vfc_full_returns_input vfc_full_iff vfc_full_rejects_invalid (+ `_src`)
-/
namespace QcelVerif.ChgMult

/-- two integer lists of equal length that agree wherever both are defined, the first seen through `some` -/
theorem eq_of_keeps (a b : List Int) (hl : b.length = a.length)
    (h : ∀ (k : Nat) (v x : Int), (a.map some)[k]? = some (some v) → b[k]? = some x → x = v) : b = a := by
  apply List.ext_getElem hl
  intro k h1 h2
  exact h k a[k] b[k] (by simp [h2]) (by simp [h1])

/-- **A full specification is never altered**: the only answer it can get is itself
(`zero_ghost_fragments = False`). -/
theorem vfc_full_returns_input (frags : List (List Int)) (o o' : Out)
    (h : vfc (fullSpec frags o false) = .ok o') : o' = o := by
  have R := vfc_sound_plain _ _ rfl h
  obtain ⟨hw, _, _⟩ := vfc_ok_unfold h
  simp only [wellFormed, fullSpec, List.length_map, Bool.and_eq_true, beq_iff_eq] at hw
  have hc : o'.c = o.c := R.keeps_c o.c rfl
  have hm : o'.m = o.m := R.keeps_m o.m rfl
  have hfc : o'.fc = o.fc := eq_of_keeps o.fc o'.fc (by rw [R.len_fc, hw.1]; rfl) R.keeps_fc
  have hfm : o'.fm = o.fm := eq_of_keeps o.fm o'.fm (by rw [R.len_fm, hw.2]; rfl) R.keeps_fm
  cases o; cases o'; simp_all

/-- **Accepted exactly when it obeys the rules.** -/
theorem vfc_full_iff (frags : List (List Int)) (o : Out) :
    vfc (fullSpec frags o false) = .ok o ↔ Rules (fullSpec frags o false) o :=
  ⟨fun h => vfc_sound_plain _ _ rfl h, vfc_accepts_valid_full frags o⟩

/-- **A well-formed full specification that breaks a rule is refused with `ValidationError`** —
it is neither returned nor repaired into something else. -/
theorem vfc_full_rejects_invalid (frags : List (List Int)) (o : Out)
    (hl : o.fc.length = frags.length ∧ o.fm.length = frags.length)
    (hR : ¬ Rules (fullSpec frags o false) o) : vfc (fullSpec frags o false) = .error .validation := by
  have hw : wellFormed (fullSpec frags o false) = true := by
    simp [wellFormed, fullSpec, hl.1, hl.2]
  rcases vfc_error_is_validation _ hw with ⟨o', ho', _⟩ | he
  · have : o' = o := vfc_full_returns_input frags o o' ho'
    subst this
    exact absurd ((vfc_full_iff frags o').1 ho') hR
  · exact he

/-! ### the same of the procedure regenerated from `chgmult.py` -/

theorem vfc_full_returns_input_src (frags : List (List Int)) (o o' : Out)
    (h : vfcSrc (fullSpec frags o false) = .ok o') : o' = o := by
  rw [vfcSrc_eq_vfc] at h; exact vfc_full_returns_input frags o o' h

theorem vfc_full_iff_src (frags : List (List Int)) (o : Out) :
    vfcSrc (fullSpec frags o false) = .ok o ↔ Rules (fullSpec frags o false) o := by
  rw [vfcSrc_eq_vfc]; exact vfc_full_iff frags o

theorem vfc_full_rejects_invalid_src (frags : List (List Int)) (o : Out)
    (hl : o.fc.length = frags.length ∧ o.fm.length = frags.length)
    (hR : ¬ Rules (fullSpec frags o false) o) : vfcSrc (fullSpec frags o false) = .error .validation := by
  rw [vfcSrc_eq_vfc]; exact vfc_full_rejects_invalid frags o hl hR

/-! ### non-vacuity: both branches are inhabited (kernel-evaluated on concrete full specifications) -/

/-- water-like 10-electron fragment, neutral singlet: accepted as is -/
example : vfc (fullSpec [[8, 1, 1]] ⟨0, [0], 1, [1]⟩ false) = .ok ⟨0, [0], 1, [1]⟩ := by decide
/-- same with a doublet: wrong parity, refused -/
example : vfc (fullSpec [[8, 1, 1]] ⟨0, [0], 2, [2]⟩ false) = .error .validation := by decide
/-- total charge differing from the fragment sum: refused, not repaired -/
example : vfc (fullSpec [[1], [1]] ⟨1, [0, 0], 2, [2, 2]⟩ false) = .error .validation := by decide

end QcelVerif.ChgMult
