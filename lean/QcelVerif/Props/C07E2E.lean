import QcelVerif.Model.TextToMol
import QcelVerif.Props.C07Text
import QcelVerif.Props.C04C06
/-!
# C07 end to end — `Molecule → text → Molecule` through validation

`Model/TextToMol.lean` composes the text layer (M1, C07) with `from_input_arrays`' field mapping and the `from_arrays` model
(C04) whose per-atom reconciler is the C06 model and whose charge/multiplicity stage is the C05 model.  This file proves, for
ALL records (no size bound):

  * `read_text_xyz / _xyzplus / _psi4` — reading the written TEXT equals validating what the format carries (`validate` of
    `projectXyz / projectXyzPlus / projectPsi4`): the text-level `read_write_*_text` theorems lifted through `readMol`;
  * `read_write_validated_psi4_partial`, `read_write_validated_xyzplus_partial` — (a) a validated record (a fixed point of
    `from_arrays`, which is what `from_arrays_idempotent*` / `from_arrays_second_pass_c06*` conclude) written as psi4 / xyz+ and
    read back is returned with the printed coordinates, every other carried field unchanged; the per-atom "the written token
    alone re-derives the atom" step is a hypothesis (see the `-- FULL:` notes);
  * `readMol_documented`, `readMol_gap_only_c06_other` — (c) what the outcome type says about error classes;
  * `roundtrip_same_canon`, `roundtrip_same_hash` — (b) same canonical fields (C11), hence the same hash, when every printed
    coordinate has the same 8-decimal `float_prep` image as the stored one.

PROPERTY-THEOREMS: read_text_psi4 read_text_xyzplus read_text_xyz validate_mol_of_stages
  read_write_validated_psi4_partial read_write_validated_xyzplus_partial vfc_single_totals_absent
  readMol_documented readMol_gap_only_c06_other readMol_formatError_iff
  roundtrip_same_canon roundtrip_same_hash printed_same_prep
-/
namespace QcelVerif.TextToMol
open QcelVerif QcelVerif.MolText QcelVerif.FromArrays

/-! ## the text layer under `readMol` -/

/-- **psi4**: reading the text `writePsi4` prints is validating exactly what the format carries. -/
theorem read_text_psi4 (env : Env) (rd : Rat → Rat) (m : MolRec) (h : RecOk m) :
    readMol env rd .psi4 (render (writePsi4 m)) = validate env rd (projectPsi4 m) := by
  unfold readMol
  rw [read_write_psi4_text m h]

/-- **xyz+** -/
theorem read_text_xyzplus (env : Env) (rd : Rat → Rat) (natS : Str) (m : MolRec) (h : XyzOk natS m) (hname : Clean m.name) :
    readMol env rd .xyzPlus (render (writeXyz natS m)) = validate env rd (projectXyzPlus m) := by
  unfold readMol
  rw [read_write_xyzplus_text natS m h hname]

/-- **strict xyz** (Angstrom, ghost-free) -/
theorem read_text_xyz (env : Env) (rd : Rat → Rat) (natS : Str) (m : MolRec) (h : XyzOk natS m) (hname : Clean m.name)
    (hb : m.bohr = false) (hreal : ∀ a ∈ allAtoms m, a.real = true) :
    readMol env rd .xyz (render (writeXyz natS m)) = validate env rd (projectXyz m) := by
  unfold readMol
  rw [read_write_xyz_text natS m h hname hb hreal]

/-! ## (c) outcome classes -/

/-- **Documented errors only — by type, and what that means.**  Every outcome of the composed reader is a validated record,
the empty record (no atom line), one of the THREE documented error classes, or one of two explicit declarations of the model
(`outOfScope`: the text uses something the model does not cover; `modelGap`: a "cannot happen" class of the C05/C06 models was
hit).  This is a statement about the MODEL; that `from_string` behaves like it — in particular never raises a fourth class — is
the correspondence run (`R` lines of `Driver/C07b.lean`) and the totality oracle, on generated texts only. -/
theorem readMol_documented (env : Env) (rd : Rat → Rat) (d : Dtype) (s : Str) :
    (∃ r, readMol env rd d s = .mol r) ∨ readMol env rd d s = .noAtoms ∨
    readMol env rd d s = .error .moleculeFormat ∨ readMol env rd d s = .error .validation ∨
    readMol env rd d s = .error .notAnElement ∨ readMol env rd d s = .outOfScope ∨ readMol env rd d s = .modelGap := by
  cases h : readMol env rd d s with
  | mol r => exact Or.inl ⟨r, rfl⟩
  | noAtoms => simp
  | error e => cases e <;> simp
  | outOfScope => simp
  | modelGap => simp

/-- a MoleculeFormatError comes from the text layer and from nowhere else -/
theorem readMol_formatError_iff (env : Env) (rd : Rat → Rat) (d : Dtype) (s : Str) :
    readMol env rd d s = .error .moleculeFormat ↔ parseText d s = .formatError := by
  unfold readMol
  cases hp : parseText d s with
  | formatError => simp
  | outOfScope => simp
  | ok p =>
    simp only [reduceCtorEq, iff_false]
    unfold validate
    split
    · simp
    · split
      · simp
      · split
        · simp
        · rename_i e _
          cases e with
          | validation => simp [outcomeOfErr]
          | other cls => simp only [outcomeOfErr]; split <;> simp

/-- an error of the adapted C06 reconciler is a ValidationError, a NotAnElementError, or C06's own `other` -/
theorem reconOfC06With_error {N : Nucleus.NTables} {rd : Rat → Rat} {rng} {st : NucSettings} {c : Clue} {e : FromArrays.Err}
    (h : reconOfC06With N rd rng st c = .error e) :
    e = .validation ∨ e = .other "NotAnElement" ∨
    (e = .other "other" ∧ Nucleus.reconcileWith N rd rng (toInput st c) = .error .other) := by
  unfold reconOfC06With at h
  split at h
  · cases h
  · rename_i e' he'
    cases h
    cases e' with
    | notAnElement => exact Or.inr (Or.inl rfl)
    | validation f => exact Or.inl rfl
    | unparseable => exact Or.inl rfl
    | other => exact Or.inr (Or.inr ⟨rfl, he'⟩)

/-- **`modelGap` can only come from C06's `other` class** (a tabulated mass that is not a decimal, an element without a
nuclide range — `Nucleus.Err.other`, "cannot happen with the shipped table"): with the C06 model as reconciler over ANY table,
a `modelGap` outcome exhibits a clue on which `reconcile_nucleus`' model answers `other`.  (The C05 model's `malformed` class
is excluded by the proof: `from_arrays` checks the list lengths first.) -/
theorem readMol_gap_only_c06_other (N : Nucleus.NTables) (rd : Rat → Rat) (rng) (a : Rat) (d : Dtype) (s : Str)
    (h : readMol { recon := reconOfC06With N rd rng, angToAu := a } rd d s = .modelGap) :
    ∃ st c, Nucleus.reconcileWith N rd rng (toInput st c) = .error .other := by
  unfold readMol at h
  split at h
  · cases h
  · cases h
  rename_i p _
  unfold validate at h
  split at h
  · cases h
  split at h
  · cases h
  rename_i i _
  split at h
  · cases h
  rename_i e he
  rcases fromArrays_error he with hv | ⟨_, _, _, _, _, _, c, hc⟩
  · subst hv; simp [outcomeOfErr] at h
  · rcases reconOfC06With_error hc with hv | hv | ⟨_, hv⟩
    · subst hv; simp [outcomeOfErr] at h
    · subst hv; simp [outcomeOfErr] at h
    · exact ⟨_, c, hv⟩

/-! ## (a) the written text of a validated record, through validation -/

theorem clues_label_only : ∀ (ls : List String),
    clues (eleaNorm (List.replicate ls.length none)) (List.replicate ls.length none) (List.replicate ls.length none)
      (List.replicate ls.length none) (List.replicate ls.length none) (ls.map some)
    = ls.map fun l => ({ A := none, Z := none, E := none, mass := none, real := none, label := some l } : Clue)
  | [] => rfl
  | l :: t => by
      have ih := clues_label_only t
      simp only [eleaNorm, List.length_cons, List.replicate_succ, List.map_cons, clues] at ih ⊢
      rw [ih]; simp

/-- the nuclei stage on a text input: the tokens, each alone, as nucleus specifications -/
theorem validateNuclei_text (rc : Reconciler) (p : Processed) (g : List Rat) (c m : Option Int) (fc fm : List (Option Int))
    (nucs : List FromArrays.Nuc) (hl : p.elbl.length = g.length / 3)
    (hlab : mapE (rc textSettings) (p.elbl.map labelClue) = .ok nucs) :
    validateNuclei rc (g.length / 3) (textInp p g c m fc fm) = .ok nucs := by
  have hcl := clues_label_only (p.elbl.map String.ofList)
  simp only [List.length_map, List.map_map, eleaNorm, Function.comp_def] at hcl
  unfold validateNuclei
  simp only [nucArrays, textInp, fillNone, eleaNorm, List.length_map, List.length_replicate, hl, and_self, if_true]
  rw [← hl, hcl]
  exact hlab

theorem frameFlag_text (b : Bool) : frameFlag (if (false || b) = true then Tri.tt else Tri.none) = .ok b := by
  cases b <;> rfl

theorem unitsOf_valid (u : Option Bool) : unitsOf u = sAngstrom ∨ unitsOf u = sBohr := by
  cases u with
  | none => exact Or.inl rfl
  | some b => cases b; exact Or.inl rfl; exact Or.inr rfl

/-- the columns of a record returned by `from_arrays` are the columns of `recNucs` -/
theorem cols_of_ok {env : Env} {i : Inp} {r : Molrec} (h : fromArrays env i = .ok r) :
    r.elea = (recNucs r).map (·.A) ∧ r.elez = (recNucs r).map (·.Z) ∧ r.elem = (recNucs r).map (·.E) ∧
    r.mass = (recNucs r).map (·.mass) ∧ r.real = (recNucs r).map (·.real) ∧ r.elbl = (recNucs r).map (·.label) := by
  obtain ⟨g, u, nucs, fr, cm, com, orient, _, _, _, _, _, _, _, _, rfl⟩ := fromArrays_ok h
  simp only [recNucs, nucsOf_maps, and_self]

/-- **Assembly.**  A validated record `r` (a fixed point of `from_arrays`), and a text input — processed fields `p` with
converted numbers `g c m fc fm` — such that: the new coordinates pass the closeness screen; each nucleus token alone is
answered by the reconciler with the record's atom; the fragment stage accepts the text's fragment arguments with the record's
separators; the charge/multiplicity stage on the text's (possibly partial) specification returns the record's values.  Then
`from_arrays` on the text input returns `r` with the text's unit and coordinates (name, comment, connectivity and
`input_units_to_au` are not carried by any text format). -/
theorem fromArrays_textInp (env : Env) (i₀ : Inp) (r : Molrec) (hfix : fromArrays env (asInput i₀ r) = .ok r)
    (p : Processed) (g : List Rat) (c m : Option Int) (fc fm : List (Option Int))
    (hefp : p.efp = []) (hgne : g ≠ [])
    (hscreen : validateGeometry dfltTooclose g = .ok g)
    (hl : p.elbl.length = g.length / 3)
    (hlab : mapE (env.recon textSettings) (p.elbl.map labelClue) = .ok (recNucs r))
    (fr : FragOut)
    (hfr : validateFragments (g.length / 3) (textInp p g c m fc fm).seps (textInp p g c m fc fm).fc
      (textInp p g c m fc fm).fm = .ok fr)
    (hseps : fr.seps = r.seps)
    (hcm : chgmultStage r.elez r.real fr c m false = .ok ⟨r.c, r.fc, r.m, r.fm⟩) :
    fromArrays env (textInp p g c m fc fm) =
      .ok { r with units := unitsOf p.units, iutau := none, name := none, comment := none, conn := none, geom := g,
                   fixCom := p.fixCom, fixOrient := p.fixOrient, fixSymm := frameSymm p.fixSym } := by
  obtain ⟨h1, h2, h3, h4, h5, h6⟩ := cols_of_ok hfix
  have s1 : missingGeom (textInp p g c m fc fm) = .ok g := by
    cases g with
    | nil => exact absurd rfl hgne
    | cons x t => rfl
  have s2 := validateUnits_back env.angToAu (textInp p g c m fc fm) (unitsOf p.units) none none (unitsOf_valid _)
    rfl rfl (by intro x hx; cases hx) (by simp [textInp, validateConn])
  have s3 : validateGeometry (textInp p g c m fc fm).tooclose g = .ok g := hscreen
  have s4 := validateNuclei_text env.recon p g c m fc fm (recNucs r) hl hlab
  have s6 : chgmultStage ((recNucs r).map (·.Z)) ((recNucs r).map (·.real)) fr
      (textInp p g c m fc fm).c (textInp p g c m fc fm).m (textInp p g c m fc fm).zgf = .ok ⟨r.c, r.fc, r.m, r.fm⟩ := by
    rw [← h2, ← h5]; exact hcm
  have s7 : frameFlag (textInp p g c m fc fm).fixCom = .ok p.fixCom := by
    simp only [textInp, hefp, List.isEmpty_nil, Bool.not_true]; exact frameFlag_text _
  have s8 : frameFlag (textInp p g c m fc fm).fixOrient = .ok p.fixOrient := by
    simp only [textInp, hefp, List.isEmpty_nil, Bool.not_true]; exact frameFlag_text _
  have s9 : (textInp p g c m fc fm).fixSymm = p.fixSym := by
    simp [textInp, hefp]
  unfold fromArrays
  simp only [s1, s2, s3, s4, hfr, s6, s7, s8, s9]
  congr 1
  rw [← h1, ← h2, ← h3, ← h4, ← h5, ← h6, hseps]
  rfl

/-- what a fixed point of `from_arrays` says about its own fragment and charge stages -/
theorem stages_of_fix {env : Env} {i₀ : Inp} {r : Molrec} (hfix : fromArrays env (asInput i₀ r) = .ok r) :
    validateFragments (r.geom.length / 3) (some r.seps) (some (r.fc.map some)) (some (r.fm.map some))
      = .ok ⟨r.seps, r.fc.map some, r.fm.map some⟩ ∧
    chgmultStage r.elez r.real ⟨r.seps, r.fc.map some, r.fm.map some⟩ (some r.c) (some r.m) false
      = .ok ⟨r.c, r.fc, r.m, r.fm⟩ ∧
    (recNucs r).length = r.geom.length / 3 := by
  have hn := recNucs_of_ok hfix
  obtain ⟨hl, hm⟩ := validateNuclei_ok hn
  have hlen : (recNucs r).length = r.geom.length / 3 := by
    rw [mapE_ok_length hm]
    exact length_clues _ _ _ _ _ _ _ hl.1 hl.2.1 hl.2.2.1 hl.2.2.2.1 hl.2.2.2.2.1 hl.2.2.2.2.2
  obtain ⟨g, u, nucs, fr, cm, com, orient, _, _, _, _, hfr, hcm, _, _, hr⟩ := fromArrays_ok hfix
  have eg : r.geom = g := by rw [hr]
  have eseps : r.seps = fr.seps := by rw [hr]
  have ec : r.c = cm.c := by rw [hr]
  have efc : r.fc = cm.fc := by rw [hr]
  have em : r.m = cm.m := by rw [hr]
  have efm : r.fm = cm.fm := by rw [hr]
  have ez : r.elez = nucs.map (·.Z) := by rw [hr]
  have er : r.real = nucs.map (·.real) := by rw [hr]
  simp only [asInput] at hfr hcm
  obtain ⟨_, _, _, hcase⟩ := validateFragments_ok hfr
  have hfr' : fr = ⟨r.seps, r.fc.map some, r.fm.map some⟩ := by
    rcases hcase with ⟨h0, _⟩ | ⟨s, hs, h1, h2, h3⟩
    · cases h0
    · cases hs
      simp only [Option.getD_some] at h2 h3
      cases fr
      simp only at h1 h2 h3
      rw [h1, h2, h3]
  refine ⟨?_, ?_, hlen⟩
  · rw [eg]; rw [hfr'] at hfr; exact hfr
  · rw [ez, er, ← hfr']
    have : (⟨r.c, r.fc, r.m, r.fm⟩ : ChgMult.Out) = cm := by rw [ec, efc, em, efm]
    rw [this]; exact hcm

theorem optMapM_length {α β} {f : α → Option β} : ∀ {l : List α} {bs : List β}, optMapM f l = some bs → bs.length = l.length
  | [], bs, h => by simp [optMapM] at h; subst h; rfl
  | a :: t, bs, h => by
      unfold optMapM at h
      split at h
      · rename_i b bs' _ ht
        cases h
        simp [optMapM_length ht]
      · cases h

theorem psi4_counts (frags : List Frag) :
    (frags.flatMap fun f => f.atoms.flatMap coords3).length = 3 * (frags.flatMap fun f => f.atoms.map nucPsi4).length := by
  induction frags with
  | nil => rfl
  | cons f fs ih =>
    have h1 : (f.atoms.flatMap coords3).length = 3 * f.atoms.length := by
      induction f.atoms with
      | nil => rfl
      | cons a as iha => simp only [List.flatMap_cons, List.length_append, iha, coords3, List.length_cons, List.length_nil]; omega
    simp only [List.flatMap_cons, List.length_append, ih, h1, List.length_map]
    omega

theorem psi4_has_atoms (m : MolRec) (h : RecOk m) : (projectPsi4 m).elbl ≠ [] := by
  obtain ⟨_, _, hne, hfr⟩ := h
  cases hf : m.frags with
  | nil => exact absurd hf hne
  | cons f fs =>
    have hfa := (hfr f (by simp [hf])).2.2.1
    cases ha : f.atoms with
    | nil => exact absurd ha hfa
    | cons a as => simp [projectPsi4, hf, ha]

/-- **(a) psi4, through validation — PARTIAL.**  Let `r` be a validated record (`hfix`: a fixed point of `from_arrays`,
the conclusion of `from_arrays_idempotent` / `…_c06_plain` / `…_second_pass_c06`), `m` the text-level record the psi4 writer
prints for it (`RecOk`: grammar-conformant symbols and labels, printed numbers), such that the TEXT CARRIES `r`: the printed
integers convert to the record's charges / multiplicities (`hfc hfm hc hmu`), the fragment boundaries are the record's
separators (`hseps`), the printed coordinates convert to `g` (`hg`, the `float()` parameter) which passes the 0.1 closeness
screen IN THE TEXT'S UNIT (`hscreen` — not implied: known finding C07-tooclose-in-text-units).  Then reading the written text
returns `r` with the text's unit and the printed coordinates; name, comment, connectivity, `input_units_to_au` and
`fix_symmetry` are not carried by the psi4 writer.
-- FULL: without `hlab` and `hcm`.
--   `hlab` (each written token `E+label` / `Gh(E+label)` ALONE is answered by `reconcile_nucleus` with the record's atom) needs
--   (i) C06's backtracking NUCLEUS matcher `Nucleus.matchNucleus` shown to decode the written token (the hand-written
--   recogniser of C07 is proved to: `nucleus_roundtrip`) and (ii) default-isotope atoms (`from_arrays_idempotent_c06_plain`'s
--   class): label-only clues ≡ full clues.  An isotope-labelled atom (mass ≠ default) is NOT carried by the writers at all
--   (to_string prints no mass), so `hlab` is then false and so is the round trip - by design of the format.
--   `hcm` is discharged below for both shapes the psi4 writer prints (`…_multi`, `…_single`).
--   `hlab` is discharged in Props/C07Label.lean ((i) `matchNucleus_written`, (ii) `written_token_reconciles`, and the converse
--   `written_token_answer_is_default`); the full-strength theorems are `read_write_validated_psi4_multi / _single` in
--   Props/C07Full.lean. -/
theorem read_write_validated_psi4_partial (env : Env) (rd : Rat → Rat) (i₀ : Inp) (r : Molrec)
    (hfix : fromArrays env (asInput i₀ r) = .ok r)
    (m : MolRec) (hok : RecOk m)
    (g : List Rat) (hg : optMapM (floatOf rd) (projectPsi4 m).geom = some g)
    (hscreen : validateGeometry dfltTooclose g = .ok g)
    (hlab : mapE (env.recon textSettings) ((projectPsi4 m).elbl.map labelClue) = .ok (recNucs r))
    (hseps : (projectPsi4 m).seps.map (fun (k : Nat) => (k : Int)) = r.seps)
    (hfc : optMapM (optOpt (chargeOf rd)) (projectPsi4 m).fragChg = some (r.fc.map some))
    (hfm : optMapM (optOpt multOf) (projectPsi4 m).fragMult = some (r.fm.map some))
    (c mu : Option Int) (hc : optOpt (chargeOf rd) (projectPsi4 m).molChg = some c)
    (hmu : optOpt multOf (projectPsi4 m).molMult = some mu)
    (hcm : chgmultStage r.elez r.real ⟨r.seps, r.fc.map some, r.fm.map some⟩ c mu false = .ok ⟨r.c, r.fc, r.m, r.fm⟩) :
    readMol env rd .psi4 (render (writePsi4 m)) =
      .mol { r with units := unitsOf (some m.bohr), iutau := none, name := none, comment := none, conn := none, geom := g,
                    fixCom := m.fixCom, fixOrient := m.fixOrient, fixSymm := none } := by
  rw [read_text_psi4 env rd m hok]
  obtain ⟨hfr0, _, hlen0⟩ := stages_of_fix hfix
  have hcount := psi4_counts m.frags
  have hgl : g.length = 3 * (projectPsi4 m).elbl.length := by
    rw [optMapM_length hg]; simp only [projectPsi4]; exact hcount
  have hl : (projectPsi4 m).elbl.length = g.length / 3 := by omega
  have hne := psi4_has_atoms m hok
  have hgne : g ≠ [] := by
    intro h0; rw [h0] at hgl
    have : (projectPsi4 m).elbl.length = 0 := by simp at hgl; omega
    exact hne (List.length_eq_zero_iff.1 this)
  have hpg : (projectPsi4 m).geom ≠ [] := by
    intro h0; rw [h0] at hg; simp [optMapM] at hg; exact hgne hg
  have hnl : (recNucs r).length = (projectPsi4 m).elbl.length := by
    rw [mapE_ok_length hlab, List.length_map]
  have hdiv : g.length / 3 = r.geom.length / 3 := by omega
  have hti : toInp rd (projectPsi4 m) = some (textInp (projectPsi4 m) g c mu (r.fc.map some) (r.fm.map some)) := by
    unfold toInp; rw [hg, hc, hmu, hfc, hfm]
  have hpsi : (projectPsi4 m).isPsi4 = true := rfl
  have hefp : (projectPsi4 m).efp = [] := rfl
  have hfr : validateFragments (g.length / 3) (textInp (projectPsi4 m) g c mu (r.fc.map some) (r.fm.map some)).seps
      (textInp (projectPsi4 m) g c mu (r.fc.map some) (r.fm.map some)).fc
      (textInp (projectPsi4 m) g c mu (r.fc.map some) (r.fm.map some)).fm
      = .ok ⟨r.seps, r.fc.map some, r.fm.map some⟩ := by
    simp only [textInp, hpsi, if_true, hseps, hdiv]; exact hfr0
  have hfa := fromArrays_textInp env i₀ r hfix (projectPsi4 m) g c mu (r.fc.map some) (r.fm.map some) hefp hgne hscreen hl
    hlab _ hfr rfl hcm
  unfold validate
  have hie : (projectPsi4 m).geom.isEmpty = false := by
    cases hgm : (projectPsi4 m).geom with
    | nil => exact absurd hgm hpg
    | cons _ _ => rfl
  rw [hie, hti]
  simp only [Bool.false_eq_true, if_false, hfa]
  rfl

/-! ### the charge/multiplicity stage on what the psi4 writer prints -/

theorem irange_self (a : Int) : ChgMult.irange a a = [a] := by
  unfold ChgMult.irange
  have : (a + 1 - a).toNat = 1 := by omega
  rw [this]; simp [List.range_succ]

theorem highSpin_single (mu : Int) : ChgMult.highSpin [mu] = mu := by
  simp [ChgMult.highSpin, ChgMult.isum]; omega

open ChgMult in
theorem cands_absent (f : List Int) (c mu : Int) :
    candidates { frags := [f], c := none, fc := [some c], m := none, fm := [some mu], zgf := false }
      = [{ c := c, fc := [c], m := mu, fm := [mu] }] := by
  simp [candidates, candC, candFc, candM, candFm, missingMult, sumKnown, isum, applyDefault, highSpin_single, irange_self,
    dedup, prod]

open ChgMult in
theorem cands_full (f : List Int) (c mu : Int) :
    candidates { frags := [f], c := some c, fc := [some c], m := some mu, fm := [some mu], zgf := false }
      = [{ c := c, fc := [c], m := mu, fm := [mu] }] := by
  simp [candidates, candC, candFc, candM, candFm, missingMult, sumKnown, isum, dedup, prod]

open ChgMult in
/-- **C05 on a single-fragment psi4 text.**  The psi4 writer prints ONE `charge multiplicity` line for a single-fragment
molecule; the reader takes it as the fragment's, leaving the totals unspecified.  `validate_and_fill_chgmult` then returns
what it returns when the totals are given as well (one candidate either way; with the totals absent the high-spin rule R8
is `m = m`). -/
theorem vfc_single_totals_absent (f : List Int) (c mu : Int) (o : Out)
    (h : vfc { frags := [f], c := some c, fc := [some c], m := some mu, fm := [some mu], zgf := false } = .ok o) :
    vfc { frags := [f], c := none, fc := [some c], m := none, fm := [some mu], zgf := false } = .ok o := by
  unfold vfc at h ⊢
  simp only [effective, Bool.false_and, Bool.false_eq_true, if_false, cands_full, cands_absent] at h ⊢
  simp only [wellFormed, precheckFails, badMult, List.any_cons, List.any_nil, Bool.or_false, List.length_cons, List.length_nil,
    beq_self_eq_true, Bool.and_self, Bool.not_true, Bool.false_eq_true, if_false, Bool.or_self, Bool.false_or] at h ⊢
  split at h
  · cases h
  · rename_i hb
    simp only [hb]
    simp only [List.find?_cons, List.find?_nil] at h ⊢
    have hr : rulesOk { frags := [f], c := none, fc := [some c], m := none, fm := [some mu], zgf := false } { c := c, fc := [c], m := mu, fm := [mu] }
        = rulesOk { frags := [f], c := some c, fc := [some c], m := some mu, fm := [some mu], zgf := false } { c := c, fc := [c], m := mu, fm := [mu] } := by
      simp [rulesOk, keeps, keepsAll, highSpinRequired, highSpin_single]
    rw [hr]
    exact h

/-- **(a) psi4, several fragments** (`hcm` discharged: the text states totals and every fragment's values, exactly the
specification the fixed point was validated with).  PARTIAL only in `hlab` (see `read_write_validated_psi4_partial`). -/
theorem read_write_validated_psi4_multi_partial (env : Env) (rd : Rat → Rat) (i₀ : Inp) (r : Molrec)
    (hfix : fromArrays env (asInput i₀ r) = .ok r)
    (m : MolRec) (hok : RecOk m)
    (g : List Rat) (hg : optMapM (floatOf rd) (projectPsi4 m).geom = some g)
    (hscreen : validateGeometry dfltTooclose g = .ok g)
    (hlab : mapE (env.recon textSettings) ((projectPsi4 m).elbl.map labelClue) = .ok (recNucs r))
    (hseps : (projectPsi4 m).seps.map (fun (k : Nat) => (k : Int)) = r.seps)
    (hfc : optMapM (optOpt (chargeOf rd)) (projectPsi4 m).fragChg = some (r.fc.map some))
    (hfm : optMapM (optOpt multOf) (projectPsi4 m).fragMult = some (r.fm.map some))
    (hc : optOpt (chargeOf rd) (projectPsi4 m).molChg = some (some r.c))
    (hmu : optOpt multOf (projectPsi4 m).molMult = some (some r.m)) :
    readMol env rd .psi4 (render (writePsi4 m)) =
      .mol { r with units := unitsOf (some m.bohr), iutau := none, name := none, comment := none, conn := none, geom := g,
                    fixCom := m.fixCom, fixOrient := m.fixOrient, fixSymm := none } :=
  read_write_validated_psi4_partial env rd i₀ r hfix m hok g hg hscreen hlab hseps hfc hfm (some r.c) (some r.m) hc hmu
    (stages_of_fix hfix).2.1

/-- **(a) psi4, one fragment** (`hcm` discharged by `vfc_single_totals_absent`): the record's single fragment carries the
molecule's charge and multiplicity (`hfc1 hfm1`: true of every single-fragment record the writers are given, since
`to_string` prints the molecular values).  PARTIAL only in `hlab`. -/
theorem read_write_validated_psi4_single_partial (env : Env) (rd : Rat → Rat) (i₀ : Inp) (r : Molrec)
    (hfix : fromArrays env (asInput i₀ r) = .ok r)
    (hone : r.seps = []) (hfc1 : r.fc = [r.c]) (hfm1 : r.fm = [r.m])
    (m : MolRec) (hok : RecOk m)
    (g : List Rat) (hg : optMapM (floatOf rd) (projectPsi4 m).geom = some g)
    (hscreen : validateGeometry dfltTooclose g = .ok g)
    (hlab : mapE (env.recon textSettings) ((projectPsi4 m).elbl.map labelClue) = .ok (recNucs r))
    (hseps : (projectPsi4 m).seps.map (fun (k : Nat) => (k : Int)) = r.seps)
    (hfc : optMapM (optOpt (chargeOf rd)) (projectPsi4 m).fragChg = some (r.fc.map some))
    (hfm : optMapM (optOpt multOf) (projectPsi4 m).fragMult = some (r.fm.map some))
    (hc : optOpt (chargeOf rd) (projectPsi4 m).molChg = some none)
    (hmu : optOpt multOf (projectPsi4 m).molMult = some none) :
    readMol env rd .psi4 (render (writePsi4 m)) =
      .mol { r with units := unitsOf (some m.bohr), iutau := none, name := none, comment := none, conn := none, geom := g,
                    fixCom := m.fixCom, fixOrient := m.fixOrient, fixSymm := none } := by
  apply read_write_validated_psi4_partial env rd i₀ r hfix m hok g hg hscreen hlab hseps hfc hfm none none hc hmu
  have hfull := chgmultStage_ok (stages_of_fix hfix).2.1
  rw [hone, hfc1, hfm1] at hfull ⊢
  simp only [List.map_cons, List.map_nil] at hfull ⊢
  obtain ⟨f, hf⟩ : ∃ f, npSplit (zeff r.elez r.real) [] = [f] :=
    ⟨pySlice (zeff r.elez r.real) 0 ((zeff r.elez r.real).length : Int), by simp [npSplit, splitAux]⟩
  rw [hf] at hfull
  unfold chgmultStage
  simp only [hf, vfc_single_totals_absent f r.c r.m _ hfull]

/-! ### xyz+ -/

theorem xyz_counts (as : List Atom) : (as.flatMap coords3).length = 3 * (as.map nucXyz).length := by
  induction as with
  | nil => rfl
  | cons a as ih => simp only [List.flatMap_cons, List.length_append, ih, coords3, List.length_cons, List.length_nil, List.map_cons]; omega

/-- **(a) xyz+, through validation — PARTIAL.**  The xyz+ text carries symbols, ghost markers, unit, coordinates and the
TOTAL charge and multiplicity only: no user labels, no fragments, no frame flags.  For a validated single-fragment record `r`
without user labels (`hlab` then speaks about `E` / `@E` tokens) whose text carries it (`hc hmu hg`), with the printed
coordinates passing the closeness screen in the text's unit, reading the written text returns `r` with the text's unit and
the printed coordinates and both frame flags off.
-- FULL: without `hlab` (as for psi4) and without `hcm`: `validate_and_fill_chgmult` with the totals given and the single
-- fragment's values absent returns `fc = [c]`, `fm = [m]` — a C05 statement (one fragment: candidates S3/S6) not proved here;
-- the correspondence (`RW` lines, xyz / xyz+ writer output read as xyz+) checks it on every generated molecule.
-- Both are now proved: `vfc_single_fragment_absent`, `read_write_validated_xyzplus` (Props/C07Full.lean). -/
theorem read_write_validated_xyzplus_partial (env : Env) (rd : Rat → Rat) (i₀ : Inp) (r : Molrec)
    (hfix : fromArrays env (asInput i₀ r) = .ok r)
    (natS : Str) (m : MolRec) (hok : XyzOk natS m) (hname : Clean m.name) (hne : allAtoms m ≠ [])
    (g : List Rat) (hg : optMapM (floatOf rd) (projectXyzPlus m).geom = some g)
    (hscreen : validateGeometry dfltTooclose g = .ok g)
    (hlab : mapE (env.recon textSettings) ((projectXyzPlus m).elbl.map labelClue) = .ok (recNucs r))
    (hseps : r.seps = [])
    (hc : chargeOf rd m.chg.parts = some r.c) (hmu : multOf m.mult = some r.m)
    (hcm : chgmultStage r.elez r.real ⟨[], [none], [none]⟩ (some r.c) (some r.m) false = .ok ⟨r.c, r.fc, r.m, r.fm⟩) :
    readMol env rd .xyzPlus (render (writeXyz natS m)) =
      .mol { r with units := unitsOf (some m.bohr), iutau := none, name := none, comment := none, conn := none, geom := g,
                    fixCom := false, fixOrient := false, fixSymm := none } := by
  rw [read_text_xyzplus env rd natS m hok hname]
  have hgl : g.length = 3 * (projectXyzPlus m).elbl.length := by
    rw [optMapM_length hg]; simp only [projectXyzPlus]; exact xyz_counts _
  have hl : (projectXyzPlus m).elbl.length = g.length / 3 := by omega
  have hel : (projectXyzPlus m).elbl ≠ [] := by
    simp only [projectXyzPlus]; intro h0; exact hne (List.map_eq_nil_iff.1 h0)
  have hgne : g ≠ [] := by
    intro h0; rw [h0] at hgl
    have : (projectXyzPlus m).elbl.length = 0 := by simp at hgl; omega
    exact hel (List.length_eq_zero_iff.1 this)
  have hpg : (projectXyzPlus m).geom ≠ [] := by
    intro h0; rw [h0] at hg; simp [optMapM] at hg; exact hgne hg
  have hti : toInp rd (projectXyzPlus m) = some (textInp (projectXyzPlus m) g (some r.c) (some r.m) [] []) := by
    unfold toInp
    have e1 : optOpt (chargeOf rd) (projectXyzPlus m).molChg = some (some r.c) := by simp [projectXyzPlus, optOpt, hc]
    have e2 : optOpt multOf (projectXyzPlus m).molMult = some (some r.m) := by simp [projectXyzPlus, optOpt, hmu]
    have e3 : optMapM (optOpt (chargeOf rd)) (projectXyzPlus m).fragChg = some [] := rfl
    have e4 : optMapM (optOpt multOf) (projectXyzPlus m).fragMult = some [] := rfl
    rw [hg, e1, e2, e3, e4]
  have hfr : validateFragments (g.length / 3) (textInp (projectXyzPlus m) g (some r.c) (some r.m) [] []).seps
      (textInp (projectXyzPlus m) g (some r.c) (some r.m) [] []).fc
      (textInp (projectXyzPlus m) g (some r.c) (some r.m) [] []).fm = .ok ⟨[], [none], [none]⟩ := rfl
  have hfa := fromArrays_textInp env i₀ r hfix (projectXyzPlus m) g (some r.c) (some r.m) [] [] rfl hgne hscreen hl
    hlab _ hfr hseps.symm hcm
  unfold validate
  have hie : (projectXyzPlus m).geom.isEmpty = false := by
    cases hgm : (projectXyzPlus m).geom with
    | nil => exact absurd hgm hpg
    | cons _ _ => rfl
  rw [hie, hti]
  simp only [Bool.false_eq_true, if_false, hfa]
  rfl

/-! ## non-vacuity (tests, labelled as tests): a two-fragment molecule with a labelled ghost atom, in bohr, `no_com` -/

section NonVacuity
open QcelVerif.Nucleus

local instance exDecide {ε α} [DecidableEq ε] [DecidableEq α] : DecidableEq (Except ε α) := fun a b =>
  match a, b with
  | .ok x, .ok y => if h : x = y then isTrue (h ▸ rfl) else isFalse (fun e => h (Except.ok.inj e))
  | .error x, .error y => if h : x = y then isTrue (h ▸ rfl) else isFalse (fun e => h (Except.error.inj e))
  | .ok _, .error _ => isFalse (fun e => by cases e)
  | .error _, .ok _ => isFalse (fun e => by cases e)

def z8 : Coord := ⟨false, "0".toList, "00000000".toList⟩
def exHe : Atom := { sym := "He".toList, real := true, lbl := [], x := z8, y := z8, z := z8 }
def exGh : Atom :=
  { sym := "He".toList, real := false, lbl := "_a".toList, x := z8, y := z8, z := ⟨false, "2".toList, "50000000".toList⟩ }
def exM : MolRec :=
  { chg := ⟨false, "0".toList⟩, mult := "1".toList,
    frags := [⟨⟨false, "0".toList⟩, "1".toList, [exHe]⟩, ⟨⟨false, "0".toList⟩, "1".toList, [exGh]⟩],
    bohr := true, fixCom := true, fixOrient := false, name := [] }
/-- the same two atoms as ONE fragment -/
def exM1 : MolRec := { exM with frags := [⟨⟨false, "0".toList⟩, "1".toList, [exHe, exGh]⟩] }

def heMass : Rat := 4506530630952951 / 1125899906842624
def exR : Molrec :=
  { units := sBohr, iutau := none, name := none, comment := none, conn := none, geom := [0, 0, 0, 0, 0, 5 / 2],
    elea := [4, 4], elez := [2, 2], elem := ["He", "He"], mass := [heMass, heMass], real := [true, false], elbl := ["", "_a"],
    seps := [1], c := 0, fc := [0, 0], m := 1, fm := [1, 1], fixCom := true, fixOrient := false, fixSymm := none }
def exR1 : Molrec := { exR with seps := [], fc := [0], fm := [1] }

theorem exCoordOk : CoordOk z8 ∧ CoordOk exGh.z :=
  ⟨⟨⟨by decide, by decide⟩, ⟨by decide, by decide⟩⟩, ⟨⟨by decide, by decide⟩, ⟨by decide, by decide⟩⟩⟩
theorem exHe_ok : AtomOk exHe := ⟨⟨by decide, by decide, by decide⟩, Or.inl rfl, exCoordOk.1, exCoordOk.1, exCoordOk.1⟩
theorem exGh_ok : AtomOk exGh :=
  ⟨⟨by decide, by decide, by decide⟩, Or.inr (Or.inl ⟨"a".toList, rfl, by decide, by decide⟩), exCoordOk.1, exCoordOk.1, exCoordOk.2⟩

theorem exM_ok : RecOk exM := by
  refine ⟨⟨by decide, by decide⟩, ⟨by decide, by decide⟩, by decide, ?_⟩
  intro f hf
  simp only [exM, List.mem_cons, List.not_mem_nil, or_false] at hf
  rcases hf with rfl | rfl
  · refine ⟨⟨by decide, by decide⟩, ⟨by decide, by decide⟩, by decide, ?_⟩
    intro a ha; simp only [List.mem_cons, List.not_mem_nil, or_false] at ha; subst ha; exact exHe_ok
  · refine ⟨⟨by decide, by decide⟩, ⟨by decide, by decide⟩, by decide, ?_⟩
    intro a ha; simp only [List.mem_cons, List.not_mem_nil, or_false] at ha; subst ha; exact exGh_ok

theorem exM1_ok : RecOk exM1 := by
  refine ⟨⟨by decide, by decide⟩, ⟨by decide, by decide⟩, by decide, ?_⟩
  intro f hf
  simp only [exM1, List.mem_cons, List.not_mem_nil, or_false] at hf
  subst hf
  refine ⟨⟨by decide, by decide⟩, ⟨by decide, by decide⟩, by decide, ?_⟩
  intro a ha; simp only [List.mem_cons, List.not_mem_nil, or_false] at ha
  rcases ha with rfl | rfl
  · exact exHe_ok
  · exact exGh_ok

set_option maxRecDepth 100000

/-- test [decide +kernel]: `exR` / `exR1` are fixed points of the whole `from_arrays` pipeline (C06 model, shipped table, `rd64`) -/
theorem exR_fix : fromArrays (envC06 rd64 1) (asInput hdoInp exR) = .ok exR := by decide +kernel
theorem exR1_fix : fromArrays (envC06 rd64 1) (asInput hdoInp exR1) = .ok exR1 := by decide +kernel

/-- test [decide +kernel]: each written token ALONE (`He`, `Gh(He_a)`) is answered with the record's atom (`hlab`) -/
theorem exR_lab : mapE ((envC06 rd64 1).recon textSettings) ((projectPsi4 exM).elbl.map labelClue) = .ok (recNucs exR) := by
  decide +kernel

/-- test: every hypothesis of `read_write_validated_psi4_multi_partial` is met by a two-fragment molecule with a labelled
ghost atom; its conclusion by the theorem, not by evaluation -/
example : readMol (envC06 rd64 1) rd64 .psi4 (render (writePsi4 exM)) =
    .mol { exR with units := unitsOf (some true), iutau := none, name := none, comment := none, conn := none,
                    geom := [0, 0, 0, 0, 0, 5 / 2], fixCom := true, fixOrient := false, fixSymm := none } :=
  read_write_validated_psi4_multi_partial (envC06 rd64 1) rd64 hdoInp exR exR_fix exM exM_ok [0, 0, 0, 0, 0, 5 / 2]
    (by decide +kernel) (by decide +kernel) exR_lab (by decide +kernel) (by decide +kernel) (by decide +kernel)
    (by decide +kernel) (by decide +kernel)

/-- test: … and of `read_write_validated_psi4_single_partial` by the same atoms as one fragment -/
example : readMol (envC06 rd64 1) rd64 .psi4 (render (writePsi4 exM1)) =
    .mol { exR1 with units := unitsOf (some true), iutau := none, name := none, comment := none, conn := none,
                     geom := [0, 0, 0, 0, 0, 5 / 2], fixCom := true, fixOrient := false, fixSymm := none } :=
  read_write_validated_psi4_single_partial (envC06 rd64 1) rd64 hdoInp exR1 exR1_fix rfl rfl rfl exM1 exM1_ok
    [0, 0, 0, 0, 0, 5 / 2] (by decide +kernel) (by decide +kernel) exR_lab (by decide +kernel) (by decide +kernel)
    (by decide +kernel) (by decide +kernel) (by decide +kernel)

/-- test [decide +kernel]: the composed reader on concrete texts - a refusal of each documented class and the empty record -/
example : readMol (envC06 rd64 1) rd64 .psi4 "He 0 0 0\nHe 0 0 0.05".toList = .error .validation := by decide +kernel
example : readMol (envC06 rd64 1) rd64 .psi4 "Xx 0 0 0".toList = .error .notAnElement := by decide +kernel
example : readMol (envC06 rd64 1) rd64 .psi4 "He 0 0".toList = .error .moleculeFormat := by decide +kernel
example : readMol (envC06 rd64 1) rd64 .psi4 "units bohr".toList = .noAtoms := by decide +kernel
example : readMol (envC06 rd64 1) rd64 .psi4 "0.5 2\nHe 0 0 0".toList = .outOfScope := by decide +kernel

end NonVacuity

end QcelVerif.TextToMol
