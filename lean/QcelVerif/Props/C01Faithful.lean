import QcelVerif.Model.PeriodicTableBuild
import QcelVerif.Gen.PT
import QcelVerif.Gen.Srd144
/-! C01 table-wide theorem (kernel evaluation over the generated tables); split out so that lake builds them in parallel. -/
namespace QcelVerif.PT
open QcelVerif QcelVerif.PStr
set_option maxRecDepth 100000

/-- **The shipped table is exactly NIST SRD-144 under the documented build rule**: element rows,
nuclide rows in order, D/T under both spellings, masses digit for digit, and each bare element row
equal to its most abundant — or, if unstable, longest-lived — isotope. -/
theorem shipped_faithful :
    PTBuild.rebuild Gen.Srd144.data Gen.Srd144.elementNames Gen.Srd144.longestLived
        Gen.Srd144.aliases Gen.Srd144.newnames
      = some (Gen.PT.elements, Gen.PT.nuclides) := by decide +kernel


end QcelVerif.PT
