import QcelVerif.Lemmas.Formula
/-!
# C15 (formula part) — property theorems about `Model/Formula.lean`

The theorems of THIS file are about the (element, count) token list `tokens`.  The string
rendering and the regex-based re-parsing in `order_molecular_formula` are proved, on the same
executable model, in `Props/C15FormulaStr.lean` (parse ∘ render, idempotence and conversion at
string level) and `Props/C15Symbols.lean` (every periodic-table symbol is well formed).
`le` is the key order (`strLe` = code-point order in the driver); only the stated order axioms
are used.
-/
namespace QcelVerif.Formula
variable {κ : Type} [DecidableEq κ]

theorem keys_tokens (le : κ → κ → Bool) (C H : κ) (ord : Order) (syms : List κ) :
    (tokens le C H ord syms).map Prod.fst = elementOrder le C H ord syms := by
  simp [tokens, List.map_map, Function.comp_def]

/-- **Counts.** The formula lists every distinct symbol exactly once, nothing else, each with
its number of occurrences (which is positive). -/
theorem formula_counts (le : κ → κ → Bool) (C H : κ) (ord : Order) (syms : List κ) :
    ((tokens le C H ord syms).map Prod.fst).Nodup ∧
    (∀ k, k ∈ (tokens le C H ord syms).map Prod.fst ↔ k ∈ syms) ∧
    (∀ t ∈ tokens le C H ord syms, t.2 = syms.count t.1 ∧ 0 < t.2) := by
  have hp := elementOrder_perm le C H ord syms
  refine ⟨?_, ?_, ?_⟩
  · rw [keys_tokens]; exact hp.nodup_iff.2 (nodup_dedupKeys syms)
  · intro k; rw [keys_tokens, hp.mem_iff, mem_dedupKeys]
  · intro t ht
    simp only [tokens, List.mem_map] at ht
    obtain ⟨k, hk, rfl⟩ := ht
    refine ⟨rfl, ?_⟩
    have : k ∈ syms := (mem_dedupKeys syms k).1 (hp.mem_iff.1 hk)
    exact List.count_pos_iff.2 this

/-- **Alphabetical order.** -/
theorem formula_alphabetical_sorted (le : κ → κ → Bool) (C H : κ) (syms : List κ)
    (htrans : ∀ a b c, le a b = true → le b c = true → le a c = true)
    (htotal : ∀ a b, (le a b || le b a) = true) :
    ((tokens le C H .alphabetical syms).map Prod.fst).Pairwise (fun a b => le a b = true) := by
  rw [keys_tokens]
  exact List.pairwise_mergeSort htrans htotal _

/-- **Hill order.** Without carbon: alphabetical.  With carbon: `C`, then `H` if present, then
all other elements in alphabetical order. -/
theorem formula_hill (le : κ → κ → Bool) (C H : κ) (syms : List κ) (hCH : H ≠ C)
    (htrans : ∀ a b c, le a b = true → le b c = true → le a c = true)
    (htotal : ∀ a b, (le a b || le b a) = true) :
    (C ∉ syms → (tokens le C H .hill syms).map Prod.fst = (tokens le C H .alphabetical syms).map Prod.fst) ∧
    (C ∈ syms →
      (tokens le C H .hill syms).map Prod.fst =
        C :: ((if H ∈ syms then [H] else []) ++
          ((tokens le C H .alphabetical syms).map Prod.fst).filter (fun k => k != H && k != C)) ∧
      (((tokens le C H .alphabetical syms).map Prod.fst).filter (fun k => k != H && k != C)).Pairwise
        (fun a b => le a b = true)) := by
  simp only [keys_tokens, elementOrder]
  have hmem : ∀ k, k ∈ sortedKeys le syms ↔ k ∈ syms := fun k => by
    rw [(sortedKeys_perm le syms).mem_iff, mem_dedupKeys]
  have hnd : (sortedKeys le syms).Nodup := (sortedKeys_perm le syms).nodup_iff.2 (nodup_dedupKeys syms)
  constructor
  · intro hC
    have : C ∉ sortedKeys le syms := fun h => hC ((hmem C).1 h)
    simp [hillOrder, this]
  · intro hC
    have hC' : C ∈ sortedKeys le syms := (hmem C).2 hC
    refine ⟨?_, (List.pairwise_mergeSort htrans htotal _).filter _⟩
    by_cases hH : H ∈ syms
    · have hH' : H ∈ sortedKeys le syms := (hmem H).2 hH
      simp only [hillOrder, hC', hH', hH, ↓reduceIte, List.cons_append, List.nil_append]
      rw [List.erase_cons_tail (by simpa using hCH)]
      rw [hnd.erase_eq_filter, (hnd.filter _).erase_eq_filter, List.filter_filter]
      congr 2
      apply List.filter_congr
      intro x _
      exact Bool.and_comm _ _
    · have hH' : H ∉ sortedKeys le syms := fun h => hH ((hmem H).1 h)
      simp only [hillOrder, hC', hH', hH, ↓reduceIte, List.nil_append]
      rw [hnd.erase_eq_filter]
      congr 1
      apply List.filter_congr
      intro x hx
      have : x ≠ H := fun e => hH' (e ▸ hx)
      simp [this]

/-! ### idempotence of re-ordering (token level) -/

theorem dedupKeys_replicate_append (k : κ) (l : List κ) : ∀ n : Nat,
    dedupKeys (List.replicate (n + 1) k ++ l) = k :: (dedupKeys l).filter (· != k)
  | 0 => by simp [dedupKeys]
  | n + 1 => by
      have ih := dedupKeys_replicate_append k l n
      rw [List.replicate_succ, List.cons_append, dedupKeys, ih]
      simp [List.filter_filter]

theorem dedupKeys_expand : ∀ (T : List (κ × Nat)), (T.map Prod.fst).Nodup → (∀ t ∈ T, 0 < t.2) →
    dedupKeys (expand T) = T.map Prod.fst
  | [], _, _ => by simp [expand, dedupKeys]
  | (k, n) :: T, hnd, hpos => by
      have hn : 0 < n := hpos (k, n) (List.mem_cons_self ..)
      obtain ⟨n', rfl⟩ : ∃ n', n = n' + 1 := ⟨n - 1, by omega⟩
      simp only [List.map_cons, List.nodup_cons] at hnd
      have ih := dedupKeys_expand T hnd.2 (fun t ht => hpos t (List.mem_cons_of_mem _ ht))
      have : expand ((k, n' + 1) :: T) = List.replicate (n' + 1) k ++ expand T := by
        simp [expand]
      rw [this, dedupKeys_replicate_append, ih, List.map_cons]
      congr 1
      apply List.filter_eq_self.2
      intro a ha
      have : a ≠ k := fun e => hnd.1 (e ▸ ha)
      simpa using this

theorem count_expand (k : κ) : ∀ (T : List (κ × Nat)), (T.map Prod.fst).Nodup →
    ∀ n, (k, n) ∈ T → (expand T).count k = n
  | [], _, _, h => by simp at h
  | (k', n') :: T, hnd, n, h => by
      simp only [List.map_cons, List.nodup_cons] at hnd
      have e : expand ((k', n') :: T) = List.replicate n' k' ++ expand T := by simp [expand]
      rw [e, List.count_append]
      rcases List.mem_cons.1 h with h | h
      · cases h
        have : (expand T).count k = 0 := by
          apply List.count_eq_zero.2
          intro hk
          simp only [expand, List.mem_flatMap, List.mem_replicate] at hk
          obtain ⟨t, ht, _, rfl⟩ := hk
          exact hnd.1 (List.mem_map.2 ⟨t, ht, rfl⟩)
        simp [this]
      · have hk : k ≠ k' := fun e => hnd.1 (e ▸ List.mem_map.2 ⟨(k, n), h, rfl⟩)
        have ih := count_expand k T hnd.2 n h
        rw [ih, List.count_replicate]
        simp [Ne.symm hk]

/-- **Re-ordering is idempotent** (token level): expanding a formula's tokens back into a symbol
list and ordering again (same convention) reproduces the tokens. -/
theorem order_idempotent_tokens (le : κ → κ → Bool) (C H : κ) (ord : Order) (syms : List κ)
    (htrans : ∀ a b c, le a b = true → le b c = true → le a c = true)
    (htotal : ∀ a b, (le a b || le b a) = true)
    (hanti : ∀ a b, le a b = true → le b a = true → a = b) :
    tokens le C H ord (expand (tokens le C H ord syms)) = tokens le C H ord syms := by
  obtain ⟨hnd, _, hcnt⟩ := formula_counts le C H ord syms
  have hd : dedupKeys (expand (tokens le C H ord syms)) = elementOrder le C H ord syms := by
    rw [dedupKeys_expand _ hnd (fun t ht => (hcnt t ht).2), keys_tokens]
  -- sorting the keys again gives the sorted keys of the original list
  have hs : sortedKeys le (expand (tokens le C H ord syms)) = sortedKeys le syms := by
    unfold sortedKeys
    rw [hd]
    apply List.Perm.eq_of_pairwise (le := fun a b => le a b = true)
    · intro a b _ _ h1 h2; exact hanti a b h1 h2
    · exact List.pairwise_mergeSort htrans htotal _
    · exact List.pairwise_mergeSort htrans htotal _
    · exact (List.mergeSort_perm _ _).trans
        ((elementOrder_perm le C H ord syms).trans (List.mergeSort_perm _ _).symm)
  have ho : elementOrder le C H ord (expand (tokens le C H ord syms)) = elementOrder le C H ord syms := by
    cases ord <;> simp only [elementOrder, hs]
  unfold tokens at *
  rw [ho]
  apply List.map_congr_left
  intro k hk
  have : (k, syms.count k) ∈ (elementOrder le C H ord syms).map (fun k => (k, syms.count k)) :=
    List.mem_map.2 ⟨k, hk, rfl⟩
  rw [count_expand k _ hnd _ this]

/-! ### non-vacuity / tests (labelled as tests) -/

-- the order hypotheses are satisfiable (Nat with ≤), and concrete formulas (tests, evaluated)
#guard tokens (fun a b : Nat => decide (a ≤ b)) 6 1 .hill [8, 1, 6, 1, 17, 6, 1] ==
    [(6, 2), (1, 3), (8, 1), (17, 1)]
#guard tokens (fun a b : Nat => decide (a ≤ b)) 6 1 .alphabetical [8, 1, 6, 1, 17, 6, 1] ==
    [(1, 3), (6, 2), (8, 1), (17, 1)]
#guard fromSymbols ["h", "C", "cl", "H", "O", "he"] .hill == "CH2ClHeO"
#guard orderFormula "H4CCl2O" .hill == some "CH4Cl2O"
example : (∀ a b c : Nat, decide (a ≤ b) = true → decide (b ≤ c) = true → decide (a ≤ c) = true) ∧
    (∀ a b : Nat, (decide (a ≤ b) || decide (b ≤ a)) = true) ∧
    (∀ a b : Nat, decide (a ≤ b) = true → decide (b ≤ a) = true → a = b) := by
  refine ⟨?_, ?_, ?_⟩ <;> intros <;> simp at * <;> omega

end QcelVerif.Formula
