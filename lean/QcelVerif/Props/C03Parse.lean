import QcelVerif.Props.C03Text
import QcelVerif.Lemmas.UnitBuild
/-!
# C03 — the front-end round trip on the texts the harness renders (`Model/UnitRender.lean`)

`RExpr.render` is the renderer of harness/c03.py (`build_dtree` draws the random choices, `render_d` writes the text; the driver op
`rend|…` prints `RExpr.renderTop` of the same decorated expression and the harness compares the two byte for byte on every text it
sends).  Property theorems (manifest — the harness audits `#print axioms` of each):

* `tokenize_render` — the tokenizer (after `^` → `**`) reads the text of every well-formed decorated expression, with any number of
  blanks around it, as exactly the tokens of its pieces.
* `parse_tokens` — the tree builder (`_build_eval_tree`, with the step budget `parseTree` gives it) turns those tokens into exactly
  `treeOf e`: `*` `/` and juxtaposition left-associative, `**` with its written exponent, parentheses as written.
* `parseText_render`, `parseImpl_render` — `parse_expression` on the text is `denote` of the decorated expression (names through the
  resolver, errors in evaluation order), in the SI reading and in pint's `_eval_implicit_mul` reading alike.
* `render_roundtrip` — **parse (render e) = ok (erase e)**: when moreover every name is a listed spelling (not one of the eight
  collisions) of the unit it was written for, the text reads back as exactly the AST the generator wrote down.  The normal form is the
  identity: `normal e := erase e` is the generator's own AST, so `mag`/`dim` are preserved trivially (`normal_mag_dim`).
* `conv_text_render` — `conversion_factor(render a, render b)` (SI reading) is `conv (erase a) (erase b)`; so `conv_self/swap/chain/
  prefactor/dim_mismatch` of `Props/C03.lean` hold verbatim for the rendered texts.
* `convImpl_text_render` — and the code model on the rendered texts returns the same ratio whenever the dimensions agree.

Well-formedness (`RExpr.WF`, `RExpr.Listed`) is decidable and is evaluated by the driver on every generated text.
-/
namespace QcelVerif.Units.Text
open QcelVerif.PStr (Bytes)
open RExpr

/-- the tokenizer on a rendered text: exactly the tokens of its pieces -/
theorem tokenize_render (pre post : Nat) (e : RExpr) (hw : WF e = true) :
    lex (caret (renderTop pre post e)) = .ok (tokensOf e) := (lex_renderTop pre post e hw).1

/-- the tree builder on those tokens: exactly the tree the renderer had in mind -/
theorem parse_tokens (e : RExpr) (hw : WF e = true) :
    build (4 * (tokensOf e).length + 4) .top none (tokensOf e) = .ok (treeOf e, []) := build_tokensOf e hw

theorem parseTree_render (pre post : Nat) (e : RExpr) (hw : WF e = true) : parseTree (renderTop pre post e) = .ok (treeOf e) := by
  obtain ⟨h1, h2⟩ := lex_renderTop pre post e hw
  unfold parseTree
  simp only [h2, Bool.not_true, Bool.false_eq_true, if_false, h1, parenOK_tokensOf e, parse_tokens e hw]

theorem renderTop_ne_nil (pre post : Nat) (e : RExpr) (hw : WF e = true) : (renderTop pre post e).isEmpty = false := by
  cases h : renderTop pre post e with
  | cons _ _ => rfl
  | nil =>
    have h1 := tokenize_render pre post e hw
    rw [h] at h1
    have : tokensOf e = [] := by
      have h0 : lex (caret []) = .ok [] := rfl
      rw [h0] at h1; exact (Except.ok.inj h1).symm
    have hb := tot_bound e
    rw [this] at hb
    simp at hb

/-- `parse_expression` on a rendered text, SI reading: what the decorated expression denotes (names through the resolver) -/
theorem parseText_render (reg : NameReg) (pre post : Nat) (e : RExpr) (hw : WF e = true) :
    parseText reg (renderTop pre post e) = denote (resolveUnit reg) e := by
  unfold parseText parseWith
  simp only [renderTop_ne_nil pre post e hw, Bool.false_eq_true, if_false, parseTree_render pre post e hw,
    evalTree_treeOf _ e hw]

/-- … and as pint computes it (`_eval_implicit_mul`): the same, because the renderer juxtaposes only bare (powers of) unit names -/
theorem parseImpl_render (reg : NameReg) (pre post : Nat) (e : RExpr) (hw : WF e = true) :
    parseImpl reg (renderTop pre post e) = denote (resolveUnit reg) e := by
  unfold parseImpl parseWith
  simp only [renderTop_ne_nil pre post e hw, Bool.false_eq_true, if_false, parseTree_render pre post e hw,
    evalTree_impl_treeOf _ e hw]

theorem mem_allBases : ∀ x : Base, x ∈ allBases
  | .au u => by cases u <;> decide
  | .meter => by decide | .angstrom => by decide | .angstromCap => by decide | .bohr => by decide | .inch => by decide
  | .foot => by decide | .yard => by decide | .mile => by decide | .gram => by decide | .amu => by decide | .emass => by decide
  | .second => by decide | .minute => by decide | .hour => by decide | .ampere => by decide | .kelvin => by decide
  | .rankine => by decide | .mole => by decide | .coulomb => by decide | .echarge => by decide | .statC => by decide
  | .joule => by decide | .calorie => by decide | .eV => by decide | .hartree => by decide | .erg => by decide
  | .hertz => by decide | .wavenumber => by decide | .debye => by decide | .newton => by decide | .dyne => by decide
  | .pascal => by decide | .bar => by decide | .atm => by decide | .torr => by decide | .volt => by decide | .tesla => by decide
  | .farad => by decide | .watt => by decide | .auPressure => by decide

/-- with listed spellings every name reads back as the unit it was written for: the text denotes the generator's AST -/
theorem denote_listed (e : RExpr) (hw : WF e = true) (hl : Listed e = true) :
    denote (resolveUnit Gen.nameReg) e = .ok (erase e) := by
  induction e with
  | num l => rfl
  | unit p x n =>
    simp only [Listed, Bool.and_eq_true, List.any_eq_true, decide_eq_true_eq, Bool.not_eq_true'] at hl
    obtain ⟨⟨s, hs, rfl⟩, hc⟩ := hl
    have hmem : (⟨p, x, n⟩ : Spelling) ∈ allSpellings := List.mem_flatMap.mpr ⟨x, mem_allBases x, hs⟩
    have := spellings_resolve ⟨p, x, n⟩ hmem hc
    simp only at this
    simp only [denote, this, erase]
  | paren e ih => exact ih hw hl
  | bin dv sp a b iha ihb =>
    simp only [WF, Bool.and_eq_true] at hw
    simp only [Listed, Bool.and_eq_true] at hl
    simp only [denote, iha hw.1.1 hl.1, ihb hw.1.2 hl.2, erase]
  | juxt bl a b iha ihb =>
    simp only [WF, Bool.and_eq_true] at hw
    simp only [Listed, Bool.and_eq_true] at hl
    simp only [denote, iha hw.1.1.1 hl.1, ihb hw.1.1.2 hl.2, erase]
  | pow a crt l r x iha =>
    simp only [WF, Bool.and_eq_true, decide_eq_true_eq] at hw
    simp only [Listed] at hl
    simp only [denote, iha hw.1.1.1 hl, erase, hw.2, if_false]

/-- the normal form the tree builder produces for a rendered text is the generator's AST itself -/
def normal (e : RExpr) : Expr := erase e

theorem normal_mag_dim (cd : Codata) (e : RExpr) : mag cd (normal e) = mag cd (erase e) ∧ dim (normal e) = dim (erase e) := ⟨rfl, rfl⟩

/-- **parse (render e) = ok e**: a rendered text (any blanks around it) reads back as exactly the AST it was rendered from -/
theorem render_roundtrip (pre post : Nat) (e : RExpr) (hw : WF e = true) (hl : Listed e = true) :
    parseText Gen.nameReg (renderTop pre post e) = .ok (normal e) ∧ parseImpl Gen.nameReg (renderTop pre post e) = .ok (normal e) :=
  ⟨by rw [parseText_render _ _ _ _ hw, denote_listed e hw hl]; rfl, by rw [parseImpl_render _ _ _ _ hw, denote_listed e hw hl]; rfl⟩

/-- **`conversion_factor` on two rendered texts is `conv` of the two ASTs** (SI reading) — so every group law of `Props/C03.lean`
    holds verbatim for the texts the harness sends -/
theorem conv_text_render (cd : Codata) (pa qa pb qb : Nat) (a b : RExpr) (hwa : WF a = true) (hla : Listed a = true)
    (hwb : WF b = true) (hlb : Listed b = true) :
    convText Gen.nameReg cd (renderTop pa qa a) (renderTop pb qb b) =
      (match conv cd (erase a) (erase b) with | .ok x => .ok x | .error e => .error (.conv e)) := by
  unfold convText
  exact convArgs_str (render_roundtrip pa qa a hwa hla).1 (render_roundtrip pb qb b hwb hlb).1

/-- the code model on two rendered texts of equal dimension returns the SI ratio -/
theorem convImpl_text_render {cd : Codata} (hp : cd.Pos) (pa qa pb qb : Nat) (a b : RExpr) (hwa : WF a = true) (hla : Listed a = true)
    (hwb : WF b = true) (hlb : Listed b = true) (hd : dim (erase a) = dim (erase b)) :
    convImplText Gen.nameReg cd (renderTop pa qa a) (renderTop pb qb b) = .ok (mag cd (erase a) / mag cd (erase b)) := by
  have ha := render_roundtrip pa qa a hwa hla
  have hb := render_roundtrip pb qb b hwb hlb
  rw [convImpl_text_same_dim Gen.nameReg hp _ _ _ _ ha.1 hb.1 ha.2 hb.2 hd, conv_text_render cd pa qa pb qb a b hwa hla hwb hlb]
  simp [conv, hd]

/-! ## non-vacuity (concrete, kernel-evaluated TESTS) -/

/-- `2.5e-1 kcal/(mol * angstroms^ (- 2))`: prefactor in scientific notation, blank juxtaposition, a parenthesised product, `^` with a blank, a negative exponent
    written `(- 2)`, a plural -/
def ex1 : RExpr :=
  (.bin true false (.juxt true (.num ⟨[50], [53], true, true, false, 2, [49]⟩) (.unit 3 .calorie [107,99,97,108]))
    (.paren (.bin false true (.unit 0 .mole [109,111,108]) (.pow (.unit 0 .angstrom [97,110,103,115,116,114,111,109,115]) true false true ⟨true, 2, true, [50]⟩))))

/-- `((10meV*(s) ** +3))**-1`: nested parentheses, direct juxtaposition of a number and a prefixed symbol, `(s)`, `+3`, an outer negative power -/
def ex2 : RExpr :=
  (.pow (.paren (.paren (.bin false false (.juxt false (.num ⟨[49,48], [], false, false, false, 0, []⟩) (.unit (-3) .eV [109,101,86])) (.pow (.paren (.unit 0 .second [115])) false true true ⟨false, 1, false, [51]⟩)))) false false false ⟨false, 2, false, [49]⟩)

-- TEST: the hypotheses of the theorems above are satisfiable by non-trivial expressions
example : WF ex1 = true ∧ Listed ex1 = true ∧ WF ex2 = true ∧ Listed ex2 = true := by decide +kernel
-- TEST: the renderer writes the texts quoted above (two blanks in front of / one after the second)
example : renderTop 0 0 ex1 = [50,46,53,101,45,49,32,107,99,97,108,47,40,109,111,108,32,42,32,97,110,103,115,116,114,111,109,115,94,32,40,45,32,50,41,41] := by decide +kernel
example : renderTop 2 1 ex2 = [32,32,40,40,49,48,109,101,86,42,40,115,41,32,42,42,32,43,51,41,41,42,42,45,49,32] := by decide +kernel
-- TEST: the ASTs they read back as
example : (match normal ex1 with
    | .div (.mul (.num q) (.unit p1 .calorie)) (.mul (.unit p2 .mole) (.pow (.unit p3 .angstrom) n)) =>
      decide (q = 1 / 4) && decide (p1 = 3) && decide (p2 = 0) && decide (p3 = 0) && decide (n = -2)
    | _ => false) = true := by decide +kernel
-- TEST: the whole pipeline evaluated on the same text agrees with the theorem (kcal/(mol Å²) against itself)
example : isOk (convText Gen.nameReg Gen.codata2014 (renderTop 0 0 ex1) (renderTop 1 0 ex1)) 1 = true := by decide +kernel

end QcelVerif.Units.Text
