import QcelVerif.Props.C08
/-!
# C08 — the clauses of the property, stated about the OUTPUT of `render`

`Props/C08.lean` proves the clauses about the pieces `render` is assembled from (`atomsFormatter`, `header`, `footer`,
`keywordsOf`, the abstract decision table `outcome`).  Here they are composed into statements about the value
`render o m = .ok r` itself — the text lines `r.lines` and the dictionary `r.keywords` the driver compares with the
implementation's answer on every generated case:

  * `rendered_atoms` / `rendered_atoms_sdf`: read back by the format's layout, the text lists each shown atom once, in
    the molecule's order, under the label the branch's formats give it, with that atom's own coordinate texts;
  * `rendered_chgmult`: the total charge and multiplicity sit at the stated line / keyword of `r`, with the molecule's values;
  * `render_shows_unit`: where the unit word sits in `r` (text line or keyword), per program;
  * `rendered_unit_is_used`: if the word `r` shows is read by the target program as unit `u`, then the coordinates the
    driver has checked are the correctly rounded prints of doubles within 2⁻⁵³ of `x · f`, `f` the value of the factor
    that converts the stored unit into `u` — the property's last sentence, end to end.

Core Lean only.

PROPERTY-THEOREMS: rendered_atoms rendered_atoms_sdf rendered_chgmult render_shows_unit rendered_unit_is_used
-/
namespace QcelVerif.ToString
open QcelVerif.FixedFmt

/-! ## list positions -/

theorem getElem?_hdr {α} {H B F : List α} {i : Nat} (hi : i < H.length) : (H ++ B ++ F)[i]? = H[i]? := by
  rw [List.append_assoc, List.getElem?_append_left hi]

theorem getElem?_rev_ftr {α} {H B F : List α} {i : Nat} (hi : i < F.length) : (H ++ B ++ F).reverse[i]? = F.reverse[i]? := by
  rw [List.reverse_append, List.getElem?_append_left (by simpa using hi)]

theorem getElem?_ftr {α} {H B F : List α} (i : Nat) : (H ++ B ++ F)[(H ++ B).length + i]? = F[i]? := by
  rw [List.getElem?_append_right (by omega)]
  congr 1
  omega

/-! ## atoms, once and in order -/

/-- an atom line with three coordinates contains a blank (both column orders), so it is never `--` -/
theorem atomLine_ne_dashes' (w : Nat) (x : Bool) (nuc : Str) (xyz : List Str) (h : xyz.length = 3) :
    atomLine w x nuc xyz ≠ lit "--" := by
  match xyz, h with
  | [a, b, c], _ =>
    intro he
    have hm : ' ' ∈ atomLine w x nuc [a, b, c] := by cases x <;> simp [atomLine, joinWith, sp2]
    rw [he] at hm
    exact absurd hm (by decide)

/-- **atoms once, in order, on the rendered text** (every program that formats through `_atoms_formatter`; any
molecule): skipping the format's header lines, ignoring its footer lines and dropping the fragment headers leaves
exactly one line per shown atom (real, or ghost under a non-empty ghost format), in the molecule's order, each made of
the label the branch's formats give that atom and that atom's own three coordinate texts (lower-cased by turbomole). -/
theorem rendered_atoms {o : Opts} {m : Mol} {r : Out} (h : render o m = .ok r) (hd : o.dtype ≠ .sdf)
    (h3 : ∀ a ∈ m.atoms, a.xyz.length = 3) (hasc : Ascending 0 m.seps) :
    unfrag o.dtype (readBlock (hdrLen o.dtype m) (ftrLen o.dtype m) r.lines) =
      blockOf o.dtype ((m.atoms.filter (shown (formats o).2.1)).map
        (fun a => atomLine o.width (formats o).2.2 (labelOf (formats o).1 (formats o).2.1 a) a.xyz)) := by
  obtain ⟨atoms, body, uw, ha, _, _, _⟩ := render_ok h
  have hf : atomsFormatter (formats o).1 (formats o).2.1 o.width (formats o).2.2 m.atoms = .ok atoms := by
    unfold atomBlock at ha
    cases hdt : o.dtype <;> simp only [hdt] at ha hd <;> first | exact ha | exact absurd rfl hd
  have e := (formatter_lists_shown_atoms _ _ _ _ m.atoms atoms hf).1
  have hsep : ∀ l ∈ atoms, l ≠ lit "--" := by
    intro l hl
    rw [e] at hl
    obtain ⟨a, ha', rfl⟩ := List.mem_map.1 hl
    exact atomLine_ne_dashes' _ _ _ _ (h3 a (List.mem_filter.1 ha').1)
  rw [extract_atomLines h ha hsep hasc, e]

/-- … and for nglview-sdf, which formats its own lines: one line per atom (ghosts included, under the ghost word) -/
theorem rendered_atoms_sdf {o : Opts} {m : Mol} {r : Out} (h : render o m = .ok r) (hd : o.dtype = .sdf) :
    readBlock 3 m.bonds.length r.lines = m.atoms.map (sdfAtomLine (formats o).2.1) := by
  obtain ⟨atoms, body, uw, ha, hb, _, hr⟩ := render_ok h
  subst hr
  simp only [hd, atomBlock, bodyOf, Except.ok.injEq] at ha hb ⊢
  subst hb
  have := readBlock_append (header .sdf m uw atoms.length) atoms (footer .sdf m uw)
  simp only [header_length, footer_length, hdrLen, ftrLen] at this
  rw [this, ← ha]

/-- non-vacuity (test): the hypotheses of `rendered_atoms` hold of the two-fragment psi4 example -/
example : ∃ r, render exOpts exMol = .ok r ∧ exOpts.dtype ≠ .sdf ∧ (∀ a ∈ exMol.atoms, a.xyz.length = 3) ∧ Ascending 0 exMol.seps := by
  refine ⟨_, rfl, by decide, by decide, by simp [Ascending, exMol]⟩

/-! ## charge and multiplicity, on the rendered output -/

/-- **the total charge and multiplicity in `r`** (every program with a slot, every molecule): text slots are lines of
`r.lines` at fixed positions from the top (xyz, xyz+, orca, psi4, qchem, mrchem) or from the bottom (molpro), keyword
slots are entries of `r.keywords` (cfour, gamess, nwchem, madness, mrchem) — each with the molecule's value. -/
theorem rendered_chgmult {o : Opts} {m : Mol} {r : Out} (h : render o m = .ok r) :
    ((o.dtype = .xyz ∨ o.dtype = .xyzp) → r.lines[1]?.map readTwo = some (m.charge, m.mult)) ∧
    (o.dtype = .orca → r.lines[2]? = some (lit "*xyz " ++ chgMultLine m.charge m.mult)) ∧
    (o.dtype = .psi4 → r.lines[0]?.map readTwo = some (m.charge, m.mult)) ∧
    (o.dtype = .qchem → r.lines[1]?.map readTwo = some (m.charge, m.mult)) ∧
    (o.dtype = .mrchem →
      r.lines[1]? = some (lit "charge = " ++ intStr m.charge) ∧ r.lines[2]? = some (lit "multiplicity = " ++ intStr m.mult) ∧
      kwGet (lit "charge") r.keywords = some (.int m.charge) ∧ kwGet (lit "multiplicity") r.keywords = some (.int m.mult)) ∧
    (o.dtype = .molpro →
      r.lines.reverse[1]? = some (lit "set,charge=" ++ intStr m.charge ++ lit ".0") ∧
      r.lines.reverse[0]? = some (lit "set,spin=" ++ intStr (m.mult - 1))) ∧
    (o.dtype = .cfour →
      kwGet (lit "charge") r.keywords = some (.int m.charge) ∧ kwGet (lit "multiplicity") r.keywords = some (.int m.mult)) ∧
    (o.dtype = .gamess →
      kwGet (lit "contrl__icharg") r.keywords = some (.int m.charge) ∧ kwGet (lit "contrl__mult") r.keywords = some (.int m.mult)) ∧
    (o.dtype = .nwchem →
      kwGet (lit "charge") r.keywords = some (.int m.charge) ∧
      (m.mult ≠ 1 → kwGet (lit "scf__nopen") r.keywords = some (.int (m.mult - 1)) ∧
                    kwGet (lit "dft__mult") r.keywords = some (.int m.mult) ∧
                    kwGet (lit "mcscf__multiplicity") r.keywords = some (.int m.mult)) ∧
      (m.mult = 1 → r.keywords = [(lit "charge", .int m.charge)])) ∧
    (o.dtype = .madness →
      kwGet (lit "charge") r.keywords = some (.int m.charge) ∧
      (kwGet (lit "spin_restricted") r.keywords = some (.str (lit "false")) ↔ m.mult ≠ 1)) := by
  obtain ⟨atoms, body, uw, _, _, _, hr⟩ := render_ok h
  subst hr
  obtain ⟨⟨x1, x2⟩, x3, ⟨x4, x5⟩, ⟨x6, x7, x8, x9⟩, ⟨x10, x11⟩, ⟨x12, x13, x14, x15⟩, ⟨x16, x17, x18⟩, ⟨x19, x20⟩, _⟩ :=
    chgmult_stated m uw atoms.length atoms
  refine ⟨?_, ?_, ?_, ?_, ?_, ?_, ?_, ?_, ?_, ?_⟩
  · rintro (hd | hd) <;> simp only [hd] <;> rw [getElem?_hdr (by simp [header])] <;> assumption
  · intro hd; simp only [hd]; rw [getElem?_hdr (by simp [header])]; exact x3
  · intro hd; simp only [hd]; rw [getElem?_hdr (by simp [header])]; exact x4
  · intro hd; simp only [hd]; rw [getElem?_hdr (by simp [header])]; exact x5
  · intro hd; simp only [hd]
    rw [getElem?_hdr (by simp [header]), getElem?_hdr (by simp [header])]
    exact ⟨x6, x7, x8, x9⟩
  · intro hd; simp only [hd]
    have hl : 2 ≤ (footer .molpro m uw).length := by rw [footer_length]; simp only [ftrLen]; omega
    rw [getElem?_rev_ftr (by omega), getElem?_rev_ftr (by omega)]
    exact ⟨x10, x11⟩
  · intro hd; simp only [hd]; exact ⟨x12, x13⟩
  · intro hd; simp only [hd]; exact ⟨x14, x15⟩
  · intro hd; simp only [hd]; exact ⟨x16, x17, x18⟩
  · intro hd; simp only [hd]; exact ⟨x19, x20⟩

/-- non-vacuity (test): the psi4 example states charge 1, multiplicity 2 on its first line -/
example : (render exOpts exMol).map (fun r => r.lines[0]?.map readTwo) = .ok (some (1, 2)) := by decide

/-! ## the unit word, on the rendered output -/

/-- where program `d` finds the unit word `uw` in the output `r` of a molecule `m` -/
def ShowsUnit (d : Dtype) (m : Mol) (r : Out) (uw : UnitWord) : Prop :=
  match d with
  | .xyz | .xyzp | .terachem => ∃ n : Nat, r.lines[0]? = some (rstrip (natStr n ++ ' ' :: uw.text))   -- after the count
  | .orca => r.lines[0]? = some uw.text
  | .nwchem => r.lines[0]? = some (lit "geometry units " ++ uw.text)
  | .madness => r.lines[1]? = some (lit "units " ++ uw.text)
  | .molpro => r.lines[hdrLen .molpro m - 2]? = some ('{' :: uw.text ++ ['}'])                          -- the line before `geometry={`
  | .psi4 => r.lines[r.lines.length - ftrLen .psi4 m]? = some (lit "units " ++ uw.text)                 -- first line after the atoms
  | .cfour => kwGet (lit "units") r.keywords = some (uwKw uw)
  | .gamess => kwGet (lit "contrl__units") r.keywords = some (uwKw uw)
  | .qchem => kwGet (lit "input_bohr") r.keywords = some (.str uw.text)
  | .turbomole | .sdf | .mrchem => uw = .silent      -- fixed-unit formats / no unit slot: nothing is written

/-- **the unit word `render` obtained is the one its output shows**, at the program's own place (text or keyword) -/
theorem render_shows_unit {o : Opts} {m : Mol} {r : Out} (h : render o m = .ok r) :
    ∃ uw, unitWord o.dtype (resolve o.dtype o.req) = .ok uw ∧ ShowsUnit o.dtype m r uw := by
  obtain ⟨atoms, body, uw, _, hb, hu, hr⟩ := render_ok h
  refine ⟨uw, hu, ?_⟩
  subst hr
  cases hd : o.dtype <;> simp only [hd, ShowsUnit] at hu ⊢
  case xyz => exact ⟨atoms.length, by rw [getElem?_hdr (by simp [header])]; simp [header]⟩
  case xyzp => exact ⟨atoms.length, by rw [getElem?_hdr (by simp [header])]; simp [header]⟩
  case terachem => exact ⟨atoms.length, by rw [getElem?_hdr (by simp [header])]; simp [header]⟩
  case orca => rw [getElem?_hdr (by simp [header])]; simp [header]
  case nwchem => rw [getElem?_hdr (by simp [header])]; simp [header]
  case madness => rw [getElem?_hdr (by simp [header])]; simp [header]
  case cfour => simp [kwGet, keywordsOf, lit]
  case gamess => simp [kwGet, keywordsOf, lit]
  case qchem => simp [kwGet, keywordsOf, lit]
  case turbomole =>
    simp only [unitWord] at hu
    cases hm : umap .turbomole (resolve .turbomole o.req) <;> simp [hm] at hu
    exact hu.symm
  case sdf =>
    simp only [unitWord] at hu
    by_cases ht : resolve .sdf o.req = .angstrom <;> simp [ht] at hu
    exact hu.symm
  case mrchem => simp only [unitWord, Except.ok.injEq] at hu; exact hu.symm
  case molpro =>
    have hl : (header .molpro m uw atoms.length).length = hdrLen .molpro m := header_length _ _ _ _
    have h2 : 3 ≤ hdrLen .molpro m := by simp [hdrLen]
    rw [getElem?_hdr (by omega)]
    have : ∀ (P : List Str), (P ++ [[], '{' :: uw.text ++ ['}'], lit "geometry={"])[(P ++ [[], '{' :: uw.text ++ ['}'], lit "geometry={"]).length - 2]?
        = some ('{' :: uw.text ++ ['}']) := by
      intro P
      rw [List.getElem?_append_right (by simp)]
      simp
    rw [← hl]
    simp only [header]
    exact this _
  case psi4 =>
    have hf : (footer .psi4 m uw).length = ftrLen .psi4 m := footer_length _ _ _
    have hpos : 1 ≤ ftrLen .psi4 m := by simp [ftrLen]; omega
    have e : (header .psi4 m uw atoms.length ++ body ++ footer .psi4 m uw).length - ftrLen .psi4 m =
        (header .psi4 m uw atoms.length ++ body).length + 0 := by
      simp only [List.length_append, hf]; omega
    rw [e, getElem?_ftr]
    simp [footer]

/-- **announced unit = unit used, end to end**: `render` succeeded with output `r`, the driver's parameter check
passed, and the unit word that `r` shows (by `render_shows_unit`: the `uw` of this call) is one the target program reads
as the length unit `u`.  Then the factor converting stored → `u` has a value `f` among the checked constants and every
coordinate text in `r` is the unique correctly rounded decimal (`prec` places; 4 for SDF) of a double within relative
2⁻⁵³ of `x · f`, `x` the stored coordinate. -/
theorem rendered_unit_is_used {o : Opts} {m : Mol} {r : Out} {prec : Nat} {c : Consts} {coords : List (List Coord)}
    {uw : UnitWord} {u : TUnit}
    (_h : render o m = .ok r) (hc : checkParams o prec c coords = .ok)
    (huw : unitWord o.dtype (resolve o.dtype o.req) = .ok uw) (hu : readWord o.dtype uw = .unit u) :
    ∃ f, factorValue c (idealFactor o.stored u o.pinned) = some f ∧
      ∀ cs ∈ coords, ∀ cd ∈ cs, isRoundedTo (cd.x * f) cd.p = true ∧
        isFixedRounding cd.neg cd.p (branchPrec o.dtype prec) cd.text = true := by
  obtain ⟨f, hf, hall⟩ := checked_coordinates hc
  have ho : outcome o.dtype o.stored o.req o.pinned =
      .ok (selectFactor o.stored (resolve o.dtype o.req) o.pinned, .unit u) := by
    simp [outcome, huw, Except.map, hu]
  rw [announced_unit_is_used _ _ _ _ _ _ ho] at hf
  exact ⟨f, hf, hall⟩

/-- non-vacuity (test): psi4 from Angstrom storage with default (Bohr) output shows `units bohr`, read as Bohr -/
example : unitWord .psi4 (resolve .psi4 .dflt) = .ok (.word (lit "bohr")) ∧ readWord .psi4 (.word (lit "bohr")) = .unit .bohr := by
  decide

end QcelVerif.ToString
