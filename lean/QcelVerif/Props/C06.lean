import QcelVerif.Props.C06Sound
import QcelVerif.Props.C06Hist
import QcelVerif.Props.C06Idem
import QcelVerif.Props.C06Shipped
import QcelVerif.Props.C06Elements
import QcelVerif.Props.C06Tol
/-!
# C06 — nucleus reconciliation: property theorems (index)

 * `C06Sound`   (any table, any rounding function, all inputs): `reconcile_sound`, `reconcile_default`,
                `supplied_A_window`, `conflict_element`, `conflict_element_validation`, `conflict_mass_number`,
                `conflict_mass`, `conflict_mass_number_vs_mass`, `conflict_real`, `unparseable_label`
 * `C06Hist`    `reconcile_respects_pyEq`, `lru_transparent`, `Lru.call_size`, `history_independent`
 * `C06Idem`    `reconcile_idem_partial`, `reconcile_idem_mass_clue` (+ `feedback_edge_reproduced`,
                `feedback_wide_window_counterexample`, toy-table tests)
 * `C06Shipped` `shipped_coherent` (decide +kernel over the generated table)
 * `C06Elements` `shipped_elements_default` (decide +kernel: the whole model under rd64 on every element row)
 * `C06Tol`     `zero_tolerance_exact`, `zero_tolerance_conflict` (mtol = 0 / 0.0 / False is honoured as given: exact-mass matching)
 * (`Model/NucleusShipped`) `lookupRange_memo`
-/
