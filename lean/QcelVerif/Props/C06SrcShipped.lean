import QcelVerif.Props.C06SrcGroups
import QcelVerif.Model.NucleusShipped
/-!
# C06 — the hypotheses of `reconcileSrc_eq_model` discharged for what the driver runs (shipped table, `rd64`)
-/
set_option linter.constructorNameAsVariable false
namespace QcelVerif.Nucleus.Ast
open QcelVerif QcelVerif.PStr QcelVerif.PT QcelVerif.Nucleus
set_option maxRecDepth 100000

def bstAllVals {β : Type} (p : β → Bool) : Bst β → Bool
  | .leaf => true
  | .node l _ v r => bstAllVals p l && p v && bstAllVals p r

theorem bstAllVals_lookup {β : Type} (p : β → Bool) : ∀ (t : Bst β) (x : Nat) (v : β),
    bstAllVals p t = true → t.lookup x = some v → p v = true
  | .leaf, _, _, _, h => by cases h
  | .node l k w r, x, v, ha, h => by
      simp only [bstAllVals, Bool.and_eq_true] at ha
      unfold Bst.lookup at h
      split at h
      · exact bstAllVals_lookup p l x v ha.1.1 h
      · split at h
        · exact bstAllVals_lookup p r x v ha.2 h
        · cases h; exact ha.1.2

/-- a table all of whose mass strings parse: `periodictable.to_mass` fails with NotAnElementError or not at all -/
theorem tableMass_ok_of_allVals (N : NTables)
    (hN : bstAllVals (fun (r : Nat × Nat × Nat) => (decVal (unpack r.2.2)).isSome) N.pt.eliso = true)
    (rd : Rat → Rat) (k : PyVal) : tableMass N rd k ≠ .error .other := by
  intro h
  unfold tableMass at h
  split at h
  · cases h
  · rename_i s hs
    split at h
    · rename_i hd
      unfold Tables.toMass at hs
      cases hr : N.pt.resolve k false with
      | none => rw [hr] at hs; cases hs
      | some key =>
        rw [hr] at hs
        simp only [Option.bind] at hs
        cases hl : N.pt.eliso.lookup key with
        | none => rw [hl] at hs; cases hs
        | some row =>
          rw [hl] at hs
          simp only [Option.map] at hs
          cases hs
          have := bstAllVals_lookup _ _ key row hN hl
          simp only [hd] at this
          cases this
    · cases h

/-- every mass string of the shipped nuclide tree parses [kernel evaluation over the generated tree] -/
theorem shipped_mass_strings_parse :
    bstAllVals (fun (r : Nat × Nat × Nat) => (decVal (unpack r.2.2)).isSome) Gen.PT.tree = true := by decide +kernel

theorem shipped_tableMass_ok (rd : Rat → Rat) (k : PyVal) : tableMass shippedN rd k ≠ .error .other :=
  tableMass_ok_of_allVals shippedN shipped_mass_strings_parse rd k

end QcelVerif.Nucleus.Ast
