import QcelVerif.Props.C04DefaultNuc
/-! C04 (extension) — kernel evaluation of `elementIsoOk` (Props/C04DefaultNuc.lean) over the generated periodic
table, four element rows per obligation (each `decide +kernel` ≈ 10–15 s); part E of A–E.  Re-checked whenever
`tools/gen_periodic.py` regenerates `Gen/PT.lean` from a changed data file. -/
namespace QcelVerif.FromArrays
open QcelVerif QcelVerif.Nucleus
set_option maxRecDepth 100000

theorem iso_rows_96 : ((Gen.PT.elements.drop 96).take 4).all elementIsoOk = true := by decide +kernel
theorem iso_rows_100 : ((Gen.PT.elements.drop 100).take 4).all elementIsoOk = true := by decide +kernel
theorem iso_rows_104 : ((Gen.PT.elements.drop 104).take 4).all elementIsoOk = true := by decide +kernel
theorem iso_rows_108 : ((Gen.PT.elements.drop 108).take 4).all elementIsoOk = true := by decide +kernel
theorem iso_rows_112 : ((Gen.PT.elements.drop 112).take 4).all elementIsoOk = true := by decide +kernel
theorem iso_rows_116 : ((Gen.PT.elements.drop 116).take 4).all elementIsoOk = true := by decide +kernel
/-- whatever follows row 120 (nothing, for the 119 shipped rows) -/
theorem iso_rows_tail : (Gen.PT.elements.drop 120).all elementIsoOk = true := by decide +kernel

end QcelVerif.FromArrays
