import QcelVerif.Model.MolText
/-!
C07 — property theorems about the text-layer models (Model/MolText.lean).

manifest: tokens_roundtrip strip_join isNumber_fixed numVal_fixed isNumber_int nucleus_roundtrip
          simple_nucleus_accepts classify_atomLine read_write_xyz read_write_xyzplus read_write_psi4 sepsGo_bounds
          blank_lines_insensitive_psi4 blank_lines_insensitive_xyz comment_suffix_removed
          numVal_plus numVal_leading_zero numVal_trailing_zero isNumber_exp_case parse_total

Scope of the read/write theorems (honest limits):
* They are stated on the LINES the writers print (each line classified by `classify`), not on the joined text: that
  `strip`, `filter_comments` and the line split leave a written text alone is exercised by the concrete kernel tests at
  the end of this file and by the differential run, not proved for all records.
  -- FULL: parseText d (render (write r)) = ok (project r)
* Printed numbers (`'{:.{prec}f}'` of a coordinate, `int(charge)`, `str(nat)`) are parameters (digit strings with a
  well-formedness hypothesis); the float <-> decimal conversions are CPython's and are checked differentially.
* Case-insensitivity of symbols / keywords is not proved (the processed record keeps the label text as written; the
  case folding happens in validation, C06) - it is oracle-checked.
-/
namespace QcelVerif.MolText

/-! ## generic list helpers -/

theorem tw_app {p : Char → Bool} (l r : Str) (h : ∀ c ∈ l, p c = true)
    (hr : r = [] ∨ ∃ d t, r = d :: t ∧ p d = false) : (l ++ r).takeWhile p = l := by
  rw [List.takeWhile_append_of_pos h]
  rcases hr with rfl | ⟨d, t, rfl, hd⟩ <;> simp [List.takeWhile, *]

theorem dw_app {p : Char → Bool} (l r : Str) (h : ∀ c ∈ l, p c = true)
    (hr : r = [] ∨ ∃ d t, r = d :: t ∧ p d = false) : (l ++ r).dropWhile p = r := by
  rw [List.dropWhile_append_of_pos h]
  rcases hr with rfl | ⟨d, t, rfl, hd⟩ <;> simp [List.dropWhile, *]

theorem tw_all {p : Char → Bool} (l : Str) (h : ∀ c ∈ l, p c = true) : l.takeWhile p = l := by
  have := tw_app (p := p) l [] h (Or.inl rfl); simpa using this

theorem dw_all {p : Char → Bool} (l : Str) (h : ∀ c ∈ l, p c = true) : l.dropWhile p = [] := by
  have := dw_app (p := p) l [] h (Or.inl rfl); simpa using this

theorem sep_cases {c : Char} (h : isSep c = true) : c = ' ' ∨ c = '\t' ∨ c = ',' := by
  simp [isSep] at h; rcases h with (h | h) | h <;> simp [h]

/-! ## tokens -/

theorem splitSep_ne_nil (s : Str) : splitSep s ≠ [] := by
  cases s with
  | nil => simp [splitSep]
  | cons c t =>
    simp only [splitSep]
    split
    · simp
    · split
      · split
        · split <;> simp
        · simp
      · simp

theorem splitSep_exists (s : Str) : ∃ h r, splitSep s = h :: r := by
  cases hs : splitSep s with
  | nil => exact absurd hs (splitSep_ne_nil s)
  | cons h r => exact ⟨h, r, rfl⟩

/-- a separator-free prefix extends the first field -/
theorem splitSep_tok_append (t rest h : Str) (r : List Str) (ht : ∀ c ∈ t, isSep c = false)
    (hr : splitSep rest = h :: r) : splitSep (t ++ rest) = (t ++ h) :: r := by
  induction t with
  | nil => simpa using hr
  | cons c t ih =>
    have hc : isSep c = false := ht c (by simp)
    have ih' := ih (fun x hx => ht x (by simp [hx]))
    simp [splitSep, ih', hc]

/-- a non-empty separator run in front of a non-separator character opens a new (so far empty) field -/
theorem splitSep_sep_run (s : Str) (d : Char) (t : Str) (hs : s ≠ []) (hall : ∀ c ∈ s, isSep c = true)
    (hd : isSep d = false) : splitSep (s ++ d :: t) = [] :: splitSep (d :: t) := by
  induction s with
  | nil => exact absurd rfl hs
  | cons c s ih =>
    have hc : isSep c = true := hall c (by simp)
    obtain ⟨h, r, hr⟩ := splitSep_exists (d :: t)
    cases s with
    | nil => simp [splitSep, hr, hc, hd] at *; simp [hr]
    | cons c' s' =>
      have hc' : isSep c' = true := hall c' (by simp)
      have ih' := ih (by simp) (fun x hx => hall x (by simp [hx]))
      have : splitSep (c :: (c' :: s' ++ d :: t)) = splitSep (c' :: s' ++ d :: t) := by
        rw [splitSep]
        rw [ih', hr] 
        simp [hc, hc']
      simpa [hr] using this.trans ih'

def joinToks : Str → List (Str × Str) → Str
  | t, [] => t
  | t, (s, u) :: r => t ++ s ++ joinToks u r

def TokOk (t : Str) : Prop := t ≠ [] ∧ ∀ c ∈ t, isSep c = false
def SepOk (s : Str) : Prop := s ≠ [] ∧ ∀ c ∈ s, isSep c = true

theorem joinToks_head (u : Str) (r : List (Str × Str)) (hu : TokOk u) :
    ∃ d t, joinToks u r = d :: t ∧ isSep d = false := by
  obtain ⟨hne, hall⟩ := hu
  cases u with
  | nil => exact absurd rfl hne
  | cons d u' =>
    refine ⟨d, ?_, ?_, hall d (by simp)⟩
    · exact (match r with | [] => u' | (s, v) :: r' => u' ++ s ++ joinToks v r')
    · cases r with
      | nil => rfl
      | cons p r' => obtain ⟨s, v⟩ := p; simp [joinToks]

/-- **tokens_roundtrip**: fields joined by arbitrary non-empty `[\t ,]+` runs split back into the same fields. -/
theorem tokens_roundtrip (t : Str) (ps : List (Str × Str)) (ht : TokOk t)
    (hps : ∀ p ∈ ps, SepOk p.1 ∧ TokOk p.2) : splitSep (joinToks t ps) = t :: ps.map (·.2) := by
  induction ps generalizing t with
  | nil =>
    have := splitSep_tok_append t [] [] [] ht.2 (by simp [splitSep])
    simpa [joinToks] using this
  | cons p ps ih =>
    obtain ⟨s, u⟩ := p
    have hp := hps (s, u) (by simp)
    have ihu := ih u hp.2 (fun q hq => hps q (by simp [hq]))
    obtain ⟨d, t', hj, hd⟩ := joinToks_head u ps hp.2
    have h1 : splitSep (s ++ joinToks u ps) = [] :: u :: ps.map (·.2) := by
      rw [hj, splitSep_sep_run s d t' hp.1.1 hp.1.2 hd, ← hj, ihu]
    have := splitSep_tok_append t (s ++ joinToks u ps) [] _ ht.2 h1
    simpa [joinToks, List.append_assoc] using this

example : splitSep "He_a ,\t 1.0,,-2.5  3".toList = ["He_a".toList, "1.0".toList, "-2.5".toList, "3".toList] := by decide

/-! ## strip -/

/-- **strip_join**: blanks around a text whose first and last characters are not blank disappear. -/
theorem strip_join (p q : Str) (a b : Char) (mid : Str) (hp : ∀ c ∈ p, isWs c = true) (hq : ∀ c ∈ q, isWs c = true)
    (ha : isWs a = false) (hb : isWs b = false) :
    strip (p ++ (a :: mid ++ [b]) ++ q) = a :: mid ++ [b] := by
  have h1 : stripL (p ++ (a :: mid ++ [b]) ++ q) = a :: mid ++ [b] ++ q := by
    unfold stripL
    rw [List.append_assoc, dw_app p _ hp (Or.inr ⟨a, mid ++ [b] ++ q, by simp, ha⟩)]
  have h2 : stripR (a :: mid ++ [b] ++ q) = a :: mid ++ [b] := by
    unfold stripR
    have : (a :: mid ++ [b] ++ q).reverse = q.reverse ++ (b :: (a :: mid).reverse) := by simp
    rw [this, dw_app q.reverse _ (by simpa using hq) (Or.inr ⟨b, _, rfl, hb⟩)]
    simp
  unfold strip; rw [h1, h2]

/-- the same for a one-character text -/
theorem strip_single (p q : Str) (a : Char) (hp : ∀ c ∈ p, isWs c = true) (hq : ∀ c ∈ q, isWs c = true)
    (ha : isWs a = false) : strip (p ++ [a] ++ q) = [a] := by
  have h1 : stripL (p ++ [a] ++ q) = [a] ++ q := by
    unfold stripL
    rw [List.append_assoc, dw_app p _ hp (Or.inr ⟨a, q, by simp, ha⟩)]
  have h2 : stripR ([a] ++ q) = [a] := by
    unfold stripR
    have : ([a] ++ q).reverse = q.reverse ++ [a] := by simp
    rw [this, dw_app q.reverse _ (by simpa using hq) (Or.inr ⟨a, _, rfl, ha⟩)]
    simp
  unfold strip; rw [h1, h2]

example : strip " \t He 0 0 0 \r\n".toList = "He 0 0 0".toList := by decide

/-! ## NUMBER -/

def DigitsOk (s : Str) : Prop := s ≠ [] ∧ ∀ c ∈ s, c.isDigit = true

theorem digit_mant {c : Char} (h : c.isDigit = true) : isMantChar c = true := by simp [isMantChar, h]

theorem digit_ne_minus {c : Char} (h : c.isDigit = true) : (c == '-') = false ∧ (c == '+') = false ∧ (c == '.') = false := by
  refine ⟨?_, ?_, ?_⟩ <;>
  · cases hc : (c == _) with
    | false => rfl
    | true => rw [beq_iff_eq] at hc; subst hc; exact absurd h (by decide)

theorem allDigits_of {s : Str} (h : ∀ c ∈ s, c.isDigit = true) : allDigits s = true := by
  simpa [allDigits, List.all_eq_true] using h

theorem parseMantU_fixed (ip fp : Str) (hi : DigitsOk ip) (hf : DigitsOk fp) :
    parseMantU (ip ++ '.' :: fp) = some (ip, fp, true) := by
  have hdot : Char.isDigit '.' = false := by decide
  have h1 : (ip ++ '.' :: fp).takeWhile Char.isDigit = ip := tw_app ip _ hi.2 (Or.inr ⟨'.', fp, rfl, hdot⟩)
  have h2 : (ip ++ '.' :: fp).dropWhile Char.isDigit = '.' :: fp := dw_app ip _ hi.2 (Or.inr ⟨'.', fp, rfl, hdot⟩)
  have hne : ip.isEmpty = false := by cases ip with | nil => exact absurd rfl hi.1 | cons _ _ => rfl
  simp [parseMantU, h1, h2, allDigits_of hf.2, hne]

theorem parseMantU_int (ip : Str) (hi : DigitsOk ip) : parseMantU ip = some (ip, [], false) := by
  have hne : ip.isEmpty = false := by cases ip with | nil => exact absurd rfl hi.1 | cons _ _ => rfl
  simp [parseMantU, tw_all ip hi.2, dw_all ip hi.2, hne]

theorem parseMant_unsigned (s : Str) (d : Char) (t : Str) (hs : s = d :: t) (hd : d.isDigit = true) :
    parseMant s = (parseMantU s).map fun (a, b, dd) => (false, a, b, dd) := by
  subst hs
  obtain ⟨h1, h2, _⟩ := digit_ne_minus hd
  simp [parseMant, h1, h2]

theorem mant_all_fixed (neg : Bool) (ip fp : Str) (hi : DigitsOk ip) (hf : DigitsOk fp) :
    ∀ c ∈ (if neg then ['-'] else []) ++ ip ++ '.' :: fp, isMantChar c = true := by
  intro c hc
  simp only [List.mem_append, List.mem_cons] at hc
  rcases hc with (hc | hc) | hc | hc
  · cases neg <;> simp at hc; subst hc; decide
  · exact digit_mant (hi.2 c hc)
  · subst hc; decide
  · exact digit_mant (hf.2 c hc)

/-- **isNumber_fixed / numVal_fixed**: the printed form `[-]d+.d+` is a NUMBER with exactly these parts … -/
theorem parseNumber_fixed (c : Coord) (hi : DigitsOk c.ip) (hf : DigitsOk c.fp) :
    parseNumber c.str = some c.parts := by
  obtain ⟨neg, ip, fp⟩ := c
  simp only [Coord.str, Coord.parts] at *
  have hall := mant_all_fixed neg ip fp hi hf
  obtain ⟨d, t, hdt⟩ : ∃ d t, ip = d :: t := by cases ip with | nil => exact absurd rfl hi.1 | cons d t => exact ⟨d, t, rfl⟩
  have hd : d.isDigit = true := hi.2 d (by simp [hdt])
  unfold parseNumber
  rw [tw_all _ hall, dw_all _ hall]
  cases neg with
  | true =>
    simp [parseMant, parseMantU_fixed ip fp hi hf, parseExp]
  | false =>
    have : parseMant (ip ++ '.' :: fp) = some (false, ip, fp, true) := by
      rw [parseMant_unsigned (ip ++ '.' :: fp) d (t ++ '.' :: fp) (by simp [hdt]) hd]
      simp [parseMantU_fixed ip fp hi hf]
    simp [this, parseExp]

theorem isNumber_fixed (c : Coord) (hi : DigitsOk c.ip) (hf : DigitsOk c.fp) : isNumber c.str = true := by
  simp [isNumber, parseNumber_fixed c hi hf]

/-- … and its value is `± (digits of ip ++ fp) · 10^-(number of decimals)`. -/
theorem numVal_fixed (c : Coord) (hi : DigitsOk c.ip) (hf : DigitsOk c.fp) :
    (parseNumber c.str).map numVal = some (c.neg, digitsToNat (c.ip ++ c.fp), -(c.fp.length : Int)) := by
  simp [parseNumber_fixed c hi hf, numVal, Coord.parts]

theorem parseNumber_int (c : IntS) (hi : DigitsOk c.digs) : parseNumber c.str = some c.parts := by
  obtain ⟨neg, ip⟩ := c
  simp only [IntS.str, IntS.parts] at *
  have hall : ∀ c ∈ (if neg then ['-'] else []) ++ ip, isMantChar c = true := by
    intro c hc
    simp only [List.mem_append] at hc
    rcases hc with hc | hc
    · cases neg <;> simp at hc; subst hc; decide
    · exact digit_mant (hi.2 c hc)
  obtain ⟨d, t, hdt⟩ : ∃ d t, ip = d :: t := by cases ip with | nil => exact absurd rfl hi.1 | cons d t => exact ⟨d, t, rfl⟩
  have hd : d.isDigit = true := hi.2 d (by simp [hdt])
  unfold parseNumber
  rw [tw_all _ hall, dw_all _ hall]
  cases neg with
  | true => simp [parseMant, parseMantU_int ip hi, parseExp]
  | false =>
    have : parseMant ip = some (false, ip, [], false) := by
      rw [parseMant_unsigned ip d t hdt hd]
      simp [parseMantU_int ip hi]
    simp [this, parseExp]

/-- **isNumber_int**: `[-]digits` (how `int(charge)` is printed) is a NUMBER and reads back as that integer. -/
theorem isNumber_int (c : IntS) (hi : DigitsOk c.digs) :
    isNumber c.str = true ∧ (parseNumber c.str).map numVal = some (c.neg, digitsToNat c.digs, 0) := by
  simp [isNumber, parseNumber_int c hi, numVal, IntS.parts]

example : DigitsOk "12".toList ∧ DigitsOk "500".toList := by
  refine ⟨⟨by decide, by decide⟩, ⟨by decide, by decide⟩⟩
example : (parseNumber "-12.500".toList).map numVal = some (true, 12500, -3) := by decide
example : (parseNumber "+.5D-02".toList).map numVal = some (false, 5, -3) := by decide
example : parseNumber "1.e".toList = none ∧ parseNumber ".".toList = none ∧ parseNumber "1-2".toList = none := by decide

/-! ## NUCLEUS -/

theorem alpha_not_digit {c : Char} (h : c.isAlpha = true) : c.isDigit = false := by
  simp [Char.isAlpha, Char.isUpper, Char.isLower, Char.isDigit, UInt32.le_iff_toNat_le] at *
  omega

theorem digit_not_alpha {c : Char} (h : c.isDigit = true) : c.isAlpha = false := by
  simp [Char.isAlpha, Char.isUpper, Char.isLower, Char.isDigit, UInt32.le_iff_toNat_le] at *
  omega

theorem alpha_word {c : Char} (h : c.isAlpha = true) : isWord c = true := by simp [isWord, Char.isAlphanum, h]
theorem digit_word {c : Char} (h : c.isDigit = true) : isWord c = true := by simp [isWord, Char.isAlphanum, h]

/-- a word character is none of the punctuation the grammars use -/
theorem word_ne {c : Char} (h : isWord c = true) (x : Char) (hx : isWord x = false) : (c == x) = false := by
  cases hc : (c == x) with
  | false => rfl
  | true => rw [beq_iff_eq] at hc; subst hc; rw [h] at hx; cases hx

theorem word_not_sep {c : Char} (h : isWord c = true) : isSep c = false := by
  have h1 := word_ne h ' ' (by decide); have h2 := word_ne h '\t' (by decide); have h3 := word_ne h ',' (by decide)
  simp [isSep, h1, h2, h3]

def SymOk (s : Str) : Prop := s ≠ [] ∧ s.length ≤ 3 ∧ ∀ c ∈ s, c.isAlpha = true

/-- grammar-conformant user label: empty, `_word…` or digits -/
def LblOk (l : Str) : Prop :=
  l = [] ∨ (∃ w, l = '_' :: w ∧ w ≠ [] ∧ ∀ c ∈ w, isWord c = true) ∨ (l ≠ [] ∧ ∀ c ∈ l, c.isDigit = true)

theorem lbl_word {l : Str} (h : LblOk l) : ∀ c ∈ l, isWord c = true := by
  rcases h with rfl | ⟨w, rfl, _, hw⟩ | ⟨_, hd⟩
  · simp
  · intro c hc; simp at hc; rcases hc with rfl | hc; decide; exact hw c hc
  · intro c hc; exact digit_word (hd c hc)

theorem lbl_head {l : Str} (h : LblOk l) : l = [] ∨ ∃ d t, l = d :: t ∧ d.isAlpha = false := by
  rcases h with rfl | ⟨w, rfl, _, _⟩ | ⟨hne, hd⟩
  · exact Or.inl rfl
  · exact Or.inr ⟨'_', w, rfl, by decide⟩
  · cases l with
    | nil => exact absurd rfl hne
    | cons d t => exact Or.inr ⟨d, t, rfl, digit_not_alpha (hd d (by simp))⟩

theorem lbl_userOk1 {l : Str} (h : LblOk l) : userOk1 l = true := by
  rcases h with rfl | ⟨w, rfl, hne, hw⟩ | ⟨hne, hd⟩
  · rfl
  · have : w.isEmpty = false := by cases w with | nil => exact absurd rfl hne | cons _ _ => rfl
    simp [userOk1, this, List.all_eq_true]; exact hw
  · cases l with
    | nil => exact absurd rfl hne
    | cons d t =>
      have hd0 : d.isDigit = true := hd d (by simp)
      unfold userOk1
      split
      · rename_i heq; cases heq
      · rename_i w heq; injection heq with h1 h2; subst h1; exact absurd hd0 (by decide)
      · exact allDigits_of hd

theorem parseCore_written (ghost : Bool) (sym lbl : Str) (hs : SymOk sym) (hl : LblOk lbl) :
    parseCore ghost (sym ++ lbl) = some { ghost := ghost, a := [], sym := sym, z := [], user := lbl, mass := none } := by
  obtain ⟨hne, hlen, halpha⟩ := hs
  have hw : ∀ c ∈ sym ++ lbl, isWord c = true := by
    intro c hc; simp only [List.mem_append] at hc
    rcases hc with hc | hc
    · exact alpha_word (halpha c hc)
    · exact lbl_word hl c hc
  have hat : ∀ c ∈ sym ++ lbl, (c != '@') = true := by
    intro c hc; have := word_ne (hw c hc) '@' (by decide); simp [bne, this]
  obtain ⟨d, t, hdt⟩ : ∃ d t, sym = d :: t := by cases sym with | nil => exact absurd rfl hne | cons d t => exact ⟨d, t, rfl⟩
  have hd : d.isDigit = false := alpha_not_digit (halpha d (by simp [hdt]))
  have ha : (sym ++ lbl).takeWhile Char.isDigit = [] := by simp [hdt, List.takeWhile, hd]
  have hr : (sym ++ lbl).dropWhile Char.isDigit = sym ++ lbl := by simp [hdt, List.dropWhile, hd]
  have hL : (sym ++ lbl).takeWhile Char.isAlpha = sym := tw_app sym lbl halpha (lbl_head hl)
  have hU : (sym ++ lbl).dropWhile Char.isAlpha = lbl := dw_app sym lbl halpha (lbl_head hl)
  have hsne : sym.isEmpty = false := by simp [hdt]
  unfold parseCore
  simp only [tw_all _ hat, dw_all _ hat, parseMass, ha, hr, hL, hU]
  simp [hsne, hlen, lbl_userOk1 hl]

theorem isGhPrefix_word (t : Str) (h : ∀ c ∈ t, isWord c = true) : isGhPrefix t = false := by
  match t with
  | [] => rfl
  | [_] => rfl
  | [_, _] => rfl
  | g :: hh :: p :: r =>
    have := word_ne (h p (by simp)) '(' (by decide)
    simp [isGhPrefix, this]

/-- what the decoder reports about a written nucleus token -/
def decoded (n : Nuc) : Bool × Str × Str := (n.ghost, n.sym, n.user)

/-- **nucleus_roundtrip**: `{elem}{elbl}`, `@{elem}` and `Gh({elem}{elbl})` decode to (ghost flag, symbol, user label). -/
theorem nucleus_roundtrip (sym lbl : Str) (hs : SymOk sym) (hl : LblOk lbl) :
    (parseNucleus (sym ++ lbl)).map decoded = some (false, sym, lbl) ∧
    (parseNucleus ('@' :: sym)).map decoded = some (true, sym, []) ∧
    (parseNucleus ("Gh(".toList ++ sym ++ lbl ++ [')'])).map decoded = some (true, sym, lbl) := by
  have hw : ∀ c ∈ sym ++ lbl, isWord c = true := by
    intro c hc; simp only [List.mem_append] at hc
    rcases hc with hc | hc
    · exact alpha_word (hs.2.2 c hc)
    · exact lbl_word hl c hc
  obtain ⟨d, t, hdt⟩ : ∃ d t, sym = d :: t := by cases sym with | nil => exact absurd rfl hs.1 | cons d t => exact ⟨d, t, rfl⟩
  refine ⟨?_, ?_, ?_⟩
  · have hd : (d == '@') = false := word_ne (hw d (by simp [hdt])) '@' (by decide)
    have hg := isGhPrefix_word (sym ++ lbl) hw
    have hc := parseCore_written false sym lbl hs hl
    rw [hdt] at hg hc ⊢
    simp only [List.cons_append] at hg hc ⊢
    simp [parseNucleus, hd, hg, hc, decoded]
  · have hc := parseCore_written true sym [] hs (Or.inl rfl)
    simp only [List.append_nil] at hc
    simp [parseNucleus, hc, decoded]
  · have hc := parseCore_written true sym lbl hs hl
    have h1 : ("Gh(".toList ++ sym ++ lbl ++ [')']) = 'G' :: 'h' :: '(' :: (sym ++ lbl ++ [')']) := by simp
    rw [h1]
    have h2 : ('G' :: 'h' :: '(' :: (sym ++ lbl ++ [')'])).getLast? = some ')' := by
      have : 'G' :: 'h' :: '(' :: (sym ++ lbl ++ [')']) = ('G' :: 'h' :: '(' :: (sym ++ lbl)) ++ [')'] := by simp
      rw [this, List.getLast?_concat]
    have h3 : (sym ++ lbl ++ [')']).dropLast = sym ++ lbl := by rw [List.dropLast_concat]
    have hg : isGhPrefix ('G' :: 'h' :: '(' :: (sym ++ lbl ++ [')'])) = true := by simp [isGhPrefix]
    have h0 : ('G' == '@') = false := by decide
    have e : parseNucleus ('G' :: 'h' :: '(' :: (sym ++ lbl ++ [')'])) = parseCore true (sym ++ lbl) := by
      simp only [parseNucleus, h0, hg, h2, List.drop, h3, Bool.false_eq_true, if_false, if_true, ↓reduceIte]
    rw [e, hc]; simp [decoded]

/-- **simple_nucleus_accepts**: the strict-xyz nucleus recogniser takes every 1–3 letter symbol (and `parseNucleus` too). -/
theorem simple_nucleus_accepts (sym : Str) (hs : SymOk sym) : isSimpleNucleus sym = true ∧ isNucleus sym = true := by
  constructor
  · obtain ⟨hne, hlen, halpha⟩ := hs
    have : 1 ≤ sym.length := by cases sym with | nil => exact absurd rfl hne | cons _ _ => simp
    simp [isSimpleNucleus, this, hlen, List.all_eq_true]; exact Or.inl halpha
  · have := (nucleus_roundtrip sym [] hs (Or.inl rfl)).1
    simp only [List.append_nil] at this
    cases h : parseNucleus sym with
    | none => simp [h] at this
    | some n => simp [isNucleus, h]

example : SymOk "He".toList ∧ LblOk "_frag_2".toList ∧ LblOk "13".toList ∧ LblOk [] := by
  refine ⟨⟨by decide, by decide, by decide⟩, Or.inr (Or.inl ⟨"frag_2".toList, rfl, by decide, by decide⟩), Or.inr (Or.inr ⟨by decide, by decide⟩), Or.inl rfl⟩
-- tests (concrete tokens): decoded and refused labels
example : (parseNucleus "gH(4he_x@4.0026)".toList).map decoded = some (true, "he".toList, "_x".toList) := by decide
example : parseNucleus "Gh(He".toList = none ∧ parseNucleus "He)".toList = none ∧ parseNucleus "Heee".toList = none
    ∧ parseNucleus "1234".toList = none ∧ parseNucleus "He_".toList = none ∧ parseNucleus "He@4.".toList = none := by decide

/-! ## comments -/

def lastOr : Option Char → Str → Option Char
  | p, [] => p
  | _, x :: s => lastOr (some x) s

theorem fcGo_comment_body (prev : Option Char) (c r : Str) (hc : ∀ x ∈ c, (x == '\n') = false) :
    fcGo true prev (c ++ r) = fcGo true prev r := by
  induction c with
  | nil => rfl
  | cons x c ih =>
    have hx := hc x (by simp)
    simp [fcGo, hx, ih (fun y hy => hc y (by simp [hy]))]

theorem fcGo_plain (prev : Option Char) (s rest : Str) (hs : ∀ x ∈ s, (x == '#') = false) :
    fcGo false prev (s ++ rest) = s ++ fcGo false (lastOr prev s) rest := by
  induction s generalizing prev with
  | nil => rfl
  | cons x s ih =>
    have hx := hs x (by simp)
    simp [fcGo, hx, lastOr, ih (some x) (fun y hy => hs y (by simp [hy]))]

/-- **comment_suffix_removed** (filter_comments as repaired): after comment-free text `s` that does not end in a
backslash, `#…` up to the end of the line is removed and every character of `s` is kept — at the end of the text and
in front of further lines (which are then filtered as usual). -/
theorem comment_suffix_removed (s c r : Str) (hs : ∀ x ∈ s, (x == '#') = false)
    (hlast : lastOr none s ≠ some '\\') (hc : ∀ x ∈ c, (x == '\n') = false) :
    filterComments (s ++ '#' :: c) = s ∧
    filterComments (s ++ '#' :: c ++ '\n' :: r) = s ++ '\n' :: fcGo false (some '\n') r := by
  have hp : (lastOr none s != some '\\') = true := by simpa [bne_iff_ne] using hlast
  constructor
  · unfold filterComments
    rw [fcGo_plain none s _ hs]
    have := fcGo_comment_body (lastOr none s) c [] hc
    simp only [List.append_nil] at this
    simp [fcGo, hp, this]
  · unfold filterComments
    rw [List.append_assoc, fcGo_plain none s _ hs]
    have := fcGo_comment_body (lastOr none s) c ('\n' :: r) hc
    simp [fcGo, hp, this]

example : filterComments "He 0 0 10#c\n# x\nH 0 0 1 \\# kept #gone".toList = "He 0 0 10\n\nH 0 0 1 \\# kept ".toList := by decide

/-! ## equivalent number spellings -/

theorem digitsToNat_zero_cons (s : Str) : digitsToNat ('0' :: s) = digitsToNat s := by
  simp [digitsToNat, List.foldl]

theorem digitsToNat_snoc_zero (s : Str) : digitsToNat (s ++ ['0']) = 10 * digitsToNat s := by
  simp [digitsToNat, List.foldl_append, Nat.mul_comm]

/-- **numVal_leading_zero**: a leading zero of the integer part changes nothing. -/
theorem numVal_leading_zero (c : Coord) (hi : DigitsOk c.ip) (hf : DigitsOk c.fp) :
    (parseNumber ({ c with ip := '0' :: c.ip } : Coord).str).map numVal = (parseNumber c.str).map numVal := by
  have hi' : DigitsOk ('0' :: c.ip) := ⟨by simp, by
    intro x hx; simp at hx; rcases hx with rfl | hx; decide; exact hi.2 x hx⟩
  rw [numVal_fixed { c with ip := '0' :: c.ip } hi' hf, numVal_fixed c hi hf]
  simp [digitsToNat_zero_cons]

/-- **numVal_trailing_zero**: one more zero decimal: mantissa × 10, exponent − 1 — the same rational. -/
theorem numVal_trailing_zero (c : Coord) (hi : DigitsOk c.ip) (hf : DigitsOk c.fp) :
    (parseNumber ({ c with fp := c.fp ++ ['0'] } : Coord).str).map numVal
      = some (c.neg, 10 * digitsToNat (c.ip ++ c.fp), -(c.fp.length : Int) - 1) := by
  have hf' : DigitsOk (c.fp ++ ['0']) := ⟨by simp, by
    intro x hx; simp at hx; rcases hx with hx | rfl; exact hf.2 x hx; decide⟩
  rw [numVal_fixed { c with fp := c.fp ++ ['0'] } hi hf']
  simp [← List.append_assoc, digitsToNat_snoc_zero]
  omega

/-- **numVal_plus**: an explicit `+` in front of an unsigned number changes nothing. -/
theorem numVal_plus (d : Char) (t : Str) (hd : (d == '-') = false ∧ (d == '+') = false) :
    parseNumber ('+' :: d :: t) = parseNumber (d :: t) := by
  unfold parseNumber
  have hp : isMantChar '+' = true := by decide
  cases hm : isMantChar d with
  | false => simp [List.takeWhile, List.dropWhile, hp, hm, parseMant, parseMantU, parseExp]
  | true =>
    simp [List.takeWhile, List.dropWhile, hp, hm, parseMant, hd.1, hd.2]

theorem exp_not_mant {a : Char} (h : isExpChar a = true) : isMantChar a = false := by
  simp [isExpChar] at h
  rcases h with ((h | h) | h) | h <;> subst h <;> decide

/-- **isNumber_exp_case**: `E`, `e`, `D`, `d` are interchangeable as exponent letters (same parts, same value). -/
theorem isNumber_exp_case (m x : Str) (a b : Char) (hm : ∀ c ∈ m, isMantChar c = true)
    (ha : isExpChar a = true) (hb : isExpChar b = true) :
    parseNumber (m ++ a :: x) = parseNumber (m ++ b :: x) := by
  unfold parseNumber
  rw [tw_app m _ hm (Or.inr ⟨a, x, rfl, exp_not_mant ha⟩), tw_app m _ hm (Or.inr ⟨b, x, rfl, exp_not_mant hb⟩),
      dw_app m _ hm (Or.inr ⟨a, x, rfl, exp_not_mant ha⟩), dw_app m _ hm (Or.inr ⟨b, x, rfl, exp_not_mant hb⟩)]
  simp [parseExp, ha, hb]

example : (parseNumber "1.5D+03".toList).map numVal = (parseNumber "1.5e+03".toList).map numVal := by decide
example : (parseNumber "+015.00e-1".toList).map numVal = some (false, 1500, -3) := by decide

/-! ## blank lines -/

theorem strip_blank (w : Str) (hw : ∀ c ∈ w, isWs c = true) : classify (strip w) = .blank := by
  have : strip w = [] := by simp [strip, stripL, stripR, dw_all w hw]
  simp [this, classify]

/-- **blank_lines_insensitive_psi4**: only the non-blank lines matter (blank = empty after strip, see `strip_blank`). -/
theorem blank_lines_insensitive_psi4 (l1 l2 : List Line)
    (h : l1.filter (· != .blank) = l2.filter (· != .blank)) : parsePsi4Lines l1 = parsePsi4Lines l2 := by
  unfold parsePsi4Lines; rw [h]

theorem xyzAtoms_filter (strict : Bool) (ls : List Line) :
    xyzAtoms strict (ls.filter (· != .blank)) = xyzAtoms strict ls := by
  induction ls with
  | nil => rfl
  | cons l ls ih =>
    by_cases hl : l = .blank
    · subst hl; simp [List.filter, xyzAtoms, ih]
    · have : (l != .blank) = true := by simpa [bne_iff_ne] using hl
      simp only [List.filter, this]
      cases l <;> simp_all [xyzAtoms]

/-- **blank_lines_insensitive_xyz**: after the two header lines of xyz / xyz+ only the non-blank lines matter. -/
theorem blank_lines_insensitive_xyz (strict : Bool) (l0 l1 : Str) (b1 b2 : List Str)
    (h : (b1.map classify).filter (· != .blank) = (b2.map classify).filter (· != .blank)) :
    parseXyzLines strict (l0 :: l1 :: b1) = parseXyzLines strict (l0 :: l1 :: b2) := by
  have e : xyzAtoms strict (b1.map classify) = xyzAtoms strict (b2.map classify) := by
    rw [← xyzAtoms_filter strict (b1.map classify), h, xyzAtoms_filter]
  simp only [parseXyzLines, e]

/-- **parse_total**: by construction the model has exactly these outcomes (MoleculeFormatError is its only error). -/
theorem parse_total (d : Dtype) (s : Str) :
    (∃ p, parseText d s = .ok p) ∨ parseText d s = .formatError ∨ parseText d s = .outOfScope := by
  cases h : parseText d s with
  | ok p => exact Or.inl ⟨p, rfl⟩
  | formatError => exact Or.inr (Or.inl rfl)
  | outOfScope => exact Or.inr (Or.inr rfl)

/-! ## the written lines are classified as what they are -/

def CoordOk (c : Coord) : Prop := DigitsOk c.ip ∧ DigitsOk c.fp
def AtomOk (a : Atom) : Prop := SymOk a.sym ∧ LblOk a.lbl ∧ CoordOk a.x ∧ CoordOk a.y ∧ CoordOk a.z

theorem mant_not_sep {c : Char} (h : isMantChar c = true) : isSep c = false := by
  cases hs : isSep c with
  | false => rfl
  | true => rcases sep_cases hs with rfl | rfl | rfl <;> exact absurd h (by decide)

theorem coord_tok (c : Coord) (h : CoordOk c) : TokOk c.str := by
  refine ⟨?_, fun x hx => mant_not_sep (mant_all_fixed c.neg c.ip c.fp h.1 h.2 x hx)⟩
  simp [Coord.str]

theorem spaces_sep (n : Nat) : ∀ c ∈ List.replicate n ' ', isSep c = true := by
  intro c hc; rw [List.mem_replicate] at hc; rw [hc.2]; decide

theorem classify_atomLine (nuc : Str) (a : Atom) (hn : TokOk nuc) (hp : ∃ n, parseNucleus nuc = some n)
    (hx : CoordOk a.x) (hy : CoordOk a.y) (hz : CoordOk a.z) :
    classify (atomLine nuc a) = .atom nuc a.x.parts a.y.parts a.z.parts := by
  obtain ⟨n, hn'⟩ := hp
  have hj : atomLine nuc a = joinToks nuc
      [(List.replicate (17 - nuc.length) ' ' ++ "  ".toList ++ List.replicate (17 - a.x.str.length) ' ', a.x.str),
       ("  ".toList ++ List.replicate (17 - a.y.str.length) ' ', a.y.str),
       ("  ".toList ++ List.replicate (17 - a.z.str.length) ' ', a.z.str)] := by
    simp [atomLine, padRight, padLeft, joinToks, List.append_assoc]
  have hsp : ∀ k m : Nat, SepOk (List.replicate k ' ' ++ "  ".toList ++ List.replicate m ' ') := by
    intro k m
    refine ⟨by simp, ?_⟩
    intro c hc
    simp only [List.mem_append] at hc
    rcases hc with (hc | hc) | hc
    · exact spaces_sep k c hc
    · have : c = ' ' := by simpa using hc
      subst this; decide
    · exact spaces_sep m c hc
  have hsp2 : ∀ m : Nat, SepOk ("  ".toList ++ List.replicate m ' ') := by
    intro m; have := hsp 0 m; simpa using this
  have hsplit : splitSep (atomLine nuc a) = [nuc, a.x.str, a.y.str, a.z.str] := by
    rw [hj, tokens_roundtrip nuc _ hn]
    · rfl
    · intro p hp
      simp only [List.mem_cons, List.mem_nil_iff, or_false] at hp
      rcases hp with rfl | rfl | rfl
      · exact ⟨hsp _ _, coord_tok a.x hx⟩
      · exact ⟨hsp2 _, coord_tok a.y hy⟩
      · exact ⟨hsp2 _, coord_tok a.z hz⟩
  have hne : (atomLine nuc a).isEmpty = false := by
    obtain ⟨h0, _⟩ := hn
    cases nuc with
    | nil => exact absurd rfl h0
    | cons d t => simp [atomLine, padRight]
  simp [classify, hne, hsplit, hn', parseNumber_fixed a.x hx.1 hx.2, parseNumber_fixed a.y hy.1 hy.2,
    parseNumber_fixed a.z hz.1 hz.2]

def IntOk (c : IntS) : Prop := DigitsOk c.digs

theorem digits_tok {m : Str} (h : DigitsOk m) : TokOk m :=
  ⟨h.1, fun c hc => mant_not_sep (digit_mant (h.2 c hc))⟩

theorem int_tok (c : IntS) (h : IntOk c) : TokOk c.str := by
  refine ⟨by obtain ⟨n, d⟩ := c; cases n <;> simp [IntS.str] <;> exact h.1, ?_⟩
  intro x hx
  simp only [IntS.str, List.mem_append] at hx
  rcases hx with hx | hx
  · cases hn : c.neg <;> simp [hn] at hx; subst hx; decide
  · exact mant_not_sep (digit_mant (h.2 x hx))

theorem classify_cgmpLine (c : IntS) (m : Str) (hc : IntOk c) (hm : DigitsOk m) :
    classify (cgmpLine c m) = .cgmp c.parts m := by
  have hj : cgmpLine c m = joinToks c.str [([' '], m)] := by simp [cgmpLine, joinToks]
  have hsplit : splitSep (cgmpLine c m) = [c.str, m] := by
    rw [hj, tokens_roundtrip c.str _ (int_tok c hc)]
    · rfl
    · intro p hp
      simp only [List.mem_cons, List.mem_nil_iff, or_false] at hp
      subst hp
      exact ⟨⟨by simp, by intro x hx; simp at hx; subst hx; decide⟩, digits_tok hm⟩
  have hne : (cgmpLine c m).isEmpty = false := by
    have := (int_tok c hc).1
    cases hs : c.str with
    | nil => exact absurd hs this
    | cons d t => simp [cgmpLine, hs]
  have hme : m.isEmpty = false := by cases m with | nil => exact absurd rfl hm.1 | cons _ _ => rfl
  simp [classify, hne, hsplit, parseNumber_int c hc, allDigits_of hm.2, hme]

theorem nucPsi4_ok (a : Atom) (hs : SymOk a.sym) (hl : LblOk a.lbl) :
    TokOk (nucPsi4 a) ∧ ∃ n, parseNucleus (nucPsi4 a) = some n := by
  have hw : ∀ c ∈ a.sym ++ a.lbl, isSep c = false := by
    intro c hc; simp only [List.mem_append] at hc
    rcases hc with hc | hc
    · exact word_not_sep (alpha_word (hs.2.2 c hc))
    · exact word_not_sep (lbl_word hl c hc)
  obtain ⟨h1, _, h3⟩ := nucleus_roundtrip a.sym a.lbl hs hl
  cases hr : a.real with
  | true =>
    simp only [nucPsi4, hr, if_true]
    refine ⟨⟨?_, hw⟩, ?_⟩
    · have := hs.1; cases hsym : a.sym with | nil => exact absurd hsym this | cons _ _ => simp
    · cases hp : parseNucleus (a.sym ++ a.lbl) with
      | none => rw [hp] at h1; exact absurd h1 (by simp)
      | some n => exact ⟨n, rfl⟩
  | false =>
    simp only [nucPsi4, hr]
    refine ⟨⟨by simp, ?_⟩, ?_⟩
    · intro c hc
      simp only [Bool.false_eq_true, if_false, List.mem_append, List.mem_singleton] at hc
      rcases hc with ((hc | hc) | hc) | hc
      · have : c = 'G' ∨ c = 'h' ∨ c = '(' := by simpa using hc
        rcases this with rfl | rfl | rfl <;> decide
      · exact hw c (by simp [hc])
      · exact hw c (by simp [hc])
      · subst hc; decide
    · simp only [Bool.false_eq_true, if_false]
      cases hp : parseNucleus ("Gh(".toList ++ a.sym ++ a.lbl ++ [')']) with
      | none => rw [hp] at h3; exact absurd h3 (by simp)
      | some n => exact ⟨n, rfl⟩

theorem nucXyz_ok (a : Atom) (hs : SymOk a.sym) :
    TokOk (nucXyz a) ∧ ∃ n, parseNucleus (nucXyz a) = some n := by
  have hw : ∀ c ∈ a.sym, isSep c = false := fun c hc => word_not_sep (alpha_word (hs.2.2 c hc))
  obtain ⟨h1, h2, _⟩ := nucleus_roundtrip a.sym [] hs (Or.inl rfl)
  simp only [List.append_nil] at h1
  cases hr : a.real with
  | true =>
    simp only [nucXyz, hr, if_true]
    refine ⟨⟨hs.1, hw⟩, ?_⟩
    cases hp : parseNucleus a.sym with
    | none => rw [hp] at h1; exact absurd h1 (by simp)
    | some n => exact ⟨n, rfl⟩
  | false =>
    simp only [nucXyz, hr, Bool.false_eq_true, if_false]
    refine ⟨⟨by simp, ?_⟩, ?_⟩
    · intro c hc; simp at hc; rcases hc with rfl | hc; decide; exact hw c hc
    · cases hp : parseNucleus ('@' :: a.sym) with
      | none => rw [hp] at h2; exact absurd h2 (by simp)
      | some n => exact ⟨n, rfl⟩

/-! ## psi4: the reader on the written lines -/

def coords3 (a : Atom) : List NumParts := [a.x.parts, a.y.parts, a.z.parts]
def atomLnPsi4 (a : Atom) : Line := .atom (nucPsi4 a) a.x.parts a.y.parts a.z.parts
def blockLn (f : Frag) : List Line := .cgmp f.chg.parts f.mult :: f.atoms.map atomLnPsi4
def tailLn (r : MolRec) : List Line :=
  [.units r.bohr] ++ (if r.fixCom then [.com] else []) ++ (if r.fixOrient then [.orient] else [])

/-- the classified lines of `writePsi4` (see `writePsi4_classified`) -/
def linesPsi4 (r : MolRec) : List Line :=
  if r.frags.length > 1 then
    [.cgmp r.chg.parts r.mult] ++ r.frags.flatMap (fun f => .marker :: blockLn f) ++ tailLn r
  else
    [.cgmp r.chg.parts r.mult] ++ r.frags.flatMap (fun f => f.atoms.map atomLnPsi4) ++ tailLn r

def isUniv : Line → Bool
  | .com | .orient | .units _ | .sym _ => true
  | _ => false

theorem univGo_body (st : UState) (body tail : List Line) (hb : ∀ l ∈ body, isUniv l = false) :
    univGo st (body ++ tail) = ((univGo st tail).1, body ++ (univGo st tail).2) := by
  induction body with
  | nil => simp
  | cons l body ih =>
    have hl := hb l (by simp)
    have ih' := ih (fun x hx => hb x (by simp [hx]))
    cases l <;> simp [isUniv] at hl <;> simp [univGo, ih']

theorem univGo_tail (r : MolRec) :
    univGo {} (tailLn r) = ({ com := r.fixCom, ori := r.fixOrient, units := some r.bohr, sym := none }, []) := by
  cases hc : r.fixCom <;> cases ho : r.fixOrient <;> simp [tailLn, hc, ho, univGo]

theorem splitMarkers_exists (ls : List Line) : ∃ h r, splitMarkers ls = h :: r := by
  cases ls with
  | nil => exact ⟨[], [], rfl⟩
  | cons l ls =>
    simp only [splitMarkers]
    split
    · exact ⟨[], [], rfl⟩
    · split <;> exact ⟨_, _, rfl⟩

theorem splitMarkers_block (b rest h : List Line) (r : List (List Line)) (hb : ∀ l ∈ b, (l == Line.marker) = false)
    (hr : splitMarkers rest = h :: r) : splitMarkers (b ++ rest) = (b ++ h) :: r := by
  induction b with
  | nil => simpa using hr
  | cons l b ih =>
    have hl := hb l (by simp)
    simp [splitMarkers, ih (fun x hx => hb x (by simp [hx])), hl]

theorem block_no_marker (f : Frag) : ∀ l ∈ blockLn f, (l == Line.marker) = false := by
  intro l hl
  simp only [blockLn, List.mem_cons, List.mem_map] at hl
  rcases hl with rfl | ⟨a, _, rfl⟩ <;> simp [atomLnPsi4]

theorem splitMarkers_marker (ls : List Line) : splitMarkers (Line.marker :: ls) = [] :: splitMarkers ls := by
  obtain ⟨h, r, hr⟩ := splitMarkers_exists ls
  simp [splitMarkers, hr]

theorem splitMarkers_frags (fs : List Frag) (hne : fs ≠ []) :
    splitMarkers (fs.flatMap (fun f => Line.marker :: blockLn f)) = [] :: fs.map blockLn := by
  induction fs with
  | nil => exact absurd rfl hne
  | cons f fs ih =>
    rw [List.flatMap_cons, List.cons_append, splitMarkers_marker]
    cases fs with
    | nil =>
      have := splitMarkers_block (blockLn f) [] [] [] (block_no_marker f) (by simp [splitMarkers])
      simp at this
      simp [this]
    | cons g gs =>
      have ih' := ih (by simp)
      have := splitMarkers_block (blockLn f) _ [] _ (block_no_marker f) ih'
      simp at this
      simp [this]

theorem efpGo_blocks (fs : List Frag) (pre : List (List Line)) (hpre : pre = [] ∨ ∃ c m, pre = [[.cgmp c m]]) :
    (efpGo (pre ++ fs.map blockLn)).frags = pre ++ fs.map blockLn ∧ (efpGo (pre ++ fs.map blockLn)).efp = []
      ∧ (efpGo (pre ++ fs.map blockLn)).scope = true := by
  have hbody : (efpGo (fs.map blockLn)).frags = fs.map blockLn ∧ (efpGo (fs.map blockLn)).efp = []
      ∧ (efpGo (fs.map blockLn)).scope = true := by
    induction fs with
    | nil => simp [efpGo]
    | cons f fs ih =>
      obtain ⟨h1, h2, h3⟩ := ih
      cases hf : f.atoms with
      | nil => simp [efpGo, blockLn, hf, h1, h2, h3]
      | cons a as => simp [efpGo, blockLn, hf, h1, h2, h3]
  rcases hpre with rfl | ⟨c, m, rfl⟩
  · simpa using hbody
  · obtain ⟨h1, h2, h3⟩ := hbody
    simp [efpGo, h1, h2, h3]

theorem fragSum_atoms (as : List Atom) :
    fragSum (as.map atomLnPsi4) = { cgmp := none, labels := as.map nucPsi4, coords := as.flatMap coords3, remnant := false } := by
  induction as with
  | nil => rfl
  | cons a as ih => simp [fragSum, atomLnPsi4, ih, coords3]

theorem fragSum_block (f : Frag) :
    fragSum (blockLn f) = { cgmp := some (f.chg.parts, f.mult), labels := f.atoms.map nucPsi4,
                            coords := f.atoms.flatMap coords3, remnant := false } := by
  simp [blockLn, fragSum, fragSum_atoms]

/-- what the psi4 text carries -/
def projectPsi4 (r : MolRec) : Processed :=
  let multi := r.frags.length > 1
  { units := some r.bohr, fixCom := r.fixCom, fixOrient := r.fixOrient, fixSym := none,
    molChg := if multi then some r.chg.parts else none,
    molMult := if multi then some r.mult else none,
    elbl := r.frags.flatMap fun f => f.atoms.map nucPsi4,
    geom := r.frags.flatMap fun f => f.atoms.flatMap coords3,
    seps := sepsGo 0 (r.frags.map fun f => f.atoms.length),
    fragChg := if multi then r.frags.map (fun f => some f.chg.parts) else [some r.chg.parts],
    fragMult := if multi then r.frags.map (fun f => some f.mult) else [some r.mult],
    efp := [], isPsi4 := true }

theorem filter_noblank (ls : List Line) (h : ∀ l ∈ ls, (l != Line.blank) = true) : ls.filter (· != .blank) = ls :=
  List.filter_eq_self.mpr h

def isBodyLine : Line → Bool
  | .cgmp _ _ | .marker | .atom _ _ _ _ => true
  | _ => false

theorem block_body (f : Frag) : ∀ l ∈ blockLn f, isBodyLine l = true := by
  intro l hl
  simp only [blockLn, List.mem_cons, List.mem_map] at hl
  rcases hl with rfl | ⟨a, _, rfl⟩ <;> rfl

theorem tail_lines (r : MolRec) : ∀ l ∈ tailLn r, l = .units r.bohr ∨ l = .com ∨ l = .orient := by
  intro l hl
  cases hc : r.fixCom <;> cases ho : r.fixOrient <;> simp [tailLn, hc, ho] at hl
  · simp [hl]
  · rcases hl with h | h <;> simp [h]
  · rcases hl with h | h <;> simp [h]
  · rcases hl with h | h | h <;> simp [h]

theorem read_lines_psi4_multi (r : MolRec) (hm : r.frags.length > 1) :
    parsePsi4Lines (linesPsi4 r) = .ok (projectPsi4 r) := by
  have hne : r.frags ≠ [] := by intro h; rw [h] at hm; simp at hm
  obtain ⟨body, hbody⟩ : ∃ body : List Line, body = [.cgmp r.chg.parts r.mult] ++ r.frags.flatMap (fun f => .marker :: blockLn f) := ⟨_, rfl⟩
  have hlines : linesPsi4 r = body ++ tailLn r := by simp [linesPsi4, hm, hbody]
  have hbl : ∀ l ∈ body, isBodyLine l = true := by
    intro l hl
    rw [hbody] at hl
    simp only [List.mem_append, List.mem_cons, List.not_mem_nil, or_false, List.mem_flatMap] at hl
    rcases hl with rfl | ⟨f, _, rfl | hl⟩
    · rfl
    · rfl
    · exact block_body f l hl
  have hbu : ∀ l ∈ body, isUniv l = false := fun l hl => by
    have := hbl l hl; cases l <;> simp_all [isBodyLine, isUniv]
  have hnb : ∀ l ∈ body ++ tailLn r, (l != Line.blank) = true := by
    intro l hl
    simp only [List.mem_append] at hl
    rcases hl with hl | hl
    · have := hbl l hl; cases l <;> simp_all [isBodyLine]
    · rcases tail_lines r l hl with rfl | rfl | rfl <;> simp
  have hnp : (body ++ tailLn r).any (· == Line.pubchem) = false := by
    rw [List.any_eq_false]
    intro l hl
    simp only [List.mem_append] at hl
    rcases hl with hl | hl
    · have := hbl l hl; cases l <;> simp_all [isBodyLine]
    · rcases tail_lines r l hl with rfl | rfl | rfl <;> simp
  have hsplit : splitMarkers body = [.cgmp r.chg.parts r.mult] :: r.frags.map blockLn := by
    have := splitMarkers_block [.cgmp r.chg.parts r.mult] _ [] _ (by simp) (splitMarkers_frags r.frags hne)
    simpa [hbody] using this
  obtain ⟨e1, e2, e3⟩ := efpGo_blocks r.frags [[.cgmp r.chg.parts r.mult]] (Or.inr ⟨_, _, rfl⟩)
  unfold parsePsi4Lines
  rw [hlines, filter_noblank _ hnb]
  simp only [hnp, Bool.false_eq_true, if_false, univGo_body {} body (tailLn r) hbu, univGo_tail, List.append_nil, hsplit]
  simp only [List.singleton_append] at e1 e2 e3
  simp only [e3, e2, e1, Bool.not_true, Bool.false_eq_true, if_false]
  simp [mints, assemble, List.map_map, Function.comp_def, fragSum_block, projectPsi4, hm, List.flatMap_def]

theorem read_lines_psi4_single (r : MolRec) (f : Frag) (hf : r.frags = [f]) (ha : f.atoms ≠ []) :
    parsePsi4Lines (linesPsi4 r) = .ok (projectPsi4 r) := by
  obtain ⟨f', hf'⟩ : ∃ f' : Frag, f' = { chg := r.chg, mult := r.mult, atoms := f.atoms } := ⟨_, rfl⟩
  have hm : ¬ (r.frags.length > 1) := by simp [hf]
  have hlines : linesPsi4 r = blockLn f' ++ tailLn r := by simp [linesPsi4, hf, hf', blockLn]
  have hbl : ∀ l ∈ blockLn f', isBodyLine l = true := block_body f'
  have hbu : ∀ l ∈ blockLn f', isUniv l = false := fun l hl => by
    have := hbl l hl; cases l <;> simp_all [isBodyLine, isUniv]
  have hnb : ∀ l ∈ blockLn f' ++ tailLn r, (l != Line.blank) = true := by
    intro l hl
    simp only [List.mem_append] at hl
    rcases hl with hl | hl
    · have := hbl l hl; cases l <;> simp_all [isBodyLine]
    · rcases tail_lines r l hl with rfl | rfl | rfl <;> simp
  have hnp : (blockLn f' ++ tailLn r).any (· == Line.pubchem) = false := by
    rw [List.any_eq_false]
    intro l hl
    simp only [List.mem_append] at hl
    rcases hl with hl | hl
    · have := hbl l hl; cases l <;> simp_all [isBodyLine]
    · rcases tail_lines r l hl with rfl | rfl | rfl <;> simp
  have hsplit : splitMarkers (blockLn f') = [blockLn f'] := by
    have := splitMarkers_block (blockLn f') [] [] [] (block_no_marker f') (by simp [splitMarkers])
    simpa using this
  obtain ⟨e1, e2, e3⟩ := efpGo_blocks [f'] [] (Or.inl rfl)
  simp only [List.nil_append, List.map_cons, List.map_nil] at e1 e2 e3
  obtain ⟨a, as, has⟩ : ∃ a as, f.atoms = a :: as := by
    cases h : f.atoms with | nil => exact absurd h ha | cons a as => exact ⟨a, as, rfl⟩
  unfold parsePsi4Lines
  rw [hlines, filter_noblank _ hnb]
  simp only [hnp, Bool.false_eq_true, if_false, univGo_body {} (blockLn f') (tailLn r) hbu, univGo_tail, List.append_nil, hsplit]
  simp only [e3, e2, e1, Bool.not_true, Bool.false_eq_true, if_false]
  have hfs : fragSum (blockLn f') = _ := fragSum_block f'
  have hnot : blockLn f' = .cgmp r.chg.parts r.mult :: atomLnPsi4 a :: as.map atomLnPsi4 := by simp [blockLn, hf', has]
  simp only [mints, List.isEmpty_cons, Bool.false_eq_true, if_false]
  rw [hnot]
  simp only [← hnot, List.map_cons, List.map_nil, hfs]
  simp [assemble, projectPsi4, hf, hf', sepsGo]

/-- `str.strip()` leaves the written lines alone and each is classified as the line it is -/
def RecOk (r : MolRec) : Prop :=
  IntOk r.chg ∧ DigitsOk r.mult ∧ r.frags ≠ [] ∧
  ∀ f ∈ r.frags, IntOk f.chg ∧ DigitsOk f.mult ∧ f.atoms ≠ [] ∧ ∀ a ∈ f.atoms, AtomOk a

theorem classify_atomPsi4 (a : Atom) (h : AtomOk a) : classify (atomLine (nucPsi4 a) a) = atomLnPsi4 a := by
  obtain ⟨hs, hl, hx, hy, hz⟩ := h
  obtain ⟨ht, hp⟩ := nucPsi4_ok a hs hl
  exact classify_atomLine (nucPsi4 a) a ht hp hx hy hz

theorem flatMap_congr' {α β} (l : List α) (f g : α → List β) (h : ∀ x ∈ l, f x = g x) : l.flatMap f = l.flatMap g := by
  induction l with
  | nil => rfl
  | cons x l ih => simp [List.flatMap_cons, h x (by simp), ih (fun y hy => h y (by simp [hy]))]

theorem writePsi4_classified (r : MolRec) (h : RecOk r) : (writePsi4 r).map classify = linesPsi4 r := by
  obtain ⟨hc, hmu, _, hfr⟩ := h
  have hatoms : ∀ f ∈ r.frags, (f.atoms.map fun a => atomLine (nucPsi4 a) a).map classify = f.atoms.map atomLnPsi4 := by
    intro f hf
    rw [List.map_map]
    apply List.map_congr_left
    intro a ha
    exact classify_atomPsi4 a ((hfr f hf).2.2.2 a ha)
  obtain ⟨ts, hts⟩ : ∃ ts : List Str, ts = [(if r.bohr then "units bohr".toList else "units angstrom".toList)] ++
      ((if r.fixCom then ["no_com".toList] else []) ++ (if r.fixOrient then ["no_reorient".toList] else [])) := ⟨_, rfl⟩
  have htail : ts.map classify = tailLn r := by
    rw [hts]
    cases hb : r.bohr <;> cases hc' : r.fixCom <;> cases ho : r.fixOrient <;> simp only [tailLn, hb, hc', ho] <;> decide
  have hw : writePsi4 r = cgmpLine r.chg r.mult :: (r.frags.flatMap (fragLinesPsi4 (decide (r.frags.length > 1))) ++ ts) := by
    rw [hts]; simp only [writePsi4, List.cons_append, List.append_assoc]
  have h1 : classify "--".toList = .marker := by decide
  rw [hw, List.map_cons, List.map_append, htail, classify_cgmpLine r.chg r.mult hc hmu, List.map_flatMap]
  by_cases hm : r.frags.length > 1
  · have hfl : r.frags.flatMap (fun f => (fragLinesPsi4 (decide (r.frags.length > 1)) f).map classify)
        = r.frags.flatMap (fun f => Line.marker :: blockLn f) := by
      apply flatMap_congr'
      intro f hf
      simp only [hm, decide_true, fragLinesPsi4, if_true, List.map_append, List.map_cons, List.map_nil, h1,
        classify_cgmpLine f.chg f.mult (hfr f hf).1 (hfr f hf).2.1, hatoms f hf, blockLn, List.cons_append, List.nil_append]
    rw [hfl]
    simp only [linesPsi4, hm, if_true, List.cons_append, List.nil_append]
  · have hfl : r.frags.flatMap (fun f => (fragLinesPsi4 (decide (r.frags.length > 1)) f).map classify)
        = r.frags.flatMap (fun f => f.atoms.map atomLnPsi4) := by
      apply flatMap_congr'
      intro f hf
      simp only [hm, decide_false, fragLinesPsi4, Bool.false_eq_true, if_false, List.nil_append, hatoms f hf]
    rw [hfl]
    simp only [linesPsi4, hm, if_false, List.cons_append, List.nil_append]

/-- **read_write_psi4**: classifying and reading the lines `writePsi4` prints gives exactly `projectPsi4 r`: labels
(symbol, ghost wrapper, user label — decoded by `nucleus_roundtrip`), the printed coordinates, units, total and
per-fragment charge/multiplicity, fragment boundaries, `no_com`/`no_reorient`; no remnants; any number of fragments. -/
theorem read_write_psi4 (r : MolRec) (h : RecOk r) :
    parsePsi4Lines ((writePsi4 r).map classify) = .ok (projectPsi4 r) := by
  rw [writePsi4_classified r h]
  by_cases hm : r.frags.length > 1
  · exact read_lines_psi4_multi r hm
  · obtain ⟨_, _, hne, hfr⟩ := h
    cases hfs : r.frags with
    | nil => exact absurd hfs hne
    | cons f fs =>
      cases fs with
      | nil => exact read_lines_psi4_single r f hfs (hfr f (by simp [hfs])).2.2.1
      | cons g gs => rw [hfs] at hm; simp at hm

/-- fragment boundaries are the running atom counts (all fragments non-empty) -/
def bounds (start : Nat) : List Nat → List Nat
  | [] => []
  | [_] => []
  | n :: m :: rest => (start + n) :: bounds (start + n) (m :: rest)

theorem sepsGo_pos (start : Nat) (hs : start > 0) (l : List Nat) (hl : ∀ n ∈ l, n > 0) (hne : l ≠ []) :
    sepsGo start l = start :: bounds start l := by
  induction l generalizing start with
  | nil => exact absurd rfl hne
  | cons n rest ih =>
    cases rest with
    | nil => simp [sepsGo, bounds, hs]
    | cons m rest' =>
      have hn : n > 0 := hl n (by simp)
      have := ih (start + n) (by omega) (fun x hx => hl x (by simp [hx])) (by simp)
      rw [sepsGo, this]
      simp [hs, bounds]

theorem sepsGo_bounds (l : List Nat) (hl : ∀ n ∈ l, n > 0) : sepsGo 0 l = bounds 0 l := by
  cases l with
  | nil => rfl
  | cons n rest =>
    cases rest with
    | nil => simp [sepsGo, bounds]
    | cons m rest' =>
      have hn : n > 0 := hl n (by simp)
      have := sepsGo_pos (0 + n) (by omega) (m :: rest') (fun x hx => hl x (by simp [hx])) (by simp)
      rw [sepsGo, this]
      simp [bounds]

example : bounds 0 [2, 3, 1] = [2, 5] := by decide

/-! ## xyz / xyz+: the reader on the written lines -/

def atomLnXyz (a : Atom) : Line := .atom (nucXyz a) a.x.parts a.y.parts a.z.parts

theorem classify_atomXyz (a : Atom) (h : AtomOk a) : classify (atomLine (nucXyz a) a) = atomLnXyz a := by
  obtain ⟨hs, _, hx, hy, hz⟩ := h
  obtain ⟨ht, hp⟩ := nucXyz_ok a hs
  exact classify_atomLine (nucXyz a) a ht hp hx hy hz

theorem xyzAtoms_written (strict : Bool) (as : List Atom)
    (hstrict : strict = true → ∀ a ∈ as, a.real = true ∧ SymOk a.sym) :
    xyzAtoms strict (as.map atomLnXyz) = some (as.map nucXyz, as.flatMap coords3) := by
  induction as with
  | nil => rfl
  | cons a as ih =>
    have ih' := ih (fun hs x hx => hstrict hs x (by simp [hx]))
    cases strict with
    | false => simp [xyzAtoms, atomLnXyz, ih', coords3]
    | true =>
      obtain ⟨hr, hsym⟩ := hstrict rfl a (by simp)
      have : isSimpleNucleus (nucXyz a) = true := by
        simp only [nucXyz, hr, if_true]; exact (simple_nucleus_accepts a.sym hsym).1
      simp [xyzAtoms, atomLnXyz, ih', coords3, this]

/-- what the xyz+ text carries / what strict xyz carries -/
def projectXyzPlus (r : MolRec) : Processed :=
  { units := some r.bohr, molChg := some r.chg.parts, molMult := some r.mult,
    elbl := (allAtoms r).map nucXyz, geom := (allAtoms r).flatMap coords3 }
def projectXyz (r : MolRec) : Processed :=
  { units := some false, elbl := (allAtoms r).map nucXyz, geom := (allAtoms r).flatMap coords3 }

theorem body_classified (r : MolRec) (h : ∀ a ∈ allAtoms r, AtomOk a) :
    ((allAtoms r).map fun a => atomLine (nucXyz a) a).map classify = (allAtoms r).map atomLnXyz := by
  rw [List.map_map]
  apply List.map_congr_left
  intro a ha
  exact classify_atomXyz a (h a ha)

theorem matchXyz1_written (natS : Str) (hn : DigitsOk natS) (bohr : Bool) :
    matchXyz1 (natS ++ (if bohr then " au".toList else [])) = some (if bohr then some true else none) := by
  have hsp : Char.isDigit ' ' = false := by decide
  cases bohr with
  | false =>
    have hne : natS.isEmpty = false := by cases natS with | nil => exact absurd rfl hn.1 | cons _ _ => rfl
    simp [matchXyz1, tw_all natS hn.2, dw_all natS hn.2, hne, lowerS]
  | true =>
    have h1 : (natS ++ " au".toList).takeWhile Char.isDigit = natS := tw_app natS _ hn.2 (Or.inr ⟨' ', "au".toList, rfl, hsp⟩)
    have h2 : (natS ++ " au".toList).dropWhile Char.isDigit = " au".toList := dw_app natS _ hn.2 (Or.inr ⟨' ', "au".toList, rfl, hsp⟩)
    have hne : natS.isEmpty = false := by cases natS with | nil => exact absurd rfl hn.1 | cons _ _ => rfl
    have h3 : lowerS (" au".toList.dropWhile isWsComma) = "au".toList := by decide
    simp only [matchXyz1, if_true, h1, h2, hne, Bool.false_eq_true, if_false, h3]
    decide

theorem matchXyz2_written (c : IntS) (m name : Str) (hc : IntOk c) (hm : DigitsOk m) :
    matchXyz2 (c.str ++ ' ' :: m ++ ' ' :: name) = some (c.parts, m) := by
  have hsep : (fun ch => !isSep ch) ' ' = false := by decide
  have hall : ∀ x ∈ c.str, (fun ch => !isSep ch) x = true := by
    intro x hx; simp [(int_tok c hc).2 x hx]
  have h1 : (c.str ++ ' ' :: m ++ ' ' :: name).takeWhile (fun ch => !isSep ch) = c.str := by
    rw [List.append_assoc]; exact tw_app c.str _ hall (Or.inr ⟨' ', _, rfl, hsep⟩)
  have h2 : (c.str ++ ' ' :: m ++ ' ' :: name).dropWhile (fun ch => !isSep ch) = ' ' :: (m ++ ' ' :: name) := by
    rw [List.append_assoc]; exact dw_app c.str _ hall (Or.inr ⟨' ', _, rfl, hsep⟩)
  obtain ⟨d, t, hdt⟩ : ∃ d t, m = d :: t := by cases m with | nil => exact absurd rfl hm.1 | cons d t => exact ⟨d, t, rfl⟩
  have hd : isSep d = false := (digits_tok hm).2 d (by simp [hdt])
  have h3 : (' ' :: (m ++ ' ' :: name)).dropWhile isSep = m ++ ' ' :: name := by
    have : isSep ' ' = true := by decide
    simp [List.dropWhile, this, hdt, hd]
  have h4 : (m ++ ' ' :: name).takeWhile Char.isDigit = m := tw_app m _ hm.2 (Or.inr ⟨' ', name, rfl, by decide⟩)
  have hme : m.isEmpty = false := by simp [hdt]
  simp only [matchXyz2, h1, h2, parseNumber_int c hc, h3, h4, hme, Bool.false_eq_true, if_false]

def XyzOk (natS : Str) (r : MolRec) : Prop :=
  DigitsOk natS ∧ IntOk r.chg ∧ DigitsOk r.mult ∧ ∀ a ∈ allAtoms r, AtomOk a

/-- **read_write_xyzplus**: reading the lines `writeXyz` prints as xyz+ gives the `@`-marked symbols, the printed
coordinates, the unit marker and the total charge and multiplicity — nothing else is carried, nothing is left over. -/
theorem read_write_xyzplus (natS : Str) (r : MolRec) (h : XyzOk natS r) :
    parseXyzLines false (writeXyz natS r) = .ok (projectXyzPlus r) := by
  obtain ⟨hn, hc, hm, ha⟩ := h
  have hne : (natS ++ (if r.bohr then " au".toList else [])).isEmpty = false := by
    cases natS with | nil => exact absurd rfl hn.1 | cons _ _ => rfl
  simp only [parseXyzLines, writeXyz, hne, Bool.false_eq_true, if_false, matchXyz1_written natS hn r.bohr,
    matchXyz2_written r.chg r.mult r.name hc hm, body_classified r ha,
    xyzAtoms_written false (allAtoms r) (fun h => by cases h)]
  cases hb : r.bohr <;> simp [projectXyzPlus, hb]

/-- **read_write_xyz**: a ghost-free record written in Angstrom reads back under the strict dialect with its symbols
and printed coordinates (the title line, hence charge and multiplicity, is ignored by strict xyz). -/
theorem read_write_xyz (natS : Str) (r : MolRec) (h : XyzOk natS r) (hb : r.bohr = false)
    (hreal : ∀ a ∈ allAtoms r, a.real = true) :
    parseXyzLines true (writeXyz natS r) = .ok (projectXyz r) := by
  obtain ⟨hn, hc, hm, ha⟩ := h
  have hne : natS.isEmpty = false := by cases natS with | nil => exact absurd rfl hn.1 | cons _ _ => rfl
  have hnat : isNatLine natS = true := by simp [isNatLine, hne, allDigits_of hn.2]
  simp only [parseXyzLines, writeXyz, hb, Bool.false_eq_true, if_false, List.append_nil, hne, if_true, hnat,
    body_classified r ha, xyzAtoms_written true (allAtoms r) (fun _ a ha' => ⟨hreal a ha', (ha a ha').1⟩)]
  simp [projectXyz]


/-! ## non-vacuity: a two-fragment record with a labelled ghost atom meets every hypothesis; concrete tests -/

def exAtom : Atom :=
  { sym := "He".toList, real := false, lbl := "_a".toList, x := ⟨true, "1".toList, "50".toList⟩,
    y := ⟨false, "0".toList, "00".toList⟩, z := ⟨false, "12".toList, "25".toList⟩ }
def exAtom2 : Atom := { exAtom with sym := "O".toList, real := true, lbl := "13".toList }
def exRec : MolRec :=
  { chg := ⟨true, "1".toList⟩, mult := "2".toList,
    frags := [⟨⟨false, "0".toList⟩, "1".toList, [exAtom]⟩, ⟨⟨true, "1".toList⟩, "2".toList, [exAtom2, exAtom2]⟩],
    bohr := true, fixCom := true, fixOrient := false, name := "x y".toList }

theorem exCoords : CoordOk exAtom.x ∧ CoordOk exAtom.y ∧ CoordOk exAtom.z :=
  ⟨⟨⟨by decide, by decide⟩, ⟨by decide, by decide⟩⟩, ⟨⟨by decide, by decide⟩, ⟨by decide, by decide⟩⟩,
   ⟨⟨by decide, by decide⟩, ⟨by decide, by decide⟩⟩⟩

theorem exAtom_ok : AtomOk exAtom :=
  ⟨⟨by decide, by decide, by decide⟩, Or.inr (Or.inl ⟨"a".toList, rfl, by decide, by decide⟩), exCoords⟩
theorem exAtom2_ok : AtomOk exAtom2 :=
  ⟨⟨by decide, by decide, by decide⟩, Or.inr (Or.inr ⟨by decide, by decide⟩), exCoords⟩

example : RecOk exRec := by
  refine ⟨⟨by decide, by decide⟩, ⟨by decide, by decide⟩, by decide, ?_⟩
  intro f hf
  simp only [exRec, List.mem_cons, List.not_mem_nil, or_false] at hf
  rcases hf with rfl | rfl
  · refine ⟨⟨by decide, by decide⟩, ⟨by decide, by decide⟩, by decide, ?_⟩
    intro a ha; simp only [List.mem_cons, List.not_mem_nil, or_false] at ha; subst ha; exact exAtom_ok
  · refine ⟨⟨by decide, by decide⟩, ⟨by decide, by decide⟩, by decide, ?_⟩
    intro a ha; simp only [List.mem_cons, List.not_mem_nil, or_false] at ha
    rcases ha with rfl | rfl <;> exact exAtom2_ok

example : XyzOk "3".toList exRec := by
  refine ⟨⟨by decide, by decide⟩, ⟨by decide, by decide⟩, ⟨by decide, by decide⟩, ?_⟩
  intro a ha
  simp only [allAtoms, exRec, List.flatMap_cons, List.flatMap_nil, List.append_nil, List.cons_append, List.nil_append,
    List.mem_cons, List.not_mem_nil, or_false] at ha
  rcases ha with rfl | rfl | rfl
  · exact exAtom_ok
  · exact exAtom2_ok
  · exact exAtom2_ok

-- tests (concrete texts through the whole text-level model, including strip / comments / line split)
set_option maxRecDepth 20000 in
example : parseText .psi4 (render (writePsi4 exRec)) = .ok (projectPsi4 exRec) := by decide +kernel
set_option maxRecDepth 20000 in
example : parseText .xyzPlus (render (writeXyz "3".toList exRec)) = .ok (projectXyzPlus exRec) := by decide +kernel
example : (projectPsi4 exRec).seps = [1] ∧ (projectPsi4 exRec).fragMult = [some "1".toList, some "2".toList] := by decide
example : parseText .psi4 "He 0 0 0\nno_com\nnocom".toList = .formatError := by decide
example : parseText .xyz "1\n\n@He 0 0 0".toList = .formatError := by decide

end QcelVerif.MolText
