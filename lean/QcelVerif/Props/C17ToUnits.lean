import QcelVerif.Props.C17Factor
/-!
# C17 — `Datum.to_units` with the derived factor: linear in the payload, and the stored Datum is not modified

Manifest (namespace `QcelVerif.Radii`):
  to_units_value, to_units_array_elementwise, to_units_same_unit, to_units_default_is_own_unit,
  to_units_accuracy, to_units_decimal_accuracy, to_units_homogeneous_pow2, to_units_preserves_datum,
  to_units_replies_history_free, to_units_repeatable

`Datum.to_units` (datum.py:96-105): `factor = constants.conversion_factor(self.units, to_unit)`, then
`factor * float(self.data)` for a Decimal payload and `factor * self.data` for a float / ndarray payload.
The general theorems hold for EVERY factor map `convF`; the `Full` versions instantiate it with the factor
derived from the CODATA set (`convModel`).  "Linear" is meant exactly as far as it is true of floats: every
output element is the exact linear map `x ↦ q·x` up to the stated roundings, elementwise, and scaling the
payload by a power of two scales the result exactly.

Value semantics: in the model a reply is a value and `to_units` returns the Datum it was given
(`Datum.callToUnits`), which is what datum.py:96-105 does (no assignment to `self`, `*` allocates a new
float / array).  Whether the ndarray a Python caller receives shares memory with the stored payload is NOT
expressible here: that side is differential (harness/c17.py, stream D: payload compared before / after every
call, repeated calls, after in-place modification of a returned array).
-/
namespace QcelVerif.Radii
open QcelVerif QcelVerif.PStr QcelVerif.PT

/-- **`to_units` is the factor applied to the payload, by payload kind** (any factor map): a Decimal goes
through `float()` first, a float is multiplied once, an array elementwise. -/
theorem to_units_value (convF : Bytes → Bytes → Option Rat) (d : Datum) (u : Option Bytes) (f : Rat)
    (hf : convF d.units (u.getD d.units) = some f) :
    d.toUnitsU convF u = .ok (match d.data with
      | .dec n c e => .value (fmul f (ofDec n c e))
      | .flt x => .value (fmul f x)
      | .arr xs => .values (xs.map (fmul f))) := by
  unfold Datum.toUnitsU Datum.toUnits
  simp only [hf]
  cases d.data <;> rfl

/-- **An array is converted element by element**: element `i` of the result is what the same Datum with the
float payload `xs[i]` converts to, and the length is kept. -/
theorem to_units_array_elementwise (convF : Bytes → Bytes → Option Rat) (d : Datum) (u : Option Bytes) (f : Rat)
    (xs : List Rat) (hd : d.data = .arr xs) (hf : convF d.units (u.getD d.units) = some f) :
    ∃ ys, d.toUnitsU convF u = .ok (.values ys) ∧ ys.length = xs.length ∧
      ∀ i (h : i < xs.length), ∃ h' : i < ys.length,
        ({ d with data := .flt xs[i] } : Datum).toUnitsU convF u = .ok (.value ys[i]) := by
  refine ⟨xs.map (fmul f), ?_, by simp, ?_⟩
  · rw [to_units_value convF d u f hf, hd]
  · intro i h
    refine ⟨by simpa using h, ?_⟩
    rw [to_units_value convF { d with data := .flt xs[i] } u f hf]
    simp

/-- **`to_units()` without argument converts to the Datum's own unit** (datum.py:99) -/
theorem to_units_default_is_own_unit (convF : Bytes → Bytes → Option Rat) (d : Datum) :
    d.toUnitsU convF none = d.toUnitsU convF (some d.units) := rfl

/-- a rational that is a double of the model: a fixed point of the rounding -/
def IsDouble (x : Rat) : Prop := rnd64 x = x

theorem fmul_one_of_isDouble {x : Rat} (h : IsDouble x) : fmul 1 x = x := by
  unfold fmul; rw [one_mul]; exact h

/-- **Converting to the unit the Datum is in returns the payload itself** (derived factor exactly 1): a
float or array of doubles comes back element for element, a Decimal as `float(Decimal)`. -/
theorem to_units_same_unit (cd : Units.Codata) (ha0 : cd.a0 ≠ 0) (d : Datum) (u : LUnit) (hu : d.units = u.name)
    (w : Option Bytes) (hw : w = none ∨ w = some u.name) :
    d.toUnitsFull cd w = .ok (match d.data with
      | .dec n c e => .value (ofDec n c e)
      | .flt x => .value (rnd64 x)
      | .arr xs => .values (xs.map rnd64)) ∧
    (∀ x, d.data = .flt x → IsDouble x → d.toUnitsFull cd w = .ok (.value x)) ∧
    (∀ xs, d.data = .arr xs → (∀ x ∈ xs, IsDouble x) → d.toUnitsFull cd w = .ok (.values xs)) := by
  have hf : convModel cd d.units (w.getD d.units) = some 1 := by
    have : w.getD d.units = u.name := by
      rcases hw with rfl | rfl
      · exact hu
      · rfl
    rw [this, hu]
    exact (native_unit_exact_full cd ha0 u).2
  have hv := to_units_value (convModel cd) d w 1 hf
  have hone : ∀ x : Rat, fmul 1 x = rnd64 x := fun x => by unfold fmul; rw [one_mul]
  have main : d.toUnitsFull cd w = .ok (match d.data with
      | .dec n c e => .value (ofDec n c e)
      | .flt x => .value (rnd64 x)
      | .arr xs => .values (xs.map rnd64)) := by
    unfold Datum.toUnitsFull
    rw [hv]
    cases d.data with
    | dec n c e => simp only [ofDec, fmul_one_rnd64]
    | flt x => simp only [hone]
    | arr xs =>
      have : List.map (fmul 1) xs = List.map rnd64 xs := List.map_congr_left (fun x _ => hone x)
      simp only [this]
  refine ⟨main, ?_, ?_⟩
  · intro x hx hdbl
    rw [main, hx]
    simp only [show rnd64 x = x from hdbl]
  · intro xs hx hdbl
    rw [main, hx]
    have : xs.map rnd64 = xs := by
      conv_rhs => rw [← List.map_id xs]
      exact List.map_congr_left (fun x hx => hdbl x hx)
    simp only [this]

/-- **Every converted float / array element is the factor times the element up to one rounding**; with a
factor within `ε` of the exact rational `q` it is within `(1+ε)(1+u) − 1` of the exact linear map `x ↦ q·x`
(`ε = u` for the model's own double, `ε = 2^-50` for an implementation double that passed `withinTol`). -/
theorem to_units_accuracy (q f x ε : Rat) (hf : |f - q| ≤ ε * |q|) :
    |fmul f x - f * x| ≤ (2 : Rat) ^ (-53 : Int) * |f * x| ∧
    |fmul f x - q * x| ≤ ((1 + ε) * (1 + (2 : Rat) ^ (-53 : Int)) - 1) * |q * x| :=
  ⟨fmul_err f x, fmul_factor_tol q f x ε hf⟩

/-- … and a Decimal payload up to the additional rounding of `float(Decimal)`. -/
theorem to_units_decimal_accuracy (q f ε : Rat) (n : Bool) (c : Nat) (e : Int) (hε : 0 ≤ ε)
    (hf : |f - q| ≤ ε * |q|) :
    |fmul f (ofDec n c e) - q * decVal n c e|
      ≤ ((1 + ε) * (1 + (2 : Rat) ^ (-53 : Int)) ^ 2 - 1) * |q * decVal n c e| :=
  factor_tolerance_accuracy q f ε n c e hε hf

/-- **Exact homogeneity for binary scalings of the payload**: `to_units` of `2^k·x` is `2^k` times `to_units`
of `x` — no additional rounding (exponent range not modelled) — for floats and, elementwise, arrays. -/
theorem to_units_homogeneous_pow2 (f x : Rat) (k : Int) (xs : List Rat) :
    fmul f ((2 : Rat) ^ k * x) = (2 : Rat) ^ k * fmul f x ∧
    (xs.map fun y => fmul f ((2 : Rat) ^ k * y)) = (xs.map (fmul f)).map (fun y => (2 : Rat) ^ k * y) := by
  have h : ∀ y : Rat, fmul f ((2 : Rat) ^ k * y) = (2 : Rat) ^ k * fmul f y := by
    intro y
    unfold fmul
    rw [show f * ((2 : Rat) ^ k * y) = (2 : Rat) ^ k * (f * y) by ring, rnd64_pow2_scale]
  refine ⟨h x, ?_⟩
  rw [List.map_map]
  exact List.map_congr_left (fun y _ => h y)

/-! ## the stored Datum is not modified -/

theorem callToUnits_preserves (convF : Bytes → Bytes → Option Rat) (d : Datum) (u : Option Bytes) :
    (d.callToUnits convF u).1 = d := rfl

/-- **No sequence of `to_units` calls changes the Datum**: label, units, payload (every digit of a Decimal,
every element of an array), comment and doi are what they were. -/
theorem to_units_preserves_datum (convF : Bytes → Bytes → Option Rat) (d : Datum) (us : List (Option Bytes)) :
    (Datum.runToUnits convF d us).1 = d := by
  induction us generalizing d with
  | nil => rfl
  | cons u us ih =>
    simp only [Datum.runToUnits]
    rw [callToUnits_preserves, ih]

/-- **Every reply of a sequence of `to_units` calls is the reply of that call alone on the original Datum**
(order, repetition and earlier target units cannot matter). -/
theorem to_units_replies_history_free (convF : Bytes → Bytes → Option Rat) (d : Datum) (us : List (Option Bytes)) :
    (Datum.runToUnits convF d us).2 = us.map (fun u => d.toUnitsU convF u) := by
  induction us generalizing d with
  | nil => rfl
  | cons u us ih =>
    simp only [Datum.runToUnits, List.map_cons]
    rw [callToUnits_preserves, ih]
    rfl

/-- in particular the same call repeated `n` times gives the same answer `n` times -/
theorem to_units_repeatable (convF : Bytes → Bytes → Option Rat) (d : Datum) (u : Option Bytes) (n : Nat) :
    (Datum.runToUnits convF d (List.replicate n u)).2 = List.replicate n (d.toUnitsU convF u) := by
  rw [to_units_replies_history_free, List.map_replicate]

-- tests (concrete Datums, derived factor of the regenerated 2014 set): 0.76 Å in pm is fl(100 · float(0.76)) = 76;
-- an array converts elementwise; the same unit gives the payload back
example : ({ label := [], units := bAngstrom, data := .dec false 76 (-2), comment := none, doi := none } : Datum).toUnitsFull
    Units.Gen.codata2014 (some [112, 109]) = .ok (.value 76) := by decide +kernel
example : ({ label := [], units := [110, 109], data := .arr [1, 3 / 2], comment := none, doi := none } : Datum).toUnitsFull
    Units.Gen.codata2014 (some bAngstrom) = .ok (.values [10, 15]) := by decide +kernel
example : ({ label := [], units := bBohr, data := .flt (5 / 4), comment := none, doi := none } : Datum).toUnitsFull
    Units.Gen.codata2014 none = .ok (.value (5 / 4)) := by decide +kernel
-- non-vacuity of `IsDouble`: 5/4 is a double, 1/10 is not (tests)
example : IsDouble (5 / 4) ∧ ¬ IsDouble (1 / 10) := by
  unfold IsDouble; constructor <;> decide +kernel

end QcelVerif.Radii
