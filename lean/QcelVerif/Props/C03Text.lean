import QcelVerif.Props.C03
import QcelVerif.Props.C03NamesA
import QcelVerif.Props.C03NamesB
import QcelVerif.Props.C03NamesC
import QcelVerif.Props.C03NamesD
import QcelVerif.Props.C03NamesE
/-!
# C03 at the level of the strings users pass (`Model/UnitText.lean`)

Property theorems (manifest — the harness audits `#print axioms` of each):

* `registry_tree_sorted` — the regenerated name table is a search tree (so `lookup` is membership in the registry's key set).
* `spellings_resolve` — every listed spelling (8 869: {long prefix, symbol prefix} × {long names, plurals, symbols} of every SI
  prefix on every table unit) that is not one of the eight collisions resolves, by pint's rule (exact key, then prefixes in registry
  order, then the plural suffix, de-duplication, first candidate) over the regenerated name set, to exactly its (prefix, unit).
* `spelling_collisions` — the eight collisions: each is a listed spelling, the rule picks the stated other registry unit.
* `canon_names_resolve` — the canonical spelling (long prefix + canonical unit name) of every prefix on every unit resolves back.
* `conv_self_text`, `conv_swap_text`, `conv_chain_text`, `conv_dim_mismatch_text`, `conv_quantity_prefactor` — the group laws and
  the refusal of unrelated dimensions for `conversion_factor` on *texts* / Quantity arguments (SI reading), for every text that parses.
* `malformed_source_refused`, `malformed_target_refused` — a text the front end refuses is refused by `conversion_factor` (no number).
* `convImpl_text_same_dim` — on texts that the code's parser reads as the text means, the code model returns the SI ratio.
* `parseImpl_eq_parseText_of_noJuxtaposition` — the code's reading and the meaning agree on every tree without juxtaposition.
* `decimal_quantity_typeError`, `non_unit_objects` — argument types: a Decimal-magnitude Quantity is TypeError; two non-unit objects give 1.
* `implicit_mul_drops_factor_counterexample` — KNOWN DEFECT: `conversion_factor("2 (3 m)", "m")` is 2 in the code model, 6 in the SI reading.

-- FULL (not proved): `∀ e, Renderable e → parseText reg (render nm e) = .ok e` for every spelling function `nm` drawn from
-- `allSpellings` minus the collisions.  What is proved instead: the name half (`spellings_resolve`, `canon_names_resolve`: every leaf
-- reads back), and kernel-evaluated *tests* of the whole pipeline on concrete expressions below; the tokenizer/tree half is tied to the
-- implementation differentially on every generated text (harness/c03.py: the tree the model reads is compared with the tree the generator
-- wrote down, exactly).
-- UPDATE: proved since, for the grammar the harness's renderer writes, in `Props/C03Parse.lean` (`tokenize_render`, `parse_tokens`,
-- `render_roundtrip`, `conv_text_render`) over the Lean port of that renderer (`Model/UnitRender.lean`).
-/
namespace QcelVerif.Units.Text
open QcelVerif.PStr (Bytes)

/-! ## names -/

theorem registry_tree_sorted : Gen.unitTree.isBST = true := by decide +kernel

theorem spellingsOf_all : (x : Base) → (spellingsOf x).all chk = true
  | .meter => sp_meter
  | .angstrom => sp_angstrom
  | .angstromCap => sp_angstromCap
  | .bohr => sp_bohr
  | .inch => sp_inch
  | .foot => sp_foot
  | .yard => sp_yard
  | .mile => sp_mile
  | .gram => sp_gram
  | .amu => sp_amu
  | .emass => sp_emass
  | .second => sp_second
  | .minute => sp_minute
  | .hour => sp_hour
  | .ampere => sp_ampere
  | .kelvin => sp_kelvin
  | .rankine => sp_rankine
  | .mole => sp_mole
  | .coulomb => sp_coulomb
  | .echarge => sp_echarge
  | .statC => sp_statC
  | .joule => sp_joule
  | .calorie => sp_calorie
  | .eV => sp_eV
  | .hartree => sp_hartree
  | .erg => sp_erg
  | .hertz => sp_hertz
  | .wavenumber => sp_wavenumber
  | .debye => sp_debye
  | .newton => sp_newton
  | .dyne => sp_dyne
  | .pascal => sp_pascal
  | .bar => sp_bar
  | .atm => sp_atm
  | .torr => sp_torr
  | .volt => sp_volt
  | .tesla => sp_tesla
  | .farad => sp_farad
  | .watt => sp_watt
  | .auPressure => sp_auPressure
  | .au .hyper1 => sp_au_hyper1
  | .au .hyper2 => sp_au_hyper2
  | .au .action => sp_au_action
  | .au .chargeDensity => sp_au_chargeDensity
  | .au .current => sp_au_current
  | .au .dipole => sp_au_dipole
  | .au .efield => sp_au_efield
  | .au .efg => sp_au_efg
  | .au .polarizability => sp_au_polarizability
  | .au .potential => sp_au_potential
  | .au .quadrupole => sp_au_quadrupole
  | .au .force => sp_au_force
  | .au .magDipole => sp_au_magDipole
  | .au .magFlux => sp_au_magFlux
  | .au .magnetizability => sp_au_magnetizability
  | .au .momentum => sp_au_momentum
  | .au .permittivity => sp_au_permittivity
  | .au .time => sp_au_time
  | .au .velocity => sp_au_velocity

/-- every listed spelling that is not one of the eight collisions resolves to the unit it was written for -/
theorem spellings_resolve (s : Spelling) (hs : s ∈ allSpellings) (hc : isCollision s = false) :
    resolveUnit Gen.nameReg s.name = .ok (s.p, s.x) := by
  unfold allSpellings at hs
  obtain ⟨x, _, hx⟩ := List.mem_flatMap.mp hs
  have h := List.all_eq_true.mp (spellingsOf_all x) s hx
  unfold chk at h
  rw [hc, Bool.false_or] at h
  exact (okS_iff s).mp h

example : (⟨3, .calorie, [107,99,97,108]⟩ : Spelling) ∈ allSpellings ∧ isCollision ⟨3, .calorie, [107,99,97,108]⟩ = false := by
  decide +kernel

/-- the eight collisions, and what the rule picks for each -/
theorem spelling_collisions : collisionTable.all chkCollision = true := by decide +kernel

def siExps : List Int := 0 :: siPrefixes.map (·.1)

/-- the canonical spelling of every SI prefix on every table unit reads back as that prefix and unit -/
theorem canon_names_resolve :
    (siExps.all fun p => allBases.all fun x =>
      match resolveUnit Gen.nameReg (canonName p x) with
      | .ok (p', x') => decide (p' = p) && decide (x' = x)
      | .error _ => false) = true := by decide +kernel

/-! ## `conversion_factor` on texts -/

/-- `conversion_factor(sa, sb)` for two `str` arguments under the SI reading -/
def convText (reg : NameReg) (cd : Codata) (sa sb : Bytes) : Except CErr Rat :=
  convArgs (parseText reg) (conv cd) (.str sa) (.str sb)

/-- … and as the code computes it -/
def convImplText (reg : NameReg) (cd : Codata) (sa sb : Bytes) : Except CErr Rat :=
  convArgs (parseImpl reg) (convImpl cd) (.str sa) (.str sb)

theorem convArgs_str {parse : Bytes → Except TErr Expr} {cv : Expr → Expr → Except Err Rat} {sa sb : Bytes} {a b : Expr}
    (ha : parse sa = .ok a) (hb : parse sb = .ok b) :
    convArgs parse cv (.str sa) (.str sb) = match cv a b with | .ok x => .ok x | .error e => .error (.conv e) := by
  unfold convArgs
  simp only [argExpr, ha, hb, Except.map, isDecimalQty, Bool.or_self, Bool.false_eq_true, if_false]
  cases cv a b <;> rfl

theorem conv_self_text (reg : NameReg) (cd : Codata) (s : Bytes) (a : Expr) (h : parseText reg s = .ok a)
    (hm : mag cd a ≠ 0) : convText reg cd s s = .ok 1 := by
  unfold convText; rw [convArgs_str h h, conv_self cd a hm]

theorem conv_swap_text (reg : NameReg) (cd : Codata) (sa sb : Bytes) (a b : Expr)
    (ha : parseText reg sa = .ok a) (hb : parseText reg sb = .ok b)
    (hd : dim a = dim b) (hma : mag cd a ≠ 0) (hmb : mag cd b ≠ 0) :
    ∃ x y, convText reg cd sa sb = .ok x ∧ convText reg cd sb sa = .ok y ∧ x * y = 1 := by
  obtain ⟨x, y, h1, h2, h3⟩ := conv_swap cd a b hd hma hmb
  refine ⟨x, y, ?_, ?_, h3⟩
  · unfold convText; rw [convArgs_str ha hb, h1]
  · unfold convText; rw [convArgs_str hb ha, h2]

theorem conv_chain_text (reg : NameReg) (cd : Codata) (sa sb sc : Bytes) (a b c : Expr)
    (ha : parseText reg sa = .ok a) (hb : parseText reg sb = .ok b) (hc : parseText reg sc = .ok c)
    (h1 : dim a = dim b) (h2 : dim b = dim c) (hmb : mag cd b ≠ 0) :
    ∃ x y z, convText reg cd sa sb = .ok x ∧ convText reg cd sb sc = .ok y ∧ convText reg cd sa sc = .ok z ∧ x * y = z := by
  obtain ⟨x, y, z, e1, e2, e3, e4⟩ := conv_chain cd a b c h1 h2 hmb
  refine ⟨x, y, z, ?_, ?_, ?_, e4⟩
  · unfold convText; rw [convArgs_str ha hb, e1]
  · unfold convText; rw [convArgs_str hb hc, e2]
  · unfold convText; rw [convArgs_str ha hc, e3]

theorem conv_dim_mismatch_text (reg : NameReg) (cd : Codata) (sa sb : Bytes) (a b : Expr)
    (ha : parseText reg sa = .ok a) (hb : parseText reg sb = .ok b) (hd : dim a ≠ dim b) :
    convText reg cd sa sb = .error (.conv .dimensionality) := by
  unfold convText; rw [convArgs_str ha hb, conv_dim_mismatch cd a b hd]

/-- Quantity arguments `p * parse(sa)`, `q * parse(sb)`: the factor is `p / q` times the factor of the texts (an error stays that error) -/
theorem conv_quantity_prefactor (reg : NameReg) (cd : Codata) (sa sb : Bytes) (a b : Expr) (p q : Rat)
    (ha : parseText reg sa = .ok a) (hb : parseText reg sb = .ok b) :
    convArgs (parseText reg) (conv cd) (.qty p sa) (.qty q sb) = (convText reg cd sa sb).map (fun x => p / q * x) := by
  unfold convText
  rw [convArgs_str ha hb]
  simp only [convArgs, argExpr, ha, hb, isDecimalQty, Except.map, Bool.or_self, Bool.false_eq_true, if_false]
  rw [conv_prefactor cd a b p q]
  cases conv cd a b <;> rfl

/-- a source text the front end refuses: `conversion_factor` raises that error, whatever the target is -/
theorem malformed_source_refused (parse : Bytes → Except TErr Expr) (cv : Expr → Expr → Except Err Rat) (sa : Bytes) (c : Arg) (e : TErr)
    (h : parse sa = .error e) : convArgs parse cv (.str sa) c = .error (.text e) := by
  simp [convArgs, argExpr, h, Except.map]

theorem malformed_target_refused (parse : Bytes → Except TErr Expr) (cv : Expr → Expr → Except Err Rat) (sa sb : Bytes) (a : Expr) (e : TErr)
    (ha : parse sa = .ok a) (h : parse sb = .error e) : convArgs parse cv (.str sa) (.str sb) = .error (.text e) := by
  simp [convArgs, argExpr, ha, h, Except.map]

/-- the code on texts: where its parser reads what the text means, and the dimensions agree, it returns the SI ratio -/
theorem convImpl_text_same_dim (reg : NameReg) {cd : Codata} (hp : cd.Pos) (sa sb : Bytes) (a b : Expr)
    (ha : parseText reg sa = .ok a) (hb : parseText reg sb = .ok b)
    (ha' : parseImpl reg sa = .ok a) (hb' : parseImpl reg sb = .ok b) (hd : dim a = dim b) :
    convImplText reg cd sa sb = convText reg cd sa sb := by
  unfold convImplText convText
  rw [convArgs_str ha' hb', convArgs_str ha hb, convImpl_same_dim hp a b hd]

/-- trees without juxtaposition -/
def NoJuxt : PT → Prop
  | .num _ _ _ => True
  | .name _ => True
  | .bin _ l r => NoJuxt l ∧ NoJuxt r
  | .imul _ _ => False
  | .un _ t => NoJuxt t

/-- the code's reading of a tree is its meaning unless something is juxtaposed -/
theorem parseImpl_eq_parseText_of_noJuxtaposition (res : Bytes → Except TErr (Int × Base)) (t : PT) (h : NoJuxt t) :
    evalTree res true t = evalTree res false t := by
  induction t with
  | num m e i => rfl
  | name s => rfl
  | bin o l r ihl ihr => simp only [evalTree, ihl h.1, ihr h.2]
  | imul l r _ _ => exact absurd h (by simp [NoJuxt])
  | un o t ih => simp only [evalTree, ih h]

example : NoJuxt (.bin .mul (.num 2 0 true) (.un .minus (.name [109]))) := by simp [NoJuxt]

/-! ## argument types -/

theorem decimal_quantity_typeError (parse : Bytes → Except TErr Expr) (cv : Expr → Expr → Except Err Rat) (sa sb : Bytes) (a b : Expr)
    (ha : parse sa = .ok a) (hb : parse sb = .ok b) :
    convArgs parse cv (.qtyDecimal sa) (.str sb) = .error .typeError ∧ convArgs parse cv (.str sa) (.qtyDecimal sb) = .error .typeError := by
  simp [convArgs, argExpr, ha, hb, isDecimalQty, Except.map]

theorem non_unit_objects (parse : Bytes → Except TErr Expr) (cv : Expr → Expr → Except Err Rat) :
    convArgs parse cv .other .other = .ok 1 := by
  simp [convArgs, argExpr, isDecimalQty]

/-! ## the dropped factor -/

def isOk (r : Except CErr Rat) (v : Rat) : Bool := match r with | .ok x => decide (x = v) | .error _ => false

/-- KNOWN DEFECT (pint's `_eval_implicit_mul`, reached through `conversion_factor`): `2 (3 m)` → `m` is 2 in the code model and 6 in
    the SI reading; with an explicit `*` both are 6 -/
theorem implicit_mul_drops_factor_counterexample :
    isOk (convImplText Gen.nameReg Gen.codata2014 [50,32,40,51,32,109,41] [109]) 2 = true ∧
    isOk (convText Gen.nameReg Gen.codata2014 [50,32,40,51,32,109,41] [109]) 6 = true ∧
    isOk (convImplText Gen.nameReg Gen.codata2014 [50,32,42,32,40,51,32,109,41] [109]) 6 = true := by decide +kernel

/-! ## tests (concrete, kernel-evaluated): text → expression, and render → text → the same factor -/

def parsesTo (s : Bytes) (cd : Codata) (v : Rat) (t : Bytes) : Bool := isOk (convText Gen.nameReg cd s t) v

-- TEST: "kcal/mol" → "J/mol" is 4184
example : parsesTo [107,99,97,108,47,109,111,108] Gen.codata2014 4184 [74,47,109,111,108] = true := by decide +kernel
-- TEST: spelling variety: "2.5e-1 kilocalories mole^-1" → "cal / mol" is 250
example : parsesTo [50,46,53,101,45,49,32,107,105,108,111,99,97,108,111,114,105,101,115,32,109,111,108,101,94,45,49] Gen.codata2014 250 [99,97,108,32,47,32,109,111,108] = true := by decide +kernel
-- TEST: the canonical rendering of an expression reads back with the same factor
example : parsesTo (render canonName (.div (.mul (.num (5/2)) (.unit 3 .calorie)) (.pow (.unit 0 .mole) (-1)))) Gen.codata2014 1
    (render canonName (.div (.mul (.num (5/2)) (.unit 3 .calorie)) (.pow (.unit 0 .mole) (-1)))) = true := by decide +kernel
def isErr (r : Except TErr Expr) (e : TErr) : Bool := match r with | .error e' => decide (e' = e) | .ok _ => false

-- TEST: malformed texts are refused with the class of the implementation
example : isErr (parseText Gen.nameReg [109,32,42]) .syntax = true ∧ isErr (parseText Gen.nameReg [40,109]) .token = true ∧
    isErr (parseText Gen.nameReg [109,32,40,41]) .assertion = true ∧ isErr (parseText Gen.nameReg [102,111,111,42,109]) .undefinedUnit = true := by
  decide +kernel

end QcelVerif.Units.Text
