import QcelVerif.Model.MolDictAst
import QcelVerif.Props.C09Src
/-!
# C09 — `_filter_defaults`: the hand model computes what the SOURCE-DERIVED term computes

`Gen.filterFn` (Gen/MolSchemaSrc.lean) is `_filter_defaults` of qcelemental/models/molecule.py as re-read by
`harness/c09_src.py` on every run: `nat`, `default_mass`, every `dicary.pop(k)` and every `if <guard>: pop ...` in order, each
guard with the key it reads.  `Src.evalFilter` (Model/MolDictAst.lean) runs such a term on a `MolDict`, keys addressed by name.
Proved here for ALL dictionaries and every `to_mass`: the evaluator at the generated term IS `MolDict.filterDefaults`
(Model/MolDict.lean) - same result, same KeyError cases.  A change of a popped key, of the order, of a guard or of the key a guard
compares (e.g. masses -> mass_numbers) changes the term and breaks this theorem.

PROPERTY-THEOREMS: src_filterDefaults_eq
-/
namespace QcelVerif.MolSchema
open Src QcelVerif.MolDict

variable {K : Type} [DecidableEq K]

/-- the source-derived `_filter_defaults` is the hand model's `filterDefaults`, for every dictionary and every default-mass table -/
theorem src_filterDefaults_eq (massOf : String → K) (d : MolDict K) :
    evalFilter Gen.filterFn massOf d = liftE (filterDefaults massOf d) := by
  rcases d with ⟨symbols, geometry, masses, atomicNumbers, massNumbers, atomLabels, real, name, comment, charge, mult,
    fragments, fragCharges, fragMults, fixCom, fixOri, fixSym, connectivity, validated⟩
  have ha : ∀ n, arangeI n = arange n := fun _ => rfl
  cases symbols with
  | none => simp [evalFilter, Gen.filterFn, encMol, filterDefaults, liftE]
  | some syms =>
  cases atomicNumbers with
  | none => simp [evalFilter, Gen.filterFn, encMol, filterDefaults, liftE, evalFStmts, popField]
  | some an =>
  cases masses with
  | none => simp [evalFilter, Gen.filterFn, encMol, filterDefaults, liftE, evalFStmts, popField, evalFCond]
  | some ms =>
  cases real with
  | none =>
    by_cases hm : List.map massOf syms = ms <;> cases massNumbers <;>
      simp [evalFilter, Gen.filterFn, encMol, filterDefaults, liftE, evalFStmts, popField, evalFCond, popAll, hm]
  | some re =>
  cases atomLabels with
  | none =>
    by_cases hm : List.map massOf syms = ms <;> cases massNumbers <;> by_cases hr : re.all id = true <;>
      simp [evalFilter, Gen.filterFn, encMol, filterDefaults, liftE, evalFStmts, popField, evalFCond, popAll, hm, hr]
  | some lb =>
  cases fragments with
  | none =>
    cases connectivity <;>
    by_cases hm : List.map massOf syms = ms <;> cases massNumbers <;> by_cases hr : re.all id = true <;>
      by_cases hl : lb = List.replicate syms.length "" <;>
      simp [evalFilter, Gen.filterFn, encMol, filterDefaults, liftE, evalFStmts, popField, evalFCond, popAll, hm, hr, hl]
  | some fr =>
  cases connectivity <;> cases massNumbers <;> cases fragCharges <;> cases fragMults <;>
    by_cases hm : List.map massOf syms = ms <;> by_cases hr : re.all id = true <;>
    by_cases hl : lb = List.replicate syms.length "" <;> by_cases hf : fr = [arange syms.length] <;>
    simp [evalFilter, Gen.filterFn, encMol, filterDefaults, liftE, evalFStmts, popField, evalFCond, popAll, hm, hr, hl, hf, ha]

/-- test: default masses, all real, no labels, one all-atom fragment -> the seven defaulted keys are popped, the rest stays -/
example :
    (match evalFilter Gen.filterFn (fun _ => (1 : Int))
        { symbols := some ["H", "H"], geometry := some [0, 0, 0, 0, 0, 1], masses := some [1, 1], atomicNumbers := some [1, 1],
          massNumbers := some [1, 1], atomLabels := some ["", ""], real := some [true, true], name := none, comment := none,
          charge := some 0, mult := some 1, fragments := some [[0, 1]], fragCharges := some [0], fragMults := some [1],
          fixCom := none, fixOri := none, fixSym := none, connectivity := none, validated := some true } with
      | .ok d => d.masses.isNone && d.massNumbers.isNone && d.atomicNumbers.isNone && d.real.isNone && d.atomLabels.isNone &&
          d.fragments.isNone && d.fragCharges.isNone && d.fragMults.isNone && d.symbols.isSome && d.geometry.isSome
      | .error _ => false) = true := by
  rw [src_filterDefaults_eq]
  decide

end QcelVerif.MolSchema
