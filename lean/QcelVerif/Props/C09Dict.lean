import QcelVerif.Lemmas.MolDict
/-!
# C09 (c) — `Molecule.__init__` / `dict()` around the schema functions: property theorems

Model: `Model/MolDict.lean` (`filterDefaults`, `merge`, `construct`, `dictOf`, `rebuild`, the accessors).
Core Lean only.

PROPERTY-THEOREMS:
  after_from_schema_closed_form  construct_sets_validated  rebuild_validated_identity  dict_fixed_point
  filter_drops_exactly_defaults  filter_invisible_to_accessors  filter_single_fragment_multiplicity_counterexample
  merge_schema_wins  merge_keeps_caller_entry
-/
namespace QcelVerif.MolDict
open QcelVerif.MolSchema

section
variable {K : Type} [Mul K] [DecidableEq K]

/-- **Closed form of the constructor after `from_schema`.**  Whatever record `r` `from_schema` returned, the part
of `Molecule.__init__` that follows (to_schema dtype 2 → `_filter_defaults` → `validated = True` →
`{**kwargs, **schema}` → title-cased symbols, `float_prep`'d geometry) succeeds — `to_schema` writes every key
`_filter_defaults` pops — and is this expression. -/
theorem after_from_schema_closed_form (P : Params K) (kw : MolDict K) (r : Molrec K) :
    afterFromSchema P kw r =
      .ok (finish P (merge { kw with validated := some true } (filteredOf P.massOf (molDict P.dflt P.fg r)))) := by
  unfold afterFromSchema
  rw [filterDefaults_full P.massOf _ (full_molDict P.dflt P.fg r)]

/-- a successfully constructed Molecule has `validated = True` set -/
theorem construct_sets_validated (P : Params K) (fa : FAArgs K → Except Err (Molrec K)) (nm : Option String)
    (ver : Option Int) (kw m : MolDict K) (h : construct P fa nm ver kw = .ok m) : m.validated = some true := by
  unfold construct at h
  split at h
  · cases h
  · rename_i r _
    rw [after_from_schema_closed_form] at h
    cases h
    simp [finish, merge, filteredOf, molDict, orElse']

/-- `Molecule(**d)` with `d["validated"] = True` runs no validation: the object holds exactly `d` -/
theorem rebuild_validated_identity (P : Params K) (fa : FAArgs K → Except Err (Molrec K)) (nm : Option String)
    (ver : Option Int) (d : MolDict K) (h : d.validated = some true) : rebuild P fa nm ver d = .ok d := by
  simp [rebuild, h]

/-- **dict_fixed_point.**  `Molecule(**mol.dict())` is `mol` — for every Molecule `mol` that a validating
construction returned, whatever the keyword arguments, the `from_arrays` behaviour and the parameters were:
`dict()` carries `validated = True`, so the rebuild validates nothing, rounds nothing and re-titles nothing. -/
theorem dict_fixed_point (P : Params K) (fa : FAArgs K → Except Err (Molrec K)) (nm : Option String)
    (ver : Option Int) (kw m : MolDict K) (h : construct P fa nm ver kw = .ok m)
    (fa' : FAArgs K → Except Err (Molrec K)) (nm' : Option String) (ver' : Option Int) :
    rebuild P fa' nm' ver' (dictOf m) = .ok m :=
  rebuild_validated_identity P fa' nm' ver' m (construct_sets_validated P fa nm ver kw m h)

end

section
variable {K : Type} [DecidableEq K]

/-- **Which keys `_filter_defaults` drops** (dictionary with every key present): `atomic_numbers` always;
`masses` and `mass_numbers` exactly when the masses ARE the default masses (exact equality — masses merely
close to the defaults are kept: the repaired `np.allclose` → `np.array_equal` test); `real` exactly when all
atoms are real; `atom_labels` exactly when all labels are empty; the three fragment keys exactly when the
pattern is the one fragment `[0, …, nat-1]`; every other key is kept as it is. -/
theorem filter_drops_exactly_defaults (massOf : String → K) (d f : MolDict K) (hd : Full d)
    (h : filterDefaults massOf d = .ok f) :
    f.atomicNumbers = none ∧
    (f.masses = none ↔ d.masses = some ((d.symbols.getD []).map massOf)) ∧
    (f.massNumbers = none ↔ d.masses = some ((d.symbols.getD []).map massOf)) ∧
    (f.masses ≠ none → f.masses = d.masses ∧ f.massNumbers = d.massNumbers) ∧
    (f.real = none ↔ (d.real.getD []).all id = true) ∧ (f.real ≠ none → f.real = d.real) ∧
    (f.atomLabels = none ↔ d.atomLabels = some (List.replicate (d.symbols.getD []).length "")) ∧
    (f.fragments = none ↔ d.fragments = some [arangeI (d.symbols.getD []).length]) ∧
    (f.fragCharges = none ↔ f.fragments = none) ∧ (f.fragMults = none ↔ f.fragments = none) ∧
    (f.fragments ≠ none → f.fragments = d.fragments ∧ f.fragCharges = d.fragCharges ∧ f.fragMults = d.fragMults) ∧
    f.symbols = d.symbols ∧ f.geometry = d.geometry ∧ f.name = d.name ∧ f.comment = d.comment ∧
    f.charge = d.charge ∧ f.mult = d.mult ∧ f.fixCom = d.fixCom ∧ f.fixOri = d.fixOri ∧ f.fixSym = d.fixSym ∧
    f.connectivity = d.connectivity ∧ f.validated = d.validated := by
  rw [filterDefaults_full massOf d hd] at h
  cases h
  obtain ⟨h1, h2, h3, h4, h5, h6, h7, h8, h9⟩ := hd
  obtain ⟨ms, hms⟩ := Option.isSome_iff_exists.1 h3
  obtain ⟨mn, hmn⟩ := Option.isSome_iff_exists.1 h4
  obtain ⟨re, hre⟩ := Option.isSome_iff_exists.1 h5
  obtain ⟨lb, hlb⟩ := Option.isSome_iff_exists.1 h6
  obtain ⟨fr, hfr⟩ := Option.isSome_iff_exists.1 h7
  obtain ⟨fc, hfc⟩ := Option.isSome_iff_exists.1 h8
  obtain ⟨fm, hfm⟩ := Option.isSome_iff_exists.1 h9
  unfold filteredOf dfltMasses allReal noLabels oneFragment
  simp only [hms, hmn, hre, hlb, hfr, hfc, hfm, Option.getD_some, decide_eq_true_eq]
  refine ⟨trivial, ?_, ?_, ?_, ?_, ?_, ?_, ?_, ?_, ?_, ?_, trivial, trivial, trivial, trivial, trivial, trivial,
    trivial, trivial, trivial, trivial, trivial⟩
  all_goals (split <;> simp_all)

end

/-! ### `_filter_defaults` is invisible to the accessors (hence to `get_hash`) -/

/-- **`_filter_defaults` changes no accessor value** — what `masses`, `real`, `atom_labels`, `fragments`,
`fragment_charges`, `fragment_multiplicities` (molecule.py:449-509) return is the same before and after the
filter, for a full dictionary whose per-atom arrays have one entry per symbol and which has its charge and
multiplicity, PROVIDED a one-fragment dictionary lists the molecular charge / multiplicity as the fragment's
(`singleOkB`; not implied by validation — see the counter-example below). -/
theorem filter_invisible_to_accessors {K : Type} [DecidableEq K] (massOf : String → K) (zero : K) (d : MolDict K)
    (hd : Full d) (hreal : ∀ l, d.real = some l → l.length = (d.symbols.getD []).length)
    (hc : d.charge.isSome = true) (hm : d.mult.isSome = true) (hs : singleOkB d = true) :
    massesR massOf (filteredOf massOf d) = massesR massOf d ∧
    realR (filteredOf massOf d) = realR d ∧
    atomLabelsR (filteredOf massOf d) = atomLabelsR d ∧
    fragmentsR (filteredOf massOf d) = fragmentsR d ∧
    fragChargesR zero (filteredOf massOf d) = fragChargesR zero d ∧
    fragMultsR (filteredOf massOf d) = fragMultsR d := by
  obtain ⟨h1, h2, h3, h4, h5, h6, h7, h8, h9⟩ := hd
  obtain ⟨sy, hsy⟩ := Option.isSome_iff_exists.1 h1
  obtain ⟨ms, hms⟩ := Option.isSome_iff_exists.1 h3
  obtain ⟨re, hre⟩ := Option.isSome_iff_exists.1 h5
  obtain ⟨lb, hlb⟩ := Option.isSome_iff_exists.1 h6
  obtain ⟨fr, hfr⟩ := Option.isSome_iff_exists.1 h7
  obtain ⟨fc, hfc⟩ := Option.isSome_iff_exists.1 h8
  obtain ⟨fm, hfm⟩ := Option.isSome_iff_exists.1 h9
  obtain ⟨c, hcc⟩ := Option.isSome_iff_exists.1 hc
  obtain ⟨m, hmm⟩ := Option.isSome_iff_exists.1 hm
  have hrl := hreal re hre
  simp only [hsy, Option.getD_some] at hrl
  refine ⟨?_, ?_, ?_, ?_, ?_, ?_⟩
  · unfold massesR filteredOf dfltMasses
    simp only [hsy, hms, Option.getD_some, Option.some.injEq, decide_eq_true_eq]
    split <;> simp_all
  · unfold realR filteredOf allReal
    simp only [hsy, hre, Option.getD_some]
    by_cases ha : re.all id = true
    · simp only [ha, if_true]
      rw [map_const_true, ← hrl]
      exact (all_id_eq_replicate re ha).symm
    · simp [ha]
  · unfold atomLabelsR filteredOf noLabels
    simp only [hsy, hlb, Option.getD_some, Option.some.injEq, decide_eq_true_eq]
    by_cases h : lb = List.replicate sy.length ""
    · simp only [h, if_true]
      clear h hsy hrl
      induction sy with
      | nil => rfl
      | cons a t ih => simp [List.replicate_succ, ih]
    · simp [h]
  · unfold fragmentsR filteredOf oneFragment
    simp only [hsy, hfr, Option.getD_some, Option.some.injEq, decide_eq_true_eq]
    split <;> simp_all
  · unfold singleOkB oneFragment at hs
    unfold fragChargesR filteredOf oneFragment
    simp only [hsy, hfr, hfc, hfm, hcc, hmm, Option.getD_some, Option.some.injEq, decide_eq_true_eq, Option.map_some,
      Bool.or_eq_true, Bool.not_eq_true', decide_eq_false_iff_not, Bool.and_eq_true] at hs ⊢
    by_cases h : fr = [arangeI sy.length]
    · rcases hs with hs | hs
      · exact absurd h hs
      · simp [h, hs.1]
    · simp [h]
  · unfold singleOkB oneFragment at hs
    unfold fragMultsR filteredOf oneFragment
    simp only [hsy, hfr, hfc, hfm, hcc, hmm, Option.getD_some, Option.some.injEq, decide_eq_true_eq, Option.map_some,
      Bool.or_eq_true, Bool.not_eq_true', decide_eq_false_iff_not, Bool.and_eq_true] at hs ⊢
    by_cases h : fr = [arangeI sy.length]
    · rcases hs with hs | hs
      · exact absurd h hs
      · simp [h, hs.2]
    · simp [h]

/-- a one-atom, one-fragment dictionary with total multiplicity 1 and fragment multiplicity 3 (what
`from_arrays` returns for `He` with `fragment_multiplicities=[3]`, `molecular_multiplicity=1`: the open finding
`C05-molecule-from-string-single-fragment-mult`) -/
def heTriplet : MolDict Int :=
  { symbols := some ["He"], geometry := some [0, 0, 0], masses := some [4], atomicNumbers := some [2],
    massNumbers := some [4], atomLabels := some [""], real := some [true], name := some "He", comment := none,
    charge := some 0, mult := some 1, fragments := some [[0]], fragCharges := some [0], fragMults := some [3],
    fixCom := some false, fixOri := some false, fixSym := none, connectivity := none, validated := some true }

/-- **The proviso `singleOkB` is needed** (test, `decide`): on `heTriplet` the filter drops the fragment keys and
the accessor then reports `[molecular_multiplicity] = [1]` where the dictionary said `[3]`. -/
theorem filter_single_fragment_multiplicity_counterexample :
    Full heTriplet ∧ singleOkB heTriplet = false ∧
    fragMultsR heTriplet = [3] ∧ fragMultsR (filteredOf (fun _ => 4) heTriplet) = [1] := by
  refine ⟨⟨rfl, rfl, rfl, rfl, rfl, rfl, rfl, rfl, rfl⟩, ?_, ?_, ?_⟩ <;> decide

/-! ### `{**kwargs, **schema}` -/

/-- an entry of the schema wins over the caller's -/
theorem merge_schema_wins {K : Type} (kw s : MolDict K) :
    (∀ x, s.masses = some x → (merge kw s).masses = some x) ∧ (∀ x, s.real = some x → (merge kw s).real = some x) ∧
    (∀ x, s.geometry = some x → (merge kw s).geometry = some x) ∧ (∀ x, s.symbols = some x → (merge kw s).symbols = some x) ∧
    (∀ x, s.fragments = some x → (merge kw s).fragments = some x) ∧
    (∀ x, s.connectivity = some x → (merge kw s).connectivity = some x) ∧
    (∀ x, s.name = some x → (merge kw s).name = some x) := by
  refine ⟨?_, ?_, ?_, ?_, ?_, ?_, ?_⟩ <;> intro x h <;> simp [merge, orElse', h]

/-- a key only the caller gave is kept (so defaults the caller SPELLED OUT survive `_filter_defaults`) -/
theorem merge_keeps_caller_entry {K : Type} (kw s : MolDict K) :
    (s.masses = none → (merge kw s).masses = kw.masses) ∧ (s.real = none → (merge kw s).real = kw.real) ∧
    (s.atomLabels = none → (merge kw s).atomLabels = kw.atomLabels) ∧
    (s.atomicNumbers = none → (merge kw s).atomicNumbers = kw.atomicNumbers) ∧
    (s.massNumbers = none → (merge kw s).massNumbers = kw.massNumbers) ∧
    (s.fragments = none → (merge kw s).fragments = kw.fragments) ∧
    (s.fragCharges = none → (merge kw s).fragCharges = kw.fragCharges) ∧
    (s.fragMults = none → (merge kw s).fragMults = kw.fragMults) := by
  refine ⟨?_, ?_, ?_, ?_, ?_, ?_, ?_, ?_⟩ <;> intro h <;> simp [merge, orElse', h] <;> split <;> simp_all

/-! ### non-vacuity (tests): a water-like record, its Molecule, the rebuild -/

def exP : Params Int :=
  { dflt := 2, fg := fun _ => "H2O", massOf := fun s => if s = "O" then 16 else 1, prep := fun x => x, title := titleAscii }

def exKw : MolDict Int :=
  { (emptyDict : MolDict Int) with symbols := some ["o", "H", "h"], geometry := some [0, 0, 0, 0, 0, 2, 0, 2, 0],
                                   real := some [true, true, true] }

def exRec : Molrec Int :=
  { units := .bohr, iutau := none, geom := [0, 0, 0, 0, 0, 2, 0, 2, 0], elea := [16, 1, 1], elez := [8, 1, 1],
    elem := ["O", "H", "H"], mass := [16, 1, 1], real := [true, true, true], elbl := ["", "", ""], seps := [],
    fragCharges := [0], fragMults := [1], charge := 0, mult := 1, fixCom := false, fixOri := false, fixSym := none,
    name := none, comment := none, connectivity := none }

/-- test: the constructed object keeps the caller's `real`, drops masses / labels / fragments / atomic numbers -/
example : (match construct exP (fun _ => .ok exRec) none none exKw with
    | .ok m => decide (keysOf m = ["symbols", "geometry", "real", "name", "molecular_charge", "molecular_multiplicity",
                                    "fix_com", "fix_orientation", "validated"])
    | .error _ => false) = true := by decide

/-- test: hypothesis of `dict_fixed_point` satisfiable -/
example : ∃ m, construct exP (fun _ => .ok exRec) none none exKw = .ok m := by
  have h : fromSchema (fun _ => Except.ok exRec)
      { schemaName := some ((none : Option String).getD "qcschema_molecule"), schemaVersion := some ((none : Option Int).getD 2),
        molecule := none, top := exKw } = Except.ok exRec := by rfl
  exact ⟨_, by unfold construct; rw [h]; exact after_from_schema_closed_form exP exKw exRec⟩

/-- test: hypotheses of `filter_invisible_to_accessors` satisfiable -/
example : Full (molDict 2 (fun _ => "H2O") exRec) ∧ singleOkB (molDict 2 (fun _ => "H2O") exRec) = true := by
  refine ⟨full_molDict _ _ _, by decide⟩

end QcelVerif.MolDict
