import QcelVerif.Model.CompareAst
import QcelVerif.Gen.CompareSrc
import QcelVerif.Props.C19
import QcelVerif.Props.C19Wide
/-!
# C19 — the hand models of `compare_values` / `compare` / `_compare_recursive` / `compare_recursive` are what the SOURCE says

`Gen/CompareSrc.lean` is rewritten on every run from `qcelemental/testing.py` (harness/c19_src.py, by `ast`): the decision
skeletons of `_handle_return`, `compare_values`, `compare`, the `isinstance` chain of `_compare_recursive`, and the top-level
stages of `compare_recursive` with `_path_under`, as terms of `Model/CompareAst.lean`.  Here: for ALL inputs the evaluator of
those terms returns what the hand models (`compareValues`, `compareExact`, `recErrsW`, `compareRecursiveW`) return; hence the
headline theorems of Props/C19.lean / C19Wide.lean hold of the source-derived functions.  Each `…Src_eq_ref` below is `rfl`
between the regenerated term and the skeleton the model was written from: a changed source breaks it (and the tests beside
the theorems), the real work is in the `…Ref_eq_model` lemmas (all inputs).

PROPERTY-THEOREMS: handleReturnSrc_passes_verdict compareValuesSrc_eq_model compareSrc_eq_model
  compareValuesSrc_true_iff compareValuesSrc_real_iff compareValuesSrc_array_iff compareValuesSrc_nan_only_on_request compareValuesSrc_phase_only_on_request
  compareSrc_true_iff src_verdict_independent_of_reporting
  recSrc_eq_model compareRecursiveSrc_eq_model compareRecursiveSrc_iff
-/
namespace QcelVerif.CompareAst
open QcelVerif.Compare QcelVerif.Gen.CompareSrc

/-! ## the skeletons the hand models were written from -/

def handleReturnRef : Handler := ⟨.returnMessage, .passfail, .message, .passfail⟩

def compareValuesRef : List Stmt := [
  .defaultHandler,
  .ifReturn (.and (.flag (.param .passnone)) (.and (.isNone .expected) (.isNone .computed))) ⟨.lit true, .returnMessage, .quiet⟩,
  .castFloat [.expected, .computed] .expected .computed ⟨.lit false, .returnMessage, .quiet⟩,
  .ifReturn (.shape .ne .xptd .cptd) ⟨.lit false, .returnMessage, .quiet⟩,
  .log10 .atol,
  .setAll (.isclose ⟨.cptd, false⟩ ⟨.xptd, false⟩ .rtol .atol (.param .equalNan)) .all,
  .ifSetAll (.and (.not .allclose) (.and (.flag (.param .equalPhase)) (.hasNeg .cptd)))
    (.isclose ⟨.cptd, true⟩ ⟨.xptd, false⟩ .rtol .atol (.param .equalNan)) .all false,
  .ret ⟨.allclose, .returnMessage, .quiet⟩]

def compareRef : List Stmt := [
  .defaultHandler,
  .castPlain .expected .computed ⟨.lit false, .returnMessage, .quiet⟩,
  .ifReturn (.shape .ne .xptd .cptd) ⟨.lit false, .returnMessage, .quiet⟩,
  .setAll (.eq ⟨.xptd, false⟩ ⟨.cptd, false⟩) .all,
  .ifSetAll (.and (.not .allclose) (.flag (.param .equalPhase))) (.eq ⟨.xptd, false⟩ ⟨.cptd, true⟩) .all true,
  .ret ⟨.allclose, .returnMessage, .quiet⟩]

/-- the obligations a changed source breaks: the regenerated terms ARE the reference skeletons -/
theorem handleReturnSrc_eq_ref : handleReturnSrc = handleReturnRef := rfl
theorem compareValuesSrc_eq_ref : compareValuesSrc = compareValuesRef := rfl
theorem compareSrc_eq_ref : compareSrc = compareRef := rfl

/-! ## `_handle_return` -/

/-- `_handle_return` (and any caller-supplied handler's first argument) carries the boolean it was given -/
theorem handleReturnSrc_passes_verdict (v m q : Bool) :
    evalHandler handleReturnSrc v m q = some (if m then .withMessage v else .plain v) ∧
    ∀ r, evalHandler handleReturnSrc v m q = some r → r.passfail = v := by
  rw [handleReturnSrc_eq_ref]
  cases m <;> simp [evalHandler, hBool, handleReturnRef, Ret.passfail]

theorem callHandler_ref (rep : Reporting) (st : St) (hs : st.handlerSet = true) (v : BoolE) (b : Bool)
    (hv : boolEVal st v = some b) :
    callHandler handleReturnRef rep st ⟨v, .returnMessage, .quiet⟩ = .ret (report rep b) := by
  unfold callHandler report
  simp only [hv]
  cases rep.customHandler <;> cases hm : rep.returnMessage <;>
    simp [evalHandler, hBool, handleReturnRef, repVal, hs, hm]

/-! ## compare_values -/

theorem passnone_guard (o : VOpts) (e c : Tree) (st : St) :
    evalCond o e c st (.and (.flag (.param .passnone)) (.and (.isNone .expected) (.isNone .computed)))
      = some (o.passnone && isNone e && isNone c) := by
  cases hp : o.passnone <;> cases h1 : isNone e <;> cases h2 : isNone c <;> simp [evalCond, flagVal, pick, hp, h1, h2]

/-- the statements after the cast, on real data -/
theorem values_tail_real (rep : Reporting) (o : VOpts) (e c : Tree) (h0 : 0 < o.atol) (sx sc : List Nat) (xs cs : List XR) :
    evalStmts handleReturnRef rep o e c (compareValuesRef.drop 3) { data := some (.real sx sc xs cs), handlerSet := true }
      = .ret (report rep (if sx ≠ sc then false
          else allClosePhase (closeR o.atol o.rtol o.equalNan) XR.neg o.equalPhase cs xs)) := by
  have hna : ¬ o.atol ≤ 0 := Rat.not_le.mpr h0
  by_cases hs : sx = sc
  · subst hs
    cases hb : all2 (closeR o.atol o.rtol o.equalNan) cs xs <;> cases hp : o.equalPhase <;>
      simp [compareValuesRef, evalStmts, evalCond, cmpShape, Data.shape, tolVal, hna, evalTest, agg, sel, negIf, flagVal,
        allClosePhase, hb, hp, callHandler_ref, boolEVal]
  · have hne : (sx != sc) = true := by simpa using hs
    simp [compareValuesRef, evalStmts, evalCond, cmpShape, Data.shape, hs, hne, callHandler_ref, boolEVal]

/-- the statements after the cast, on complex data -/
theorem values_tail_cplx (rep : Reporting) (o : VOpts) (e c : Tree) (h0 : 0 < o.atol) (sx sc : List Nat) (xs cs : List Cx) :
    evalStmts handleReturnRef rep o e c (compareValuesRef.drop 3) { data := some (.cplx sx sc xs cs), handlerSet := true }
      = .ret (report rep (if sx ≠ sc then false
          else allClosePhase (closeC o.atol o.rtol o.equalNan) Cx.neg o.equalPhase cs xs)) := by
  have hna : ¬ o.atol ≤ 0 := Rat.not_le.mpr h0
  by_cases hs : sx = sc
  · subst hs
    cases hb : all2 (closeC o.atol o.rtol o.equalNan) cs xs <;> cases hp : o.equalPhase <;>
      simp [compareValuesRef, evalStmts, evalCond, cmpShape, Data.shape, tolVal, hna, evalTest, agg, sel, negIf, flagVal,
        allClosePhase, hb, hp, callHandler_ref, boolEVal]
  · have hne : (sx != sc) = true := by simpa using hs
    simp [compareValuesRef, evalStmts, evalCond, cmpShape, Data.shape, hs, hne, callHandler_ref, boolEVal]

theorem compareValuesRef_eq_model (rep : Reporting) (o : VOpts) (e c : Tree) (h0 : 0 < o.atol) :
    evalFn compareValuesRef handleReturnRef rep o e c = liftRes rep (compareValues o e c) := by
  have tailR := values_tail_real rep o e c h0
  have tailC := values_tail_cplx rep o e c h0
  simp only [compareValuesRef, List.drop] at tailR tailC
  unfold evalFn compareValues
  simp only [compareValuesRef]
  rw [evalStmts, evalStmts, passnone_guard]
  cases hg : (o.passnone && isNone e && isNone c)
  · simp only [Bool.false_eq_true, if_false]
    rw [evalStmts]
    unfold castFloatPair
    cases he : flatten e with
    | unmodelled => cases hc : flatten c <;> simp [liftRes]
    | notArrayLike => cases hc : flatten c <;> simp [liftRes, callHandler_ref, boolEVal]
    | ok fe =>
      cases hc : flatten c with
      | unmodelled => simp [liftRes]
      | notArrayLike => simp [liftRes, callHandler_ref, boolEVal]
      | ok fc =>
        simp only []
        cases hke : fe.kind with
        | none => cases hkc : fc.kind <;> simp [liftRes]
        | some ke =>
          cases hkc : fc.kind with
          | none => simp [liftRes]
          | some kc =>
            simp only [List.any_cons, List.any_nil, argKindIs, hke, hkc, Bool.or_false]
            by_cases hcx : ke = .cpx ∨ kc = .cpx
            · have : ((some ke == some Kind.cpx) || (some kc == some Kind.cpx)) = true := by
                rcases hcx with h | h <;> simp [h]
              simp only [this, if_true, hcx]
              cases hx : fe.data.mapM castC <;> cases hy : fc.data.mapM castC <;>
                simp only [liftRes, tailC]
              all_goals first
                | (by_cases hsh : fe.shape = fc.shape <;> simp [hsh]; done)
                | (simp [callHandler_ref, boolEVal]; done)
            · have : ((some ke == some Kind.cpx) || (some kc == some Kind.cpx)) = false := by
                have h1 : ke ≠ .cpx := fun h => hcx (Or.inl h)
                have h2 : kc ≠ .cpx := fun h => hcx (Or.inr h)
                simp [h1, h2]
              simp only [this, Bool.false_eq_true, if_false, hcx]
              cases hx : fe.data.mapM castF <;> cases hy : fc.data.mapM castF <;>
                simp only [liftRes, tailR]
              all_goals first
                | (by_cases hsh : fe.shape = fc.shape <;> simp [hsh]; done)
                | (simp [callHandler_ref, boolEVal]; done)
  · simp [liftRes, callHandler_ref, boolEVal]

/-! ## compare (exact) -/

theorem exact_tail (rep : Reporting) (o : VOpts) (e c : Tree) (sx sc : List Nat) (kx kc : Kind) (xs cs : List Sc) :
    evalStmts handleReturnRef rep o e c (compareRef.drop 2) { data := some (.exact sx sc kx kc xs cs), handlerSet := true }
      = .ret (report rep (if sx ≠ sc then false
          else (all2 scEq xs cs || (o.equalPhase && kc.negatable && all2 scEq xs (cs.map Sc.negate))))) := by
  by_cases hs : sx = sc
  · subst hs
    cases hb : all2 scEq xs cs <;> cases hp : o.equalPhase <;> cases hn : kc.negatable <;>
      simp [compareRef, evalStmts, evalCond, cmpShape, Data.shape, evalTest, agg, sel, flagVal, opndExact,
        hb, hp, hn, callHandler_ref, boolEVal]
  · have hne : (sx != sc) = true := by simpa using hs
    simp [compareRef, evalStmts, evalCond, cmpShape, Data.shape, hs, hne, callHandler_ref, boolEVal]

theorem compareRef_eq_model (rep : Reporting) (o : VOpts) (e c : Tree) :
    evalFn compareRef handleReturnRef rep o e c = liftRes rep (compareExact o.equalPhase e c) := by
  have tail := exact_tail rep o e c
  simp only [compareRef, List.drop] at tail
  unfold evalFn compareExact
  simp only [compareRef]
  rw [evalStmts, evalStmts]
  unfold castPlainPair
  cases he : flatten e with
  | unmodelled => simp [liftRes]
  | notArrayLike => simp [liftRes]
  | ok fe =>
    cases hc : flatten c with
    | unmodelled => simp [liftRes]
    | notArrayLike => simp [liftRes]
    | ok fc =>
      simp only []
      cases hke : fe.kind with
      | none => cases hkc : fc.kind <;> simp [liftRes]
      | some ke =>
        cases hkc : fc.kind with
        | none => simp [liftRes]
        | some kc =>
          simp only [liftRes, tail]
          by_cases hsh : fe.shape = fc.shape <;> simp [hsh]

/-! ## the theorems over the SOURCE-DERIVED functions -/

/-- `compare_values(expected, computed, atol=, rtol=, equal_nan=, equal_phase=, passnone=, quiet=, return_message=, return_handler=)`
    as translated from testing.py -/
def compareValuesS (rep : Reporting) (o : VOpts) (e c : Tree) : Out := evalFn compareValuesSrc handleReturnSrc rep o e c

/-- `compare(expected, computed, equal_phase=, quiet=, return_message=, return_handler=)` as translated from testing.py
    (the tolerances are not parameters of `compare`; any value does) -/
def compareS (rep : Reporting) (phase : Bool) (e c : Tree) : Out :=
  evalFn compareSrc handleReturnSrc rep { atol := 1, rtol := 0, equalPhase := phase } e c

/-- **compare_values: source = model**, every input, every reporting option (`0 < atol`: `np.log10(atol)` raises otherwise) -/
theorem compareValuesSrc_eq_model (rep : Reporting) (o : VOpts) (e c : Tree) (h0 : 0 < o.atol) :
    compareValuesS rep o e c = liftRes rep (compareValues o e c) := by
  unfold compareValuesS
  rw [compareValuesSrc_eq_ref, handleReturnSrc_eq_ref]
  exact compareValuesRef_eq_model rep o e c h0

/-- **compare: source = model**, every input, every reporting option -/
theorem compareSrc_eq_model (rep : Reporting) (phase : Bool) (e c : Tree) :
    compareS rep phase e c = liftRes rep (compareExact phase e c) := by
  unfold compareS
  rw [compareSrc_eq_ref, handleReturnSrc_eq_ref]
  exact compareRef_eq_model rep _ e c

theorem liftRes_verdict (rep : Reporting) (r : Res) (b : Bool) : (liftRes rep r).verdict? = some b ↔ r = .verdict b := by
  cases r with
  | verdict b' => simp [liftRes, Out.verdict?, (verdict_independent_of_reporting rep rep b').1]
  | raised x => simp [liftRes, Out.verdict?]
  | unmodelled => simp [liftRes, Out.verdict?]

/-- **Headline, compare_values (source-derived)**: True exactly when `passnone` applies, or both inputs cast to the common dtype
(complex iff one of them is complex), have the same shape and every element of `computed` is close to the element of `expected`
(`closeR` / `closeC`: |c − e| ≤ atol + rtol·|e|, see `closeR_fin_iff`, `sqrtLe_iff`) — or, on request only, every element of `-computed` is. -/
theorem compareValuesSrc_true_iff (rep : Reporting) (o : VOpts) (e c : Tree) (h0 : 0 < o.atol) :
    (compareValuesS rep o e c).verdict? = some true ↔
      (o.passnone = true ∧ isNone e = true ∧ isNone c = true) ∨
      ((IsCx e ∨ IsCx c) ∧ ∃ sh es cs, CastsTo castC e sh es ∧ CastsTo castC c sh cs ∧
          (all2 (closeC o.atol o.rtol o.equalNan) cs es = true ∨
           (o.equalPhase = true ∧ all2 (closeC o.atol o.rtol o.equalNan) (cs.map Cx.neg) es = true))) ∨
      (¬ (IsCx e ∨ IsCx c) ∧ ∃ sh es cs, CastsTo castF e sh es ∧ CastsTo castF c sh cs ∧
          (all2 (closeR o.atol o.rtol o.equalNan) cs es = true ∨
           (o.equalPhase = true ∧ all2 (closeR o.atol o.rtol o.equalNan) (cs.map XR.neg) es = true))) := by
  rw [compareValuesSrc_eq_model rep o e c h0, liftRes_verdict]
  exact compareValues_true_iff o e c

/-- non-vacuity (test): a pass at the edge and a failure just beyond it, through the translated source -/
example : (compareValuesS {} { atol := 1/1000, rtol := 0 } (.sc (.flt (.fin 2))) (.sc (.flt (.fin (2001/1000))))).verdict? = some true := by
  decide +kernel
example : (compareValuesS {} { atol := 1/1000, rtol := 0 } (.sc (.flt (.fin 2))) (.sc (.flt (.fin (2002/1000))))).verdict? = some false := by
  decide +kernel

/-- **The tolerance scales with |expected|** (source-derived, finite real scalars, no options): True exactly when
`|computed − expected| ≤ atol + rtol·|expected|` (or they are equal). -/
theorem compareValuesSrc_real_iff (rep : Reporting) (atol rtol x y : Rat) (h0 : 0 < atol) :
    (compareValuesS rep { atol := atol, rtol := rtol } (.sc (.flt (.fin x))) (.sc (.flt (.fin y)))).verdict? = some true ↔
      (absQ (y - x) ≤ atol + rtol * absQ x ∨ y = x) := by
  rw [compareValuesSrc_eq_model rep _ _ _ h0, liftRes_verdict]
  simp [compareValues, isNone, flatten, Flat.kind, joinKinds, Sc.kind, castF, allClosePhase, all2, closeR]

/-- test: the bound uses |expected| = 100, not |computed| -/
example : (compareValuesS {} { atol := 1/1000, rtol := 1/100 } (.sc (.flt (.fin 100))) (.sc (.flt (.fin (101001/1000))))).verdict? = some true := by
  decide +kernel
example : (compareValuesS {} { atol := 1/1000, rtol := 1/100 } (.sc (.flt (.fin (101001/1000)))) (.sc (.flt (.fin 100)))).verdict? = some true := by
  decide +kernel
example : (compareValuesS {} { atol := 1/1000, rtol := 1/100 } (.sc (.flt (.fin 100))) (.sc (.flt (.fin (98999/1000))))).verdict? = some true := by
  decide +kernel
example : (compareValuesS {} { atol := 1/1000, rtol := 1/100 } (.sc (.flt (.fin (98999/1000)))) (.sc (.flt (.fin 100)))).verdict? = some false := by
  decide +kernel

/-- a float64 ndarray of finite values -/
def fltArr (sh : List Nat) (xs : List Rat) : Tree := .arr .flt sh (xs.map fun q => .npflt (.fin q))

theorem kinds_fltData (xs : List Rat) :
    (xs.map fun q => Sc.npflt (.fin q)).map Sc.kind = List.replicate xs.length Kind.flt := by
  induction xs with
  | nil => rfl
  | cons a t ih => simp only [List.map_cons, List.length_cons, List.replicate_succ, ih, Sc.kind]

theorem joinKinds_replicate_flt : ∀ n, joinKinds (List.replicate n Kind.flt) = (if n = 0 then some none else some (some .flt))
  | 0 => rfl
  | n + 1 => by
    rw [List.replicate_succ, joinKinds, joinKinds_replicate_flt n]
    cases n <;> simp [Kind.join]

theorem kind_fltData (sh : List Nat) (xs : List Rat) : (Flat.mk sh (xs.map fun q => Sc.npflt (.fin q))).kind = some .flt := by
  unfold Flat.kind
  simp only [kinds_fltData, joinKinds_replicate_flt]
  have hc : (List.replicate xs.length Kind.flt).contains .obj = false := by
    induction xs.length with
    | zero => rfl
    | succ n ih => simpa [List.replicate_succ] using ih
  simp only [hc, Bool.false_eq_true, if_false]
  by_cases hx : xs.length = 0 <;> simp [hx]

theorem castF_fltData (xs : List Rat) : (xs.map fun q => Sc.npflt (.fin q)).mapM castF = some (xs.map XR.fin) := by
  induction xs with
  | nil => rfl
  | cons a t ih => simp [List.mapM_cons, castF, ih]

/-- **Headline on arrays (source-derived)**: for float arrays of finite values of ANY shape and size, without options, translated
`compare_values` is True exactly when the shapes are equal, the sizes are equal and every element satisfies
`|computed_i − expected_i| ≤ atol + rtol·|expected_i|` (or is equal). -/
theorem compareValuesSrc_array_iff (rep : Reporting) (atol rtol : Rat) (h0 : 0 < atol) (she shc : List Nat) (xs ys : List Rat) :
    (compareValuesS rep { atol := atol, rtol := rtol } (fltArr she xs) (fltArr shc ys)).verdict? = some true ↔
      she = shc ∧ ys.length = xs.length ∧
        ∀ i (h₁ : i < ys.length) (h₂ : i < xs.length), absQ (ys[i] - xs[i]) ≤ atol + rtol * absQ xs[i] ∨ ys[i] = xs[i] := by
  rw [compareValuesSrc_eq_model rep _ _ _ h0, liftRes_verdict]
  simp only [compareValues, fltArr, isNone, flatten, kind_fltData, castF_fltData, Bool.and_false, Bool.false_eq_true, if_false,
    allClosePhase, Bool.false_and, Bool.or_false]
  have hne : ¬ (Kind.flt = Kind.cpx ∨ Kind.flt = Kind.cpx) := by decide
  simp only [hne, if_false]
  by_cases hs : she = shc
  · simp only [hs, ne_eq, not_true_eq_false, if_false, Res.verdict.injEq, true_and]
    rw [all2_iff]
    simp only [List.length_map, List.getElem_map, closeR_fin_iff]
  · simp [hs]

/-- non-vacuity (test): 2x2 arrays, one element at the edge / beyond it -/
example : (compareValuesS {} { atol := 1/1000, rtol := 0 } (fltArr [2, 2] [1, 2, 3, 4]) (fltArr [2, 2] [1, 2, 3001/1000, 4])).verdict? = some true := by
  decide +kernel
example : (compareValuesS {} { atol := 1/1000, rtol := 0 } (fltArr [2, 2] [1, 2, 3, 4]) (fltArr [2, 2] [1, 2, 3002/1000, 4])).verdict? = some false := by
  decide +kernel
example : (compareValuesS {} { atol := 1/1000, rtol := 0 } (fltArr [2, 2] [1, 2, 3, 4]) (fltArr [4] [1, 2, 3, 4])).verdict? = some false := by
  decide +kernel

/-- **NaN only on request** (source-derived): without `equal_nan` a NaN on either side fails — also under the sign retry;
with it NaN ~ NaN passes. -/
theorem compareValuesSrc_nan_only_on_request (rep : Reporting) (atol rtol : Rat) (ph : Bool) (x : XR) (h0 : 0 < atol) :
    (compareValuesS rep { atol := atol, rtol := rtol, equalPhase := ph } (.sc (.flt .nan)) (.sc (.flt x))).verdict? = some false ∧
    (compareValuesS rep { atol := atol, rtol := rtol, equalPhase := ph } (.sc (.flt x)) (.sc (.flt .nan))).verdict? = some false ∧
    (compareValuesS rep { atol := atol, rtol := rtol, equalNan := true, equalPhase := ph } (.sc (.flt .nan)) (.sc (.flt .nan))).verdict? = some true := by
  refine ⟨?_, ?_, ?_⟩ <;> rw [compareValuesSrc_eq_model rep _ _ _ h0, liftRes_verdict] <;> cases x <;> cases ph <;>
    simp [compareValues, isNone, flatten, Flat.kind, joinKinds, Sc.kind, castF, allClosePhase, all2, closeR, XR.neg]

/-- **Sign flip only on request** (source-derived): with `equal_phase=False` the verdict is the plain all-close; with it, a pass
without the option stays a pass. -/
theorem compareValuesSrc_phase_only_on_request (rep : Reporting) (o : VOpts) (e c : Tree) (h0 : 0 < o.atol) :
    (o.equalPhase = false →
      ((compareValuesS rep o e c).verdict? = some true ↔
        (o.passnone = true ∧ isNone e = true ∧ isNone c = true) ∨
        ((IsCx e ∨ IsCx c) ∧ ∃ sh es cs, CastsTo castC e sh es ∧ CastsTo castC c sh cs ∧ all2 (closeC o.atol o.rtol o.equalNan) cs es = true) ∨
        (¬ (IsCx e ∨ IsCx c) ∧ ∃ sh es cs, CastsTo castF e sh es ∧ CastsTo castF c sh cs ∧ all2 (closeR o.atol o.rtol o.equalNan) cs es = true))) ∧
    ((compareValuesS rep { o with equalPhase := false } e c).verdict? = some true →
      (compareValuesS rep { o with equalPhase := true } e c).verdict? = some true) := by
  constructor
  · intro hp
    rw [compareValuesSrc_true_iff rep o e c h0]
    simp [hp]
  · intro h
    have h := (compareValuesSrc_true_iff rep { o with equalPhase := false } e c h0).mp h
    apply (compareValuesSrc_true_iff rep { o with equalPhase := true } e c h0).mpr
    rcases h with h | ⟨hc, sh, es, cs, h1, h2, h3⟩ | ⟨hc, sh, es, cs, h1, h2, h3⟩
    · exact Or.inl h
    · refine Or.inr (Or.inl ⟨hc, sh, es, cs, h1, h2, ?_⟩)
      rcases h3 with h3 | ⟨h3, _⟩
      · exact Or.inl h3
      · simp at h3
    · refine Or.inr (Or.inr ⟨hc, sh, es, cs, h1, h2, ?_⟩)
      rcases h3 with h3 | ⟨h3, _⟩
      · exact Or.inl h3
      · simp at h3

/-- test: a sign-flipped value passes only with the option -/
example : (compareValuesS {} { atol := 1/1000, rtol := 0 } (.sc (.flt (.fin 2))) (.sc (.flt (.fin (-2))))).verdict? = some false := by
  decide +kernel
example : (compareValuesS {} { atol := 1/1000, rtol := 0, equalPhase := true } (.sc (.flt (.fin 2))) (.sc (.flt (.fin (-2))))).verdict? = some true := by
  decide +kernel

/-- **Headline, compare (source-derived)**: True exactly when same shape and every element equal — or, on request and for a
dtype with a unary minus, every element equals the negated computed element. -/
theorem compareSrc_true_iff (rep : Reporting) (phase : Bool) (e c : Tree) :
    (compareS rep phase e c).verdict? = some true ↔
      ∃ fe fc kc, flatten e = .ok fe ∧ flatten c = .ok fc ∧ fe.kind.isSome ∧ fc.kind = some kc ∧
        fe.shape = fc.shape ∧
        (all2 scEq fe.data fc.data = true ∨
          (phase = true ∧ kc.negatable = true ∧ all2 scEq fe.data (fc.data.map Sc.negate) = true)) := by
  rw [compareSrc_eq_model, liftRes_verdict]
  exact compareExact_true_iff phase e c

example : (compareS {} false (.list [.sc (.int 1), .sc (.int 2)]) (.list [.sc (.int 1), .sc (.int 2)])).verdict? = some true := by
  decide +kernel
example : (compareS {} false (.list [.sc (.int 1), .sc (.int 2)]) (.list [.sc (.int 1), .sc (.int 3)])).verdict? = some false := by
  decide +kernel
example : (compareS {} false (.list [.sc (.int 1), .sc (.int 2)]) (.sc (.int 1))).verdict? = some false := by
  decide +kernel

/-- **The message / return-handler options do not change the verdict** (source-derived): whatever `quiet`, `return_message`
and `return_handler` are, both translated helpers hand back the same boolean — inside a pair with `return_message`, as the
first argument of a caller-supplied handler otherwise unchanged. -/
theorem src_verdict_independent_of_reporting (r₁ r₂ : Reporting) (o : VOpts) (phase : Bool) (e c : Tree) (h0 : 0 < o.atol) :
    (compareValuesS r₁ o e c).verdict? = (compareValuesS r₂ o e c).verdict? ∧
    (compareS r₁ phase e c).verdict? = (compareS r₂ phase e c).verdict? := by
  have h : ∀ (r : Res), (liftRes r₁ r).verdict? = (liftRes r₂ r).verdict? := by
    intro r
    cases r with
    | verdict b => simp [liftRes, Out.verdict?, (verdict_independent_of_reporting r₁ r₂ b).2]
    | raised x => rfl
    | unmodelled => rfl
  rw [compareValuesSrc_eq_model r₁ o e c h0, compareValuesSrc_eq_model r₂ o e c h0, compareSrc_eq_model, compareSrc_eq_model]
  exact ⟨h _, h _⟩

/-! ## `_compare_recursive`: the isinstance chain -/

def recRef : RecProg := {
  modelToDict := [.expected, .computed],
  branches := [
    (.inst .expected [.str, .int, .bool, .complex, .npBool], .exactNe .expected .computed true 2),
    (.and (.inst .expected [.list, .tuple]) (.inst .computed [.str, .bytes, .dict]), .entry 8),
    (.inst .expected [.list, .tuple], .listWalk .ne .expected .computed 3 3 (.expected, .computed)),
    (.and (.inst .expected [.dict]) (.notInst .computed [.dict]), .entry 7),
    (.inst .expected [.dict], .dictWalk [((.computed, .expected), 0), ((.expected, .computed), 1)] (.expected, .computed) (.expected, .computed)),
    (.inst .expected [.float, .npNumber], .values .expected .computed .param 4),
    (.inst .expected [.ndarray], .arrLeaf .expected .expected .computed .param .expected .computed .param 4),
    (.inst .expected [.noneType], .noneLeaf .expected .computed 5)],
  fallTag := 6 }

/-- the obligation a changed dispatch breaks -/
theorem compareRecursiveNodeSrc_eq_ref : compareRecursiveNodeSrc = recRef := rfl

theorem sizeRuleT_eq (name : String) (s : Sc) (data : List Sc) : sizeRuleT true 2 name s data = sizeRule name s data := by
  unfold sizeRuleT sizeRule
  split <;> simp

theorem exactLeafT_eq (name : String) (s : Sc) (c : Tree) : exactLeafT true 2 name s c = exactLeafW name s c := by
  cases c with
  | sc t => simp [exactLeafT, exactLeafW]
  | list l =>
    simp only [exactLeafT, exactLeafW, sizeRuleT_eq]
    split
    · split <;> simp_all
    · rfl
  | dict kv => simp [exactLeafT, exactLeafW]
  | arr k sh fl => simp [exactLeafT, exactLeafW, sizeRuleT_eq]

theorem select_list_seq (es : List Tree) (c : Tree) (h : instOf c .str = false) (h' : instOf c .dict = false) :
    selectAct (.list es) c recRef.branches = some (.listWalk .ne .expected .computed 3 3 (.expected, .computed)) := by
  cases c with
  | sc t => cases t <;> first | rfl | (exfalso; simp [instOf] at h)
  | list l => rfl
  | dict kv => exfalso; simp [instOf] at h'
  | arr k sh fl => rfl

theorem select_dict_dict (ekv ckv : List (String × Tree)) :
    selectAct (.dict ekv) (.dict ckv) recRef.branches =
      some (.dictWalk [((.computed, .expected), 0), ((.expected, .computed), 1)] (.expected, .computed) (.expected, .computed)) := by
  simp [recRef, selectAct, Guard.holds, instOf, pick]

mutual
theorem evalRec_ref (o : ROpts) (name : String) : ∀ e c, evalRec recRef o name e c = recErrsW o name e c
  | .sc s, c => by
    cases s <;>
      simp [evalRec, recRef, selectAct, Guard.holds, instOf, pick, evalLeaf, recErrsW, exactLeafT_eq, isECorCE, phVal, isNone]
  | .arr k sh fl, c => by
    simp [evalRec, recRef, selectAct, Guard.holds, instOf, pick, evalLeaf, recErrsW, phVal]
  | .list es, c => by
    cases c with
    | sc t =>
      cases t <;> simp [evalRec, recRef, selectAct, Guard.holds, instOf, pick, evalLeaf, recErrsW, isEC, asSeq]
    | dict kv => simp [evalRec, recRef, selectAct, Guard.holds, instOf, pick, evalLeaf, recErrsW]
    | list cs =>
      simp only [evalRec, recErrsW]
      rw [select_list_seq es _ rfl rfl]
      simp only [isEC, asSeq, cmpNat, pickLen, evalList_ref o name 0 es cs]
      by_cases hl : es.length = cs.length <;> simp [hl]
    | arr k sh fl =>
      simp only [evalRec, recErrsW]
      rw [select_list_seq es _ rfl rfl]
      cases sh with
      | nil => simp [isEC, asSeq]
      | cons n rest =>
        simp only [isEC, asSeq, cmpNat, pickLen, evalList_ref o name 0 es (arrRows k n rest fl)]
        by_cases hl : es.length = (arrRows k n rest fl).length <;> simp [hl]
  | .dict ekv, c => by
    cases c with
    | sc t => cases t <;> simp [evalRec, recRef, selectAct, Guard.holds, instOf, pick, evalLeaf, recErrsW]
    | list l => simp [evalRec, recRef, selectAct, Guard.holds, instOf, pick, evalLeaf, recErrsW]
    | arr k sh fl => simp [evalRec, recRef, selectAct, Guard.holds, instOf, pick, evalLeaf, recErrsW]
    | dict ckv =>
      simp only [evalRec, recErrsW]
      rw [select_dict_dict]
      simp only [isEC, isECorCE, keyEntries, keysDiff, pickKV, evalDict_ref o name ekv ckv]
      have hec : (!(Arg.expected == Arg.expected && Arg.computed == Arg.computed && Arg.expected != Arg.computed)) = false := by decide
      simp only [hec, Bool.false_eq_true, if_false]
      by_cases h1 : (ckv.any fun p => !hasKey p.1 ekv) = true <;> by_cases h2 : (ekv.any fun p => !hasKey p.1 ckv) = true <;>
        simp [h1, h2]
theorem evalList_ref (o : ROpts) (name : String) : ∀ i es cs, evalList recRef o name i es cs = recListW o name i es cs
  | _, [], _ => by simp [evalList, recListW]
  | _, _ :: _, [] => by simp [evalList, recListW]
  | i, e :: es, c :: cs => by
    simp only [evalList, recListW]
    rw [evalRec_ref o _ e c, evalList_ref o name (i + 1) es cs]
theorem evalDict_ref (o : ROpts) (name : String) : ∀ ekv ckv, evalDict recRef o name ekv ckv = recDictW o name ekv ckv
  | [], _ => by simp [evalDict, recDictW]
  | (k, e) :: rest, ckv => by
    simp only [evalDict, recDictW]
    rw [evalDict_ref o name rest ckv]
    cases hl : lookup k ckv with
    | none => rfl
    | some c => simp only; rw [evalRec_ref o _ e c]
end

/-! ## compare_recursive over the source-derived dispatch -/

/-- `_compare_recursive` as translated from testing.py -/
def recS (o : ROpts) (name : String) (e c : Tree) : List ItemW := evalRec compareRecursiveNodeSrc o name e c

/-- **`_compare_recursive`: source = wide model**, all trees (mutual induction): the `isinstance` chain in source order, the key-set
differences, the length test, the roles of the items in nested calls and the leaf rule selection produce exactly the error
entries of `recErrsW`. -/
theorem recSrc_eq_model (o : ROpts) (name : String) (e c : Tree) : recS o name e c = recErrsW o name e c := by
  unfold recS
  rw [compareRecursiveNodeSrc_eq_ref]
  exact evalRec_ref o name e c

/-- tests: one entry per mismatching node, through the translated chain -/
example : recS ⟨1/1000, 0, false⟩ "root" (.dict [("a", .sc (.flt (.fin 1))), ("b", .list [.sc (.int 1), .sc (.str "x")])])
    (.dict [("a", .sc (.flt (.fin (1002/1000)))), ("b", .list [.sc (.int 1), .sc (.str "y")])])
    = [.err ⟨"root.a", 4⟩, .err ⟨"root.b.1", 2⟩] := by decide +kernel
example : recS ⟨1/1000, 0, false⟩ "root" (.dict [("a", .sc (.int 1))]) (.dict [("b", .sc (.int 1))])
    = [.err ⟨"root", 0⟩, .err ⟨"root", 1⟩] := by decide +kernel
example : recS ⟨1/1000, 0, false⟩ "root" (.list [.sc (.int 1), .sc (.int 2)]) (.list [.sc (.int 1)]) = [.err ⟨"root", 3⟩] := by decide +kernel

/-! ### the top-level stages -/

def topRef : TopProg := {
  refuseOp := .ge, refuseBound := 1,
  first := ⟨.expected, .computed, none⟩,
  stages := [
    .phase ⟨.expected, .computed, some true⟩ .empty .errorNames (.rootified ⟨"root.", "root."⟩) ⟨true, true, true, true, true⟩,
    .forgive .empty (.rootified ⟨"root.", "root."⟩) ⟨true, true, false, true, true⟩],
  under := ⟨true, "."⟩ }

/-- the obligation a changed `compare_recursive` / `_path_under` breaks -/
theorem compareRecursiveTopSrc_eq_ref : compareRecursiveTopSrc = topRef := rfl

theorem removeForG_tt (hit : String → Bool) (nm : Err) : ∀ ps errs, removeForG true true hit nm ps errs = removeFor hit nm ps errs
  | [], errs => rfl
  | p :: ps, errs => by
    simp only [removeForG, removeFor, if_true]
    rw [removeForG_tt hit nm ps errs]

theorem removeLoopG_tt (cond : Err → String → Bool) (ps : List String) :
    ∀ iter errs, removeLoopG true true cond ps iter errs = removeLoop cond ps iter errs
  | [], errs => rfl
  | nm :: rest, errs => by
    simp only [removeLoopG, removeLoop, removeForG_tt]
    cases removeFor (cond nm) nm ps errs with
    | none => rfl
    | some errs' => exact removeLoopG_tt cond ps rest errs'

theorem underG_ref (a b : String) : underG ⟨true, "."⟩ a b = pathUnder a b := by simp [underG, pathUnder]

theorem rootifyG_ref : rootifyG ⟨"root.", "root."⟩ = rootify := by
  funext s
  simp [rootifyG, rootify]

theorem phaseLoop_ref (phase : PhaseOpt) (nn : List String) (errors : List Err) (h : (!errors.isEmpty && phase.truthy) = true) :
    filterLoopG ⟨true, true, true, true, true⟩ ⟨true, "."⟩ nn
      (phasePrefixes phase errors .empty .errorNames (.rootified ⟨"root.", "root."⟩)) errors = some (phaseStage phase nn errors) := by
  unfold filterLoopG phaseStage phasePrefixes
  simp only [h, if_true, Bool.not_true, Bool.false_eq_true, if_false, removeLoopG_tt, underG_ref, Bool.false_or]
  cases phase <;> simp [plist, phaseEps, rootifyG_ref]

theorem forgiveLoop_ref (forgive : Option (List String)) (errors : List Err) :
    filterLoopG ⟨true, true, false, true, true⟩ ⟨true, "."⟩ []
      (forgivePrefixes forgive errors .empty (.rootified ⟨"root.", "root."⟩)) errors = some (forgiveStage forgive errors) := by
  unfold filterLoopG forgiveStage forgivePrefixes
  simp only [Bool.not_true, Bool.false_eq_true, if_false, removeLoopG_tt, underG_ref, Bool.not_false, Bool.true_or, Bool.and_true]
  cases forgive <;> simp [plist, rootifyG_ref]

theorem evalTop_ref (rec : ROpts → String → Tree → Tree → List ItemW)
    (atol rtol : Rat) (forgive : Option (List String)) (phase : PhaseOpt) (e c : Tree) :
    evalTop topRef rec atol rtol forgive phase e c = compareRecursiveVia rec atol rtol forgive phase e c := by
  have h1 : ((1 : Int) : Rat) = 1 := rfl
  unfold evalTop compareRecursiveVia
  simp only [topRef, cmpRat, h1, decide_eq_true_eq, RecCall.isEC]
  have hec : (!(Arg.expected == Arg.expected && Arg.computed == Arg.computed && (none : Option Bool) == none)) = false := by decide
  have hec2 : (!(Arg.expected == Arg.expected && Arg.computed == Arg.computed && (some true : Option Bool) == some true)) = false := by decide
  by_cases ha : 1 ≤ atol
  · simp only [ha, if_true]
  · simp only [ha, if_false, hec, Bool.false_eq_true]
    cases hu : (rec ⟨atol, rtol, false⟩ "root" e c).contains ItemW.unmodelled
    · simp only [Bool.false_eq_true, if_false]
      generalize errsOfW (rec ⟨atol, rtol, false⟩ "root" e c) = errors
      simp only [evalStages, RecCall.isEC, hec2, Bool.false_eq_true, if_false]
      cases hp : (!errors.isEmpty && phase.truthy)
      · have hps : phaseStage phase (List.map Err.name (errsOfW (rec ⟨atol, rtol, true⟩ "root" e c))) errors = some errors := by
          unfold phaseStage; simp [hp]
        simp only [Bool.false_eq_true, if_false, Bool.false_and, hps, forgiveLoop_ref]
        cases forgiveStage forgive errors <;> rfl
      · simp only [if_true, Bool.true_and]
        cases hn : (rec ⟨atol, rtol, true⟩ "root" e c).contains ItemW.unmodelled
        · simp only [Bool.false_eq_true, if_false, phaseLoop_ref phase _ errors hp]
          cases phaseStage phase (List.map Err.name (errsOfW (rec ⟨atol, rtol, true⟩ "root" e c))) errors with
          | none => rfl
          | some errs =>
            simp only [forgiveLoop_ref]
            cases forgiveStage forgive errs <;> rfl
        · simp only [if_true]
    · simp only [if_true]

/-- `compare_recursive` as translated from testing.py: the translated stages over the translated per-node chain -/
def compareRecursiveS (atol rtol : Rat) (forgive : Option (List String)) (phase : PhaseOpt) (e c : Tree) : Res :=
  evalTop compareRecursiveTopSrc recS atol rtol forgive phase e c

/-- **compare_recursive: source = wide model**, every input: the `atol >= 1` refusal, the recursion, the `equal_phase` stage
(second recursion with `equal_phase=True`, prefixes `[]` / the entries' own names / the rootified list, removal guarded by
`not in n_errors`) and then the `forgive` stage (rootified list), each with `_path_under(nomatch[0], prefix)`, `errors.remove`,
`break`, over the translated per-node chain. -/
theorem compareRecursiveSrc_eq_model (atol rtol : Rat) (forgive : Option (List String)) (phase : PhaseOpt) (e c : Tree) :
    compareRecursiveS atol rtol forgive phase e c = compareRecursiveW atol rtol forgive phase e c := by
  have h : recS = recErrsW := by
    funext o name e c
    exact recSrc_eq_model o name e c
  have hw : compareRecursiveW atol rtol forgive phase e c = compareRecursiveVia recErrsW atol rtol forgive phase e c := rfl
  rw [hw, compareRecursiveS, compareRecursiveTopSrc_eq_ref, evalTop_ref, h]

/-- **Headline, compare_recursive (source-derived)**: True exactly when `atol < 1` and every error entry the translated chain
produces is phase-excused (listed, and absent from the sign-tolerant recursion) or forgiven (at / below a forgive path, whole
segments) — `compare_recursiveW_iff` restated over the translated function. -/
theorem compareRecursiveSrc_iff (atol rtol : Rat) (forgive : Option (List String)) (phase : PhaseOpt) (e c : Tree)
    (hm : ItemW.unmodelled ∉ recS ⟨atol, rtol, false⟩ "root" e c)
    (hm' : ItemW.unmodelled ∉ recS ⟨atol, rtol, true⟩ "root" e c) :
    compareRecursiveS atol rtol forgive phase e c = .verdict true ↔
      (atol < 1 ∧
        ∀ p ∈ namesW (recS ⟨atol, rtol, false⟩ "root" e c),
          (PhaseListed phase p ∧ p ∉ namesW (recS ⟨atol, rtol, true⟩ "root" e c)) ∨ Forgiven forgive p) := by
  rw [compareRecursiveSrc_eq_model]
  simp only [recSrc_eq_model] at hm hm' ⊢
  exact compare_recursiveW_iff atol rtol forgive phase e c hm hm'

/-- non-vacuity (tests): a forgiven changed key passes, an unforgiven one fails; a sign flip passes only when listed -/
example : compareRecursiveS (1/1000) 0 (some ["b"]) .off (.dict [("a", .sc (.int 1)), ("b", .sc (.int 2))])
    (.dict [("a", .sc (.int 1)), ("b", .sc (.int 3))]) = .verdict true := by decide +kernel
example : compareRecursiveS (1/1000) 0 none .off (.dict [("a", .sc (.int 1)), ("b", .sc (.int 2))])
    (.dict [("a", .sc (.int 1)), ("b", .sc (.int 3))]) = .verdict false := by decide +kernel
example : compareRecursiveS (1/1000) 0 none (.paths ["a"]) (.dict [("a", .sc (.flt (.fin 1)))]) (.dict [("a", .sc (.flt (.fin (-1))))])
    = .verdict true := by decide +kernel
example : compareRecursiveS (1/1000) 0 none (.paths ["b"]) (.dict [("a", .sc (.flt (.fin 1)))]) (.dict [("a", .sc (.flt (.fin (-1))))])
    = .verdict false := by decide +kernel
example : compareRecursiveS 1 0 none .off (.sc (.int 1)) (.sc (.int 1)) = .raised .valueError := by decide +kernel

end QcelVerif.CompareAst
