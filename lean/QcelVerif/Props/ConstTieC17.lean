import QcelVerif.Model.Radii
import QcelVerif.Gen.SrcConsts
/-!
# C17 — the keyword defaults of `CovalentRadii.get` / `VanderWaalsRadii.get` in `Model/Radii.lean` are the source's

The model's `getU` reads an omitted `units` as `"bohr"` (`bBohr`), and `getByKey` returns the caller's `missing`
unchanged (no unit conversion) when the element has no radius and `return_tuple` is `False`.  `Gen/SrcConsts.lean` is
rewritten on every run from `qcelemental/covalent_radii.py` and `vanderwaals_radii.py` (by `ast`).  Core Lean only.

PROPERTY-THEOREMS: radii_get_defaults_match_source missing_returned_as_given_matches_source
-/
namespace QcelVerif.Radii
open QcelVerif QcelVerif.PStr

/-- `units="bohr"`, `return_tuple=False`, `missing=None` — for both tables -/
theorem radii_get_defaults_match_source :
    bBohr = Src.covalent.get.units.toList.map Char.toNat ∧ Src.vdw.get.units = Src.covalent.get.units ∧
    Src.covalent.get.return_tuple = false ∧ Src.vdw.get.return_tuple = false ∧
    Src.covalent.get.missing = none ∧ Src.vdw.get.missing = none := by
  decide

/-- an element without a radius: `missing` (a float) comes back as given when `return_tuple` is off, else / without
`missing` the lookup is `DataUnavailableError` — `if missing is not None and return_tuple is False: return missing` -/
theorem missing_returned_as_given_matches_source (t : Table) (conv : Bytes → Option Rat) (k : Nat) (rt : Bool)
    (missing : Option Rat) (h : lookupK t k = none) :
    getByKey t conv k rt missing =
      (match missing with
       | some m => if rt = false then .ok (.value m) else .error .DataUnavailable
       | none => .error .DataUnavailable) ∧
    Src.covalent.get.missing_returned_as_given = true ∧ Src.vdw.get.missing_returned_as_given = true := by
  refine ⟨?_, by decide, by decide⟩
  unfold getByKey
  rw [h]
  cases missing <;> cases rt <;> rfl

/-- test (non-vacuity): the empty table has no radius for any key -/
example : lookupK [] 7 = none := rfl

end QcelVerif.Radii
