import QcelVerif.Props.C19Wide
import QcelVerif.Gen.SrcConsts
import QcelVerif.Props.ConstTieLib
/-!
# C19 — the keyword defaults, the `atol >= 1` refusal and the massaged keys of the comparison models are the source's

`Model/Compare.lean` / `Model/CompareWide.lean` hard-code: the defaults `equal_nan / equal_phase / passnone = False`
(`VOpts`), `atol = 1.0e-6`, `rtol = 1.0e-16` (`atolDefault`, `rtolDefault`: what `ProtoModel.compare` falls back to),
`forgive = None`, `equal_phase = False` (`CompareKw`), the refusal `atol >= 1` (the former "decimal places" reading
`10 ** -atol` — now a `ValueError`), the four keys `massage_dicts` normalises (in its order) and the provenance key it
pops.  `Gen/SrcConsts.lean` is rewritten on every run from `qcelemental/testing.py` and `models/basemodels.py` (by `ast`).
Core Lean only.

PROPERTY-THEOREMS: testing_float_literals_ok tolerance_defaults_match_source flag_defaults_match_source
  proto_compare_defaults_match_source atol_refusal_matches_source atol_refusal_iff_source_bound massaged_keys_match_source
  provenance_pop_matches_source
-/
namespace QcelVerif.Compare
open QcelVerif QcelVerif.ConstTie

theorem testing_float_literals_ok :
    FloatLit.ok Src.compare_values.atol Src.compare_values.atol_dec Src.compare_values.atol_bits Src.compare_values.atol_f64 = true ∧
    FloatLit.ok Src.compare_values.rtol Src.compare_values.rtol_dec Src.compare_values.rtol_bits Src.compare_values.rtol_f64 = true ∧
    FloatLit.ok Src.compare_recursive.atol Src.compare_recursive.atol_dec Src.compare_recursive.atol_bits Src.compare_recursive.atol_f64 = true ∧
    FloatLit.ok Src.compare_recursive.rtol Src.compare_recursive.rtol_dec Src.compare_recursive.rtol_bits Src.compare_recursive.rtol_f64 = true ∧
    FloatLit.ok Src.compare_molrecs.atol Src.compare_molrecs.atol_dec Src.compare_molrecs.atol_bits Src.compare_molrecs.atol_f64 = true ∧
    FloatLit.ok Src.compare_molrecs.rtol Src.compare_molrecs.rtol_dec Src.compare_molrecs.rtol_bits Src.compare_molrecs.rtol_f64 = true := by
  decide +kernel

/-- `atol=1.0e-6`, `rtol=1.0e-16`: the model's defaults are the doubles of `compare_recursive`'s literals, and
`compare_values` and `compare_molrecs` declare the same two defaults -/
theorem tolerance_defaults_match_source :
    atolDefault = Src.compare_recursive.atol_f64 ∧ rtolDefault = Src.compare_recursive.rtol_f64 ∧
    Src.compare_values.atol_f64 = Src.compare_recursive.atol_f64 ∧ Src.compare_values.rtol_f64 = Src.compare_recursive.rtol_f64 ∧
    Src.compare_molrecs.atol_f64 = Src.compare_recursive.atol_f64 ∧ Src.compare_molrecs.rtol_f64 = Src.compare_recursive.rtol_f64 := by
  decide +kernel

/-- options left out of a `compare_values` call mean the source's defaults -/
theorem flag_defaults_match_source (a r : Rat) :
    ({ atol := a, rtol := r } : VOpts).equalNan = Src.compare_values.equal_nan ∧
    ({ atol := a, rtol := r } : VOpts).equalPhase = Src.compare_values.equal_phase ∧
    ({ atol := a, rtol := r } : VOpts).passnone = Src.compare_values.passnone := by
  exact ⟨(by decide : false = Src.compare_values.equal_nan), (by decide : false = Src.compare_values.equal_phase),
    (by decide : false = Src.compare_values.passnone)⟩

/-- `a.compare(b)` without keywords: `compare_recursive` at the source's default tolerances, `forgive=None`,
`equal_phase=False` (`ProtoModel.compare` forwards `**kwargs` and nothing else) -/
theorem proto_compare_defaults_match_source (a b : Tree) :
    protoCompare {} a b = compareRecursiveW Src.compare_recursive.atol_f64 Src.compare_recursive.rtol_f64 none .off a b ∧
    Src.compare_recursive.forgive = none ∧ Src.compare_recursive.equal_phase = false ∧
    Src.proto_compare.forwards_kwargs = true ∧
    Src.compare_molrecs.forgive = none ∧ Src.compare_molrecs.relative_geoms = "exact" ∧ Src.compare_molrecs.forwards = true := by
  refine ⟨?_, by decide, by decide, by decide, by decide, by decide, by decide⟩
  rw [← tolerance_defaults_match_source.1, ← tolerance_defaults_match_source.2.1]
  rfl

/-- `if atol >= k: raise ValueError` with the source's `k`: both recursion models refuse from `k` on, for every input -/
theorem atol_refusal_matches_source (atol rtol : Rat) (forgive : Option (List String)) (phase : PhaseOpt) (e c : Tree)
    (h : ((Src.compare_recursive.atol_refused_from : Int) : Rat) ≤ atol) :
    compareRecursive atol rtol forgive phase e c = .raised .valueError ∧
    compareRecursiveW atol rtol forgive phase e c = .raised .valueError := by
  have hk : ((Src.compare_recursive.atol_refused_from : Int) : Rat) = 1 := by decide +kernel
  rw [hk] at h
  exact ⟨by simp [compareRecursive, h], by simp [compareRecursiveW, h]⟩

/-- … and only from there: on modelled inputs the wide model raises iff `atol >= k` (through `compare_recursiveW_raises_iff`) -/
theorem atol_refusal_iff_source_bound (atol rtol : Rat) (forgive : Option (List String)) (phase : PhaseOpt) (e c : Tree)
    (hm : ItemW.unmodelled ∉ recErrsW ⟨atol, rtol, false⟩ "root" e c)
    (hm' : ItemW.unmodelled ∉ recErrsW ⟨atol, rtol, true⟩ "root" e c) (x : Exc) :
    compareRecursiveW atol rtol forgive phase e c = .raised x ↔
      ((Src.compare_recursive.atol_refused_from : Int) : Rat) ≤ atol := by
  have hk : ((Src.compare_recursive.atol_refused_from : Int) : Rat) = 1 := by decide +kernel
  rw [hk]
  exact compare_recursiveW_raises_iff atol rtol forgive phase e c hm hm' x

/-- tests (non-vacuity): `atol = 1` meets the hypothesis of the refusal, the default does not -/
example : ((Src.compare_recursive.atol_refused_from : Int) : Rat) ≤ 1 := by decide +kernel
example : ¬ (((Src.compare_recursive.atol_refused_from : Int) : Rat) ≤ Src.compare_recursive.atol_f64) := by decide +kernel

/-- `massage_dicts` normalises exactly the source's keys, in the source's order (the order decides which exception
surfaces first); every other field is compared as it is; each listed key really has a normaliser (a bare integer
under it is refused) -/
theorem massaged_keys_match_source :
    Src.compare_molrecs.massaged_keys = ["fragment_files", "fragment_separators", "provenance", "connectivity"] ∧
    (∀ (j : String) (v : Tree), j ∉ Src.compare_molrecs.massaged_keys → fieldNorm j v = .ok v) ∧
    Src.compare_molrecs.massaged_keys.all (fun j => (fieldNorm j (.sc (.int 0))).toOption.isNone) = true := by
  have hl : Src.compare_molrecs.massaged_keys = ["fragment_files", "fragment_separators", "provenance", "connectivity"] := by
    decide
  refine ⟨hl, ?_, by decide⟩
  intro j v hj
  rw [hl] at hj
  simp only [List.mem_cons, List.not_mem_nil, or_false, not_or] at hj
  obtain ⟨h1, h2, h3, h4⟩ := hj
  simp [fieldNorm, h1, h2, h3, h4]

/-- test (non-vacuity): `geom` is not a massaged key -/
example : "geom" ∉ Src.compare_molrecs.massaged_keys := by decide

/-- `dicary["provenance"].pop(key)` with the source's key: removed when present, `KeyError` when absent -/
theorem provenance_pop_matches_source (kv : List (String × Tree)) :
    normProv (.dict kv) =
      if hasKey Src.compare_molrecs.provenance_popped kv
      then .ok (.dict (kv.filter (fun p => !(p.1 == Src.compare_molrecs.provenance_popped))))
      else .error (.raised .keyError) := by
  have h : Src.compare_molrecs.provenance_popped = "version" := by decide
  rw [h]
  rfl

end QcelVerif.Compare
