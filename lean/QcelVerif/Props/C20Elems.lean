import QcelVerif.Props.C20
import QcelVerif.Model.ProtocolsElems
/-!
# C20 — element values: reshape keeps the row-major elements, protocols never alter a retained array

Model: `Model/ProtocolsElems.lean` (arrays = shape + row-major element sequence).  Two families of theorems, all for
every payload type `π` (in particular `π = List α`, abstract elements) and every input:

  * `*_shapes` — forgetting the elements maps each element-level function onto the shape model of
    `Model/Protocols.lean` (same verdict, same error, same shapes): every theorem of `Props/C20.lean` therefore also
    describes the element-level model;
  * `reshape_preserves_elements`, `*_data`, `*_retains` — elements are never changed, dropped inside an array, reordered
    or moved to another key.

PROPERTY-THEOREMS (audited on every run):
  reshape_preserves_elements reshape_wellformed
  validatePropsE_shapes validatePropsE_data
  wfnProtocolE_shapes wfnProtocolE_retains
  validateWfnE_shapes validateWfnE_data
  validateRRE_shapes validateRRE_data
  atomicResultE_shapes atomicResultE_data
-/
namespace QcelVerif.Protocols

/-! ## reshape -/

/-- `reshape` is the identity on the row-major element sequence; the new shape is the one the shape model computes -/
theorem reshape_preserves_elements {π : Type} (f : Shape → Option Shape) (a a' : Arr π)
    (h : a.reshapeWith f = some a') : a'.data = a.data ∧ f a.shape = some a'.shape := by
  unfold Arr.reshapeWith at h
  cases hf : f a.shape with
  | none => simp [hf] at h
  | some s =>
    simp only [hf, Option.map_some, Option.some.injEq] at h
    subst h
    exact ⟨rfl, rfl⟩

theorem applyPropRule_size {natom : Option Nat} {r : PropRule} {s s' : Shape}
    (h : applyPropRule natom r s = some s') : prod s' = prod s := by
  cases r with
  | dipole => simp only [applyPropRule] at h; obtain ⟨h1, rfl⟩ := reshapeExact_eq_some.mp h; exact h1
  | quadrupole => simp only [applyPropRule] at h; obtain ⟨h1, rfl⟩ := reshapeExact_eq_some.mp h; exact h1
  | gradient =>
    cases natom with
    | none => simp [applyPropRule] at h
    | some n => simp only [applyPropRule] at h; obtain ⟨h1, rfl⟩ := reshapeExact_eq_some.mp h; exact h1
  | hessian =>
    cases natom with
    | none => simp [applyPropRule] at h
    | some n => simp only [applyPropRule] at h; obtain ⟨h1, rfl⟩ := reshapeExact_eq_some.mp h; exact h1

/-- with a list of elements as payload: every reshape the validators perform (properties, wavefunction arrays,
gradient / Hessian return) keeps "as many elements as the shape says" -/
theorem reshape_wellformed {α : Type} (a a' : Arr (List α)) (hw : a.WellFormed) :
    (∀ natom r, a.reshapeWith (applyPropRule natom r) = some a' → a'.WellFormed) ∧
    (∀ nbf r, a.reshapeWith (applyArrRule nbf r) = some a' → a'.WellFormed) ∧
    (a.reshapeWith reshapeCols3 = some a' → a'.WellFormed) ∧
    (a.reshapeWith reshapeSquare = some a' → a'.WellFormed) := by
  unfold Arr.WellFormed at *
  refine ⟨?_, ?_, ?_, ?_⟩
  · intro natom r h
    obtain ⟨h1, h2⟩ := reshape_preserves_elements _ _ _ h
    rw [h1, hw, applyPropRule_size h2]
  · intro nbf r h
    obtain ⟨h1, h2⟩ := reshape_preserves_elements _ _ _ h
    rw [h1, hw, applyArrRule_size h2]
  · intro h
    obtain ⟨h1, h2⟩ := reshape_preserves_elements _ _ _ h
    rw [h1, hw, ((reshapeCols3_ok_iff _ _).mp h2).2.2]
  · intro h
    obtain ⟨h1, h2⟩ := reshape_preserves_elements _ _ _ h
    obtain ⟨k, _, _, h3⟩ := (reshapeSquare_ok_iff _ _).mp h2
    rw [h1, hw, h3]

example : (⟨[6], [1, 2, 3, 4, 5, 6]⟩ : Arr (List Nat)).reshapeWith (reshapeExact [2, 3]) = some ⟨[2, 3], [1, 2, 3, 4, 5, 6]⟩ := by
  decide   -- test: flat → (2,3), elements in row-major order

/-! ## AtomicResultProperties -/

theorem propOutE_shapes {π : Type} (p : PropsInE π) (k : PropArr) :
    ((propOutE p k).join).map (·.shape) = (propOut p.shapes k).join := by
  simp only [propOutE, propOut, PropsInE.shapes]
  cases p.arr k with
  | none => rfl
  | some a =>
    simp only [Option.map_some, Option.join_some, Arr.reshapeWith]
    cases applyPropRule p.natom (propRule k) a.shape <;> rfl

/-- forgetting the elements, `validatePropsE` is `validateProps` -/
theorem validatePropsE_shapes {π : Type} (p : PropsInE π) :
    (validatePropsE p).map PropsInE.shapes = validateProps p.shapes := by
  unfold validatePropsE validateProps
  cases h : propFails p.shapes with
  | nil =>
    simp only [Except.map]
    congr 1
    exact PropsIn.ext' rfl (fun k => propOutE_shapes p k)
  | cons x l => rfl

/-- every array of an accepted properties object holds exactly the elements supplied under the same name -/
theorem validatePropsE_data {π : Type} (p o : PropsInE π) (h : validatePropsE p = .ok o) :
    ∀ k a', o.arr k = some a' → ∃ a, p.arr k = some a ∧ a'.data = a.data := by
  unfold validatePropsE at h
  cases hf : propFails p.shapes with
  | cons x l => simp [hf] at h
  | nil =>
    simp only [hf, Except.ok.injEq] at h
    subst h
    intro k a' hk
    simp only [propOutE] at hk
    cases ha : p.arr k with
    | none => simp [ha] at hk
    | some a =>
      simp only [ha, Option.map_some, Option.join_some] at hk
      exact ⟨a, rfl, (reshape_preserves_elements _ _ _ hk).1⟩

/-! ## the wavefunction protocol -/

theorem dropBetaE_shapes {π β : Type} (w : WfnE π β) : (dropBetaE w).shapes = dropBeta w.shapes := by
  refine Wfn.ext' (by rfl) (by rfl) ?_ ?_
  · intro k
    simp only [WfnE.shapes, dropBetaE, dropBeta]
    split <;> rfl
  · intro k; rfl

theorem setE_shapes {π β : Type} (ret : WfnE π β) (rk : PtrKey) (key : ArrKey) (v : Arr π) :
    (setArrE (setPtrE ret rk key) key v).shapes = setArr (setPtr ret.shapes rk key) key v.shape := by
  refine Wfn.ext' (by rfl) (by rfl) ?_ ?_
  · intro k
    simp only [WfnE.shapes, setArrE, setPtrE, setArr, setPtr]
    split <;> rfl
  · intro k; rfl

theorem keepLoopE_shapes {π β : Type} (w : WfnE π β) :
    ∀ (rest : List PtrKey) (ret : WfnE π β),
      (keepLoopE w rest ret).map WfnE.shapes = keepLoop w.shapes rest ret.shapes
  | [], ret => rfl
  | rk :: rest, ret => by
    have hp : w.shapes.ptr rk = w.ptr rk := rfl
    unfold keepLoopE keepLoop
    rw [hp]
    cases hk : w.ptr rk with
    | none => exact keepLoopE_shapes w rest ret
    | some key =>
      have ha : w.shapes.arr key = (w.arr key).map (·.shape) := rfl
      simp only [ha]
      cases hv : w.arr key with
      | none => rfl
      | some v =>
        simp only [Option.map_some]
        rw [← setE_shapes]
        exact keepLoopE_shapes w rest _

theorem keepBranch_shapes {π β : Type} (w1 : WfnE π β) (r : Bool) (keep : List PtrKey) :
    (match keepLoopE w1 keep { restricted := some r, basis := w1.basis, arr := fun _ => none, ptr := fun _ => none } with
      | .ok ret => Except.ok (some ret)
      | .error e => .error e).map (Option.map WfnE.shapes)
    = (match keepLoop w1.shapes keep { restricted := some r, basis := w1.shapes.basis, arr := fun _ => none, ptr := fun _ => none } with
      | .ok ret => Except.ok (some ret)
      | .error e => .error e) := by
  have h := keepLoopE_shapes w1 keep { restricted := some r, basis := w1.basis, arr := fun _ => none, ptr := fun _ => none }
  have hinit : ({ restricted := some r, basis := w1.basis, arr := fun _ => none, ptr := fun _ => none } : WfnE π β).shapes
      = { restricted := some r, basis := w1.shapes.basis, arr := fun _ => none, ptr := fun _ => none } := rfl
  rw [hinit] at h
  rw [← h]
  cases keepLoopE w1 keep { restricted := some r, basis := w1.basis, arr := fun _ => none, ptr := fun _ => none } <;> rfl

theorem keepBranch_shapes' {π β : Type} (w : WfnE π β) (r : Bool) (keep : List PtrKey) :
    (match keepLoopE (if r then dropBetaE w else w) keep
        { restricted := some r, basis := (if r then dropBetaE w else w).basis, arr := fun _ => none, ptr := fun _ => none } with
      | .ok ret => Except.ok (some ret)
      | .error e => .error e).map (Option.map WfnE.shapes)
    = (match keepLoop (if r then dropBeta w.shapes else w.shapes) keep
        { restricted := some r, basis := (if r then dropBeta w.shapes else w.shapes).basis, arr := fun _ => none, ptr := fun _ => none } with
      | .ok ret => Except.ok (some ret)
      | .error e => .error e) := by
  cases r
  · exact keepBranch_shapes w false keep
  · have := keepBranch_shapes (dropBetaE w) true keep
    rw [dropBetaE_shapes] at this
    exact this

/-- forgetting the elements, `wfnProtocolE` is `wfnProtocol` -/
theorem wfnProtocolE_shapes {π β : Type} (p : WfnProto) (w : WfnE π β) :
    (wfnProtocolE p w).map (Option.map WfnE.shapes) = wfnProtocol p w.shapes := by
  have hr : w.shapes.restricted = w.restricted := rfl
  unfold wfnProtocolE wfnProtocol
  rw [hr]
  cases w.restricted with
  | none => rfl
  | some r =>
    cases p with
    | none => rfl
    | all =>
      cases r
      · rfl
      · simp only [keepList, Except.map, Option.map_some, if_true, dropBetaE_shapes]
    | orbitals_and_eigenvalues => exact keepBranch_shapes' w r _
    | occupations_and_eigenvalues => exact keepBranch_shapes' w r _
    | return_results => exact keepBranch_shapes' w r _

theorem keepLoopE_retains {π β : Type} (w : WfnE π β) :
    ∀ (rest : List PtrKey) (ret ret' : WfnE π β),
      (∀ k a, ret.arr k = some a → w.arr k = some a) → keepLoopE w rest ret = .ok ret' →
      ∀ k a, ret'.arr k = some a → w.arr k = some a
  | [], ret, ret', hinv, h => by
    simp only [keepLoopE, Except.ok.injEq] at h
    subst h; exact hinv
  | rk :: rest, ret, ret', hinv, h => by
    unfold keepLoopE at h
    cases hk : w.ptr rk with
    | none => rw [hk] at h; exact keepLoopE_retains w rest ret ret' hinv h
    | some key =>
      rw [hk] at h
      cases hv : w.arr key with
      | none => simp [hv] at h
      | some v =>
        simp only [hv] at h
        refine keepLoopE_retains w rest _ ret' ?_ h
        intro k a hka
        simp only [setArrE, setPtrE] at hka
        by_cases hkk : k = key
        · subst hkk
          simp only [if_true, Option.some.injEq] at hka
          subst hka; exact hv
        · simp only [hkk, if_false] at hka
          exact hinv k a hka

/-- THE PROTOCOLS DO NOT ALTER RETAINED ARRAYS: whatever array the wavefunction protocol keeps under a key is exactly
(shape and elements) the array supplied under that same key — never another key's array, never a changed one -/
theorem wfnProtocolE_retains {π β : Type} (p : WfnProto) (w w' : WfnE π β)
    (h : wfnProtocolE p w = .ok (some w')) : ∀ k a, w'.arr k = some a → w.arr k = some a := by
  unfold wfnProtocolE at h
  cases hr : w.restricted with
  | none => simp [hr] at h
  | some r =>
    simp only [hr] at h
    have hdrop : ∀ k a, (if r then dropBetaE w else w).arr k = some a → w.arr k = some a := by
      intro k a hk
      cases r
      · exact hk
      · simp only [if_true, dropBetaE] at hk
        split at hk
        · cases hk
        · exact hk
    cases p with
    | none => simp at h
    | all =>
      simp only [keepList, Except.ok.injEq, Option.some.injEq] at h
      subst h; exact hdrop
    | orbitals_and_eigenvalues =>
      simp only [keepList] at h
      cases hl : keepLoopE (if r then dropBetaE w else w)
          [⟨.orbitals, .a⟩, ⟨.orbitals, .b⟩, ⟨.eigenvalues, .a⟩, ⟨.eigenvalues, .b⟩]
          { restricted := some r, basis := (if r then dropBetaE w else w).basis, arr := fun _ => none, ptr := fun _ => none } with
      | error e => simp [hl] at h
      | ok ret =>
        simp only [hl, Except.ok.injEq, Option.some.injEq] at h
        subst h
        intro k a hk
        exact hdrop k a (keepLoopE_retains _ _ _ _ (by intro k a hk; cases hk) hl k a hk)
    | occupations_and_eigenvalues =>
      simp only [keepList] at h
      cases hl : keepLoopE (if r then dropBetaE w else w)
          [⟨.occupations, .a⟩, ⟨.occupations, .b⟩, ⟨.eigenvalues, .a⟩, ⟨.eigenvalues, .b⟩]
          { restricted := some r, basis := (if r then dropBetaE w else w).basis, arr := fun _ => none, ptr := fun _ => none } with
      | error e => simp [hl] at h
      | ok ret =>
        simp only [hl, Except.ok.injEq, Option.some.injEq] at h
        subst h
        intro k a hk
        exact hdrop k a (keepLoopE_retains _ _ _ _ (by intro k a hk; cases hk) hl k a hk)
    | return_results =>
      simp only [keepList] at h
      cases hl : keepLoopE (if r then dropBetaE w else w) PtrKey.all
          { restricted := some r, basis := (if r then dropBetaE w else w).basis, arr := fun _ => none, ptr := fun _ => none } with
      | error e => simp [hl] at h
      | ok ret =>
        simp only [hl, Except.ok.injEq, Option.some.injEq] at h
        subst h
        intro k a hk
        exact hdrop k a (keepLoopE_retains _ _ _ _ (by intro k a hk; cases hk) hl k a hk)

/-! ## WavefunctionProperties -/

theorem arrOutE_shapes {π β : Type} (nbf : Option Nat) (w : WfnE π β) (k : ArrKey) :
    ((arrOutE nbf w k).join).map (·.shape) = (arrOut nbf w.shapes k).join := by
  simp only [arrOutE, arrOut, WfnE.shapes]
  cases w.arr k with
  | none => rfl
  | some a =>
    simp only [Option.map_some, Option.join_some, Arr.reshapeWith]
    cases applyArrRule nbf (arrRule k.base) a.shape <;> rfl

/-- forgetting the elements, `validateWfnE` is `validateWfn` -/
theorem validateWfnE_shapes {π : Type} (w : WfnE π BasisIn) :
    (validateWfnE w).map WfnE.shapes = validateWfn w.shapes := by
  have hb : w.shapes.basis = w.basis := rfl
  unfold validateWfnE validateWfn
  rw [hb]
  cases basisStage w.basis with
  | error e => rfl
  | ok bb =>
    obtain ⟨b', blocs⟩ := bb
    simp only
    cases wfnLocs b' blocs w.shapes with
    | nil =>
      simp only [Except.map]
      congr 1
      exact Wfn.ext' (by rfl) (by rfl) (fun k => arrOutE_shapes _ w k) (fun _ => rfl)
    | cons x l => rfl

/-- every array of accepted WavefunctionProperties holds exactly the elements supplied under the same name -/
theorem validateWfnE_data {π : Type} (w o : WfnE π BasisIn) (h : validateWfnE w = .ok o) :
    ∀ k a', o.arr k = some a' → ∃ a, w.arr k = some a ∧ a'.data = a.data := by
  unfold validateWfnE at h
  cases hbs : basisStage w.basis with
  | error e => simp [hbs] at h
  | ok bb =>
    obtain ⟨b', blocs⟩ := bb
    simp only [hbs] at h
    cases hl : wfnLocs b' blocs w.shapes with
    | cons x l => simp [hl] at h
    | nil =>
      simp only [hl, Except.ok.injEq] at h
      subst h
      intro k a' hk
      simp only [arrOutE] at hk
      cases ha : w.arr k with
      | none => simp [ha] at hk
      | some a =>
        simp only [ha, Option.map_some, Option.join_some] at hk
        exact ⟨a, rfl, (reshape_preserves_elements _ _ _ hk).1⟩

/-! ## return_result -/

theorem RRE.asArr_shape {π : Type} (v : RRE π) : v.asArr.shape = v.shapes.asShape := by
  cases v <;> rfl

/-- forgetting the elements, `validateRRE` is `validateRR` -/
theorem validateRRE_shapes {π : Type} (d : Driver) (v : RRE π) :
    (validateRRE d v).map RRE.shapes = validateRR d v.shapes := by
  cases d with
  | energy => rfl
  | properties => rfl
  | gradient =>
    simp only [validateRRE, validateRR, Arr.reshapeWith, RRE.asArr_shape]
    cases reshapeCols3 v.shapes.asShape <;> rfl
  | hessian =>
    simp only [validateRRE, validateRR, Arr.reshapeWith, RRE.asArr_shape]
    cases reshapeSquare v.shapes.asShape <;> rfl

/-- the validated return value holds exactly the supplied elements -/
theorem validateRRE_data {π : Type} (d : Driver) (v v' : RRE π) (h : validateRRE d v = some v') :
    v'.asArr.data = v.asArr.data := by
  cases d with
  | energy => simp only [validateRRE, Option.some.injEq] at h; subst h; rfl
  | properties => simp only [validateRRE, Option.some.injEq] at h; subst h; rfl
  | gradient =>
    simp only [validateRRE] at h
    cases hr : v.asArr.reshapeWith reshapeCols3 with
    | none => simp [hr] at h
    | some a =>
      simp only [hr, Option.map_some, Option.some.injEq] at h
      subst h
      exact (reshape_preserves_elements _ _ _ hr).1
  | hessian =>
    simp only [validateRRE] at h
    cases hr : v.asArr.reshapeWith reshapeSquare with
    | none => simp [hr] at h
    | some a =>
      simp only [hr, Option.map_some, Option.some.injEq] at h
      subst h
      exact (reshape_preserves_elements _ _ _ hr).1

/-! ## AtomicResult -/

theorem wfnFieldE_shapes {π : Type} (p : WfnProto) (w : Option (WfnE π BasisIn)) :
    (wfnFieldE p w).map (Option.map WfnE.shapes) = wfnField p (w.map WfnE.shapes) := by
  cases w with
  | none => rfl
  | some w =>
    simp only [wfnFieldE, wfnField, Option.map_some]
    have h1 := wfnProtocolE_shapes p w
    cases hp : wfnProtocolE p w with
    | error e =>
      rw [hp] at h1
      simp only [Except.map] at h1
      rw [← h1]
      rfl
    | ok ow =>
      rw [hp] at h1
      simp only [Except.map] at h1
      rw [← h1]
      cases ow with
      | none => rfl
      | some w1 =>
        simp only [Option.map_some]
        have h2 := validateWfnE_shapes w1
        cases hv : validateWfnE w1 with
        | ok w2 => rw [hv] at h2; simp only [Except.map] at h2; rw [← h2]; rfl
        | error e => rw [hv] at h2; simp only [Except.map] at h2; rw [← h2]; cases e <;> rfl

/-- forgetting the elements, `atomicResultE` is `atomicResult`: same verdict, same error locations, same shapes,
same retained keys — so every C20 theorem about `atomicResult` describes `atomicResultE` as well -/
theorem atomicResultE_shapes {π γ σ : Type} (i : ARInE π γ σ) :
    (atomicResultE i).map AROutE.shapes = atomicResult i.shapes := by
  have hp := validatePropsE_shapes i.props
  have hw := wfnFieldE_shapes i.wp i.wfn
  have hr := validateRRE_shapes i.driver i.rr
  simp only [atomicResultE, atomicResult, ARInE.shapes]
  cases hpe : validatePropsE i.props <;> cases hwe : wfnFieldE i.wp i.wfn <;>
    cases hre : validateRRE i.driver i.rr <;>
    rw [hpe] at hp <;> rw [hwe] at hw <;> rw [hre] at hr <;>
    simp only [Except.map, Option.map_some, Option.map_none] at hp hw hr <;>
    simp only [← hp, ← hw, ← hr] <;>
    first
      | rfl
      | (rename_i e _; cases e <;> rfl)
      | (rename_i e; cases e <;> rfl)

theorem wfnFieldE_data {π : Type} (p : WfnProto) (w : Option (WfnE π BasisIn)) (o : WfnE π BasisIn)
    (h : wfnFieldE p w = .ok (some o)) :
    ∃ w0, w = some w0 ∧ ∀ k a', o.arr k = some a' → ∃ a, w0.arr k = some a ∧ a'.data = a.data := by
  cases w with
  | none => simp [wfnFieldE] at h
  | some w0 =>
    refine ⟨w0, rfl, ?_⟩
    simp only [wfnFieldE] at h
    cases hp : wfnProtocolE p w0 with
    | error e => simp [hp] at h
    | ok ow =>
      cases ow with
      | none => simp [hp] at h
      | some w1 =>
        simp only [hp] at h
        cases hv : validateWfnE w1 with
        | error e => cases e <;> simp [hv] at h
        | ok w2 =>
          simp only [hv, Except.ok.injEq, Option.some.injEq] at h
          subst h
          intro k a' hk
          obtain ⟨a, ha, hd⟩ := validateWfnE_data w1 w2 hv k a' hk
          exact ⟨a, wfnProtocolE_retains p w0 w1 hp k a ha, hd⟩

/-- ELEMENT VALUES END TO END: in an accepted AtomicResult every properties array, every retained wavefunction array
and the return value hold exactly the row-major elements that were supplied under the same name -/
theorem atomicResultE_data {π γ σ : Type} (i : ARInE π γ σ) (o : AROutE π γ σ) (h : atomicResultE i = .ok o) :
    (∀ k a', o.props.arr k = some a' → ∃ a, i.props.arr k = some a ∧ a'.data = a.data) ∧
    (∀ w', o.wfn = some w' → ∃ w, i.wfn = some w ∧
        ∀ k a', w'.arr k = some a' → ∃ a, w.arr k = some a ∧ a'.data = a.data) ∧
    o.rr.asArr.data = i.rr.asArr.data := by
  simp only [atomicResultE] at h
  cases hw : wfnFieldE i.wp i.wfn with
  | error e => cases e <;> simp [hw] at h
  | ok w =>
    simp only [hw] at h
    cases hp : validatePropsE i.props with
    | error l => simp [hp] at h
    | ok pv =>
      cases hr : validateRRE i.driver i.rr with
      | none => simp [hp, hr] at h
      | some r =>
        simp only [hp, hr, Except.ok.injEq] at h
        subst h
        refine ⟨validatePropsE_data _ _ hp, ?_, validateRRE_data _ _ _ hr⟩
        intro w' hw'
        simp only at hw'
        subst hw'
        exact wfnFieldE_data _ _ _ hw

/-- non-vacuity: a flat gradient under the gradient driver, a flat AO matrix kept through `orbitals_and_eigenvalues`… -/
def exARE : ARInE (List Nat) Unit Unit :=
  { wp := .all, so := false, nf := .none, driver := .gradient,
    props := { natom := some 1, arr := fun k => if k = .return_gradient then some ⟨[3], [7, 8, 9]⟩ else none },
    wfn := none, rr := .arr ⟨[6], [1, 2, 3, 4, 5, 6]⟩, stdout := none, native := none }

example : ∃ o, atomicResultE exARE = .ok o ∧ o.rr = .arr ⟨[2, 3], [1, 2, 3, 4, 5, 6]⟩ ∧
    o.props.arr .return_gradient = some ⟨[1, 3], [7, 8, 9]⟩ := by
  refine ⟨_, rfl, ?_, ?_⟩ <;> decide

end QcelVerif.Protocols
