import QcelVerif.Lemmas.MolTextJoin
/-!
C07 — the read/write theorems of Props/C07.lean lifted from the written LINES to the written TEXT.

manifest: written_psi4_clean written_xyz_clean textLines_join textLines_comments   (the last two: Lemmas/MolTextJoin.lean)
          read_write_psi4_text read_write_xyzplus_text read_write_xyz_text
          parseText_frame psi4_layout_insensitive xyz_layout_insensitive
          psi4_text_layout xyzplus_text_layout xyz_text_layout read_write_psi4_text_comments psi4_insert_blank_line

`parseText d (render (write r))` runs the whole M1 reader of Model/MolText.lean: outer `strip`, `filterComments`,
`split("\n")`, per-line `strip`, then the line filters.  Props/C07.lean proves `read_write_*` on the lines; here
(a) every written line is shown to be free of `#` and newline and to begin and end with a non-blank character
    (from the record invariants `RecOk` / `XyzOk` alone — symbols are letters, labels are word characters, numbers are
    digits, sign, dot; the keywords are constants); the only free text the writers print is the xyz title (`name`),
    for which `Clean r.name` (no `#`, no newline) is a hypothesis,
(b) `textLines (render ls) = ls.map strip` for such lines (Lemmas/MolTextJoin.lean),
(c) the line-level theorems apply.
All theorems here are full strength for the model (no `_partial`): this closes the `-- FULL:` note of Props/C07.lean,
`parseText d (render (write r)) = ok (project r)`.  What stays outside is what was outside before: printed numbers
are parameters, and M1/M2 are tied to the code by the differential run.
-/
namespace QcelVerif.MolText

/-! ## (a) the alphabet of the written tokens -/

theorem ws_cases {c : Char} (h : isWs c = true) :
    c = ' ' ∨ c = '\t' ∨ c = '\n' ∨ c = '\r' ∨ c = '\x0b' ∨ c = '\x0c' ∨ c = '\x1c' ∨ c = '\x1d' ∨ c = '\x1e' ∨ c = '\x1f' := by
  simp only [isWs, Bool.or_eq_true, beq_iff_eq] at h
  rcases h with ((((((((h|h)|h)|h)|h)|h)|h)|h)|h)|h <;> simp [h]

/-- a predicate that rejects `#` and newline only holds of clean characters -/
theorem clean_of_pred (p : Char → Bool) (h1 : p '#' = false) (h2 : p '\n' = false) {c : Char} (h : p c = true) :
    (c == '#') = false ∧ (c == '\n') = false := by
  constructor
  · cases hc : (c == '#') with
    | false => rfl
    | true => rw [beq_iff_eq] at hc; subst hc; rw [h1] at h; cases h
  · cases hc : (c == '\n') with
    | false => rfl
    | true => rw [beq_iff_eq] at hc; subst hc; rw [h2] at h; cases h

theorem word_clean {c : Char} (h : isWord c = true) : (c == '#') = false ∧ (c == '\n') = false :=
  clean_of_pred isWord (by decide) (by decide) h
theorem mant_clean {c : Char} (h : isMantChar c = true) : (c == '#') = false ∧ (c == '\n') = false :=
  clean_of_pred isMantChar (by decide) (by decide) h

theorem word_not_ws {c : Char} (h : isWord c = true) : isWs c = false := by
  cases hw : isWs c with
  | false => rfl
  | true =>
    rcases ws_cases hw with rfl | rfl | rfl | rfl | rfl | rfl | rfl | rfl | rfl | rfl <;> exact absurd h (by decide)

theorem mant_not_ws {c : Char} (h : isMantChar c = true) : isWs c = false := by
  cases hw : isWs c with
  | false => rfl
  | true =>
    rcases ws_cases hw with rfl | rfl | rfl | rfl | rfl | rfl | rfl | rfl | rfl | rfl <;> exact absurd h (by decide)

theorem wsbs_cases {c : Char} (h : isWsBs c = true) : isWs c = true ∨ c = '\\' := by
  simpa [isWsBs] using h

theorem word_not_wsbs {c : Char} (h : isWord c = true) : isWsBs c = false := by
  cases hw : isWsBs c with
  | false => rfl
  | true =>
    rcases wsbs_cases hw with hw | rfl
    · rw [word_not_ws h] at hw; cases hw
    · exact absurd h (by decide)

theorem mant_not_wsbs {c : Char} (h : isMantChar c = true) : isWsBs c = false := by
  cases hw : isWsBs c with
  | false => rfl
  | true =>
    rcases wsbs_cases hw with hw | rfl
    · rw [mant_not_ws h] at hw; cases hw
    · exact absurd h (by decide)

theorem digits_clean {m : Str} (h : DigitsOk m) : Clean m := fun c hc => mant_clean (digit_mant (h.2 c hc))
theorem digits_tight {m : Str} (h : DigitsOk m) : Tight m :=
  tight_of_all h.1 (fun c hc => mant_not_wsbs (digit_mant (h.2 c hc)))

theorem coord_clean (c : Coord) (h : CoordOk c) : Clean c.str :=
  fun x hx => mant_clean (mant_all_fixed c.neg c.ip c.fp h.1 h.2 x hx)

theorem coord_lastOk (c : Coord) (h : CoordOk c) : c.str.getLast?.map isWsBs = some false := by
  unfold Coord.str
  exact lastOk_append_right _ (lastOk_cons '.' (digits_tight h.2).2)

theorem int_clean (c : IntS) (h : IntOk c) : Clean c.str := by
  intro x hx
  simp only [IntS.str, List.mem_append] at hx
  rcases hx with hx | hx
  · cases hn : c.neg <;> simp [hn] at hx; subst hx; decide
  · exact mant_clean (digit_mant (h.2 x hx))

theorem int_headOk (c : IntS) (h : IntOk c) : c.str.head?.map isWs = some false := by
  obtain ⟨n, d⟩ := c
  cases n
  · simpa [IntS.str] using (digits_tight h).1
  · simp [IntS.str]; decide

theorem sym_clean {s : Str} (h : SymOk s) : Clean s := fun c hc => word_clean (alpha_word (h.2.2 c hc))
theorem sym_headOk {s : Str} (h : SymOk s) : s.head?.map isWs = some false :=
  (tight_of_all h.1 (fun c hc => word_not_wsbs (alpha_word (h.2.2 c hc)))).1
theorem lbl_clean {l : Str} (h : LblOk l) : Clean l := fun c hc => word_clean (lbl_word h c hc)

/-- the psi4 nucleus token `{elem}{elbl}` / `Gh({elem}{elbl})` -/
theorem nucPsi4_clean (a : Atom) (hs : SymOk a.sym) (hl : LblOk a.lbl) :
    Clean (nucPsi4 a) ∧ (nucPsi4 a).head?.map isWs = some false := by
  cases hr : a.real with
  | true =>
    simp only [nucPsi4, hr, if_true]
    exact ⟨clean_append (sym_clean hs) (lbl_clean hl), headOk_append_left _ (sym_headOk hs)⟩
  | false =>
    simp only [nucPsi4, hr, Bool.false_eq_true, if_false]
    refine ⟨clean_append (clean_append (clean_append (by decide) (sym_clean hs)) (lbl_clean hl)) (by decide), ?_⟩
    simp only [List.append_assoc]
    exact headOk_append_left _ (by decide)

/-- the xyz nucleus token `{elem}` / `@{elem}` -/
theorem nucXyz_clean (a : Atom) (hs : SymOk a.sym) :
    Clean (nucXyz a) ∧ (nucXyz a).head?.map isWs = some false := by
  cases hr : a.real with
  | true => simp only [nucXyz, hr, if_true]; exact ⟨sym_clean hs, sym_headOk hs⟩
  | false =>
    simp only [nucXyz, hr, Bool.false_eq_true, if_false]
    exact ⟨clean_cons (by decide) (sym_clean hs), by show Option.map isWs (some '@') = some false; decide⟩

/-- a written atom line holds no `#`, no newline, and begins and ends with a non-blank character -/
theorem atomLine_lineOk (nuc : Str) (a : Atom) (hn : Clean nuc) (hh : nuc.head?.map isWs = some false)
    (hx : CoordOk a.x) (hy : CoordOk a.y) (hz : CoordOk a.z) : Clean (atomLine nuc a) ∧ Tight (atomLine nuc a) := by
  have hpad : ∀ c : Coord, CoordOk c → Clean (padLeft 17 c.str) := fun c hc =>
    clean_append (clean_spaces _) (coord_clean c hc)
  have h2 : Clean "  ".toList := by decide
  refine ⟨?_, ?_, ?_⟩
  · unfold atomLine
    exact clean_append (clean_append (clean_append (clean_append (clean_append (clean_append
      (clean_append hn (clean_spaces _)) h2) (hpad _ hx)) h2) (hpad _ hy)) h2) (hpad _ hz)
  · unfold atomLine padRight
    simp only [List.append_assoc]
    exact headOk_append_left _ hh
  · unfold atomLine
    exact lastOk_append_right _ (lastOk_append_right _ (coord_lastOk a.z hz))

theorem cgmpLine_lineOk (c : IntS) (m : Str) (hc : IntOk c) (hm : DigitsOk m) :
    Clean (cgmpLine c m) ∧ Tight (cgmpLine c m) := by
  unfold cgmpLine
  refine ⟨clean_append (int_clean c hc) (clean_cons (by decide) (digits_clean hm)), ?_, ?_⟩
  · exact headOk_append_left _ (int_headOk c hc)
  · exact lastOk_append_right _ (lastOk_cons ' ' (digits_tight hm).2)

/-! ### psi4 -/

theorem mem_writePsi4 (r : MolRec) (l : Str) (h : l ∈ writePsi4 r) :
    l = cgmpLine r.chg r.mult ∨
    (∃ f ∈ r.frags, l = "--".toList ∨ l = cgmpLine f.chg f.mult ∨ ∃ a ∈ f.atoms, l = atomLine (nucPsi4 a) a) ∨
    l = "units bohr".toList ∨ l = "units angstrom".toList ∨ l = "no_com".toList ∨ l = "no_reorient".toList := by
  simp only [writePsi4, List.mem_cons, List.mem_append, List.mem_flatMap, fragLinesPsi4, List.mem_map,
    List.not_mem_nil, or_false] at h
  rcases h with (((h | ⟨f, hf, h | ⟨a, ha, rfl⟩⟩) | h) | h) | h
  · exact Or.inl h
  · refine Or.inr (Or.inl ⟨f, hf, ?_⟩)
    split at h
    · simp only [List.mem_cons, List.not_mem_nil, or_false] at h
      rcases h with h | h
      · exact Or.inl h
      · exact Or.inr (Or.inl h)
    · cases h
  · exact Or.inr (Or.inl ⟨f, hf, Or.inr (Or.inr ⟨a, ha, rfl⟩)⟩)
  · split at h
    · exact Or.inr (Or.inr (Or.inl h))
    · exact Or.inr (Or.inr (Or.inr (Or.inl h)))
  · split at h
    · simp only [List.mem_cons, List.not_mem_nil, or_false] at h
      exact Or.inr (Or.inr (Or.inr (Or.inr (Or.inl h))))
    · cases h
  · split at h
    · simp only [List.mem_cons, List.not_mem_nil, or_false] at h
      exact Or.inr (Or.inr (Or.inr (Or.inr (Or.inr h))))
    · cases h

/-- **written_psi4_clean**: for a record meeting `RecOk`, every line `writePsi4` prints is free of `#` and newline
and begins and ends with a non-blank character (the writer's tokens stay inside the reader's comment-free alphabet). -/
theorem written_psi4_clean (r : MolRec) (h : RecOk r) : ∀ l ∈ writePsi4 r, Clean l ∧ Tight l := by
  obtain ⟨hc, hm, _, hfr⟩ := h
  intro l hl
  rcases mem_writePsi4 r l hl with rfl | ⟨f, hf, rfl | rfl | ⟨a, ha, rfl⟩⟩ | rfl | rfl | rfl | rfl
  · exact cgmpLine_lineOk _ _ hc hm
  · exact ⟨by decide, by decide⟩
  · exact cgmpLine_lineOk _ _ (hfr f hf).1 (hfr f hf).2.1
  · obtain ⟨hs, hlb, hx, hy, hz⟩ := (hfr f hf).2.2.2 a ha
    obtain ⟨h1, h2⟩ := nucPsi4_clean a hs hlb
    exact atomLine_lineOk _ a h1 h2 hx hy hz
  · exact ⟨by decide, by decide⟩
  · exact ⟨by decide, by decide⟩
  · exact ⟨by decide, by decide⟩
  · exact ⟨by decide, by decide⟩

theorem head?_mem {α} {l : List α} {a : α} (h : l.head? = some a) : a ∈ l := by
  cases l with
  | nil => cases h
  | cons b t => simp at h; subst h; simp

theorem getLast?_mem {α} {l : List α} {a : α} (h : l.getLast? = some a) : a ∈ l := by
  obtain ⟨ys, rfl⟩ := List.getLast?_eq_some_iff.mp h; simp

/-- lines that are all clean and non-blank come back from their rendered text, each stripped -/
theorem textLines_render_all (ls : List Str) (hc : ∀ l ∈ ls, Clean l) (hnb : ∀ l ∈ ls, NonBlank l) (hne : ls ≠ []) :
    textLines (render ls) = ls.map strip :=
  textLines_render ls hc (fun l hl => hnb l (head?_mem hl)) (fun l hl => hnb l (getLast?_mem hl)) hne

/-- **read_write_psi4_text**: the whole M1 reader (outer strip, filter_comments, line split, per-line strip, line
filters) on the TEXT `writePsi4` prints (`"\n".join(lines) + "\n"`) gives exactly `projectPsi4 r`. -/
theorem read_write_psi4_text (r : MolRec) (h : RecOk r) :
    parseText .psi4 (render (writePsi4 r)) = .ok (projectPsi4 r) := by
  have hok := written_psi4_clean r h
  have hne : writePsi4 r ≠ [] := by
    intro h0; simp only [writePsi4, List.cons_append] at h0; cases h0
  have hl : textLines (render (writePsi4 r)) = writePsi4 r := by
    rw [textLines_render_all _ (fun l hl => (hok l hl).1) (fun l hl => nonblank_of_tight (hok l hl).2) hne]
    calc (writePsi4 r).map strip = (writePsi4 r).map id :=
          List.map_congr_left (fun l hl => strip_tight (hok l hl).2)
      _ = writePsi4 r := List.map_id _
  show parsePsi4Lines ((textLines (render (writePsi4 r))).map classify) = _
  rw [hl]
  exact read_write_psi4 r h

/-! ### xyz / xyz+ -/

def titleLine (r : MolRec) : Str := r.chg.str ++ ' ' :: r.mult ++ ' ' :: r.name
def line0 (natS : Str) (r : MolRec) : Str := natS ++ (if r.bohr then " au".toList else [])

theorem writeXyz_eq (natS : Str) (r : MolRec) :
    writeXyz natS r = line0 natS r :: titleLine r :: (allAtoms r).map fun a => atomLine (nucXyz a) a := rfl

theorem line0_lineOk (natS : Str) (r : MolRec) (hn : DigitsOk natS) : Clean (line0 natS r) ∧ Tight (line0 natS r) := by
  unfold line0
  cases r.bohr with
  | false => simpa using ⟨digits_clean hn, digits_tight hn⟩
  | true =>
    exact ⟨clean_append (digits_clean hn) (by decide), headOk_append_left _ (digits_tight hn).1,
      lastOk_append_right _ (by decide)⟩

/-- the title line `int(chg) mult name`: clean when the free-text `name` is; it begins with the charge -/
theorem titleLine_ok (r : MolRec) (hc : IntOk r.chg) (hm : DigitsOk r.mult) (hname : Clean r.name) :
    Clean (titleLine r) ∧ (titleLine r).head?.map isWs = some false := by
  unfold titleLine
  refine ⟨clean_append (clean_append (int_clean _ hc) (clean_cons (by decide) (digits_clean hm)))
    (clean_cons (by decide) hname), ?_⟩
  rw [List.append_assoc]
  exact headOk_append_left _ (int_headOk _ hc)

theorem nonblank_of_headOk {l : Str} (h : l.head?.map isWs = some false) : NonBlank l := by
  cases l with
  | nil => simp at h
  | cons c t => exact ⟨c, by simp, by simpa using h⟩

/-- **written_xyz_clean**: for a record meeting `XyzOk` whose title text holds no `#` / newline, every line `writeXyz`
prints is free of `#` and newline and is not blank; all but the title line begin and end with a non-blank character. -/
theorem written_xyz_clean (natS : Str) (r : MolRec) (h : XyzOk natS r) (hname : Clean r.name) :
    (∀ l ∈ writeXyz natS r, Clean l ∧ NonBlank l) ∧
    (∀ a ∈ allAtoms r, Tight (atomLine (nucXyz a) a)) ∧ Tight (line0 natS r) := by
  obtain ⟨hn, hc, hm, ha⟩ := h
  have hat : ∀ a ∈ allAtoms r, Clean (atomLine (nucXyz a) a) ∧ Tight (atomLine (nucXyz a) a) := by
    intro a haa
    obtain ⟨hs, _, hx, hy, hz⟩ := ha a haa
    obtain ⟨h1, h2⟩ := nucXyz_clean a hs
    exact atomLine_lineOk _ a h1 h2 hx hy hz
  refine ⟨?_, fun a haa => (hat a haa).2, (line0_lineOk natS r hn).2⟩
  intro l hl
  rw [writeXyz_eq, List.mem_cons, List.mem_cons, List.mem_map] at hl
  rcases hl with rfl | rfl | ⟨a, haa, rfl⟩
  · exact ⟨(line0_lineOk natS r hn).1, nonblank_of_tight (line0_lineOk natS r hn).2⟩
  · obtain ⟨h1, h2⟩ := titleLine_ok r hc hm hname
    exact ⟨h1, nonblank_of_headOk h2⟩
  · exact ⟨(hat a haa).1, nonblank_of_tight (hat a haa).2⟩

/-- the lines read back from the written xyz text: only the title line may lose trailing blanks -/
theorem textLines_writeXyz (natS : Str) (r : MolRec) (h : XyzOk natS r) (hname : Clean r.name) :
    textLines (render (writeXyz natS r))
      = line0 natS r :: strip (titleLine r) :: (allAtoms r).map fun a => atomLine (nucXyz a) a := by
  obtain ⟨hall, hat, h0⟩ := written_xyz_clean natS r h hname
  rw [textLines_render_all _ (fun l hl => (hall l hl).1) (fun l hl => (hall l hl).2) (by simp [writeXyz])]
  rw [writeXyz_eq, List.map_cons, List.map_cons, strip_tight h0, List.map_map]
  congr 2
  calc List.map (strip ∘ fun a => atomLine (nucXyz a) a) (allAtoms r)
      = List.map (fun a => atomLine (nucXyz a) a) (allAtoms r) :=
        List.map_congr_left (fun a haa => strip_tight (hat a haa))

/-- `rstrip` of the title line keeps `chg mult` and leaves nothing or something starting with a blank -/
theorem strip_titleLine (r : MolRec) (hc : IntOk r.chg) (hm : DigitsOk r.mult) :
    ∃ x, strip (titleLine r) = r.chg.str ++ ' ' :: r.mult ++ x ∧ (x = [] ∨ ∃ t, x = ' ' :: t) := by
  have hhead : (titleLine r).head?.map isWs = some false := by
    unfold titleLine; rw [List.append_assoc]; exact headOk_append_left _ (int_headOk _ hc)
  have hlast : (r.chg.str ++ ' ' :: r.mult).getLast?.map isWsBs = some false :=
    lastOk_append_right _ (lastOk_cons ' ' (digits_tight hm).2)
  have hsp : ∀ c ∈ [' '], isWs c = true := by intro c hc; simp at hc; subst hc; decide
  unfold strip
  rw [stripL_headOk hhead]
  unfold titleLine
  rcases blank_or_nonblank r.name with hb | hb
  · refine ⟨[], ?_, Or.inl rfl⟩
    rw [stripR_ws_suffix _ (' ' :: r.name) (by
      intro c hc; rw [List.mem_cons] at hc; rcases hc with rfl | hc; decide; exact hb c hc)]
    simpa using stripR_lastOk hlast
  · refine ⟨' ' :: stripR r.name, ?_, Or.inr ⟨_, rfl⟩⟩
    have : r.chg.str ++ ' ' :: r.mult ++ ' ' :: r.name = (r.chg.str ++ ' ' :: r.mult ++ [' ']) ++ r.name := by simp
    rw [this, stripR_append_nonblank _ r.name hb]
    simp

theorem matchXyz2_stripped (c : IntS) (m x : Str) (hc : IntOk c) (hm : DigitsOk m) (hx : x = [] ∨ ∃ t, x = ' ' :: t) :
    matchXyz2 (c.str ++ ' ' :: m ++ x) = some (c.parts, m) := by
  rcases hx with rfl | ⟨t, rfl⟩
  · have hsep : (fun ch => !isSep ch) ' ' = false := by decide
    have hall : ∀ y ∈ c.str, (fun ch => !isSep ch) y = true := by
      intro y hy; simp [(int_tok c hc).2 y hy]
    have h1 : (c.str ++ ' ' :: m ++ []).takeWhile (fun ch => !isSep ch) = c.str := by
      rw [List.append_nil]; exact tw_app c.str _ hall (Or.inr ⟨' ', _, rfl, hsep⟩)
    have h2 : (c.str ++ ' ' :: m ++ []).dropWhile (fun ch => !isSep ch) = ' ' :: m := by
      rw [List.append_nil]; exact dw_app c.str _ hall (Or.inr ⟨' ', _, rfl, hsep⟩)
    obtain ⟨d, t, hdt⟩ : ∃ d t, m = d :: t := by
      cases m with | nil => exact absurd rfl hm.1 | cons d t => exact ⟨d, t, rfl⟩
    have hd : isSep d = false := (digits_tok hm).2 d (by simp [hdt])
    have h3 : (' ' :: m).dropWhile isSep = m := by
      have : isSep ' ' = true := by decide
      simp [List.dropWhile, this, hdt, hd]
    have h4 : m.takeWhile Char.isDigit = m := tw_all m hm.2
    have hme : m.isEmpty = false := by simp [hdt]
    simp only [matchXyz2, h1, h2, parseNumber_int c hc, h3, h4, hme, Bool.false_eq_true, if_false]
  · exact matchXyz2_written c m t hc hm

/-- the xyz+ line reader on the written lines with the title line stripped -/
theorem read_lines_xyzplus_stripped (natS : Str) (r : MolRec) (h : XyzOk natS r) :
    parseXyzLines false (line0 natS r :: strip (titleLine r) :: (allAtoms r).map fun a => atomLine (nucXyz a) a)
      = .ok (projectXyzPlus r) := by
  obtain ⟨hn, hc, hm, ha⟩ := h
  obtain ⟨x, hx, hx'⟩ := strip_titleLine r hc hm
  rw [hx]
  have hne : (line0 natS r).isEmpty = false := by
    unfold line0; cases natS with | nil => exact absurd rfl hn.1 | cons _ _ => rfl
  have h0 : matchXyz1 (line0 natS r) = some (if r.bohr then some true else none) := matchXyz1_written natS hn r.bohr
  simp only [parseXyzLines, hne, Bool.false_eq_true, if_false, h0,
    matchXyz2_stripped r.chg r.mult x hc hm hx', body_classified r ha,
    xyzAtoms_written false (allAtoms r) (fun h => by cases h)]
  cases hb : r.bohr <;> simp [projectXyzPlus, hb]

/-- **read_write_xyzplus_text**: the whole M1 reader on the TEXT `writeXyz` prints, read as xyz+, gives
`projectXyzPlus r` (whatever the title text `name` is, as long as it holds no `#` and no newline). -/
theorem read_write_xyzplus_text (natS : Str) (r : MolRec) (h : XyzOk natS r) (hname : Clean r.name) :
    parseText .xyzPlus (render (writeXyz natS r)) = .ok (projectXyzPlus r) := by
  show parseXyzLines false (textLines (render (writeXyz natS r))) = _
  rw [textLines_writeXyz natS r h hname]
  exact read_lines_xyzplus_stripped natS r h

/-- strict xyz never looks at the second line -/
theorem parseXyzLines_strict_title (l0 t1 t2 : Str) (body : List Str) :
    parseXyzLines true (l0 :: t1 :: body) = parseXyzLines true (l0 :: t2 :: body) := by
  simp only [parseXyzLines, if_true]

/-- the strict xyz line reader on the written lines with the title line stripped -/
theorem read_lines_xyz_stripped (natS : Str) (r : MolRec) (h : XyzOk natS r) (hb : r.bohr = false)
    (hreal : ∀ a ∈ allAtoms r, a.real = true) :
    parseXyzLines true (line0 natS r :: strip (titleLine r) :: (allAtoms r).map fun a => atomLine (nucXyz a) a)
      = .ok (projectXyz r) := by
  rw [parseXyzLines_strict_title _ _ (titleLine r), ← writeXyz_eq]
  exact read_write_xyz natS r h hb hreal

/-- **read_write_xyz_text**: the whole M1 reader on the TEXT written for a ghost-free record in Angstrom, read under
the strict xyz dialect, gives `projectXyz r`. -/
theorem read_write_xyz_text (natS : Str) (r : MolRec) (h : XyzOk natS r) (hname : Clean r.name) (hb : r.bohr = false)
    (hreal : ∀ a ∈ allAtoms r, a.real = true) :
    parseText .xyz (render (writeXyz natS r)) = .ok (projectXyz r) := by
  show parseXyzLines true (textLines (render (writeXyz natS r))) = _
  rw [textLines_writeXyz natS r h hname]
  exact read_lines_xyz_stripped natS r h hb hreal

/-! ## layout insensitivity at text level

A laid-out text is `p ++ "\n".join(line_i ++ optional "#comment_i") ++ q` with whitespace `p`, `q`.  Blank lines are
lines whose line part is blank (a comment-only line is one of them); blanks around a line are part of the line part. -/

/-- **parseText_frame**: whitespace (blanks, tabs, empty lines, …) before and after ANY text changes nothing. -/
theorem parseText_frame (d : Dtype) (p s q : Str) (hp : ∀ c ∈ p, isWs c = true) (hq : ∀ c ∈ q, isWs c = true) :
    parseText d (p ++ s ++ q) = parseText d s := by
  unfold parseText; rw [textLines_frame p s q hp hq]

/-- side conditions on the lines of a laid-out text: line parts hold no `#` / newline, a commented line part does not
end in a backslash, comments hold no newline, the first and the last line part are not blank -/
def LayoutOk (ps : List (Str × Option Str)) : Prop :=
  ps ≠ [] ∧ (∀ p ∈ ps, ComOk p) ∧ (∀ p, ps.head? = some p → NonBlank p.1) ∧ (∀ p, ps.getLast? = some p → NonBlank p.1)

/-- the lines the reader sees in a laid-out text: the stripped line parts -/
theorem textLines_layout (ps : List (Str × Option Str)) (h : LayoutOk ps) (p q : Str)
    (hp : ∀ c ∈ p, isWs c = true) (hq : ∀ c ∈ q, isWs c = true) :
    textLines (p ++ joinLines (ps.map withCom) ++ q) = ps.map fun x => strip x.1 := by
  obtain ⟨hne, hc, hf, hl⟩ := h
  rw [textLines_frame p _ q hp hq, textLines_comments ps hc hf hl hne, List.map_map]
  rfl

theorem filter_blank_classify (xs : List Str) :
    (xs.map classify).filter (· != .blank)
      = ((xs.filter fun s => !s.isEmpty).map classify).filter (· != .blank) := by
  induction xs with
  | nil => rfl
  | cons x xs ih =>
    cases x with
    | nil => simpa [classify] using ih
    | cons c t => simp only [List.map_cons, List.filter_cons, List.isEmpty_cons, Bool.not_false, if_true, ih]

/-- **psi4_layout_insensitive**: two laid-out psi4 texts with the same non-blank stripped line parts read alike —
comments after any line, comment-only and blank lines anywhere, blanks around lines and around the text do not matter. -/
theorem psi4_layout_insensitive (ps1 ps2 : List (Str × Option Str)) (h1 : LayoutOk ps1) (h2 : LayoutOk ps2)
    (h : (ps1.map fun x => strip x.1).filter (fun s => !s.isEmpty) = (ps2.map fun x => strip x.1).filter (fun s => !s.isEmpty))
    (p1 q1 p2 q2 : Str) (hp1 : ∀ c ∈ p1, isWs c = true) (hq1 : ∀ c ∈ q1, isWs c = true)
    (hp2 : ∀ c ∈ p2, isWs c = true) (hq2 : ∀ c ∈ q2, isWs c = true) :
    parseText .psi4 (p1 ++ joinLines (ps1.map withCom) ++ q1) = parseText .psi4 (p2 ++ joinLines (ps2.map withCom) ++ q2) := by
  show parsePsi4Lines ((textLines _).map classify) = parsePsi4Lines ((textLines _).map classify)
  rw [textLines_layout ps1 h1 p1 q1 hp1 hq1, textLines_layout ps2 h2 p2 q2 hp2 hq2]
  apply blank_lines_insensitive_psi4
  rw [filter_blank_classify, h, ← filter_blank_classify]

/-- **xyz_layout_insensitive**: the same for xyz / xyz+ (`strict` = xyz): the two header lines keep their places
(their comments and surrounding blanks do not matter); after them only the non-blank stripped line parts matter. -/
theorem xyz_layout_insensitive (strict : Bool) (a0 a1 b0 b1 : Str × Option Str) (as bs : List (Str × Option Str))
    (h1 : LayoutOk (a0 :: a1 :: as)) (h2 : LayoutOk (b0 :: b1 :: bs))
    (e0 : strip a0.1 = strip b0.1) (e1 : strip a1.1 = strip b1.1)
    (h : (as.map fun x => strip x.1).filter (fun s => !s.isEmpty) = (bs.map fun x => strip x.1).filter (fun s => !s.isEmpty))
    (p1 q1 p2 q2 : Str) (hp1 : ∀ c ∈ p1, isWs c = true) (hq1 : ∀ c ∈ q1, isWs c = true)
    (hp2 : ∀ c ∈ p2, isWs c = true) (hq2 : ∀ c ∈ q2, isWs c = true) :
    parseXyzLines strict (textLines (p1 ++ joinLines ((a0 :: a1 :: as).map withCom) ++ q1))
      = parseXyzLines strict (textLines (p2 ++ joinLines ((b0 :: b1 :: bs).map withCom) ++ q2)) := by
  rw [textLines_layout _ h1 p1 q1 hp1 hq1, textLines_layout _ h2 p2 q2 hp2 hq2]
  simp only [List.map_cons, e0, e1]
  apply blank_lines_insensitive_xyz
  rw [filter_blank_classify, h, ← filter_blank_classify]

/-- **psi4_text_layout**: ANY laid-out text whose non-blank stripped line parts are the lines `writePsi4 r` prints
reads back as `projectPsi4 r`. -/
theorem psi4_text_layout (r : MolRec) (h : RecOk r) (ps : List (Str × Option Str)) (hl : LayoutOk ps)
    (hlines : (ps.map fun x => strip x.1).filter (fun s => !s.isEmpty) = writePsi4 r)
    (p q : Str) (hp : ∀ c ∈ p, isWs c = true) (hq : ∀ c ∈ q, isWs c = true) :
    parseText .psi4 (p ++ joinLines (ps.map withCom) ++ q) = .ok (projectPsi4 r) := by
  show parsePsi4Lines ((textLines _).map classify) = _
  rw [textLines_layout ps hl p q hp hq,
    blank_lines_insensitive_psi4 _ ((writePsi4 r).map classify) (by rw [filter_blank_classify, hlines])]
  exact read_write_psi4 r h

/-- **xyzplus_text_layout** / **xyz_text_layout**: ANY laid-out text whose two header line parts strip to the
written header lines and whose non-blank stripped body line parts are the written atom lines reads back as
`projectXyzPlus r` (xyz+) resp. `projectXyz r` (strict xyz, ghost-free Angstrom record). -/
theorem xyz_text_layout_lines (strict : Bool) (natS : Str) (r : MolRec) (p0 p1 : Str × Option Str)
    (body : List (Str × Option Str)) (hl : LayoutOk (p0 :: p1 :: body))
    (e0 : strip p0.1 = line0 natS r) (e1 : strip p1.1 = strip (titleLine r))
    (hbody : (body.map fun x => strip x.1).filter (fun s => !s.isEmpty) = (allAtoms r).map fun a => atomLine (nucXyz a) a)
    (p q : Str) (hp : ∀ c ∈ p, isWs c = true) (hq : ∀ c ∈ q, isWs c = true) :
    parseXyzLines strict (textLines (p ++ joinLines ((p0 :: p1 :: body).map withCom) ++ q))
      = parseXyzLines strict (line0 natS r :: strip (titleLine r) :: (allAtoms r).map fun a => atomLine (nucXyz a) a) := by
  rw [textLines_layout _ hl p q hp hq]
  simp only [List.map_cons, e0, e1]
  apply blank_lines_insensitive_xyz
  rw [filter_blank_classify, hbody]

theorem xyzplus_text_layout (natS : Str) (r : MolRec) (h : XyzOk natS r) (p0 p1 : Str × Option Str)
    (body : List (Str × Option Str)) (hl : LayoutOk (p0 :: p1 :: body))
    (e0 : strip p0.1 = line0 natS r) (e1 : strip p1.1 = strip (titleLine r))
    (hbody : (body.map fun x => strip x.1).filter (fun s => !s.isEmpty) = (allAtoms r).map fun a => atomLine (nucXyz a) a)
    (p q : Str) (hp : ∀ c ∈ p, isWs c = true) (hq : ∀ c ∈ q, isWs c = true) :
    parseText .xyzPlus (p ++ joinLines ((p0 :: p1 :: body).map withCom) ++ q) = .ok (projectXyzPlus r) := by
  show parseXyzLines false (textLines _) = _
  rw [xyz_text_layout_lines false natS r p0 p1 body hl e0 e1 hbody p q hp hq]
  exact read_lines_xyzplus_stripped natS r h

theorem xyz_text_layout (natS : Str) (r : MolRec) (h : XyzOk natS r) (hb : r.bohr = false)
    (hreal : ∀ a ∈ allAtoms r, a.real = true) (p0 p1 : Str × Option Str)
    (body : List (Str × Option Str)) (hl : LayoutOk (p0 :: p1 :: body))
    (e0 : strip p0.1 = line0 natS r) (e1 : strip p1.1 = strip (titleLine r))
    (hbody : (body.map fun x => strip x.1).filter (fun s => !s.isEmpty) = (allAtoms r).map fun a => atomLine (nucXyz a) a)
    (p q : Str) (hp : ∀ c ∈ p, isWs c = true) (hq : ∀ c ∈ q, isWs c = true) :
    parseText .xyz (p ++ joinLines ((p0 :: p1 :: body).map withCom) ++ q) = .ok (projectXyz r) := by
  show parseXyzLines true (textLines _) = _
  rw [xyz_text_layout_lines true natS r p0 p1 body hl e0 e1 hbody p q hp hq]
  exact read_lines_xyz_stripped natS r h hb hreal

/-! ### the layout hypotheses are met by the writers' own lines with arbitrary comments attached -/

/-- lines that are clean and tight (what the writers print), each with an arbitrary optional newline-free comment,
form a laid-out text whose non-blank stripped line parts are the lines themselves -/
theorem layout_of_written (ls : List Str) (hls : ∀ l ∈ ls, Clean l ∧ Tight l) (hne : ls ≠ [])
    (coms : List (Option Str)) (hlen : coms.length = ls.length)
    (hc : ∀ c, some c ∈ coms → ∀ x ∈ c, (x == '\n') = false) :
    LayoutOk (ls.zip coms) ∧ ((ls.zip coms).map fun x => strip x.1).filter (fun s => !s.isEmpty) = ls := by
  have hmem : ∀ p ∈ ls.zip coms, p.1 ∈ ls ∧ p.2 ∈ coms := fun p hp => List.of_mem_zip (a := p.1) (b := p.2) hp
  have hnb : ∀ p ∈ ls.zip coms, NonBlank p.1 := fun p hp => nonblank_of_tight (hls p.1 (hmem p hp).1).2
  refine ⟨⟨?_, ?_, fun p hp => hnb p (head?_mem hp), fun p hp => hnb p (getLast?_mem hp)⟩, ?_⟩
  · cases ls with
    | nil => exact absurd rfl hne
    | cons l ls =>
      cases coms with
      | nil => simp at hlen
      | cons c cs => simp
  · intro p hp
    obtain ⟨h1, h2⟩ := hmem p hp
    refine ⟨(hls p.1 h1).1, ?_⟩
    intro c hcc
    exact ⟨lastOr_of_lastOk (hls p.1 h1).2.2, hc c (hcc ▸ h2)⟩
  · have e1 : ((ls.zip coms).map fun x => strip x.1) = ls := by
      calc ((ls.zip coms).map fun x => strip x.1) = (ls.zip coms).map (fun x => x.1) :=
            List.map_congr_left (fun p hp => strip_tight (hls p.1 (hmem p hp).1).2)
        _ = ls := List.map_fst_zip (by omega)
    rw [e1, List.filter_eq_self]
    intro l hl
    obtain ⟨c, hcm, _⟩ := nonblank_of_tight (hls l hl).2
    cases l with
    | nil => cases hcm
    | cons _ _ => rfl

/-- **read_write_psi4_text_comments**: the written psi4 text with an arbitrary `#comment` after any of its lines and
arbitrary whitespace (incl. empty lines) before and after still reads back as `projectPsi4 r`. -/
theorem read_write_psi4_text_comments (r : MolRec) (h : RecOk r) (coms : List (Option Str))
    (hlen : coms.length = (writePsi4 r).length) (hc : ∀ c, some c ∈ coms → ∀ x ∈ c, (x == '\n') = false)
    (p q : Str) (hp : ∀ c ∈ p, isWs c = true) (hq : ∀ c ∈ q, isWs c = true) :
    parseText .psi4 (p ++ joinLines (((writePsi4 r).zip coms).map withCom) ++ q) = .ok (projectPsi4 r) := by
  have hne : writePsi4 r ≠ [] := by
    intro h0; simp only [writePsi4, List.cons_append] at h0; cases h0
  obtain ⟨h1, h2⟩ := layout_of_written (writePsi4 r) (written_psi4_clean r h) hne coms hlen hc
  exact psi4_text_layout r h _ h1 h2 p q hp hq

theorem head?_append_ne {α} (a b : List α) (ha : a ≠ []) : (a ++ b).head? = a.head? := by
  cases a with
  | nil => exact absurd rfl ha
  | cons x t => rfl

theorem getLast?_append_ne {α} (a b : List α) (hb : b ≠ []) : (a ++ b).getLast? = b.getLast? := by
  rcases List.eq_nil_or_concat b with rfl | ⟨ys, x, rfl⟩
  · exact absurd rfl hb
  · rw [List.concat_eq_append, ← List.append_assoc, List.getLast?_concat, List.getLast?_concat]

/-- a blank or comment-only line may be inserted between any two lines of a laid-out text -/
theorem layout_insert (pre post : List (Str × Option Str)) (b : Str × Option Str) (hb : ComOk b)
    (hbl : ∀ c ∈ b.1, isWs c = true) (hpre : pre ≠ []) (hpost : post ≠ []) (h : LayoutOk (pre ++ post)) :
    LayoutOk (pre ++ b :: post) ∧
    ((pre ++ b :: post).map fun x => strip x.1).filter (fun s => !s.isEmpty)
      = ((pre ++ post).map fun x => strip x.1).filter (fun s => !s.isEmpty) := by
  obtain ⟨_, hc, hf, hl⟩ := h
  refine ⟨⟨by simp, ?_, ?_, ?_⟩, ?_⟩
  · intro p hp
    simp only [List.mem_append, List.mem_cons] at hp
    rcases hp with hp | rfl | hp
    · exact hc p (by simp [hp])
    · exact hb
    · exact hc p (by simp [hp])
  · intro p hp
    rw [head?_append_ne _ _ hpre] at hp
    exact hf p (by rw [head?_append_ne _ _ hpre]; exact hp)
  · intro p hp
    have e1 : (pre ++ b :: post).getLast? = post.getLast? := by
      have : pre ++ b :: post = (pre ++ [b]) ++ post := by simp
      rw [this, getLast?_append_ne _ _ hpost]
    have e2 : (pre ++ post).getLast? = post.getLast? := getLast?_append_ne _ _ hpost
    exact hl p (by rw [e2, ← e1]; exact hp)
  · have : strip b.1 = [] := by simp [strip, stripL, stripR, dw_all b.1 hbl]
    simp [List.filter_append, this]

/-- **psi4_insert_blank_line**: inserting a blank or comment-only line between two lines of a laid-out psi4 text
does not change what is read -/
theorem psi4_insert_blank_line (pre post : List (Str × Option Str)) (b : Str × Option Str) (hb : ComOk b)
    (hbl : ∀ c ∈ b.1, isWs c = true) (hpre : pre ≠ []) (hpost : post ≠ []) (h : LayoutOk (pre ++ post)) :
    parseText .psi4 (joinLines ((pre ++ b :: post).map withCom)) = parseText .psi4 (joinLines ((pre ++ post).map withCom)) := by
  obtain ⟨h1, h2⟩ := layout_insert pre post b hb hbl hpre hpost h
  have := psi4_layout_insensitive _ _ h1 h h2 [] [] [] [] (by simp) (by simp) (by simp) (by simp)
  simpa using this

/-! ## non-vacuity (the record of Props/C07.lean: two fragments, a labelled ghost atom, title "x y") and tests -/

example : Clean exRec.name := by decide

/-- a ghost-free Angstrom record for the strict dialect -/
def exRecStrict : MolRec :=
  { exRec with frags := [⟨⟨false, "0".toList⟩, "1".toList, [exAtom2, exAtom2]⟩], bohr := false, name := [] }

example : XyzOk "2".toList exRecStrict ∧ Clean exRecStrict.name ∧ exRecStrict.bohr = false ∧
    ∀ a ∈ allAtoms exRecStrict, a.real = true := by
  refine ⟨⟨⟨by decide, by decide⟩, ⟨by decide, by decide⟩, ⟨by decide, by decide⟩, ?_⟩, by decide, rfl, ?_⟩
  · intro a ha
    simp only [allAtoms, exRecStrict, List.flatMap_cons, List.flatMap_nil, List.append_nil,
      List.mem_cons, List.not_mem_nil, or_false] at ha
    rcases ha with rfl | rfl <;> exact exAtom2_ok
  · intro a ha
    simp only [allAtoms, exRecStrict, List.flatMap_cons, List.flatMap_nil, List.append_nil,
      List.mem_cons, List.not_mem_nil, or_false] at ha
    rcases ha with rfl | rfl <;> rfl

-- a comment list for the ten written psi4 lines of `exRec` (hypotheses of `read_write_psi4_text_comments`)
example : ([some " total".toList, none, none, none, none, some "#\\".toList, none, none, some [], none] :
    List (Option Str)).length = (writePsi4 exRec).length := by decide

-- tests (concrete texts): the pieces used above, evaluated
example : textLines "\n  0 1 # c\n\nHe 0 0 0 # x\n \n".toList = ["0 1".toList, [], "He 0 0 0".toList] := by decide
example : joinLines ["a".toList, [], "b".toList] = "a\n\nb".toList := by decide
example : withCom ("He 0 0 0 ".toList, some " c".toList) = "He 0 0 0 # c".toList := by decide

end QcelVerif.MolText
