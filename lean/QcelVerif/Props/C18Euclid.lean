import QcelVerif.Props.C18Real
import Mathlib.Analysis.InnerProductSpace.PiL2
import Mathlib.Geometry.Euclidean.Angle.Unoriented.Affine
/-!
# C18 — the measured distance and angle are Mathlib's Euclidean distance and angle

"Agree with their textbook definitions", taken literally: the model's points are embedded in
Mathlib's `EuclideanSpace ℝ (Fin 3)` and the real-valued measurements of `Props/C18Real.lean`
(defined as the code computes them) are shown to equal `dist` and `EuclideanGeometry.angle` (`∠`).
Mathlib has no three-dimensional dihedral angle; for the dihedral the textbook statement is
`dihedralR_textbook` / `dihedralR_cos_sin` / `dihedralR_unique` in `Props/C18Real.lean`.

PROPERTY-THEOREMS:
  distR_eq_euclidean_dist  angleR_eq_euclidean_angle
-/
namespace QcelVerif.Measure
open V3

/-- the point of `EuclideanSpace ℝ (Fin 3)` with the same coordinates -/
noncomputable def toE (v : V3 ℝ) : EuclideanSpace ℝ (Fin 3) := !₂[v.x, v.y, v.z]

theorem toE_sub (a b : V3 ℝ) : toE (a - b) = toE a - toE b := by
  ext i
  fin_cases i <;> simp [toE]

theorem inner_toE (a b : V3 ℝ) : inner ℝ (toE a) (toE b) = dot a b := by
  simp only [toE, PiLp.inner_apply, Fin.sum_univ_three]
  simp [V3.dot]
  ring

theorem norm_toE (a : V3 ℝ) : ‖toE a‖ = normR a := by
  rw [norm_eq_sqrt_real_inner, inner_toE]
  rfl

/-- the embedding is injective: distinct model points are distinct Euclidean points -/
theorem toE_injective : Function.Injective toE := by
  intro a b h
  have h0 := congrFun (congrArg WithLp.ofLp h) 0
  have h1 := congrFun (congrArg WithLp.ofLp h) 1
  have h2 := congrFun (congrArg WithLp.ofLp h) 2
  simp [toE] at h0 h1 h2
  exact V3.ext h0 h1 h2

/-- the measured distance is the Euclidean distance of the two points -/
theorem distR_eq_euclidean_dist (p q : V3 ℝ) : distR p q = dist (toE p) (toE q) := by
  rw [dist_eq_norm, ← toE_sub, norm_toE]
  rfl

/-- for distinct points the measured angle is Mathlib's unoriented angle `∠ p1 p2 p3` at the
vertex `p2` -/
theorem angleR_eq_euclidean_angle (p1 p2 p3 : V3 ℝ) (h12 : p1 ≠ p2) (h32 : p3 ≠ p2) :
    angleR p1 p2 p3 = EuclideanGeometry.angle (toE p1) (toE p2) (toE p3) := by
  rw [(angleR_textbook p1 p2 p3 h12 h32).1]
  unfold EuclideanGeometry.angle InnerProductGeometry.angle
  rw [vsub_eq_sub, vsub_eq_sub, ← toE_sub, ← toE_sub, inner_toE, norm_toE, norm_toE]

/-- TEST (non-vacuity of the hypotheses is shown in `Props/C18Real.lean`): the right angle -/
example : EuclideanGeometry.angle (toE ⟨1, 0, 0⟩) (toE ⟨0, 0, 0⟩) (toE ⟨0, 1, 0⟩) = Real.pi / 2 := by
  rw [← angleR_eq_euclidean_angle _ _ _ (fun e => by simpa using congrArg V3.x e)
    (fun e => by simpa using congrArg V3.y e)]
  rw [(angleR_textbook _ _ _ (fun e => by simpa using congrArg V3.x e)
    (fun e => by simpa using congrArg V3.y e)).1]
  have : dot ((⟨1, 0, 0⟩ : V3 ℝ) - ⟨0, 0, 0⟩) (⟨0, 1, 0⟩ - ⟨0, 0, 0⟩) = 0 := by
    v3_unfold; norm_num
  rw [this, zero_div, Real.arccos_zero]

end QcelVerif.Measure
