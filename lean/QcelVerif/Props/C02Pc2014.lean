import QcelVerif.Props.C02Pred
/-! C02: table-wide theorems about `PhysicalConstantsContext("CODATA2014").pc` (kernel evaluation of the
model's context construction on the generated table). -/
namespace QcelVerif.Constants
open QcelVerif
set_option maxRecDepth 100000

def pcChecks2014 (pc : PC) : Bool :=
  allRows (rowEntryOk pc Gen.Codata2014.doi) Gen.Codata2014.shipped && aliasChecks pc

theorem pcChecks2014_holds : withPC pc2014 pcChecks2014 = true := by decide +kernel

/-- **Every published 2014 constant is retrievable** under its lower-cased NIST name (hence, by
`get_case_insensitive`, under any casing) with label = NIST name, the shipped unit, `Decimal(value)`
digit for digit, comment `uncertainty=<u>` and the set's doi — and by `shipped_eq_nist_2014` these
are NIST's. -/
theorem constants_retrievable_2014 :
    withPC pc2014 (fun pc => allRows (rowEntryOk pc Gen.Codata2014.doi) Gen.Codata2014.shipped) = true :=
  withPC_and_left pcChecks2014_holds

/-- **The 27 convenience aliases follow the documented definitions (2014)**: each stored Decimal is
the specification's expression evaluated in precision-28 decimal arithmetic, digit for digit, with
the documented label/units/comment; it is within 2·10⁻²⁷ (relative) of the formula's exact rational
value; for the 24 aliases without a genuine division it IS the exact value; and the cross-relations
of the documentation block (hartree2kcalmol·cal2J = hartree2kJmol, dipmom_au2debye·dipmom_debye2si =
dipmom_au2si, kcalmol2wavenumbers·(N_A h c) = 10·cal2J, bohr2cm = 100·bohr2m, bohr2angstroms =
10¹⁰·bohr2m, amu2g = 1000·amu2kg, hartree2aJ = 10¹⁸·hartree2J, …) hold exactly in ℚ. -/
theorem aliases_follow_spec_2014 : withPC pc2014 aliasChecks = true :=
  withPC_and_right pcChecks2014_holds

end QcelVerif.Constants
