import QcelVerif.Model.PTShipped
/-! C01 table-wide theorem (kernel evaluation over the generated tables); split out so that lake builds them in parallel. -/
namespace QcelVerif.PT
open QcelVerif QcelVerif.PStr
set_option maxRecDepth 100000

/-! ## tests (labelled as tests): names outside the table are refused -/

example : shipped.resolve (.str (ofString "He100")) false = none := by decide +kernel
example : shipped.resolve (.str (ofString "4He")) false = none := by decide +kernel
example : shipped.resolve (.str (ofString "1.0")) false = none := by decide +kernel
example : shipped.resolve (.int (-1)) false = none := by decide +kernel
example : shipped.resolve (.int 200) false = none := by decide +kernel
example : shipped.resolve (.str (ofString "cat")) false = none := by decide +kernel
example : shipped.resolve (.str (ofString "kr84")) true = none := by decide +kernel
example : shipped.toMass (.str (ofString " 1 ")) = some (pack (ofString "1.00782503223")) := by decide +kernel


end QcelVerif.PT
