import QcelVerif.Lemmas.UnoEnum
import QcelVerif.Lemmas.UnoAssemble
import QcelVerif.Props.C14
import QcelVerif.Props.C12
import Mathlib.Tactic.IntervalCases
/-!
# C12 — the DEFAULT atom-ordering search `algorithm='hungarian_uno'` tries the true atom map

Model: `Model/UnoOrderings.lean` (align.py:296-431 with `algorithm='hungarian_uno'`, and the output SET of
`uno`, qcelemental/util/gph_uno_bipartite.py).  All theorems hold for every number of atoms, every class
structure and every rational matrix — no size bound.

What is exact and what is float:
* the theorems are about exact rational arithmetic.  `enum_complete_sound`, `mem_zeroEdges` use nothing else: the
  correspondence check feeds the model the very doubles (as rationals) the solver returned and compares the
  implementation's edge list and matching set exactly.
* `optimal_is_candidate` / `near_optimal_is_candidate` / `true_map_is_candidate` assume the solver's answer is an
  EXACT optimality certificate (`Assign.certOK`, what C14 proves of the Munkres model).  In floats
  `reduced = cost − u − v` holds only up to rounding and a rigid copy's class cost is ~1e-20 instead of 0;
  `uno_cutoff` (1e-3 by default, 0.1 in the mirror pre-test) is what absorbs this.  `near_optimal_is_candidate` is the
  exact statement of that absorption (every assignment within `cut` of the optimum is a candidate); the float part
  itself stays differential (harness: C14's `certGap` per class call, and the applied atom map of every rigid copy is
  looked up among the enumerated candidates).
* there is NO `np.around` on this path (align.py:346-400); the only tolerance is `uno_cutoff`.

PROPERTY-THEOREMS (audited):
  enum_complete_sound  mem_zeroEdges  optimal_is_candidate  near_optimal_is_candidate
  true_class_cost_zero  true_class_is_candidate  true_map_is_candidate  uno_recovery_best_le
-/
namespace QcelVerif.Uno

open QcelVerif.Assign QcelVerif.B787

/-! ### (a) the enumeration is exactly the set of perfect matchings of the zero-edge graph -/

/-- **The model's enumeration returns exactly the perfect matchings of the graph, each listed once.**
    (`sub[j]` is the row matched to column `j`.) -/
theorem enum_complete_sound (k : Nat) (E : Nat → Nat → Bool) :
    (∀ sub, sub ∈ matchings k E ↔ IsPM k E sub) ∧ (matchings k E).Nodup :=
  ⟨mem_matchings k E, nodup_matchings k E⟩

/-- `np.argwhere(reducedcost < uno_cutoff)`: the listed edges are exactly the in-range entries below the cutoff -/
theorem mem_zeroEdges (k : Nat) (red : Mat) (cut : Rat) (i j : Nat) :
    (i, j) ∈ zeroEdges k red cut ↔ i < k ∧ j < k ∧ red i j < cut := by
  simp only [zeroEdges, List.mem_flatMap, List.mem_range, List.mem_map, List.mem_filter, edgeB,
    decide_eq_true_eq, Prod.mk.injEq]
  constructor
  · rintro ⟨a, ha, b, ⟨hb, hr⟩, rfl, rfl⟩
    exact ⟨ha, hb, hr⟩
  · rintro ⟨hi, hj, hr⟩
    exact ⟨i, hi, j, ⟨hj, hr⟩, rfl, rfl⟩

/-- TEST: two equivalent atoms whose reduced matrix is all zero — both matchings are listed -/
example : matchings 2 (edgeB (fun _ _ => 0) (1 / 1000)) = [[0, 1], [1, 0]] := by decide +kernel
/-- TEST: `red = [[0,5,0],[0,0,7],[1,0,0]]`, cutoff 1/1000: the cyclic matching besides the diagonal -/
example : matchings 3 (edgeB (matOf [[0, 5, 0], [0, 0, 7], [1, 0, 0]]) (1 / 1000)) = [[0, 1, 2], [1, 2, 0]] := by
  decide +kernel
/-- TEST: with a literal cutoff of 0 the strict `<` leaves no edge of a non-negative matrix, hence no candidate -/
example : matchings 2 (edgeB (fun _ _ => 0) 0) = [] := by decide +kernel
/-- TEST (non-vacuity of `IsPM`) -/
example : IsPM 3 (edgeB (matOf [[0, 5, 0], [0, 0, 7], [1, 0, 0]]) (1 / 1000)) [1, 2, 0] :=
  (mem_matchings _ _ _).1 (by decide +kernel)

/-! ### (b) every minimum-cost assignment is a candidate -/

/-- `sub` lists each of the rows `0 … k-1` once (a bijection columns → rows, written as a list) -/
def IsPermList (k : Nat) (sub : List Nat) : Prop := sub.length = k ∧ sub.Nodup ∧ ∀ x ∈ sub, x < k

/-- the (row, column) pairs of the assignment "column `j` gets row `sub[j]`" — up to the order of the pairs every
    complete assignment of a square matrix has this form -/
def pairsOf (sub : List Nat) : Pairs := sub.zipIdx

theorem mem_pairsOf {sub : List Nat} {p : Nat × Nat} : p ∈ pairsOf sub ↔ sub[p.2]? = some p.1 :=
  List.mem_zipIdx_iff_getElem?

theorem isAssign_pairsOf {k : Nat} {sub : List Nat} (h : IsPermList k sub) : IsAssign k k (pairsOf sub) := by
  obtain ⟨hl, hnd, hlt⟩ := h
  refine ⟨by simp [pairsOf, hl], ?_, ?_, ?_⟩
  · intro p hp
    have := mem_pairsOf.1 hp
    obtain ⟨h2, h3⟩ := List.getElem?_eq_some_iff.1 this
    exact ⟨hlt _ (h3 ▸ List.getElem_mem h2), hl ▸ h2⟩
  · simpa [pairsOf, List.zipIdx_map_fst] using hnd
  · simp only [pairsOf, List.zipIdx_map_snd]
    exact List.nodup_range'

theorem isPM_of_edges {k : Nat} {E : Nat → Nat → Bool} {sub : List Nat} (h : IsPermList k sub)
    (he : ∀ p ∈ pairsOf sub, E p.1 p.2 = true) : IsPM k E sub := by
  refine ⟨h.1, h.2.1, h.2.2, fun j hj => ?_⟩
  exact he (sub[j], j) (mem_pairsOf.2 (by simp [hj]))

/-- **Every minimum-cost assignment of the class cost matrix is among the enumerated candidates** for any positive
    cutoff, when the solver's `(σ, red)` is an exact certificate — via C14's `optimal_on_zeros`.
    (With a literal cutoff of 0 the strict `<` of align.py:386 leaves no edge at all — see the TEST above.) -/
theorem optimal_is_candidate {k : Nat} {c red : Mat} {σ : Pairs} {cut : Rat} {sub : List Nat}
    (hcert : certOK k k c red σ = true) (hcut : 0 < cut) (hsub : IsPermList k sub)
    (hopt : total c (pairsOf sub) ≤ total c σ) : sub ∈ matchings k (edgeB red cut) := by
  refine (mem_matchings _ _ _).2 (isPM_of_edges hsub fun p hp => ?_)
  have hz := optimal_on_zeros hcert (isAssign_pairsOf hsub) hopt p hp
  simp [edgeB, hz, hcut]

theorem le_total_of_nonneg (r : Nat → Nat → Rat) (l : Pairs) (h0 : ∀ q ∈ l, 0 ≤ r q.1 q.2) :
    ∀ p ∈ l, r p.1 p.2 ≤ total r l := by
  induction l with
  | nil => simp
  | cons q l ih =>
    intro p hp
    have hq := h0 q (List.mem_cons_self ..)
    have hl := total_nonneg r l (fun x hx => h0 x (List.mem_cons_of_mem _ hx))
    rw [total_cons]
    rcases List.mem_cons.1 hp with rfl | hp
    · linarith
    · have := ih (fun x hx => h0 x (List.mem_cons_of_mem _ hx)) p hp
      linarith

/-- for a square matrix the reduced cost summed along any complete assignment is its cost minus the optimum -/
theorem total_red_eq {k : Nat} {c red : Mat} {σ τ : Pairs} (hcert : certOK k k c red σ = true)
    (hτ : IsAssign k k τ) : total red τ = total c τ - total c σ := by
  obtain ⟨hσ, _, _, hz, u, v, huv⟩ := certOK_shape hcert
  have key : ∀ ρ : Pairs, IsAssign k k ρ →
      total c ρ = ((List.range k).map u).sum + ((List.range k).map v).sum + total red ρ := by
    intro ρ hρ
    have e := total_split c u v ρ
    have r1 := rows_sum_eq (le_refl k) u hρ
    have r2 := rows_sum_eq (le_refl k) v hρ.swap
    rw [map_fst_swap] at r2
    have e3 : total (fun i j => c i j - u i - v j) ρ = total red ρ :=
      total_congr (fun p hp => (huv p.1 (hρ.inb p hp).1 p.2 (hρ.inb p hp).2).symm)
    rw [e, r1, r2, e3]
  have h1 := key σ hσ
  have h2 := key τ hτ
  have h0 : total red σ = 0 := by
    have : total red σ = total (fun _ _ => 0) σ := total_congr (fun p hp => hz p hp)
    rw [this]; simp [total]
  linarith

/-- **Quantitative form (what `uno_cutoff` is for):** every complete assignment whose cost is within `cut` of the
    optimum is among the candidates. -/
theorem near_optimal_is_candidate {k : Nat} {c red : Mat} {σ : Pairs} {cut : Rat} {sub : List Nat}
    (hcert : certOK k k c red σ = true) (hsub : IsPermList k sub)
    (hnear : total c (pairsOf sub) < total c σ + cut) : sub ∈ matchings k (edgeB red cut) := by
  refine (mem_matchings _ _ _).2 (isPM_of_edges hsub fun p hp => ?_)
  have hτ := isAssign_pairsOf hsub
  obtain ⟨_, _, hnn, _, _⟩ := certOK_shape hcert
  have hle := le_total_of_nonneg red (pairsOf sub)
    (fun q hq => hnn q.1 (hτ.inb q hq).1 q.2 (hτ.inb q hq).2) p hp
  have := total_red_eq hcert hτ
  simp only [edgeB, decide_eq_true_eq]
  linarith

/-- TEST (non-vacuity): C14's rectangular example restricted to a square — cost `[[4,1],[2,3]]`, answer
    rows→cols (0→1, 1→0), reduced `[[2,0],[0,2]]` is a certificate, and the assignment `sub = [1,0]` is optimal -/
example : certOK 2 2 (matOf [[4, 1], [2, 3]]) (matOf [[2, 0], [0, 2]]) [(0, 1), (1, 0)] = true
    ∧ IsPermList 2 [1, 0]
    ∧ total (matOf [[4, 1], [2, 3]]) (pairsOf [1, 0]) ≤ total (matOf [[4, 1], [2, 3]]) [(0, 1), (1, 0)] := by
  refine ⟨by decide +kernel, ⟨rfl, by decide, by decide⟩, by decide +kernel⟩

/-! ### (c) a rigid copy's true atom map has cost 0 in every class matrix and is tried -/

theorem getD_idxOf {l : List Nat} {a : Nat} (h : a ∈ l) : l.getD (l.idxOf a) 0 = a := by
  have hlt : l.idxOf a < l.length := List.idxOf_lt_length_iff.2 h
  rw [List.getD_eq_getElem?_getD, List.getElem?_eq_getElem hlt, Option.getD_some, List.getElem_idxOf hlt]

/-- the class invariant is preserved: the sum of reciprocal distances from the image atom `π a` to the concern atoms
    of the class equals that from `a` to the reference atoms of the class, because the true map carries the class onto
    the class (`hperm`) and preserves all distances (`hiso`) -/
theorem classSum_true_map (nR nC : Mat) (rgp cgp : List Nat) (π : Nat → Nat)
    (hperm : cgp.Perm (rgp.map π)) (a : Nat) (hiso : ∀ y ∈ rgp, nC (π y) (π a) = nR y a) :
    classSum nC cgp (π a) = classSum nR rgp a := by
  unfold classSum
  have h1 : (cgp.map fun x => nC x (π a)).sum = ((rgp.map π).map fun x => nC x (π a)).sum :=
    (hperm.map _).sum_eq
  rw [h1, List.map_map]
  congr 2
  exact List.map_congr_left (fun y hy => hiso y hy)

/-- **Which cost the code uses, and why a rigid copy gives zero.**  The class cost (align.py:359-367) is
    `(sumCC[i] − sumRR[j])²`, `sum..[x]` = 100 × the sum of reciprocal distances from atom `x` to the atoms of ITS OWN
    CLASS in its own geometry.  If the true atom map `π` carries the reference atoms of the class onto the concern atoms
    of the class and preserves the reciprocal-distance matrix on the class (a rigid motion and a relabelling preserve
    every interatomic distance), then the within-class form `sub` of `π` is a bijection, reads back as `π` on the class,
    and every one of its entries costs exactly 0. -/
theorem true_class_cost_zero (nR nC : Mat) (rgp cgp : List Nat) (π : Nat → Nat)
    (hcn : cgp.Nodup) (hperm : cgp.Perm (rgp.map π))
    (hiso : ∀ a ∈ rgp, ∀ b ∈ rgp, nC (π a) (π b) = nR a b) :
    let sub := rgp.map (fun a => cgp.idxOf (π a))
    IsPermList rgp.length sub ∧ sub.map (fun i => cgp.getD i 0) = rgp.map π
      ∧ ∀ p ∈ pairsOf sub, classCost nR nC rgp cgp p.1 p.2 = 0 := by
  intro sub
  have hmemc : ∀ a ∈ rgp, π a ∈ cgp := fun a ha => hperm.mem_iff.2 (List.mem_map_of_mem ha)
  have hndm : (rgp.map π).Nodup := (hperm.nodup_iff).1 hcn
  have hinj := List.inj_on_of_nodup_map hndm
  have hlen : cgp.length = rgp.length := by simpa using hperm.length_eq
  refine ⟨⟨by simp [sub], ?_, ?_⟩, ?_, ?_⟩
  · refine List.Nodup.map_on ?_ (List.Nodup.of_map π hndm)
    intro x hx y hy hxy
    exact hinj hx hy ((List.idxOf_inj (hmemc x hx)).1 hxy)
  · intro x hx
    obtain ⟨a, ha, rfl⟩ := List.mem_map.1 hx
    rw [← hlen]
    exact List.idxOf_lt_length_iff.2 (hmemc a ha)
  · simp only [sub, List.map_map]
    exact List.map_congr_left (fun a ha => by simpa [Function.comp] using getD_idxOf (hmemc a ha))
  · intro p hp
    have h1 := mem_pairsOf.1 hp
    obtain ⟨h2, h3⟩ := List.getElem?_eq_some_iff.1 h1
    have hj : p.2 < rgp.length := by simpa [sub] using h2
    have hp1 : p.1 = cgp.idxOf (π rgp[p.2]) := by rw [← h3]; simp [sub]
    have ha : rgp[p.2] ∈ rgp := List.getElem_mem hj
    have hg1 : cgp.getD p.1 0 = π rgp[p.2] := by rw [hp1]; exact getD_idxOf (hmemc _ ha)
    have hg2 : rgp.getD p.2 0 = rgp[p.2] := by
      rw [List.getD_eq_getElem?_getD, List.getElem?_eq_getElem hj, Option.getD_some]
    have hs := classSum_true_map nR nC rgp cgp π hperm rgp[p.2] (fun y hy => hiso y hy _ ha)
    simp only [classCost, hg1, hg2, hs, sub_self, mul_zero]

/-! ### why `hiso` holds for a rigid copy: a rigid motion preserves every interatomic (squared) distance -/

section Rigid
open QcelVerif.Kabsch
variable {K : Type} [CommRing K]

/-- **A rigid copy has the same interatomic distances**: if `c_a = r_a·A + s` and `c_b = r_b·A + s` with `A·Aᵀ = I`
    (how `scramble`/the generators move a geometry, rows as atoms), then `|c_a − c_b|² = |r_a − r_b|²` — over every
    commutative ring.  Hence the two distance matrices, their entrywise reciprocals (align.py:408-414) and the class
    sums built from them agree entry by entry along the true atom map, which is hypothesis `hiso` of
    `true_map_is_candidate`.  (The square root itself is outside the rational model: the reciprocal-distance matrices
    are inputs there.) -/
theorem rigid_copy_preserves_dist2 (A : M3 K) (h : A.mul A.transpose = M3.one) (s ra rb : V3 K) :
    (((rowMul ra A).add s).sub ((rowMul rb A).add s)).nrm2 = (ra.sub rb).nrm2 := by
  simp only [M3.ext_iff, M3.mul, M3.transpose, M3.one] at h
  obtain ⟨h1, h2, h3, h4, h5, h6, h7, h8, h9⟩ := h
  simp only [rowMul, V3.add, V3.sub, V3.nrm2]
  linear_combination (ra.x - rb.x) * (ra.x - rb.x) * h1 + (ra.x - rb.x) * (ra.y - rb.y) * h2
    + (ra.x - rb.x) * (ra.z - rb.z) * h3 + (ra.y - rb.y) * (ra.x - rb.x) * h4 + (ra.y - rb.y) * (ra.y - rb.y) * h5
    + (ra.y - rb.y) * (ra.z - rb.z) * h6 + (ra.z - rb.z) * (ra.x - rb.x) * h7 + (ra.z - rb.z) * (ra.y - rb.y) * h8
    + (ra.z - rb.z) * (ra.z - rb.z) * h9

/-- TEST (non-vacuity): the 90° rotation about z is orthogonal -/
example : (⟨0, -1, 0, 1, 0, 0, 0, 0, 1⟩ : M3 ℚ).mul (⟨0, -1, 0, 1, 0, 0, 0, 0, 1⟩ : M3 ℚ).transpose = M3.one := by
  simp [M3.mul, M3.transpose, M3.one]

end Rigid

theorem total_eq_zero (r : Nat → Nat → Rat) (l : Pairs) (h : ∀ p ∈ l, r p.1 p.2 = 0) : total r l = 0 := by
  have : total r l = total (fun _ _ => 0) l := total_congr h
  rw [this]; simp [total]

theorem classCost_nonneg (nR nC : Mat) (rgp cgp : List Nat) (i j : Nat) : 0 ≤ classCost nR nC rgp cgp i j := by
  simp only [classCost]
  exact mul_self_nonneg _

/-- per class: the true map restricted to the class is one of the orderings `filter_hungarian_uno` yields -/
theorem true_class_is_candidate (nR nC : Mat) (rgp cgp : List Nat) (π : Nat → Nat) (red : Mat) (σ : Pairs) (cut : Rat)
    (hcn : cgp.Nodup) (hperm : cgp.Perm (rgp.map π))
    (hiso : ∀ a ∈ rgp, ∀ b ∈ rgp, nC (π a) (π b) = nR a b)
    (hcert : certOK cgp.length cgp.length (classCost nR nC rgp cgp) red σ = true) (hcut : 0 < cut) :
    rgp.map π ∈ filterUno cut red cgp := by
  obtain ⟨hpl, hback, hzero⟩ := true_class_cost_zero nR nC rgp cgp π hcn hperm hiso
  have hlen : cgp.length = rgp.length := by simpa using hperm.length_eq
  rw [← hlen] at hpl
  have hσ := (certOK_shape hcert).1
  have h0 : 0 ≤ total (classCost nR nC rgp cgp) σ :=
    total_nonneg _ _ (fun p _ => classCost_nonneg nR nC rgp cgp p.1 p.2)
  have hmem := optimal_is_candidate hcert hcut hpl (by rw [total_eq_zero _ _ hzero]; exact h0)
  unfold filterUno
  exact List.mem_map.2 ⟨_, hmem, hback⟩

/-- **The true atom map is among the candidates B787's default search tries.**  `ref`/`cur` are the class labels of
    the reference and the concern geometry, `nR`/`nC` their reciprocal-distance matrices, `π` the true map (reference
    atom `a` ↔ concern atom `π a`): a bijection of `0 … n-1` (`hperm`) that respects the labels (`hcls`) and all
    interatomic distances (`hiso` — an exact rigid copy + permutation).  If for every class the solver's answer on the
    class cost matrix is an exact certificate (`hcert`; C14) and the cutoff is positive, `candidatesUno` returns a list
    that contains `[π 0, …, π (n-1)]`. -/
theorem true_map_is_candidate (cut : Rat) (ref cur : List Nat) (nR nC : Mat) (reds : List Mat)
    (π : Nat → Nat) (hcut : 0 < cut)
    (hlen : cur.length = ref.length)
    (hperm : ((List.range ref.length).map π).Perm (List.range ref.length))
    (hcls : ∀ a, a < ref.length → cur[π a]? = ref[a]?)
    (hiso : ∀ a b, a < ref.length → b < ref.length → nC (π a) (π b) = nR a b)
    (hreds : reds.length = (firstSeen ref).length)
    (hcert : ∀ t (h : t < (firstSeen ref).length) (h' : t < reds.length),
      ∃ σ, certOK (positions (firstSeen ref)[t] cur).length (positions (firstSeen ref)[t] cur).length
        (classCost nR nC (positions (firstSeen ref)[t] ref) (positions (firstSeen ref)[t] cur)) reds[t] σ = true) :
    ∃ L, candidatesUno cut ref cur reds = .ok L ∧ (List.range ref.length).map π ∈ L := by
  refine candidates_of_classes cut ref cur reds π hlen hperm hcls hreds (fun t h h' => ?_)
  obtain ⟨σ, hσ⟩ := hcert t h h'
  refine true_class_is_candidate nR nC _ _ π reds[t] σ cut (nodup_positions _ _)
    (positions_perm_map π ref cur hlen hperm hcls _) (fun a ha b hb => ?_) hσ hcut
  exact hiso a b ((mem_positions _ _ _).1 ha).1 ((mem_positions _ _ _).1 hb).1

/-- **Recovery for the default algorithm** (with `B787.best_is_min` of `Props/C12.lean`): let the trial list handed to
    the loop model be indexed like the candidate orderings; if the search runs to completion, the returned (rounded)
    RMSD is ≤ the trial RMSD of the true atom map — which `Kabsch.recovery_rigid` bounds by the certificate slack. -/
theorem uno_recovery_best_le (cfg : Cfg) (hc : cfg.runToCompletion = true) (L : List (List Nat)) (ts : List Trial)
    (st : State) (hlen : ts.length = L.length) (h : run cfg ts = .ok st) (truth : List Nat) (hmem : truth ∈ L) :
    ∃ (i : Nat) (t : Trial), L[i]? = some truth ∧ ts[i]? = some t ∧ st.best ≤ t.plain := by
  obtain ⟨i, hi, hL⟩ := List.getElem_of_mem hmem
  have hi' : i < ts.length := hlen ▸ hi
  refine ⟨i, ts[i], ?_, ?_, ?_⟩
  · rw [List.getElem?_eq_getElem hi, hL]
  · rw [List.getElem?_eq_getElem hi']
  · exact (best_is_min cfg hc ts st h ts[i] (List.getElem_mem hi')).1

/-- TEST (non-vacuity of `true_map_is_candidate`, two equivalent atoms + one other, swapped copy): the model run on a
    concrete instance returns both orderings, the true map `[1,0,2]` among them -/
example : candidatesUno (1 / 1000) [0, 0, 1] [0, 0, 1] [fun _ _ => 0, fun _ _ => 0]
    = .ok [[0, 1, 2], [1, 0, 2]] := by decide +kernel

/-! #### non-vacuity of the hypotheses of (c) -/

/-- isosceles triangle: atoms 0 and 1 equivalent (class 0), atom 2 on the axis (class 1) -/
def exNre : Mat := matOf [[0, 1 / 2, 1 / 3], [1 / 2, 0, 1 / 3], [1 / 3, 1 / 3, 0]]
def exSwap : Nat → Nat := fun a => if a = 0 then 1 else if a = 1 then 0 else a

/-- TEST (non-vacuity of every hypothesis of `true_map_is_candidate`): the swap of the two equivalent atoms of an
    isosceles triangle is a label- and distance-preserving bijection, both class certificates are exact, and the
    theorem then yields the swapped ordering among the candidates -/
example : ∃ L, candidatesUno (1 / 1000) [0, 0, 1] [0, 0, 1] [fun _ _ => 0, fun _ _ => 0] = .ok L
    ∧ [1, 0, 2] ∈ L := by
  have h := true_map_is_candidate (1 / 1000) [0, 0, 1] [0, 0, 1] exNre exNre [fun _ _ => 0, fun _ _ => 0] exSwap
    (by norm_num) rfl (by decide)
    (by intro a ha; have ha' : a < 3 := ha; interval_cases a <;> decide)
    (by intro a b ha hb; have ha' : a < 3 := ha; have hb' : b < 3 := hb; interval_cases a <;> interval_cases b <;> decide +kernel)
    (by decide)
    (by
      intro t h h'
      have ht : t < 2 := by simpa using h'
      interval_cases t
      · exact ⟨[(0, 0), (1, 1)], by decide +kernel +revert⟩
      · exact ⟨[(0, 0)], by decide +kernel +revert⟩)
  have e : List.map exSwap (List.range 3) = [1, 0, 2] := by decide
  simpa [e] using h

/-- TEST (non-vacuity of `true_class_cost_zero` / `true_class_is_candidate`) -/
example : [0, 1].map exSwap ∈ filterUno (1 / 1000) (fun _ _ => 0) [0, 1] :=
  true_class_is_candidate exNre exNre [0, 1] [0, 1] exSwap (fun _ _ => 0) [(0, 0), (1, 1)] (1 / 1000)
    (by decide) (List.Perm.swap 1 0 []) (by decide +kernel) (by decide +kernel) (by norm_num)

end QcelVerif.Uno
