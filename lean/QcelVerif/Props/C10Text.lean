import QcelVerif.Model.JsonText
import QcelVerif.Lemmas.JsonText
import QcelVerif.Props.C10Msgpack
/-!
# C10 — the JSON text layer: `json.loads(json.dumps(v)) = v` at character level, and the text-level statements for
`json-ext` and for the two flat encodings

Everything is stated for an ARBITRARY float codec `P` (CPython's `float.__repr__` / `float()`); the only thing needed of
it is `floatOk P b` for the floats `b` that occur in the tree — a decidable per-value statement (`twf P j = true`) which
the driver evaluates, with the concrete codec it runs, for every tree it prints.  Strings range over all Unicode scalar
values (Lean `Char`); depth, width and sizes are unbounded.

Manifest: `json_text_roundtrip`, `json_text_prefix`, `json_text_roundtrip_ws`, `jsonPrint_injective`,
`jsonext_text_roundtrip`, `json_text_reserialise_identical`, `json_hookless_text_roundtrip`,
`flat_elems_ravel`, `flat_json_text_roundtrip`, `flat_msgpack_roundtrip`, `flat_reshape_composes`.
-/
namespace QcelVerif.Ser

section codec
variable (P : FloatCodec)

/-! ## dispatch lemmas of the parser (no property statements) -/

theorem parseV_space (f : Nat) (s : List Char) : parseV P f (' ' :: s) = parseV P f s := by
  cases f with
  | zero => simp [parseV]
  | succ f => rw [parseV, parseV, skipWs_space]

theorem parseKey_space (s : List Char) : parseKey (' ' :: s) = parseKey s := by
  rw [parseKey, parseKey, skipWs_space]

theorem parseV_num (f : Nat) (c : Char) (r : List Char) (h : c = '-' ∨ c.isDigit = true) :
    parseV P (f + 1) (c :: r) = parseNum P (c :: r) := by
  rw [parseV]
  simp only [skipWs_of_head (isJWs_of_numStart h)]
  rw [if_pos h]

theorem parseV_tok (f : Nat) (tok rest : List Char) (h : startsNum tok = true) :
    parseV P (f + 1) (tok ++ rest) = parseNum P (tok ++ rest) := by
  cases tok with
  | nil => simp [startsNum] at h
  | cons c t =>
    have hc : c = '-' ∨ c.isDigit = true := by simpa [startsNum] using h
    exact parseV_num P f c (t ++ rest) hc

theorem parseNum_int (tok rest : List Char) (hall : ∀ c ∈ tok, isNumChar c = true) (hs : stopOK rest = true)
    (hne : tok ≠ ['-']) (hk : numKind tok = some .int) :
    parseNum P (tok ++ rest) = .ok (.int (intOfTok tok), rest) := by
  have hsp := span_tok tok rest hall hs
  simp only [parseNum, hsp.1, hsp.2, if_neg hne, hk]

theorem parseNum_float (tok rest : List Char) (hall : ∀ c ∈ tok, isNumChar c = true) (hs : stopOK rest = true)
    (hne : tok ≠ ['-']) (hk : numKind tok = some .float) (b : Bytes) (hp : P.parseF tok = some b) :
    parseNum P (tok ++ rest) = .ok (.num b, rest) := by
  have hsp := span_tok tok rest hall hs
  simp only [parseNum, hsp.1, hsp.2, if_neg hne, hk, hp]

theorem parseNum_negInf (rest : List Char) :
    parseNum P ('-' :: 'I' :: 'n' :: 'f' :: 'i' :: 'n' :: 'i' :: 't' :: 'y' :: rest) = .ok (.num negInf, rest) := by
  have h1 : isNumChar '-' = true := by decide
  have h2 : isNumChar 'I' = false := by decide
  have e := stripPrefix_append ['I', 'n', 'f', 'i', 'n', 'i', 't', 'y'] rest
  simp only [List.cons_append, List.nil_append] at e
  simp only [parseNum, List.takeWhile, List.dropWhile, h1, h2, if_true, e]

theorem parseV_str (f : Nat) (s rest : List Char) :
    parseV P (f + 1) ('"' :: (escStr s ++ '"' :: rest)) = .ok (.str s, rest) := by
  rw [parseV]
  simp only [skipWs_of_head (show isJWs '"' = false by decide)]
  rw [if_neg (show ¬ (('"' : Char) = '-' ∨ Char.isDigit '"' = true) by decide), if_pos trivial, parseStr_printStr]

theorem parseV_arr_nil (f : Nat) (rest : List Char) : parseV P (f + 1) ('[' :: ']' :: rest) = .ok (.arr [], rest) := by
  rw [parseV]
  simp only [skipWs_of_head (show isJWs '[' = false by decide)]
  rw [if_neg (show ¬ (('[' : Char) = '-' ∨ Char.isDigit '[' = true) by decide)]
  simp [skipWs_of_head (show isJWs ']' = false by decide)]

theorem parseV_arr_cons (f : Nat) (c : Char) (r : List Char) (hws : isJWs c = false) (hne : c ≠ ']')
    (v : JV) (r3 : List Char) (l : List JV) (r4 : List Char)
    (h1 : parseV P f (c :: r) = .ok (v, r3)) (h2 : parseRest P f r3 = .ok (l, r4)) :
    parseV P (f + 1) ('[' :: c :: r) = .ok (.arr (v :: l), r4) := by
  rw [parseV]
  simp only [skipWs_of_head (show isJWs '[' = false by decide)]
  rw [if_neg (show ¬ (('[' : Char) = '-' ∨ Char.isDigit '[' = true) by decide)]
  simp [skipWs_of_head hws, hne, h1, h2]

theorem parseRest_close (f : Nat) (rest : List Char) : parseRest P (f + 1) (']' :: rest) = .ok ([], rest) := by
  rw [parseRest]
  simp [skipWs_of_head (show isJWs ']' = false by decide)]

theorem parseRest_comma (f : Nat) (r : List Char) (v : JV) (r1 : List Char) (l : List JV) (r2 : List Char)
    (h1 : parseV P f r = .ok (v, r1)) (h2 : parseRest P f r1 = .ok (l, r2)) :
    parseRest P (f + 1) (',' :: r) = .ok (v :: l, r2) := by
  rw [parseRest]
  simp [skipWs_of_head (show isJWs ',' = false by decide), h1, h2]

theorem parseKey_print (k rest : List Char) :
    parseKey ('"' :: (escStr k ++ '"' :: ':' :: rest)) = .ok (k, rest) := by
  rw [parseKey]
  simp only [skipWs_of_head (show isJWs '"' = false by decide)]
  rw [if_pos trivial, parseStr_printStr]
  simp [skipWs_of_head (show isJWs ':' = false by decide)]

theorem parseV_obj_nil (f : Nat) (rest : List Char) : parseV P (f + 1) ('{' :: '}' :: rest) = .ok (.obj [], rest) := by
  rw [parseV]
  simp only [skipWs_of_head (show isJWs '{' = false by decide)]
  rw [if_neg (show ¬ (('{' : Char) = '-' ∨ Char.isDigit '{' = true) by decide)]
  simp [skipWs_of_head (show isJWs '}' = false by decide)]

theorem parseV_obj_cons (f : Nat) (r : List Char) (k : List Char) (r3 : List Char) (v : JV) (r4 : List Char)
    (l : List (List Char × JV)) (r5 : List Char)
    (h1 : parseKey ('"' :: r) = .ok (k, r3)) (h2 : parseV P f r3 = .ok (v, r4)) (h3 : parseMembers P f r4 = .ok (l, r5)) :
    parseV P (f + 1) ('{' :: '"' :: r) = .ok (.obj ((k, v) :: l), r5) := by
  rw [parseV]
  simp only [skipWs_of_head (show isJWs '{' = false by decide)]
  rw [if_neg (show ¬ (('{' : Char) = '-' ∨ Char.isDigit '{' = true) by decide)]
  simp [skipWs_of_head (show isJWs '"' = false by decide), h1, h2, h3]

theorem parseMembers_close (f : Nat) (rest : List Char) : parseMembers P (f + 1) ('}' :: rest) = .ok ([], rest) := by
  rw [parseMembers]
  simp [skipWs_of_head (show isJWs '}' = false by decide)]

theorem parseMembers_comma (f : Nat) (r : List Char) (k : List Char) (r1 : List Char) (v : JV) (r2 : List Char)
    (l : List (List Char × JV)) (r3 : List Char)
    (h1 : parseKey r = .ok (k, r1)) (h2 : parseV P f r1 = .ok (v, r2)) (h3 : parseMembers P f r2 = .ok (l, r3)) :
    parseMembers P (f + 1) (',' :: r) = .ok ((k, v) :: l, r3) := by
  rw [parseMembers]
  simp [skipWs_of_head (show isJWs ',' = false by decide), h1, h2, h3]

/-! ## floats -/

theorem floatOk_cases {b : Bytes} (h : floatOk P b = true) :
    (isNaNB b = true ∧ b = canonNaN) ∨ (isNaNB b = false ∧ b = posInf) ∨
    (isNaNB b = false ∧ b ≠ posInf ∧ b = negInf) ∨
    (isNaNB b = false ∧ b ≠ posInf ∧ b ≠ negInf ∧ tokOk (P.reprF b) = true ∧ P.parseF (P.reprF b) = some b) := by
  simp only [floatOk, Bool.and_eq_true, decide_eq_true_eq] at h
  obtain ⟨_, h⟩ := h
  by_cases hn : isNaNB b = true
  · left
    rw [if_pos hn] at h
    exact ⟨hn, by simpa using h⟩
  · have hn' : isNaNB b = false := by simpa using hn
    rw [if_neg hn] at h
    by_cases hp : b = posInf
    · exact Or.inr (Or.inl ⟨hn', hp⟩)
    · by_cases hm : b = negInf
      · exact Or.inr (Or.inr (Or.inl ⟨hn', hp, hm⟩))
      · have hpm : (b == posInf || b == negInf) = false := by simp [hp, hm]
        rw [hpm] at h
        simp only [Bool.false_eq_true, if_false, Bool.and_eq_true, beq_iff_eq] at h
        exact Or.inr (Or.inr (Or.inr ⟨hn', hp, hm, h.1, h.2⟩))

theorem parseV_printNum (b : Bytes) (h : floatOk P b = true) (f : Nat) (rest : List Char) (hs : stopOK rest = true) :
    parseV P (f + 1) (printNum P b ++ rest) = .ok (.num b, rest) := by
  rcases floatOk_cases P h with ⟨hn, hb⟩ | ⟨hn, hb⟩ | ⟨hn, hp, hb⟩ | ⟨hn, hp, hm, htok, hparse⟩
  · subst hb
    have e := stripPrefix_append ['a', 'N'] rest
    simp only [List.cons_append, List.nil_append] at e
    simp only [printNum, hn, if_true, List.cons_append, List.nil_append]
    rw [parseV]
    simp only [skipWs_of_head (show isJWs 'N' = false by decide)]
    rw [if_neg (show ¬ (('N' : Char) = '-' ∨ Char.isDigit 'N' = true) by decide)]
    simp [lit, e]
  · subst hb
    have e := stripPrefix_append ['n', 'f', 'i', 'n', 'i', 't', 'y'] rest
    simp only [List.cons_append, List.nil_append] at e
    have hn' : isNaNB posInf = false := hn
    simp only [printNum, hn', Bool.false_eq_true, if_false, beq_self_eq_true, if_true, List.cons_append, List.nil_append]
    rw [parseV]
    simp only [skipWs_of_head (show isJWs 'I' = false by decide)]
    rw [if_neg (show ¬ (('I' : Char) = '-' ∨ Char.isDigit 'I' = true) by decide)]
    simp [lit, e]
  · subst hb
    have hn' : isNaNB negInf = false := hn
    have hpb : (negInf == posInf) = false := by decide
    simp only [printNum, hn', Bool.false_eq_true, if_false, hpb, beq_self_eq_true, if_true, List.cons_append,
      List.nil_append]
    rw [parseV_num P f '-' _ (Or.inl rfl)]
    exact parseNum_negInf P rest
  · obtain ⟨hall, hstart, hk, hne⟩ := tokOk_spec htok
    have hpb : (b == posInf) = false := by simpa using hp
    have hmb : (b == negInf) = false := by simpa using hm
    simp only [printNum, hn, Bool.false_eq_true, if_false, hpb, hmb]
    rw [parseV_tok P f _ rest hstart]
    exact parseNum_float P _ rest hall hs hne hk b hparse

/-! ## heads of printed values -/

theorem printV_head (v : JV) (h : twf P v = true) :
    ∃ c t, printV P v = c :: t ∧ isJWs c = false ∧ c ≠ ']' := by
  cases v with
  | null => exact ⟨'n', ['u', 'l', 'l'], by simp [printV], by decide, by decide⟩
  | bool b =>
    cases b
    · exact ⟨'f', ['a', 'l', 's', 'e'], by simp [printV], by decide, by decide⟩
    · exact ⟨'t', ['r', 'u', 'e'], by simp [printV], by decide, by decide⟩
  | int i =>
    obtain ⟨_, hs, _, _, _⟩ := printInt_spec i
    cases hd : printInt i with
    | nil => rw [hd] at hs; simp [startsNum] at hs
    | cons c t =>
      rw [hd] at hs
      have hc : c = '-' ∨ c.isDigit = true := by simpa [startsNum] using hs
      refine ⟨c, t, by simp [printV, hd], isJWs_of_numStart hc, ?_⟩
      rcases hc with rfl | hc
      · decide
      · intro he; subst he; simp [Char.isDigit] at hc
  | num b =>
    have hb : floatOk P b = true := by simpa [twf] using h
    rcases floatOk_cases P hb with ⟨hn, _⟩ | ⟨hn, hb⟩ | ⟨hn, hp, hb⟩ | ⟨hn, hp, hm, htok, _⟩
    · exact ⟨'N', ['a', 'N'], by simp [printV, printNum, hn], by decide, by decide⟩
    · subst hb
      have hn' : isNaNB posInf = false := hn
      exact ⟨'I', ['n', 'f', 'i', 'n', 'i', 't', 'y'], by simp [printV, printNum, hn'], by decide, by decide⟩
    · subst hb
      have hn' : isNaNB negInf = false := hn
      have hpb : (negInf == posInf) = false := by decide
      exact ⟨'-', ['I', 'n', 'f', 'i', 'n', 'i', 't', 'y'], by simp [printV, printNum, hn', hpb], by decide, by decide⟩
    · obtain ⟨_, hs, _, _⟩ := tokOk_spec htok
      have hpb : (b == posInf) = false := by simpa using hp
      have hmb : (b == negInf) = false := by simpa using hm
      cases hd : P.reprF b with
      | nil => rw [hd] at hs; simp [startsNum] at hs
      | cons c t =>
        rw [hd] at hs
        have hc : c = '-' ∨ c.isDigit = true := by simpa [startsNum] using hs
        refine ⟨c, t, by simp [printV, printNum, hn, hpb, hmb, hd], isJWs_of_numStart hc, ?_⟩
        rcases hc with rfl | hc
        · decide
        · intro he; subst he; simp [Char.isDigit] at hc
  | str s => exact ⟨'"', escStr s ++ ['"'], by simp [printV, printStr], by decide, by decide⟩
  | arr l => exact ⟨'[', printElems P l ++ [']'], by simp [printV], by decide, by decide⟩
  | obj l => exact ⟨'{', printPairs P l ++ ['}'], by simp [printV], by decide, by decide⟩

theorem stopOK_printRest (t : List JV) (rest : List Char) : stopOK (printRest P t ++ ']' :: rest) = true := by
  cases t with
  | nil => simp [printRest, stopOK, isNumChar, Char.isDigit]
  | cons v t => simp [printRest, stopOK, isNumChar, Char.isDigit]

theorem stopOK_printMembers (t : List (List Char × JV)) (rest : List Char) :
    stopOK (printMembers P t ++ '}' :: rest) = true := by
  cases t with
  | nil => simp [printMembers, stopOK, isNumChar, Char.isDigit]
  | cons p t => obtain ⟨k, v⟩ := p; simp [printMembers, stopOK, isNumChar, Char.isDigit]


/-! ## the round trip, one value from a prefix of the text -/

theorem fuel_succ_of_head {v : JV} (h : twf P v = true) {fuel : Nat} (hf : (printV P v).length ≤ fuel) :
    ∃ f, fuel = f + 1 := by
  obtain ⟨c, t, hv, _, _⟩ := printV_head P v h
  rw [hv] at hf
  simp only [List.length_cons] at hf
  exact ⟨fuel - 1, by omega⟩

mutual
  theorem parse_print : ∀ (v : JV), twf P v = true → ∀ (fuel : Nat) (rest : List Char), stopOK rest = true →
      (printV P v).length ≤ fuel → parseV P fuel (printV P v ++ rest) = .ok (v, rest)
    | .null, h, fuel, rest, _, hf => by
      obtain ⟨f, rfl⟩ := fuel_succ_of_head P h hf
      simp only [printV, List.cons_append, List.nil_append]
      rw [parseV]
      simp only [skipWs_of_head (show isJWs 'n' = false by decide)]
      rw [if_neg (show ¬ (('n' : Char) = '-' ∨ Char.isDigit 'n' = true) by decide)]
      simp [lit, stripPrefix]
    | .bool true, h, fuel, rest, _, hf => by
      obtain ⟨f, rfl⟩ := fuel_succ_of_head P h hf
      simp only [printV, List.cons_append, List.nil_append]
      rw [parseV]
      simp only [skipWs_of_head (show isJWs 't' = false by decide)]
      rw [if_neg (show ¬ (('t' : Char) = '-' ∨ Char.isDigit 't' = true) by decide)]
      simp [lit, stripPrefix]
    | .bool false, h, fuel, rest, _, hf => by
      obtain ⟨f, rfl⟩ := fuel_succ_of_head P h hf
      simp only [printV, List.cons_append, List.nil_append]
      rw [parseV]
      simp only [skipWs_of_head (show isJWs 'f' = false by decide)]
      rw [if_neg (show ¬ (('f' : Char) = '-' ∨ Char.isDigit 'f' = true) by decide)]
      simp [lit, stripPrefix]
    | .int i, h, fuel, rest, hs, hf => by
      obtain ⟨f, rfl⟩ := fuel_succ_of_head P h hf
      obtain ⟨hall, hstart, hk, hi, hne⟩ := printInt_spec i
      simp only [printV]
      rw [parseV_tok P f _ rest hstart, parseNum_int P _ rest hall hs hne hk, hi]
    | .num b, h, fuel, rest, hs, hf => by
      obtain ⟨f, rfl⟩ := fuel_succ_of_head P h hf
      have hb : floatOk P b = true := by simpa [twf] using h
      simp only [printV]
      exact parseV_printNum P b hb f rest hs
    | .str s, h, fuel, rest, _, hf => by
      obtain ⟨f, rfl⟩ := fuel_succ_of_head P h hf
      simp only [printV, printStr, List.cons_append, List.append_assoc, List.nil_append]
      exact parseV_str P f s rest
    | .arr [], h, fuel, rest, _, hf => by
      obtain ⟨f, rfl⟩ := fuel_succ_of_head P h hf
      simp only [printV, printElems, List.cons_append, List.nil_append]
      exact parseV_arr_nil P f rest
    | .arr (v :: t), h, fuel, rest, _, hf => by
      obtain ⟨f, rfl⟩ := fuel_succ_of_head P h hf
      have ⟨hv, ht⟩ : twf P v = true ∧ twfL P t = true := by simpa [twf, twfL] using h
      simp only [printV, printElems, List.length_cons, List.length_append, List.length_nil] at hf
      obtain ⟨c, tl, hc, hws, hne⟩ := printV_head P v hv
      have e : printV P v ++ (printRest P t ++ ']' :: rest) = c :: (tl ++ (printRest P t ++ ']' :: rest)) := by
        rw [hc]; rfl
      have h1 := parse_print v hv f (printRest P t ++ ']' :: rest) (stopOK_printRest P t rest) (by omega)
      have h2 := parse_printRest t ht f rest (by omega)
      rw [e] at h1
      simp only [printV, printElems, List.cons_append, List.append_assoc, List.nil_append]
      rw [e]
      exact parseV_arr_cons P f c _ hws hne v _ t rest h1 h2
    | .obj [], h, fuel, rest, _, hf => by
      obtain ⟨f, rfl⟩ := fuel_succ_of_head P h hf
      simp only [printV, printPairs, List.cons_append, List.nil_append]
      exact parseV_obj_nil P f rest
    | .obj ((k, v) :: t), h, fuel, rest, _, hf => by
      obtain ⟨f, rfl⟩ := fuel_succ_of_head P h hf
      have ⟨hv, ht⟩ : twf P v = true ∧ twfP P t = true := by simpa [twf, twfP] using h
      simp only [printV, printPairs, printStr, List.length_cons, List.length_append, List.length_nil] at hf
      have h1 := parse_print v hv f (printMembers P t ++ '}' :: rest) (stopOK_printMembers P t rest) (by omega)
      have h2 := parse_printMembers t ht f rest (by omega)
      rw [← parseV_space] at h1
      have hk := parseKey_print k (' ' :: (printV P v ++ (printMembers P t ++ '}' :: rest)))
      simp only [printV, printPairs, printStr, List.cons_append, List.append_assoc, List.nil_append]
      exact parseV_obj_cons P f _ k _ v _ t rest hk h1 h2
  theorem parse_printRest : ∀ (l : List JV), twfL P l = true → ∀ (fuel : Nat) (rest : List Char),
      (printRest P l).length + 1 ≤ fuel → parseRest P fuel (printRest P l ++ ']' :: rest) = .ok (l, rest)
    | [], _, fuel, rest, hf => by
      obtain ⟨f, rfl⟩ : ∃ f, fuel = f + 1 := ⟨fuel - 1, by omega⟩
      simp only [printRest, List.nil_append]
      exact parseRest_close P f rest
    | v :: t, h, fuel, rest, hf => by
      obtain ⟨f, rfl⟩ : ∃ f, fuel = f + 1 := ⟨fuel - 1, by omega⟩
      have ⟨hv, ht⟩ : twf P v = true ∧ twfL P t = true := by simpa [twfL] using h
      simp only [printRest, List.length_cons, List.length_append] at hf
      have h1 := parse_print v hv f (printRest P t ++ ']' :: rest) (stopOK_printRest P t rest) (by omega)
      have h2 := parse_printRest t ht f rest (by omega)
      rw [← parseV_space] at h1
      simp only [printRest, List.cons_append, List.append_assoc]
      exact parseRest_comma P f _ v _ t rest h1 h2
  theorem parse_printMembers : ∀ (l : List (List Char × JV)), twfP P l = true → ∀ (fuel : Nat) (rest : List Char),
      (printMembers P l).length + 1 ≤ fuel → parseMembers P fuel (printMembers P l ++ '}' :: rest) = .ok (l, rest)
    | [], _, fuel, rest, hf => by
      obtain ⟨f, rfl⟩ : ∃ f, fuel = f + 1 := ⟨fuel - 1, by omega⟩
      simp only [printMembers, List.nil_append]
      exact parseMembers_close P f rest
    | (k, v) :: t, h, fuel, rest, hf => by
      obtain ⟨f, rfl⟩ : ∃ f, fuel = f + 1 := ⟨fuel - 1, by omega⟩
      have ⟨hv, ht⟩ : twf P v = true ∧ twfP P t = true := by simpa [twfP] using h
      simp only [printMembers, printStr, List.length_cons, List.length_append, List.length_nil] at hf
      have h1 := parse_print v hv f (printMembers P t ++ '}' :: rest) (stopOK_printMembers P t rest) (by omega)
      have h2 := parse_printMembers t ht f rest (by omega)
      rw [← parseV_space] at h1
      have hk := parseKey_print k (' ' :: (printV P v ++ (printMembers P t ++ '}' :: rest)))
      rw [← parseKey_space] at hk
      simp only [printMembers, printStr, List.cons_append, List.append_assoc, List.nil_append]
      exact parseMembers_comma P f _ k _ v _ t rest hk h1 h2
end


/-! ## property theorems: the text round trip -/

/-- **one value from a prefix of the text**: on the text of a tree followed by anything that cannot continue a number
token, one parsing step with at least `len(text)` fuel returns exactly that tree and exactly the rest -/
theorem json_text_prefix (v : JV) (h : twf P v = true) (rest : List Char) (hs : stopOK rest = true) (fuel : Nat)
    (hf : (printV P v).length ≤ fuel) : parseV P fuel (printV P v ++ rest) = .ok (v, rest) :=
  parse_print P v h fuel rest hs hf

/-- **`json.loads(json.dumps(v)) == v` at character level**, for every JSON tree (any depth and width; strings over all
Unicode scalar values with every escape class; unbounded ints; NaN / ±Infinity; finite floats satisfying `floatOk`) -/
theorem json_text_roundtrip (v : JV) (h : twf P v = true) : jsonParse P (printV P v) = .ok v := by
  have hp := parse_print P v h ((printV P v).length + 1) [] rfl (by omega)
  rw [List.append_nil] at hp
  simp [jsonParse, hp, skipWs]

theorem not_numChar_of_ws {c : Char} (h : isJWs c = true) : isNumChar c = false := by
  have : c = ' ' ∨ c = '\t' ∨ c = '\n' ∨ c = '\r' := by
    simp only [isJWs, Bool.or_eq_true, beq_iff_eq] at h
    rcases h with ((h | h) | h) | h
    · exact Or.inl h
    · exact Or.inr (Or.inl h)
    · exact Or.inr (Or.inr (Or.inl h))
    · exact Or.inr (Or.inr (Or.inr h))
  rcases this with rfl | rfl | rfl | rfl <;> decide

/-- whitespace tolerance of the reader around a document: any JSON whitespace before and after the text is ignored -/
theorem json_text_roundtrip_ws (v : JV) (h : twf P v = true) (w1 w2 : List Char)
    (h1 : ∀ c ∈ w1, isJWs c = true) (h2 : ∀ c ∈ w2, isJWs c = true) :
    jsonParse P (w1 ++ (printV P v ++ w2)) = .ok v := by
  have hs : stopOK w2 = true := by
    cases w2 with
    | nil => rfl
    | cons c t => simp [stopOK, not_numChar_of_ws (h2 c (List.mem_cons_self ..))]
  obtain ⟨f, hf⟩ : ∃ f, (w1 ++ (printV P v ++ w2)).length + 1 = f + 1 := ⟨_, rfl⟩
  have hlen : (printV P v).length ≤ f + 1 := by
    have : (w1 ++ (printV P v ++ w2)).length = f := by omega
    simp only [List.length_append] at this
    omega
  have hp := parse_print P v h (f + 1) w2 hs hlen
  have hw : parseV P (f + 1) (w1 ++ (printV P v ++ w2)) = parseV P (f + 1) (printV P v ++ w2) := by
    rw [parseV, parseV, skipWs_all_ws w1 _ h1]
  have hw2 : skipWs w2 = [] := by
    have := skipWs_all_ws w2 [] h2
    simpa [skipWs] using this
  unfold jsonParse
  rw [hf, hw, hp]
  simp [hw2]

/-- **the printer is injective**: two trees with the same text are the same tree -/
theorem jsonPrint_injective (a b : JV) (ha : twf P a = true) (hb : twf P b = true)
    (h : printV P a = printV P b) : a = b := by
  have h1 := json_text_roundtrip P a ha
  have h2 := json_text_roundtrip P b hb
  rw [h, h2] at h1
  exact (Except.ok.inj h1).symm

end codec

/-! ## payload trees ↔ JSON trees -/

theorem utf8Dec_utf8Enc (cs : List Char) : utf8Dec (utf8Enc cs) = some cs := by
  have e : ByteArray.mk ((String.ofList cs).toUTF8.data.toList.toArray) = cs.utf8Encode := by
    simp [String.toByteArray_ofList]
  unfold utf8Dec utf8Enc
  rw [e, List.utf8Decode?_utf8Encode]
  simp

theorem utf8Enc_of_utf8Dec {b : Bytes} {cs : List Char} (h : utf8Dec b = some cs) : utf8Enc cs = b := by
  unfold utf8Dec at h
  cases hd : (ByteArray.mk b.toArray).utf8Decode? with
  | none => rw [hd] at h; simp at h
  | some arr =>
    rw [hd] at h
    simp only [Option.map_some, Option.some.injEq] at h
    subst h
    have hs : ((ByteArray.mk b.toArray).utf8Decode?).isSome = true := by rw [hd]; rfl
    have hg := @ByteArray.utf8Encode_get_utf8Decode? (ByteArray.mk b.toArray) hs
    have e : ((ByteArray.mk b.toArray).utf8Decode?.get hs) = arr := by simp [hd]
    rw [e] at hg
    simp [utf8Enc, String.toByteArray_ofList, hg]

mutual
  theorem ofJ_toJ : ∀ (v : Val) (j : JV), toJ v = some j → ofJ j = v
    | .nil, j, h => by simp [toJ] at h; subst h; simp [ofJ]
    | .bool b, j, h => by simp [toJ] at h; subst h; simp [ofJ]
    | .int i, j, h => by simp [toJ] at h; subst h; simp [ofJ]
    | .f64 b, j, h => by simp [toJ] at h; subst h; simp [ofJ]
    | .str s, j, h => by
      simp only [toJ] at h
      cases hd : utf8Dec s with
      | none => rw [hd] at h; simp at h
      | some cs => rw [hd] at h; simp at h; subst h; simp [ofJ, utf8Enc_of_utf8Dec hd]
    | .bin _, j, h => by simp [toJ] at h
    | .nd _ _ _, j, h => by simp [toJ] at h
    | .arr l, j, h => by
      simp only [toJ] at h
      cases hl : toJL l with
      | none => rw [hl] at h; simp at h
      | some l' => rw [hl] at h; simp at h; subst h; simp [ofJ, ofJL_toJL l l' hl]
    | .map l, j, h => by
      simp only [toJ] at h
      cases hl : toJP l with
      | none => rw [hl] at h; simp at h
      | some l' => rw [hl] at h; simp at h; subst h; simp [ofJ, ofJP_toJP l l' hl]
  theorem ofJL_toJL : ∀ (l : List Val) (l' : List JV), toJL l = some l' → ofJL l' = l
    | [], l', h => by simp [toJL] at h; subst h; simp [ofJL]
    | v :: t, l', h => by
      simp only [toJL] at h
      cases hv : toJ v with
      | none => rw [hv] at h; simp at h
      | some v' =>
        cases ht : toJL t with
        | none => rw [hv, ht] at h; simp at h
        | some t' =>
          rw [hv, ht] at h; simp at h; subst h
          simp [ofJL, ofJ_toJ v v' hv, ofJL_toJL t t' ht]
  theorem ofJP_toJP : ∀ (l : List (Val × Val)) (l' : List (List Char × JV)), toJP l = some l' → ofJP l' = l
    | [], l', h => by simp [toJP] at h; subst h; simp [ofJP]
    | (k, v) :: t, l', h => by
      cases k with
      | str kb =>
        simp only [toJP] at h
        cases hk : utf8Dec kb with
        | none => rw [hk] at h; simp at h
        | some k' =>
          cases hv : toJ v with
          | none => rw [hk, hv] at h; simp at h
          | some v' =>
            cases ht : toJP t with
            | none => rw [hk, hv, ht] at h; simp at h
            | some t' =>
              rw [hk, hv, ht] at h; simp at h; subst h
              simp [ofJP, utf8Enc_of_utf8Dec hk, ofJ_toJ v v' hv, ofJP_toJP t t' ht]
      | _ => simp [toJP] at h
end

section entry
variable (P : FloatCodec)

/-- the scope of the text-level statements for a payload tree `w` that JSON can hold: it has a JSON tree (str keys, valid
UTF-8, no bytes) all of whose floats satisfy the codec hypothesis -/
def TextOK (w : Val) : Prop := ∃ j, toJ w = some j ∧ twf P j = true

/-- **json-ext at text level**: `deserialize(serialize(v, "json-ext"), "json-ext") = v` — the text is produced and read
back character by character, and every ndarray leaf (any depth) comes back with the same dtype, shape and bytes -/
theorem jsonext_text_roundtrip (v : Val) (hv : JWF v) (ht : TextOK P (jxEnc v)) :
    ∃ t, serializeJsonExt P v = some t ∧ deserializeJsonExt P t = .ok v := by
  obtain ⟨j, hj, hw⟩ := ht
  refine ⟨printV P j, by simp [serializeJsonExt, hj], ?_⟩
  have h1 := json_text_roundtrip P j hw
  have h2 := ofJ_toJ _ _ hj
  simp [deserializeJsonExt, h1, h2, jsonext_roundtrip v hv]

/-- **identical re-serialisation at text level** (json-ext): serialising what was read back gives the same text -/
theorem json_text_reserialise_identical (v v' : Val) (hv : JWF v) (ht : TextOK P (jxEnc v)) (t : List Char)
    (hs : serializeJsonExt P v = some t) (hd : deserializeJsonExt P t = .ok v') : serializeJsonExt P v' = some t := by
  obtain ⟨t', hs', hd'⟩ := jsonext_text_roundtrip P v hv ht
  rw [hs] at hs'
  cases hs'
  rw [hd'] at hd
  cases hd
  exact hs

/-- plain `json.loads` (pydantic's reader for `parse_raw(encoding="json")`, no hook) reads a JSON-native tree back from
its text -/
theorem json_hookless_text_roundtrip (w : Val) (j : JV) (hj : toJ w = some j) (hw : twf P j = true) :
    deserializeJsonPlain P (printV P j) = .ok w := by
  simp [deserializeJsonPlain, json_text_roundtrip P j hw, ofJ_toJ _ _ hj]

/-! ## the flat encodings (`json`, `msgpack`): arrays go out as the row-major flat list and the reshape restores them -/

/-- **row-major order**: the flat list of an array whose buffer is the concatenation of its rows' element blocks is the
`ravel` of the rows, element by element -/
theorem flat_elems_ravel (dt : Bytes) (isz : Nat) (hisz : itemsize dt = some isz) (hpos : 0 < isz)
    (rowsB : List (List Bytes)) (hblk : ∀ blk ∈ ravel rowsB, blk.length = isz) :
    elemsOf dt (ravel rowsB).flatten = mapM? (decodeElem dt) (ravel rowsB) := by
  obtain ⟨k, rfl⟩ : ∃ k, isz = k + 1 := ⟨isz - 1, by omega⟩
  have hlen := length_flatten_rows (k + 1) (ravel rowsB) hblk
  have hdiv : (ravel rowsB).flatten.length / (k + 1) = (ravel rowsB).length := by
    rw [hlen]; exact Nat.mul_div_cancel _ (by omega)
  simp only [elemsOf, hisz, hdiv, chunk_flatten (k + 1) (ravel rowsB) hblk]

/-- an ndarray leaf is emitted by the flat encoders as the list of its elements in buffer (row-major) order -/
theorem flat_nd_emits_list (dt : Bytes) (shape : List Nat) (data : Bytes) :
    flatEnc (.nd dt shape data) = (elemsOf dt data).map .arr := by
  simp [flatEnc]

theorem flatten_chunk {α : Type} (m : Nat) : ∀ (n : Nat) (l : List α), l.length = n * m →
    (chunk m n l).flatten = l ∧ (chunk m n l).length = n ∧ ∀ r ∈ chunk m n l, r.length = m
  | 0, l, h => by
    have : l = [] := by simpa using h
    subst this
    simp [chunk]
  | n + 1, l, h => by
    have hl : (l.drop m).length = n * m := by
      rw [List.length_drop, h, Nat.add_mul, Nat.one_mul, Nat.add_sub_cancel]
    obtain ⟨h1, h2, h3⟩ := flatten_chunk m n (l.drop m) hl
    have hm : m ≤ l.length := by rw [h, Nat.add_mul, Nat.one_mul]; omega
    refine ⟨by simp [chunk, h1], by simp [chunk, h2], ?_⟩
    intro r hr
    simp only [chunk, List.mem_cons] at hr
    rcases hr with rfl | hr
    · simp [List.length_take, Nat.min_eq_left hm]
    · exact h3 r hr

/-- **reshape and ravel are mutually inverse on the declared shapes**: a flat list of `n·m` elements reshapes to `n`
rows of `m` whose `ravel` is the list again (with `flat_reshape_roundtrip`: `reshape (ravel rows) = rows`) -/
theorem flat_reshape_composes {α : Type} (n m : Nat) (flat : List α) (h : flat.length = n * m) :
    ∃ rows, reshapeRows n m flat = some rows ∧ ravel rows = flat ∧ rows.length = n ∧ ∀ r ∈ rows, r.length = m := by
  obtain ⟨h1, h2, h3⟩ := flatten_chunk m n flat h
  exact ⟨chunk m n flat, by simp [reshapeRows, h], h1, h2, h3⟩

/-- **plain json at text level**: whatever the flat encoder hands on is written and read back character by character;
for an `(n, m)` ndarray leaf the reader gets the flat element list, and the models' reshape restores the rows -/
theorem flat_json_text_roundtrip (v w : Val) (hf : flatEnc v = some w) (ht : TextOK P w) :
    ∃ t, serializeJson P v = some t ∧ deserializeJsonPlain P t = .ok w := by
  obtain ⟨j, hj, hw⟩ := ht
  exact ⟨printV P j, by simp [serializeJson, hf, hj], json_hookless_text_roundtrip P w j hj hw⟩

theorem flat_json_array_restored (dt data : Bytes) (n m : Nat) (es : List Val) (he : elemsOf dt data = some es)
    (hlen : es.length = n * m) (ht : TextOK P (.arr es)) :
    ∃ t rows, serializeJson P (.nd dt [n, m] data) = some t ∧ deserializeJsonPlain P t = .ok (.arr es) ∧
      reshapeRows n m es = some rows ∧ ravel rows = es := by
  obtain ⟨t, h1, h2⟩ := flat_json_text_roundtrip P (.nd dt [n, m] data) (.arr es) (by simp [flatEnc, he]) ht
  obtain ⟨rows, h3, h4, _, _⟩ := flat_reshape_composes n m es hlen
  exact ⟨t, rows, h1, h2, h3, h4⟩

/-- **plain msgpack at byte level**: the flat tree is written and read back byte by byte (`msgpack_roundtrip`), so an
ndarray leaf arrives as its flat element list -/
theorem flat_msgpack_roundtrip (v w : Val) (hf : flatEnc v = some w) (hw : WellFormed w) :
    ∃ bs, serializeMsgpack v = some bs ∧ mpDecode bs = .ok w :=
  ⟨mpEnc w, by simp [serializeMsgpack, hf], msgpack_roundtrip w hw⟩

theorem flat_msgpack_array_restored (dt data : Bytes) (n m : Nat) (es : List Val) (he : elemsOf dt data = some es)
    (hlen : es.length = n * m) (hw : WellFormed (.arr es)) :
    ∃ bs rows, serializeMsgpack (.nd dt [n, m] data) = some bs ∧ mpDecode bs = .ok (.arr es) ∧
      reshapeRows n m es = some rows ∧ ravel rows = es := by
  obtain ⟨bs, h1, h2⟩ := flat_msgpack_roundtrip (.nd dt [n, m] data) (.arr es) (by simp [flatEnc, he]) hw
  obtain ⟨rows, h3, h4, _, _⟩ := flat_reshape_composes n m es hlen
  exact ⟨bs, rows, h1, h2, h3, h4⟩

end entry


/-! ## non-vacuity and tests -/

/-- a toy codec that knows one float, 1.5 (the theorems hold for every codec; the driver runs `F64.concreteCodec`) -/
def toyCodec : FloatCodec :=
  { reprF := fun _ => ['1', '.', '5'], parseF := fun _ => some [0x3f, 0xf8, 0, 0, 0, 0, 0, 0] }

/-- a tree with every leaf kind: a key needing escapes (quote, backslash, newline, U+0001, é, ✓, an astral character),
empty string / array / object, negative and large ints, 1.5, NaN, −Infinity, nesting -/
def exampleJV : JV :=
  .obj [(['a', '"', '\\', '\n', '\x01', 'é', '✓', '😀'],
          .arr [.null, .bool true, .int (-12), .int 18446744073709551616, .num [0x3f, 0xf8, 0, 0, 0, 0, 0, 0],
                .num canonNaN, .num negInf, .arr [], .obj [], .str []]),
        ([], .obj [(['k'], .arr [.arr [.arr [.str ['/', '\x7f']]]])])]

/-- non-vacuity of `json_text_roundtrip` / `json_text_prefix` / `jsonPrint_injective`: the hypotheses hold of it … -/
example : twf toyCodec exampleJV = true := by decide
/-- … so it round-trips through its text, also with whitespace around it -/
example : jsonParse toyCodec (printV toyCodec exampleJV) = .ok exampleJV := json_text_roundtrip _ _ (by decide)
example : jsonParse toyCodec ([' ', '\n'] ++ (printV toyCodec exampleJV ++ ['\t'])) = .ok exampleJV :=
  json_text_roundtrip_ws _ _ (by decide) _ _ (by decide) (by decide)
example (b : JV) (hb : twf toyCodec b = true) (h : printV toyCodec exampleJV = printV toyCodec b) : exampleJV = b :=
  jsonPrint_injective _ _ _ (by decide) hb h

/-- TEST (concrete): the exact characters `json.dumps` writes for a small tree — separators `", "` and `": "`, short
escapes, `\u00XX`, `\uXXXX`, a surrogate pair, lower-case hex -/
example : printV toyCodec (.obj [(['a', '"'], .arr [.int 1, .str ['\n', '\x01', 'é', '😀', '\x7f']]), (['b'], .num posInf)])
    = "{\"a\\\"\": [1, \"\\n\\u0001\\u00e9\\ud83d\\ude00\\u007f\"], \"b\": Infinity}".toList := by decide

/-- TEST (concrete): the reader accepts what the writer never emits — `\/`, upper-case hex, exponents, inner whitespace —
and refuses raw control characters, lone surrogates, leading zeros and trailing garbage -/
example : jsonParse toyCodec "[ \"\\/\\u00E9\" , -0 ,\n{ \"k\" : null } ]".toList
    = .ok (.arr [.str ['/', 'é'], .int 0, .obj [(['k'], .null)]]) := by rfl
example : jsonParse toyCodec ['"', '\x01', '"'] = .error .ctrlInStr := by rfl
example : jsonParse toyCodec "\"\\ud800\"".toList = .error .loneSurrogate := by rfl
example : jsonParse toyCodec "01".toList = .error .badNum := by rfl
example : jsonParse toyCodec "1 2".toList = .error .extra := by rfl

/-- non-vacuity of `jsonext_text_roundtrip` / `json_text_reserialise_identical`: a dict holding a float64 vector -/
def exampleVal : Val := .map [(.str [103], .nd (asciiBytes "<f8") [1] [0, 0, 0, 0, 0, 0, 0xf8, 0x3f])]

example : JWF exampleVal :=
  .map _ (by decide) (by intro p hp; simp [exampleVal] at hp; subst hp; exact .nd _ _ _ ⟨by decide, 8, by decide, by decide, by decide⟩)

example : TextOK toyCodec (jxEnc exampleVal) :=
  ⟨.obj [(['g'], .obj [("_nd_".toList, .bool true), ("dtype".toList, .str "<f8".toList),
      ("data".toList, .str "000000000000f83f".toList)])], by rfl, by decide⟩

/-- non-vacuity of the flat statements: a (1,2) little-endian int16 array is emitted as `[1, -2]` and restored -/
example : elemsOf (asciiBytes "<i2") [1, 0, 0xfe, 0xff] = some [.int 1, .int (-2)] := by rfl
example : TextOK toyCodec (.arr [.int 1, .int (-2)]) := ⟨.arr [.int 1, .int (-2)], by rfl, by decide⟩
example : WellFormed (.arr [.int 1, .int (-2)]) := by decide
example : serializeJson toyCodec (.nd (asciiBytes "<i2") [1, 2] [1, 0, 0xfe, 0xff]) = some "[1, -2]".toList := by decide
/-- non-vacuity of `flat_elems_ravel`: two rows of two 2-byte blocks -/
example : ∀ blk ∈ ravel [[[1, 0], [2, 0]], [[3, 0], [4, 0]]], blk.length = 2 := by decide

/-- non-vacuity of `flat_reshape_composes` / `flat_json_array_restored` / `flat_msgpack_array_restored`: six elements as (2,3) -/
example : ∃ rows, reshapeRows 2 3 [1, 2, 3, 4, 5, 6] = some rows ∧ ravel rows = [1, 2, 3, 4, 5, 6] ∧ rows.length = 2 ∧
    ∀ r ∈ rows, r.length = 3 := flat_reshape_composes 2 3 _ (by decide)
example : ∃ bs rows, serializeMsgpack (.nd (asciiBytes "<i2") [1, 2] [1, 0, 0xfe, 0xff]) = some bs ∧
    mpDecode bs = .ok (.arr [.int 1, .int (-2)]) ∧ reshapeRows 1 2 [Val.int 1, .int (-2)] = some rows ∧
    ravel rows = [.int 1, .int (-2)] :=
  flat_msgpack_array_restored _ _ 1 2 _ (by rfl) (by decide) (by decide)
/-- non-vacuity of `ofJ_toJ` / `json_hookless_text_roundtrip`: a str-keyed dict with a non-ASCII value -/
example : toJ (.map [(.str [107], .str [0xc3, 0xa9])]) = some (.obj [(['k'], .str ['é'])]) := by rfl

end QcelVerif.Ser
