import QcelVerif.Props.C06Src
/-!
# C06 — every match of the NUCLEUS recogniser has well-formed captures (`GroupsOk`)

A participating group is non-empty (so Python's truthiness test `if matchobj.group("A"):` is the participation test) and the
mass group is `digits.digits` (so `float(matchobj.group("mass"))` never raises).  Structural, for EVERY byte string.
-/
set_option linter.constructorNameAsVariable false
set_option linter.unusedSimpArgs false
namespace QcelVerif.Nucleus.Ast
open QcelVerif QcelVerif.PStr QcelVerif.PT QcelVerif.Nucleus

theorem take_all_of_le_takeWhile (p : Nat → Bool) : ∀ (s : Bytes) (m : Nat), m ≤ (s.takeWhile p).length → (s.take m).all p = true
  | [], m, _ => by simp
  | a :: t, 0, _ => by simp
  | a :: t, m + 1, h => by
      by_cases ha : p a = true
      · simp only [List.takeWhile_cons, ha, if_true, List.length_cons] at h
        simp only [List.take_succ_cons, List.all_cons, ha, Bool.true_and]
        exact take_all_of_le_takeWhile p t m (by omega)
      · simp [List.takeWhile_cons, ha] at h

theorem mem_runs {p : Nat → Bool} {mx : Nat} {s : Bytes} {x : Bytes × Bytes} (h : x ∈ runs p mx s) :
    x.1 ≠ [] ∧ x.1.all p = true := by
  unfold runs at h
  simp only [List.mem_map, List.mem_reverse, List.mem_range] at h
  obtain ⟨k, hk, rfl⟩ := h
  have hk' : k + 1 ≤ (s.takeWhile p).length := by omega
  refine ⟨?_, take_all_of_le_takeWhile p s (k + 1) hk'⟩
  cases s with
  | nil => simp at hk'
  | cons a t => simp

theorem mem_userUnderscore {s : Bytes} {x : Bytes × Bytes} (h : x ∈ userUnderscore s) : x.1 ≠ [] := by
  unfold userUnderscore at h
  split at h
  · simp only [List.mem_map] at h
    obtain ⟨y, _, rfl⟩ := h
    simp
  · cases h

theorem mem_optG {α} {alts : List (α × Bytes)} {s : Bytes} {y : Option α × Bytes} (h : y ∈ optG alts s) :
    y.1 = none ∨ ∃ x ∈ alts, y.1 = some x.1 := by
  unfold optG at h
  simp only [List.mem_append, List.mem_map, List.mem_singleton] at h
  rcases h with ⟨x, hx, rfl⟩ | rfl
  · exact Or.inr ⟨x, hx, rfl⟩
  · exact Or.inl rfl

theorem decVal_digits_dot_digits {ip fp : Bytes} (hi : ip ≠ []) (hia : ip.all isDigit = true) (hf : fp ≠ []) (hfa : fp.all isDigit = true) :
    ∃ q, decVal (ip ++ 46 :: fp) = some q := by
  have h46 : isDigit 46 = false := by decide
  have htw : (ip ++ 46 :: fp).takeWhile isDigit = ip := by
    rw [List.takeWhile_append_of_pos (by simpa using hia)]
    simp [List.takeWhile_cons, h46]
  have hdw : (ip ++ 46 :: fp).dropWhile isDigit = 46 :: fp := by
    rw [List.dropWhile_append_of_pos (by simpa using hia)]
    simp [List.dropWhile_cons, h46]
  unfold decVal
  simp only [htw, hdw]
  have h1 : ip.isEmpty = false := by cases ip <;> simp_all
  have h2 : fp.isEmpty = false := by cases fp <;> simp_all
  simp [h1, h2, hfa]

theorem mem_massAlts {s : Bytes} {y : Option Bytes × Bytes} (h : y ∈ massAlts s) :
    ∀ t, y.1 = some t → t ≠ [] ∧ ∃ q, decVal t = some q := by
  intro t ht
  unfold massAlts at h
  rcases mem_optG h with h0 | ⟨x, hx, hx1⟩
  · rw [h0] at ht; cases ht
  · rw [hx1] at ht
    cases ht
    split at hx
    · simp only [List.mem_flatMap] at hx
      obtain ⟨ip, hip, hx⟩ := hx
      split at hx
      · simp only [List.mem_map] at hx
        obtain ⟨fp, hfp, rfl⟩ := hx
        obtain ⟨hi, hia⟩ := mem_runs hip
        obtain ⟨hf, hfa⟩ := mem_runs hfp
        exact ⟨by simp, decVal_digits_dot_digits hi hia hf hfa⟩
      · cases hx
    · cases hx

theorem mem_allMatches_groupsOk {s : Bytes} {g : Groups} (h : g ∈ allMatches s) : GroupsOk g := by
  unfold allMatches at h
  simp only [List.mem_flatMap, List.mem_append, List.mem_map, List.mem_filter] at h
  obtain ⟨gh, _, h⟩ := h
  rcases h with ⟨l, hl, m, ⟨hm, _⟩, rfl⟩ | ⟨l, hl, m, ⟨hm, _⟩, rfl⟩
  · -- label1: A? E user1?
    unfold label1Alts at hl
    simp only [List.mem_flatMap, List.mem_map] at hl
    obtain ⟨a, ha, e, he, u, hu, rfl⟩ := hl
    refine ⟨?_, ?_, ?_, ?_, ?_⟩
    · intro t ht
      simp only at ht
      rcases mem_optG ha with h0 | ⟨x, hx, hx1⟩
      · rw [h0] at ht; cases ht
      · rw [hx1] at ht; cases ht; exact (mem_runs hx).1
    · intro t ht; cases ht
    · intro t ht
      simp only at ht
      rcases mem_optG hu with h0 | ⟨x, hx, hx1⟩
      · rw [h0] at ht; cases ht
      · rw [hx1] at ht; cases ht
        rcases List.mem_append.mp hx with hx | hx
        · exact mem_userUnderscore hx
        · exact (mem_runs hx).1
    · intro t ht; cases ht
    · exact mem_massAlts hm
  · -- label2: Z user2?
    unfold label2Alts at hl
    simp only [List.mem_flatMap, List.mem_map] at hl
    obtain ⟨z, hz, u, hu, rfl⟩ := hl
    refine ⟨?_, ?_, ?_, ?_, ?_⟩
    · intro t ht; cases ht
    · intro t ht
      simp only at ht
      cases ht
      exact (mem_runs hz).1
    · intro t ht; cases ht
    · intro t ht
      simp only at ht
      rcases mem_optG hu with h0 | ⟨x, hx, hx1⟩
      · rw [h0] at ht; cases ht
      · rw [hx1] at ht; cases ht; exact mem_userUnderscore hx
    · exact mem_massAlts hm

/-- **every match has well-formed captures** -/
theorem matchNucleus_groupsOk (s : Bytes) (g : Groups) (h : matchNucleus s = some g) : GroupsOk g := by
  unfold matchNucleus at h
  exact mem_allMatches_groupsOk (List.mem_of_head? h)

end QcelVerif.Nucleus.Ast
