import QcelVerif.Lemmas.Nucleus
/-!
# C06 — nucleus reconciliation: property theorems

All theorems are about the model `reconcileWith N rd rng` for ANY table `N`, ANY rounding function `rd`
and ANY per-element range table `rng` (`reconcile` is the instance `rng = elRange N rd`), for ALL inputs.

 * `reconcile_sound`            the soundness clause (table row, every clue honoured, nuclide/tolerance, physical range, real, tag)
 * `reconcile_default`          no isotope clue -> the table's default isotope
 * `supplied_A_window`          a supplied A is a tabulated nuclide and the result's mass is inside its window
 * `conflict_*`                 contradictory clues -> error (never resolved in favour of one)
 * (`C06Hist`)                  Python-equality respect, LRU transparency, history independence
 * (`C06Idem`)                  feedback (partial) + counter-example, shipped-table coherence
-/
namespace QcelVerif.Nucleus
open QcelVerif QcelVerif.PStr QcelVerif.PT

/-! ## what the clues claim -/

/-- the label is consulted as a nucleus specification and parses to `L` -/
def LabelIs (i : Input) (L : Label) : Prop :=
  i.speclabel = true ∧ ∃ l, i.label = some l ∧ parseLabel l = some L

/-- some clue (Z, E, label-Z, label-E) names atomic number `z` -/
def NamesZ (N : NTables) (i : Input) (z : Int) : Prop :=
  (∃ p, i.Z = some p ∧ truncInt p.val = z) ∨
  (∃ e, ∃ n : Nat, i.E = some e ∧ N.pt.toZ (.str e) true = some n ∧ (n : Int) = z) ∨
  (∃ L, ∃ n : Nat, LabelIs i L ∧ L.Z = some n ∧ (n : Int) = z) ∨
  (∃ L e, ∃ n : Nat, LabelIs i L ∧ L.E = some e ∧ N.pt.toZ (.str e) true = some n ∧ (n : Int) = z)

/-- some clue (A, label-A) gives mass number `a` -/
def ClaimsA (i : Input) (a : Int) : Prop :=
  (∃ p, i.A = some p ∧ truncInt p.val = a) ∨ (∃ L, ∃ n : Nat, LabelIs i L ∧ L.A = some n ∧ (n : Int) = a)

/-- some clue (mass, label-mass) gives the float `m` -/
def ClaimsMass (rd : Rat → Rat) (i : Input) (m : Rat) : Prop :=
  (∃ p, i.mass = some p ∧ rd p.val = m) ∨ (∃ L t q, LabelIs i L ∧ L.mass = some t ∧ decVal t = some q ∧ rd q = m)

/-- some clue (real, label ghost marker) gives the real/ghost flag with value `v` -/
def ClaimsReal (i : Input) (v : Rat) : Prop :=
  (∃ p, i.real = some p ∧ p.val = v) ∨ (∃ L, LabelIs i L ∧ (PyNum.bool L.real).val = v)

/-- the tag the label carries: lower-cased user part of a parsed label, or the whole label when it is not a
nucleus specification; `''` otherwise -/
def expectedUser (i : Input) : Bytes :=
  match i.label with
  | none => []
  | some l =>
    if i.speclabel then (match parseLabel l with | some L => lower (L.user.getD []) | none => [])
    else lower l

/-- the table is coherent at its default isotopes: `E + str(to_A(Z))` is a key with the mass of `Z` itself -/
def DefaultCoherent (N : NTables) : Prop :=
  ∀ (z : Int) (sym a : Nat), N.pt.toE (.int z) false = some sym → N.pt.toA (.int z) = some a →
    N.pt.toMass (.str (unpack sym ++ intStr (a : Int))) = N.pt.toMass (.int z)

/-! ## inversion of the later stages -/

theorem labelOf_ok {i : Input} {lab : Option Label} (h : labelOf i = .ok lab) :
    (∀ L, lab = some L → LabelIs i L) ∧ (∀ L, LabelIs i L → lab = some L) := by
  unfold labelOf at h
  unfold LabelIs
  split at h
  · rename_i l hl hs
    cases hp : parseLabel l with
    | none => rw [hp] at h; cases h
    | some L =>
    rw [hp] at h
    have hL := hp
    simp only [ofOpt, Except.map, Except.ok.injEq] at h
    subst h
    constructor
    · intro L' e; cases e; exact ⟨hs, l, hl, hL⟩
    · rintro L' ⟨_, l', hl', hp⟩
      rw [hl] at hl'; cases hl'; rw [hL] at hp; cases hp; rfl
  · rename_i hne
    cases h
    constructor
    · intro L e; cases e
    · rintro L ⟨hs, l, hl, _⟩
      exact absurd hs (by intro hs'; exact hne l hl hs')

theorem offerClue_massNumber {N : NTables} {rd sym mtol a L}
    (h : offerClue N rd sym mtol (.massNumber a) = .ok L) :
    L.a = a ∧ L.aPred = .eq a ∧ tableMass N rd (.str (unpack sym ++ intStr a)) = .ok L.m ∧ L.mPred = .near L.m mtol := by
  unfold offerClue at h
  simp only [bind_ok] at h
  obtain ⟨am, h1, h2⟩ := h
  simp only [pure, Except.pure, Except.ok.injEq] at h2
  subst h2
  exact ⟨rfl, rfl, h1, rfl⟩

theorem offerClue_massValue {N : NTables} {rd sym mtol m L}
    (h : offerClue N rd sym mtol (.massValue m) = .ok L) :
    L.a = massToA N rd sym mtol m ∧ L.aPred = .eq (massToA N rd sym mtol m) ∧ L.m = m ∧ L.mPred = .eq m := by
  unfold offerClue at h
  simp only [pure, Except.pure, Except.ok.injEq] at h
  subst h
  exact ⟨rfl, rfl, rfl, rfl⟩

/-- what `massToA` means: −1, or the rounded mass names a tabulated nuclide not further than `mtol` away -/
theorem massToA_spec (N : NTables) (rd : Rat → Rat) (sym : Nat) (mtol m : Rat) :
    massToA N rd sym mtol m = -1 ∨
    ∃ tm, tableMass N rd (.str (unpack sym ++ intStr (massToA N rd sym mtol m))) = .ok tm ∧
      absR (rd (tm - m)) ≤ mtol ∧ massToA N rd sym mtol m = roundHalfEven m := by
  have key : ∀ r, tableMass N rd (.str (unpack sym ++ intStr (roundHalfEven m))) = r →
      massToA N rd sym mtol m = (match r with
        | .ok tm => if mtol < absR (rd (tm - m)) then -1 else roundHalfEven m
        | .error _ => -1) := by
    intro r hr; subst hr; rfl
  cases h : tableMass N rd (.str (unpack sym ++ intStr (roundHalfEven m))) with
  | error e => left; rw [key _ h]
  | ok tm =>
    have hk := key _ h
    simp only at hk
    by_cases hlt : mtol < absR (rd (tm - m))
    · left; rw [hk, if_pos hlt]
    · right
      rw [if_neg hlt] at hk
      exact ⟨tm, by rw [hk]; exact h, Rat.not_lt.mp hlt, hk⟩

/-- the isotope clues, inverted -/
theorem cluesOf_ok {rd : Rat → Rat} {i : Input} {lab : Option Label} {clues : List Clue}
    (h : cluesOf rd i lab = .ok clues) :
    ∃ lm, (optList (lab.bind (·.mass))).mapM (labelMass rd) = .ok lm ∧
      clues = (optList i.A).map (fun a => Clue.massNumber (truncInt a.val)) ++
              (optList i.mass).map (fun m => Clue.massValue (rd m.val)) ++
              (optList (lab.bind (·.A))).map (fun (a : Nat) => Clue.massNumber (a : Int)) ++
              lm.map Clue.massValue := by
  unfold cluesOf at h
  simp only [bind_ok] at h
  obtain ⟨lm, h1, h2⟩ := h
  simp only [pure, Except.pure, Except.ok.injEq] at h2
  exact ⟨lm, h1, h2.symm⟩

theorem labelMass_ok {rd : Rat → Rat} {t : Bytes} {m : Rat} (h : labelMass rd t = .ok m) :
    ∃ q, decVal t = some q ∧ rd q = m := by
  unfold labelMass at h
  split at h
  · rename_i q hq; exact ⟨q, hq, by cases h; rfl⟩
  · cases h

/-- a mass-number claim is among the isotope clues -/
theorem clue_of_ClaimsA {rd : Rat → Rat} {i : Input} {lab : Option Label} {clues : List Clue} {a : Int}
    (hl : labelOf i = .ok lab) (hc : cluesOf rd i lab = .ok clues) (h : ClaimsA i a) :
    Clue.massNumber a ∈ clues := by
  obtain ⟨lm, _, rfl⟩ := cluesOf_ok hc
  rcases h with ⟨p, hp, rfl⟩ | ⟨L, n, hL, hn, rfl⟩
  · simp [hp, optList]
  · have := (labelOf_ok hl).2 L hL
    subst this
    simp [hn, optList]

/-- a mass claim is among the isotope clues -/
theorem clue_of_ClaimsMass {rd : Rat → Rat} {i : Input} {lab : Option Label} {clues : List Clue} {m : Rat}
    (hl : labelOf i = .ok lab) (hc : cluesOf rd i lab = .ok clues) (h : ClaimsMass rd i m) :
    Clue.massValue m ∈ clues := by
  obtain ⟨lm, hlm, rfl⟩ := cluesOf_ok hc
  rcases h with ⟨p, hp, rfl⟩ | ⟨L, t, q, hL, ht, hq, rfl⟩
  · simp [hp, optList]
  · have := (labelOf_ok hl).2 L hL
    subst this
    simp only [Option.bind_some, ht, optList] at hlm
    simp only [List.mapM_cons, List.mapM_nil, bind_ok, pure, Except.pure, Except.ok.injEq] at hlm
    obtain ⟨m', hm', _, rfl, rfl⟩ := hlm
    obtain ⟨q', hq', rfl⟩ := labelMass_ok hm'
    rw [hq] at hq'; cases hq'
    simp

/-- every element claim produced an offer for exactly that atomic number -/
theorem offer_of_NamesZ {N : NTables} {rd rng i zo lab z} (h : zStage N rd rng i = .ok (zo, lab))
    (hn : NamesZ N i z) : ∃ x ∈ zo, x.z = z := by
  obtain ⟨o1, o2, o3, o4, h1, h2, hl, h3, h4, rfl⟩ := zStage_ok h
  rcases hn with ⟨p, hp, rfl⟩ | ⟨e, n, he, hz, rfl⟩ | ⟨L, n, hL, hn, rfl⟩ | ⟨L, e, n, hL, he, hz, rfl⟩
  · rw [hp] at h1
    rcases mapM_optList_ok h1 with ⟨hx, _⟩ | ⟨a, b, ha, hb, rfl⟩
    · cases hx
    · cases ha; exact ⟨b, by simp, (offerZ_ok hb).1⟩
  · rw [he] at h2
    rcases mapM_optList_ok h2 with ⟨hx, _⟩ | ⟨a, b, ha, hb, rfl⟩
    · cases hx
    · cases ha
      obtain ⟨n', hn', hb'⟩ := offerE_ok hb
      rw [hz] at hn'; cases hn'
      exact ⟨b, by simp, (offerZ_ok hb').1⟩
  · have := (labelOf_ok hl).2 L hL
    subst this
    simp only [Option.bind_some, hn] at h3
    rcases mapM_optList_ok h3 with ⟨hx, _⟩ | ⟨a, b, ha, hb, rfl⟩
    · cases hx
    · cases ha; exact ⟨b, by simp, (offerZ_ok hb).1⟩
  · have := (labelOf_ok hl).2 L hL
    subst this
    simp only [Option.bind_some, he] at h4
    rcases mapM_optList_ok h4 with ⟨hx, _⟩ | ⟨a, b, ha, hb, rfl⟩
    · cases hx
    · cases ha
      obtain ⟨n', hn', hb'⟩ := offerE_ok hb
      rw [hz] at hn'; cases hn'
      exact ⟨b, by simp, (offerZ_ok hb').1⟩

/-- after Z is reconciled all offers are one and the same `offer_atomic_number(Z_final)` -/
theorem offers_eq {N : NTables} {rd rng i zo lab} {Z : Int} (h : zStage N rd rng i = .ok (zo, lab))
    (hf : firstPassing (fun (p c : Int) => c == p) (zo.map (·.z)) (zo.map (·.z)) = some Z) :
    ∃ x0, x0 ∈ zo ∧ offerZ N rd rng i.nonphysical Z = .ok x0 ∧ ∀ x ∈ zo, x = x0 := by
  obtain ⟨hm, hall⟩ := firstPassing_some hf
  obtain ⟨x0, hx0, hz0⟩ := List.mem_map.mp hm
  have hoff := zStage_offers h
  have hx0' : offerZ N rd rng i.nonphysical Z = .ok x0 := by rw [← hz0]; exact hoff x0 hx0
  refine ⟨x0, hx0, hx0', ?_⟩
  intro x hx
  have hxz : x.z = Z := by
    have := hall x.z (List.mem_map.mpr ⟨x, hx, rfl⟩)
    simp at this; exact this.symm
  have := hoff x hx
  rw [hxz, hx0'] at this
  cases this; rfl

/-- **Soundness.**  A successful reconciliation
 1. returns a row of the periodic table;
 2. agrees with every element clue (Z, E, label-Z, label-E);
 3. agrees with every mass-number clue and 4. with every mass clue (argument or label);
 5. has `A = −1`, or `E + str(A)` is a tabulated nuclide whose mass equals the returned mass, or is
    (float-evaluated) not further than `mtol` from it;
 6. has `A = −1` or inside the element's tabulated mass-number range, and a mass inside
    `[fl(mmin − 0.5), fl(mmax + 0.5)]`, unless `nonphysical` (then `A = −1 ∨ A ≥ 1`, `mass > 0.5`);
 7. carries the real/ghost value of every real clue (argument, label marker), `True` when there is none;
 8. carries the lower-cased user tag of the label (`''` without one). -/
theorem reconcile_sound (N : NTables) (rd : Rat → Rat) (rng : Nat → Option Range) (hcoh : DefaultCoherent N)
    (i : Input) (o : Output) (h : reconcileWith N rd rng i = .ok o) :
    N.pt.toE (.int o.Z) false = some o.E ∧
    (∀ z, NamesZ N i z → z = o.Z) ∧
    (∀ a, ClaimsA i a → a = o.A) ∧
    (∀ m, ClaimsMass rd i m → m = o.mass) ∧
    (o.A = -1 ∨ ∃ tm, tableMass N rd (.str (unpack o.E ++ intStr o.A)) = .ok tm ∧
        (tm = o.mass ∨ absR (rd (tm - o.mass)) ≤ i.mtol.val ∨ absR (rd (o.mass - tm)) ≤ i.mtol.val)) ∧
    (∃ r, rng o.E = some r ∧
        (if i.nonphysical then (o.A = -1 ∨ 1 ≤ o.A) ∧ 1/2 < o.mass
         else (o.A = -1 ∨ (r.amin ≤ o.A ∧ o.A ≤ r.amax)) ∧
              rd (r.mmin - 1/2) ≤ o.mass ∧ o.mass ≤ rd (r.mmax + 1/2))) ∧
    (∀ v, ClaimsReal i v → o.real.val = v) ∧
    ((∀ v, ¬ ClaimsReal i v) → o.real = .bool true) ∧
    o.user = expectedUser i := by
  obtain ⟨zo, lab, clues, late, hz, hzf, hE, hc, hlate, hm, ha, hr, hu⟩ := reconcileWith_ok h
  obtain ⟨x0, hx0, hoff0, hall⟩ := offers_eq hz hzf
  obtain ⟨hx0z, hx0E, hx0m, ⟨a0, ha0, hx0A⟩, r, hr0, hap, hmp⟩ := offerZ_ok hoff0
  have hsym : x0.sym = o.E := by rw [hE] at hx0E; exact (Option.some.inj hx0E).symm
  obtain ⟨_, _, _, _, _, _, hlab, _, _, _⟩ := zStage_ok hz
  obtain ⟨hmem_m, hall_m⟩ := firstPassing_some hm
  obtain ⟨hmem_a, hall_a⟩ := firstPassing_some ha
  -- a late offer pins A and the mass
  have late_of_clue : ∀ c ∈ clues, ∃ L ∈ late, offerClue N rd o.E i.mtol.val c = .ok L :=
    mapM_ok_of_mem_left hlate
  have holdsA : ∀ L ∈ late, APred.holds L.aPred o.A = true := fun L hL =>
    hall_a L.aPred (List.mem_append.mpr (Or.inr (List.mem_map.mpr ⟨L, hL, rfl⟩)))
  have holdsM : ∀ L ∈ late, MPred.holds rd L.mPred o.mass = true := fun L hL =>
    hall_m L.mPred (List.mem_append.mpr (Or.inr (List.mem_map.mpr ⟨L, hL, rfl⟩)))
  refine ⟨hE, ?_, ?_, ?_, ?_, ?_, ?_, ?_, ?_⟩
  · -- element clues
    intro z hn
    obtain ⟨x, hx, hxz⟩ := offer_of_NamesZ hz hn
    rw [hall x hx] at hxz; rw [← hxz, hx0z]
  · -- mass-number clues
    intro a hA
    obtain ⟨L, hL, hoL⟩ := late_of_clue _ (clue_of_ClaimsA hlab hc hA)
    obtain ⟨_, hp, _, _⟩ := offerClue_massNumber hoL
    have := holdsA L hL
    rw [hp] at this
    simp [APred.holds] at this
    exact this.symm
  · -- mass clues
    intro m hM
    obtain ⟨L, hL, hoL⟩ := late_of_clue _ (clue_of_ClaimsMass hlab hc hM)
    obtain ⟨_, _, _, hp⟩ := offerClue_massValue hoL
    have := holdsM L hL
    rw [hp] at this
    simp [MPred.holds] at this
    exact this.symm
  · -- nuclide / tolerance
    cases hlt : late with
    | nil =>
      subst hlt
      simp only [List.map_nil, List.append_nil] at hmem_m hmem_a
      obtain ⟨x, hx, hxm⟩ := List.mem_map.mp hmem_m
      obtain ⟨y, hy, hya⟩ := List.mem_map.mp hmem_a
      rw [hall x hx] at hxm; rw [hall y hy] at hya
      right
      refine ⟨o.mass, ?_, Or.inl rfl⟩
      have hk := hcoh o.Z o.E a0 hE ha0
      unfold tableMass at hx0m ⊢
      rw [← hya, hx0A, hk, ← hxm]
      exact hx0m
    | cons L rest =>
      have hL : L ∈ late := by rw [hlt]; exact List.mem_cons_self
      obtain ⟨c, _, hoL⟩ := mapM_ok_of_mem_right hlate L hL
      cases c with
      | massNumber a =>
        obtain ⟨_, hp, htm, hq⟩ := offerClue_massNumber hoL
        have h1 := holdsA L hL
        have h2 := holdsM L hL
        rw [hp] at h1; rw [hq] at h2
        simp [APred.holds] at h1
        simp [MPred.holds] at h2
        right
        exact ⟨L.m, by rw [h1]; exact htm, Or.inr (Or.inr h2)⟩
      | massValue m =>
        obtain ⟨_, hp, _, hq⟩ := offerClue_massValue hoL
        have h1 := holdsA L hL
        have h2 := holdsM L hL
        rw [hp] at h1; rw [hq] at h2
        simp [APred.holds] at h1
        simp [MPred.holds] at h2
        rcases massToA_spec N rd o.E i.mtol.val m with hneg | ⟨tm, htm, hle, _⟩
        · left; rw [h1]; exact hneg
        · right
          exact ⟨tm, by rw [h1]; exact htm, Or.inr (Or.inl (by rw [h2]; exact hle))⟩
  · -- physical range
    refine ⟨r, by rw [← hsym]; exact hr0, ?_⟩
    have h1 := hall_a x0.aPred (List.mem_append.mpr (Or.inl (List.mem_map.mpr ⟨x0, hx0, rfl⟩)))
    have h2 := hall_m x0.mPred (List.mem_append.mpr (Or.inl (List.mem_map.mpr ⟨x0, hx0, rfl⟩)))
    rw [hap] at h1; rw [hmp] at h2
    cases hnp : i.nonphysical with
    | true =>
      rw [hnp] at h1 h2
      simp [APred.holds] at h1
      simp [MPred.holds] at h2
      simp only [if_true]
      exact ⟨h1, h2⟩
    | false =>
      rw [hnp] at h1 h2
      simp [APred.holds] at h1
      simp [MPred.holds] at h2
      simp only [Bool.false_eq_true, if_false]
      exact ⟨h1, h2⟩
  · -- real clues
    intro v hv
    obtain ⟨_, hallr⟩ := firstPassing_some hr
    rcases hv with ⟨p, hp, rfl⟩ | ⟨L, hL, rfl⟩
    · have := hallr p (by simp [realClues, hp, optList])
      simpa using this
    · have hl := (labelOf_ok hlab).2 L hL
      subst hl
      have := hallr (PyNum.bool L.real) (by simp [realClues, optList])
      simpa using this
  · -- no real clue: True
    intro hnone
    obtain ⟨hmemr, _⟩ := firstPassing_some hr
    have hrc : realClues i lab = [] := by
      unfold realClues
      cases hir : i.real with
      | some p => exact absurd (Or.inl ⟨p, hir, rfl⟩) (hnone p.val)
      | none =>
        cases hlb : lab with
        | none => simp [optList]
        | some L =>
          exact absurd (Or.inr ⟨L, (labelOf_ok hlab).1 L hlb, rfl⟩) (hnone (PyNum.bool L.real).val)
    rw [hrc] at hmemr
    simpa using hmemr
  · -- user tag
    obtain ⟨hmemu, hallu⟩ := firstPassing_some hu
    have key : ∀ u, userClues i lab = [u] → o.user = u := by
      intro u hu'
      have := hallu u (by rw [hu']; simp)
      simpa using this
    have key0 : userClues i lab = [] → o.user = [] := by
      intro hu'
      rw [hu'] at hmemu
      simpa using hmemu
    unfold expectedUser
    unfold userClues at key key0
    unfold labelOf at hlab
    cases hl : i.label with
    | none => simp only [hl] at key0 ⊢; exact key0 trivial
    | some l =>
      simp only [hl] at key key0 hlab ⊢
      cases hs : i.speclabel with
      | false => simp only [hs, Bool.false_eq_true, if_false] at key ⊢; exact key _ rfl
      | true =>
        simp only [hs, if_true] at key key0 hlab ⊢
        cases hp : parseLabel l with
        | none => rw [hp] at hlab; cases hlab
        | some L =>
          rw [hp] at hlab
          simp only [ofOpt, Except.map, Except.ok.injEq] at hlab
          subst hlab
          simp only [Option.bind_some] at key key0 ⊢
          cases hu' : L.user with
          | none => simp only [hu', optList, List.map_nil, Option.getD_none] at key0 ⊢; rw [key0 trivial]; rfl
          | some u => simp only [hu', optList, List.map_cons, List.map_nil, Option.getD_some] at key ⊢; exact key _ rfl

/-- **Default isotope.**  With no mass-number and no mass clue (argument or label) a successful
reconciliation returns the table's default isotope of the element: `(to_A(Z), float(to_mass(Z)))`. -/
theorem reconcile_default (N : NTables) (rd : Rat → Rat) (rng : Nat → Option Range)
    (i : Input) (o : Output) (h : reconcileWith N rd rng i = .ok o)
    (hA : ∀ a, ¬ ClaimsA i a) (hM : ∀ m, ¬ ClaimsMass rd i m) :
    (∃ a : Nat, N.pt.toA (.int o.Z) = some a ∧ o.A = (a : Int)) ∧ tableMass N rd (.int o.Z) = .ok o.mass := by
  obtain ⟨zo, lab, clues, late, hz, hzf, hE, hc, hlate, hm, ha, _, _⟩ := reconcileWith_ok h
  obtain ⟨x0, hx0, hoff0, hall⟩ := offers_eq hz hzf
  obtain ⟨_, _, hx0m, ⟨a0, ha0, hx0A⟩, _⟩ := offerZ_ok hoff0
  obtain ⟨_, _, _, _, _, _, hlab, _, _, _⟩ := zStage_ok hz
  have hclues : clues = [] := by
    obtain ⟨lm, hlm, rfl⟩ := cluesOf_ok hc
    have e1 : i.A = none := by
      cases hi : i.A with
      | none => rfl
      | some p => exact absurd (Or.inl ⟨p, hi, rfl⟩) (hA _)
    have e2 : i.mass = none := by
      cases hi : i.mass with
      | none => rfl
      | some p => exact absurd (Or.inl ⟨p, hi, rfl⟩) (hM _)
    have e3 : lab.bind (·.A) = none := by
      cases hl : lab with
      | none => rfl
      | some L =>
        cases hLA : L.A with
        | none => simp [hLA]
        | some n => exact absurd (Or.inr ⟨L, n, (labelOf_ok hlab).1 L hl, hLA, rfl⟩) (hA _)
    have e4 : lm = [] := by
      cases hl : lab with
      | none => rw [hl] at hlm; simp [optList, pure, Except.pure] at hlm; exact hlm
      | some L =>
        cases hLm : L.mass with
        | none => rw [hl] at hlm; simp [optList, hLm, pure, Except.pure] at hlm; exact hlm
        | some t =>
          rw [hl] at hlm
          simp only [Option.bind_some, hLm, optList, List.mapM_cons, List.mapM_nil, bind_ok, pure,
            Except.pure, Except.ok.injEq] at hlm
          obtain ⟨m', hm', _, _, _⟩ := hlm
          obtain ⟨q, hq, hrd⟩ := labelMass_ok hm'
          exact absurd (Or.inr ⟨L, t, q, (labelOf_ok hlab).1 L hl, hLm, hq, hrd⟩) (hM _)
    simp [e1, e2, e3, e4, optList]
  have hl0 : late = [] := (mapM_ok_nil_iff hlate).mpr hclues
  subst hl0
  obtain ⟨hmem_m, _⟩ := firstPassing_some hm
  obtain ⟨hmem_a, _⟩ := firstPassing_some ha
  simp only [List.map_nil, List.append_nil] at hmem_m hmem_a
  obtain ⟨x, hx, hxm⟩ := List.mem_map.mp hmem_m
  obtain ⟨y, hy, hya⟩ := List.mem_map.mp hmem_a
  rw [hall x hx] at hxm; rw [hall y hy] at hya
  exact ⟨⟨a0, ha0, by rw [← hya, hx0A]⟩, by rw [← hxm]; exact hx0m⟩

/-- **A supplied mass number is honoured.**  If a mass number `a` was supplied (argument or
label) the result has `A = a`, `E + str(a)` is a tabulated nuclide, and the returned mass is
(float-evaluated) inside its window (`≤ mtol`). -/
theorem supplied_A_window (N : NTables) (rd : Rat → Rat) (rng : Nat → Option Range)
    (i : Input) (o : Output) (h : reconcileWith N rd rng i = .ok o) (a : Int) (hA : ClaimsA i a) :
    o.A = a ∧ ∃ tm, tableMass N rd (.str (unpack o.E ++ intStr a)) = .ok tm ∧ absR (rd (o.mass - tm)) ≤ i.mtol.val := by
  obtain ⟨zo, lab, clues, late, hz, hzf, hE, hc, hlate, hm, ha, _, _⟩ := reconcileWith_ok h
  obtain ⟨_, _, _, _, _, _, hlab, _, _, _⟩ := zStage_ok hz
  obtain ⟨_, hall_m⟩ := firstPassing_some hm
  obtain ⟨_, hall_a⟩ := firstPassing_some ha
  obtain ⟨L, hL, hoL⟩ := mapM_ok_of_mem_left hlate _ (clue_of_ClaimsA hlab hc hA)
  obtain ⟨_, hp, htm, hq⟩ := offerClue_massNumber hoL
  have h1 := hall_a L.aPred (List.mem_append.mpr (Or.inr (List.mem_map.mpr ⟨L, hL, rfl⟩)))
  have h2 := hall_m L.mPred (List.mem_append.mpr (Or.inr (List.mem_map.mpr ⟨L, hL, rfl⟩)))
  rw [hp] at h1; rw [hq] at h2
  simp [APred.holds] at h1
  simp [MPred.holds] at h2
  exact ⟨h1, L.m, htm, h2⟩

/-! ## contradictory clues are refused -/

theorem not_ok_is_error {α} (x : Except Err α) (h : ∀ a, x ≠ .ok a) : ∃ e, x = .error e := by
  cases x with
  | error e => exact ⟨e, rfl⟩
  | ok a => exact absurd rfl (h a)

/-- two element clues (any of Z, E, label-Z, label-E) naming different atomic numbers: error -/
theorem conflict_element (N : NTables) (rd : Rat → Rat) (rng : Nat → Option Range) (hcoh : DefaultCoherent N)
    (i : Input) (z₁ z₂ : Int) (h₁ : NamesZ N i z₁) (h₂ : NamesZ N i z₂) (hne : z₁ ≠ z₂) :
    ∃ e, reconcileWith N rd rng i = .error e := by
  apply not_ok_is_error
  intro o ho
  have hs := (reconcile_sound N rd rng hcoh i o ho).2.1
  exact hne ((hs z₁ h₁).trans (hs z₂ h₂).symm)

/-- sharper: when every element clue individually names an element (first stage succeeds) but two of
them differ, the error is the ValidationError for "atomic number" -/
theorem conflict_element_validation (N : NTables) (rd : Rat → Rat) (rng : Nat → Option Range)
    (i : Input) (zo : List ZOffer) (lab : Option Label) (hz : zStage N rd rng i = .ok (zo, lab))
    (x y : ZOffer) (hx : x ∈ zo) (hy : y ∈ zo) (hne : x.z ≠ y.z) :
    reconcileWith N rd rng i = .error (.validation .atomicNumber) := by
  have hnone : firstPassing (fun (p c : Int) => c == p) (zo.map (·.z)) (zo.map (·.z)) = none := by
    cases hf : firstPassing (fun (p c : Int) => c == p) (zo.map (·.z)) (zo.map (·.z)) with
    | none => rfl
    | some Z =>
      obtain ⟨_, hall⟩ := firstPassing_some hf
      have e1 := hall x.z (List.mem_map.mpr ⟨x, hx, rfl⟩)
      have e2 := hall y.z (List.mem_map.mpr ⟨y, hy, rfl⟩)
      simp at e1 e2
      exact absurd (e1.symm.trans e2) hne
  unfold reconcileWith
  simp only [hz, bind, Except.bind, hnone, ofOpt]

/-- two mass-number clues (argument, label) with different values: error -/
theorem conflict_mass_number (N : NTables) (rd : Rat → Rat) (rng : Nat → Option Range) (hcoh : DefaultCoherent N)
    (i : Input) (a₁ a₂ : Int) (h₁ : ClaimsA i a₁) (h₂ : ClaimsA i a₂) (hne : a₁ ≠ a₂) :
    ∃ e, reconcileWith N rd rng i = .error e := by
  apply not_ok_is_error
  intro o ho
  have hs := (reconcile_sound N rd rng hcoh i o ho).2.2.1
  exact hne ((hs a₁ h₁).trans (hs a₂ h₂).symm)

/-- two mass clues (argument, label) with different float values: error -/
theorem conflict_mass (N : NTables) (rd : Rat → Rat) (rng : Nat → Option Range) (hcoh : DefaultCoherent N)
    (i : Input) (m₁ m₂ : Rat) (h₁ : ClaimsMass rd i m₁) (h₂ : ClaimsMass rd i m₂) (hne : m₁ ≠ m₂) :
    ∃ e, reconcileWith N rd rng i = .error e := by
  apply not_ok_is_error
  intro o ho
  have hs := (reconcile_sound N rd rng hcoh i o ho).2.2.2.1
  exact hne ((hs m₁ h₁).trans (hs m₂ h₂).symm)

/-- a mass-number clue `a` and a mass clue `m` for the element named `z`: unless `E + str(a)` is tabulated
and `m` is (float-evaluated) inside its window (`≤ mtol`), error -/
theorem conflict_mass_number_vs_mass (N : NTables) (rd : Rat → Rat) (rng : Nat → Option Range) (hcoh : DefaultCoherent N)
    (i : Input) (z a : Int) (m : Rat) (sym : Nat) (hz : NamesZ N i z) (hsym : N.pt.toE (.int z) false = some sym)
    (hA : ClaimsA i a) (hM : ClaimsMass rd i m)
    (hout : ∀ tm, tableMass N rd (.str (unpack sym ++ intStr a)) = .ok tm → ¬ absR (rd (m - tm)) ≤ i.mtol.val) :
    ∃ e, reconcileWith N rd rng i = .error e := by
  apply not_ok_is_error
  intro o ho
  obtain ⟨hE, hZ, _, hMs, _⟩ := reconcile_sound N rd rng hcoh i o ho
  obtain ⟨_, tm, htm, hlt⟩ := supplied_A_window N rd rng i o ho a hA
  have e1 := hZ z hz
  subst e1
  rw [hE] at hsym; cases hsym
  rw [← hMs m hM] at hlt
  exact hout tm htm hlt

/-- a real argument and a label ghost marker (or two of them) with different values: error -/
theorem conflict_real (N : NTables) (rd : Rat → Rat) (rng : Nat → Option Range) (hcoh : DefaultCoherent N)
    (i : Input) (v₁ v₂ : Rat) (h₁ : ClaimsReal i v₁) (h₂ : ClaimsReal i v₂) (hne : v₁ ≠ v₂) :
    ∃ e, reconcileWith N rd rng i = .error e := by
  apply not_ok_is_error
  intro o ho
  have hs := (reconcile_sound N rd rng hcoh i o ho).2.2.2.2.2.2.1
  exact hne ((hs v₁ h₁).symm.trans (hs v₂ h₂))

/-- an unparseable label offered as a nucleus specification: the ValidationError "not parseable"
(when the Z and E arguments, which are consulted first, name elements) or their NotAnElement -/
theorem unparseable_label (N : NTables) (rd : Rat → Rat) (rng : Nat → Option Range)
    (i : Input) (l : Bytes) (hl : i.label = some l) (hs : i.speclabel = true) (hp : parseLabel l = none) :
    ∃ e, reconcileWith N rd rng i = .error e := by
  apply not_ok_is_error
  intro o ho
  obtain ⟨zo, lab, _, _, hz, _⟩ := reconcileWith_ok ho
  obtain ⟨_, _, _, _, _, _, hlab, _⟩ := zStage_ok hz
  unfold labelOf at hlab
  simp only [hl, hs, hp, ofOpt, Except.map] at hlab
  cases hlab

end QcelVerif.Nucleus
