import QcelVerif.Lemmas.C07Label
import QcelVerif.Props.C07E2E
import QcelVerif.Props.C06Elements
/-!
# C07 — the written nucleus token ALONE re-derives the atom (`hlab` of `Props/C07E2E.lean` discharged)

`read_write_validated_*_partial` (Props/C07E2E.lean) prove `Molecule → text → Molecule` up to the hypothesis `hlab`: "each
written atom token, handed to `reconcile_nucleus` as a label-only clue with `speclabel=True`, is answered with the record's
atom".  This file proves it, for every shipped element and every conforming user label:

 (i)  `matchNucleus_written` — C06's BACKTRACKING matcher `Nucleus.matchNucleus` (the model of the compiled NUCLEUS regex,
      greedy first, alternatives in source order) decodes the three token shapes the writers print — `{elem}{elbl}`,
      `@{elem}{elbl}`, `Gh({elem}{elbl})` — into exactly (ghost marker, no `A`, `E = elem`, `user = elbl`, no `Z`, no mass),
      for ALL 1-3 letter symbols (`SymOk`) and ALL grammar-conformant labels (`LblOk`: the predicate inside `AtomOk` /
      `RecOk` / `XyzOk`, i.e. the "labels conform" hypothesis of every C07 round-trip theorem) — by structural reasoning
      on the alternatives, no size bound.  `written_token_decoders_agree`: M1's hand-written recogniser and C06's matcher
      decode the token alike.
 (ii) `label_only_eq_symbol_clue` (any table) and `written_token_reconciles` (shipped table, `rd64`): the label-only clue is
      answered like the symbol clue `E=elem`, with the token's ghost flag and the lower-cased tag; for an atom that IS the
      default isotope of a shipped element (`DefaultIso`), with a conforming lower-case label, the answer is the atom
      itself.  `written_token_answer_is_default`: CONVERSELY whatever is answered to a written token is a default isotope
      (any table) — no text format carries a mass or a mass number (`writeMol_ignores_isotopes`), so an isotope-substituted
      atom is NOT carried and `Carried` is exactly the right hypothesis ("format-carriability").
      `hlab_of_carried` / `hlab_xyz_of_carried`: the hypothesis `hlab` itself, for any number of atoms.

PROPERTY-THEOREMS: matchNucleus_written parseLabel_nucPsi4 parseLabel_nucXyz written_token_decoders_agree
  label_only_eq_symbol_clue shipped_symbols_ok written_token_reconciles written_xyz_token_reconciles
  written_token_answer_is_default isotope_not_carried writeMol_ignores_isotopes validated_labels_lower
  hlab_of_carried hlab_xyz_of_carried
-/
namespace QcelVerif.TextToMol
open QcelVerif QcelVerif.MolText QcelVerif.FromArrays QcelVerif.PStr
open QcelVerif.Nucleus (SymOkB LblOkB userOf writtenGroups symLabel labelOnly symbolOnly shippedN rd64)

/-! ## characters ↔ bytes -/

/-- a text token as the byte list `reconcile_nucleus`'s model sees (`toInput`: `ofString`) -/
def bytesOf (s : Str) : Bytes := s.map Char.toNat

theorem ofString_ofList (s : Str) : ofString (String.ofList s) = bytesOf s := by
  simp [ofString, bytesOf, String.toList_ofList]

theorem bytesOf_toList (s : String) : bytesOf s.toList = ofString s := rfl

theorem isAlpha_toNat (c : Char) : PStr.isAlpha c.toNat = c.isAlpha := by
  simp only [PStr.isAlpha, PStr.isUpper, PStr.isLower, Char.isAlpha, Char.isUpper, Char.isLower, Char.toNat,
    UInt32.le_iff_toNat_le, ge_iff_le, Bool.decide_and]
  rfl

theorem isDigit_toNat (c : Char) : PStr.isDigit c.toNat = c.isDigit := by
  simp only [PStr.isDigit, Char.isDigit, Char.toNat, UInt32.le_iff_toNat_le, ge_iff_le]
  rfl

theorem isWord_toNat (c : Char) : Nucleus.isWord c.toNat = MolText.isWord c := by
  have h95 : (c.toNat == 95) = (c == '_') := by
    by_cases h : c = '_'
    · subst h; rfl
    · have : c.toNat ≠ 95 := by
        intro h'
        apply h
        apply Char.ext
        apply UInt32.toNat_inj.mp
        exact h'
      rw [beq_eq_false_iff_ne.mpr this, beq_eq_false_iff_ne.mpr h]
  simp only [Nucleus.isWord, MolText.isWord, Char.isAlphanum, isAlpha_toNat, isDigit_toNat, h95]

theorem symOkB_of (s : Str) (h : SymOk s) : SymOkB (bytesOf s) := by
  obtain ⟨hne, hlen, hal⟩ := h
  refine ⟨?_, by simpa [bytesOf] using hlen, ?_⟩
  · intro h0; exact hne (List.map_eq_nil_iff.mp h0)
  · intro c hc
    obtain ⟨x, hx, rfl⟩ := List.mem_map.mp hc
    rw [isAlpha_toNat]; exact hal x hx

theorem lblOkB_of (l : Str) (h : LblOk l) : LblOkB (bytesOf l) := by
  rcases h with rfl | ⟨w, rfl, hne, hw⟩ | ⟨hne, hd⟩
  · exact Or.inl rfl
  · refine Or.inr (Or.inl ⟨bytesOf w, rfl, ?_, ?_⟩)
    · intro h0; exact hne (List.map_eq_nil_iff.mp h0)
    · intro c hc
      obtain ⟨x, hx, rfl⟩ := List.mem_map.mp hc
      rw [isWord_toNat]; exact hw x hx
  · refine Or.inr (Or.inr ⟨?_, ?_⟩)
    · intro h0; exact hne (List.map_eq_nil_iff.mp h0)
    · intro c hc
      obtain ⟨x, hx, rfl⟩ := List.mem_map.mp hc
      rw [isDigit_toNat]; exact hd x hx

theorem bytesOf_append (a b : Str) : bytesOf (a ++ b) = bytesOf a ++ bytesOf b := by simp [bytesOf]

/-! ## (i) C06's matcher on the written tokens -/

/-- **(i) The backtracking NUCLEUS matcher decodes what the writers print.**  For every 1-3 letter symbol and every
grammar-conformant user label (`SymOk`, `LblOk`: the conformance predicates of `AtomOk`/`RecOk`/`XyzOk`), the FIRST complete
match of C06's model of the compiled regex on `{elem}{elbl}`, `@{elem}{elbl}` and `Gh({elem}{elbl})` has the capture groups
(gh1, gh2 as written; `A` absent; `E = elem`; `user1 = elbl`, absent when empty; `Z`, `user2`, `mass` absent). -/
theorem matchNucleus_written (sym lbl : Str) (hs : SymOk sym) (hl : LblOk lbl) :
    Nucleus.matchNucleus (bytesOf (sym ++ lbl)) = some (writtenGroups false false (bytesOf sym) (bytesOf lbl)) ∧
    Nucleus.matchNucleus (bytesOf ('@' :: (sym ++ lbl))) = some (writtenGroups true false (bytesOf sym) (bytesOf lbl)) ∧
    Nucleus.matchNucleus (bytesOf ("Gh(".toList ++ sym ++ lbl ++ [')'])) =
      some (writtenGroups false true (bytesOf sym) (bytesOf lbl)) := by
  have hsB := symOkB_of sym hs
  have hlB := lblOkB_of lbl hl
  refine ⟨?_, ?_, ?_⟩
  · rw [bytesOf_append]; exact Nucleus.matchNucleus_real _ _ hsB hlB
  · have : bytesOf ('@' :: (sym ++ lbl)) = 64 :: (bytesOf sym ++ bytesOf lbl) := by
      simp [bytesOf]
    rw [this]; exact Nucleus.matchNucleus_at _ _ hsB hlB
  · have : bytesOf ("Gh(".toList ++ sym ++ lbl ++ [')']) = 71 :: 104 :: 40 :: (bytesOf sym ++ (bytesOf lbl ++ [41])) := by
      simp [bytesOf]
    rw [this]; exact Nucleus.matchNucleus_gh _ _ hsB hlB

/-- the psi4 token of an atom parses (C06 `parse_nucleus_label`) to its symbol, real/ghost flag and user label -/
theorem parseLabel_nucPsi4 (a : Atom) (hs : SymOk a.sym) (hl : LblOk a.lbl) :
    Nucleus.parseLabel (bytesOf (nucPsi4 a)) = some (symLabel (bytesOf a.sym) a.real (userOf (bytesOf a.lbl))) := by
  obtain ⟨h1, _, h3⟩ := matchNucleus_written a.sym a.lbl hs hl
  cases hr : a.real with
  | true => simp only [nucPsi4, hr, if_true]; exact Nucleus.parseLabel_written _ _ _ _ _ h1
  | false =>
    simp only [nucPsi4, hr, Bool.false_eq_true, if_false]
    exact Nucleus.parseLabel_written _ _ _ _ _ h3

/-- the xyz token (`{elem}` / `@{elem}`): symbol and real/ghost flag, no user label -/
theorem parseLabel_nucXyz (a : Atom) (hs : SymOk a.sym) :
    Nucleus.parseLabel (bytesOf (nucXyz a)) = some (symLabel (bytesOf a.sym) a.real none) := by
  obtain ⟨h1, h2, _⟩ := matchNucleus_written a.sym [] hs (Or.inl rfl)
  simp only [List.append_nil] at h1 h2
  cases hr : a.real with
  | true => simp only [nucXyz, hr, if_true]; exact Nucleus.parseLabel_written _ _ _ _ _ h1
  | false =>
    simp only [nucXyz, hr, Bool.false_eq_true, if_false]
    exact Nucleus.parseLabel_written _ _ _ _ _ h2

/-- **The two decoders agree on written tokens.**  M1's hand-written recogniser (`MolText.parseNucleus`, what the text layer
uses to CLASSIFY a line) and C06's backtracking matcher (`Nucleus.parseLabel`, what `reconcile_nucleus` uses to READ the
token) decode the psi4 token to the same ghost flag, symbol and user label. -/
theorem written_token_decoders_agree (a : Atom) (hs : SymOk a.sym) (hl : LblOk a.lbl) :
    (parseNucleus (nucPsi4 a)).map decoded = some (!a.real, a.sym, a.lbl) ∧
    (Nucleus.parseLabel (bytesOf (nucPsi4 a))).map (fun L => (!L.real, L.E, L.user.getD [])) =
      some (!a.real, some (bytesOf a.sym), bytesOf a.lbl) := by
  obtain ⟨h1, _, h3⟩ := nucleus_roundtrip a.sym a.lbl hs hl
  constructor
  · cases hr : a.real with
    | true => simp only [nucPsi4, hr, if_true]; exact h1
    | false => simp only [nucPsi4, hr, Bool.false_eq_true, if_false]; exact h3
  · rw [parseLabel_nucPsi4 a hs hl]
    simp only [Option.map_some, symLabel, userOf]
    split <;> simp_all

/-- non-vacuity (tests): a labelled ghost atom, digits label, three-letter symbol -/
example : Nucleus.matchNucleus (bytesOf "Gh(He_a1)".toList) =
    some (writtenGroups false true (bytesOf "He".toList) (bytesOf "_a1".toList)) :=
  (matchNucleus_written "He".toList "_a1".toList ⟨by decide, by decide, by decide⟩
    (Or.inr (Or.inl ⟨"a1".toList, rfl, by decide, by decide⟩))).2.2
example : Nucleus.matchNucleus (bytesOf "Uue12".toList) =
    some (writtenGroups false false (bytesOf "Uue".toList) (bytesOf "12".toList)) :=
  (matchNucleus_written "Uue".toList "12".toList ⟨by decide, by decide, by decide⟩
    (Or.inr (Or.inr ⟨by decide, by decide⟩))).1
/-- test [decide]: evaluation of the matcher itself agrees -/
example : Nucleus.matchNucleus (bytesOf "Gh(He_a1)".toList) =
    some (writtenGroups false true (bytesOf "He".toList) (bytesOf "_a1".toList)) := by decide

/-! ## (ii) label-only clue ≡ symbol clue -/

/-- the clue `from_arrays` builds for a text atom, through the C04→C06 adapter -/
theorem toInput_labelClue (st : NucSettings) (hst : st.speclabel = true) (tok : Str) :
    toInput st (labelClue tok) = labelOnly (bytesOf tok) st.nonphysical (.float st.mtol) := by
  simp [toInput, labelClue, labelOnly, hst, ofString_ofList]

/-- **(ii), any table.**  If `reconcile_nucleus(E=elem)` — under ANY tolerance — answers `o`, the psi4 token of an atom with
that symbol, alone, as a label consulted as nucleus specification, is answered with `o`'s `(A, Z, E, mass)`, the atom's
real/ghost flag and the lower-cased label. -/
theorem label_only_eq_symbol_clue (N : Nucleus.NTables) (rd : Rat → Rat) (rng : Nat → Option Nucleus.Range)
    (st : NucSettings) (hst : st.speclabel = true) (a : Atom) (hs : SymOk a.sym) (hl : LblOk a.lbl)
    (mtol' : Nucleus.PyNum) (o : Nucleus.Output)
    (h : Nucleus.reconcileWith N rd rng (symbolOnly (bytesOf a.sym) st.nonphysical mtol') = .ok o) :
    reconOfC06With N rd rng st (labelClue (nucPsi4 a)) =
      .ok (toNuc { o with real := .bool a.real, user := PStr.lower (bytesOf a.lbl) }) := by
  have hp := parseLabel_nucPsi4 a hs hl
  have := Nucleus.label_only_of_symbol_only N rd rng _ _ _ _ st.nonphysical (.float st.mtol) mtol' o hp h
  unfold reconOfC06With
  rw [toInput_labelClue st hst, this]
  have hu : (userOf (bytesOf a.lbl)).getD [] = bytesOf a.lbl := by
    unfold userOf; split <;> simp_all
  rw [hu]

/-! ### the shipped table -/

def symOkBool (s : Bytes) : Bool := !s.isEmpty && decide (s.length ≤ 3) && s.all PStr.isAlpha

theorem symOkBool_iff (s : Bytes) : symOkBool s = true → SymOkB s := by
  intro h
  simp only [symOkBool, Bool.and_eq_true, Bool.not_eq_true', decide_eq_true_eq, List.all_eq_true] at h
  refine ⟨?_, h.1.2, h.2⟩
  intro h0; rw [h0] at h; simp at h

set_option maxRecDepth 100000 in
/-- **Every shipped element symbol is 1-3 ASCII letters** [decide +kernel over the generated table] — so the symbol part of
(i) covers the whole periodic table as shipped. -/
theorem shipped_symbols_ok : Gen.PT.elements.all (fun r => symOkBool (unpack r.2.1)) = true := by decide +kernel

/-- `u` is the default isotope of a shipped element: `(to_A(Z), Z, symbol, float(to_mass(Z)))` of an element row, the mass
under `rd64` (what every atom of a molecule built without isotope information is: `reconcile_default`) -/
def DefaultIso (u : FromArrays.Nuc) : Prop :=
  ∃ row ∈ Gen.PT.elements, ∃ A : Nat, u.Z = (row.1 : Int) ∧ u.E = toStr (unpack row.2.1) ∧
    shippedN.pt.toA (.int row.1) = some A ∧ u.A = (A : Int) ∧
    Nucleus.tableMass shippedN rd64 (.int row.1) = .ok u.mass

/-- the user label is grammar-conformant (the `LblOk` of `AtomOk`) and lower-case (as every validated record's is:
`validated_labels_lower` below) -/
def LabelCarried (l : String) : Prop := LblOk l.toList ∧ PStr.lower (ofString l) = ofString l

/-- **Format-carriability of one atom**: the text-level atom `a` the writers print for the record atom `u` — symbol, real
flag and label as stored — where `u` is a default isotope with a conforming label.  Nothing else about `u` reaches the text. -/
def Carried (a : Atom) (u : FromArrays.Nuc) : Prop :=
  a.sym = u.E.toList ∧ a.real = u.real ∧ a.lbl = u.label.toList ∧ DefaultIso u ∧ LabelCarried u.label

theorem toStr_ofString (s : String) : toStr (ofString s) = s := by
  unfold toStr ofString
  rw [List.map_map]
  have : (Char.ofNat ∘ Char.toNat) = id := by
    funext c; simp
  rw [this, List.map_id, String.ofList_toList]

theorem elementDefault_symbol {row : Nat × Nat × Nat} (hrow : row ∈ Gen.PT.elements) {A : Nat} {m : Rat}
    (hA : shippedN.pt.toA (.int row.1) = some A) (hm : Nucleus.tableMass shippedN rd64 (.int row.1) = .ok m) :
    Nucleus.reconcileWith shippedN rd64 (Nucleus.elRange shippedN rd64)
      (symbolOnly (unpack row.2.1) false (.float (1/1000))) =
      .ok { A := A, Z := row.1, E := row.2.1, mass := m, real := .bool true, user := [] } := by
  have hok := (List.all_eq_true.mp Nucleus.shipped_elements_default) row hrow
  unfold Nucleus.elementDefaultOk at hok
  simp only [hA, hm, Bool.and_eq_true] at hok
  obtain ⟨⟨_, h2⟩, _⟩ := hok
  have e : Nucleus.reconcile shippedN rd64
      { A := none, Z := none, E := some (unpack row.2.1), mass := none, real := none, label := none, speclabel := true,
        nonphysical := false, mtol := .float (1/1000) } =
      Nucleus.reconcileWith shippedN rd64 (Nucleus.elRange shippedN rd64) (symbolOnly (unpack row.2.1) false (.float (1/1000))) := rfl
  rw [e] at h2
  split at h2
  · rename_i o ho
    rw [ho, beq_iff_eq.mp h2]
  · cases h2

/-- **(ii), shipped table, `rd64`: the written token alone re-derives a carried atom.**  For every atom that is the default
isotope of a shipped element with a conforming lower-case label — real or ghost — `reconcile_nucleus(label=token,
speclabel=True)` under `from_string`'s settings returns exactly the record's `(A, Z, E, mass, real, label)`. -/
theorem written_token_reconciles (a : Atom) (u : FromArrays.Nuc) (h : Carried a u) :
    reconOfC06 rd64 textSettings (labelClue (nucPsi4 a)) = .ok u := by
  obtain ⟨hsym, hreal, hlbl, ⟨row, hrow, A, hZ, hE, hA, huA, hm⟩, hlo, hlow⟩ := h
  have hsB : SymOkB (unpack row.2.1) := symOkBool_iff _ ((List.all_eq_true.mp shipped_symbols_ok) row hrow)
  have hbs : bytesOf a.sym = unpack row.2.1 := by
    rw [hsym, bytesOf_toList, hE]; exact ofString_toStr _ (unpack_valid _)
  have hs : SymOk a.sym := by
    obtain ⟨h1, h2, h3⟩ := hsB
    rw [← hbs] at h1 h2 h3
    refine ⟨?_, by simpa [bytesOf] using h2, ?_⟩
    · intro h0; rw [h0] at h1; exact h1 rfl
    · intro c hc
      rw [← isAlpha_toNat]; exact h3 _ (List.mem_map.mpr ⟨c, hc, rfl⟩)
  have hl : LblOk a.lbl := by rw [hlbl]; exact hlo
  have hdef := elementDefault_symbol hrow hA hm
  rw [← hbs] at hdef
  have := label_only_eq_symbol_clue shippedN rd64 (Nucleus.elRange shippedN rd64) textSettings rfl a hs hl _ _ hdef
  unfold reconOfC06
  rw [this]
  congr 1
  obtain ⟨uA, uZ, uE, um, ur, ul⟩ := u
  simp only at hsym hreal hlbl hZ hE huA hlow
  simp only [toNuc, realOf_bool, hlbl, bytesOf_toList, hlow, toStr_ofString, FromArrays.Nuc.mk.injEq]
  exact ⟨huA.symm, hZ.symm, hE.symm, trivial, hreal, trivial⟩

/-- the same for the xyz token (`{elem}` / `@{elem}`; the xyz writers print no user label): an atom WITHOUT user label -/
theorem written_xyz_token_reconciles (a : Atom) (u : FromArrays.Nuc) (h : Carried a u) (hnl : u.label = "") :
    reconOfC06 rd64 textSettings (labelClue (nucXyz a)) = .ok u := by
  have hl : a.lbl = [] := by rw [h.2.2.1, hnl]; rfl
  obtain ⟨hsym, hreal, hlbl, ⟨row, hrow, A, hZ, hE, hA, huA, hm⟩, hlo, hlow⟩ := h
  have hsB : SymOkB (unpack row.2.1) := symOkBool_iff _ ((List.all_eq_true.mp shipped_symbols_ok) row hrow)
  have hbs : bytesOf a.sym = unpack row.2.1 := by
    rw [hsym, bytesOf_toList, hE]; exact ofString_toStr _ (unpack_valid _)
  have hs : SymOk a.sym := by
    obtain ⟨h1, h2, h3⟩ := hsB
    rw [← hbs] at h1 h2 h3
    refine ⟨?_, by simpa [bytesOf] using h2, ?_⟩
    · intro h0; rw [h0] at h1; exact h1 rfl
    · intro c hc
      rw [← isAlpha_toNat]; exact h3 _ (List.mem_map.mpr ⟨c, hc, rfl⟩)
  have hdef := elementDefault_symbol hrow hA hm
  rw [← hbs] at hdef
  have hp := parseLabel_nucXyz a hs
  have := Nucleus.label_only_of_symbol_only shippedN rd64 (Nucleus.elRange shippedN rd64) _ _ _ _
    textSettings.nonphysical (.float textSettings.mtol) _ _ hp hdef
  unfold reconOfC06 reconOfC06With
  rw [toInput_labelClue textSettings rfl, this]
  obtain ⟨uA, uZ, uE, um, ur, ul⟩ := u
  simp only at hsym hreal hlbl hZ hE huA hlow hnl
  subst hnl
  simp only [toNuc, realOf_bool, Option.getD_none, Except.ok.injEq, FromArrays.Nuc.mk.injEq]
  exact ⟨huA.symm, hZ.symm, hE.symm, trivial, hreal, rfl⟩

/-! ### conversely: only default isotopes are carried -/

/-- **What a written token can be answered with is a default isotope** (ANY table, rounding function, settings with
`speclabel=True`): the token names no mass number and no mass (i), so by C06's `reconcile_default` the answer's `A` and mass
are the table's defaults for its element. -/
theorem written_token_answer_is_default (N : Nucleus.NTables) (rd : Rat → Rat) (rng : Nat → Option Nucleus.Range)
    (st : NucSettings) (hst : st.speclabel = true) (a : Atom) (hs : SymOk a.sym) (hl : LblOk a.lbl) (u : FromArrays.Nuc)
    (h : reconOfC06With N rd rng st (labelClue (nucPsi4 a)) = .ok u) :
    (∃ A : Nat, N.pt.toA (.int u.Z) = some A ∧ u.A = (A : Int)) ∧ Nucleus.tableMass N rd (.int u.Z) = .ok u.mass := by
  obtain ⟨o, ho, rfl⟩ := reconOfC06With_ok h
  have hp := parseLabel_nucPsi4 a hs hl
  have hL : ∀ L, Nucleus.LabelIs (toInput st (labelClue (nucPsi4 a))) L →
      L = symLabel (bytesOf a.sym) a.real (userOf (bytesOf a.lbl)) := by
    rintro L ⟨_, l, hl', hpl⟩
    rw [toInput_labelClue st hst] at hl'
    simp only [labelOnly, Option.some.injEq] at hl'
    subst hl'
    rw [hp] at hpl
    exact (Option.some.inj hpl).symm
  have hA : ∀ x, ¬ Nucleus.ClaimsA (toInput st (labelClue (nucPsi4 a))) x := by
    rintro x (⟨p, hp', _⟩ | ⟨L, n, hLi, hLA, _⟩)
    · rw [toInput_labelClue st hst] at hp'; simp [labelOnly] at hp'
    · rw [hL L hLi] at hLA; simp [symLabel] at hLA
  have hM : ∀ x, ¬ Nucleus.ClaimsMass rd (toInput st (labelClue (nucPsi4 a))) x := by
    rintro x (⟨p, hp', _⟩ | ⟨L, t, q, hLi, hLm, _⟩)
    · rw [toInput_labelClue st hst] at hp'; simp [labelOnly] at hp'
    · rw [hL L hLi] at hLm; simp [symLabel] at hLm
  exact Nucleus.reconcile_default N rd rng _ o ho hA hM

/-- **An isotope-substituted atom is not carried by the text.**  If `u'` has a mass other than the default mass of its
element, the answer to its written token is never `u'`: `hlab` fails for it — by design of the formats. -/
theorem isotope_not_carried (N : Nucleus.NTables) (rd : Rat → Rat) (rng : Nat → Option Nucleus.Range)
    (st : NucSettings) (hst : st.speclabel = true) (a : Atom) (hs : SymOk a.sym) (hl : LblOk a.lbl) (u' : FromArrays.Nuc)
    (hiso : Nucleus.tableMass N rd (.int u'.Z) ≠ .ok u'.mass) :
    reconOfC06With N rd rng st (labelClue (nucPsi4 a)) ≠ .ok u' := by
  intro h
  exact hiso (written_token_answer_is_default N rd rng st hst a hs hl u' h).2

/-- **The writers print neither mass numbers nor masses (nor atomic numbers)**: records that differ only there have the
same text, in every format, unit and precision. -/
theorem writeMol_ignores_isotopes (fmt : Fmt) (r : Molrec) (A Z : List Int) (ms : List Rat) (bohrOut : Bool)
    (coords : List Coord) (title : Str) :
    writeMol fmt { r with elea := A, elez := Z, mass := ms } bohrOut coords title = writeMol fmt r bohrOut coords title := rfl

/-! ### the lower-case clause of `LabelCarried` is free for validated records -/

/-- **Every label of a validated record is lower-case** (any rounding function, shipped table): what `from_arrays` stores as
`elbl` is the lower-cased user tag (C06 `reconcile_sound`, clause 8), so the second half of `LabelCarried` holds for every
atom of every record `from_arrays` returns — in particular for a fixed point (`hfix` of the round-trip theorems). -/
theorem validated_labels_lower (rd : Rat → Rat) (angToAu : Rat) (i : Inp) (r : Molrec)
    (h : fromArrays (envC06 rd angToAu) i = .ok r) :
    ∀ u ∈ recNucs r, PStr.lower (ofString u.label) = ofString u.label := by
  intro u hu
  obtain ⟨c, _, hc⟩ := recNucs_answers h u hu
  obtain ⟨o, ho, rfl⟩ := reconOfC06With_ok hc
  have huser : o.user = Nucleus.expectedUser (toInput (nucSettings i) c) :=
    (Nucleus.reconcile_sound shippedN rd _ Nucleus.shipped_coherent.1 _ o ho).2.2.2.2.2.2.2.2
  have hv : ofString (toStr o.user) = o.user := by
    apply ofString_toStr; rw [huser]; exact expectedUser_valid _ c
  show PStr.lower (ofString (toStr o.user)) = ofString (toStr o.user)
  rw [hv, huser]
  exact Nucleus.lower_expectedUser _

/-! ## `hlab` -/

/-- two lists related element by element (same length) -/
def ForallPairs {α β} (R : α → β → Prop) : List α → List β → Prop
  | [], [] => True
  | a :: as, b :: bs => R a b ∧ ForallPairs R as bs
  | _, _ => False

/-- **`hlab` for psi4 text**: for carried atoms — any number — the tokens of the text, each alone, are answered with the
record's atoms, in order. -/
theorem hlab_of_carried (angToAu : Rat) :
    ∀ (atoms : List Atom) (nucs : List FromArrays.Nuc), ForallPairs Carried atoms nucs →
      mapE ((envC06 rd64 angToAu).recon textSettings) ((atoms.map nucPsi4).map labelClue) = .ok nucs
  | [], [], _ => rfl
  | a :: as, u :: us, h => by
      have ih := hlab_of_carried angToAu as us h.2
      have h1 : (envC06 rd64 angToAu).recon textSettings (labelClue (nucPsi4 a)) = .ok u :=
        written_token_reconciles a u h.1
      simp only [List.map_cons, mapE, h1, ih]
  | [], _ :: _, h => by cases h
  | _ :: _, [], h => by cases h

/-- **`hlab` for xyz / xyz+ text** (atoms without user labels) -/
theorem hlab_xyz_of_carried (angToAu : Rat) :
    ∀ (atoms : List Atom) (nucs : List FromArrays.Nuc), ForallPairs (fun a u => Carried a u ∧ u.label = "") atoms nucs →
      mapE ((envC06 rd64 angToAu).recon textSettings) ((atoms.map nucXyz).map labelClue) = .ok nucs
  | [], [], _ => rfl
  | a :: as, u :: us, h => by
      have ih := hlab_xyz_of_carried angToAu as us h.2
      have h1 : (envC06 rd64 angToAu).recon textSettings (labelClue (nucXyz a)) = .ok u :=
        written_xyz_token_reconciles a u h.1.1 h.1.2
      simp only [List.map_cons, mapE, h1, ih]
  | [], _ :: _, h => by cases h
  | _ :: _, [], h => by cases h

/-! ## non-vacuity (tests, labelled as tests) -/

section NonVacuity
open QcelVerif.Nucleus

local instance exDecideL {ε α} [DecidableEq ε] [DecidableEq α] : DecidableEq (Except ε α) := fun a b =>
  match a, b with
  | .ok x, .ok y => if h : x = y then isTrue (h ▸ rfl) else isFalse (fun e => h (Except.ok.inj e))
  | .error x, .error y => if h : x = y then isTrue (h ▸ rfl) else isFalse (fun e => h (Except.error.inj e))
  | .ok _, .error _ => isFalse (fun e => by cases e)
  | .error _, .ok _ => isFalse (fun e => by cases e)

set_option maxRecDepth 100000

/-- test [decide +kernel]: helium's row of the generated table, its default mass number and mass -/
theorem heRow : ((2, 84069, 361075424458093) : Nat × Nat × Nat) ∈ Gen.PT.elements := by decide +kernel
theorem heSym : "He" = PStr.toStr (PStr.unpack 84069) := by decide +kernel
theorem heA : shippedN.pt.toA (.int ((2 : Nat) : Int)) = some 4 := by decide +kernel
theorem heM : tableMass shippedN rd64 (.int ((2 : Nat) : Int)) = .ok heMass := by decide +kernel

/-- test: helium-4 with the table's mass is a default isotope, whatever its real flag and label -/
theorem heDefault (real : Bool) (lbl : String) :
    DefaultIso { A := 4, Z := 2, E := "He", mass := heMass, real := real, label := lbl } :=
  ⟨_, heRow, 4, rfl, heSym, heA, rfl, heM⟩

/-- test: the two atoms of `exM` / `exR` (Props/C07E2E.lean: `He`, `Gh(He_a)`) are carried -/
theorem exCarried : ForallPairs Carried (allAtoms exM) (recNucs exR) :=
  ⟨⟨rfl, rfl, rfl, heDefault _ _, Or.inl rfl, rfl⟩,
   ⟨rfl, rfl, rfl, heDefault _ _, Or.inr (Or.inl ⟨"a".toList, rfl, by decide, by decide⟩), by decide⟩, trivial⟩

theorem exCarried1 : ForallPairs Carried (allAtoms exM1) (recNucs exR1) := exCarried

/-- test: `label_only_eq_symbol_clue` — its hypothesis is met by helium's row (`shipped_elements_default`) -/
example : reconOfC06With shippedN rd64 (elRange shippedN rd64) textSettings (labelClue (nucPsi4 exGh)) =
    .ok (toNuc { A := 4, Z := 2, E := 84069, mass := heMass, real := .bool false, user := PStr.lower (bytesOf "_a".toList) }) :=
  label_only_eq_symbol_clue shippedN rd64 _ textSettings rfl exGh exGh_ok.1 exGh_ok.2.1 _ _
    (elementDefault_symbol heRow heA heM)

/-- test: `written_token_reconciles` on the labelled ghost atom — by the theorem, not by evaluation -/
example : reconOfC06 rd64 textSettings (labelClue "Gh(He_a)".toList) =
    .ok { A := 4, Z := 2, E := "He", mass := heMass, real := false, label := "_a" } :=
  written_token_reconciles exGh _ exCarried.2.1

/-- test: … and the converse direction on the same token: what it is answered with is helium's default isotope -/
example : (∃ A : Nat, shippedN.pt.toA (.int (2 : Int)) = some A ∧ (4 : Int) = (A : Int)) ∧
    tableMass shippedN rd64 (.int (2 : Int)) = .ok heMass :=
  written_token_answer_is_default shippedN rd64 _ textSettings rfl exGh exGh_ok.1 exGh_ok.2.1
    { A := 4, Z := 2, E := "He", mass := heMass, real := false, label := "_a" } (written_token_reconciles exGh _ exCarried.2.1)

/-- test [decide +kernel]: the hypothesis of `isotope_not_carried` is satisfiable — deuterium's mass is not hydrogen's
default mass — so the token `H` is never answered with a deuterium atom -/
example : reconOfC06With shippedN rd64 (elRange shippedN rd64) textSettings
      (labelClue (nucPsi4 { sym := "H".toList, real := true, lbl := [], x := z8, y := z8, z := z8 })) ≠
    .ok { A := 2, Z := 1, E := "H", mass := 4535354008443527 / 2251799813685248, real := true, label := "" } :=
  isotope_not_carried shippedN rd64 _ textSettings rfl _ ⟨by decide, by decide, by decide⟩ (Or.inl rfl) _ (by decide +kernel)

/-- test: `validated_labels_lower` on the fixed point `exR` -/
example : ∀ u ∈ recNucs exR, PStr.lower (ofString u.label) = ofString u.label :=
  validated_labels_lower rd64 1 _ exR exR_fix

/-- test: `hlab` of the partial theorems for `exM` / `exR`, by the theorems of this file (Props/C07E2E.lean had it by
`decide +kernel`: `exR_lab`) -/
example : mapE ((envC06 rd64 1).recon textSettings) (((allAtoms exM).map nucPsi4).map labelClue) = .ok (recNucs exR) :=
  hlab_of_carried 1 _ _ exCarried

end NonVacuity

end QcelVerif.TextToMol
