import QcelVerif.Model.Fragments
import Mathlib.Algebra.Field.Basic
import Mathlib.Algebra.BigOperators.Group.List.Basic
import Mathlib.Tactic.Ring
/-!
# C15 (nuclear repulsion part)

`nre dist atoms` is the pair sum of `Model/Fragments.lean` over an arbitrary field `K` and an
arbitrary distance function `dist` (the code: `np.linalg.norm` of the coordinate difference).
An atom is `(Zeff, position)` with `Zeff = Z * real`, so a ghost atom has `Zeff = 0`.
-/
namespace QcelVerif.Fragments
variable {K : Type} [Field K]

theorem ksum_eq_sum (l : List K) : ksum l = l.sum := by
  induction l with
  | nil => rfl
  | cons x t ih => simp [ksum, ih]

theorem ksum_perm {l₁ l₂ : List K} (h : l₁.Perm l₂) : ksum l₁ = ksum l₂ := by
  rw [ksum_eq_sum, ksum_eq_sum, h.sum_eq]

/-- the pair sum does not depend on the order of the atoms (symmetric pair function) -/
theorem pairSum_perm {β} (f : β → β → K) (hf : ∀ a b, f a b = f b a) {l₁ l₂ : List β}
    (h : l₁.Perm l₂) : pairSum f l₁ = pairSum f l₂ := by
  induction h with
  | nil => rfl
  | cons a p ih =>
    simp only [pairSum, ih]
    rw [ksum_perm (p.map _)]
  | swap a b l =>
    simp only [pairSum, List.map_cons, ksum]
    rw [hf a b]; ring
  | trans _ _ ih1 ih2 => exact ih1.trans ih2

theorem nreTerm_symm {γ} (dist : γ → γ → K) (hd : ∀ x y, dist x y = dist y x) (a b : Int × γ) :
    nreTerm dist a b = nreTerm dist b a := by
  simp only [nreTerm, hd a.2 b.2, Int.mul_comm a.1 b.1]

/-- **Atom reordering.** The nuclear repulsion energy is the same for any reordering of the atoms. -/
theorem nre_perm_invariant {γ} (dist : γ → γ → K) (hd : ∀ x y, dist x y = dist y x)
    {atoms atoms' : List (Int × γ)} (h : atoms.Perm atoms') : nre dist atoms = nre dist atoms' :=
  pairSum_perm _ (nreTerm_symm dist hd) h

theorem pairSum_map {β β'} (g : β → β') (f : β → β → K) (f' : β' → β' → K)
    (h : ∀ a b, f' (g a) (g b) = f a b) : ∀ l : List β, pairSum f' (l.map g) = pairSum f l
  | [] => rfl
  | a :: t => by
      simp only [List.map_cons, pairSum, pairSum_map g f f' h t, List.map_map, Function.comp_def, h]

/-- **Rigid motion.** Moving all positions by a map `g` that preserves the pair distances
(rotation, reflection, translation) does not change the nuclear repulsion energy. -/
theorem nre_rigid_invariant {γ γ'} (dist : γ → γ → K) (dist' : γ' → γ' → K) (g : γ → γ')
    (hg : ∀ x y, dist' (g x) (g y) = dist x y) (atoms : List (Int × γ)) :
    nre dist' (atoms.map (fun a => (a.1, g a.2))) = nre dist atoms := by
  unfold nre
  apply pairSum_map
  intro a b
  simp [nreTerm, hg]

theorem nreTerm_zero_left {γ} (dist : γ → γ → K) (a b : Int × γ) (h : a.1 = 0) :
    nreTerm dist a b = 0 := by simp [nreTerm, h]

theorem nreTerm_zero_right {γ} (dist : γ → γ → K) (a b : Int × γ) (h : b.1 = 0) :
    nreTerm dist a b = 0 := by simp [nreTerm, h]

theorem ksum_filter_zero {β} (q : β → Bool) (f : β → K) (h : ∀ b, q b = false → f b = 0) :
    ∀ l : List β, ksum ((l.filter q).map f) = ksum (l.map f)
  | [] => rfl
  | b :: t => by
      cases hq : q b with
      | true => simp [List.filter, hq, ksum, ksum_filter_zero q f h t]
      | false => simp [List.filter, hq, ksum, ksum_filter_zero q f h t, h b hq]

theorem ksum_zero {β} (f : β → K) (h : ∀ b, f b = 0) : ∀ l : List β, ksum (l.map f) = 0
  | [] => rfl
  | b :: t => by simp [ksum, h b, ksum_zero f h t]

/-- **Real nuclei only.** Ghost atoms (`Zeff = 0`) contribute nothing: the energy equals the
energy of the list with the ghost atoms removed. -/
theorem nre_real_only {γ} (dist : γ → γ → K) : ∀ atoms : List (Int × γ),
    nre dist atoms = nre dist (atoms.filter (fun a => a.1 != 0))
  | [] => rfl
  | a :: t => by
      have ih := nre_real_only dist t
      unfold nre at ih ⊢
      by_cases ha : a.1 = 0
      · have : (fun x : Int × γ => x.1 != 0) a = false := by simp [ha]
        rw [List.filter_cons_of_neg (by simpa using ha)]
        simp only [pairSum, ih]
        rw [ksum_zero _ (fun b => nreTerm_zero_right dist b a ha)]
        simp
      · rw [List.filter_cons_of_pos (by simpa using ha)]
        simp only [pairSum, ih]
        rw [ksum_filter_zero (fun x : Int × γ => x.1 != 0) (fun b => nreTerm dist b a)
          (fun b hb => nreTerm_zero_left dist b a (by simpa using hb))]

/-- non-vacuity / test: a nucleus Z=2, a ghost, a nucleus Z=1 with pair "distance" (x-y)² -/
example : nre (K := ℚ) (fun (x y : ℚ) => (x - y) * (x - y))
    [((2 : Int), (0 : ℚ)), (0, 1), (1, 2)] = 1 / 2 := by
  norm_num [nre, pairSum, ksum, nreTerm]

end QcelVerif.Fragments
