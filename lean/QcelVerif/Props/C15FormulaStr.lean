import QcelVerif.Lemmas.FormulaStr
import QcelVerif.Props.C15Formula
import Mathlib.Data.List.Induction
/-!
# C15 (formula part, string level) — property theorems about `Model/Formula.lean`

`Props/C15Formula.lean` proves the counting / ordering clauses on the (element, count) token list.
This file proves the *string* (`List Char`) layer of the same executable model, for all inputs:

* `render` writes each key followed by the decimal digits of its count when the count is > 1
  (`render_toList`), digits being `Nat.toDigits 10` with the proved round trip
  `digitsVal_toDigits_roundtrip`;
* the tokenisation of `order_molecular_formula` — `re.findall(r"[A-Z][^A-Z]*", f)`, then
  `re.match(r"(\D+)(\d*)", chunk)`, then the `defaultdict` accumulation — applied to a rendered
  token list gives exactly that token list back (`parse_render`), under the explicit hypothesis
  `KeyOK` on the keys (what the two regexes really need);
* hence `order_molecular_formula(molecular_formula_from_symbols(syms, o), o')` *is*
  `molecular_formula_from_symbols(syms, o')` as a string, for both orders `o`, `o'`
  (`order_formula_of_formula`): idempotence for `o = o'`, conversion between the conventions
  otherwise — under the hypothesis that every title-cased symbol is `WFSym`
  (one `[A-Z]` followed by any number of `[a-z]`).

`Props/C15Symbols.lean` shows that every symbol of the shipped periodic table is `WFSym`.
ASCII scope, as in the model (`[A-Z]`, `\d`, `str.title()` on ASCII text).
-/
namespace QcelVerif.Formula

/-! ### well-formedness of keys, stated explicitly -/

/-- What the regexes of `order_molecular_formula` need of an element key so that it survives the
cut: it starts with `[A-Z]` and goes on with characters that are neither `[A-Z]` (else
`[A-Z][^A-Z]*` would cut inside the key) nor a digit (else `\D+` would stop inside the key).
Any length. -/
def keyOK : List Char → Bool
  | [] => false
  | c :: rest => isAsciiUpper c && rest.all (fun x => !isAsciiUpper x && !isAsciiDigit x)

/-- A title-cased element symbol: one upper-case ASCII letter followed by any number (0, 1, 2 for
the periodic table) of lower-case ASCII letters. -/
def wfSym : List Char → Bool
  | [] => false
  | c :: rest => isAsciiUpper c && rest.all isAsciiLower

/-- A raw symbol as a caller may write it: non-empty, ASCII letters in any case. -/
def rawSym : List Char → Bool
  | [] => false
  | c :: rest => isAsciiLetter c && rest.all isAsciiLetter

abbrev KeyOK (k : String) : Prop := keyOK k.toList = true
abbrev WFSym (k : String) : Prop := wfSym k.toList = true

theorem keyOK_of_wfSym {l : List Char} (h : wfSym l = true) : keyOK l = true := by
  cases l with
  | nil => simp [wfSym] at h
  | cons c rest =>
    simp only [wfSym, Bool.and_eq_true, List.all_eq_true] at h
    simp only [keyOK, Bool.and_eq_true, List.all_eq_true, Bool.not_eq_eq_eq_not, Bool.not_true]
    exact ⟨h.1, fun x hx => ⟨not_upper_of_lower (h.2 x hx), not_digit_of_lower (h.2 x hx)⟩⟩

/-- `str.title()` leaves a well-formed symbol unchanged -/
theorem title_wfSym {k : String} (h : WFSym k) : title k = k := by
  unfold title
  have h' : wfSym k.toList = true := h
  cases hk : k.toList with
  | nil => rw [hk] at h'; simp [wfSym] at h'
  | cons c rest =>
    rw [hk] at h'
    simp only [wfSym, Bool.and_eq_true, List.all_eq_true] at h'
    rw [titleChars_wf c rest h'.1 h'.2, ← hk, String.ofList_toList]

/-- `str.title()` turns any non-empty word of ASCII letters (any case) into a well-formed symbol -/
theorem wfSym_title_of_rawSym {s : String} (h : rawSym s.toList = true) : WFSym (title s) := by
  unfold WFSym title
  rw [String.toList_ofList]
  cases hs : s.toList with
  | nil => rw [hs] at h; simp [rawSym] at h
  | cons c rest =>
    rw [hs] at h
    simp only [rawSym, Bool.and_eq_true, List.all_eq_true] at h
    rw [titleChars_letters c rest h.1 h.2]
    simp only [wfSym, Bool.and_eq_true, List.all_eq_true, List.mem_map, forall_exists_index, and_imp,
      forall_apply_eq_imp_iff₂]
    exact ⟨upperC_letter h.1, fun x hx => lowerC_letter (h.2 x hx)⟩

/-- non-vacuity (tests, evaluated): "Cl" is well formed; "cL" is a raw symbol whose title is "Cl" -/
example : wfSym "Cl".toList = true ∧ keyOK "Uue".toList = true ∧ rawSym "cL".toList = true := by decide
#guard title "cL" == "Cl"
#guard wfSym "CL".toList == false && wfSym "c".toList == false && keyOK "C2".toList == false

/-! ### digits: `Nat` ↔ decimal digits -/

/-- **Decimal round trip.** `int(str(n)) = n`: the digits written by `render` (`toString n`, i.e.
`Nat.toDigits 10 n`) are read back by `splitCount`'s `digitsVal` as `n`; they are ASCII digits and
there is at least one. -/
theorem digitsVal_toDigits_roundtrip (n : Nat) :
    digitsVal (toString n).toList = n ∧ (∀ c ∈ (toString n).toList, isAsciiDigit c = true) ∧
    (toString n).toList ≠ [] := by
  rw [Nat.toString_eq_ofList_toDigits, String.toList_ofList]
  exact ⟨digitsVal_toDigits n, toDigits_all_digit n, Nat.toDigits_ne_nil⟩

/-- the other direction: a digit string without a leading zero is the rendering of its value -/
theorem toDigits_digitsVal : ∀ (l : List Char), (∀ c ∈ l, isAsciiDigit c = true) → l ≠ [] →
    (l.length > 1 → l.head? ≠ some '0') → Nat.toDigits 10 (digitsVal l) = l := by
  intro l
  induction l using List.reverseRecOn with
  | nil => intro _ h; exact absurd rfl h
  | append_singleton l c ih =>
    intro hd _ hz
    have hc := hd c (by simp)
    rw [digit_iff] at hc
    have hcn : Nat.digitChar (c.toNat - 48) = c := by
      have key : ∀ n : Nat, n < 58 → 48 ≤ n → Nat.digitChar (n - 48) = Char.ofNat n := by decide
      rw [key c.toNat (by omega) hc.1, Char.ofNat_toNat]
    rw [digitsVal_append_single, Nat.toDigits_eq_if (by decide)]
    cases l with
    | nil =>
      simp only [digitsVal, List.foldl_nil, Nat.zero_mul, Nat.zero_add, List.nil_append]
      rw [if_pos (by omega), hcn]
    | cons a l' =>
      have ha := hd a (by simp)
      have hl : ∀ x ∈ a :: l', isAsciiDigit x = true := fun x hx => hd x (List.mem_append_left _ hx)
      -- the value of the prefix is positive because its first digit is not '0' …
      have hne : a ≠ '0' := by
        intro e; apply hz (by simp); simp [e]
      have ih' := ih hl (by simp) (fun _ => by simpa using hne)
      have hpos : 0 < digitsVal (a :: l') := by
        by_contra h0
        have h0' : digitsVal (a :: l') = 0 := by omega
        rw [h0', Nat.toDigits_zero] at ih'
        have : a = '0' := by
          have := congrArg List.head? ih'
          simpa using this.symm
        exact hne this
      have hlt : ¬ (digitsVal (a :: l') * 10 + (c.toNat - 48) < 10) := by omega
      rw [if_neg hlt]
      have h1 : (digitsVal (a :: l') * 10 + (c.toNat - 48)) / 10 = digitsVal (a :: l') := by omega
      have h2 : (digitsVal (a :: l') * 10 + (c.toNat - 48)) % 10 = c.toNat - 48 := by omega
      rw [h1, h2, ih', hcn]

-- non-vacuity (tests, evaluated)
#guard digitsVal (toString 1207).toList == 1207
#guard Nat.toDigits 10 (digitsVal "120".toList) == "120".toList
#guard Nat.toDigits 10 (digitsVal "012".toList) != "012".toList   -- leading zero: hypothesis needed

/-! ### rendering at character level -/

/-- one rendered token: the key, then the decimal count when it exceeds one (68-73) -/
def renderTok (t : String × Nat) : List Char :=
  if t.2 > 1 then t.1.toList ++ Nat.toDigits 10 t.2 else t.1.toList

/-- **Rendering, character by character.** The formula string is the concatenation over the
tokens of key ++ (decimal digits of the count if > 1). -/
theorem render_toList (toks : List (String × Nat)) :
    (render toks).toList = toks.flatMap renderTok := by
  unfold render
  rw [String.toList_join, List.flatMap_map]
  congr 1
  funext t
  unfold renderTok
  split
  · rw [String.toList_append, Nat.toString_eq_ofList_toDigits, String.toList_ofList]
  · rfl

/-! ### parsing a rendered formula -/

/-- the first half of `orderFormula` (lines 22-34): cut, split each chunk, accumulate -/
def parseCounts (l : List Char) : Option (List (String × Nat)) :=
  let (pre, ms) := cutUpper l
  if !pre.isEmpty then none
  else some (ms.foldl (fun acc m => let (k, n) := splitCount m; addCount acc k n) [])

theorem orderFormula_eq (formula : String) (ord : Order) :
    orderFormula formula ord = (parseCounts formula.toList).map (fun cs => fromSymbols (expand cs) ord) := by
  unfold orderFormula parseCounts
  cases h : cutUpper formula.toList with
  | mk pre ms =>
    simp only
    split <;> rfl

theorem renderTok_shape {t : String × Nat} (hk : KeyOK t.1) :
    ∃ c body, renderTok t = c :: body ∧ isAsciiUpper c = true ∧ ∀ x ∈ body, isAsciiUpper x = false := by
  have hk' : keyOK t.1.toList = true := hk
  cases hl : t.1.toList with
  | nil => rw [hl] at hk'; simp [keyOK] at hk'
  | cons c rest =>
    rw [hl] at hk'
    simp only [keyOK, Bool.and_eq_true, List.all_eq_true, Bool.not_eq_eq_eq_not, Bool.not_true] at hk'
    unfold renderTok
    split
    · refine ⟨c, rest ++ Nat.toDigits 10 t.2, by simp [hl], hk'.1, ?_⟩
      intro x hx
      rcases List.mem_append.1 hx with hx | hx
      · exact (hk'.2 x hx).1
      · exact not_upper_of_digit (toDigits_all_digit _ x hx)
    · exact ⟨c, rest, by simp [hl], hk'.1, fun x hx => (hk'.2 x hx).1⟩

/-- the `[A-Z][^A-Z]*` cut of a rendered formula is exactly the list of rendered tokens -/
theorem cutUpper_render : ∀ (toks : List (String × Nat)), (∀ t ∈ toks, KeyOK t.1) →
    cutUpper (toks.flatMap renderTok) = ([], toks.map renderTok)
  | [], _ => rfl
  | t :: toks, h => by
      obtain ⟨c, body, hs, hc, hb⟩ := renderTok_shape (h t (List.mem_cons_self ..))
      have ih := cutUpper_render toks (fun t ht => h t (List.mem_cons_of_mem _ ht))
      rw [List.flatMap_cons, List.map_cons, hs, cutUpper_chunk c body _ hc hb, ih]
      simp

/-- `(\D+)(\d*)` on a rendered token gives back the key and the count -/
theorem splitCount_renderTok {t : String × Nat} (hk : KeyOK t.1) (hn : 0 < t.2) :
    splitCount (renderTok t) = t := by
  have hk' : keyOK t.1.toList = true := hk
  have hnd : ∀ x ∈ t.1.toList, (!isAsciiDigit x) = true := by
    cases hl : t.1.toList with
    | nil => rw [hl] at hk'; simp [keyOK] at hk'
    | cons c rest =>
      rw [hl] at hk'
      simp only [keyOK, Bool.and_eq_true, List.all_eq_true, Bool.not_eq_eq_eq_not, Bool.not_true] at hk'
      intro x hx
      rcases List.mem_cons.1 hx with rfl | hx
      · simp [not_digit_of_upper hk'.1]
      · simp [(hk'.2 x hx).2]
  have hdd : ∀ x ∈ Nat.toDigits 10 t.2, (!isAsciiDigit x) = false := by
    intro x hx; simp [toDigits_all_digit _ x hx]
  obtain ⟨k, n⟩ := t
  unfold renderTok splitCount
  simp only at hnd hdd hn ⊢
  split
  · rw [takeWhile_block _ _ _ hnd hdd, dropWhile_block _ _ _ hnd hdd,
      takeWhile_all _ _ (toDigits_all_digit n)]
    have : (Nat.toDigits 10 n).isEmpty = false := by
      cases h : Nat.toDigits 10 n with
      | nil => exact absurd h Nat.toDigits_ne_nil
      | cons _ _ => rfl
    simp only [this, Bool.false_eq_true, ↓reduceIte, String.ofList_toList, digitsVal_toDigits]
  · have h1 : n = 1 := by omega
    have e : k.toList = k.toList ++ [] := by simp
    rw [e, takeWhile_block _ _ [] hnd (by simp), dropWhile_block _ _ [] hnd (by simp)]
    simp [h1]

theorem fold_addCount : ∀ (toks acc : List (String × Nat)),
    (∀ t ∈ toks, KeyOK t.1 ∧ 0 < t.2) → ((acc ++ toks).map Prod.fst).Nodup →
    (toks.map renderTok).foldl (fun acc m => let (k, n) := splitCount m; addCount acc k n) acc
      = acc ++ toks
  | [], acc, _, _ => by simp
  | t :: toks, acc, h, hnd => by
      have ht := h t (List.mem_cons_self ..)
      rw [List.map_cons, List.foldl_cons, splitCount_renderTok ht.1 ht.2]
      have hnew : t.1 ∉ acc.map Prod.fst := by
        rw [List.map_append, List.map_cons] at hnd
        have := (List.nodup_append.1 hnd).2.2
        intro hm
        exact this _ hm _ (List.mem_cons_self ..) rfl
      simp only
      rw [addCount_new acc t.1 t.2 hnew]
      have := fold_addCount toks (acc ++ [t]) (fun t ht => h t (List.mem_cons_of_mem _ ht))
        (by simpa [List.append_assoc] using hnd)
      simpa [List.append_assoc] using this

/-- **parse ∘ render = id** (string level).  For every token list whose keys satisfy `KeyOK`, are
pairwise distinct, and whose counts are positive, the regex tokenisation of
`order_molecular_formula` applied to the rendered string gives exactly the element counts back,
in the same order. -/
theorem parse_render (toks : List (String × Nat)) (hk : ∀ t ∈ toks, KeyOK t.1)
    (hpos : ∀ t ∈ toks, 0 < t.2) (hnd : (toks.map Prod.fst).Nodup) :
    parseCounts (render toks).toList = some toks := by
  unfold parseCounts
  rw [render_toList, cutUpper_render toks hk]
  simp only [List.isEmpty_nil, Bool.not_true, Bool.false_eq_true, ↓reduceIte]
  rw [fold_addCount toks [] (fun t ht => ⟨hk t ht, hpos t ht⟩) (by simpa using hnd)]
  simp

-- non-vacuity (tests, evaluated): the hypotheses hold of a real token list, and the conclusion
-- is what the executable model computes; a key violating `KeyOK` breaks the round trip
#guard parseCounts (render [("C", 2), ("H", 12), ("Cl", 1), ("Uue", 3)]).toList ==
  some [("C", 2), ("H", 12), ("Cl", 1), ("Uue", 3)]
#guard parseCounts (render [("C2", 2), ("H", 1)]).toList != some [("C2", 2), ("H", 1)]
#guard parseCounts (render [("CH", 1)]).toList != some [("CH", 1)]

/-! ### token level: re-ordering into either convention -/

variable {κ : Type} [DecidableEq κ]

/-- **Re-ordering converts between the conventions** (token level; generalises
`order_idempotent_tokens`, which is the case `ord' = ord`): expanding the tokens of a formula
written in convention `ord` and ordering the symbols in convention `ord'` gives the tokens of
the original symbols in convention `ord'`. -/
theorem order_convert_tokens (le : κ → κ → Bool) (C H : κ) (ord ord' : Order) (syms : List κ)
    (htrans : ∀ a b c, le a b = true → le b c = true → le a c = true)
    (htotal : ∀ a b, (le a b || le b a) = true)
    (hanti : ∀ a b, le a b = true → le b a = true → a = b) :
    tokens le C H ord' (expand (tokens le C H ord syms)) = tokens le C H ord' syms := by
  obtain ⟨hnd, _, hcnt⟩ := formula_counts le C H ord syms
  have hd : dedupKeys (expand (tokens le C H ord syms)) = elementOrder le C H ord syms := by
    rw [dedupKeys_expand _ hnd (fun t ht => (hcnt t ht).2), keys_tokens]
  have hs : sortedKeys le (expand (tokens le C H ord syms)) = sortedKeys le syms := by
    unfold sortedKeys
    rw [hd]
    apply List.Perm.eq_of_pairwise (le := fun a b => le a b = true)
    · intro a b _ _ h1 h2; exact hanti a b h1 h2
    · exact List.pairwise_mergeSort htrans htotal _
    · exact List.pairwise_mergeSort htrans htotal _
    · exact (List.mergeSort_perm _ _).trans
        ((elementOrder_perm le C H ord syms).trans (List.mergeSort_perm _ _).symm)
  have ho : elementOrder le C H ord' (expand (tokens le C H ord syms)) = elementOrder le C H ord' syms := by
    cases ord' <;> simp only [elementOrder, hs]
  have hmem : ∀ k, k ∈ elementOrder le C H ord' syms → k ∈ elementOrder le C H ord syms := by
    intro k hk
    exact (elementOrder_perm le C H ord syms).mem_iff.2 ((elementOrder_perm le C H ord' syms).mem_iff.1 hk)
  unfold tokens at *
  rw [ho]
  apply List.map_congr_left
  intro k hk
  have : (k, syms.count k) ∈ (elementOrder le C H ord syms).map (fun k => (k, syms.count k)) :=
    List.mem_map.2 ⟨k, hmem k hk, rfl⟩
  rw [count_expand k _ hnd _ this]

/-! ### code-point order on `String` is a total order -/

theorem strLe_trans (a b c : String) : strLe a b = true → strLe b c = true → strLe a c = true := by
  simp only [strLe, decide_eq_true_eq]; exact String.le_trans

theorem strLe_total (a b : String) : (strLe a b || strLe b a) = true := by
  simp only [strLe, Bool.or_eq_true, decide_eq_true_eq]; exact String.le_total a b

theorem strLe_antisymm (a b : String) : strLe a b = true → strLe b a = true → a = b := by
  simp only [strLe, decide_eq_true_eq]; exact String.le_antisymm

/-! ### the string-level statements about the two library functions -/

theorem map_title_fixed (l : List String) (h : ∀ k ∈ l, WFSym k) : l.map title = l := by
  induction l with
  | nil => rfl
  | cons a l ih =>
    rw [List.map_cons, title_wfSym (h a (List.mem_cons_self ..)),
      ih (fun k hk => h k (List.mem_cons_of_mem _ hk))]

theorem mem_expand {T : List (String × Nat)} {k : String} (h : k ∈ expand T) :
    k ∈ T.map Prod.fst := by
  simp only [expand, List.mem_flatMap, List.mem_replicate] at h
  obtain ⟨t, ht, _, rfl⟩ := h
  exact List.mem_map.2 ⟨t, ht, rfl⟩

/-- **The rendered formula parses back to exactly the element counts.**  For every list of symbols
whose title-cased forms are well formed: tokenising `molecular_formula_from_symbols(syms, ord)` the
way `order_molecular_formula` does yields the (element, count) tokens — each distinct title-cased
symbol once, with its number of occurrences (see `formula_counts`) — in the order written. -/
theorem parse_formula (syms : List String) (ord : Order) (hwf : ∀ s ∈ syms, WFSym (title s)) :
    parseCounts (fromSymbols syms ord).toList = some (tokens strLe "C" "H" ord (syms.map title)) := by
  obtain ⟨hnd, hmem, hcnt⟩ := formula_counts strLe "C" "H" ord (syms.map title)
  unfold fromSymbols
  apply parse_render _ _ (fun t ht => (hcnt t ht).2) hnd
  intro t ht
  have : t.1 ∈ syms.map title := (hmem t.1).1 (List.mem_map.2 ⟨t, ht, rfl⟩)
  obtain ⟨s, hs, e⟩ := List.mem_map.1 this
  exact keyOK_of_wfSym (e ▸ hwf s hs)

/-- **`order_molecular_formula` on a formula written by the library** (string level, both orders).
For every list of symbols whose title-cased forms are well formed, re-ordering the formula string
written in convention `ord` into convention `ord'` succeeds and gives, character for character,
the formula string of the same symbols in convention `ord'`. -/
theorem order_formula_of_formula (syms : List String) (ord ord' : Order)
    (hwf : ∀ s ∈ syms, WFSym (title s)) :
    orderFormula (fromSymbols syms ord) ord' = some (fromSymbols syms ord') := by
  rw [orderFormula_eq, parse_formula syms ord hwf]
  simp only [Option.map_some, Option.some.injEq]
  obtain ⟨_, hmem, _⟩ := formula_counts strLe "C" "H" ord (syms.map title)
  have hfix : (expand (tokens strLe "C" "H" ord (syms.map title))).map title
      = expand (tokens strLe "C" "H" ord (syms.map title)) := by
    apply map_title_fixed
    intro k hk
    have : k ∈ syms.map title := (hmem k).1 (mem_expand hk)
    obtain ⟨s, hs, e⟩ := List.mem_map.1 this
    exact e ▸ hwf s hs
  unfold fromSymbols
  rw [hfix, order_convert_tokens strLe "C" "H" ord ord' _ strLe_trans strLe_total strLe_antisymm]

/-- **Idempotence at string level**: a formula in convention `ord` is a fixed point of
`order_molecular_formula(·, ord)`. -/
theorem order_formula_idempotent (syms : List String) (ord : Order)
    (hwf : ∀ s ∈ syms, WFSym (title s)) :
    orderFormula (fromSymbols syms ord) ord = some (fromSymbols syms ord) :=
  order_formula_of_formula syms ord ord hwf

/-- … and applying it twice (any two conventions) is applying the second once -/
theorem order_formula_twice (syms : List String) (o o1 o2 : Order)
    (hwf : ∀ s ∈ syms, WFSym (title s)) :
    (orderFormula (fromSymbols syms o) o1).bind (fun f => orderFormula f o2)
      = orderFormula (fromSymbols syms o) o2 := by
  rw [order_formula_of_formula syms o o1 hwf, order_formula_of_formula syms o o2 hwf]
  exact order_formula_of_formula syms o1 o2 hwf

/-- the hypothesis follows for symbols written as ASCII letters in any case -/
theorem wf_of_raw (syms : List String) (h : ∀ s ∈ syms, rawSym s.toList = true) :
    ∀ s ∈ syms, WFSym (title s) := fun s hs => wfSym_title_of_rawSym (h s hs)

/-- non-vacuity (tests, evaluated): symbols in mixed case; the conclusion computed by the model;
and a symbol list violating the hypothesis (`"A1"` is not a word of letters) for which the
statement fails — the hypothesis is needed -/
example : ∀ s ∈ ["h", "C", "cL", "H", "O", "HE"], rawSym s.toList = true := by decide
#guard orderFormula (fromSymbols ["h", "C", "cL", "H", "O", "HE"] .alphabetical) .hill ==
  some (fromSymbols ["h", "C", "cL", "H", "O", "HE"] .hill)
#guard fromSymbols ["h", "C", "cL", "H", "O", "HE"] .alphabetical == "CClH2HeO"
#guard orderFormula (fromSymbols ["A1", "A"] .alphabetical) .alphabetical !=
  some (fromSymbols ["A1", "A"] .alphabetical)

end QcelVerif.Formula
