import QcelVerif.Props.C04DefaultNuc
/-! C04 (extension) — kernel evaluation of `elementIsoOk` (Props/C04DefaultNuc.lean) over the generated periodic
table, four element rows per obligation (each `decide +kernel` ≈ 10–15 s); part A of A–E.  Re-checked whenever
`tools/gen_periodic.py` regenerates `Gen/PT.lean` from a changed data file. -/
namespace QcelVerif.FromArrays
open QcelVerif QcelVerif.Nucleus
set_option maxRecDepth 100000

theorem iso_rows_0 : ((Gen.PT.elements.drop 0).take 4).all elementIsoOk = true := by decide +kernel
theorem iso_rows_4 : ((Gen.PT.elements.drop 4).take 4).all elementIsoOk = true := by decide +kernel
theorem iso_rows_8 : ((Gen.PT.elements.drop 8).take 4).all elementIsoOk = true := by decide +kernel
theorem iso_rows_12 : ((Gen.PT.elements.drop 12).take 4).all elementIsoOk = true := by decide +kernel
theorem iso_rows_16 : ((Gen.PT.elements.drop 16).take 4).all elementIsoOk = true := by decide +kernel
theorem iso_rows_20 : ((Gen.PT.elements.drop 20).take 4).all elementIsoOk = true := by decide +kernel

end QcelVerif.FromArrays
