import QcelVerif.Model.NucleusShipped
/-! C06 row predicate for the table-wide instances; split out so that lake checks the halves in parallel. -/
namespace QcelVerif.Nucleus
open QcelVerif QcelVerif.PStr QcelVerif.PT

/-- element row: `Z` alone, the symbol alone, and the lower-cased symbol as a label each reconcile (under
`rd64`, default settings) to the row's default isotope `(to_A(Z), Z, E, float(to_mass(Z)), True, '')` -/
def elementDefaultOk (r : Nat × Nat × Nat) : Bool :=
  let base : Input := { A := none, Z := none, E := none, mass := none, real := none, label := none,
                        speclabel := true, nonphysical := false, mtol := .float (1/1000) }
  match shippedN.pt.toA (.int r.1), tableMass shippedN rd64 (.int r.1) with
  | some a, .ok m =>
    let want : Output := { A := a, Z := r.1, E := r.2.1, mass := m, real := .bool true, user := [] }
    (match reconcile shippedN rd64 { base with Z := some (.int r.1) } with | .ok o => o == want | _ => false) &&
    (match reconcile shippedN rd64 { base with E := some (unpack r.2.1) } with | .ok o => o == want | _ => false) &&
    (match reconcile shippedN rd64 { base with label := some (lower (unpack r.2.1)) } with | .ok o => o == want | _ => false)
  | _, _ => false

end QcelVerif.Nucleus
