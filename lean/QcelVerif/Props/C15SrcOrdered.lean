import QcelVerif.Lemmas.FragmentsSrcOrdered
import QcelVerif.Props.C15
/-!
# C15 — the source-derived `get_fragment`: order-preserving path, argument forms, refusals (all inputs)

`Props/C15Src.lean` proves the GROUPED path of the generated body equal to the model.  This file finishes the source tie:
* `srcExtract_ordered_run` / `srcExtract_ordered_eq_model` — the `group_fragments=False` branch (three loops, invariants in
  `Lemmas/FragmentsSrcOrdered.lean`) on ALL molecules / selections equals `Fragments.extract … false`;
* `gfRun_args` — `real` an int, `ghost` an int or `None` are normalised to lists, for all inputs; `real=None` is refused;
* `srcExtract_overlap_refused`, `srcExtract_grouped_oob_refused`, `srcExtract_grouped_ghost_oob_refused` — the refusals, over the generated body
  (the evaluator reports "raises"; the exception CLASS is not modelled — differential only);
* `srcOrdered_headline` — the headline clauses of the property for `group_fragments=False`, at the constructor call of the
  generated body.
-/
namespace QcelVerif.FragSrc
open QcelVerif.FragAst QcelVerif.Fragments QcelVerif.ChgMult

section
variable (R G : List Nat)

/-- the number of kept atoms before atom `i` -/
def cntBefore (frags : List (List Nat)) (i : Nat) : Nat := (List.range i).countP (keepAtom frags R G)

def selFrN (frags : List (List Nat)) : Nat → List (List Nat) → List (List Nat)
  | _, [] => []
  | k, fr :: t => (if R.contains k || G.contains k then [fr.map (cntBefore R G frags)] else []) ++ selFrN frags (k + 1) t

def selChN (fcs : List Int) (dflt : Int) : Nat → List (List Nat) → List Int
  | _, [] => []
  | k, _ :: t => selPiece R G k (fcs.getD k 0) dflt ++ selChN fcs dflt (k + 1) t

/-- every atom of a selected fragment is kept (true when no atom lies in two fragments) -/
def SelKept (frags : List (List Nat)) (k : Nat) (rest : List (List Nat)) : Prop :=
  ∀ j fr, rest[j]? = some fr → (R.contains (k + j) || G.contains (k + j)) = true → ∀ i ∈ fr, keepAtom frags R G i = true

theorem SelKept.tail {frags : List (List Nat)} {k : Nat} {y : List Nat} {t : List (List Nat)} (h : SelKept R G frags k (y :: t)) :
    SelKept R G frags (k + 1) t := by
  intro j fr hj hs i hi
  refine h (j + 1) fr (by simpa using hj) ?_ i hi
  rw [show k + (j + 1) = k + 1 + j by omega]; exact hs

theorem at2at_kept (frags : List (List Nat)) (i : Nat) (h : keepAtom frags R G i = true) :
    at2at frags R G i = some (cntBefore R G frags i) := by simp [at2at, h, cntBefore]

theorem selFr_eq (frags : List (List Nat)) : ∀ (rest : List (List Nat)) (k : Nat), SelKept R G frags k rest →
    selFr R G (fun i => oI (at2at frags R G i)) k rest = (selFrN R G frags k rest).map natL
  | [], _, _ => rfl
  | y :: t, k, h => by
    have ih := selFr_eq frags t (k + 1) h.tail
    by_cases hs : (R.contains k || G.contains k) = true
    · have e : y.map (fun i => oI (at2at frags R G i)) = natL (y.map (cntBefore R G frags)) := by
        simp only [natL, List.map_map]
        apply List.map_congr_left
        intro i hi
        simp [at2at_kept R G frags i (h 0 y rfl (by simpa using hs) i hi), oI]
      simp only [selFr, selFrN, hs, reduceIte, e, ih, List.map_append, List.map_cons, List.map_nil]
    · have hs' : (R.contains k || G.contains k) = false := by simpa using hs
      simp only [selFr, selFrN, hs', ih, Bool.false_eq_true, reduceIte, List.nil_append]

theorem selCh_eq (fcs : List Int) (d : Int) : ∀ (rest : List (List Nat)) (k : Nat),
    selCh R G fcs d k rest = intL (selChN R G fcs d k rest)
  | [], _ => rfl
  | y :: t, k => by
    simp only [selCh, selChN, selCh_eq fcs d t (k + 1), intL, List.map_append, selPiece]
    by_cases hr : k ∈ R <;> by_cases hg : k ∈ G <;> simp [hr, hg]

theorem fragLoop_eq (frags : List (List Nat)) (fcs fms : List Int) : ∀ (rest : List (List Nat)) (k : Nat),
    SelKept R G frags k rest → k + rest.length ≤ fcs.length → k + rest.length ≤ fms.length →
    fragLoop frags fcs fms R G rest k = some (selFrN R G frags k rest, selChN R G fcs 0 k rest, selChN R G fms 1 k rest)
  | [], _, _, _, _ => rfl
  | y :: t, k, h, h1, h2 => by
    simp only [List.length_cons] at h1 h2
    have ih := fragLoop_eq frags fcs fms t (k + 1) h.tail (by omega) (by omega)
    have hk1 : k < fcs.length := by omega
    have hk2 : k < fms.length := by omega
    have hc : fcs[k]? = some fcs[k] := List.getElem?_eq_getElem hk1
    have hm : fms[k]? = some fms[k] := List.getElem?_eq_getElem hk2
    have hmap : (k ∈ R ∨ k ∈ G) → y.mapM (at2at frags R G) = some (y.map (cntBefore R G frags)) := by
      intro hs
      rw [mapM_option_eq_some]
      simp only [List.map_map]
      apply List.map_congr_left
      intro i hi
      simp [at2at_kept R G frags i (h 0 y rfl (by simpa using hs) i hi)]
    unfold fragLoop
    rw [ih]
    by_cases hr : k ∈ R
    · simp [hr, hmap (Or.inl hr), hc, hm, selFrN, selChN, selPiece]
    · by_cases hg : k ∈ G
      · simp [hr, hg, hmap (Or.inr hg), selFrN, selChN, selPiece]
      · simp [hr, hg, selFrN, selChN, selPiece]

/-- the keyword arguments the order-preserving path collects, written with the model's functions -/
def orderedCtor (frags : List (List Nat)) (fcs fms : List Int) (n : Nat) : SrcCtor :=
  { sym := keptTo R G frags n, mass := keptTo R G frags n, geom := keptTo R G frags n
    real := (keptTo R G frags n).map (realAtom frags R)
    frags := selFrN R G frags 0 frags
    fc := selChN R G fcs 0 0 frags
    fm := selChN R G fms 1 0 frags
    c := none, m := none }

theorem decBoolL_real (K : List Nat) (r : Nat → Bool) : decBoolL (.l (K.map (fun i => some (b2i (r i))))) = some (K.map r) := by
  simp only [decBoolL]
  have := mapO_eq_some_map (fun x : Option Int => x.map (· != 0)) (fun x => x.getD 0 != 0)
    (K.map (fun i => some (b2i (r i)))) (by
      intro x hx
      obtain ⟨i, _, rfl⟩ := List.mem_map.1 hx
      simp)
  rw [this]
  simp only [List.map_map]
  congr 1
  apply List.map_congr_left
  intro i _
  cases h : r i <;> simp [b2i, h]

/-- the `constructor_dict[...] = ...` statements on a state of the order-preserving path -/
theorem suffix_ost (inp : List Val) (o : Val) (ge : List (Option Int)) (sy ma ra fr fc fm sz a2f x21 x22 x23 a2a : Val) :
    exec inp (fun _ _ => (0 : Int)) gfSuffix (ost R G o (.l ge) sy ma ra fr fc fm sz a2f x21 x22 x23 a2a (.s none)) =
    if ge = [] then none else
      some ⟨[.s none, .l (natL R), .l (natL G), o, b2v false, .l ge, sy, ma, ra, fr, fc, fm, sz,
        .s none, .s none, .s none, .s none, .s none, .s none, .s none,
        a2f, x21, x22, x23, a2a, .s none, fr, fc, fm, sy, .l ge, ra, ma], []⟩ := by
  cases ge with
  | nil => simp [gfSuffix, ost, exec, evalE, setSlot]
  | cons a t => simp [gfSuffix, ost, exec, evalE, setSlot]

end

theorem selKept_of_disjoint (R G : List Nat) (frags : List (List Nat)) (hd : DisjointFrags frags) :
    SelKept R G frags 0 frags := by
  intro j fr hj hs i hi
  have h2 : at2fr frags i = some j := (at2fr_eq_some_iff frags hd i j).2 ⟨fr, hj, hi⟩
  simp only [Nat.zero_add] at hs
  simp only [keepAtom, h2, hs]

theorem srcExtract_eq_bind {α} (mol : Mol α) (R G : List Nat) (group : Bool) :
    srcExtract mol R G group = (gfRun mol (.l (natL R)) (.l (natL G)) false group).bind (fun st => readCtor st.v) := by
  unfold srcExtract
  cases gfRun mol (.l (natL R)) (.l (natL G)) false group <;> rfl

/-- **source-derived get_fragment, `group_fragments=False`**, on ANY molecule whose fragment lists name existing atoms, with a
charge and a multiplicity per fragment and every atom of a selected fragment kept (true when no atom lies in two fragments),
ANY two lists of fragment numbers without a common element, any `orient`: the generated body raises (`np.vstack([])`) when
nothing is selected, and otherwise reaches the constructor call with exactly these keyword arguments — rows of `symbols`,
`masses`, `geometry` = the parent's atoms whose fragment is selected, in ORIGINAL order; flag = (its fragment is in `real`);
one index list per selected fragment in original order, remapped through `at2at` (= number of kept atoms before);
charges / multiplicities kept for real and (0, 1) for ghost fragments; no totals passed -/
theorem srcExtract_ordered_run {α} (mol : Mol α) (R G : List Nat) (orient : Bool)
    (hA : ∀ fr ∈ mol.frags, ∀ i ∈ fr, i < mol.atoms.length)
    (hfc : mol.frags.length ≤ mol.fc.length) (hfm : mol.frags.length ≤ mol.fm.length)
    (hsk : SelKept R G mol.frags 0 mol.frags) (hov : R.any (G.contains ·) = false) :
    (gfRun mol (.l (natL R)) (.l (natL G)) orient false).bind (fun st => readCtor st.v) =
      if keptTo R G mol.frags mol.atoms.length = [] then none
      else some (orderedCtor R G mol.frags mol.fc mol.fm mol.atoms.length) := by
  obtain ⟨x21, x22, x23, x24, hg⟩ := g_ordered mol.atoms.length [] mol.real mol.frags mol.fc mol.fm mol.c R G orient hA hfc hfm
  have hinit : gfRun mol (.l (natL R)) (.l (natL G)) orient false =
      exec (gfInputs mol) (fun _ _ => (0 : Int)) (gfTop gGrouped gOrdered) (gfInit R G orient false) := by
    unfold gfRun run
    rw [gf_shape.1, gf_shape.2.1, gf_shape.2.2.1, gf_shape.2.2.2.1, gf_shape.2.2.2.2.1, gf_shape.2.2.2.2.2.1]
    rfl
  rw [hinit, gf_pre _ R G orient false hov]
  rw [if_neg (by simp)]
  unfold gfInputs
  rw [hg, Option.bind_some, suffix_ost]
  by_cases hK : keptTo R G mol.frags mol.atoms.length = []
  · simp [hK, natL]
  · rw [if_neg (by simpa [natL] using hK), if_neg hK, Option.bind_some]
    simp only [readCtor, gf_shape.2.2.2.2.2.2.1, gf_shape.2.2.2.2.2.2.2.1, gf_shape.2.2.2.2.2.2.2.2.1,
      gf_shape.2.2.2.2.2.2.2.2.2.1, gf_shape.2.2.2.2.2.2.2.2.2.2.1, gf_shape.2.2.2.2.2.2.2.2.2.2.2.1,
      gf_shape.2.2.2.2.2.2.2.2.2.2.2.2.1, gf_shape.2.2.2.2.2.2.2.2.2.2.2.2.2.1, gf_shape.2.2.2.2.2.2.2.2.2.2.2.2.2.2.1,
      List.getElem?_cons_succ, List.getElem?_cons_zero, Option.bind_some]
    rw [selFr_eq R G mol.frags mol.frags 0 hsk, selCh_eq, selCh_eq, decNatL_natL, decBoolL_real, decLL_natL, decIntL_intL,
      decIntL_intL]
    rfl

theorem keptTo_lt (R G : List Nat) (frags : List (List Nat)) (n : Nat) : ∀ i ∈ keptTo R G frags n, i < n := by
  intro i hi
  exact List.mem_range.1 (List.mem_filter.1 hi).1

/-- the hand model of the order-preserving path on the same hypotheses -/
theorem extractOrdered_eq {α} (mol : Mol α) (R G : List Nat)
    (hA : ∀ fr ∈ mol.frags, ∀ i ∈ fr, i < mol.atoms.length)
    (hfc : mol.frags.length ≤ mol.fc.length) (hfm : mol.frags.length ≤ mol.fm.length)
    (hsk : SelKept R G mol.frags 0 mol.frags) :
    ∃ atoms, pick mol.atoms (keptTo R G mol.frags mol.atoms.length) = some atoms ∧
      extractOrdered mol R G = .ok { atoms := atoms, real := (keptTo R G mol.frags mol.atoms.length).map (realAtom mol.frags R)
                                     frags := selFrN R G mol.frags 0 mol.frags, fc := selChN R G mol.fc 0 0 mol.frags
                                     fm := selChN R G mol.fm 1 0 mol.frags, c := none, m := none } := by
  obtain ⟨atoms, hat⟩ := pick_exists mol.atoms _ (keptTo_lt R G mol.frags mol.atoms.length)
  refine ⟨atoms, hat, ?_⟩
  have hany : mol.frags.any (fun fr => fr.any (fun iat => decide (mol.atoms.length ≤ iat))) = false := by
    simp only [List.any_eq_false, List.any_eq_true, not_exists, not_and, decide_eq_true_eq]
    intro fr hfr i hi
    have := hA fr hfr i hi
    omega
  have hk : keptAtoms mol.atoms.length mol.frags R G = keptTo R G mol.frags mol.atoms.length := rfl
  have hfl := fragLoop_eq R G mol.frags mol.fc mol.fm mol.frags 0 hsk (by omega) (by omega)
  simp only [extractOrdered, hany, hk, hat, hfl, liftIdx, bind, Except.bind, pure, Except.pure]
  simp

/-- **source-derived get_fragment (order-preserving path) = the hand model**, for ALL molecules whose fragment lists name
existing atoms, no atom in two fragments, a charge and a multiplicity per fragment (every validated molecule), and ALL
lists `real`, `ghost` without a common element (any order, repeats, numbers outside the molecule, nothing selected): the
record the generated body hands to the constructor is the record of `Fragments.extract … false` (`extractOrdered` followed
by the `np.vstack([])` refusal), and it raises exactly when the model refuses -/
theorem srcExtract_ordered_eq_model {α} (mol : Mol α) (R G : List Nat)
    (hA : ∀ fr ∈ mol.frags, ∀ i ∈ fr, i < mol.atoms.length) (hd : DisjointFrags mol.frags)
    (hfc : mol.frags.length ≤ mol.fc.length) (hfm : mol.frags.length ≤ mol.fm.length)
    (hov : R.any (G.contains ·) = false) :
    (srcExtract mol R G false).bind (SrcCtor.toCtor mol) = (extract mol R G false).toOption := by
  have hsk := selKept_of_disjoint R G mol.frags hd
  obtain ⟨atoms, hat, hmodel⟩ := extractOrdered_eq mol R G hA hfc hfm hsk
  rw [srcExtract_eq_bind, srcExtract_ordered_run mol R G false hA hfc hfm hsk hov]
  simp only [extract, hov, Bool.false_eq_true, reduceIte, hmodel]
  have hlen := pick_length hat
  by_cases hK : keptTo R G mol.frags mol.atoms.length = []
  · have : atoms = [] := by
      rw [hK] at hlen; simpa using hlen
    simp [hK, this, Except.toOption]
  · have : atoms.isEmpty = false := by
      cases atoms with
      | nil => exact absurd (List.eq_nil_of_length_eq_zero (by simpa using hlen.symm)) hK
      | cons a t => rfl
    simp [hK, this, Except.toOption, SrcCtor.toCtor, orderedCtor, hat]

/-! ## refusals over the source-derived function -/

/-- [regenerated from molecule.py, rfl] the exception CLASS of the explicit `raise`: the only `raise` statement of
`get_fragment` is the one of the overlap test (tag 0 = first `raise` of the function, in `gfTop`) and the source names `TypeError` there; `nelectrons` and
`nuclear_repulsion_energy` contain no `raise`.  (The classes of the implicit refusals — IndexError of an index outside a list,
ValueError of `np.vstack([])`, TypeError of `set(None)` — are Python's, not the source's: the evaluator does not name them.) -/
theorem gf_raise_class : Gen.FragmentsSrc.gfRaises = [(0, "TypeError")] ∧ Gen.FragmentsSrc.neRaises = [] ∧
    Gen.FragmentsSrc.nreRaises = [] := ⟨rfl, rfl, rfl⟩

/-- the statements before the accumulators on overlapping lists: the first `raise` of the function is reached -/
theorem gf_overlap (inp : List Val) (R G : List Nat) (orient group : Bool) (hov : R.any (G.contains ·) = true)
    (grouped ordered : Stmt) :
    exec inp (fun _ _ => (0 : Int)) (gfTop grouped ordered) (gfInit R G orient group) = none := by
  have hany := any_natL R G
  rw [hov] at hany
  have h1 : exec inp (fun _ _ => (0 : Int)) (.ite (.isInt (.var 1)) (.set 1 (.list1 (.var 1))) .skip) (gfInit R G orient group) =
      some (gfInit R G orient group) := by
    simp [exec, evalE, gfInit, b2v, Val.truthy]
  have h2 : exec inp (fun _ _ => (0 : Int)) (.ite (.isInt (.var 2)) (.set 2 (.list1 (.var 2))) (.ite (.isNone (.var 2)) (.set 2 .nil) .skip))
      (gfInit R G orient group) = some (gfInit R G orient group) := by
    simp [exec, evalE, gfInit, b2v, Val.truthy]
  have h3 : exec inp (fun _ _ => (0 : Int)) (.ite (.anyCommon (.var 1) (.var 2)) (.raise 0) .skip) (gfInit R G orient group) =
      none := by
    simp only [exec, evalE, gfInit, List.getElem?_cons_succ, List.getElem?_cons_zero, hany]
    simp [b2v, Val.truthy]
  unfold gfTop
  rw [exec_seq', h1, Option.bind_some, exec_seq', h2, Option.bind_some, exec_seq', h3]
  rfl

theorem gfRun_lists {α} (mol : Mol α) (R G : List Nat) (orient group : Bool) :
    gfRun mol (.l (natL R)) (.l (natL G)) orient group =
      exec (gfInputs mol) (fun _ _ => (0 : Int)) (gfTop gGrouped gOrdered) (gfInit R G orient group) := by
  unfold gfRun run
  rw [gf_shape.1, gf_shape.2.1, gf_shape.2.2.1, gf_shape.2.2.2.1, gf_shape.2.2.2.2.1, gf_shape.2.2.2.2.2.1]
  rfl

/-- **refusal, overlapping selection** (both paths, any molecule, any `orient`): when a fragment number is in `real` and in
`ghost` the source-derived body raises (its first `raise`) and the model answers `overlap` -/
theorem srcExtract_overlap_refused {α} (mol : Mol α) (R G : List Nat) (orient group : Bool) (hov : R.any (G.contains ·) = true) :
    gfRun mol (.l (natL R)) (.l (natL G)) orient group = none ∧ srcExtract mol R G group = none ∧
      extract mol R G group = .error .overlap := by
  refine ⟨?_, ?_, ?_⟩
  · rw [gfRun_lists, gf_overlap _ R G orient group hov]
  · rw [srcExtract_eq_bind, gfRun_lists, gf_overlap _ R G false group hov]; rfl
  · unfold extract; rw [if_pos hov]

/-- non-vacuity (test): real = [0, 2], ghost = [2] overlap -/
example : ([0, 2] : List Nat).any (([2] : List Nat).contains ·) = true := by decide

theorem foldO_mem_none {σ β} (f : σ → β → Option σ) (a : β) (ha : ∀ s, f s a = none) :
    ∀ (l : List β) (s : σ), a ∈ l → foldO f s l = none
  | [], _, h => by simp at h
  | b :: t, s, h => by
    simp only [foldO]
    cases hb : f s b with
    | none => rfl
    | some s' =>
      rcases List.mem_cons.1 h with rfl | h'
      · rw [ha] at hb; cases hb
      · exact foldO_mem_none f a ha t s' h'

/-- one turn of a block loop of the grouped path on a fragment number without a fragment: `self.fragments[frag]` raises -/
theorem g_outer_oob (n : Nat) (zs : List Int) (real : List Bool) (frags : List (List Nat)) (fcs fms : List Int) (c : Int)
    (isReal : Bool) (k : Nat) (hk : frags.length ≤ k) (st : St Int) :
    exec (inputs n zs real frags fcs fms c) (fun _ _ => (0 : Int)) (gOuter isReal)
      { st with v := setSlot st.v 14 (.s (some (k : Int))) } = none := by
  have hn : nth? (frags.map natL) (k : Int) = none := by simp [nth?, hk]
  unfold gOuter
  rw [exec_seq', exec_set_eq]
  by_cases h14 : 14 < st.v.length
  · have : (setSlot st.v 14 (.s (some (k : Int))))[14]? = some (.s (some (k : Int))) := by simp [setSlot, h14]
    simp [evalE, inputs, this, hn]
  · have : (setSlot st.v 14 (.s (some (k : Int))))[14]? = none := by simp [setSlot]; omega
    simp [evalE, inputs, this]

/-- **refusal, fragment number out of range** (grouped path, any molecule, any `orient`): a number in `real` that names no
fragment makes the source-derived body raise (`self.fragments[frag]`, IndexError in Python) — it is never silently skipped —
and the model answers `index` -/
theorem srcExtract_grouped_oob_refused {α} (mol : Mol α) (R G : List Nat) (orient : Bool) (k : Nat) (hk : k ∈ R)
    (hoob : mol.frags.length ≤ k) (hov : R.any (G.contains ·) = false) :
    gfRun mol (.l (natL R)) (.l (natL G)) orient true = none ∧ srcExtract mol R G true = none ∧
      extract mol R G true = .error .index := by
  have hrun : ∀ o, gfRun mol (.l (natL R)) (.l (natL G)) o true = none := by
    intro o
    rw [gfRun_lists, gf_pre _ R G o true hov, if_pos rfl]
    have : exec (gfInputs mol) (fun _ _ => (0 : Int)) gGrouped (gfStart R G o true) = none := by
      unfold gGrouped gfStart
      rw [exec_seq']
      simp only [gst, exec_set_eq, evalE, setSlot, List.set, List.length_cons, List.length_nil,
        Nat.reduceAdd, Nat.reduceLT, reduceIte, Option.bind_some]
      rw [exec_seq', exec_forIn_eq]
      simp only [evalE, List.getElem?_cons_succ, List.getElem?_cons_zero, Option.bind_some, Val.items, List.length_cons,
        List.length_nil, Nat.reduceAdd, Nat.reduceLT, reduceIte]
      rw [foldO_mem_none _ (.s (some (k : Int)))
        (fun s => g_outer_oob mol.atoms.length [] mol.real mol.frags mol.fc mol.fm mol.c true k hoob s) _ _
        (by simp only [natL, List.mem_map]; exact ⟨some (k : Int), ⟨k, hk, rfl⟩, rfl⟩)]
      rfl
    rw [this]; rfl
  refine ⟨hrun orient, ?_, ?_⟩
  · rw [srcExtract_eq_bind, hrun false]; rfl
  · have hp : pick mol.frags R = none := by
      cases h : pick mol.frags R with
      | none => rfl
      | some r =>
        have := (pick_eq_some _ _ _).1 h
        have h2 : mol.frags[k]? ∈ R.map (fun i => mol.frags[i]?) := List.mem_map.2 ⟨k, hk, rfl⟩
        rw [this, List.getElem?_eq_none hoob] at h2
        simp at h2
    unfold extract
    rw [if_neg (by rw [hov]; simp), if_pos rfl]
    simp [extractGrouped, hp, liftIdx, bind, Except.bind]

/-- non-vacuity (test, kernel evaluation): real = [0, 5] on the three-fragment test molecule is refused on the grouped path,
while on the order-preserving path the source (and the model) IGNORE the number 5 — `5 in real` is never asked of a
fragment that does not exist -/
example : srcExtract testMol [0, 5] [] true = none ∧
    srcExtract testMol [0, 5] [] false = srcExtract testMol [0] [] false := by decide +kernel

/-- the grouped branch on a `ghost` list with a number naming no fragment, after real blocks that all exist: the ghost loop
raises at `self.fragments[frag]` -/
theorem g_grouped_ghost_oob (n : Nat) (zs : List Int) (real : List Bool) (frags : List (List Nat)) (fcs fms : List Int) (c : Int)
    (R G : List Nat) (orient : Bool) (hR : ∀ k ∈ R, FragOK n frags fcs fms k) (k : Nat) (hk : k ∈ G) (hoob : frags.length ≤ k) :
    exec (inputs n zs real frags fcs fms c) (fun _ _ => (0 : Int)) gGrouped (gfStart R G orient true) = none := by
  obtain ⟨a14, a15, a16, h1⟩ := g_outer (.s none) (.l (natL R)) (.l (natL G)) (b2v orient) (b2v true)
    (.s none) (.s none) (.s none) (.s none) (.s none) (.s none) (.s none) (.s none) (.s none) (.s none) (.s none) (.s none) (.s none) (.s none) (.s none) (.s none)
    n zs real frags fcs fms c true (.s (some 0)) R [] [] [] [] [] [] [] 0 (.s none) (.s none) (.s none) hR
  unfold gGrouped gfStart
  rw [exec_seq']
  simp only [gst, exec_set_eq, evalE, setSlot, List.set, List.length_cons, List.length_nil,
      Nat.reduceAdd, Nat.reduceLT, reduceIte, Option.bind_some]
  rw [exec_seq', exec_forIn_eq]
  simp only [evalE, List.getElem?_cons_succ, List.getElem?_cons_zero, Option.bind_some, Val.items, List.length_cons,
    List.length_nil, Nat.reduceAdd, Nat.reduceLT, reduceIte]
  simp only [gst, Nat.cast_zero] at h1
  rw [h1, Option.bind_some]
  rw [exec_seq']
  simp only [exec_set_eq, evalE, setSlot, List.set, List.length_cons, List.length_nil, List.getElem?_cons_succ,
      List.getElem?_cons_zero, Nat.reduceAdd, Nat.reduceLT, reduceIte, Option.bind_some, List.nil_append, osum_map_some,
      Option.map_some]
  have hm : List.map (fun k => some (fms.getD k 0)) R = intL (R.map (fun k => fms.getD k 0)) := by
    simp [intL, List.map_map, Function.comp_def]
  rw [hm, exec_seq']
  simp only [exec_set_eq, evalE, List.getElem?_cons_succ, List.getElem?_cons_zero]
  rw [compO_all (β := Unit) _ (· - 1) ?_ _ ?_]
  rotate_left
  · intro x; simp [setSlot]
  · intro x; simp [Val.truthy]
  simp only [osum_intL, Option.map_some, setSlot, List.set, List.length_cons, List.length_nil,
      Nat.reduceAdd, Nat.reduceLT, reduceIte, Option.bind_some]
  rw [exec_forIn_eq]
  simp only [evalE, List.getElem?_cons_succ, List.getElem?_cons_zero, Option.bind_some, Val.items, List.length_cons,
    List.length_nil, Nat.reduceAdd, Nat.reduceLT, reduceIte]
  exact foldO_mem_none _ (.s (some (k : Int))) (fun s => g_outer_oob n zs real frags fcs fms c false k hoob s) _ _
    (by simp only [natL, List.mem_map]; exact ⟨some (k : Int), ⟨k, hk, rfl⟩, rfl⟩)

/-- **refusal, fragment number out of range in `ghost`** (grouped path): when every number in `real` names a fragment (with
existing atoms, a charge and a multiplicity) and a number in `ghost` names none, the generated body raises in the ghost loop at
`self.fragments[frag]` and the model answers `index` -/
theorem srcExtract_grouped_ghost_oob_refused {α} (mol : Mol α) (R G : List Nat) (orient : Bool)
    (hR : ∀ k ∈ R, FragOK mol.atoms.length mol.frags mol.fc mol.fm k) (k : Nat) (hk : k ∈ G)
    (hoob : mol.frags.length ≤ k) (hov : R.any (G.contains ·) = false) :
    gfRun mol (.l (natL R)) (.l (natL G)) orient true = none ∧ srcExtract mol R G true = none ∧
      extract mol R G true = .error .index := by
  have hrun : ∀ o, gfRun mol (.l (natL R)) (.l (natL G)) o true = none := by
    intro o
    rw [gfRun_lists, gf_pre _ R G o true hov, if_pos rfl]
    unfold gfInputs
    rw [g_grouped_ghost_oob _ _ _ _ _ _ _ R G o hR k hk hoob]; rfl
  refine ⟨hrun orient, ?_, ?_⟩
  · rw [srcExtract_eq_bind, hrun false]; rfl
  · have hp : pick mol.frags G = none := by
      cases h : pick mol.frags G with
      | none => rfl
      | some r =>
        have := (pick_eq_some _ _ _).1 h
        have h2 : mol.frags[k]? ∈ G.map (fun i => mol.frags[i]?) := List.mem_map.2 ⟨k, hk, rfl⟩
        rw [this, List.getElem?_eq_none hoob] at h2
        simp at h2
    have p1 := pick_getD mol.frags [] R (fun k hk => (hR k hk).lt.1)
    unfold extract
    rw [if_neg (by rw [hov]; simp), if_pos rfl]
    simp [extractGrouped, hp, p1, liftIdx, bind, Except.bind]

/-- non-vacuity (test): real = [0], ghost = [1, 7] on the three-fragment test molecule -/
example : (∀ k ∈ [0], FragOK testMol.atoms.length testMol.frags testMol.fc testMol.fm k) ∧ (7 ∈ [1, 7]) ∧
    testMol.frags.length ≤ 7 ∧ ([0] : List Nat).any (([1, 7] : List Nat).contains ·) = false := by
  refine ⟨?_, by decide, by decide, by decide⟩
  intro k hk
  simp at hk
  subst hk
  exact ⟨[0, 1], 0, 1, rfl, by decide, rfl, rfl⟩


/-! ## argument forms: `real` an int or a list, `ghost` an int, `None` or a list -/

/-- the forms in which `get_fragment` accepts `real` / `ghost` -/
inductive ArgForm where
  | int (k : Nat)
  | none
  | list (l : List Nat)

def ArgForm.val : ArgForm → Val
  | .int k => .s (some (k : Int))
  | .none => .s Option.none
  | .list l => .l (natL l)

/-- `int -> [int]`, `None -> []` -/
def ArgForm.norm : ArgForm → List Nat
  | .int k => [k]
  | .none => []
  | .list l => l

def argInit (rv gv o g : Val) : St Int := ⟨[.s none, rv, gv, o, g, .s none, .s none, .s none, .s none, .s none, .s none, .s none, .s none, .s none, .s none, .s none, .s none, .s none, .s none, .s none, .s none, .s none, .s none, .s none, .s none, .s none, .s none, .s none, .s none, .s none, .s none, .s none, .s none], []⟩

theorem gfRun_argInit {α} (mol : Mol α) (rv gv : Val) (orient group : Bool) :
    gfRun mol rv gv orient group =
      exec (gfInputs mol) (fun _ _ => (0 : Int)) (gfTop gGrouped gOrdered) (argInit rv gv (b2v orient) (b2v group)) := by
  unfold gfRun run
  rw [gf_shape.1, gf_shape.2.1, gf_shape.2.2.1, gf_shape.2.2.2.1, gf_shape.2.2.2.2.1, gf_shape.2.2.2.2.2.1]
  rfl

theorem arg_real (inp : List Val) (rv : ArgForm) (hr : rv ≠ .none) (gv o g : Val) :
    exec inp (fun _ _ => (0 : Int)) (.ite (.isInt (.var 1)) (.set 1 (.list1 (.var 1))) .skip) (argInit rv.val gv o g) =
      some (argInit (.l (natL rv.norm)) gv o g) := by
  cases rv with
  | none => exact absurd rfl hr
  | int k => simp [exec, evalE, argInit, ArgForm.val, ArgForm.norm, b2v, Val.truthy, setSlot, natL]
  | list l => simp [exec, evalE, argInit, ArgForm.val, ArgForm.norm, b2v, Val.truthy]

theorem arg_ghost (inp : List Val) (gv : ArgForm) (rv o g : Val) :
    exec inp (fun _ _ => (0 : Int)) (.ite (.isInt (.var 2)) (.set 2 (.list1 (.var 2))) (.ite (.isNone (.var 2)) (.set 2 .nil) .skip))
      (argInit rv gv.val o g) = some (argInit rv (.l (natL gv.norm)) o g) := by
  cases gv with
  | none => simp [exec, evalE, argInit, ArgForm.val, ArgForm.norm, b2v, Val.truthy, setSlot, natL]
  | int k => simp [exec, evalE, argInit, ArgForm.val, ArgForm.norm, b2v, Val.truthy, setSlot, natL]
  | list l => simp [exec, evalE, argInit, ArgForm.val, ArgForm.norm, b2v, Val.truthy]

/-- **argument-form normalisation, all inputs**: for every molecule, `real` an int or any list, `ghost` an int, `None` or any
list, any `orient` / `group_fragments`, the source-derived body behaves exactly as on the normalised lists
(`int -> [int]`, `None -> []`) — same final state, same refusals -/
theorem gfRun_args {α} (mol : Mol α) (rv gv : ArgForm) (hr : rv ≠ .none) (orient group : Bool) :
    gfRun mol rv.val gv.val orient group = gfRun mol (.l (natL rv.norm)) (.l (natL gv.norm)) orient group := by
  have key : ∀ (rv gv : ArgForm), rv ≠ .none →
      exec (gfInputs mol) (fun _ _ => (0 : Int)) (gfTop gGrouped gOrdered) (argInit rv.val gv.val (b2v orient) (b2v group)) =
      (some (argInit (.l (natL rv.norm)) (.l (natL gv.norm)) (b2v orient) (b2v group))).bind
        (exec (gfInputs mol) (fun _ _ => (0 : Int)) (.seq (.ite (.anyCommon (.var 1) (.var 2)) (.raise 0) .skip) (.seq (.set 5 .nil) (.seq (.set 6 .nil) (.seq (.set 7 .nil) (.seq (.set 8 .nil) (.seq (.set 9 .nil) (.seq (.set 10 .nil) (.seq (.set 11 .nil) (.seq (.set 12 (.int 0)) (.seq (.ite (.var 4) gGrouped gOrdered) gfSuffix))))))))))) := by
    intro rv gv hr
    unfold gfTop
    rw [exec_seq', arg_real _ rv hr, Option.bind_some, exec_seq', arg_ghost _ gv]
  rw [gfRun_argInit, gfRun_argInit, key rv gv hr]
  have := key (.list rv.norm) (.list gv.norm) (by simp)
  exact this.symm

/-- **refusal, `real=None`**: the source-derived body raises at `set(real)` (TypeError in Python) for every molecule and
every form of `ghost` -/
theorem gfRun_real_none_refused {α} (mol : Mol α) (gv : ArgForm) (orient group : Bool) :
    gfRun mol (.s none) gv.val orient group = none := by
  rw [gfRun_argInit]
  unfold gfTop
  have h1 : exec (gfInputs mol) (fun _ _ => (0 : Int)) (.ite (.isInt (.var 1)) (.set 1 (.list1 (.var 1))) .skip)
      (argInit (.s none) gv.val (b2v orient) (b2v group)) = some (argInit (.s none) gv.val (b2v orient) (b2v group)) := by
    simp [exec, evalE, argInit, b2v, Val.truthy]
  have h3 : exec (gfInputs mol) (fun _ _ => (0 : Int)) (.ite (.anyCommon (.var 1) (.var 2)) (.raise 0) .skip)
      (argInit (.s none) (.l (natL gv.norm)) (b2v orient) (b2v group)) = none := by
    simp [exec, evalE, argInit]
  rw [exec_seq', h1, Option.bind_some, exec_seq', arg_ghost _ gv, Option.bind_some, exec_seq', h3]
  rfl

/-- `srcExtract_args_partial` at full strength for the record: int / None forms give the record of the list forms -/
theorem srcExtract_args {α} (mol : Mol α) (rv gv : ArgForm) (hr : rv ≠ .none) (group : Bool) :
    (gfRun mol rv.val gv.val false group).bind (fun st => readCtor st.v) = srcExtract mol rv.norm gv.norm group := by
  rw [gfRun_args mol rv gv hr, srcExtract_eq_bind]

/-- tests: `real = 2, ghost = None` and `real = [2, 0], ghost = 1` are instances -/
example : (ArgForm.int 2).val = .s (some 2) ∧ ArgForm.none.val = .s none ∧ (ArgForm.int 2).norm = [2] ∧ ArgForm.none.norm = [] :=
  ⟨rfl, rfl, rfl, rfl⟩

/-! ## the headline statements for `group_fragments=False`, over the source-derived function -/

/-- **atoms, flags, index lists, charges and multiplicities of the order-preserving path, over the source-derived body**
(restating `ordered_atoms_conserved`, `ordered_remap`'s list, `ordered_fragments_partition`, `ordered_chgmult` at the
constructor call): on a contiguous parent (every validated molecule) with a charge and a multiplicity per fragment and
disjoint `real` / `ghost`, whenever the generated body reaches the constructor its keyword arguments say: `symbols`,
`masses`, `geometry` rows are the same list = the parent's atoms whose fragment is selected, in original order, each once,
non-empty; an atom is flagged real iff its fragment is in `real` (ghost fragments flagged ghost); the index lists
concatenate to `0..n'-1`; per selected fragment in original order: remapped index list, `(fc, fm)` kept for a real
fragment and `(0, 1)` for a ghost; no totals are passed (the constructor completes them from the fragments) -/
theorem srcOrdered_headline {α} (mol : Mol α) (R G : List Nat) (orient : Bool)
    (hc : mol.frags.flatten = List.range mol.atoms.length)
    (hfc : mol.frags.length ≤ mol.fc.length) (hfm : mol.frags.length ≤ mol.fm.length)
    (hov : R.any (G.contains ·) = false) (k : SrcCtor)
    (h : (gfRun mol (.l (natL R)) (.l (natL G)) orient false).bind (fun st => readCtor st.v) = some k) :
    let kept := (List.range mol.atoms.length).filter (keepAtom mol.frags R G)
    let S := (mol.frags.zipIdx 0).filter (fun p => R.contains p.2 || G.contains p.2)
    k.sym = kept ∧ k.mass = kept ∧ k.geom = kept ∧ kept ≠ [] ∧ kept.Pairwise (· < ·) ∧
    (∀ i, i ∈ kept ↔ i < mol.atoms.length ∧ ∃ j fr, mol.frags[j]? = some fr ∧ i ∈ fr ∧ (j ∈ R ∨ j ∈ G)) ∧
    k.real = kept.map (realAtom mol.frags R) ∧
    (∀ i, realAtom mol.frags R i = true ↔ ∃ j fr, mol.frags[j]? = some fr ∧ i ∈ fr ∧ j ∈ R) ∧
    k.frags.flatten = List.range kept.length ∧
    k.frags.map (fun f => f.map some) = S.map (fun p => p.1.map (at2at mol.frags R G)) ∧
    k.fc.map some = S.map (fun p => if R.contains p.2 then mol.fc[p.2]? else some 0) ∧
    k.fm.map some = S.map (fun p => if R.contains p.2 then mol.fm[p.2]? else some 1) ∧
    k.c = none ∧ k.m = none := by
  have hA : ∀ fr ∈ mol.frags, ∀ i ∈ fr, i < mol.atoms.length := by
    intro fr hfr i hi
    have : i ∈ mol.frags.flatten := List.mem_flatten.2 ⟨fr, hfr, hi⟩
    rw [hc] at this
    exact List.mem_range.1 this
  have hd : DisjointFrags mol.frags := disjoint_of_nodup_flatten _ (hc ▸ List.nodup_range)
  have hsk := selKept_of_disjoint R G mol.frags hd
  rw [srcExtract_ordered_run mol R G orient hA hfc hfm hsk hov] at h
  obtain ⟨atoms, hat, hmodel⟩ := extractOrdered_eq mol R G hA hfc hfm hsk
  have hfl := fragLoop_eq R G mol.frags mol.fc mol.fm mol.frags 0 hsk (by omega) (by omega)
  by_cases hK : keptTo R G mol.frags mol.atoms.length = []
  · simp [hK] at h
  · rw [if_neg hK] at h
    cases h
    obtain ⟨kept, hkept, hpw, hmem, _, _, hreal⟩ := ordered_atoms_conserved hmodel hd
    have hpart := ordered_fragments_partition hmodel hc
    have hspec := fragLoop_spec _ _ _ _ _ _ _ _ _ _ hfl
    have hlen := pick_length hat
    simp only at hpart
    rw [hlen] at hpart
    subst hkept
    exact ⟨rfl, rfl, rfl, hK, hpw, hmem, rfl, hreal, hpart, hspec.1, hspec.2.1, hspec.2.2, rfl, rfl⟩

/-- non-vacuity (test, kernel evaluation): the hypotheses of `srcExtract_ordered_eq_model` / `srcOrdered_headline` hold for the
test molecule with real = [2], ghost = [0] and the body reaches the constructor -/
example : testMol.frags.flatten = List.range testMol.atoms.length ∧ testMol.frags.length ≤ testMol.fc.length ∧
    testMol.frags.length ≤ testMol.fm.length ∧ ([2] : List Nat).any (([0] : List Nat).contains ·) = false ∧
    (srcExtract testMol [2] [0] false).isSome = true := by decide +kernel

end QcelVerif.FragSrc
