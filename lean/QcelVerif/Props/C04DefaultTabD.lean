import QcelVerif.Props.C04DefaultNuc
/-! C04 (extension) — kernel evaluation of `elementIsoOk` (Props/C04DefaultNuc.lean) over the generated periodic
table, four element rows per obligation (each `decide +kernel` ≈ 10–15 s); part D of A–E.  Re-checked whenever
`tools/gen_periodic.py` regenerates `Gen/PT.lean` from a changed data file. -/
namespace QcelVerif.FromArrays
open QcelVerif QcelVerif.Nucleus
set_option maxRecDepth 100000

theorem iso_rows_72 : ((Gen.PT.elements.drop 72).take 4).all elementIsoOk = true := by decide +kernel
theorem iso_rows_76 : ((Gen.PT.elements.drop 76).take 4).all elementIsoOk = true := by decide +kernel
theorem iso_rows_80 : ((Gen.PT.elements.drop 80).take 4).all elementIsoOk = true := by decide +kernel
theorem iso_rows_84 : ((Gen.PT.elements.drop 84).take 4).all elementIsoOk = true := by decide +kernel
theorem iso_rows_88 : ((Gen.PT.elements.drop 88).take 4).all elementIsoOk = true := by decide +kernel
theorem iso_rows_92 : ((Gen.PT.elements.drop 92).take 4).all elementIsoOk = true := by decide +kernel

end QcelVerif.FromArrays
