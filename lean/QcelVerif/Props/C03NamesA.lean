import QcelVerif.Lemmas.UnitNamesChk
/-! C03 text level: every listed spelling of these table units resolves to its unit over the regenerated registry names
(kernel evaluation, one table unit per lemma; the collisions are the eight of `collisionTable`).  Helper lemmas for `Props/C03Text.lean`. -/
namespace QcelVerif.Units.Text

theorem sp_meter : (spellingsOf .meter).all chk = true := by decide +kernel
theorem sp_angstrom : (spellingsOf .angstrom).all chk = true := by decide +kernel
theorem sp_angstromCap : (spellingsOf .angstromCap).all chk = true := by decide +kernel
theorem sp_bohr : (spellingsOf .bohr).all chk = true := by decide +kernel
theorem sp_inch : (spellingsOf .inch).all chk = true := by decide +kernel
theorem sp_foot : (spellingsOf .foot).all chk = true := by decide +kernel
theorem sp_yard : (spellingsOf .yard).all chk = true := by decide +kernel
theorem sp_mile : (spellingsOf .mile).all chk = true := by decide +kernel
theorem sp_gram : (spellingsOf .gram).all chk = true := by decide +kernel
theorem sp_amu : (spellingsOf .amu).all chk = true := by decide +kernel
theorem sp_emass : (spellingsOf .emass).all chk = true := by decide +kernel
theorem sp_second : (spellingsOf .second).all chk = true := by decide +kernel
theorem sp_minute : (spellingsOf .minute).all chk = true := by decide +kernel
theorem sp_hour : (spellingsOf .hour).all chk = true := by decide +kernel

end QcelVerif.Units.Text
