import QcelVerif.Props.C01NucPred
/-! C01: quarter 2 of the nuclide table (kernel evaluation), built in parallel with the other quarters. -/
namespace QcelVerif.PT
open QcelVerif
set_option maxRecDepth 100000
theorem nuclides_resolve_q2 : Gen.PT.nuclidesQ2.all nuclideRowOk = true := by decide +kernel
theorem nuclides_anycase_q2 : Gen.PT.nuclidesQ2.all nuclideRowAnycaseOk = true := by decide +kernel
theorem tree_rows_q2 : Gen.PT.nuclidesQ2.all treeRowOk = true := by decide +kernel
theorem masses_float_q2 : Gen.PT.nuclidesQ2.all massFloatOk = true := by decide +kernel
end QcelVerif.PT
