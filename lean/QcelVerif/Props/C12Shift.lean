import QcelVerif.Props.C12Unique
/-!
# C12 — quantitative recovery of the SHIFT (the item `Props/C12Unique.lean` left as `-- FULL:`)

Setting (the code's conventions, as in `Props/C12Unique.lean`): the second geometry is `c = r·A + t` atom by atom
(`A` proper), the recipe is applied as `aligned = (c − T)·U` (`alignCoords`, models/align.py:82-83; `U` proper) and
`kabsch_align` returns `T = c̄ − U r̄` (align.py:496).  Write `dev r = aligned r − r` for the residual of atom `r`,
`r̄` for the centroid of the reference and `d̄ = dev r̄` for the residual of the centroid, which is the mean of the
residuals because the composite map is affine (`mean_residual_eq`).  Then

* `shift_error_eq`            `T − t = r̄·(A − Uᵀ) − d̄·Uᵀ`  : the shift error is the rotation error applied to the
                              reference centroid plus the (rotated back) centroid residual — an identity, any `r̄`
* `centred_residual_nrm2`     `|dev r − d̄|² = |ρ·A − ρ·Uᵀ|²` with `ρ = r − r̄` : the centred residual the harness
                              measures is the quantity `recovery_rotation_close` is about (`R₁ = A`, `R₂ = Uᵀ`)
* `nrm2_add_le_sq`            sqrt-free triangle inequality: `|x|² ≤ X²`, `|y|² ≤ Y²`, `X, Y ≥ 0` ⇒ `|x + y|² ≤ (X+Y)²`
* `rotation_close_of_close_on_two_any`, `rotation_error_on_vector`
                              `m·|w·(A − Uᵀ)|² ≤ 16·L2·e2·|w|²` for EVERY vector `w` (`recovery_rotation_close` speaks of
                              `|v|² ≤ 1`; over ℚ a vector cannot be normalised, so the Cramer argument is redone with the
                              factor `|w|²` carried along)
* **`recovery_shift_close`**  with the hypotheses of `recovery_rotation_close` (centred residual² ≤ e2 on every atom,
                              `|ρ|² ≤ L2`, margin `m > 0`): for all `X, Y ≥ 0` with `16·L2·e2·|r̄|² ≤ m·X²` and
                              `|d̄|² ≤ Y²`:  `|T − t|² ≤ (X + Y)²`, i.e. `|T − t| ≤ 4·L·ε·|r̄|/√m + |d̄|`
* `recovery_shift_close_on_two`     the two-atom form the harness evaluates (L2, e2 of the two atoms attaining the margin)
* `recovery_shift_close_residuals`  the same with the hypotheses stated on the per-atom residuals of the recipe
* `recovery_shift_close_uniform`    fully explicit from ONE number: `|dev r|² ≤ e2` on every atom (uncentred) ⇒
                              `|d̄|² ≤ e2`, centred residual² ≤ 4·e2, hence `|T − t| ≤ 8·L·ε·|r̄|/√m + ε`
* `recovery_shift_exact`      `e2 = 0`, `d̄ = 0` ⇒ `T = t` (consistency with `motion_unique`)

Everything holds over every linearly ordered field (ℚ, where the driver runs, and ℝ); no square roots.

Remark on what this means for the check: the bounds hold for ANY recipe `(U, T)` with `U` proper — they say that a small
residual (RMSD ≈ 0) on a non-collinear molecule FORCES rotation and shift to be close to the applied ones.  The oracle
clause "rotation/shift are those applied" is therefore, on the margin class, a consequence of the clause "RMSD is zero to
numerical precision" with the tolerance scaled by `4L|r̄|/√g`; an implementation can violate the latter, not the former
alone.
-/
namespace QcelVerif.Kabsch
variable {K : Type}

section Ring
variable [CommRing K]

/-- the recipe applied to the moved copy of `r`: `((r·A + t) − T)·U` (models/align.py:82-83 on `c = r·A + t`) -/
def alignedOf (A U : M3 K) (t T r : V3 K) : V3 K := rowMul (((rowMul r A).add t).sub T) U

/-- residual of one atom: `aligned − reference` -/
def devOf (A U : M3 K) (t T r : V3 K) : V3 K := (alignedOf A U t T r).sub r

/-- the composite of motion and recipe is the affine map `r ↦ r·(A U) + (t − T)·U` -/
theorem alignedOf_affine (A U : M3 K) (t T r : V3 K) :
    alignedOf A U t T r = (rowMul r (A.mul U)).add (rowMul (t.sub T) U) := by
  rw [rowMul_mul]
  ext <;> simp only [alignedOf, rowMul, V3.add, V3.sub] <;> ring

/-- **the shift error** (identity, any point `p` in place of the centroid): with `d = dev p`,
    `T − t = p·A − p·Uᵀ − d·Uᵀ`.  Only `U Uᵀ = I` is used. -/
theorem shift_error_eq (A U : M3 K) (hoU : U.mul U.transpose = M3.one) (t T p : V3 K) :
    T.sub t = ((rowMul p A).sub (rowMul p U.transpose)).sub (rowMul (devOf A U t T p) U.transpose) := by
  have h : rowMul (rowMul (((rowMul p A).add t).sub T) U) U.transpose = ((rowMul p A).add t).sub T := by
    rw [← rowMul_mul, hoU, rowMul_one]
  have e : rowMul (devOf A U t T p) U.transpose
      = (((rowMul p A).add t).sub T).sub (rowMul p U.transpose) := by
    rw [devOf, alignedOf, rowMul_sub, h]
  rw [e]
  ext <;> simp only [V3.sub, V3.add] <;> ring

/-- the centred residual is the rotation error on the centred position vector, rotated by `U`:
    `dev r − dev p = ((r − p)·A − (r − p)·Uᵀ)·U` -/
theorem centred_residual_eq (A U : M3 K) (hU : IsRot U) (t T r p : V3 K) :
    (devOf A U t T r).sub (devOf A U t T p)
      = rowMul ((rowMul (r.sub p) A).sub (rowMul (r.sub p) U.transpose)) U := by
  have h : rowMul (rowMul (r.sub p) U.transpose) U = r.sub p := rowMul_transpose_rowMul hU _
  rw [rowMul_sub, h]
  simp only [devOf, alignedOf]
  ext <;> simp only [rowMul, V3.sub, V3.add] <;> ring

/-- … and therefore has the same length: `|dev r − dev p|² = |(r − p)·A − (r − p)·Uᵀ|²` -/
theorem centred_residual_nrm2 (A U : M3 K) (hU : IsRot U) (t T r p : V3 K) :
    ((devOf A U t T r).sub (devOf A U t T p)).nrm2
      = ((rowMul (r.sub p) A).sub (rowMul (r.sub p) U.transpose)).nrm2 := by
  rw [centred_residual_eq A U hU, nrm2_rowMul hU]

end Ring

section Ordered
variable [Field K] [LinearOrder K] [IsStrictOrderedRing K]

/-- the mean of the residuals is the residual of the centroid (the composite map is affine):
    `centroid (aligned atoms) − centroid (reference) = dev r̄` -/
theorem mean_residual_eq (A U : M3 K) (t T : V3 K) (Rg : List (V3 K)) (hne : Rg ≠ []) :
    (centroid (Rg.map (alignedOf A U t T))).sub (centroid Rg) = devOf A U t T (centroid Rg) := by
  have hfun : Rg.map (alignedOf A U t T)
      = Rg.map (fun r => (rowMul r (A.mul U)).add (rowMul (t.sub T) U)) :=
    List.map_congr_left (fun r _ => alignedOf_affine A U t T r)
  rw [hfun, centroid_moved (A.mul U) (rowMul (t.sub T) U) Rg hne, devOf, alignedOf_affine]

/-- sqrt-free triangle inequality: `|x|² ≤ X²`, `|y|² ≤ Y²`, `X, Y ≥ 0`  ⇒  `|x + y|² ≤ (X + Y)²` -/
theorem nrm2_add_le_sq (x y : V3 K) (X Y : K) (hX : 0 ≤ X) (hY : 0 ≤ Y) (hx : x.nrm2 ≤ X ^ 2) (hy : y.nrm2 ≤ Y ^ 2) :
    (x.add y).nrm2 ≤ (X + Y) ^ 2 := by
  have hd : x.dot y ^ 2 ≤ (X * Y) ^ 2 := by
    refine le_trans (dot_sq_le x y) ?_
    rw [mul_pow]
    exact mul_le_mul hx hy (V3.nrm2_nonneg _) (sq_nonneg X)
  have hxy : x.dot y ≤ X * Y := by
    have := abs_le_of_sq_le_sq' hd (mul_nonneg hX hY)
    exact this.2
  have e : (x.add y).nrm2 = x.nrm2 + 2 * x.dot y + y.nrm2 := by
    simp only [V3.nrm2, V3.add, V3.dot]; ring
  rw [e]
  nlinarith

theorem nrm2_sub_le_sq (x y : V3 K) (X Y : K) (hX : 0 ≤ X) (hY : 0 ≤ Y) (hx : x.nrm2 ≤ X ^ 2) (hy : y.nrm2 ≤ Y ^ 2) :
    (x.sub y).nrm2 ≤ (X + Y) ^ 2 := by
  have e : x.sub y = x.add (V3.smul (-1) y) := by
    ext <;> simp only [V3.sub, V3.add, V3.smul] <;> ring
  rw [e]
  apply nrm2_add_le_sq x _ X Y hX hY hx
  rw [nrm2_smul]
  linarith

/-- `rotation_close_of_close_on_two` for a vector `v` of ANY length (the same Cramer decomposition in the basis
    `a, b, a × b`, every coefficient bound carrying the factor `|v|²`; over ℚ a vector cannot be normalised, so this
    is not a corollary of the unit-ball statement):  `|a×b|²·|v·R₁ − v·R₂|² ≤ 16·L2·e2·|v|²` -/
theorem rotation_close_of_close_on_two_any (R₁ R₂ : M3 K) (ho₁ : R₁.mul R₁.transpose = M3.one) (hd₁ : R₁.det = 1)
    (ho₂ : R₂.mul R₂.transpose = M3.one) (hd₂ : R₂.det = 1) (a b : V3 K) (L2 e2 : K)
    (haL : a.nrm2 ≤ L2) (hbL : b.nrm2 ≤ L2)
    (hae : ((rowMul a R₁).sub (rowMul a R₂)).nrm2 ≤ e2) (hbe : ((rowMul b R₁).sub (rowMul b R₂)).nrm2 ≤ e2)
    (hg : 0 < cross2 a b) (v : V3 K) :
    cross2 a b * ((rowMul v R₁).sub (rowMul v R₂)).nrm2 ≤ 16 * L2 * e2 * v.nrm2 := by
  have h₁ : IsRot R₁ := ⟨ho₁, hd₁⟩
  have h₂ : IsRot R₂ := ⟨ho₂, hd₂⟩
  set g := cross2 a b with hgdef
  set n := V3.cross a b with hn
  set x := (rowMul a R₁).sub (rowMul a R₂) with hx
  set y := (rowMul b R₁).sub (rowMul b R₂) with hy
  set z := (rowMul n R₁).sub (rowMul n R₂) with hz
  set α := v.dot (V3.cross b n) with hα
  set β := v.dot (V3.cross n a) with hβ
  set γ := v.dot n with hγ
  set t := v.nrm2 with ht
  have he0 : 0 ≤ e2 := le_trans (V3.nrm2_nonneg _) hae
  have hL0 : 0 ≤ L2 := le_trans (V3.nrm2_nonneg _) haL
  have ht0 : 0 ≤ t := V3.nrm2_nonneg _
  have hzle : z.nrm2 ≤ 4 * L2 * e2 := cross_error_le R₁ R₂ h₁ h₂ a b L2 e2 haL hbL hae hbe
  have hdecomp : V3.smul g ((rowMul v R₁).sub (rowMul v R₂))
      = ((V3.smul α x).add (V3.smul β y)).add (V3.smul γ z) := by
    have c := cramer_cross a b v
    have e : ∀ R : M3 K, V3.smul g (rowMul v R)
        = ((V3.smul α (rowMul a R)).add (V3.smul β (rowMul b R))).add (V3.smul γ (rowMul n R)) := by
      intro R
      rw [← rowMul_smul, c, rowMul_add, rowMul_add, rowMul_smul, rowMul_smul, rowMul_smul]
    have e1 := e R₁
    have e2' := e R₂
    rw [hx, hy, hz]
    simp only [V3.ext_iff, V3.smul, V3.add, V3.sub] at e1 e2' ⊢
    exact ⟨by linear_combination e1.1 - e2'.1, by linear_combination e1.2.1 - e2'.2.1,
      by linear_combination e1.2.2 - e2'.2.2⟩
  have hα2 : α ^ 2 ≤ t * (L2 * g) := by
    have h := dot_sq_le v (V3.cross b n)
    have hc : (V3.cross b n).nrm2 = b.nrm2 * g := cross2_right_cross a b
    rw [hc] at h
    exact le_trans h (mul_le_mul_of_nonneg_left (mul_le_mul_of_nonneg_right hbL hg.le) ht0)
  have hβ2 : β ^ 2 ≤ t * (L2 * g) := by
    have h := dot_sq_le v (V3.cross n a)
    have hc : (V3.cross n a).nrm2 = a.nrm2 * g := cross2_cross_left a b
    rw [hc] at h
    exact le_trans h (mul_le_mul_of_nonneg_left (mul_le_mul_of_nonneg_right haL hg.le) ht0)
  have hγ2 : γ ^ 2 ≤ t * g := dot_sq_le v n
  have hP : ((V3.smul α x).add (V3.smul β y)).nrm2 ≤ 4 * L2 * g * e2 * t := by
    refine le_trans (nrm2_comb2_le α β x y) ?_
    have h1 : α ^ 2 + β ^ 2 ≤ 2 * (t * (L2 * g)) := by linarith
    have h2 : x.nrm2 + y.nrm2 ≤ 2 * e2 := by linarith
    have := mul_le_mul h1 h2 (add_nonneg (V3.nrm2_nonneg _) (V3.nrm2_nonneg _))
      (mul_nonneg zero_le_two (mul_nonneg ht0 (mul_nonneg hL0 hg.le)))
    linarith
  have hQ : (V3.smul γ z).nrm2 ≤ 4 * L2 * g * e2 * t := by
    rw [nrm2_smul]
    have := mul_le_mul hγ2 hzle (V3.nrm2_nonneg _) (mul_nonneg ht0 hg.le)
    linarith
  have htot : (V3.smul g ((rowMul v R₁).sub (rowMul v R₂))).nrm2 ≤ 16 * L2 * g * e2 * t := by
    rw [hdecomp]
    have := nrm2_add_le_two ((V3.smul α x).add (V3.smul β y)) (V3.smul γ z)
    linarith
  rw [nrm2_smul] at htot
  have : g * (g * ((rowMul v R₁).sub (rowMul v R₂)).nrm2) ≤ g * (16 * L2 * e2 * t) := by
    calc g * (g * ((rowMul v R₁).sub (rowMul v R₂)).nrm2)
        = g ^ 2 * ((rowMul v R₁).sub (rowMul v R₂)).nrm2 := by ring
      _ ≤ 16 * L2 * g * e2 * t := htot
      _ = g * (16 * L2 * e2 * t) := by ring
  exact le_of_mul_le_mul_left this hg

/-- `recovery_rotation_close` for a vector of ANY length: `m·|w·R₁ − w·R₂|² ≤ 16·L2·e2·|w|²` -/
theorem rotation_error_on_vector (R₁ R₂ : M3 K) (ho₁ : R₁.mul R₁.transpose = M3.one) (hd₁ : R₁.det = 1)
    (ho₂ : R₂.mul R₂.transpose = M3.one) (hd₂ : R₂.det = 1) (cs : List (V3 K)) (L2 e2 m : K)
    (hL : ∀ c ∈ cs, c.nrm2 ≤ L2) (he : ∀ c ∈ cs, ((rowMul c R₁).sub (rowMul c R₂)).nrm2 ≤ e2)
    (hnc : NonCollinearBy m cs) (hm : 0 < m) (w : V3 K) :
    m * ((rowMul w R₁).sub (rowMul w R₂)).nrm2 ≤ 16 * L2 * e2 * w.nrm2 := by
  obtain ⟨a, ha, b, hb, hab⟩ := hnc
  have h := rotation_close_of_close_on_two_any R₁ R₂ ho₁ hd₁ ho₂ hd₂ a b L2 e2 (hL a ha) (hL b hb) (he a ha)
    (he b hb) (lt_of_lt_of_le hm hab) w
  exact le_trans (mul_le_mul_of_nonneg_right hab (V3.nrm2_nonneg _)) h

/-! ## the shift -/

/-- **quantitative shift recovery.**  Reference `Rg` (non-empty), second geometry `c = r·A + t`, recipe
    `aligned = (c − T)·U`, `A`, `U` proper.  Hypotheses of `recovery_rotation_close` on the centred reference
    (`R₁ = A`, `R₂ = Uᵀ`): `|ρ|² ≤ L2` and `|ρ·A − ρ·Uᵀ|² ≤ e2` for every centred position vector `ρ` (the latter is
    the centred residual of that atom, `centred_residual_nrm2`), two atoms with `|ρ_a × ρ_b|² ≥ m > 0`.  With
    `r̄` the reference centroid and `d̄ = dev r̄` the mean residual:

    * `T − t = r̄·(A − Uᵀ) − d̄·Uᵀ`,
    * `m·|r̄·(A − Uᵀ)|² ≤ 16·L2·e2·|r̄|²`,
    * for all `X, Y ≥ 0` with `16·L2·e2·|r̄|² ≤ m·X²` and `|d̄|² ≤ Y²`:  `|T − t|² ≤ (X + Y)²`

    — i.e. `|T − t| ≤ (4·L·ε/√m)·|r̄| + |d̄|` with `ε² = e2`, `L² = L2`, stated without square roots. -/
theorem recovery_shift_close (A U : M3 K) (hoA : A.mul A.transpose = M3.one) (hdA : A.det = 1)
    (hoU : U.mul U.transpose = M3.one) (hdU : U.det = 1) (t T : V3 K) (Rg : List (V3 K)) (L2 e2 m : K)
    (hL : ∀ ρ ∈ centre Rg, ρ.nrm2 ≤ L2)
    (he : ∀ ρ ∈ centre Rg, ((rowMul ρ A).sub (rowMul ρ U.transpose)).nrm2 ≤ e2)
    (hm : 0 < m) (hnc : NonCollinearBy m (centre Rg)) :
    T.sub t = ((rowMul (centroid Rg) A).sub (rowMul (centroid Rg) U.transpose)).sub
        (rowMul (devOf A U t T (centroid Rg)) U.transpose)
    ∧ m * ((rowMul (centroid Rg) A).sub (rowMul (centroid Rg) U.transpose)).nrm2
        ≤ 16 * L2 * e2 * (centroid Rg).nrm2
    ∧ ∀ X Y : K, 0 ≤ X → 0 ≤ Y → 16 * L2 * e2 * (centroid Rg).nrm2 ≤ m * X ^ 2 →
        (devOf A U t T (centroid Rg)).nrm2 ≤ Y ^ 2 → (T.sub t).nrm2 ≤ (X + Y) ^ 2 := by
  have hU : IsRot U := ⟨hoU, hdU⟩
  have hUT : IsRot U.transpose := hU.transpose
  have hid := shift_error_eq A U hoU t T (centroid Rg)
  have hrot := rotation_error_on_vector A U.transpose hoA hdA hUT.orth hUT.det (centre Rg) L2 e2 m hL he hnc hm
    (centroid Rg)
  refine ⟨hid, hrot, ?_⟩
  intro X Y hX hY hXb hYb
  rw [hid]
  apply nrm2_sub_le_sq _ _ X Y hX hY
  · have : m * ((rowMul (centroid Rg) A).sub (rowMul (centroid Rg) U.transpose)).nrm2 ≤ m * X ^ 2 :=
      le_trans hrot hXb
    exact le_of_mul_le_mul_left this hm
  · rw [nrm2_rowMul hUT]; exact hYb

/-- the two-atom form the harness evaluates (its `L2` is the larger square norm of the TWO atoms attaining the exact
    margin `g` of driver op `N`, its `e2` bounds their centred residuals): for any two centred position vectors `a`, `b`
    with `|a|², |b|² ≤ L2`, `|a·A − a·Uᵀ|², |b·A − b·Uᵀ|² ≤ e2`, `g = |a × b|² > 0`, and ANY point `p` (the reference
    centroid) with residual `d = dev p`:  `|T − t|² ≤ (X + Y)²` whenever `16·L2·e2·|p|² ≤ g·X²`, `|d|² ≤ Y²`. -/
theorem recovery_shift_close_on_two (A U : M3 K) (hoA : A.mul A.transpose = M3.one) (hdA : A.det = 1)
    (hoU : U.mul U.transpose = M3.one) (hdU : U.det = 1) (t T p a b : V3 K) (L2 e2 : K)
    (haL : a.nrm2 ≤ L2) (hbL : b.nrm2 ≤ L2)
    (hae : ((rowMul a A).sub (rowMul a U.transpose)).nrm2 ≤ e2)
    (hbe : ((rowMul b A).sub (rowMul b U.transpose)).nrm2 ≤ e2)
    (hg : 0 < cross2 a b) (X Y : K) (hX : 0 ≤ X) (hY : 0 ≤ Y)
    (hXb : 16 * L2 * e2 * p.nrm2 ≤ cross2 a b * X ^ 2) (hYb : (devOf A U t T p).nrm2 ≤ Y ^ 2) :
    (T.sub t).nrm2 ≤ (X + Y) ^ 2 := by
  have hU : IsRot U := ⟨hoU, hdU⟩
  have hUT : IsRot U.transpose := hU.transpose
  have hrot := rotation_close_of_close_on_two_any A U.transpose hoA hdA hUT.orth hUT.det a b L2 e2 haL hbL hae hbe hg p
  rw [shift_error_eq A U hoU t T p]
  apply nrm2_sub_le_sq _ _ X Y hX hY
  · exact le_of_mul_le_mul_left (le_trans hrot hXb) hg
  · rw [nrm2_rowMul hUT]; exact hYb

/-- the same with the hypotheses on what the harness measures: the per-atom residuals `dev r = aligned r − r` of
    the recipe, centred by their mean `d̄ = centroid(aligned) − centroid(reference)`:
    `|dev r − d̄|² ≤ e2` for every atom, `|d̄|² ≤ Y²`. -/
theorem recovery_shift_close_residuals (A U : M3 K) (hoA : A.mul A.transpose = M3.one) (hdA : A.det = 1)
    (hoU : U.mul U.transpose = M3.one) (hdU : U.det = 1) (t T : V3 K) (Rg : List (V3 K)) (hne : Rg ≠ [])
    (L2 e2 m : K)
    (hL : ∀ r ∈ Rg, (r.sub (centroid Rg)).nrm2 ≤ L2)
    (he : ∀ r ∈ Rg, ((devOf A U t T r).sub
        ((centroid (Rg.map (alignedOf A U t T))).sub (centroid Rg))).nrm2 ≤ e2)
    (hm : 0 < m) (hnc : NonCollinearBy m (centre Rg))
    (X Y : K) (hX : 0 ≤ X) (hY : 0 ≤ Y) (hXb : 16 * L2 * e2 * (centroid Rg).nrm2 ≤ m * X ^ 2)
    (hYb : ((centroid (Rg.map (alignedOf A U t T))).sub (centroid Rg)).nrm2 ≤ Y ^ 2) :
    (T.sub t).nrm2 ≤ (X + Y) ^ 2 := by
  have hU : IsRot U := ⟨hoU, hdU⟩
  rw [mean_residual_eq A U t T Rg hne] at he hYb
  have h := recovery_shift_close A U hoA hdA hoU hdU t T Rg L2 e2 m
    (by
      intro ρ hρ
      obtain ⟨r, hr, rfl⟩ := List.mem_map.mp hρ
      exact hL r hr)
    (by
      intro ρ hρ
      obtain ⟨r, hr, rfl⟩ := List.mem_map.mp hρ
      rw [← centred_residual_nrm2 A U hU t T r (centroid Rg)]
      exact he r hr)
    hm hnc
  exact h.2.2 X Y hX hY hXb hYb

/-- exact case: centred residuals all zero and mean residual zero ⇒ `T = t` (agrees with `motion_unique`) -/
theorem recovery_shift_exact (A U : M3 K) (hoA : A.mul A.transpose = M3.one) (hdA : A.det = 1)
    (hoU : U.mul U.transpose = M3.one) (hdU : U.det = 1) (t T : V3 K) (Rg : List (V3 K)) (L2 m : K)
    (hL : ∀ ρ ∈ centre Rg, ρ.nrm2 ≤ L2)
    (he : ∀ ρ ∈ centre Rg, ((rowMul ρ A).sub (rowMul ρ U.transpose)).nrm2 ≤ 0)
    (hm : 0 < m) (hnc : NonCollinearBy m (centre Rg))
    (hd : (devOf A U t T (centroid Rg)).nrm2 ≤ 0) : T = t := by
  have h := (recovery_shift_close A U hoA hdA hoU hdU t T Rg L2 0 m hL he hm hnc).2.2 0 0 le_rfl le_rfl
    (by simp) (by simpa using hd)
  have h0 : (T.sub t).nrm2 = 0 := le_antisymm (by simpa using h) (V3.nrm2_nonneg _)
  have hz := (nrm2_eq_zero_iff _).mp h0
  simp only [V3.ext_iff, V3.sub, V3.zero] at hz ⊢
  exact ⟨by linear_combination hz.1, by linear_combination hz.2.1, by linear_combination hz.2.2⟩

/-! ## fully explicit from one number: `|dev r|² ≤ e2` on every atom -/

/-- `|Σ v|² ≤ n²·e2` when every `|v|² ≤ e2` (induction with `2 a·s ≤ k|a|² + |s|²/k`) -/
theorem vsum_nrm2_le (l : List (V3 K)) (e2 : K) (h : ∀ v ∈ l, v.nrm2 ≤ e2) (he0 : 0 ≤ e2) :
    (vsum l).nrm2 ≤ (l.length : K) ^ 2 * e2 := by
  induction l with
  | nil => simp [vsum, V3.zero, V3.nrm2]
  | cons a s ih =>
    have ha := h a List.mem_cons_self
    have hs := ih (fun v hv => h v (List.mem_cons_of_mem _ hv))
    simp only [vsum, List.length_cons, Nat.cast_succ]
    set k : K := (s.length : K) with hk
    have hk0 : 0 ≤ k := Nat.cast_nonneg _
    have e : (a.add (vsum s)).nrm2 = a.nrm2 + 2 * a.dot (vsum s) + (vsum s).nrm2 := by
      simp only [V3.nrm2, V3.add, V3.dot]; ring
    -- (a·S)² ≤ |a|²|S|² ≤ e2 · k² e2 = (k e2)²
    have hd : a.dot (vsum s) ^ 2 ≤ (k * e2) ^ 2 := by
      refine le_trans (dot_sq_le a (vsum s)) ?_
      have := mul_le_mul ha hs (V3.nrm2_nonneg _) he0
      calc a.nrm2 * (vsum s).nrm2 ≤ e2 * (k ^ 2 * e2) := this
        _ = (k * e2) ^ 2 := by ring
    have hdd : a.dot (vsum s) ≤ k * e2 := (abs_le_of_sq_le_sq' hd (mul_nonneg hk0 he0)).2
    rw [e]
    nlinarith

/-- the centroid of vectors of square length `≤ e2` has square length `≤ e2` -/
theorem centroid_nrm2_le (l : List (V3 K)) (hne : l ≠ []) (e2 : K) (h : ∀ v ∈ l, v.nrm2 ≤ e2) :
    (centroid l).nrm2 ≤ e2 := by
  obtain ⟨v0, hv0⟩ := List.exists_mem_of_ne_nil l hne
  have he0 : 0 ≤ e2 := le_trans (V3.nrm2_nonneg _) (h v0 hv0)
  have hn : (0 : K) < (l.length : K) := by
    have : 0 < l.length := List.length_pos_of_ne_nil hne
    exact_mod_cast this
  have hs := vsum_nrm2_le l e2 h he0
  rw [← smul_centroid l hne, nrm2_smul] at hs
  have hn2 : (0 : K) < (l.length : K) ^ 2 := by positivity
  exact le_of_mul_le_mul_left hs hn2

/-- **explicit bound from the worst per-atom residual**: if `|aligned r − r|² ≤ e2` for EVERY atom (uncentred,
    what `oracle:recovery_atoms` looks at), `|r − r̄|² ≤ L2`, margin `m > 0`, then for all `X, Y ≥ 0` with
    `64·L2·e2·|r̄|² ≤ m·X²` and `e2 ≤ Y²`:  `|T − t|² ≤ (X + Y)²`,  i.e.  `|T − t| ≤ (8·L·|r̄|/√m + 1)·ε`. -/
theorem recovery_shift_close_uniform (A U : M3 K) (hoA : A.mul A.transpose = M3.one) (hdA : A.det = 1)
    (hoU : U.mul U.transpose = M3.one) (hdU : U.det = 1) (t T : V3 K) (Rg : List (V3 K)) (hne : Rg ≠ [])
    (L2 e2 m : K)
    (hL : ∀ r ∈ Rg, (r.sub (centroid Rg)).nrm2 ≤ L2)
    (he : ∀ r ∈ Rg, (devOf A U t T r).nrm2 ≤ e2)
    (hm : 0 < m) (hnc : NonCollinearBy m (centre Rg))
    (X Y : K) (hX : 0 ≤ X) (hY : 0 ≤ Y) (hXb : 64 * L2 * e2 * (centroid Rg).nrm2 ≤ m * X ^ 2)
    (hYb : e2 ≤ Y ^ 2) :
    (T.sub t).nrm2 ≤ (X + Y) ^ 2 := by
  -- the mean residual is the centroid of the residuals
  have hmean : devOf A U t T (centroid Rg) = centroid (Rg.map (devOf A U t T)) := by
    have hfun : Rg.map (devOf A U t T)
        = Rg.map (fun r => (rowMul r ((A.mul U).add (M3.smul (-1) M3.one))).add (rowMul (t.sub T) U)) := by
      apply List.map_congr_left
      intro r _
      rw [devOf, alignedOf_affine, rowMul_mul]
      ext <;> simp only [rowMul, V3.add, V3.sub, M3.add, M3.smul, M3.one, M3.mul] <;> ring
    rw [hfun, centroid_moved _ _ Rg hne, devOf, alignedOf_affine, rowMul_mul]
    ext <;> simp only [rowMul, V3.add, V3.sub, M3.add, M3.smul, M3.one, M3.mul] <;> ring
  have hne' : Rg.map (devOf A U t T) ≠ [] := by simpa using hne
  have hdbar : (devOf A U t T (centroid Rg)).nrm2 ≤ e2 := by
    rw [hmean]
    apply centroid_nrm2_le _ hne'
    intro v hv
    obtain ⟨r, hr, rfl⟩ := List.mem_map.mp hv
    exact he r hr
  have hU : IsRot U := ⟨hoU, hdU⟩
  have h := recovery_shift_close A U hoA hdA hoU hdU t T Rg L2 (4 * e2) m
    (by
      intro ρ hρ
      obtain ⟨r, hr, rfl⟩ := List.mem_map.mp hρ
      exact hL r hr)
    (by
      intro ρ hρ
      obtain ⟨r, hr, rfl⟩ := List.mem_map.mp hρ
      rw [← centred_residual_nrm2 A U hU t T r (centroid Rg)]
      have e : (devOf A U t T r).sub (devOf A U t T (centroid Rg))
          = (devOf A U t T r).add (V3.smul (-1) (devOf A U t T (centroid Rg))) := by
        ext <;> simp only [V3.sub, V3.add, V3.smul] <;> ring
      rw [e]
      have h2 := nrm2_add_le_two (devOf A U t T r) (V3.smul (-1) (devOf A U t T (centroid Rg)))
      rw [nrm2_smul] at h2
      have := he r hr
      linarith)
    hm hnc
  exact h.2.2 X Y hX hY (by linarith) (le_trans hdbar hYb)

-- non-vacuity (test) of `recovery_shift_close`: the right triangle (0,0,0), (3,0,0), (0,3,0) (centroid (1,1,0)),
-- A = quarter-turn about z, U = Aᵀ turned further by the rational angle 2·atan(1/100) about z, t = (1,2,3),
-- T = c̄ − U r̄ (what kabsch_align returns): the hypotheses hold with L2 = 5, e2 = 20/10001, m = 9, and the recipe
-- does NOT recover t exactly (T ≠ t), so the theorem is used outside the exact case
example :
    let A : M3 ℚ := ⟨0, 1, 0, -1, 0, 0, 0, 0, 1⟩
    let W : M3 ℚ := ⟨9999 / 10001, -200 / 10001, 0, 200 / 10001, 9999 / 10001, 0, 0, 0, 1⟩
    let U : M3 ℚ := A.transpose.mul W
    let Rg : List (V3 ℚ) := [⟨0, 0, 0⟩, ⟨3, 0, 0⟩, ⟨0, 3, 0⟩]
    let t : V3 ℚ := ⟨1, 2, 3⟩
    let T : V3 ℚ := ((rowMul (centroid Rg) A).add t).sub (matVec U (centroid Rg))
    A.mul A.transpose = M3.one ∧ A.det = 1 ∧ U.mul U.transpose = M3.one ∧ U.det = 1
      ∧ (∀ ρ ∈ centre Rg, ρ.nrm2 ≤ 5)
      ∧ (∀ ρ ∈ centre Rg, ((rowMul ρ A).sub (rowMul ρ U.transpose)).nrm2 ≤ 20 / 10001)
      ∧ NonCollinearBy 9 (centre Rg) ∧ T ≠ t := by
  refine ⟨?_, ?_, ?_, ?_, ?_, ?_, ?_, ?_⟩
  · ext <;> simp only [M3.mul, M3.transpose, M3.one] <;> norm_num
  · simp only [M3.det]; norm_num
  · ext <;> simp only [M3.mul, M3.transpose, M3.one] <;> norm_num
  · simp only [M3.det, M3.mul, M3.transpose]; norm_num
  · intro ρ hρ
    simp only [centre, List.map_cons, List.map_nil, List.mem_cons, List.not_mem_nil, or_false] at hρ
    rcases hρ with rfl | rfl | rfl <;>
      simp only [centroid, vsum, V3.add, V3.zero, V3.sub, V3.nrm2, List.length_cons, List.length_nil] <;> norm_num
  · intro ρ hρ
    simp only [centre, List.map_cons, List.map_nil, List.mem_cons, List.not_mem_nil, or_false] at hρ
    rcases hρ with rfl | rfl | rfl <;>
      simp only [centroid, vsum, V3.add, V3.zero, V3.sub, V3.nrm2, rowMul, M3.mul, M3.transpose, List.length_cons,
        List.length_nil] <;> norm_num
  · refine ⟨(⟨3, 0, 0⟩ : V3 ℚ).sub (centroid [⟨0, 0, 0⟩, ⟨3, 0, 0⟩, ⟨0, 3, 0⟩]), by simp [centre],
      (⟨0, 3, 0⟩ : V3 ℚ).sub (centroid [⟨0, 0, 0⟩, ⟨3, 0, 0⟩, ⟨0, 3, 0⟩]), by simp [centre], ?_⟩
    simp only [cross2, V3.cross, centroid, vsum, V3.add, V3.zero, V3.sub, V3.nrm2, List.length_cons, List.length_nil]
    norm_num
  · intro h
    have hx := congrArg V3.x h
    simp only [centroid, vsum, V3.add, V3.zero, V3.sub, rowMul, matVec, M3.mul, M3.transpose, List.length_cons,
      List.length_nil] at hx
    norm_num at hx

end Ordered

end QcelVerif.Kabsch
