import QcelVerif.Model.RadiiShipped
import QcelVerif.Lemmas.Radii
import QcelVerif.Props.C01General
import QcelVerif.Props.C01Aliases
import QcelVerif.Props.C01Nuclides
/-!
# C17 — radii lookups are alias-invariant, unit-correct and honest about missing data

Manifest (property theorems, all in namespace `QcelVerif.Radii`):
  radius_alias_invariant, shipped_alias_invariant, shipped_case_insensitive, shipped_aliases_agree,
  shipped_nuclides_agree,
  label_own_entry, shipped_rows_own_entry, generic_is_largest, value_is_factor_times_native,
  default_is_bohr, default_value,
  native_unit_exact, datum_native, shipped_datums_native, missing_contract, not_element, error_kinds
(and in Props/C17Units.lean, which needs Mathlib: native_unit_exact_any, unit_value_accuracy,
units_linear_pow2, resting on Lemmas/RadiiF64.lean: rnd64_err, rnd64_idem, rnd64_pow2_scale)

General theorems quantify over ANY periodic table `T`, ANY radius table `t`, ANY unit-factor map
`conv`; `shipped_*` / table theorems are kernel evaluations over the tables generated from `/repo`.

In THIS file the unit factor (`constants.conversion_factor`, pint — C03) is a PARAMETER: the unit clauses
are stated for every factor (`value_is_factor_times_native`, `default_value`).
-- FULL (for the unit clauses): "default = tabulated Å value × the context's Å→bohr factor" with the
-- factor *derived* from the context's CODATA bohr radius through C03's model of the conversion.
-- CLOSED in Props/C17Factor.lean (+ C17FactorC02.lean, C17FactorText.lean, C17ToUnits.lean):
-- `default_is_bohr_full`, `shipped_default_over_bohr2angstroms_2014`, `native_unit_exact_full`,
-- `units_linear_full`, … derive the exact factor from C03's SI model over the regenerated CODATA table and
-- use its correctly rounded double.  What remains a per-run CHECKED PARAMETER is pint's float evaluation of
-- the factor (the implementation's double against the exact rational, tolerance 2^-50 relative;
-- consequence proved in `impl_factor_value_accuracy`).
-/
namespace QcelVerif.Radii
open QcelVerif QcelVerif.PStr QcelVerif.PT
set_option maxRecDepth 100000

/-! ## alias invariance -/

/-- **Alias invariance (any tables).** If the periodic table resolves `a` to the element symbol `e`
and `a` is not an exact label other than `e` itself, then looking up `a` is looking up `e` — for
every `return_tuple`, `missing` and unit factor. -/
theorem radius_alias_invariant (T : Tables) (t : Table) (conv : Bytes → Option Rat) (a : PyVal) (e : Nat)
    (rt : Bool) (m : Option Rat)
    (hE : T.toE a false = some e)
    (hlab : ∀ s, a = .str s → hasLabel t s = true → pack s = e) :
    get T t conv a rt m = getByKey t conv e rt m := by
  unfold get identify
  cases a with
  | int z => simp only [hE]
  | str s =>
    by_cases hl : hasLabel t s = true
    · simp only [hl, ↓reduceIte, hlab s rfl hl]
    · simp only [hl, hE]; rfl

/-- every exact label of the table that the periodic table can resolve at all resolves to itself -/
def labelsSelfResolve (T : Tables) (t : Table) : Bool :=
  t.all fun p => match T.toE (.str p.1) false with
    | none => true
    | some e => e == pack p.1

theorem alias_invariant_of_selfResolve (T : Tables) (t : Table) (hself : labelsSelfResolve T t = true)
    (conv : Bytes → Option Rat) (a : PyVal) (e : Nat) (rt : Bool) (m : Option Rat)
    (hE : T.toE a false = some e) : get T t conv a rt m = getByKey t conv e rt m := by
  apply radius_alias_invariant T t conv a e rt m hE
  intro s ha hl
  subst ha
  obtain ⟨p, hp, he⟩ := hasLabel_mem hl
  unfold labelsSelfResolve at hself
  rw [List.all_eq_true] at hself
  have := hself p hp
  rw [he, hE] at this
  have h2 : e = pack s := by simpa using this
  exact h2.symm

theorem cov_labels_self : labelsSelfResolve shipped cov = true := by decide +kernel
theorem vdw_labels_self : labelsSelfResolve shipped vdw = true := by decide +kernel

/-- **Alias invariance (shipped tables, unconditional).** Whatever names the element — atomic
number, digit string, symbol, element name, nuclide label, in any letter case (whatever C01's
cascade resolves) — both radius sets answer as for the element's symbol. -/
theorem shipped_alias_invariant (conv : Bytes → Option Rat) (a : PyVal) (e : Nat) (rt : Bool) (m : Option Rat)
    (hE : shipped.toE a false = some e) :
    get shipped cov conv a rt m = getByKey cov conv e rt m ∧
    get shipped vdw conv a rt m = getByKey vdw conv e rt m :=
  ⟨alias_invariant_of_selfResolve shipped cov cov_labels_self conv a e rt m hE,
   alias_invariant_of_selfResolve shipped vdw vdw_labels_self conv a e rt m hE⟩

/-- **Letter case never matters** for anything that names an element: two ASCII texts equal after
lower-casing, one of which resolves, give the same answer (all 2^|s| casings). -/
theorem shipped_case_insensitive (conv : Bytes → Option Rat) (s s' : Bytes) (e : Nat) (rt : Bool) (m : Option Rat)
    (h : lower s = lower s') (hE : shipped.toE (.str s) false = some e) :
    get shipped cov conv (.str s) rt m = get shipped cov conv (.str s') rt m ∧
    get shipped vdw conv (.str s) rt m = get shipped vdw conv (.str s') rt m := by
  have hE' : shipped.toE (.str s') false = some e := by
    rw [← (accessors_case_insensitive shipped s s' h false).1]; exact hE
  have a := shipped_alias_invariant conv (.str s) e rt m hE
  have b := shipped_alias_invariant conv (.str s') e rt m hE'
  exact ⟨a.1.trans b.1.symm, a.2.trans b.2.symm⟩

-- hypotheses satisfiable: "kR84" ~ "Kr84", which resolves to Kr (test)
example : lower [107, 82, 56, 52] = lower [75, 114, 56, 52] ∧
    shipped.toE (.str [107, 82, 56, 52]) false = some (pack [75, 114]) := by decide +kernel

/-- **Every alias form of every element row**: atomic number as int, as digit string, symbol and
element name are answered as the symbol is, in both sets (from C01's `aliases_agree`). -/
theorem shipped_aliases_agree (r : Nat × Nat × Nat) (hr : r ∈ shipped.elements) (a : PyVal)
    (ha : a ∈ [PyVal.int r.1, .str (natDigits r.1), .str (unpack r.2.1), .str (unpack r.2.2)])
    (conv : Bytes → Option Rat) (rt : Bool) (m : Option Rat) :
    get shipped cov conv a rt m = getByKey cov conv r.2.1 rt m ∧
    get shipped vdw conv a rt m = getByKey vdw conv r.2.1 rt m := by
  have h := aliases_agree
  rw [List.all_eq_true] at h
  have hrow := h r hr
  unfold aliasRowOk at hrow
  rw [List.all_eq_true] at hrow
  have h1 := hrow a ha
  rw [List.all_eq_true] at h1
  have h2 := h1 false (by simp)
  simp only [Bool.and_eq_true, beq_iff_eq] at h2
  exact shipped_alias_invariant conv a r.2.1 rt m h2.1.2

/-- **Every nuclide label of the table, in any letter case** (`H2`, `D`, `kr84`, `KR84`, …) is
answered as its element's symbol is, in both sets (from C01's `nuclides_resolve` and
case-insensitivity). -/
theorem shipped_nuclides_agree (r : Nat × Nat × Nat × Nat) (hr : r ∈ Gen.PT.nuclides) (s : Bytes)
    (hs : lower s = lower (unpack r.1)) (conv : Bytes → Option Rat) (rt : Bool) (m : Option Rat) :
    get shipped cov conv (.str s) rt m = getByKey cov conv r.2.1 rt m ∧
    get shipped vdw conv (.str s) rt m = getByKey vdw conv r.2.1 rt m := by
  have h := nuclides_resolve
  rw [List.all_eq_true] at h
  have hrow := h r hr
  unfold nuclideRowOk at hrow
  simp only [Bool.and_eq_true, beq_iff_eq] at hrow
  have hE : shipped.toE (.str (unpack r.1)) false = some r.2.1 := hrow.1.1.1.1.1.2
  have hE' : shipped.toE (.str s) false = some r.2.1 := by
    rw [(accessors_case_insensitive shipped s (unpack r.1) hs false).1]; exact hE
  exact shipped_alias_invariant conv (.str s) r.2.1 rt m hE'

/-! ## special labels -/

/-- **An exact label returns its own entry** (any tables): the periodic table is not consulted, the
answer is the table's entry under that very key, and such an entry exists. -/
theorem label_own_entry (T : Tables) (t : Table) (conv : Bytes → Option Rat) (s : Bytes) (rt : Bool)
    (m : Option Rat) (h : hasLabel t s = true) :
    get T t conv (.str s) rt m = getByKey t conv (pack s) rt m ∧ (lookupK t (pack s)).isSome = true := by
  refine ⟨?_, lookupK_isSome_of_label h⟩
  unfold get identify
  simp only [h, ↓reduceIte]

/-- row predicate of `shipped_rows_own_entry`: asked for by its label, the row comes back as
`Datum(label, native units, Decimal(text), comment, doi)` — unless a generic-element alias
deliberately overrides that key -/
def rowOwnOk (t : Table) (units doi : Bytes) (r : Bytes × Bytes × Option Bytes) : Bool :=
  (covAliasSpec.map (fun a => capitalize a.1)).contains r.1 ||
  match parseDec r.2.1, get shipped t (fun _ => none) (.str r.1) true none with
  | some cs, .ok (.datum d) =>
      d == { label := r.1, units := units, data := .dec false cs.1 (-(cs.2 : Int)), comment := r.2.2, doi := some doi }
  | _, _ => false

/-- **Every row of both data files is returned under its own label**, digits of the decimal
preserved, in the file's unit, with its comment and the set's DOI (kernel evaluation). -/
theorem shipped_rows_own_entry :
    Gen.Radii.covRows.all (rowOwnOk cov Gen.Radii.covUnits Gen.Radii.covDoi) = true ∧
    Gen.Radii.vdwRows.all (rowOwnOk vdw Gen.Radii.vdwUnits Gen.Radii.vdwDoi) = true := by
  constructor <;> decide +kernel

-- tests of the decimal reader: "0.31" -> 31·10^-2, "1.10" keeps its trailing zero, "1e-1" is outside the model
example : parseDec [48, 46, 51, 49] = some (31, 2) := by decide
example : parseDec [49, 46, 49, 48] = some (110, 2) := by decide
example : parseDec [49, 101, 45, 49] = none := by decide
-- test: the table is not empty and C_sp3 is a label of the covalent set only
example : cov.isEmpty = false ∧ vdw.isEmpty = false ∧ hasLabel cov [67, 95, 115, 112, 51] = true ∧
    hasLabel vdw [67, 95, 115, 112, 51] = false := by decide +kernel

/-! ## generic element = largest variant -/

/-- rows whose label is `sym_…` -/
def variantsOf (t : Table) (sym : Bytes) : List (Bytes × Datum) :=
  t.filter fun p => (sym ++ [95]).isPrefixOf p.1

def datumVal (d : Datum) : Option Rat :=
  match d.data with
  | .dec n c e => some (decVal n c e)
  | _ => none

/-- element symbols that have `sym_…` rows, in order of first appearance -/
def symbolsWithVariants (t : Table) : List Bytes :=
  (t.filterMap fun p => if p.1.contains 95 then some (p.1.takeWhile (· != 95)) else none).foldl
    (fun acc k => if acc.contains k then acc else acc ++ [k]) []

/-- the entry under the bare symbol is in ångström like all its variants and carries their maximum -/
def genericOk (t : Table) (sym : Bytes) : Bool :=
  match lookupB t sym with
  | none => false
  | some d =>
    match datumVal d with
    | none => false
    | some v =>
      let vs := variantsOf t sym
      d.units == bAngstrom && vs.all (fun p => p.2.units == bAngstrom) &&
      vs.all (fun p => match datumVal p.2 with | some w => decide (w ≤ v) | none => false) &&
      vs.any (fun p => datumVal p.2 == some v)

/-- **The bare element means the largest variant**: the elements with variant rows are exactly
C, Mn, Fe, Co (covalent set; none in the van der Waals set) and for each the generic entry equals
the maximum over its variants (C ↦ max(C_sp3, C_sp2, C_sp); Mn/Fe/Co ↦ max(low, high spin)). -/
theorem generic_is_largest :
    symbolsWithVariants cov = [[67], [77, 110], [70, 101], [67, 111]] ∧
    (symbolsWithVariants cov).all (genericOk cov) = true ∧
    symbolsWithVariants vdw = [] := by decide +kernel

/-! ## units -/

/-- **The value is the unit factor times the native number** (any tables): with entry `d` holding
the decimal `±c·10^e` and unit factor `f`, the float result is `fl(f · float(decimal))`, whatever
`missing` is. The requested unit enters only through `f` (linearity in the factor); in particular
the default (`f` = the context's ångström→bohr factor) is that factor times the ångström value. -/
theorem value_is_factor_times_native (t : Table) (conv : Bytes → Option Rat) (k : Nat) (m : Option Rat)
    (d : Datum) (f : Rat) (n : Bool) (c : Nat) (e : Int)
    (hd : lookupK t k = some d) (hdec : d.data = .dec n c e) (hf : conv d.units = some f) :
    getByKey t conv k false m = .ok (.value (fmul f (ofDec n c e))) := by
  simp [getByKey, hd, Datum.toUnits, hf, hdec, Payload.scale]

/-- **The default unit is Bohr**: omitting `units` is asking for `"bohr"` … -/
theorem default_is_bohr (T : Tables) (t : Table) (convF : Bytes → Bytes → Option Rat) (a : PyVal) (rt : Bool)
    (m : Option Rat) : getU T t convF a rt none m = getU T t convF a rt (some bBohr) m := rfl

/-- … so the default result is the context's (entry unit → bohr) factor times the tabulated value:
for the shipped ångström tables, the ångström→bohr factor times the ångström number. -/
theorem default_value (T : Tables) (t : Table) (convF : Bytes → Bytes → Option Rat) (a : PyVal) (k : Nat)
    (m : Option Rat) (d : Datum) (f : Rat) (n : Bool) (c : Nat) (e : Int)
    (hid : identify T t a = some k) (hd : lookupK t k = some d) (hdec : d.data = .dec n c e)
    (hf : convF d.units bBohr = some f) :
    getU T t convF a false none m = .ok (.value (fmul f (ofDec n c e))) := by
  unfold getU get
  simp only [hid]
  exact value_is_factor_times_native t _ k m d f n c e hd hdec (by simpa using hf)

/-- entry predicate of `native_unit_exact` -/
def nativeOk (d : Datum) : Bool :=
  match d.data with
  | .dec n c e =>
      let x := ofDec n c e
      fmul 1 x == x && isF64 x && isNearestEven (decVal n c e) x
  | _ => false

theorem native_tables : cov.all (fun p => nativeOk p.2) = true ∧ vdw.all (fun p => nativeOk p.2) = true := by
  constructor <;> decide +kernel

/-- **The native unit returns the tabulated number exactly** (shipped tables): with factor 1 every
entry comes back as `float(Decimal)` itself — multiplying by `1.0` does not move it — and that
float is the double nearest (ties to even) to the tabulated decimal, stated independently of the
rounding function. -/
theorem native_unit_exact (t : Table) (ht : t = cov ∨ t = vdw) (conv : Bytes → Option Rat) (k : Nat)
    (m : Option Rat) (d : Datum) (hd : lookupK t k = some d) (hf : conv d.units = some 1) :
    ∃ n c e, d.data = .dec n c e ∧
      getByKey t conv k false m = .ok (.value (ofDec n c e)) ∧
      isNearestEven (decVal n c e) (ofDec n c e) = true := by
  obtain ⟨p, hp, _, hpd⟩ := lookupK_mem hd
  have hall : t.all (fun p => nativeOk p.2) = true := by
    rcases ht with rfl | rfl
    · exact native_tables.1
    · exact native_tables.2
  rw [List.all_eq_true] at hall
  have hok := hall p hp
  rw [hpd] at hok
  unfold nativeOk at hok
  cases hdat : d.data with
  | dec n c e =>
    rw [hdat] at hok
    simp only [Bool.and_eq_true, beq_iff_eq] at hok
    refine ⟨n, c, e, rfl, ?_, hok.2⟩
    rw [value_is_factor_times_native t conv k m d 1 n c e hd hdat hf, hok.1.1]
  | flt x => rw [hdat] at hok; cases hok
  | arr xs => rw [hdat] at hok; cases hok

/-! ## the Datum form -/

/-- **`return_tuple=True` returns the stored Datum unchanged** (any tables) — no conversion, the
units argument and `missing` are irrelevant … -/
theorem datum_native (t : Table) (conv : Bytes → Option Rat) (k : Nat) (m : Option Rat) (d : Datum)
    (hd : lookupK t k = some d) : getByKey t conv k true m = .ok (.datum d) := by
  simp [getByKey, hd]

/-- … and every stored Datum of the shipped sets is a Decimal in the data file's native unit. -/
theorem shipped_datums_native :
    cov.all (fun p => p.2.units == Gen.Radii.covUnits && (datumVal p.2).isSome) = true ∧
    vdw.all (fun p => p.2.units == Gen.Radii.vdwUnits && (datumVal p.2).isSome) = true := by
  constructor <;> decide +kernel

/-! ## missing data, non-elements -/

/-- **Missing-data contract** (any tables): the argument names a valid element `e` for which the
table has no entry. Then `missing=None` raises DataUnavailableError, a fallback is returned exactly
when `return_tuple=False`, and with `return_tuple=True` it is DataUnavailableError again. -/
theorem missing_contract (T : Tables) (t : Table) (conv : Bytes → Option Rat) (a : PyVal) (e : Nat)
    (hE : T.toE a false = some e) (hlab : ∀ s, a = .str s → hasLabel t s = true → pack s = e)
    (hno : lookupK t e = none) (x : Rat) (rt : Bool) :
    get T t conv a rt none = .error .DataUnavailable ∧
    get T t conv a false (some x) = .ok (.value x) ∧
    get T t conv a true (some x) = .error .DataUnavailable := by
  simp [radius_alias_invariant T t conv a e _ _ hE hlab, getByKey, hno]

-- non-vacuous on the shipped tables: Lr (Z=103) is an element without covalent radius, Fe one without
-- van der Waals radius, the dummy atom has neither (tests)
example : shipped.toE (.int 103) false = some (pack [76, 114]) ∧ lookupK cov (pack [76, 114]) = none := by decide +kernel
example : shipped.toE (.str [105, 114, 111, 110]) false = some (pack [70, 101]) ∧ lookupK vdw (pack [70, 101]) = none ∧
    (lookupK cov (pack [70, 101])).isSome = true := by decide +kernel
example : shipped.toE (.int 0) false = some (pack [88]) ∧ lookupK cov (pack [88]) = none ∧ lookupK vdw (pack [88]) = none := by
  decide +kernel

/-- **Non-elements are refused** (any tables): not an exact label and not resolvable by the periodic
table → NotAnElementError — never some other species' radius, never the fallback. -/
theorem not_element (T : Tables) (t : Table) (conv : Bytes → Option Rat) (a : PyVal) (rt : Bool) (m : Option Rat)
    (hlab : ∀ s, a = .str s → hasLabel t s = false) (hE : T.toE a false = none) :
    get T t conv a rt m = .error .NotAnElement := by
  unfold get identify
  cases a with
  | int z => simp only [hE]
  | str s => simp only [hlab s rfl, hE]; rfl

/-- the only ways `get` fails: NotAnElement exactly when nothing identifies the argument;
DataUnavailable only when the identifier has no entry; a conversion failure only from `conv` -/
theorem error_kinds (T : Tables) (t : Table) (conv : Bytes → Option Rat) (a : PyVal) (rt : Bool) (m : Option Rat)
    (er : Err) (h : get T t conv a rt m = .error er) :
    (er = .NotAnElement ∧ identify T t a = none) ∨
    (er = .DataUnavailable ∧ ∃ k, identify T t a = some k ∧ lookupK t k = none) ∨
    (er = .Conv ∧ ∃ k d, identify T t a = some k ∧ lookupK t k = some d ∧ conv d.units = none) := by
  unfold get at h
  cases hid : identify T t a with
  | none => simp only [hid] at h; left; exact ⟨by cases h; rfl, rfl⟩
  | some k =>
    simp only [hid, getByKey] at h
    cases hl : lookupK t k with
    | none =>
      right; left
      refine ⟨?_, k, rfl, hl⟩
      simp only [hl] at h
      cases m with
      | none => cases h; rfl
      | some x => cases rt <;> simp at h <;> cases h <;> rfl
    | some d =>
      right; right
      simp only [hl] at h
      cases rt with
      | true => simp at h
      | false =>
        simp only [Datum.toUnits] at h
        cases hc : conv d.units with
        | none => simp only [hc] at h; exact ⟨by cases h; rfl, k, d, rfl, hl, hc⟩
        | some f => simp [hc] at h

-- non-vacuous: "c_sp3" is neither a label nor an element (test)
example : hasLabel cov [99, 95, 115, 112, 51] = false ∧ shipped.toE (.str [99, 95, 115, 112, 51]) false = none := by
  decide +kernel

end QcelVerif.Radii
