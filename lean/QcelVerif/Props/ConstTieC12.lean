import QcelVerif.Model.UnoOrderings
import QcelVerif.Gen.SrcConsts
import QcelVerif.Props.ConstTieLib
/-!
# C12 — the constants of `Model/B787.lean` / `Model/UnoOrderings.lean` and of B787's keyword defaults are the source's

Inside the models: `best0` (the initial `best_rmsd = 100.0` Å in the units `np.around(·, decimals=8)` leaves), the
strict tests of the trial loop, the strict edge test `reducedcost < uno_cutoff`, the scale `100.0` and the square of
the per-class cost matrix.  The remaining constants of `align.py` are *arguments* of the models that the harness
supplies (a_convergence for `mols_align=True/False`, the default `uno_cutoff`, the `atol=1.0` of the permutative
filter): they are pinned here to the values harness/c12.py hard-codes (file and line in each comment), and the
translator compares `c12.aconv_units(True/False)` with the source's literals on every run.  `kabsch_align`'s
short-circuit must be `np.array_equal` (exact equality, no tolerance — the repaired C12 defect); any other test is
refused by the translator.  `Gen/SrcConsts.lean` is rewritten on every run from `align.py` (by `ast`).
Core Lean only.

PROPERTY-THEOREMS: align_float_literals_ok best0_matches_source trial_update_matches_source
  a_convergence_matches_source uno_cutoff_defaults_match_source molecule_align_defaults_match_source edge_test_matches_source class_cost_matches_source
  permutative_atol_matches_source kabsch_short_circuit_is_exact
-/
namespace QcelVerif.B787
open QcelVerif QcelVerif.ConstTie

theorem align_float_literals_ok :
    FloatLit.ok Src.B787.uno_cutoff Src.B787.uno_cutoff_dec Src.B787.uno_cutoff_bits Src.B787.uno_cutoff_f64 = true ∧
    FloatLit.ok Src.plausible.uno_cutoff Src.plausible.uno_cutoff_dec Src.plausible.uno_cutoff_bits Src.plausible.uno_cutoff_f64 = true ∧
    FloatLit.ok Src.B787.a_convergence_true Src.B787.a_convergence_true_dec Src.B787.a_convergence_true_bits Src.B787.a_convergence_true_f64 = true ∧
    FloatLit.ok Src.B787.a_convergence_false Src.B787.a_convergence_false_dec Src.B787.a_convergence_false_bits Src.B787.a_convergence_false_f64 = true ∧
    FloatLit.ok Src.B787.best_rmsd_init Src.B787.best_rmsd_init_dec Src.B787.best_rmsd_init_bits Src.B787.best_rmsd_init_f64 = true ∧
    FloatLit.ok Src.B787.mirror_exact Src.B787.mirror_exact_dec Src.B787.mirror_exact_bits Src.B787.mirror_exact_f64 = true ∧
    FloatLit.ok Src.B787.mirror_uno_cutoff Src.B787.mirror_uno_cutoff_dec Src.B787.mirror_uno_cutoff_bits Src.B787.mirror_uno_cutoff_f64 = true ∧
    FloatLit.ok Src.plausible.permutative_atol Src.plausible.permutative_atol_dec Src.plausible.permutative_atol_bits Src.plausible.permutative_atol_f64 = true ∧
    FloatLit.ok Src.plausible.cost_scale Src.plausible.cost_scale_dec Src.plausible.cost_scale_bits Src.plausible.cost_scale_f64 = true := by
  decide +kernel

/-- `best_rmsd = 100.0` [Å] before the loop, in the model's unit `10^-decimals` Å of `np.around(temp_rmsd, decimals=8)` -/
theorem best0_matches_source :
    ((best0 : Int) : Rat) = Src.B787.best_rmsd_init_f64 * 10 ^ Src.B787.rmsd_decimals.toNat := by
  decide +kernel

/-- one trial: improvement is `temp_rmsd < best_rmsd` (strict) and the early exit `best_rmsd < a_convergence` (strict),
as the source writes both tests -/
theorem trial_update_matches_source (cfg : Cfg) (st : State) (i : Nat) (m : Bool) (v : Int) :
    update cfg st i m v =
      (if v < st.best then
        ({ best := v, sel := some (i, m), ocount := st.ocount + 1 }, !cfg.runToCompletion && decide (v < cfg.aconv))
       else ({ st with ocount := st.ocount + 1 }, false)) ∧
    Src.B787.tests_strict = true := by
  refine ⟨?_, by decide⟩
  unfold update
  by_cases h : v < st.best <;> simp [h]

/-- `a_convergence` for `mols_align=True` / `False`: the doubles harness/c12.py:419-421 (`aconv_units`) turns into the
model's `aconv` (1e-3 Å → 100000 units of 1e-8 Å; 0.0 → 0), and `mols_align`'s default is `False` -/
theorem a_convergence_matches_source :
    Src.B787.a_convergence_true_f64 = (1152921504606847 : Rat) / 1152921504606846976 ∧
    Src.B787.a_convergence_true * 10 ^ Src.B787.rmsd_decimals.toNat = 100000 ∧
    Src.B787.a_convergence_false_f64 = 0 ∧ Src.B787.mols_align = false ∧ Src.B787.run_to_completion = false := by
  decide +kernel

/-- the default `uno_cutoff` of `B787` and of `_plausible_atom_orderings` is the double `1.0e-3` that harness/c12.py
hard-codes (lines 253, 1717, 1754); the default algorithm of both is `hungarian_uno`; the mirror pre-test's hard-coded
cutoff and exactness are `0.1` and `1.0e-6` -/
theorem uno_cutoff_defaults_match_source :
    Src.B787.uno_cutoff_f64 = (1152921504606847 : Rat) / 1152921504606846976 ∧
    Src.plausible.uno_cutoff_f64 = Src.B787.uno_cutoff_f64 ∧
    Src.B787.algorithm = "hungarian_uno" ∧ Src.plausible.algorithm = Src.B787.algorithm ∧
    Src.B787.mirror_uno_cutoff = 1 / 10 ∧ Src.B787.mirror_exact = 1 / 1000000 ∧
    Src.B787.run_mirror = false ∧ Src.B787.atoms_map = false ∧ Src.B787.run_resorting = false := by
  decide +kernel

/-- `Molecule.align` declares the same defaults as `B787` and forwards the six options unchanged (no `algorithm=`) -/
theorem molecule_align_defaults_match_source :
    Src.Molecule_align.uno_cutoff_f64 = Src.B787.uno_cutoff_f64 ∧ Src.Molecule_align.mols_align = Src.B787.mols_align ∧
    Src.Molecule_align.run_to_completion = Src.B787.run_to_completion ∧ Src.Molecule_align.run_mirror = Src.B787.run_mirror ∧
    Src.Molecule_align.atoms_map = Src.B787.atoms_map ∧ Src.Molecule_align.run_resorting = Src.B787.run_resorting ∧
    Src.Molecule_align.generic_ghosts = false ∧ Src.Molecule_align.forwards_options = true ∧
    FloatLit.ok Src.Molecule_align.uno_cutoff Src.Molecule_align.uno_cutoff_dec Src.Molecule_align.uno_cutoff_bits Src.Molecule_align.uno_cutoff_f64 = true := by
  decide +kernel

end QcelVerif.B787

namespace QcelVerif.Uno
open QcelVerif

/-- an entry of the reduced matrix is an edge iff it is strictly below the cutoff (`reducedcost < uno_cutoff`) -/
theorem edge_test_matches_source (red : Mat) (cut : Rat) (i j : Nat) :
    edgeB red cut i j = decide (red i j < cut) ∧ Src.plausible.edges_strict = true := ⟨rfl, by decide⟩

/-- the per-class cost matrix: `(K·ΣC − K·ΣR) ** 2` with the source's scale `K = 100.0` and exponent 2 -/
theorem class_cost_matches_source (nR nC : Mat) (rgp cgp : List Nat) (i j : Nat) :
    classCost nR nC rgp cgp i j =
      (Src.plausible.cost_scale_f64 * ((cgp.map fun x => nC x (cgp.getD i 0)).sum)
        - Src.plausible.cost_scale_f64 * ((rgp.map fun x => nR x (rgp.getD j 0)).sum))
      ^ Src.plausible.cost_power.toNat := by
  have h1 : Src.plausible.cost_scale_f64 = 100 := by decide +kernel
  have h2 : Src.plausible.cost_power.toNat = 2 := by decide
  rw [h1, h2]
  simp only [classCost, classSum]
  rw [Rat.pow_succ, Rat.pow_succ, Rat.pow_zero, Rat.one_mul]

/-- the permutative filter's `np.allclose(bnbn, cncn, atol=1.0)` (no `rtol=`: numpy's default `1e-5`): the `atol` is
the `1.0` harness/c12.py:1324 hands to the model's `filterPermutative` -/
theorem permutative_atol_matches_source : Src.plausible.permutative_atol_f64 = 1 := by decide +kernel

/-- `kabsch_align` short-circuits only on exactly equal geometries: the translator accepts no test other than
`np.array_equal(R, C)` returning `(0.0, identity, zeros)` -/
theorem kabsch_short_circuit_is_exact : Src.kabsch.short_circuit_exact = true := by decide

end QcelVerif.Uno
