import QcelVerif.Lemmas.FromArrays
import QcelVerif.Props.C05
/-!
# C04 — a validated molecule is complete, consistent and a fixed point of validation

Model: `Model/FromArrays.lean` (`fromArrays` = `from_arrays(domain='qm')`, `fromSchema`, `toSchema`).
The per-atom reconciler is a parameter (`Env.recon`); the two facts used about it are named
hypotheses, to be discharged by C06:

  * `NucSound rc valid` — whatever it answers is valid (`reconcile_sound`);
  * `NucIdem rc`        — an answer fed back as clues (`speclabel = False`) is answered by itself
                          (`reconcile_idem`).

The charge/multiplicity stage is C05's model `ChgMult.vfc`; `vfc_sound` and
`vfc_accepts_valid_full` are reused.  All theorems hold for any number of atoms and fragments.

PROPERTY-THEOREMS:
  from_arrays_inv  from_arrays_idempotent  from_schema_inv
  refuses_unknown_unit  refuses_geom_not_3n  refuses_too_close  refuses_length_mismatch
  refuses_bad_separators  refuses_fragment_length_mismatch  errors_are_validation
  accepted_separators_sorted  seps_pattern_roundtrip

-- FULL (not proved in THIS file): `schema_roundtrip : Inv r → r.units = sBohr →
--   fromSchema env (toSchema formula r v) = ok { r with name := some (r.name.getD (formula r.elem)), iutau := none }`
--   for v ∈ {1, 2}.  What is proved of it here: `seps_pattern_roundtrip` (the fragment pattern written by
--   `toSchema` is accepted by `contiguize` and gives back separators that cut identically) and
--   `from_schema_inv`.  The composition is proved in `Props/C04Schema.lean` (`schema_roundtrip`, for a record in
--   either unit, with its three necessary extra hypotheses stated; `toSchemaU_bohr` ties `toSchemaU` to `toSchema`),
--   and the correspondence runs the round trip on every accepted record (harness/c04.py, third stream).
-/
namespace QcelVerif.FromArrays
open QcelVerif.ChgMult (vfc Rules fullSpec)

/-! ## hypotheses about the reconciler (C06) -/

/-- every answer of the reconciler is valid (in C06's sense: symbol, Z, A and mass consistent
with each other and the periodic table for the given `nonphysical` / `mtol`) -/
def NucSound (rc : Reconciler) (valid : NucSettings → Nuc → Prop) : Prop :=
  ∀ st c o, rc st c = .ok o → valid st o

/-- the answer as clues for a second call: `A = -1` is `None` (from_arrays.py:638-641) -/
def clueOf (o : Nuc) : Clue :=
  { A := if o.A = -1 then none else some o.A, Z := some o.Z, E := some o.E,
    mass := some o.mass, real := some o.real, label := some o.label }

/-- an answer fed back with `speclabel = False` (same `nonphysical`, `mtol`) is returned unchanged -/
def NucIdem (rc : Reconciler) : Prop :=
  ∀ st c o, rc st c = .ok o → rc { st with speclabel := false } (clueOf o) = .ok o

/-! ## the invariant -/

/-- `Molrec.Inv`: the property's invariant for a record validated with per-atom settings `st`,
overlap threshold `tc` and default Å→a₀ factor `angToAu`. -/
structure Inv (valid : NucSettings → Nuc → Prop) (angToAu : Rat) (st : NucSettings) (tc : Rat)
    (r : Molrec) : Prop where
  /-- every per-atom field is present with the same length: the six arrays are the columns of ONE
  list of nuclei, each of them valid -/
  cols : ∃ nucs : List Nuc, r.elea = nucs.map (·.A) ∧ r.elez = nucs.map (·.Z) ∧ r.elem = nucs.map (·.E) ∧
      r.mass = nucs.map (·.mass) ∧ r.real = nucs.map (·.real) ∧ r.elbl = nucs.map (·.label) ∧
      ∀ u ∈ nucs, valid st u
  /-- three coordinates per atom, and no two atoms closer than the threshold -/
  geom : ∃ rows, rows3 r.geom = some rows ∧ rows.length = r.elem.length ∧
      rows.Pairwise (fun p q => ¬ dist2 p q < tc * tc)
  units : r.units = sAngstrom ∨ r.units = sBohr
  iutau : ∀ x, r.iutau = some x → absRat (x - dfltIutau angToAu r.units) < 1 / 20
  /-- the fragments partition the atoms in order: the split yields consecutive blocks covering
  `0 … nat-1`, none of them empty -/
  frag_cover : (npSplit (List.range r.elem.length) r.seps).flatten = List.range r.elem.length
  frag_nonempty : r.elem.length ≠ 0 → ∀ p ∈ npSplit (List.range r.elem.length) r.seps, p ≠ []
  len_fc : r.fc.length = r.seps.length + 1
  len_fm : r.fm.length = r.seps.length + 1
  /-- total charge = Σ fragment charges; every (charge, multiplicity) pair feasible for the electron
  count `Σ Z·real` of the system and of each fragment; ghost fragments neutral singlets (C05 `Rules`) -/
  chg : Rules (fullSpec (npSplit (zeff r.elez r.real) r.seps) ⟨r.c, r.fc, r.m, r.fm⟩ false) ⟨r.c, r.fc, r.m, r.fm⟩
  /-- bonds `(min, max, order)`, order within [0, 5], sorted -/
  conn : ∀ bs, r.conn = some bs → bs.Pairwise (fun a b => bondLe a b = true) ∧
      ∀ b ∈ bs, b.1 ≤ b.2.1 ∧ 0 ≤ b.2.2 ∧ b.2.2 ≤ 5
  symm : ∀ s, r.fixSymm = some s → s ≠ [] ∧ lower s = s

theorem Inv.lengths {valid a st tc r} (h : Inv valid a st tc r) :
    r.elea.length = r.elem.length ∧ r.elez.length = r.elem.length ∧ r.mass.length = r.elem.length ∧
    r.real.length = r.elem.length ∧ r.elbl.length = r.elem.length ∧ r.geom.length = 3 * r.elem.length := by
  obtain ⟨nucs, h1, h2, h3, h4, h5, h6, _⟩ := h.cols
  obtain ⟨rows, hr, hl, _⟩ := h.geom
  have := rows3_length _ _ hr
  simp [h1, h2, h3, h4, h5, h6] at *
  omega

/-! ## what a successful run of each stage means -/

theorem missingGeom_ok {i : Inp} {g : List Rat} (h : missingGeom i = .ok g) :
    (g ≠ [] ∧ i.geom = some g) ∨ (g = [] ∧ i.minimal = true) := by
  unfold missingGeom at h
  split at h
  · cases h; exact Or.inl ⟨by simp, by assumption⟩
  · split at h
    · cases h; exact Or.inr ⟨rfl, by assumption⟩
    · cases h

theorem validateGeometry_ok {tc : Rat} {g g' : List Rat} (h : validateGeometry tc g = .ok g') :
    g' = g ∧ ∃ rows, rows3 g = some rows ∧ anyTooClose tc rows = false := by
  unfold validateGeometry at h
  split at h
  · cases h
  · rename_i rows hr
    split at h
    · cases h
    · rename_i hc
      cases h
      exact ⟨rfl, rows, hr, by simpa using hc⟩

theorem validateConn_ok {c : Option (List BondIn)} {o : Option (List Bond)} (h : validateConn c = .ok o) :
    (c = none ∧ o = none) ∨ ∃ l bs, c = some l ∧ mapE normBond l = .ok bs ∧ o = some (sortBonds bs) := by
  unfold validateConn at h
  split at h
  · cases h; exact Or.inl ⟨rfl, rfl⟩
  · rename_i l
    split at h
    · cases h
    · rename_i bs hbs
      cases h
      exact Or.inr ⟨l, bs, rfl, hbs, rfl⟩

theorem normBond_ok {b : BondIn} {o : Bond} (h : normBond b = .ok o) :
    o.1 ≤ o.2.1 ∧ 0 ≤ o.2.2 ∧ o.2.2 ≤ 5 := by
  unfold normBond at h
  split at h
  · cases h
  · split at h
    · split at h
      · cases h
      · split at h
        · cases h
        · split at h
          · cases h
          · rename_i hor
            cases h
            refine ⟨?_, ?_, ?_⟩
            · simp only; omega
            · exact Rat.not_lt.1 (fun hh => hor (Or.inl hh))
            · exact Rat.not_lt.1 (fun hh => hor (Or.inr hh))
    · cases h

theorem validateUnits_ok {a : Rat} {i : Inp} {u : UnitsOut} (h : validateUnits a i = .ok u) :
    validateConn i.conn = .ok u.conn ∧ u.units = capitalize i.units ∧
    (u.units = sAngstrom ∨ u.units = sBohr) ∧ u.iutau = i.iutau ∧
    (∀ x, u.iutau = some x → absRat (x - dfltIutau a u.units) < 1 / 20) := by
  unfold validateUnits at h
  split at h
  · cases h
  · rename_i conn hconn
    simp only at h
    split at h
    · rename_i hu
      split at h
      · rename_i hi
        cases h
        exact ⟨hconn, rfl, hu, hi.symm, by intro x hx; cases hx⟩
      · rename_i x hi
        split at h
        · rename_i hw
          cases h
          refine ⟨hconn, rfl, hu, hi.symm, ?_⟩
          intro y hy
          cases hy
          exact hw
        · cases h
    · cases h

theorem validateNuclei_ok {rc : Reconciler} {nat : Nat} {i : Inp} {nucs : List Nuc}
    (h : validateNuclei rc nat i = .ok nucs) :
    let a := nucArrays nat i
    (a.elea.length = nat ∧ a.elez.length = nat ∧ a.elem.length = nat ∧
      a.mass.length = nat ∧ a.real.length = nat ∧ a.elbl.length = nat) ∧
    mapE (rc (nucSettings i)) (clues a.elea a.elez a.elem a.mass a.real a.elbl) = .ok nucs := by
  unfold validateNuclei at h
  simp only at h
  split at h
  · rename_i hl
    exact ⟨hl, h⟩
  · cases h

theorem length_clues : ∀ (a z : List (Option Int)) (e : List (Option String)) (m : List (Option Rat))
    (r : List (Option Bool)) (l : List (Option String)) (n : Nat),
    a.length = n → z.length = n → e.length = n → m.length = n → r.length = n → l.length = n →
    (clues a z e m r l).length = n
  | [], _, _, _, _, _, n, h, _, _, _, _, _ => by simp at h; subst h; simp [clues]
  | _ :: _, [], _, _, _, _, n, h1, h2, _, _, _, _ => by simp at h1 h2; omega
  | _ :: _, _ :: _, [], _, _, _, n, h1, _, h3, _, _, _ => by simp at h1 h3; omega
  | _ :: _, _ :: _, _ :: _, [], _, _, n, h1, _, _, h4, _, _ => by simp at h1 h4; omega
  | _ :: _, _ :: _, _ :: _, _ :: _, [], _, n, h1, _, _, _, h5, _ => by simp at h1 h5; omega
  | _ :: _, _ :: _, _ :: _, _ :: _, _ :: _, [], n, h1, _, _, _, _, h6 => by simp at h1 h6; omega
  | _ :: a, _ :: z, _ :: e, _ :: m, _ :: r, _ :: l, n, h1, h2, h3, h4, h5, h6 => by
      cases n with
      | zero => simp at h1
      | succ n =>
        simp only [clues, List.length_cons, Nat.add_right_cancel_iff]
        exact length_clues a z e m r l n (by simpa using h1) (by simpa using h2) (by simpa using h3)
          (by simpa using h4) (by simpa using h5) (by simpa using h6)

/-- what a successful fragment stage returns, and what it checked -/
theorem validateFragments_ok {nat : Nat} {seps : Option (List Int)} {fc fm : Option (List (Option Int))}
    {fr : FragOut} (h : validateFragments nat seps fc fm = .ok fr) :
    (nat = 0 ∨ ∀ p ∈ npSplit (List.replicate nat ()) fr.seps, p ≠ []) ∧
    fr.fc.length = fr.seps.length + 1 ∧ fr.fm.length = fr.seps.length + 1 ∧
    ((seps = none ∧ fc = none ∧ fm = none ∧ fr.seps = [] ∧ fr.fc = [none] ∧ fr.fm = [none]) ∨
     (∃ s, seps = some s ∧ fr.seps = s ∧
        fr.fc = fc.getD (List.replicate (npSplit (List.replicate nat ()) s).length none) ∧
        fr.fm = fm.getD (List.replicate (npSplit (List.replicate nat ()) s).length none))) := by
  unfold validateFragments at h
  split at h
  · split at h
    · cases h
      refine ⟨?_, rfl, rfl, Or.inl ⟨rfl, rfl, rfl, rfl, rfl, rfl⟩⟩
      cases nat with
      | zero => exact Or.inl rfl
      | succ n =>
        right
        intro p hp hpe
        have hp' : p = pySlice (List.replicate (n + 1) ()) 0 ((List.replicate (n + 1) ()).length : Int) := by
          simpa [npSplit, splitAux] using hp
        have hl := length_pySlice (List.replicate (n + 1) ()) 0 ((List.replicate (n + 1) ()).length : Int)
        rw [← hp', hpe, pyClamp_self, pyClamp_zero] at hl
        simp at hl
    · cases h
  · rename_i s
    simp only at h
    split at h
    · cases h
    · rename_i hne
      split at h
      · cases h
      · split at h
        · rename_i hl
          cases h
          refine ⟨?_, hl.1, hl.2, Or.inr ⟨s, rfl, rfl, rfl, rfl⟩⟩
          by_cases hn : nat = 0
          · exact Or.inl hn
          · right
            intro p hp hpe
            apply hne
            refine ⟨?_, hn⟩
            simp only [List.any_eq_true, beq_iff_eq]
            exact ⟨p, hp, by simp [hpe]⟩
        · cases h

theorem chgmultStage_ok {elez : List Int} {real : List Bool} {fr : FragOut} {c m : Option Int} {zgf : Bool}
    {o : ChgMult.Out} (h : chgmultStage elez real fr c m zgf = .ok o) :
    vfc { frags := npSplit (zeff elez real) fr.seps, c := c, fc := fr.fc, m := m, fm := fr.fm, zgf := zgf } = .ok o := by
  unfold chgmultStage at h
  split at h
  · rename_i o' ho
    cases h; exact ho
  · cases h
  · cases h

theorem frameSymm_spec (s : Option (List Char)) : ∀ t, frameSymm s = some t → t ≠ [] ∧ lower t = t := by
  intro t ht
  unfold frameSymm at ht
  split at ht
  · cases ht
  · split at ht
    · cases ht
    · rename_i hne
      cases ht
      exact ⟨by intro h0; apply hne; simp [h0], lower_idem _⟩

/-- everything a successful `fromArrays` went through -/
theorem fromArrays_ok {env : Env} {i : Inp} {r : Molrec} (h : fromArrays env i = .ok r) :
    ∃ g u nucs fr cm com orient,
      missingGeom i = .ok g ∧ validateUnits env.angToAu i = .ok u ∧
      validateGeometry i.tooclose g = .ok g ∧
      validateNuclei env.recon (g.length / 3) i = .ok nucs ∧
      validateFragments (g.length / 3) i.seps i.fc i.fm = .ok fr ∧
      chgmultStage (nucs.map (·.Z)) (nucs.map (·.real)) fr i.c i.m i.zgf = .ok cm ∧
      frameFlag i.fixCom = .ok com ∧ frameFlag i.fixOrient = .ok orient ∧
      r = { units := u.units, iutau := u.iutau, name := i.name, comment := i.comment, conn := u.conn
            geom := g
            elea := nucs.map (·.A), elez := nucs.map (·.Z), elem := nucs.map (·.E), mass := nucs.map (·.mass)
            real := nucs.map (·.real), elbl := nucs.map (·.label)
            seps := fr.seps
            c := cm.c, fc := cm.fc, m := cm.m, fm := cm.fm
            fixCom := com, fixOrient := orient, fixSymm := frameSymm i.fixSymm } := by
  unfold fromArrays at h
  split at h
  · cases h
  rename_i g0 hg0
  split at h
  · cases h
  rename_i u hu
  split at h
  · cases h
  rename_i g hg
  have hgg : g = g0 := (validateGeometry_ok hg).1
  subst hgg
  simp only at h
  split at h
  · cases h
  rename_i nucs hn
  split at h
  · cases h
  rename_i fr hfr
  split at h
  · cases h
  rename_i cm hcm
  split at h
  · cases h
  rename_i com hcom
  split at h
  · cases h
  rename_i orient hor
  cases h
  exact ⟨g, u, nucs, fr, cm, com, orient, hg0, hu, hg, hn, hfr, hcm, hcom, hor, rfl⟩

/-! ## `from_arrays_inv` -/

theorem effective_frags (i : ChgMult.Inp) : (ChgMult.effective i).frags = i.frags := by
  unfold ChgMult.effective; split <;> rfl

/-- a successful charge/multiplicity stage leaves an assignment that obeys C05's rules when read
as a full specification of its own -/
theorem rules_of_vfc {frags : List (List Int)} {c m : Option Int} {fc fm : List (Option Int)} {zgf : Bool}
    {o : ChgMult.Out} (h : vfc { frags := frags, c := c, fc := fc, m := m, fm := fm, zgf := zgf } = .ok o) :
    Rules (fullSpec frags o false) o := by
  have R := ChgMult.vfc_sound _ _ h
  exact ChgMult.Rules_respec _ (fullSpec frags o false) o R
    (by rw [effective_frags]; rfl) rfl rfl (Or.inl rfl) (Or.inl rfl)

/-- **Invariant.** Whenever building a molecule from arrays succeeds, the record satisfies `Inv`
(for the per-atom settings, threshold and conversion factor of the call). -/
theorem from_arrays_inv (env : Env) (valid : NucSettings → Nuc → Prop) (hs : NucSound env.recon valid)
    (i : Inp) (r : Molrec) (h : fromArrays env i = .ok r) :
    Inv valid env.angToAu (nucSettings i) i.tooclose r := by
  obtain ⟨g, u, nucs, fr, cm, com, orient, hg0, hu, hg, hn, hfr, hcm, hcom, hor, rfl⟩ := fromArrays_ok h
  obtain ⟨_, rows, hrows, hclose⟩ := validateGeometry_ok hg
  have hlen := rows3_length _ _ hrows
  have hnat : g.length / 3 = rows.length := by omega
  obtain ⟨hl, hm⟩ := validateNuclei_ok hn
  have hnl : nucs.length = g.length / 3 := by
    rw [mapE_ok_length hm]
    exact length_clues _ _ _ _ _ _ _ hl.1 hl.2.1 hl.2.2.1 hl.2.2.2.1 hl.2.2.2.2.1 hl.2.2.2.2.2
  obtain ⟨hconn, _, hunits, _, hiu⟩ := validateUnits_ok hu
  obtain ⟨hne, hlfc, hlfm, _⟩ := validateFragments_ok hfr
  have hv := chgmultStage_ok hcm
  have R := rules_of_vfc hv
  have hRl := R.len_fc
  have hRm := R.len_fm
  simp only [fullSpec, length_npSplit] at hRl hRm
  -- the split of `range nat` has the same piece lengths as the trial split
  have hsame : (npSplit (List.range nucs.length) fr.seps).map List.length
      = (npSplit (List.replicate (g.length / 3) ()) fr.seps).map List.length :=
    npSplit_lengths_eq _ _ (by simp [hnl]) _
  have hne' : nucs.length ≠ 0 → ∀ p ∈ npSplit (List.range nucs.length) fr.seps, p ≠ [] := by
    intro hn0 p hp hpe
    rcases hne with h0 | hne
    · omega
    · have : (0 : Nat) ∈ (npSplit (List.range nucs.length) fr.seps).map List.length :=
        List.mem_map.2 ⟨p, hp, by simp [hpe]⟩
      rw [hsame] at this
      obtain ⟨q, hq, hq0⟩ := List.mem_map.1 this
      exact hne q hq (List.length_eq_zero_iff.1 hq0)
  exact {
    cols := ⟨nucs, rfl, rfl, rfl, rfl, rfl, rfl, fun u hu' => by
      obtain ⟨c, _, hc⟩ := mapE_ok_mem hm u hu'
      exact hs _ _ _ hc⟩
    geom := ⟨rows, hrows, by simp [hnl, hnat], (anyTooClose_false_iff _ _).1 hclose⟩
    units := hunits
    iutau := hiu
    frag_cover := by
      simp only [List.length_map]
      by_cases hn0 : nucs.length = 0
      · rw [hn0]; exact flatten_npSplit_nil _
      · exact flatten_npSplit _ _ (hne' hn0)
    frag_nonempty := by simpa using hne'
    len_fc := hRl
    len_fm := hRm
    chg := R
    conn := by
      intro bs hbs
      rcases validateConn_ok hconn with ⟨_, h2⟩ | ⟨l, bs', _, hmap, h2⟩
      · rw [h2] at hbs; cases hbs
      · rw [h2] at hbs; cases hbs
        refine ⟨pairwise_sortBonds _, ?_⟩
        intro b hb
        obtain ⟨bi, _, hbi⟩ := mapE_ok_mem hmap b (mem_sortBonds.1 hb)
        exact normBond_ok hbi
    symm := frameSymm_spec _ }

/-! ## `from_arrays_idempotent` -/

theorem missingGeom_back {i i' : Inp} {g : List Rat} (h : missingGeom i = .ok g)
    (hg : i'.geom = some g) (hm : i'.minimal = i.minimal) : missingGeom i' = .ok g := by
  rcases missingGeom_ok h with ⟨hne, _⟩ | ⟨he, hmin⟩
  · unfold missingGeom; rw [hg]
    cases g with
    | nil => exact absurd rfl hne
    | cons x t => rfl
  · subst he; unfold missingGeom; rw [hg]; simp [hm, hmin]

theorem normBond_back (b : Bond) (h : b.1 ≤ b.2.1 ∧ 0 ≤ b.2.2 ∧ b.2.2 ≤ 5) :
    normBond (bondBack b) = .ok b := by
  obtain ⟨a, b', o⟩ := b
  obtain ⟨h1, h2, h3⟩ := h
  simp only at h1 h2 h3
  have n1 : ¬ ((a : Int) < 0) := by omega
  have n2 : ¬ ((b' : Int) < 0) := by omega
  have n3 : ¬ (o < 0 ∨ o > 5) := by
    rintro (h | h)
    · exact (Rat.not_lt.2 h2) h
    · exact (Rat.not_lt.2 h3) h
  simp only [bondBack, normBond, n1, n2, n3, if_false, Int.toNat_natCast]
  rw [Nat.min_eq_left h1, Nat.max_eq_right h1]

theorem validateConn_back {bs : List Bond} (hs : bs.Pairwise (fun a b => bondLe a b = true))
    (hb : ∀ b ∈ bs, b.1 ≤ b.2.1 ∧ 0 ≤ b.2.2 ∧ b.2.2 ≤ 5) :
    validateConn (some (bs.map bondBack)) = .ok (some bs) := by
  have := mapE_map_of_forall (f := normBond) (g := bondBack) (bs := bs) (fun b hb' => normBond_back b (hb b hb'))
  simp [validateConn, this, sortBonds_of_pairwise hs]

theorem validateUnits_back (a : Rat) (i' : Inp) (units : List Char) (iu : Option Rat) (conn : Option (List Bond))
    (hu : units = sAngstrom ∨ units = sBohr) (hi : i'.units = units) (hiu : i'.iutau = iu)
    (hw : ∀ x, iu = some x → absRat (x - dfltIutau a units) < 1 / 20)
    (hc : validateConn i'.conn = .ok conn) :
    validateUnits a i' = .ok { units := units, iutau := iu, conn := conn } := by
  have hcap : capitalize units = units := by
    rcases hu with rfl | rfl
    · exact capitalize_sAngstrom
    · exact capitalize_sBohr
  unfold validateUnits
  rw [hc, hi, hcap]
  simp only [hu, if_true]
  cases iu with
  | none => rw [hiu]
  | some x => rw [hiu]; simp [hw x rfl]

theorem clues_of_nucs : ∀ nucs : List Nuc,
    clues (eleaNorm (nucs.map (fun u => some u.A))) (nucs.map (fun u => some u.Z))
      (nucs.map (fun u => some u.E)) (nucs.map (fun u => some u.mass))
      (nucs.map (fun u => some u.real)) (nucs.map (fun u => some u.label)) = nucs.map clueOf
  | [] => rfl
  | u :: t => by
      have ih := clues_of_nucs t
      simp only [eleaNorm, List.map_cons, clues] at ih ⊢
      rw [ih]
      simp [clueOf]

theorem validateNuclei_back {rc : Reconciler} (hi : NucIdem rc) {st : NucSettings} {cl : List Clue} {nucs : List Nuc}
    (hm : mapE (rc st) cl = .ok nucs) (i' : Inp)
    (hst : nucSettings i' = { st with speclabel := false })
    (h1 : i'.elea = some (nucs.map (fun u => some u.A))) (h2 : i'.elez = some (nucs.map (fun u => some u.Z)))
    (h3 : i'.elem = some (nucs.map (fun u => some u.E))) (h4 : i'.mass = some (nucs.map (fun u => some u.mass)))
    (h5 : i'.real = some (nucs.map (fun u => some u.real))) (h6 : i'.elbl = some (nucs.map (fun u => some u.label))) :
    validateNuclei rc nucs.length i' = .ok nucs := by
  unfold validateNuclei
  simp only [nucArrays, h1, h2, h3, h4, h5, h6, fillNone, eleaNorm, List.length_map, and_self, if_true]
  have := clues_of_nucs nucs
  simp only [eleaNorm] at this
  rw [this, hst]
  exact mapE_map_of_forall (fun u hu => by
    obtain ⟨c, _, hc⟩ := mapE_ok_mem hm u hu
    exact hi _ _ _ hc)

theorem sum_lengths_npSplit {α} (l : List α) (seps : List Int)
    (h : l.length = 0 ∨ ∀ p ∈ npSplit l seps, p ≠ []) :
    ((npSplit l seps).map List.length).sum = l.length := by
  rw [← List.length_flatten]
  rcases h with h | h
  · have : l = [] := List.length_eq_zero_iff.1 h
    subst this
    rw [flatten_npSplit_nil]
  · rw [flatten_npSplit l seps h]

theorem validateFragments_back {nat : Nat} {seps : List Int} {fc fm : List Int}
    (hne : nat = 0 ∨ ∀ p ∈ npSplit (List.replicate nat ()) seps, p ≠ [])
    (hfc : fc.length = seps.length + 1) (hfm : fm.length = seps.length + 1) :
    validateFragments nat (some seps) (some (fc.map some)) (some (fm.map some))
      = .ok { seps := seps, fc := fc.map some, fm := fm.map some } := by
  have hsum := sum_lengths_npSplit (List.replicate nat ()) seps (by simpa using hne)
  simp only [List.length_replicate] at hsum
  have hany : ¬ ((npSplit (List.replicate nat ()) seps).any (fun f => f.length == 0) = true ∧ nat ≠ 0) := by
    rintro ⟨ha, hn⟩
    rcases hne with h0 | hne
    · exact hn h0
    · simp only [List.any_eq_true, beq_iff_eq] at ha
      obtain ⟨p, hp, hp0⟩ := ha
      exact hne p hp (List.length_eq_zero_iff.1 hp0)
  unfold validateFragments
  simp only [hany, if_false, hsum, ne_eq, not_true_eq_false, Option.getD_some, List.length_map, hfc, hfm,
    and_self, if_true]

theorem frameFlag_back (b : Bool) : frameFlag (Tri.ofBool b) = .ok b := by cases b <;> rfl

theorem frameSymm_idem (s : Option (List Char)) : frameSymm (frameSymm s) = frameSymm s := by
  cases h : frameSymm s with
  | none => rfl
  | some t =>
    obtain ⟨hne, hl⟩ := frameSymm_spec s t h
    simp only [frameSymm, hl]
    cases t with
    | nil => exact absurd rfl hne
    | cons c t' => simp

/-- **Fixed point.** A record returned by `from_arrays`, passed through `from_arrays` again
(`speclabel=False`, same `nonphysical` / `mtol` / `tooclose` / `missing_enabled_return`), is returned
unchanged — provided the per-atom reconciler is idempotent (C06). -/
theorem from_arrays_idempotent (env : Env) (hid : NucIdem env.recon)
    (i : Inp) (r : Molrec) (h : fromArrays env i = .ok r) :
    fromArrays env (asInput i r) = .ok r := by
  have I := from_arrays_inv env (fun _ _ => True) (fun _ _ _ _ => trivial) i r h
  obtain ⟨g, u, nucs, fr, cm, com, orient, hg0, hu, hg, hn, hfr, hcm, hcom, hor, hr⟩ := fromArrays_ok h
  obtain ⟨_, rows, hrows, hclose⟩ := validateGeometry_ok hg
  obtain ⟨hl, hm⟩ := validateNuclei_ok hn
  have hnl : nucs.length = g.length / 3 := by
    rw [mapE_ok_length hm]
    exact length_clues _ _ _ _ _ _ _ hl.1 hl.2.1 hl.2.2.1 hl.2.2.2.1 hl.2.2.2.2.1 hl.2.2.2.2.2
  obtain ⟨hconn, _, hunits, _, hiu⟩ := validateUnits_ok hu
  obtain ⟨hne, _, _, _⟩ := validateFragments_ok hfr
  have R := rules_of_vfc (chgmultStage_ok hcm)
  have hRl := R.len_fc
  have hRm := R.len_fm
  simp only [fullSpec, length_npSplit] at hRl hRm
  -- the fields of `r`
  have eg : r.geom = g := by rw [hr]
  have eunits : r.units = u.units := by rw [hr]
  have eiutau : r.iutau = u.iutau := by rw [hr]
  have econn : r.conn = u.conn := by rw [hr]
  have e1 : r.elea = nucs.map (·.A) := by rw [hr]
  have e2 : r.elez = nucs.map (·.Z) := by rw [hr]
  have e3 : r.elem = nucs.map (·.E) := by rw [hr]
  have e4 : r.mass = nucs.map (·.mass) := by rw [hr]
  have e5 : r.real = nucs.map (·.real) := by rw [hr]
  have e6 : r.elbl = nucs.map (·.label) := by rw [hr]
  have eseps : r.seps = fr.seps := by rw [hr]
  have ec : r.c = cm.c := by rw [hr]
  have efc : r.fc = cm.fc := by rw [hr]
  have em : r.m = cm.m := by rw [hr]
  have efm : r.fm = cm.fm := by rw [hr]
  have ecom : r.fixCom = com := by rw [hr]
  have eor : r.fixOrient = orient := by rw [hr]
  have esymm : r.fixSymm = frameSymm i.fixSymm := by rw [hr]
  have ename : r.name = i.name := by rw [hr]
  have ecomment : r.comment = i.comment := by rw [hr]
  -- stage by stage on the fed-back input
  have s1 : missingGeom (asInput i r) = .ok g := missingGeom_back hg0 (by simp [asInput, eg]) rfl
  have hconn' : validateConn (asInput i r).conn = .ok u.conn := by
    cases hc : u.conn with
    | none => simp [asInput, econn, hc, validateConn]
    | some bs =>
      have := I.conn bs (by rw [econn, hc])
      simp only [asInput, econn, hc, Option.map_some]
      exact validateConn_back this.1 this.2
  have s2 := validateUnits_back env.angToAu (asInput i r) u.units u.iutau u.conn hunits
    (by simp [asInput, eunits]) (by simp [asInput, eiutau]) hiu hconn'
  have s4 : validateNuclei env.recon (g.length / 3) (asInput i r) = .ok nucs := by
    rw [← hnl]
    exact validateNuclei_back hid hm _ rfl (by simp [asInput, e1]) (by simp [asInput, e2]) (by simp [asInput, e3])
      (by simp [asInput, e4]) (by simp [asInput, e5]) (by simp [asInput, e6])
  have s5 : validateFragments (g.length / 3) (asInput i r).seps (asInput i r).fc (asInput i r).fm
      = .ok { seps := fr.seps, fc := cm.fc.map some, fm := cm.fm.map some } := by
    simp only [asInput, eseps, efc, efm]
    exact validateFragments_back hne hRl hRm
  have s6 : chgmultStage (nucs.map (·.Z)) (nucs.map (·.real))
      { seps := fr.seps, fc := cm.fc.map some, fm := cm.fm.map some }
      (asInput i r).c (asInput i r).m (asInput i r).zgf = .ok cm := by
    simp only [asInput, ec, em]
    unfold chgmultStage
    have := ChgMult.vfc_accepts_valid_full _ cm R
    simp only [fullSpec] at this
    simp only [this]
  have s7 : frameFlag (asInput i r).fixCom = .ok com := by simp [asInput, ecom, frameFlag_back]
  have s8 : frameFlag (asInput i r).fixOrient = .ok orient := by simp [asInput, eor, frameFlag_back]
  have s9 : frameSymm (asInput i r).fixSymm = frameSymm i.fixSymm := by
    simp [asInput, esymm, frameSymm_idem]
  have s10 : (asInput i r).name = i.name := by simp [asInput, ename]
  have s11 : (asInput i r).comment = i.comment := by simp [asInput, ecomment]
  have s3 : validateGeometry (asInput i r).tooclose g = .ok g := hg
  unfold fromArrays
  simp only [s1, s2, s3, s4, s5, s6, s7, s8, s9, s10, s11]
  exact congrArg Except.ok hr.symm

/-! ## refusals -/

theorem missingGeom_error {i : Inp} {e : Err} (h : missingGeom i = .error e) : e = .validation := by
  unfold missingGeom at h
  split at h
  · cases h
  · split at h
    · cases h
    · cases h; rfl

theorem normBond_error {b : BondIn} {e : Err} (h : normBond b = .error e) : e = .validation := by
  unfold normBond at h
  split at h
  · cases h; rfl
  · split at h
    · split at h
      · cases h; rfl
      · split at h
        · cases h; rfl
        · split at h
          · cases h; rfl
          · cases h
    · cases h; rfl

theorem validateConn_error {c : Option (List BondIn)} {e : Err} (h : validateConn c = .error e) :
    e = .validation := by
  unfold validateConn at h
  split at h
  · cases h
  · split at h
    · rename_i e' he'
      cases h
      exact mapE_error_class (P := fun e => e = Err.validation) (fun _ _ hh => normBond_error hh) he'
    · cases h

theorem validateUnits_error {a : Rat} {i : Inp} {e : Err} (h : validateUnits a i = .error e) :
    e = .validation := by
  unfold validateUnits at h
  split at h
  · rename_i e' he'
    cases h; exact validateConn_error he'
  · simp only at h
    split at h
    · split at h
      · cases h
      · split at h
        · cases h
        · cases h; rfl
    · cases h; rfl

theorem validateGeometry_error {tc : Rat} {g : List Rat} {e : Err} (h : validateGeometry tc g = .error e) :
    e = .validation := by
  unfold validateGeometry at h
  split at h
  · cases h; rfl
  · split at h
    · cases h; rfl
    · cases h

theorem validateFragments_error {nat : Nat} {seps : Option (List Int)} {fc fm : Option (List (Option Int))}
    {e : Err} (h : validateFragments nat seps fc fm = .error e) : e = .validation := by
  unfold validateFragments at h
  split at h
  · split at h
    · cases h
    · cases h; rfl
  · simp only at h
    split at h
    · cases h; rfl
    · split at h
      · cases h; rfl
      · split at h
        · cases h
        · cases h; rfl

theorem frameFlag_error {t : Tri} {e : Err} (h : frameFlag t = .error e) : e = .validation := by
  cases t <;> simp [frameFlag] at h
  exact h.symm

/-- with one charge and one multiplicity slot per fragment (guaranteed by the fragment stage) the
charge/multiplicity stage can only refuse with `ValidationError` -/
theorem chgmultStage_error {elez : List Int} {real : List Bool} {fr : FragOut} {c m : Option Int} {zgf : Bool}
    {e : Err} (hfc : fr.fc.length = fr.seps.length + 1) (hfm : fr.fm.length = fr.seps.length + 1)
    (h : chgmultStage elez real fr c m zgf = .error e) : e = .validation := by
  unfold chgmultStage at h
  split at h
  · cases h
  · cases h; rfl
  · rename_i hv
    exfalso
    have hw : ChgMult.wellFormed { frags := npSplit (zeff elez real) fr.seps, c := c, fc := fr.fc, m := m, fm := fr.fm, zgf := zgf } = true := by
      simp [ChgMult.wellFormed, length_npSplit, hfc, hfm]
    rcases ChgMult.vfc_error_is_validation _ hw with ⟨o, ho, _⟩ | hh
    · rw [ho] at hv; cases hv
    · rw [hh] at hv; cases hv

/-- **Refusal classes of `from_arrays`.** Any refusal is a `ValidationError`, except that an error
raised by the per-atom reconciler itself is passed on unchanged — and that can only happen after
the units, the geometry and the per-atom array lengths have been accepted. -/
theorem fromArrays_error {env : Env} {i : Inp} {e : Err} (h : fromArrays env i = .error e) :
    e = .validation ∨
    ∃ g u, missingGeom i = .ok g ∧ validateUnits env.angToAu i = .ok u ∧ validateGeometry i.tooclose g = .ok g ∧
      ((nucArrays (g.length / 3) i).elea.length = g.length / 3 ∧ (nucArrays (g.length / 3) i).elez.length = g.length / 3 ∧
       (nucArrays (g.length / 3) i).elem.length = g.length / 3 ∧ (nucArrays (g.length / 3) i).mass.length = g.length / 3 ∧
       (nucArrays (g.length / 3) i).real.length = g.length / 3 ∧ (nucArrays (g.length / 3) i).elbl.length = g.length / 3) ∧
      ∃ c, env.recon (nucSettings i) c = .error e := by
  unfold fromArrays at h
  split at h
  · rename_i e' he'; cases h; exact Or.inl (missingGeom_error he')
  rename_i g0 hg0
  split at h
  · rename_i e' he'; cases h; exact Or.inl (validateUnits_error he')
  rename_i u hu
  split at h
  · rename_i e' he'; cases h; exact Or.inl (validateGeometry_error he')
  rename_i g hg
  have hgg : g = g0 := (validateGeometry_ok hg).1
  subst hgg
  simp only at h
  split at h
  · rename_i e' he'
    cases h
    unfold validateNuclei at he'
    simp only at he'
    split at he'
    · rename_i hl
      right
      refine ⟨g, u, hg0, hu, hg, hl, ?_⟩
      have := mapE_error_class (P := fun e => ∃ c, env.recon (nucSettings i) c = Except.error e)
        (fun c e'' hh => ⟨c, hh⟩) he'
      exact this
    · cases he'; exact Or.inl rfl
  rename_i nucs hn
  split at h
  · rename_i e' he'; cases h; exact Or.inl (validateFragments_error he')
  rename_i fr hfr
  obtain ⟨_, hlfc, hlfm, _⟩ := validateFragments_ok hfr
  split at h
  · rename_i e' he'; cases h; exact Or.inl (chgmultStage_error hlfc hlfm he')
  split at h
  · rename_i e' he'; cases h; exact Or.inl (frameFlag_error he')
  split at h
  · rename_i e' he'; cases h; exact Or.inl (frameFlag_error he')
  cases h

/-- **Refusals are validation errors** (short form): the only other class is one raised by the
per-atom reconciler itself. -/
theorem errors_are_validation (env : Env) (i : Inp) (e : Err) (h : fromArrays env i = .error e) :
    e = .validation ∨ ∃ st c, env.recon st c = .error e := by
  rcases fromArrays_error h with h | ⟨_, _, _, _, _, _, c, hc⟩
  · exact Or.inl h
  · exact Or.inr ⟨_, c, hc⟩

/-- **Unknown unit ⇒ ValidationError.** -/
theorem refuses_unknown_unit (env : Env) (i : Inp)
    (h1 : capitalize i.units ≠ sAngstrom) (h2 : capitalize i.units ≠ sBohr) :
    fromArrays env i = .error .validation := by
  cases h : fromArrays env i with
  | ok r =>
    obtain ⟨_, u, _, _, _, _, _, _, hu, _⟩ := fromArrays_ok h
    obtain ⟨_, hcap, hun, _⟩ := validateUnits_ok hu
    rw [hcap] at hun
    rcases hun with hh | hh
    · exact absurd hh h1
    · exact absurd hh h2
  | error e =>
    rcases fromArrays_error h with rfl | ⟨_, u, _, hu, _⟩
    · rfl
    · obtain ⟨_, hcap, hun, _⟩ := validateUnits_ok hu
      rw [hcap] at hun
      rcases hun with hh | hh
      · exact absurd hh h1
      · exact absurd hh h2

theorem missingGeom_some {i : Inp} {g g' : List Rat} (hg : i.geom = some g) (h : missingGeom i = .ok g') :
    g' = g := by
  rcases missingGeom_ok h with ⟨_, h'⟩ | ⟨he, _⟩
  · rw [hg] at h'; cases h'; rfl
  · subst he
    unfold missingGeom at h
    rw [hg] at h
    cases g with
    | nil => rfl
    | cons x t => simp at h

/-- **Geometry not castable to (nat, 3) ⇒ ValidationError.** -/
theorem refuses_geom_not_3n (env : Env) (i : Inp) (g : List Rat) (hg : i.geom = some g)
    (h3 : rows3 g = none) : fromArrays env i = .error .validation := by
  cases h : fromArrays env i with
  | ok r =>
    obtain ⟨g', _, _, _, _, _, _, hg0, _, hgeo, _⟩ := fromArrays_ok h
    have := missingGeom_some hg hg0
    subst this
    obtain ⟨_, rows, hr, _⟩ := validateGeometry_ok hgeo
    rw [h3] at hr; cases hr
  | error e =>
    rcases fromArrays_error h with rfl | ⟨g', _, hg0, _, hgeo, _⟩
    · rfl
    · have := missingGeom_some hg hg0
      subst this
      obtain ⟨_, rows, hr, _⟩ := validateGeometry_ok hgeo
      rw [h3] at hr; cases hr

/-- **Overlapping atoms ⇒ ValidationError**: some pair closer than `tooclose`. -/
theorem refuses_too_close (env : Env) (i : Inp) (g : List Rat) (rows : List R3) (hg : i.geom = some g)
    (h3 : rows3 g = some rows) (hclose : ¬ rows.Pairwise (fun p q => ¬ dist2 p q < i.tooclose * i.tooclose)) :
    fromArrays env i = .error .validation := by
  cases h : fromArrays env i with
  | ok r =>
    obtain ⟨g', _, _, _, _, _, _, hg0, _, hgeo, _⟩ := fromArrays_ok h
    have := missingGeom_some hg hg0
    subst this
    obtain ⟨_, rows', hr, hc⟩ := validateGeometry_ok hgeo
    rw [h3] at hr; cases hr
    exact absurd ((anyTooClose_false_iff _ _).1 hc) hclose
  | error e =>
    rcases fromArrays_error h with rfl | ⟨g', _, hg0, _, hgeo, _⟩
    · rfl
    · have := missingGeom_some hg hg0
      subst this
      obtain ⟨_, rows', hr, hc⟩ := validateGeometry_ok hgeo
      rw [h3] at hr; cases hr
      exact absurd ((anyTooClose_false_iff _ _).1 hc) hclose

/-- some supplied per-atom array does not have one entry per atom -/
def LengthMismatch (i : Inp) (nat : Nat) : Prop :=
  (∃ l, i.elea = some l ∧ l.length ≠ nat) ∨ (∃ l, i.elez = some l ∧ l.length ≠ nat) ∨
  (∃ l, i.elem = some l ∧ l.length ≠ nat) ∨ (∃ l, i.mass = some l ∧ l.length ≠ nat) ∨
  (∃ l, i.real = some l ∧ l.length ≠ nat) ∨ (∃ l, i.elbl = some l ∧ l.length ≠ nat)

theorem lengths_contra {i : Inp} {nat : Nat} (hm : LengthMismatch i nat)
    (hl : (nucArrays nat i).elea.length = nat ∧ (nucArrays nat i).elez.length = nat ∧
       (nucArrays nat i).elem.length = nat ∧ (nucArrays nat i).mass.length = nat ∧
       (nucArrays nat i).real.length = nat ∧ (nucArrays nat i).elbl.length = nat) : False := by
  obtain ⟨l1, l2, l3, l4, l5, l6⟩ := hl
  rcases hm with ⟨l, h, hn⟩ | ⟨l, h, hn⟩ | ⟨l, h, hn⟩ | ⟨l, h, hn⟩ | ⟨l, h, hn⟩ | ⟨l, h, hn⟩
  · simp [nucArrays, h, fillNone, eleaNorm] at l1; exact hn l1
  · simp [nucArrays, h, fillNone] at l2; exact hn l2
  · simp [nucArrays, h, fillNone] at l3; exact hn l3
  · simp [nucArrays, h, fillNone] at l4; exact hn l4
  · simp [nucArrays, h, fillNone] at l5; exact hn l5
  · simp [nucArrays, h, fillNone] at l6; exact hn l6

/-- **Mismatched per-atom lengths ⇒ ValidationError.** -/
theorem refuses_length_mismatch (env : Env) (i : Inp) (g : List Rat) (hg : i.geom = some g)
    (hm : LengthMismatch i (g.length / 3)) : fromArrays env i = .error .validation := by
  cases h : fromArrays env i with
  | ok r =>
    obtain ⟨g', _, _, _, _, _, _, hg0, _, _, hn, _⟩ := fromArrays_ok h
    have := missingGeom_some hg hg0
    subst this
    exact (lengths_contra hm (validateNuclei_ok hn).1).elim
  | error e =>
    rcases fromArrays_error h with rfl | ⟨g', _, hg0, _, _, hl, _⟩
    · rfl
    · have := missingGeom_some hg hg0
      subst this
      exact (lengths_contra hm hl).elim

/-- **Bad separators are never accepted**: if the trial split of `nat > 0` atoms at the supplied
separators has an empty block — which is what an empty fragment (`[0]`, `[nat]`, a repeated
separator), unsorted (`[2, 1]`) or out-of-range (`[nat + 3]`) separators produce, see the examples
below — no record is returned; the refusal is a `ValidationError` unless the reconciler raised first. -/
theorem refuses_bad_separators (env : Env) (i : Inp) (g : List Rat) (s : List Int)
    (hg : i.geom = some g) (hs : i.seps = some s) (hn : g.length / 3 ≠ 0)
    (hempty : ∃ p ∈ npSplit (List.replicate (g.length / 3) ()) s, p = []) :
    ∃ e, fromArrays env i = .error e ∧ (e = .validation ∨ ∃ st c, env.recon st c = .error e) := by
  cases h : fromArrays env i with
  | ok r =>
    exfalso
    obtain ⟨g', _, _, fr, _, _, _, hg0, _, _, _, hfr, _⟩ := fromArrays_ok h
    have := missingGeom_some hg hg0
    subst this
    obtain ⟨hne, _, _, hcase⟩ := validateFragments_ok hfr
    rcases hcase with ⟨h0, _⟩ | ⟨s', hs', hfs, _⟩
    · rw [hs] at h0; cases h0
    · rw [hs] at hs'; cases hs'
      rcases hne with h0 | hne
      · exact hn h0
      · obtain ⟨p, hp, hpe⟩ := hempty
        rw [hfs] at hne
        exact hne p hp hpe
  | error e => exact ⟨e, rfl, errors_are_validation env i e h⟩

/-- **Wrong number of fragment charges / multiplicities is never accepted.** -/
theorem refuses_fragment_length_mismatch (env : Env) (i : Inp) (s : List Int) (hs : i.seps = some s)
    (hbad : (∃ l, i.fc = some l ∧ l.length ≠ s.length + 1) ∨ (∃ l, i.fm = some l ∧ l.length ≠ s.length + 1)) :
    ∃ e, fromArrays env i = .error e ∧ (e = .validation ∨ ∃ st c, env.recon st c = .error e) := by
  cases h : fromArrays env i with
  | ok r =>
    exfalso
    obtain ⟨g', _, _, fr, _, _, _, _, _, _, _, hfr, _⟩ := fromArrays_ok h
    obtain ⟨_, hlc, hlm, hcase⟩ := validateFragments_ok hfr
    rcases hcase with ⟨h0, _⟩ | ⟨s', hs', hfs, hfc, hfm⟩
    · rw [hs] at h0; cases h0
    · rw [hs] at hs'; cases hs'
      rcases hbad with ⟨l, hl, hne⟩ | ⟨l, hl, hne⟩
      · rw [hl] at hfc; simp only [Option.getD_some] at hfc
        rw [hfc, hfs] at hlc; exact hne hlc
      · rw [hl] at hfm; simp only [Option.getD_some] at hfm
        rw [hfm, hfs] at hlm; exact hne hlm
  | error e => exact ⟨e, rfl, errors_are_validation env i e h⟩

/-! ## separators, fragment patterns, `from_schema` -/

theorem chain_bounds : ∀ (a : Nat) (t : List Nat) (z : Nat), (∀ d ∈ diffs (a :: (t ++ [z])), d ≠ 0) →
    (∀ x ∈ t, a < x ∧ x < z) ∧ t.Pairwise (· < ·) ∧ a < z
  | a, [], z, h => by
      have : z - a ≠ 0 := h _ (by simp [diffs])
      exact ⟨by simp, List.Pairwise.nil, by omega⟩
  | a, b :: t, z, h => by
      have h0 : b - a ≠ 0 := h _ (by simp [diffs])
      obtain ⟨hx, hp, hbz⟩ := chain_bounds b t z (fun d hd => h d (by simp [diffs] at hd ⊢; exact Or.inr hd))
      refine ⟨?_, ?_, by omega⟩
      · intro x hx'
        rcases List.mem_cons.1 hx' with rfl | hx'
        · exact ⟨by omega, hbz⟩
        · have := hx x hx'; exact ⟨by omega, this.2⟩
      · exact List.pairwise_cons.2 ⟨fun x hx' => (hx x hx').1, hp⟩

/-- **Accepted non-negative separators are strictly increasing inside (0, nat).**  (Negative
separators are Python slice indices; they are accepted exactly when the split still has no empty
block, and then denote the cut points `nat + s`.) -/
theorem accepted_separators_sorted {α} (l : List α) (seps : List Int) (hpos : ∀ s ∈ seps, 0 ≤ s)
    (h : ∀ p ∈ npSplit l seps, p ≠ []) :
    seps.Pairwise (· < ·) ∧ ∀ s ∈ seps, 0 < s ∧ s < (l.length : Int) := by
  have hd : ∀ d ∈ diffs (((0 : Int) :: (seps ++ [(l.length : Int)])).map (pyClamp l.length)), d ≠ 0 := by
    rw [← lengths_splitAux]
    intro d hd
    simp only [List.mem_map] at hd
    obtain ⟨p, hp, rfl⟩ := hd
    intro h0
    exact h p hp (List.length_eq_zero_iff.1 h0)
  simp only [List.map_cons, List.map_append, List.map_nil, pyClamp_zero, pyClamp_self] at hd
  obtain ⟨hx, hp, _⟩ := chain_bounds 0 (seps.map (pyClamp l.length)) l.length hd
  have hcl : ∀ s ∈ seps, 0 < s ∧ s < (l.length : Int) ∧ pyClamp l.length s = s.toNat := by
    intro s hs
    have h0 := hpos s hs
    have := hx _ (List.mem_map.2 ⟨s, hs, rfl⟩)
    unfold pyClamp at this ⊢
    have hnn : ¬ s < 0 := by omega
    simp only [hnn, if_false] at this ⊢
    refine ⟨by omega, by omega, by omega⟩
  refine ⟨?_, fun s hs => ⟨(hcl s hs).1, (hcl s hs).2.1⟩⟩
  rw [List.pairwise_map] at hp
  refine hp.imp_of_mem ?_
  intro a b ha hb hab
  have h1 := hcl a ha
  have h2 := hcl b hb
  rw [h1.2.2, h2.2.2] at hab
  omega

/-- the separators `contiguize_from_fragment_pattern` computes: cumulative fragment sizes -/
def sepsOfPattern (pattern : List (List Nat)) : List Int :=
  ((cumsum 0 (pattern.map List.length)).dropLast).map (fun (k : Nat) => (k : Int))

theorem cumsum_diffs : ∀ (a : Nat) (t : List Nat), (∀ d ∈ diffs (a :: t), d ≠ 0) →
    cumsum a (diffs (a :: t)) = t
  | _, [], _ => rfl
  | a, b :: t, h => by
      have h0 : b - a ≠ 0 := h _ (by simp [diffs])
      have ih := cumsum_diffs b t (fun d hd => h d (by simp [diffs, hd]))
      simp only [diffs, cumsum]
      have : a + (b - a) = b := by omega
      rw [this, ih]

/-- **Separators ↔ fragment index lists** (the round trip used by the schema translation).
For separators that pass the trial split of `nat` atoms (no empty block), the pattern
`np.split(arange(nat), seps)` written by `to_schema`
  * flattens to `arange(nat)` — so `contiguize_from_fragment_pattern` neither sees skipped atoms nor
    wants to reorder — and
  * is turned back by the cumulative-size rule into the canonical cut points
    `[clamp(s) for s in seps]` (equal to `seps` themselves when these are non-negative), which cut
    every per-atom array exactly where `seps` did. -/
theorem seps_pattern_roundtrip (nat : Nat) (seps : List Int)
    (h : ∀ p ∈ npSplit (List.range nat) seps, p ≠ []) :
    (npSplit (List.range nat) seps).flatten = List.range nat ∧
    sepsOfPattern (npSplit (List.range nat) seps) = seps.map (fun s => ((pyClamp nat s : Nat) : Int)) ∧
    ((∀ s ∈ seps, 0 ≤ s) → sepsOfPattern (npSplit (List.range nat) seps) = seps) := by
  have hflat := flatten_npSplit _ _ h
  have hd : ∀ d ∈ diffs (((0 : Int) :: (seps ++ [((List.range nat).length : Int)])).map (pyClamp (List.range nat).length)), d ≠ 0 := by
    rw [← lengths_splitAux]
    intro d hd
    simp only [List.mem_map] at hd
    obtain ⟨p, hp, rfl⟩ := hd
    intro h0
    exact h p hp (List.length_eq_zero_iff.1 h0)
  have hcs : sepsOfPattern (npSplit (List.range nat) seps) = seps.map (fun s => ((pyClamp nat s : Nat) : Int)) := by
    unfold sepsOfPattern npSplit
    rw [lengths_splitAux]
    simp only [List.map_cons, pyClamp_zero] at hd ⊢
    rw [cumsum_diffs 0 _ hd]
    simp [List.length_range, List.map_map, Function.comp_def]
  refine ⟨hflat, hcs, ?_⟩
  intro hpos
  rw [hcs]
  have := accepted_separators_sorted (List.range nat) seps hpos h
  simp only [List.length_range] at this
  conv => rhs; rw [← List.map_id seps]
  apply List.map_congr_left
  intro s hs
  have h1 := this.2 s hs
  unfold pyClamp
  have hnn : ¬ s < 0 := by omega
  simp only [hnn, if_false, id]
  omega

/-- **Invariant through `from_schema`.** A record returned by `from_schema` satisfies `Inv`
(Bohr, default `tooclose` and `mtol`, `speclabel = False`). -/
theorem from_schema_inv (env : Env) (valid : NucSettings → Nuc → Prop) (hs : NucSound env.recon valid)
    (s : Schema) (r : Molrec) (h : fromSchema env s = .ok r) :
    Inv valid env.angToAu { speclabel := false, nonphysical := s.body.nonphysical, mtol := dfltMtol } dfltTooclose r ∧
    r.units = sBohr := by
  unfold fromSchema at h
  simp only at h
  split at h
  · cases h
  · split at h
    · cases h
    · rename_i cg _
      have I := from_arrays_inv env valid hs _ r h
      refine ⟨I, ?_⟩
      obtain ⟨_, u, _, _, _, _, _, _, hu, _, _, _, _, _, _, hr⟩ := fromArrays_ok h
      obtain ⟨_, hcap, _⟩ := validateUnits_ok hu
      rw [hr]
      simp only [hcap]
      exact capitalize_sBohr

/-! ## non-vacuity (these are tests, labelled as tests) -/

instance : DecidableEq (Except Err Molrec) := fun a b =>
  match a, b with
  | .ok x, .ok y => if h : x = y then isTrue (h ▸ rfl) else isFalse (fun e => h (Except.ok.inj e))
  | .error x, .error y => if h : x = y then isTrue (h ▸ rfl) else isFalse (fun e => h (Except.error.inj e))
  | .ok _, .error _ => isFalse (fun e => by cases e)
  | .error _, .ok _ => isFalse (fun e => by cases e)

/-- a toy reconciler for the examples: atomic number given, everything else defaulted -/
def toyRec : Reconciler := fun _ c =>
  match c.Z with
  | some z => .ok { A := 2 * z, Z := z, E := "X", mass := c.mass.getD (2 * z), real := c.real.getD true,
                    label := c.label.getD "" }
  | none => .error .validation

def toyEnv : Env := { recon := toyRec, angToAu := 189 / 100 }

theorem toyRec_idem : NucIdem toyRec := by
  intro st c o h
  unfold toyRec at h ⊢
  split at h
  · cases h
    simp only [clueOf]
    simp
  · cases h

/-- two helium-like atoms 2 apart, one separator, charge +1 on the system -/
def toyInp : Inp :=
  { geom := some [0, 0, 0, 0, 0, 2], elea := none, elez := some [some 2, some 2], elem := none, mass := none,
    real := none, elbl := none, name := none, comment := none, units := "bohr".toList, iutau := none,
    fixCom := .none, fixOrient := .tt, fixSymm := some "C2V".toList, seps := some [1], fc := none, fm := none,
    c := some 1, m := none, conn := some [.mk (some 1) (some 0) 1], minimal := false, speclabel := true,
    nonphysical := false, mtol := 1 / 1000, tooclose := 1 / 10, zgf := false }

def toyRecOut : Molrec :=
  { units := sBohr, iutau := none, name := none, comment := none, conn := some [(0, 1, 1)],
    geom := [0, 0, 0, 0, 0, 2], elea := [4, 4], elez := [2, 2], elem := ["X", "X"], mass := [4, 4],
    real := [true, true], elbl := ["", ""], seps := [1], c := 1, fc := [1, 0], m := 2, fm := [2, 1],
    fixCom := false, fixOrient := true, fixSymm := some "c2v".toList }

/-- test: the hypotheses of `from_arrays_inv` / `from_arrays_idempotent` are met by a non-trivial input -/
theorem toy_ok : fromArrays toyEnv toyInp = .ok toyRecOut := by decide +kernel

example : fromArrays toyEnv (asInput toyInp toyRecOut) = .ok toyRecOut :=
  from_arrays_idempotent toyEnv toyRec_idem _ _ toy_ok

/-- tests: empty / unsorted / out-of-range separators give an empty block in the trial split of 4 atoms -/
example : [] ∈ npSplit (List.replicate 4 ()) [0] := by decide
example : [] ∈ npSplit (List.replicate 4 ()) [4] := by decide
example : [] ∈ npSplit (List.replicate 4 ()) [2, 2] := by decide
example : [] ∈ npSplit (List.replicate 4 ()) [3, 1] := by decide
example : [] ∈ npSplit (List.replicate 4 ()) [2, 7] := by decide
example : [] ∈ npSplit (List.replicate 4 ()) [-5] := by decide
/-- test: a negative separator that still partitions (Python slice semantics) -/
example : npSplit (List.range 4) [-2] = [[0, 1], [2, 3]] := by decide
/-- tests: refusals on the toy input -/
example : fromArrays toyEnv { toyInp with units := "nm".toList } = .error .validation := by decide +kernel
example : fromArrays toyEnv { toyInp with geom := some [0, 0, 0, 0, 0] } = .error .validation := by decide +kernel
example : fromArrays toyEnv { toyInp with geom := some [0, 0, 0, 0, 0, 1 / 20] } = .error .validation := by decide +kernel
example : fromArrays toyEnv { toyInp with elez := some [some 2] } = .error .validation := by decide +kernel
example : fromArrays toyEnv { toyInp with seps := some [2] } = .error .validation := by decide +kernel
example : fromArrays toyEnv { toyInp with fc := some [none] } = .error .validation := by decide +kernel

end QcelVerif.FromArrays
