import QcelVerif.Props.C16
import QcelVerif.Lemmas.OrientUnique

/-!
# C16 — uniqueness: rigid invariance and idempotence of orientation, without a uniqueness hypothesis

`Props/C16.lean` proves `orient_rigid_invariant_partial` / `orient_idempotent_partial` under the
*assumption* that the eigenvectors found for the second call are the first ones up to a sign per
column.  Here that assumption is **proved** from the per-call certificate (`isEigFrame … 0 0`, i.e.
`Orth V`, `Vᵀ T V = diag l`, `l` ascending) and the property's own qualifier "distinct principal
moments" (`l.x < l.y < l.z`), using `Lemmas/OrientUnique.lean`.

Manifest (12 obligations): `eigframe_unique_of_regular`, `eigframe_unique`, `eigvals_unique` (in
`Lemmas/OrientUnique.lean`), `eigframe_degenerate_not_unique`, `orientTensor_rigid`, `eigframe_rigid`,
`isEigFrame_of_exact`, `isEigFrame_rigid`, `rigid_moments_invariant`, `idempotent_moments`,
`orient_rigid_invariant`, `orient_idempotent`.

Side conditions that remain in the two FULL statements, and why:
* exact arithmetic (tolerance-0 certificates): the theorems are about the model over an ordered field;
  the floating-point `eigh` is certified per call only to ~1e-15 and the implementation re-orients a
  *rounded* geometry (known findings `C16-flushed-decider-*`);
* distinct principal moments `l.x < l.y < l.z` — with a repeated moment the frame is not unique
  (`eigframe_degenerate_not_unique` is a concrete witness);
* every column has an atom off its coordinate plane (`HasOff`): a column in which all entries are
  within `noise` is never touched by the phase loop, so a sign difference in that column survives
  (it is below `noise` in size and is flushed to zero by `float_prep`, see `floatPrep_small`).
-/

namespace QcelVerif.Orient

/-! ## 1. transformation of the tensor and of an eigen-frame under a rigid motion -/

section Field
variable {K : Type} [Field K]

/-- **Transformation law for the tensor handed to `eigh`.**  `ys = xs·R + t`, `R` orthogonal:
`T(ys) = Rᵀ T(xs) R` (centring removes `t`, `inertia_transforms` does the rest). -/
theorem orientTensor_rigid {ms : List K} {xs : List (V3 K)} (hl : ms.length = xs.length) (hM : massSum ms ≠ 0)
    {R : M3 K} (hR : Orth R) (t : V3 K) :
    orientTensor ms (xs.map (fun p => V3.add (V3.mulMat p R) t))
      = M3.mul (M3.mul (M3.tr R) (orientTensor ms xs)) R := by
  unfold orientTensor
  rw [center_rigid hl hM]
  exact inertia_transforms hR ms (center ms xs)

/-- **Eigen-frames move with the molecule.**  If `V` is orthogonal and diagonalises `T(xs)` to `L`, then
`RᵀV` is orthogonal and diagonalises `T(xs·R + t)` to the same `L` (same principal moments). -/
theorem eigframe_rigid {ms : List K} {xs : List (V3 K)} (hl : ms.length = xs.length) (hM : massSum ms ≠ 0)
    {R V L : M3 K} (hR : Orth R) (t : V3 K) (hV : Orth V)
    (hD : M3.mul (M3.mul (M3.tr V) (orientTensor ms xs)) V = L) :
    Orth (M3.mul (M3.tr R) V) ∧
    M3.mul (M3.mul (M3.tr (M3.mul (M3.tr R) V)) (orientTensor ms (xs.map (fun p => V3.add (V3.mulMat p R) t))))
      (M3.mul (M3.tr R) V) = L := by
  refine ⟨orth_mul (orth_tr hR) hV, ?_⟩
  rw [orientTensor_rigid hl hM hR t]
  have h := sandwich_sandwich R (M3.mul (M3.tr R) V) (orientTensor ms xs)
  rw [← mul_assoc3, hR.2, one_mul3] at h
  unfold sandwich at h
  rw [h, hD]

/-- the frame found for the moved copy, pulled back by `R`, is an exact eigen-frame of the original tensor -/
theorem eigframe_pullback {ms : List K} {xs : List (V3 K)} (hl : ms.length = xs.length) (hM : massSum ms ≠ 0)
    {R V' L : M3 K} (hR : Orth R) (t : V3 K) (hV' : Orth V')
    (hD' : M3.mul (M3.mul (M3.tr V') (orientTensor ms (xs.map (fun p => V3.add (V3.mulMat p R) t)))) V' = L) :
    Orth (M3.mul R V') ∧ M3.mul (M3.mul (M3.tr (M3.mul R V')) (orientTensor ms xs)) (M3.mul R V') = L := by
  refine ⟨orth_mul hR hV', ?_⟩
  rw [orientTensor_rigid hl hM hR t] at hD'
  have h := sandwich_sandwich R V' (orientTensor ms xs)
  unfold sandwich at h
  rw [← h]; exact hD'

end Field

section Ordered
variable {K : Type} [Field K] [LinearOrder K] [IsStrictOrderedRing K]

omit [IsStrictOrderedRing K] in
theorem colOK_of_pm {noise d : K} {c : List K} (hd : d = 1 ∨ d = -1) (hoff : HasOff noise c) : ColOK noise d c := by
  rcases hd with h | h
  · exact Or.inl h
  · exact Or.inr ⟨h, hoff⟩

/-- converse of `isEigFrame_exact`: the exact relations make the tolerance-0 certificate succeed -/
theorem isEigFrame_of_exact {T V : M3 K} {l : V3 K} (hV : Orth V)
    (hD : M3.mul (M3.mul (M3.tr V) T) V = M3.diag l.x l.y l.z) (h1 : l.x ≤ l.y) (h2 : l.y ≤ l.z) :
    isEigFrame T V l 0 0 = true := by
  have hz : ∀ A : M3 K, M3.maxAbs (M3.sub A A) = 0 := by
    intro A; simp [M3.maxAbs, M3.sub]
  unfold isEigFrame certResiduals
  rw [hV.1, hV.2, hD]
  simp [hz, h1, h2]

/-- **Principal moments are invariants of rigid motion.**  Two certified (exact, ascending) eigen-frames,
one of a molecule with distinct moments and one of a rigidly moved copy, carry the same eigenvalues. -/
theorem rigid_moments_invariant {ms : List K} {xs : List (V3 K)} {R V V' : M3 K} (t : V3 K) {l l' : V3 K}
    (hl : ms.length = xs.length) (hM : massSum ms ≠ 0) (hR : Orth R)
    (hc : isEigFrame (orientTensor ms xs) V l 0 0 = true)
    (hc' : isEigFrame (orientTensor ms (xs.map (fun p => V3.add (V3.mulMat p R) t))) V' l' 0 0 = true)
    (hxy : l.x < l.y) (hyz : l.y < l.z) : l' = l := by
  obtain ⟨hV, hD, -, -⟩ := isEigFrame_exact hc
  obtain ⟨hV', hD', hxy', hyz'⟩ := isEigFrame_exact hc'
  obtain ⟨hW, hDW⟩ := eigframe_pullback hl hM hR t hV' hD'
  exact eigvals_unique hV hW hD hDW hxy hyz hxy' hyz'

/-! ## 2. the FULL statements -/

/-- **Rigid invariance (full).**  `ys = xs·R + t` with `R` orthogonal.  `V, l` is *any* certified
eigen-frame of the tensor of `xs`, `V', l'` *any* certified eigen-frame of the tensor of `ys` (exact
certificates: orthogonal, diagonalising, ascending — what the driver checks per call at tolerance 0).
If the principal moments are pairwise distinct and every column of the rotated geometry has an atom off
its coordinate plane, both copies orient to exactly the same coordinates.  No relation between `V` and
`V'` is assumed: `V' = Rᵀ·V·diag(±1)` is derived (`eigframe_unique`, `eigvals_unique`). -/
theorem orient_rigid_invariant {noise : K} (h0 : 0 < noise) {ms : List K} {xs : List (V3 K)}
    {R V V' : M3 K} (t : V3 K) {l l' : V3 K}
    (hl : ms.length = xs.length) (hM : massSum ms ≠ 0) (hR : Orth R)
    (hc : isEigFrame (orientTensor ms xs) V l 0 0 = true)
    (hc' : isEigFrame (orientTensor ms (xs.map (fun p => V3.add (V3.mulMat p R) t))) V' l' 0 0 = true)
    (hxy : l.x < l.y) (hyz : l.y < l.z)
    (hox : HasOff noise ((rotate (center ms xs) V).map (·.x)))
    (hoy : HasOff noise ((rotate (center ms xs) V).map (·.y)))
    (hoz : HasOff noise ((rotate (center ms xs) V).map (·.z))) :
    orientCore noise ms (xs.map (fun p => V3.add (V3.mulMat p R) t)) V' = orientCore noise ms xs V := by
  obtain ⟨hV, hD, -, -⟩ := isEigFrame_exact hc
  obtain ⟨hV', hD', hxy', hyz'⟩ := isEigFrame_exact hc'
  obtain ⟨hW, hDW⟩ := eigframe_pullback hl hM hR t hV' hD'
  have el : l' = l := eigvals_unique hV hW hD hDW hxy hyz hxy' hyz'
  rw [el] at hDW
  obtain ⟨d0, d1, d2, p0, p1, p2, hE⟩ :=
    eigframe_unique hV hW hD hDW (ne_of_lt hxy) (ne_of_lt (hxy.trans hyz)) (ne_of_lt hyz)
  have hV'eq : V' = M3.mul (M3.mul (M3.tr R) V) (M3.diag d0 d1 d2) := by
    rw [mul_assoc3, ← hE, ← mul_assoc3, hR.1, one_mul3]
  rw [hV'eq]
  exact orient_rigid_invariant_partial h0 t hl hM hR.2 (colOK_of_pm p0 hox) (colOK_of_pm p1 hoy) (colOK_of_pm p2 hoz)

/-- **Idempotence (full, exact arithmetic).**  `out` is the oriented geometry obtained with a certified
eigen-frame `V, l` with pairwise distinct moments; `V2, l2` is *any* certified eigen-frame of the tensor
of `out` (the second `eigh` call).  If every column of `out` has an atom off its coordinate plane,
orienting again returns `out` itself.  `V2 = diag(±1)` and `l2 = l` are derived, not assumed.
(The implementation re-orients the *rounded* geometry; for that the claim fails on the narrow
flushed-decider class — known finding `C16-flushed-decider-idempotence`.) -/
theorem orient_idempotent {noise : K} (h0 : 0 < noise) {ms : List K} {xs : List (V3 K)} {V V2 : M3 K}
    {l l2 : V3 K} {out : List (V3 K)}
    (hc : isEigFrame (orientTensor ms xs) V l 0 0 = true) (hxy : l.x < l.y) (hyz : l.y < l.z)
    (h : orientCore noise ms xs V = .ok out)
    (hc2 : isEigFrame (orientTensor ms out) V2 l2 0 0 = true)
    (hox : HasOff noise (out.map (·.x))) (hoy : HasOff noise (out.map (·.y))) (hoz : HasOff noise (out.map (·.z))) :
    orientCore noise ms out V2 = .ok out := by
  obtain ⟨hV, hD, -, -⟩ := isEigFrame_exact hc
  obtain ⟨hV2, hD2, hxy2, hyz2⟩ := isEigFrame_exact hc2
  have hT : orientTensor ms out = M3.diag l.x l.y l.z := by
    unfold orientTensor
    rw [center_of_centred (orient_com_zero h)]
    exact (orient_inertia_diagonal hV hD h).1
  rw [hT] at hD2
  have hD1 : M3.mul (M3.mul (M3.tr M3.one) (M3.diag l.x l.y l.z)) M3.one = M3.diag l.x l.y l.z := by
    rw [tr_one, one_mul3, mul_one3]
  have el : l2 = l := eigvals_unique orth_one hV2 hD1 hD2 hxy hyz hxy2 hyz2
  rw [el] at hD2
  obtain ⟨d0, d1, d2, p0, p1, p2, hE⟩ :=
    eigframe_unique orth_one hV2 hD1 hD2 (ne_of_lt hxy) (ne_of_lt (hxy.trans hyz)) (ne_of_lt hyz)
  rw [one_mul3] at hE
  rw [hE]
  exact orient_idempotent_partial h0 h (colOK_of_pm p0 hox) (colOK_of_pm p1 hoy) (colOK_of_pm p2 hoz)

/-- the second pass also reports the same moments -/
theorem idempotent_moments {noise : K} {ms : List K} {xs : List (V3 K)} {V V2 : M3 K}
    {l l2 : V3 K} {out : List (V3 K)}
    (hc : isEigFrame (orientTensor ms xs) V l 0 0 = true) (hxy : l.x < l.y) (hyz : l.y < l.z)
    (h : orientCore noise ms xs V = .ok out)
    (hc2 : isEigFrame (orientTensor ms out) V2 l2 0 0 = true) : l2 = l := by
  obtain ⟨hV, hD, -, -⟩ := isEigFrame_exact hc
  obtain ⟨hV2, hD2, hxy2, hyz2⟩ := isEigFrame_exact hc2
  have hT : orientTensor ms out = M3.diag l.x l.y l.z := by
    unfold orientTensor
    rw [center_of_centred (orient_com_zero h)]
    exact (orient_inertia_diagonal hV hD h).1
  rw [hT] at hD2
  have hD1 : M3.mul (M3.mul (M3.tr M3.one) (M3.diag l.x l.y l.z)) M3.one = M3.diag l.x l.y l.z := by
    rw [tr_one, one_mul3, mul_one3]
  exact eigvals_unique orth_one hV2 hD1 hD2 hxy hyz hxy2 hyz2

/-- a certificate for the moved copy always exists when one exists for the original (`RᵀV`, same `l`):
the hypothesis `hc'` of `orient_rigid_invariant` is satisfiable whenever `hc` is -/
theorem isEigFrame_rigid {ms : List K} {xs : List (V3 K)} (hl : ms.length = xs.length) (hM : massSum ms ≠ 0)
    {R V : M3 K} {l : V3 K} (hR : Orth R) (t : V3 K) (hc : isEigFrame (orientTensor ms xs) V l 0 0 = true) :
    isEigFrame (orientTensor ms (xs.map (fun p => V3.add (V3.mulMat p R) t))) (M3.mul (M3.tr R) V) l 0 0 = true := by
  obtain ⟨hV, hD, h1, h2⟩ := isEigFrame_exact hc
  obtain ⟨hW, hDW⟩ := eigframe_rigid hl hM hR t hV hD
  exact isEigFrame_of_exact hW hDW h1 h2

end Ordered

/-! ## non-vacuity and sharpness (tests, `K = ℚ`) -/
section Examples

/-- **Sharpness of "distinct".**  With a repeated eigenvalue the conclusion of `eigframe_unique` fails:
`T = diag(1,1,2)`, `V = 1`, `V'` = quarter turn about z — every other hypothesis holds. -/
theorem eigframe_degenerate_not_unique :
    ∃ (T V V' : M3 ℚ) (l0 l1 l2 : ℚ), Orth V ∧ Orth V' ∧
      M3.mul (M3.mul (M3.tr V) T) V = M3.diag l0 l1 l2 ∧ M3.mul (M3.mul (M3.tr V') T) V' = M3.diag l0 l1 l2 ∧
      l0 ≤ l1 ∧ l1 < l2 ∧ ¬ ∃ d0 d1 d2 : ℚ, V' = M3.mul V (M3.diag d0 d1 d2) := by
  refine ⟨M3.diag 1 1 2, M3.one, ⟨0, 1, 0, -1, 0, 0, 0, 0, 1⟩, 1, 1, 2, ?_, ?_, ?_, ?_, ?_, ?_, ?_⟩
  · constructor <;> decide +kernel
  · constructor <;> decide +kernel
  · decide +kernel
  · decide +kernel
  · decide +kernel
  · decide +kernel
  · rintro ⟨d0, d1, d2, h⟩
    have := congrArg M3.xy h
    simp [M3.mul, M3.one, M3.diag] at this

/-- test data: six unit masses at `(±3,0,0), (0,±2,0), (0,0,±1)` — an asymmetric top whose axes are
already principal (moments 10 < 20 < 26), every column has an off-plane atom and the first such atom is
negative in every column (all three phase flips fire). -/
def uqMs : List ℚ := [1, 1, 1, 1, 1, 1]
def uqXs : List (V3 ℚ) := [⟨-3, 0, 0⟩, ⟨3, 0, 0⟩, ⟨0, -2, 0⟩, ⟨0, 2, 0⟩, ⟨0, 0, -1⟩, ⟨0, 0, 1⟩]
/-- a proper rotation that is not diagonal (cyclic permutation of the axes with a sign) -/
def uqR : M3 ℚ := ⟨0, 1, 0, 0, 0, -1, 1, 0, 0⟩
def uqT : V3 ℚ := ⟨5, -3, 1 / 7⟩
def uqYs : List (V3 ℚ) := uqXs.map (fun p => V3.add (V3.mulMat p uqR) uqT)
/-- an eigen-frame of the moved copy with two columns negated relative to `RᵀV` -/
def uqV' : M3 ℚ := M3.mul (M3.tr uqR) (M3.diag (-1) 1 (-1))
def uqNoise : ℚ := 1 / 100000000

example : Orth uqR := by constructor <;> decide +kernel
/-- test: hypotheses of `eigframe_unique` hold for `T = diag(10,20,26)`, `V = 1`, `V' = diag(-1,1,-1)` (≠ `V`) -/
example : Orth (M3.diag (-1 : ℚ) 1 (-1)) ∧
    M3.mul (M3.mul (M3.tr (M3.diag (-1 : ℚ) 1 (-1))) (M3.diag 10 20 26)) (M3.diag (-1) 1 (-1)) = M3.diag 10 20 26 := by
  refine ⟨by constructor <;> decide +kernel, by decide +kernel⟩
/-- test: the tensor of the moved copy is `Rᵀ T R` (instance of `orientTensor_rigid`), not diagonal-equal to `T` -/
example : orientTensor uqMs uqYs = M3.diag 26 10 20 ∧ orientTensor uqMs uqXs = M3.diag 10 20 26 := by decide +kernel
/-- test: both certificates hold exactly -/
example : isEigFrame (orientTensor uqMs uqXs) M3.one ⟨10, 20, 26⟩ 0 0 = true := by decide +kernel
example : isEigFrame (orientTensor uqMs uqYs) uqV' ⟨10, 20, 26⟩ 0 0 = true := by decide +kernel

/-- **All hypotheses of `orient_rigid_invariant` are jointly satisfiable** by a non-trivial value
(non-diagonal `R`, non-zero `t`, `V' ≠ RᵀV`): the theorem applied to the test data. -/
example : orientCore uqNoise uqMs uqYs uqV' = orientCore uqNoise uqMs uqXs M3.one :=
  orient_rigid_invariant (l := ⟨10, 20, 26⟩) (l' := ⟨10, 20, 26⟩) (by decide +kernel) uqT (by decide +kernel) (by decide +kernel)
    (by constructor <;> decide +kernel) (by decide +kernel) (by decide +kernel) (by decide +kernel) (by decide +kernel)
    ⟨-3, by decide +kernel, by decide +kernel⟩ ⟨-2, by decide +kernel, by decide +kernel⟩ ⟨-1, by decide +kernel, by decide +kernel⟩
/-- test: and the common value is the phased geometry (kernel evaluation, independent of the theorem) -/
example : orientCore uqNoise uqMs uqYs uqV' = .ok [⟨3, 0, 0⟩, ⟨-3, 0, 0⟩, ⟨0, 2, 0⟩, ⟨0, -2, 0⟩, ⟨0, 0, 1⟩, ⟨0, 0, -1⟩] := by
  decide +kernel

def uqOut : List (V3 ℚ) := [⟨3, 0, 0⟩, ⟨-3, 0, 0⟩, ⟨0, 2, 0⟩, ⟨0, -2, 0⟩, ⟨0, 0, 1⟩, ⟨0, 0, -1⟩]

/-- **All hypotheses of `orient_idempotent` are jointly satisfiable**: second-pass frame `diag(-1,1,-1)`. -/
example : orientCore uqNoise uqMs uqOut (M3.diag (-1) 1 (-1)) = .ok uqOut :=
  orient_idempotent (V := M3.one) (xs := uqXs) (l := ⟨10, 20, 26⟩) (l2 := ⟨10, 20, 26⟩) (by decide +kernel)
    (by decide +kernel) (by decide +kernel) (by decide +kernel) (by decide +kernel) (by decide +kernel)
    ⟨3, by decide +kernel, by decide +kernel⟩ ⟨2, by decide +kernel, by decide +kernel⟩ ⟨1, by decide +kernel, by decide +kernel⟩

end Examples

end QcelVerif.Orient
