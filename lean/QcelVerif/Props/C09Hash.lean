import QcelVerif.Props.C04SchemaBridge
import QcelVerif.Props.C11
import QcelVerif.Props.C09Dict
/-!
# C09 — `dict_roundtrip_same_hash`: a Molecule rebuilt from its own dictionary has the same hash

Pieces (imported read-only): C04 `schema_roundtrip` / `c09_roundtrip_discharged` (the record that comes back from
`from_schema(to_schema(r))` is `schemaImage r`), C11 `canon_congr` / `hash_of_canon` / `molEq_iff` (the hash is a
function of the ten canonical fields), and this property's model of `Molecule.__init__` (`Model/MolDict.lean`).

The statement is about the Molecule-LEVEL object, i.e. after `to_schema(from_schema(kwargs))`, `_filter_defaults`,
the merge with the caller's keywords, title-casing and `float_prep` (molecule.py:334-384), not about the raw record:

  * `toHashMol`   the Molecule object (its set entries) as C11's `Hash.Mol`: what `get_hash` reads through the
                  accessors; unset entries are `none` there too.
  * `recMol`      the ten hash fields of a validated record: symbols, masses, charge, multiplicity, real flags,
                  the EXPORTED (Bohr) geometry through `float_prep`, the fragment pattern, fragment charges and
                  multiplicities, bonds.
  * `molecule_canon_of_record`   whatever keywords `from_schema` mapped to the record `r`, the Molecule built has
                  the canonical fields `recMol r`.
  * `recMol_inBohr`              `r` and the record the round trip returns (`inBohr r` = C04 `schemaImage r`) have
                  the SAME `recMol`: for a Bohr-stored record the stored geometry itself, for an Å-stored record the
                  exported Bohr geometry — which is what the original Molecule object holds as well.
  * `dict_roundtrip_same_hash`   C04-valid record, ≥ 1 atom, the three hypotheses of `schema_roundtrip`: the
                  Molecule rebuilt (with validation) from the dictionary `to_schema(r, 2)` exists and has the hash of
                  every Molecule built from keywords that `from_schema` maps to `r`; `==` holds.
  * `dict_rebuild_same_hash`     `Molecule(**mol.dict())` (no validation: `validated=True`) IS `mol` (`dict_fixed_point`),
                  hence the same hash — no hypothesis.

PROPERTY-THEOREMS:
  molecule_canon_of_record  recMol_inBohr  exported_geometry_held  dict_roundtrip_same_canon  dict_roundtrip_same_hash
  dict_rebuild_same_hash  revalidate_same_hash_partial
-/
namespace QcelVerif.C09Hash
open QcelVerif QcelVerif.MolSchema QcelVerif.MolDict QcelVerif.Hash

def bondOf (b : Nat × Nat × Rat) : Hash.Bond := ⟨b.1, b.2.1, b.2.2⟩

/-- a Molecule object (its set entries; `Model/MolDict.lean`) as `get_hash` sees it (C11 `Hash.Mol`) -/
def toHashMol (d : MolDict Rat) : Hash.Mol :=
  { symbols := (d.symbols.getD []).map String.toList
    masses := d.masses.map (·.map Dbl.val)
    charge := .val (d.charge.getD 0)                      -- `molecular_charge` defaults to 0.0 (molecule.py:188)
    mult := d.mult.getD 1                                 -- `molecular_multiplicity` defaults to 1 (189)
    real := d.real
    geometry := (d.geometry.getD []).map Dbl.val
    fragments := d.fragments
    fragCharges := d.fragCharges.map (·.map Dbl.val)
    fragMults := d.fragMults
    connectivity := d.connectivity.map (·.map bondOf) }

/-- the ten hash fields of a validated record, as the Molecule built from it holds them -/
def recMol (Pm : MolDict.Params Rat) (r : Molrec Rat) : Hash.Mol :=
  { symbols := r.elem.map String.toList
    masses := some (r.mass.map Dbl.val)
    charge := .val r.charge
    mult := r.mult
    real := some r.real
    geometry := (exportGeom Pm.dflt r).map (fun x => Dbl.val (Pm.prep x))
    fragments := some ((npSplit (List.range (r.geom.length / 3)) r.seps).map (·.map Int.ofNat))
    fragCharges := some (r.fragCharges.map Dbl.val)
    fragMults := some r.fragMults
    connectivity := r.connectivity.map (·.map bondOf) }

/-! ### helper: an entry after filter and merge -/

theorem entry_cases {α : Type} [DecidableEq α] (c : Bool) (x : α) (kw : Option α)
    (hag : (!c || optAgree kw (some x)) = true) :
    orElse' (if c = true then none else some x) kw = some x ∨
    (c = true ∧ kw = none ∧ orElse' (if c = true then none else some x) kw = none) := by
  cases c with
  | false => left; simp [orElse']
  | true =>
    cases kw with
    | none => right; simp [orElse']
    | some y =>
      left
      simp only [Bool.not_true, Bool.false_or, optAgree, decide_eq_true_eq, Option.some.injEq] at hag
      simp [orElse', hag]

theorem map_title_fixed (title : String → String) (l : List String) (h : ∀ s ∈ l, title s = s) : l.map title = l := by
  induction l with
  | nil => rfl
  | cons a t ih =>
    rw [List.map_cons, h a (List.mem_cons_self ..), ih (fun s hs => h s (List.mem_cons_of_mem _ hs))]

/-! ### the Molecule built from keywords that `from_schema` maps to `r` -/

/-- **The Molecule object has the canonical hash fields of the record `from_schema` returned.**
`m` = the object `Molecule.__init__` builds once `from_schema(kwargs)` has returned `r` (any keywords `kw`).
Hypotheses: the record's arrays have one entry per atom (`Inv`); the hash-relevant entries the caller spelled
out AND the filter dropped are the ones that came back (`agreesB`, evaluated by the driver on every generated construction); a
one-fragment record lists the molecular charge / multiplicity as the fragment's (`singleOkB`, see
`filter_single_fragment_multiplicity_counterexample`); validated symbols are title-case already; C11's and this
model's `to_mass` are the same function. -/
theorem obj_fields (Pm : MolDict.Params Rat) (kw : MolDict Rat) (r : Molrec Rat) :
    let d := molDict Pm.dflt Pm.fg r
    let m := finish Pm (merge { kw with validated := some true } (filteredOf Pm.massOf d))
    m.symbols = some (r.elem.map Pm.title) ∧ m.geometry = some ((exportGeom Pm.dflt r).map Pm.prep) ∧
    m.masses = orElse' (if dfltMasses Pm.massOf d = true then none else some r.mass) kw.masses ∧
    m.charge = some r.charge ∧ m.mult = some r.mult ∧
    m.real = orElse' (if allReal d = true then none else some r.real) kw.real ∧
    m.fragments = orElse' (if oneFragment d = true then none
      else some ((npSplit (List.range (r.geom.length / 3)) r.seps).map (fun x => x.map Int.ofNat))) kw.fragments ∧
    m.fragCharges = orElse' (if oneFragment d = true then none else some r.fragCharges) kw.fragCharges ∧
    m.fragMults = orElse' (if oneFragment d = true then none else some r.fragMults) kw.fragMults ∧
    m.connectivity = orElse' r.connectivity kw.connectivity :=
  ⟨rfl, rfl, rfl, rfl, rfl, rfl, rfl, rfl, rfl, rfl⟩

theorem molecule_canon_of_record {D} (Ph : Hash.Params D) (Pm : MolDict.Params Rat) (kw : MolDict Rat) (r : Molrec Rat)
    (m : MolDict Rat) (hm : afterFromSchema Pm kw r = .ok m) (hinv : MolSchema.Inv r)
    (hag : agreesB Pm.massOf kw (molDict Pm.dflt Pm.fg r) = true) (hs : singleOkB (molDict Pm.dflt Pm.fg r) = true)
    (htitle : ∀ s ∈ r.elem, Pm.title s = s) (hmass : ∀ s, Ph.massOf s.toList = .val (Pm.massOf s)) :
    canon Ph (toHashMol m) = canon Ph (recMol Pm r) := by
  rw [after_from_schema_closed_form] at hm
  obtain ⟨f1, f2, f3, f4, f5, f6, f7, f8, f9, f10⟩ := obj_fields Pm kw r
  have hm' : m = finish Pm (merge { kw with validated := some true } (filteredOf Pm.massOf (molDict Pm.dflt Pm.fg r))) :=
    (Except.ok.inj hm).symm
  rw [← hm'] at f1 f2 f3 f4 f5 f6 f7 f8 f9 f10
  clear hm hm'
  rw [map_title_fixed Pm.title r.elem htitle] at f1
  simp only [agreesB, Bool.and_eq_true] at hag
  obtain ⟨⟨⟨⟨⟨a1, a2⟩, a3⟩, a4⟩, a5⟩, a6⟩ := hag
  have hs' : oneFragment (molDict Pm.dflt Pm.fg r) = true → r.fragCharges = [r.charge] ∧ r.fragMults = [r.mult] := by
    intro c
    unfold singleOkB at hs
    rw [c] at hs
    simpa [molDict] using hs
  have emass := entry_cases (dfltMasses Pm.massOf (molDict Pm.dflt Pm.fg r)) r.mass kw.masses a1
  have ereal := entry_cases (allReal (molDict Pm.dflt Pm.fg r)) r.real kw.real a2
  have efrag := entry_cases (α := List (List Int)) (oneFragment (molDict Pm.dflt Pm.fg r))
    ((npSplit (List.range (r.geom.length / 3)) r.seps).map (fun (x : List Nat) => x.map Int.ofNat)) kw.fragments a3
  have efc := entry_cases (oneFragment (molDict Pm.dflt Pm.fg r)) r.fragCharges kw.fragCharges a4
  have efm := entry_cases (oneFragment (molDict Pm.dflt Pm.fg r)) r.fragMults kw.fragMults a5
  rw [← f3] at emass
  rw [← f6] at ereal
  rw [← f7] at efrag
  rw [← f8] at efc
  rw [← f9] at efm
  have hsyms : (toHashMol m).symbols = r.elem.map String.toList := by
    simp only [toHashMol, f1, Option.getD_some]
  have hchg : (toHashMol m).charge = .val r.charge := by simp only [toHashMol, f4, Option.getD_some]
  have hmul : (toHashMol m).mult = r.mult := by simp only [toHashMol, f5, Option.getD_some]
  apply canon_congr
  · exact hsyms
  · -- masses
    unfold Mol.massesR
    rw [hsyms]
    show (match m.masses.map (fun l => l.map Dbl.val) with
      | some l => l
      | none => (r.elem.map String.toList).map Ph.massOf) = r.mass.map Dbl.val
    rcases emass with e | ⟨c, _, e⟩
    · rw [e]; rfl
    · rw [e]
      simp only [dfltMasses, molDict, Option.getD_some, Option.some.injEq, decide_eq_true_eq] at c
      simp only [Option.map_none, c, List.map_map]
      apply List.map_congr_left
      intro s _
      exact hmass s
  · exact hchg
  · exact hmul
  · -- real
    unfold Mol.realR
    rw [hsyms]
    show (match m.real with
      | some l => l
      | none => (r.elem.map String.toList).map (fun _ => true)) = r.real
    rcases ereal with e | ⟨c, _, e⟩
    · rw [e]
    · rw [e]
      simp only [allReal, molDict, Option.getD_some] at c
      show (r.elem.map String.toList).map (fun _ => true) = r.real
      rw [map_const_true, List.length_map, ← hinv.real]
      exact (all_id_eq_replicate r.real c).symm
  · -- geometry
    show ((m.geometry.getD []).map Dbl.val).map (prepArr Ph.fl GEOMETRY_NOISE) =
      ((exportGeom Pm.dflt r).map (fun x => Dbl.val (Pm.prep x))).map (prepArr Ph.fl GEOMETRY_NOISE)
    simp only [f2, Option.getD_some, List.map_map, Function.comp_def]
  · -- fragments
    unfold Mol.fragmentsR
    rw [hsyms]
    show (match m.fragments with
      | some l => l
      | none => [(List.range (r.elem.map String.toList).length).map (fun (i : Nat) => (i : Int))]) =
        (npSplit (List.range (r.geom.length / 3)) r.seps).map (fun x => x.map Int.ofNat)
    rcases efrag with e | ⟨c, _, e⟩
    · rw [e]
    · rw [e]
      simp only [oneFragment, molDict, Option.getD_some, Option.some.injEq, decide_eq_true_eq] at c
      rw [c, List.length_map]
      rfl
  · -- fragment charges
    unfold Mol.fragChargesR
    rw [hchg]
    show (match m.fragCharges.map (fun l => l.map Dbl.val) with
      | some l => l
      | none => [Dbl.val r.charge]) = r.fragCharges.map Dbl.val
    rcases efc with e | ⟨c, _, e⟩
    · rw [e]; rfl
    · rw [e, (hs' c).1]; rfl
  · -- fragment multiplicities
    unfold Mol.fragMultsR
    rw [hmul]
    show (match m.fragMults with
      | some l => l
      | none => [r.mult]) = r.fragMults
    rcases efm with e | ⟨c, _, e⟩
    · rw [e]
    · rw [e, (hs' c).2]
  · -- connectivity
    show m.connectivity.map (fun l => l.map bondOf) = r.connectivity.map (fun l => l.map bondOf)
    rw [f10]
    cases hc : r.connectivity with
    | some bs => rfl
    | none =>
      cases hk : kw.connectivity with
      | none => rfl
      | some x => simp [molDict, hc, hk] at a6

/-! ### `r` and the record the round trip returns -/

/-- **Same hash fields before and after the record round trip.**  `inBohr r` (= C04's `schemaImage r`, the record
`from_schema(to_schema(r))` returns) has exactly the hash fields of `r`: symbols, masses, charge, multiplicity,
real flags, fragments, fragment charges / multiplicities and bonds unchanged, and the SAME held geometry — the
exported Bohr geometry through `float_prep` (for a record stored in Bohr: its own geometry). No hypothesis. -/
theorem recMol_inBohr (Pm : MolDict.Params Rat) (r : Molrec Rat) :
    recMol Pm (inBohr Pm.dflt Pm.fg r) = recMol Pm r := by
  have hg : exportGeom Pm.dflt (inBohr Pm.dflt Pm.fg r) = exportGeom Pm.dflt r := rfl
  have hl : (inBohr Pm.dflt Pm.fg r).geom.length = r.geom.length := by
    show (exportGeom Pm.dflt r).length = _
    unfold exportGeom
    cases r.units <;> cases r.iutau <;> simp
  unfold recMol
  rw [hg, hl]
  rfl

/-- **The geometry a Molecule holds is the exported Bohr geometry through `float_prep`**: coordinate by
coordinate `prep x` for a record stored in Bohr, `prep (x * f)` for one stored in Å (`f` its own
`input_units_to_au`, else the default factor) — and the record that comes back from the round trip holds the same. -/
theorem exported_geometry_held (Pm : MolDict.Params Rat) (r : Molrec Rat) :
    (recMol Pm r).geometry = (match r.units with
      | .bohr => r.geom.map (fun x => Dbl.val (Pm.prep x))
      | .angstrom => r.geom.map (fun x => Dbl.val (Pm.prep (x * r.iutau.getD Pm.dflt)))) ∧
    (recMol Pm (inBohr Pm.dflt Pm.fg r)).geometry = (recMol Pm r).geometry := by
  refine ⟨?_, by rw [recMol_inBohr]⟩
  unfold recMol exportGeom
  cases r.units <;> cases r.iutau <;> simp [List.map_map, Function.comp_def]

/-! ### the Molecule rebuilt from `to_schema(r, 2)` -/

section roundtrip
open QcelVerif.FromArrays (toMS faOfC04 schemaImage SchemaParams sAngstrom validateGeometry dfltTooclose recNucs
  schemaSettings clueOf)

/-- the dictionary `to_schema(r, dtype=2)` agrees with the record the round trip returns -/
theorem agrees_toSchema (Pm : MolDict.Params Rat) (r : Molrec Rat) :
    agreesB Pm.massOf (molDict Pm.dflt Pm.fg r) (molDict Pm.dflt Pm.fg (inBohr Pm.dflt Pm.fg r)) = true := by
  have hl : (inBohr Pm.dflt Pm.fg r).geom.length = r.geom.length := by
    show (exportGeom Pm.dflt r).length = _
    unfold exportGeom
    cases r.units <;> cases r.iutau <;> simp
  have o1 : optAgree (molDict Pm.dflt Pm.fg r).masses (molDict Pm.dflt Pm.fg (inBohr Pm.dflt Pm.fg r)).masses = true := by
    simp [optAgree, molDict, inBohr]
  have o2 : optAgree (molDict Pm.dflt Pm.fg r).real (molDict Pm.dflt Pm.fg (inBohr Pm.dflt Pm.fg r)).real = true := by
    simp [optAgree, molDict, inBohr]
  have o3 : optAgree (molDict Pm.dflt Pm.fg r).fragments (molDict Pm.dflt Pm.fg (inBohr Pm.dflt Pm.fg r)).fragments = true := by
    simp only [optAgree, molDict, hl, decide_eq_true_eq]
    rfl
  have o4 : optAgree (molDict Pm.dflt Pm.fg r).fragCharges (molDict Pm.dflt Pm.fg (inBohr Pm.dflt Pm.fg r)).fragCharges = true := by
    simp [optAgree, molDict, inBohr]
  have o5 : optAgree (molDict Pm.dflt Pm.fg r).fragMults (molDict Pm.dflt Pm.fg (inBohr Pm.dflt Pm.fg r)).fragMults = true := by
    simp [optAgree, molDict, inBohr]
  have o6 : ((molDict Pm.dflt Pm.fg (inBohr Pm.dflt Pm.fg r)).connectivity.isSome ||
      (molDict Pm.dflt Pm.fg r).connectivity.isNone) = true := by
    cases h : r.connectivity <;> simp [molDict, inBohr, h]
  unfold agreesB
  rw [o1, o2, o3, o4, o5, o6]
  simp

/-- `singleOkB` only reads entries the round trip leaves alone -/
theorem singleOk_inBohr (Pm : MolDict.Params Rat) (r : Molrec Rat) :
    singleOkB (molDict Pm.dflt Pm.fg (inBohr Pm.dflt Pm.fg r)) = singleOkB (molDict Pm.dflt Pm.fg r) := by
  have hl : (inBohr Pm.dflt Pm.fg r).geom.length = r.geom.length := by
    show (exportGeom Pm.dflt r).length = _
    unfold exportGeom
    cases r.units <;> cases r.iutau <;> simp
  simp only [singleOkB, oneFragment, molDict, hl]
  rfl

theorem inv_inBohr (Pm : MolDict.Params Rat) (r : Molrec Rat) (h : MolSchema.Inv r) :
    MolSchema.Inv (inBohr Pm.dflt Pm.fg r) := by
  have hl : (exportGeom Pm.dflt r).length = r.geom.length := by
    unfold exportGeom
    cases r.units <;> cases r.iutau <;> simp
  exact { geom3 := by show (exportGeom Pm.dflt r).length = _; rw [hl]; exact h.geom3
          nonempty := h.nonempty, elea := h.elea, elez := h.elez, mass := h.mass, real := h.real, elbl := h.elbl
          sepsSorted := h.sepsSorted, sepsLe := h.sepsLe }

variable {D : Type}

/-- the parameters of this model that the C04 model already fixes: the default Å→a₀ factor and
`formula_generator`; `to_mass`, `float_prep` and `str.title` stay free -/
def paramsOf (P : SchemaParams) (massOf : String → Rat) (prep : Rat → Rat) (title : String → String) :
    MolDict.Params Rat :=
  { dflt := P.cf sAngstrom, fg := P.formula, massOf := massOf, prep := prep, title := title }

/-- **dict_roundtrip_same_canon.**  C04-valid record `r` (invariant `I`), at least one atom, non-negative
separators, and the three hypotheses of C04's `schema_roundtrip` (`hgeo`: the exported geometry passes the default
overlap screen; `hre`: every atom re-validates to itself under `from_schema`'s settings; ≥ 1 atom), in the scope of
the C04 ↔ C09 bridge (exact products `hfl`).  Then `Molecule(validate=True, **to_schema(r, 2))` — the C09 model of
the constructor with the C04 model of `from_arrays` plugged in — builds an object `m'`, and `m'` has the canonical
hash fields `recMol r`. -/
theorem dict_roundtrip_same_canon (Ph : Hash.Params D) (env : FromArrays.Env) (P : SchemaParams)
    (massOf : String → Rat) (prep : Rat → Rat) (title : String → String) (r : FromArrays.Molrec)
    (hfl : ∀ x, P.fl x = x)
    {valid : FromArrays.NucSettings → FromArrays.Nuc → Prop} {st : FromArrays.NucSettings} {tc : Rat}
    (I : FromArrays.Inv valid env.angToAu st tc r)
    (hn : r.elem.length ≠ 0) (hpos : ∀ s ∈ r.seps, 0 ≤ s)
    (hgeo : validateGeometry dfltTooclose (FromArrays.exportGeom P r) = .ok (FromArrays.exportGeom P r))
    (hre : ∀ u ∈ recNucs r, env.recon (schemaSettings P) (clueOf u) = .ok u)
    (hs : singleOkB (molDict (P.cf sAngstrom) P.formula (toMS r)) = true)
    (htitle : ∀ s ∈ r.elem, title s = s) (hmass : ∀ s, Ph.massOf s.toList = .val (massOf s)) :
    ∃ m', MolDict.construct (paramsOf P massOf prep title) (faOfC04 env P.nonphysical) none none
        (molDict (P.cf sAngstrom) P.formula (toMS r)) = .ok m' ∧
      canon Ph (toHashMol m') = canon Ph (recMol (paramsOf P massOf prep title) (toMS r)) := by
  generalize hPm : paramsOf P massOf prep title = Pm
  have hd : Pm.dflt = P.cf sAngstrom := by rw [← hPm]; rfl
  have hf : Pm.fg = P.formula := by rw [← hPm]; rfl
  have ht : Pm.title = title := by rw [← hPm]; rfl
  have hmo : Pm.massOf = massOf := by rw [← hPm]; rfl
  rw [← hd, ← hf] at hs ⊢
  rw [← ht] at htitle
  rw [← hmo] at hmass
  have hrt : fromSchema (faOfC04 env P.nonphysical) (toSchema Pm.dflt Pm.fg (toMS r) .v2) = .ok (toMS (schemaImage P r)) := by
    rw [hf]
    exact FromArrays.c09_roundtrip_discharged env P Pm.dflt r .v2 hfl hd.symm I hn hpos hgeo hre
  have himg : toMS (schemaImage P r) = inBohr Pm.dflt Pm.fg (toMS r) := by
    rw [hf]
    exact FromArrays.bridge_image P Pm.dflt r hfl hd.symm I hn hpos
  rw [himg] at hrt
  have hinv := FromArrays.inv_toMS I hn hpos
  have hc : MolDict.construct Pm (faOfC04 env P.nonphysical) none none (molDict Pm.dflt Pm.fg (toMS r)) =
      afterFromSchema Pm (molDict Pm.dflt Pm.fg (toMS r)) (inBohr Pm.dflt Pm.fg (toMS r)) := by
    unfold MolDict.construct
    have : ({ schemaName := some ((none : Option String).getD "qcschema_molecule"),
              schemaVersion := some ((none : Option Int).getD 2), molecule := none,
              top := molDict Pm.dflt Pm.fg (toMS r) } : SchemaDict Rat) = toSchema Pm.dflt Pm.fg (toMS r) .v2 := rfl
    rw [this, hrt]
  obtain ⟨m', hm'⟩ : ∃ m', afterFromSchema Pm (molDict Pm.dflt Pm.fg (toMS r)) (inBohr Pm.dflt Pm.fg (toMS r)) = .ok m' :=
    ⟨_, after_from_schema_closed_form Pm _ _⟩
  refine ⟨m', by rw [hc, hm'], ?_⟩
  have := molecule_canon_of_record Ph Pm _ _ m' hm' (inv_inBohr Pm _ hinv) (agrees_toSchema Pm (toMS r))
    (by rw [singleOk_inBohr]; exact hs) (by simpa [inBohr, toMS] using htitle) hmass
  rw [this, recMol_inBohr]

/-- **dict_roundtrip_same_hash.**  Under the hypotheses of `dict_roundtrip_same_canon`: the Molecule `m'` rebuilt
(with validation) from the dictionary `to_schema(r, 2)` has the same hash as — and is `==` to — EVERY Molecule
`m` built from keywords `kw` that `from_schema` maps to `r` and that agree with it on the entries the caller
spelled out (in particular the original Molecule that was exported).  SHA-1 and float printing stay abstract
(`Ph`): equal canonical fields give equal hashes whatever they are (C11 `hash_of_canon`). -/
theorem dict_roundtrip_same_hash [DecidableEq D] (Ph : Hash.Params D) (env : FromArrays.Env) (P : SchemaParams)
    (massOf : String → Rat) (prep : Rat → Rat) (title : String → String) (r : FromArrays.Molrec)
    (hfl : ∀ x, P.fl x = x)
    {valid : FromArrays.NucSettings → FromArrays.Nuc → Prop} {st : FromArrays.NucSettings} {tc : Rat}
    (I : FromArrays.Inv valid env.angToAu st tc r)
    (hn : r.elem.length ≠ 0) (hpos : ∀ s ∈ r.seps, 0 ≤ s)
    (hgeo : validateGeometry dfltTooclose (FromArrays.exportGeom P r) = .ok (FromArrays.exportGeom P r))
    (hre : ∀ u ∈ recNucs r, env.recon (schemaSettings P) (clueOf u) = .ok u)
    (hs : singleOkB (molDict (P.cf sAngstrom) P.formula (toMS r)) = true)
    (htitle : ∀ s ∈ r.elem, title s = s) (hmass : ∀ s, Ph.massOf s.toList = .val (massOf s)) :
    ∃ m', MolDict.construct (paramsOf P massOf prep title) (faOfC04 env P.nonphysical) none none
        (molDict (P.cf sAngstrom) P.formula (toMS r)) = .ok m' ∧
      ∀ (kw m : MolDict Rat), afterFromSchema (paramsOf P massOf prep title) kw (toMS r) = .ok m →
        agreesB massOf kw (molDict (P.cf sAngstrom) P.formula (toMS r)) = true →
        hash Ph (toHashMol m') = hash Ph (toHashMol m) ∧ molEq Ph (toHashMol m') (toHashMol m) = true := by
  obtain ⟨m', h1, h2⟩ := dict_roundtrip_same_canon Ph env P massOf prep title r hfl I hn hpos hgeo hre hs htitle hmass
  refine ⟨m', h1, ?_⟩
  intro kw m hm hag
  have hinv := FromArrays.inv_toMS I hn hpos
  have h3 := molecule_canon_of_record Ph (paramsOf P massOf prep title) kw (toMS r) m hm hinv hag hs
    (fun s hs' => htitle s hs') hmass
  have hh : hash Ph (toHashMol m') = hash Ph (toHashMol m) := hash_of_canon Ph _ _ (by rw [h2, h3])
  exact ⟨hh, (molEq_iff Ph _ _).2 hh⟩

end roundtrip

/-- **dict_rebuild_same_hash.**  `Molecule(**mol.dict())` — the route without validation, `dict()` carrying
`validated=True` — is `mol` itself (`dict_fixed_point`): same hash, `==`.  No hypothesis on the record, the
keywords or `from_arrays`. -/
theorem dict_rebuild_same_hash {D} [DecidableEq D] (Ph : Hash.Params D) (Pm : MolDict.Params Rat)
    (fa fa' : FAArgs Rat → Except MolSchema.Err (Molrec Rat)) (nm nm' : Option String) (ver ver' : Option Int)
    (kw m : MolDict Rat) (h : MolDict.construct Pm fa nm ver kw = .ok m) :
    ∃ m', rebuild Pm fa' nm' ver' (dictOf m) = .ok m' ∧ hash Ph (toHashMol m') = hash Ph (toHashMol m) ∧
      molEq Ph (toHashMol m') (toHashMol m) = true :=
  ⟨m, dict_fixed_point Pm fa nm ver kw m h fa' nm' ver', rfl, (molEq_iff Ph _ _).2 rfl⟩

theorem map_prep_idem (fl : Rat → Rat) (prep : Rat → Rat) : ∀ (l : List Rat),
    (∀ x ∈ l, prepArr fl GEOMETRY_NOISE (.val (prep (prep x))) = prepArr fl GEOMETRY_NOISE (.val (prep x))) →
    ((l.map prep).map (fun x => Dbl.val (prep x))).map (prepArr fl GEOMETRY_NOISE) =
      (l.map (fun x => Dbl.val (prep x))).map (prepArr fl GEOMETRY_NOISE)
  | [], _ => rfl
  | a :: t, h => by
    have ih := map_prep_idem fl prep t (fun x hx => h x (List.mem_cons_of_mem _ hx))
    simp only [List.map_cons, ih, h a (List.mem_cons_self ..)]

/-- **Re-validating a Molecule's own (sparse) dictionary — PARTIAL.**  `Molecule(**{**mol.dict(), "validated":
False})`: IF `from_schema` maps the object's own dictionary to a record `r₂` that has the hash fields of the
record `r` the object was built from (`e1`–`e10`) except that its geometry is the HELD geometry (already in Bohr, already
through `float_prep`), and `float_prep` is idempotent on the held coordinates (C11 `prep_idempotent`), THEN the
re-validated Molecule has the same hash.
-- FULL: the same without `h2`: needs `from_arrays` on a SPARSE dictionary (masses / real / labels / fragments
-- absent) to re-derive the dropped defaults — C04/C06's `NucIdem` on partial clues (`schema_roundtrip_c06_plain`
-- covers plain molecules only) — and `hre`/`hgeo` for the rounded geometry.  Checked differentially (harness
-- route `revalidate`). -/
theorem revalidate_same_hash_partial {D} [DecidableEq D] (Ph : Hash.Params D) (Pm : MolDict.Params Rat)
    (fa : FAArgs Rat → Except MolSchema.Err (Molrec Rat)) (nm : Option String) (ver : Option Int)
    (r r₂ : Molrec Rat) (m : MolDict Rat)
    (h2 : fromSchema fa { schemaName := some (nm.getD "qcschema_molecule"), schemaVersion := some (ver.getD 2),
                           molecule := none, top := { m with validated := some false } } = .ok r₂)
    (hinv₂ : MolSchema.Inv r₂)
    (e1 : r₂.elem = r.elem) (e2 : r₂.mass = r.mass) (e3 : r₂.charge = r.charge) (e4 : r₂.mult = r.mult)
    (e5 : r₂.real = r.real) (e6 : r₂.seps = r.seps) (e7 : r₂.geom.length = r.geom.length)
    (e8 : r₂.fragCharges = r.fragCharges) (e9 : r₂.fragMults = r.fragMults) (e10 : r₂.connectivity = r.connectivity)
    (hgeom : exportGeom Pm.dflt r₂ = (exportGeom Pm.dflt r).map Pm.prep)
    (hidem : ∀ x ∈ exportGeom Pm.dflt r,
      prepArr Ph.fl GEOMETRY_NOISE (.val (Pm.prep (Pm.prep x))) = prepArr Ph.fl GEOMETRY_NOISE (.val (Pm.prep x)))
    (hag : agreesB Pm.massOf { m with validated := some false } (molDict Pm.dflt Pm.fg r₂) = true)
    (hs : singleOkB (molDict Pm.dflt Pm.fg r₂) = true)
    (htitle : ∀ s ∈ r₂.elem, Pm.title s = s) (hmass : ∀ s, Ph.massOf s.toList = .val (Pm.massOf s)) :
    ∃ m₂, MolDict.construct Pm fa nm ver { m with validated := some false } = .ok m₂ ∧
      hash Ph (toHashMol m₂) = hash Ph (recMol Pm r) := by
  obtain ⟨m₂, hm₂⟩ : ∃ m₂, afterFromSchema Pm { m with validated := some false } r₂ = .ok m₂ :=
    ⟨_, after_from_schema_closed_form Pm _ _⟩
  refine ⟨m₂, by unfold MolDict.construct; rw [h2]; exact hm₂, ?_⟩
  apply hash_of_canon
  rw [molecule_canon_of_record Ph Pm _ r₂ m₂ hm₂ hinv₂ hag hs htitle hmass]
  apply canon_congr
  · show r₂.elem.map String.toList = r.elem.map String.toList
    rw [e1]
  · show r₂.mass.map Dbl.val = r.mass.map Dbl.val
    rw [e2]
  · show Dbl.val r₂.charge = Dbl.val r.charge
    rw [e3]
  · exact e4
  · show r₂.real = r.real
    exact e5
  · show ((exportGeom Pm.dflt r₂).map (fun x => Dbl.val (Pm.prep x))).map (prepArr Ph.fl GEOMETRY_NOISE) =
      ((exportGeom Pm.dflt r).map (fun x => Dbl.val (Pm.prep x))).map (prepArr Ph.fl GEOMETRY_NOISE)
    rw [hgeom]
    exact map_prep_idem Ph.fl Pm.prep _ hidem
  · show (npSplit (List.range (r₂.geom.length / 3)) r₂.seps).map (fun x => x.map Int.ofNat) =
      (npSplit (List.range (r.geom.length / 3)) r.seps).map (fun x => x.map Int.ofNat)
    rw [e6, e7]
  · show r₂.fragCharges.map Dbl.val = r.fragCharges.map Dbl.val
    rw [e8]
  · show r₂.fragMults = r.fragMults
    exact e9
  · show r₂.connectivity.map (fun l => l.map bondOf) = r.connectivity.map (fun l => l.map bondOf)
    rw [e10]


/-! ### non-vacuity (tests) -/

/-- test parameters: exact arithmetic, identity `float_prep` / title, constant default mass 4 -/
def exPh : Hash.Params Unit :=
  { massOf := fun _ => .val 4, fl := fun x => x, reprF := fun _ _ => [], reprB := fun _ => [], sha1 := fun _ => () }

section
open QcelVerif.FromArrays (toyEnv toyP toyRecB toyInpB toyB_ok toyRec_idem recNucs_answered nucSettings from_arrays_inv toMS)

/-- test: every hypothesis of `dict_roundtrip_same_hash` (hence of `dict_roundtrip_same_canon`) is met by the toy record
of `Props/C04SchemaBridge.lean` — two atoms, two fragments, stored in Å with its own factor, a bond, a point group -/
example : ∃ m', MolDict.construct (paramsOf toyP (fun _ => 4) (fun x => x) (fun s => s)) (FromArrays.faOfC04 toyEnv false) none none
      (molDict (189 / 100) toyP.formula (toMS toyRecB)) = .ok m' ∧
    ∀ (kw m : MolDict Rat), afterFromSchema (paramsOf toyP (fun _ => 4) (fun x => x) (fun s => s)) kw (toMS toyRecB) = .ok m →
      agreesB (fun _ => 4) kw (molDict (189 / 100) toyP.formula (toMS toyRecB)) = true →
      hash exPh (toHashMol m') = hash exPh (toHashMol m) ∧ molEq exPh (toHashMol m') (toHashMol m) = true := by
  have I := from_arrays_inv toyEnv (fun _ _ => True) (fun _ _ _ _ => trivial) _ _ toyB_ok
  refine dict_roundtrip_same_hash exPh toyEnv toyP (fun _ => 4) (fun x => x) (fun s => s) toyRecB (fun _ => rfl) I
    (by decide) (by decide) (by decide +kernel) ?_ (by decide +kernel) (fun _ _ => rfl) (fun _ => rfl)
  intro u hu
  obtain ⟨c, hc⟩ := recNucs_answered toyB_ok u hu
  exact toyRec_idem (nucSettings toyInpB) c u hc

/-- test: the hypotheses of `molecule_canon_of_record` are met with keywords that spell out a default (`real`) -/
example : agreesB (fun _ => 4) { (emptyDict : MolDict Rat) with real := some [true, true] } (molDict (189 / 100) toyP.formula (toMS toyRecB)) = true ∧
    singleOkB (molDict (189 / 100) toyP.formula (toMS toyRecB)) = true := by
  constructor <;> decide +kernel
end


def exPh' : Hash.Params Unit :=
  { massOf := fun _ => .val 4, fl := fun x => x, reprF := fun _ _ => [], reprB := fun _ => [], sha1 := fun _ => () }

def exPm : MolDict.Params Rat := { dflt := 2, fg := fun _ => "X2", massOf := fun _ => 4, prep := fun x => x, title := fun s => s }

def exR : Molrec Rat :=
  { units := .bohr, iutau := none, geom := [0, 0, 0, 0, 0, 2], elea := [4, 4], elez := [2, 2], elem := ["X", "X"],
    mass := [4, 4], real := [true, true], elbl := ["", ""], seps := [], fragCharges := [0], fragMults := [1], charge := 0,
    mult := 1, fixCom := false, fixOri := false, fixSym := none, name := some "X2", comment := none, connectivity := none }

/-- the sparse dictionary of the Molecule built from `exR`: masses, real, labels, fragments all dropped -/
def exM : MolDict Rat :=
  { (emptyDict : MolDict Rat) with symbols := some ["X", "X"], geometry := some [0, 0, 0, 0, 0, 2], name := some "X2",
                                   charge := some 0, mult := some 1, fixCom := some false, fixOri := some false,
                                   validated := some true }

/-- test: the hypotheses of `revalidate_same_hash_partial` are satisfiable (a `from_arrays` that re-derives the dropped
defaults) -/
example : ∃ m₂, MolDict.construct exPm (fun _ => .ok exR) none none { exM with validated := some false } = .ok m₂ ∧
    hash exPh' (toHashMol m₂) = hash exPh' (recMol exPm exR) :=
  revalidate_same_hash_partial exPh' exPm (fun _ => .ok exR) none none exR exR exM (by rfl)
    { geom3 := by decide, nonempty := by decide, elea := by decide, elez := by decide, mass := by decide,
      real := by decide, elbl := by decide, sepsSorted := by decide, sepsLe := by decide }
    rfl rfl rfl rfl rfl rfl rfl rfl rfl rfl (by simp [exPm]) (fun _ _ => rfl) (by decide +kernel) (by decide +kernel)
    (fun _ _ => rfl) (fun _ => rfl)

end QcelVerif.C09Hash
