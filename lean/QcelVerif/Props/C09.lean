import QcelVerif.Lemmas.MolSchema
import QcelVerif.Lemmas.Schema
/-!
C09 — property theorems.

(a) `emit_conforms`: whatever in-memory value inhabits a declared type, the JSON emitted for it
    (unset / None fields dropped, keys by alias, arrays flattened) validates against the schema
    generated for that type — for every environment of declarations, every type, every value.
-/
namespace QcelVerif.Schema

section conform
variable (Δ : Env)

theorem zipAll_conforms {rec : Val → Ty → Bool} {R : Schema → Json → Bool}
    (hR : ∀ v t, rec v t = true → R (schemaOf t) (emit Δ v) = true) :
    ∀ (xs : List Val) (ts : List Ty), zipAll rec xs ts = true →
      xs.length = ts.length ∧ allZip R (schemaOfList ts) (emitList Δ xs) = true
  | [], [] => by intro _; simp [allZip, schemaOfList, emitList]
  | [], _ :: _ => by intro h; simp [zipAll] at h
  | _ :: _, [] => by intro h; simp [zipAll] at h
  | x :: xs, t :: ts => by
    intro h
    simp only [zipAll, Bool.and_eq_true] at h
    obtain ⟨ih1, ih2⟩ := zipAll_conforms hR xs ts h.2
    simp [allZip, schemaOfList, emitList, ih1, ih2, hR x t h.1]

theorem emitFields_all (m : String) (P : String × Json → Bool) :
    ∀ fs : List (String × Val),
      (∀ kv ∈ fs, dropped kv.2 = false → P (aliasOf Δ m kv.1, emit Δ kv.2) = true) →
      (emitFields Δ m fs).all P = true
  | [] => by intro _; simp [emitFields]
  | (k, v) :: t => by
    intro h
    have ht := emitFields_all m P t (fun kv hkv => h kv (List.mem_cons_of_mem _ hkv))
    by_cases hd : dropped v = true
    · simp [emitFields, hd, ht]
    · have hd' : dropped v = false := by simpa using hd
      have := h (k, v) (List.mem_cons_self ..) hd'
      simp [emitFields, hd', ht, this]

theorem hasKey_emitFields (m a : String) :
    ∀ fs : List (String × Val),
      fs.any (fun kv => !dropped kv.2 && aliasOf Δ m kv.1 == a) = true →
      hasKey a (emitFields Δ m fs) = true
  | [] => by intro h; simp at h
  | (k, v) :: t => by
    intro h
    simp only [List.any_cons, Bool.or_eq_true] at h
    by_cases hd : dropped v = true
    · have ht : t.any (fun kv => !dropped kv.2 && aliasOf Δ m kv.1 == a) = true := by
        rcases h with h | h
        · simp [hd] at h
        · exact h
      simpa [emitFields, hd] using hasKey_emitFields m a t ht
    · have hd' : dropped v = false := by simpa using hd
      rcases h with h | h
      · simp only [hd', Bool.not_false, Bool.true_and] at h
        simp [emitFields, hd', hasKey, h]
      · have := hasKey_emitFields m a t h
        simp only [hasKey] at this ⊢
        simp [emitFields, hd', this]

/-- **C09 (a), all declarations, all types, all values.**  If the in-memory value `v` inhabits the
declared type `ty` (witnessed with any amount of fuel `n`), then the JSON emitted for `v`
validates against the schema generated for `ty`, relative to the `definitions` generated for the
same declarations. -/
theorem emit_conforms : ∀ (n : Nat) (v : Val) (ty : Ty), hasType Δ n v ty = true →
    validate (defsOf Δ) (3 * n) (schemaOf ty) (emit Δ v) = true
  | 0, _, _ => by intro h; simp [hasType] at h
  | n + 1, v, ty => by
    intro h0
    have ih := emit_conforms n
    have h : hasTypeStep Δ (hasType Δ n) v ty = true := h0
    clear h0
    show validateStep (defsOf Δ) (validate (defsOf Δ) (3 * n + 2)) (schemaOf ty) (emit Δ v) = true
    -- the recursive calls, at the three fuel levels that occur below
    have hR0 : ∀ v t, hasType Δ n v t = true → validate (defsOf Δ) (3 * n) (schemaOf t) (emit Δ v) = true := ih
    have hR1 : ∀ v t, hasType Δ n v t = true → validate (defsOf Δ) (3 * n + 1) (schemaOf t) (emit Δ v) = true :=
      fun v t hv => validate_mono _ (by omega) _ _ (ih v t hv)
    have hR2 : ∀ v t, hasType Δ n v t = true → validate (defsOf Δ) (3 * n + 2) (schemaOf t) (emit Δ v) = true :=
      fun v t hv => validate_mono _ (by omega) _ _ (ih v t hv)
    cases ty with
    | any => simp only [schemaOf]; exact validateStep_empty _ _ _
    | bool =>
      cases v <;> simp [hasTypeStep] at h
      simp [schemaOf, emit, validateStep, chkType, typeOk, chkEnum, chkPattern, chkNum, chkArr,
        chkRequired, chkItems, chkProps]
    | int lo =>
      cases v <;> simp [hasTypeStep] at h
      simp [schemaOf, emit, validateStep, chkType, typeOk, chkEnum, chkPattern, chkNum, chkArr,
        chkRequired, chkItems, chkProps, h, optGe]
    | float lo hi =>
      cases v <;> simp [hasTypeStep] at h
      · simp [schemaOf, emit, validateStep, chkType, typeOk, chkEnum, chkPattern, chkNum, chkArr,
          chkRequired, chkItems, chkProps, h]
      · simp [schemaOf, emit, validateStep, chkType, typeOk, chkEnum, chkPattern, chkNum, chkArr,
          chkRequired, chkItems, chkProps, h]
    | str =>
      cases v <;> simp [hasTypeStep] at h
      simp [schemaOf, emit, validateStep, chkType, typeOk, chkEnum, chkPattern, chkNum, chkArr,
        chkRequired, chkItems, chkProps]
    | strPat p =>
      cases v <;> simp [hasTypeStep] at h
      simp [schemaOf, emit, validateStep, chkType, typeOk, chkEnum, chkPattern, chkNum, chkArr,
        chkRequired, chkItems, chkProps, h]
    | lit vals =>
      cases v <;> simp only [hasTypeStep, Bool.false_eq_true] at h
      simp only [schemaOf, emit]
      exact validateStep_strEnum _ _ vals _ h
    | enumRef e =>
      cases v <;> simp only [hasTypeStep, Bool.false_eq_true] at h
      rename_i s
      cases hd : lookupDecl Δ e with
      | none => simp [hd] at h
      | some d =>
        cases d with
        | model _ _ _ => simp [hd] at h
        | enum nm vals =>
          simp only [hd] at h
          simp only [schemaOf, emit]
          refine validateStep_ref _ _ e (declSchema (.enum nm vals)) _ (by simp [assoc_defsOf, hd]) ?_
          show validateStep _ _ (declSchema (.enum nm vals)) _ = true
          simp only [declSchema]
          exact validateStep_strEnum _ _ vals s h
    | list t mn uq =>
      cases v <;> simp only [hasTypeStep, Bool.false_eq_true] at h
      rename_i xs
      simp only [Bool.and_eq_true, List.all_eq_true] at h
      obtain ⟨⟨h1, h2⟩, h3⟩ := h
      have hitems : (emitList Δ xs).all (validate (defsOf Δ) (3 * n + 2) (schemaOf t)) = true := by
        rw [emitList_eq_map, List.all_map, List.all_eq_true]
        exact fun x hx => hR2 x t (h1 x hx)
      have hlen : (emitList Δ xs).length = xs.length := by simp [emitList_eq_map]
      simp [schemaOf, emit, validateStep, chkType, typeOk, chkEnum, chkPattern, chkNum, chkArr,
        chkRequired, chkItems, chkProps, hitems, hlen, h2, optMaxLen]
      simpa using h3
    | tuple ts =>
      cases v <;> simp only [hasTypeStep, Bool.false_eq_true] at h
      rename_i xs
      obtain ⟨hl, hz⟩ := zipAll_conforms Δ (R := validate (defsOf Δ) (3 * n + 2)) hR2 xs ts h
      have hlen : (emitList Δ xs).length = ts.length := by simp [emitList_eq_map, hl]
      simp [schemaOf, emit, validateStep, chkType, typeOk, chkEnum, chkPattern, chkNum, chkArr,
        chkRequired, chkItems, chkProps, hz, hlen, optMinLen, optMaxLen]
    | dict t =>
      cases v <;> simp only [hasTypeStep, Bool.false_eq_true] at h
      rename_i kvs
      rw [List.all_eq_true] at h
      have hprops : (emitKvs Δ kvs).all (chkProp (validate (defsOf Δ) (3 * n + 2))
          { type := some .object, addlSchema := if t.isAny then none else some (schemaOf t) }) = true := by
        rw [emitKvs_eq_map, List.all_map, List.all_eq_true]
        intro kv hkv
        by_cases ha : t.isAny = true
        · simp [chkProp, assoc, ha]
        · simp [chkProp, assoc, ha, hR2 kv.2 t (h kv hkv)]
      simp [schemaOf, emit, validateStep, chkType, typeOk, chkEnum, chkPattern, chkNum, chkArr,
        chkRequired, chkItems, chkProps, hprops]
    | array dt =>
      cases v <;> simp only [hasTypeStep, Bool.false_eq_true] at h
      rename_i shape flat
      simp only [Bool.and_eq_true, List.all_eq_true, Bool.not_eq_true'] at h
      obtain ⟨hs, hf⟩ := h
      have hitems : (emitList Δ flat).all (validate (defsOf Δ) (3 * n + 2) (dtSchema dt)) = true := by
        rw [emitList_eq_map, List.all_map, List.all_eq_true]
        intro x hx
        exact validateStep_dt _ _ Δ dt x (hf x hx)
      simp [schemaOf, emit, hs, validateStep, chkType, typeOk, chkEnum, chkPattern, chkNum, chkArr,
        chkRequired, chkItems, chkProps, hitems, optMinLen, optMaxLen]
    | model m =>
      cases v <;> simp only [hasTypeStep, Bool.false_eq_true] at h
      rename_i m' fs
      simp only [Bool.and_eq_true, beq_iff_eq] at h
      obtain ⟨hm, h⟩ := h
      subst hm
      cases hd : lookupDecl Δ m with
      | none => simp [hd] at h
      | some d =>
        cases d with
        | enum _ _ => simp [hd] at h
        | model nm fields extra =>
          simp only [hd, Bool.and_eq_true] at h
          obtain ⟨hfs, hreq⟩ := h
          have halias : ∀ k, aliasOf Δ m k = aliasIn fields k := by intro k; simp [aliasOf, hd]
          simp only [schemaOf, emit]
          refine validateStep_ref _ _ m (declSchema (.model nm fields extra)) _ (by simp [assoc_defsOf, hd]) ?_
          show validateStep (defsOf Δ) (validate (defsOf Δ) (3 * n + 1)) (declSchema (.model nm fields extra)) _ = true
          -- required keys are present
          have hrequired : ((fields.filter (fun f => f.required)).map (fun f => f.alias)).all
              (fun r => hasKey r (emitFields Δ m fs)) = true := by
            rw [List.all_map, List.all_eq_true]
            intro f hf
            simp only [requiredOk, List.all_eq_true] at hreq
            have := hreq f hf
            refine hasKey_emitFields Δ m f.alias fs ?_
            simpa [halias] using this
          -- every emitted entry validates against its property schema (or is an allowed extra)
          have hprops : (emitFields Δ m fs).all (chkProp (validate (defsOf Δ) (3 * n + 1))
              (declSchema (.model nm fields extra))) = true := by
            apply emitFields_all
            intro kv hkv hnd
            rw [List.all_eq_true] at hfs
            have hf := hfs kv hkv
            simp only [fieldOk, hnd, Bool.false_or] at hf
            simp only [chkProp, declSchema, halias, assoc_map]
            cases hfind : fields.find? (fun f => aliasIn fields kv.1 = f.alias) with
            | none =>
              simp only [hfind] at hf
              simp [hf]
            | some f =>
              simp only [hfind] at hf
              simp only [Option.map_some]
              by_cases hw : f.wrap = true
              · simp only [fieldSchema, hw, if_true]
                exact validateStep_allOf1 _ _ _ _ (hR0 kv.2 f.ty hf)
              · simp only [fieldSchema, hw]
                exact hR1 kv.2 f.ty hf
          simp only [validateStep, declSchema, chkType, typeOk, chkEnum, chkPattern_absent, chkNum_absent,
            chkArr_absent, chkItems_absent, chkRequired, hrequired, chkProps, List.all_nil, List.isEmpty_nil,
            Bool.and_self, Bool.true_or, Bool.true_and]
          exact hprops
    | union ts =>
      simp only [hasTypeStep] at h
      have h : ts.any (fun t => hasType Δ n v t) = true := by
        cases v <;> simpa [hasTypeStep] using h
      simp only [schemaOf]
      apply validateStep_anyOf
      rw [schemaOfList_eq_map, List.any_map]
      exact any_mono ts (fun t ht => hR2 v t ht) h

end conform

/-- the root form: the exported root schema of model `m` is `declSchema` of its declaration (not a `$ref`) -/
theorem root_conforms (Δ : Env) (n : Nat) (m : String) (fs : List (String × Val)) (d : Decl)
    (hd : lookupDecl Δ m = some d) (h : hasType Δ n (.obj m fs) (.model m) = true) :
    validate (defsOf Δ) (3 * n) (declSchema d) (emit Δ (.obj m fs)) = true := by
  cases n with
  | zero => simp [hasType] at h
  | succ k =>
    have hc := emit_conforms Δ (k + 1) _ _ h
    have hc : validateStep (defsOf Δ) (validate (defsOf Δ) (3 * k + 2)) (schemaOf (.model m)) (emit Δ (.obj m fs)) = true := hc
    simp only [schemaOf, validateStep, assoc_defsOf, hd, Option.map_some] at hc
    exact validate_mono _ (by omega) _ _ hc

/-- the validator is not vacuous: an object accepted against a closed (`extra = "forbid"`) model schema has
only keys that are aliases of declared fields, and has every required alias -/
theorem validate_closed_object_sound (defs : List (String × Schema)) (n : Nat) (nm : String)
    (fields : List Field) (kvs : List (String × Json))
    (h : validate defs (n + 1) (declSchema (.model nm fields false)) (.obj kvs) = true) :
    (∀ kv ∈ kvs, ∃ f ∈ fields, f.alias = kv.1) ∧
    (∀ f ∈ fields, f.required = true → hasKey f.alias kvs = true) := by
  have h : validateStep defs (validate defs n) (declSchema (.model nm fields false)) (.obj kvs) = true := h
  simp only [validateStep, declSchema, Bool.and_eq_true] at h
  obtain ⟨⟨⟨⟨⟨_, hreq⟩, _⟩, _⟩, _⟩, hprops⟩ := h
  constructor
  · intro kv hkv
    simp only [chkProps, List.all_eq_true] at hprops
    have := hprops kv hkv
    simp only [chkProp, assoc_map] at this
    cases hf : fields.find? (fun f => kv.1 = f.alias) with
    | none => simp [hf] at this
    | some f =>
      refine ⟨f, List.mem_of_find?_eq_some hf, ?_⟩
      have := List.find?_some hf
      exact (by simpa using this : kv.1 = f.alias).symm
  · intro f hf hr
    simp only [chkRequired, List.all_eq_true, List.mem_map, List.mem_filter] at hreq
    exact hreq f.alias ⟨f, ⟨hf, hr⟩, rfl⟩

theorem find_alias_unique : ∀ (fields : List Field) (f : Field),
    nodupS (fields.map (·.alias)) = true → f ∈ fields →
    fields.find? (fun g => f.alias = g.alias) = some f
  | [], _, _, hf => by simp at hf
  | g :: t, f, hnd, hf => by
    simp only [List.map_cons, nodupS, Bool.and_eq_true, Bool.not_eq_true'] at hnd
    rcases List.mem_cons.mp hf with rfl | hft
    · simp
    · have hne : f.alias ≠ g.alias := by
        intro heq
        have hmem : g.alias ∈ t.map (·.alias) := heq ▸ List.mem_map_of_mem hft
        have := hnd.1
        simp only [List.contains_eq_mem, decide_eq_false_iff_not] at this
        exact this hmem
      rw [List.find?_cons]
      simp only [hne, decide_false]
      exact find_alias_unique t f hnd.2 hft

/-- for a well-formed declaration (distinct aliases) the field that owns the key an entry is written
under is the field the entry is named after: `fieldOk` types `(k, v)` by the field named `k` -/
theorem owner_is_named_field (fields : List Field) (k : String) (f : Field)
    (hwf : nodupS (fields.map (·.alias)) = true)
    (hf : fields.find? (fun g => k = g.name) = some f) :
    fields.find? (fun g => aliasIn fields k = g.alias) = some f := by
  have ha : aliasIn fields k = f.alias := by simp [aliasIn, hf]
  rw [ha]
  exact find_alias_unique fields f hwf (List.mem_of_find?_eq_some hf)

/-- KNOWN FINDING `C09-basis-uniqueItems`, proved on the model: `[0, 0]` inhabits the declared type of
`ElectronShell.angular_momentum` (`List[NonnegativeInt]`, `min_items=1`: basis.py:27-29), but the schema
published for that field carries `uniqueItems: true` (schema_extra, basis.py:43) and rejects the emitted
JSON at every fuel. -/
theorem uniqueItems_counterexample :
    hasType [] 2 (.list [.int 0, .int 0]) (.list (.int (some 0)) (some 1) false) = true ∧
    ∀ n, validate [] n (schemaOf (.list (.int (some 0)) (some 1) true)) (emit [] (.list [.int 0, .int 0])) = false := by
  constructor
  · decide
  · intro n
    cases n with
    | zero => rfl
    | succ k =>
      show validateStep [] (validate [] k) _ _ = false
      simp [validateStep, schemaOf, emit, emitList, chkArr, uniqueJ, Json.beq, chkType, typeOk, chkEnum,
        chkPattern, chkNum, optMinLen, optMaxLen]

/-! non-vacuity (tests): a model with an aliased optional array field, an unset field, an extra-free object -/
def exEnv : Env :=
  [.model "M" [⟨"a_", "a", .array .float, false, false⟩, ⟨"n", "n", .int (some 0), true, false⟩,
               ⟨"p", "p", .model "P", false, true⟩] false,
   .model "P" [⟨"c", "c", .str, true, false⟩] true]
def exVal : Val :=
  .obj "M" [("a_", .arr [2] [.num 1, .num 2]), ("n", .int 3), ("p", .unset .null)]

example : hasType exEnv 2 exVal (.model "M") = true := by decide

end QcelVerif.Schema

/-!
(b) translation stability, record level (`Model/MolSchema.lean`).
-/
namespace QcelVerif.MolSchema

section roundtrip
variable {K : Type} [Mul K] (dflt : K) (fg : List String → String)

theorem exportGeom_length (r : Molrec K) : (exportGeom dflt r).length = r.geom.length := by
  unfold exportGeom
  cases r.units <;> cases r.iutau <;> simp

/-- what `from_schema` hands to `from_arrays` for a dictionary written by `to_schema` (version 1 or 2)
is exactly the record's own data: every array unchanged and in order, the separators recovered from the
fragment pattern, the geometry as exported. -/
theorem roundtrip_args (r : Molrec K) (hinv : Inv r) (v : Version) :
    fromSchemaArgs (toSchema dflt fg r v) = .ok (argsOf dflt fg r) := by
  have hn : r.geom.length / 3 = r.elem.length := by have := hinv.geom3; omega
  have hc := contiguize_patternOf (K := K) r.elem.length r.seps hinv.sepsSorted hinv.sepsLe
    (exportGeom dflt r) (by rw [exportGeom_length]; exact hinv.geom3)
    (some r.elea) (some r.elez) (some r.elem) (some r.mass) (some r.real) (some r.elbl)
    (by simp [lenOk, hinv.elea]) (by simp [lenOk, hinv.elez]) (by simp [lenOk]) (by simp [lenOk, hinv.mass])
    (by simp [lenOk, hinv.real]) (by simp [lenOk, hinv.elbl])
  have hs1 : startsWith "qcschema_input" "qc_schema" = false := by decide
  have hs2 : startsWith "qcschema_input" "qcschema" = true := by decide
  have hs3 : startsWith "qcschema_molecule" "qc_schema" = false := by decide
  have hs4 : startsWith "qcschema_molecule" "qcschema" = true := by decide
  have hs5 : startsWith "qcschema_molecule" "qcschema_molecule" = true := by decide
  cases v
  · simp only [fromSchemaArgs, toSchema, sniff, Option.getD_some, hs1, hs2, Bool.false_or, Bool.true_and,
      beq_self_eq_true, if_true, molDict, hn, bind, Except.bind]
    have hp : (npSplit (List.range r.elem.length) r.seps).map (fun x => x.map Int.ofNat) = patternOf r.elem.length r.seps := rfl
    rw [hp, hc]
    rfl
  · have hv : ((some (2 : Int)) == some 1) = false := by decide
    simp only [fromSchemaArgs, toSchema, sniff, Option.getD_some, hs3, hs4, hs5, Bool.false_or, Bool.true_and,
      hv, Bool.and_false, beq_self_eq_true, if_true, molDict, hn, bind, Except.bind, Bool.false_eq_true, if_false]
    have hp : (npSplit (List.range r.elem.length) r.seps).map (fun x => x.map Int.ofNat) = patternOf r.elem.length r.seps := rfl
    rw [hp, hc]
    rfl

/-- **schema_roundtrip** (versions 1 and 2): if `from_arrays` returns an invariant-satisfying record
unchanged when asked to rebuild it from its own data (C04's idempotence, a parameter here), then
`from_schema (to_schema r v)` is the record itself, stored in Bohr. -/
theorem schema_roundtrip (fa : FAArgs K → Except Err (Molrec K)) (r : Molrec K) (hinv : Inv r) (v : Version)
    (hfa : fa (argsOf dflt fg r) = .ok (inBohr dflt fg r)) :
    fromSchema fa (toSchema dflt fg r v) = .ok (inBohr dflt fg r) := by
  simp [fromSchema, roundtrip_args dflt fg r hinv v, bind, Except.bind, hfa]

/-- a record already stored in Bohr (and named) comes back identical -/
theorem schema_roundtrip_bohr (fa : FAArgs K → Except Err (Molrec K)) (r : Molrec K) (hinv : Inv r) (v : Version)
    (hu : r.units = .bohr) (hi : r.iutau = none) (nm : String) (hnm : r.name = some nm)
    (hfa : fa (argsOf dflt fg r) = .ok r) :
    fromSchema fa (toSchema dflt fg r v) = .ok r := by
  have : inBohr dflt fg r = r := by
    cases r
    simp_all [inBohr, exportGeom, nameOf]
  exact this ▸ schema_roundtrip dflt fg fa r hinv v (this ▸ hfa)

/-- **exported_geometry_bohr**: the exported geometry is the stored geometry times the Bohr factor:
1 (untouched) if stored in Bohr, the record's own `input_units_to_au` if present, else the default. -/
theorem exported_geometry_bohr (r : Molrec K) (v : Version) :
    let md := match v with | .v1 => (toSchema dflt fg r v).molecule.getD emptyDict | .v2 => (toSchema dflt fg r v).top
    md.geometry = some (match r.units with
      | .bohr => r.geom
      | .angstrom => r.geom.map (· * r.iutau.getD dflt)) := by
  cases v <;> cases hu : r.units <;> cases hi : r.iutau <;>
    simp [toSchema, molDict, exportGeom, hu, hi]

/-- fragments are written from the separators: consecutive blocks that list every atom exactly once,
in order, and whose block ends are the separators -/
theorem exported_fragments (r : Molrec K) (hinv : Inv r) :
    (molDict dflt fg r).fragments = some (patternOf r.elem.length r.seps) ∧
    (patternOf r.elem.length r.seps).flatten = arange r.elem.length ∧
    cumsumFrom 0 ((patternOf r.elem.length r.seps).map List.length) = r.seps ++ [r.elem.length] := by
  have hn : r.geom.length / 3 = r.elem.length := by have := hinv.geom3; omega
  refine ⟨by simp [molDict, hn, patternOf], patternOf_flatten _ _ hinv.sepsSorted hinv.sepsLe, ?_⟩
  rw [patternOf_lengths]
  have := cumsum_npSplitAux (List.range r.elem.length) r.seps 0 hinv.sepsSorted (by simpa using hinv.sepsLe) (by simp)
  simpa [npSplit] using this

end roundtrip

theorem cumsumFrom_getLast : ∀ (ks : List Nat) (acc k : Nat),
    (cumsumFrom acc (k :: ks)).getLast? = some (acc + (k :: ks).sum)
  | [], acc, k => by simp [cumsumFrom]
  | k' :: ks, acc, k => by
    have ih := cumsumFrom_getLast ks (acc + k) k'
    rw [cumsumFrom, List.getLast?_cons, ih]
    simp [Nat.add_assoc]

/-- refusal instead of repair: a pattern of two or more fragments whose concatenation is not
`0, 1, …, nat-1` (atoms skipped, repeated, or fragments interleaved) is a ValidationError -/
theorem contiguize_refuses_noncontiguous {K : Type} (p1 p2 : List Int) (ptl : List (List Int)) (geom : List K)
    (elea elez : Option (List Int)) (elem : Option (List String)) (mass : Option (List K))
    (real : Option (List Bool)) (elbl : Option (List String))
    (h : (p1 :: p2 :: ptl).flatten ≠ arange (p1 :: p2 :: ptl).flatten.length) :
    contiguize (p1 :: p2 :: ptl) geom elea elez elem mass real elbl = .error .validation := by
  have hnat : (cumsumFrom 0 ((p1 :: p2 :: ptl).map List.length)).getLast? = some (p1 :: p2 :: ptl).flatten.length := by
    rw [List.map_cons, cumsumFrom_getLast, List.length_flatten]
    simp
  unfold contiguize
  simp only [hnat]
  generalize (p1 :: p2 :: ptl).flatten = cat at h ⊢
  by_cases h1 : (sortInts cat != arange cat.length) = true
  · rw [if_pos h1]
  · rw [if_neg h1, if_pos (by simpa using h)]

end QcelVerif.MolSchema

namespace QcelVerif.MolSchema
/-! non-vacuity (tests): a two-fragment Angstrom record satisfies `Inv`; its version-2 dictionary -/
def exRec : Molrec Int :=
  { units := .angstrom, iutau := some 2, geom := [0, 0, 0, 0, 0, 1, 5, 0, 0], elea := [16, 1, 4], elez := [8, 1, 2],
    elem := ["O", "H", "He"], mass := [16, 1, 4], real := [true, false, true], elbl := ["a", "", "x"], seps := [2],
    fragCharges := [0, 0], fragMults := [1, 1], charge := 0, mult := 1, fixCom := true, fixOri := false,
    fixSym := none, name := none, comment := none, connectivity := some [(0, 1, 1)] }

example : Inv exRec :=
  { geom3 := by decide, nonempty := by decide, elea := by decide, elez := by decide, mass := by decide,
    real := by decide, elbl := by decide, sepsSorted := by decide, sepsLe := by decide }

example : (toSchema 7 (fun _ => "f") exRec .v2).top.geometry = some [0, 0, 0, 0, 0, 2, 10, 0, 0] := by decide
example : (toSchema 7 (fun _ => "f") exRec .v2).top.fragments = some [[0, 1], [2]] := by decide
example : (match fromSchemaArgs (toSchema 7 (fun _ => "f") exRec .v1) with
    | .ok a => decide (a = argsOf 7 (fun _ => "f") exRec)
    | .error _ => false) = true := by decide
/-- interleaved fragments are refused -/
example : (match contiguize (K := Int) [[0, 2], [1]] [0,0,0, 0,0,1, 5,0,0] none none none none none none with
    | .error .validation => true
    | _ => false) = true := by decide
end QcelVerif.MolSchema
