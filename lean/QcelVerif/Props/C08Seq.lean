import QcelVerif.Props.C08
/-!
# C08 — sibling molecules are told apart by their texts

The harness writes families of molecules that differ in one aspect one after another (call sequences).  These theorems
say, about the model, that the aspect is visible in the text: a text that carries a sibling's labels / ghost flags is
not the text of the molecule it was asked for.
-/
namespace QcelVerif.ToString

/-- nwchem and psi4 write the user label: two atoms of the same kind (both real or both ghost) that are spelled alike
have the same symbol-plus-label text -/
theorem spell_tells_labels_apart (d : Dtype) (a b : Atom) (hd : d = .nwchem ∨ d = .psi4)
    (hr : a.real = b.real) (h : spell d a = spell d b) : a.elem ++ a.elbl = b.elem ++ b.elbl := by
  have hb : b.real = a.real := hr.symm
  rcases hd with rfl | rfl <;> cases ha : a.real <;> rw [ha] at hb <;> simp [spell, ha, hb] at h
  · exact h
  · exact h
  · have h' : (a.elem ++ a.elbl) ++ [')'] = (b.elem ++ b.elbl) ++ [')'] := by simpa [List.append_assoc] using h
    exact List.append_cancel_right h'
  · exact h

/-- non-vacuity (test): the labels `a` / `b` on the same hydrogen are spelled differently by nwchem -/
example : spell .nwchem ⟨-1, 1, ['H'], [], ['a'], true, []⟩ ≠ spell .nwchem ⟨-1, 1, ['H'], [], ['b'], true, []⟩ := by decide

/-- every format but molpro / mrchem / turbomole / sdf spells a ghost differently from the real atom of the same element,
label and atomic number (those four name ghosts elsewhere: molpro's dummy card, sdf's ghost word; mrchem / turbomole
not at all); for cfour / madness the element symbol must not itself be the ghost word `GH` (no element is) -/
theorem spell_tells_ghost_apart (d : Dtype) (a b : Atom)
    (hd : d ≠ .molpro ∧ d ≠ .mrchem ∧ d ≠ .turbomole ∧ d ≠ .sdf)
    (he : b.elem = a.elem) (hl : b.elbl = a.elbl) (hz : b.elez = a.elez) (hne : a.elem ≠ ['G', 'H'])
    (hra : a.real = true) (hrb : b.real = false) : spell d a ≠ spell d b := by
  obtain ⟨h1, h2, h3, h4⟩ := hd
  intro h
  cases d <;> simp [spell, hra, hrb, he, hl, hz] at h h1 h2 h3 h4
  all_goals first
    | exact hne h
    | (have hlen := congrArg List.length h; simp at hlen; done)
    | (have hlen := congrArg List.length h; simp at hlen; omega)
    | skip
  -- gamess: E ++ (L ++ ' ' :: Z) = E ++ ' ' :: '-' :: Z forces |L| = 1, and then ' ' = '-'
  have hlen := congrArg List.length h
  simp at hlen
  match hL : a.elbl, hlen with
  | [c], _ =>
    rw [hL] at h
    simp at h
  | [], hlen => simp at hlen
  | _ :: _ :: _, hlen => simp at hlen; omega

/-- non-vacuity (test): ghost helium, psi4 -/
example : spell .psi4 ⟨-1, 2, ['H', 'e'], [], [], true, []⟩ ≠ spell .psi4 ⟨-1, 2, ['H', 'e'], [], [], false, []⟩ := by decide

end QcelVerif.ToString
