import QcelVerif.Model.MeasureSrc
import QcelVerif.Props.C18Real
import Mathlib.Tactic.Ring
import Mathlib.Tactic.FieldSimp
import Mathlib.Tactic.Push
/-!
# C18 — the measurement formulas REGENERATED FROM THE SOURCE are the hand model's

`Gen/MeasureSrc.lean` is written by `harness/c18_src.py` from `qcelemental/util/misc.py` and
`qcelemental/molutil/connectivity.py` on every run (terms of the AST of `Model/MeasureAst.lean`).
This file proves, for ALL inputs, that

* evaluated with the field operations of any ordered field and ANY functions standing for
  `np.sqrt / np.arccos / np.arctan2 / np.pi / np.degrees`, the generated terms are the code-shaped
  hand functions of `Model/Measure.lean` (`distSq`, `angleCos`, `dihedralXY`) wrapped in those
  functions exactly as `Props/C18Real.lean` wraps them;
* hence over ℝ with Mathlib's `Real.sqrt`, `Real.arccos`, `Complex.arg`: `srcDistR = distR`,
  `srcAngleR = angleR`, `srcDihedralR = dihedralR`, and the `degrees=True` branch is `degrees ∘ ·`;
* the exact parts (`exactDist`, `exactAngle`, `exactDihedral` — the evaluators the driver runs at ℚ)
  are `distSq`, `angleArgs`, `dihedralArgs`;
* the generated pair loop of `guess_connectivity` (`srcConn` on `connSpec`) is `guessConnectivity`,
  both with the real `√· < ·` test and with the exact root-free test the driver runs.

The headline theorems of `Props/C18Real.lean` / `Props/C18.lean` are then restated over the
source-derived functions.

PROPERTY-THEOREMS:
  srcDistance_eq  srcAngle_eq  srcDihedral_eq
  srcDistR_eq_distR  srcAngleR_eq_angleR  srcDihedralR_eq_dihedralR  src_degrees_eq
  src_exactDist  src_exactAngle  src_exactDihedral_partial
  srcConnExact_eq_guessConnectivity  srcConnR_eq_guessConnectivity
  src_rigid_invariant  src_ranges  src_dihedral_reflection  src_reversal  src_degrees_factor
  src_textbook  src_connectivity_rigid_invariant  src_connectivity_relabel
-/
set_option linter.unusedSectionVars false
set_option linter.unusedSimpArgs false
namespace QcelVerif.MeasureSrc
open QcelVerif.Measure QcelVerif.Measure.V3 QcelVerif.MeasureAst QcelVerif.Gen.MeasureSrc

/-! ## evaluation over an ordered field with the transcendental functions as parameters -/

/-- whatever stands for `np.sqrt`, `np.arccos`, `np.arctan2`, `np.pi`, `np.degrees` -/
structure Fns (K : Type) where
  sqrt : K → K
  arccos : K → K
  arctan2 : K → K → K
  pi : K
  degrees : K → K

section generic
variable {K : Type} [Field K] [LinearOrder K] [IsStrictOrderedRing K]

/-- the field operations of `K`, `np.clip` = `Measure.clip` (= `min (max x lo) hi`), `f` for the rest -/
def fieldOps (f : Fns K) : Ops K where
  add := (· + ·)
  sub := (· - ·)
  mul := (· * ·)
  div := (· / ·)
  neg := (- ·)
  ofInt i := (i : K)
  sqrt := f.sqrt
  arccos := f.arccos
  arctan2 := f.arctan2
  clip := Measure.clip
  pi := f.pi
  degrees := f.degrees

/-- `compute_distance` as regenerated from the source, one row -/
def srcDistance (f : Fns K) (p q : V3 K) : K :=
  evalS (fieldOps f) (env4 p q q q false) compute_distance

/-- `compute_angle(…, degrees=deg)` as regenerated from the source, one row -/
def srcAngle (f : Fns K) (deg : Bool) (p1 p2 p3 : V3 K) : K :=
  evalS (fieldOps f) (env4 p1 p2 p3 p3 deg) compute_angle

/-- `compute_dihedral(…, degrees=deg)` as regenerated from the source, one row -/
def srcDihedral (f : Fns K) (deg : Bool) (p1 p2 p3 p4 : V3 K) : K :=
  evalS (fieldOps f) (env4 p1 p2 p3 p4 deg) compute_dihedral

/-- source-derived distance = `sqrt` of the hand model's `distSq`, whatever `sqrt` is -/
theorem srcDistance_eq (f : Fns K) (p q : V3 K) : srcDistance f p q = f.sqrt (distSq p q) := by
  unfold srcDistance compute_distance
  simp only [evalS, evalV, fieldOps, env4, toVec]
  v3_unfold

/-- source-derived angle = `pi − arccos (angleCos ‖v12‖ ‖v23‖ …)` with the hand model's code-shaped
`angleCos` (clip included) and `‖·‖ = sqrt (nsq ·)`, through `degrees` iff the flag is set —
whatever `sqrt`, `arccos`, `pi`, `degrees` are -/
theorem srcAngle_eq (f : Fns K) (deg : Bool) (p1 p2 p3 : V3 K) :
    srcAngle f deg p1 p2 p3 =
      if deg then
        f.degrees (f.pi - f.arccos (angleCos (f.sqrt (nsq (p1 - p2))) (f.sqrt (nsq (p2 - p3))) p1 p2 p3))
      else f.pi - f.arccos (angleCos (f.sqrt (nsq (p1 - p2))) (f.sqrt (nsq (p2 - p3))) p1 p2 p3) := by
  unfold srcAngle compute_angle angleCos
  simp only [evalS, evalV, fieldOps, env4, toVec, Int.cast_neg, Int.cast_one]
  v3_unfold

/-- source-derived dihedral = `arctan2 y x` with `(x, y)` the hand model's code-shaped `dihedralXY`
at `n = sqrt (nsq (p3 − p2))`, through `degrees` iff the flag is set — whatever the functions are -/
theorem srcDihedral_eq (f : Fns K) (deg : Bool) (p1 p2 p3 p4 : V3 K) :
    srcDihedral f deg p1 p2 p3 p4 =
      if deg then
        f.degrees (f.arctan2 (dihedralXY (f.sqrt (nsq (p3 - p2))) p1 p2 p3 p4).2
          (dihedralXY (f.sqrt (nsq (p3 - p2))) p1 p2 p3 p4).1)
      else f.arctan2 (dihedralXY (f.sqrt (nsq (p3 - p2))) p1 p2 p3 p4).2
          (dihedralXY (f.sqrt (nsq (p3 - p2))) p1 p2 p3 p4).1 := by
  unfold srcDihedral compute_dihedral dihedralXY
  simp only [evalS, evalV, fieldOps, env4, toVec, Int.cast_neg, Int.cast_one]
  v3_unfold
  generalize f.sqrt ((p3.x - p2.x) * (p3.x - p2.x) + (p3.y - p2.y) * (p3.y - p2.y)
    + (p3.z - p2.z) * (p3.z - p2.z)) = n
  split <;> congr 2 <;> ring

end generic

/-! ## exact parts: what the driver evaluates at ℚ -/
section exact
variable {K : Type} [Field K] [LinearOrder K] [IsStrictOrderedRing K]

/-- the exact part of the source-derived distance (the argument of its `sqrt`) is `distSq` -/
theorem src_exactDist (p q : V3 K) :
    srcDistSq p q = some (distSq p q) := by
  unfold srcDistSq compute_distance
  simp only [exactDist, evalS, evalV, exactOps, Env.some, env4, toVec]
  v3_unfold
  rfl

/-- the exact part of the source-derived angle — numerator and radicand product of the `arccos`
argument `num / (√r₁ · √r₂)` inside `np.clip(·, −1, 1)` — is the hand model's `angleArgs` -/
theorem src_exactAngle (p1 p2 p3 : V3 K) :
    srcAngleArgs p1 p2 p3 = some (angleArgs p1 p2 p3) := by
  unfold srcAngleArgs compute_angle angleArgs
  simp only [radianBranch, exactAngle, evalS, evalV, exactOps, Env.some, env4, toVec]
  v3_unfold
  rfl

end exact

section exactDihedral
variable {K : Type} [Field K] [LinearOrder K] [IsStrictOrderedRing K]

/-- the exact part of the source-derived dihedral — `x`, `y` of `arctan2(y, x)` evaluated in
`K(√N)`, `N` the one radicand of the term — is the hand model's `dihedralArgs = (XN, Y, N)`:
the code's `x` is the rational `XN / N`, its `y` is `(Y / N)·√N`.  Non-degenerate central bond. -/
theorem src_exactDihedral_partial (p1 p2 p3 p4 : V3 K) (h : nsq (p3 - p2) ≠ 0) :
    srcDihedralArgs p1 p2 p3 p4 = some (dihedralArgs p1 p2 p3 p4) := by
  -- FULL: the degenerate case `p2 = p3` (where Lean's `x / 0 = 0` replaces numpy's nan) is not covered
  unfold srcDihedralArgs compute_dihedral dihedralArgs
  revert h
  v3_unfold
  intro h
  simp only [radianBranch, exactDihedral, radicandsS, radicandsV, List.nil_append, List.cons_append,
    List.append_nil]
  simp only [evalS, evalV, exactOps, quadOps, Env.some, Env.quad, env4, toVec, Option.bind_eq_bind,
    Option.pure_def, Option.bind_some, Int.cast_zero, Int.cast_one, Int.cast_neg,
    sub_zero, mul_zero, zero_mul, add_zero, zero_add, and_self, if_true, zero_sub, zero_div,
    mul_one, one_mul]
  revert h
  generalize p2.x - p1.x = ax
  generalize p2.y - p1.y = ay
  generalize p2.z - p1.z = az
  generalize p3.x - p2.x = ux
  generalize p3.y - p2.y = uy
  generalize p3.z - p2.z = uz
  generalize p4.x - p3.x = cx
  generalize p4.y - p3.y = cy
  generalize p4.z - p3.z = cz
  intro h
  have h' : ux ^ 2 + uy ^ 2 + uz ^ 2 ≠ 0 := by
    intro e
    apply h
    rw [← e]
    ring
  rw [if_pos]
  · simp only [Option.some.injEq, Prod.mk.injEq]
    refine ⟨?_, ?_, trivial⟩
    · field_simp
      ring
    · field_simp
      ring
  · constructor
    · field_simp
      ring
    · field_simp
      ring

end exactDihedral

/-! ## over ℝ: the source-derived measurements are `distR`, `angleR`, `dihedralR`, `degrees` -/
section real

/-- Mathlib's functions where the source has numpy's: `np.sqrt ↦ Real.sqrt`, `np.arccos ↦ Real.arccos`,
`np.arctan2(y, x) ↦ atan2 y x = Complex.arg (x + y i)`, `np.pi ↦ Real.pi`, `np.degrees ↦ · * (180/π)` -/
noncomputable def realFns : Fns ℝ := ⟨Real.sqrt, Real.arccos, atan2, Real.pi, degrees⟩

/-- `compute_distance`, regenerated from the source, over ℝ -/
noncomputable def srcDistR (p q : V3 ℝ) : ℝ := srcDistance realFns p q
/-- `compute_angle(…, degrees=deg)`, regenerated from the source, over ℝ -/
noncomputable def srcAngleR (deg : Bool) (p1 p2 p3 : V3 ℝ) : ℝ := srcAngle realFns deg p1 p2 p3
/-- `compute_dihedral(…, degrees=deg)`, regenerated from the source, over ℝ -/
noncomputable def srcDihedralR (deg : Bool) (p1 p2 p3 p4 : V3 ℝ) : ℝ :=
  srcDihedral realFns deg p1 p2 p3 p4

theorem srcDistR_eq_distR (p q : V3 ℝ) : srcDistR p q = distR p q := by
  unfold srcDistR
  rw [srcDistance_eq]
  rfl

theorem srcAngleR_eq_angleR (p1 p2 p3 : V3 ℝ) : srcAngleR false p1 p2 p3 = angleR p1 p2 p3 := by
  unfold srcAngleR
  rw [srcAngle_eq]
  rfl

theorem srcDihedralR_eq_dihedralR (p1 p2 p3 p4 : V3 ℝ) :
    srcDihedralR false p1 p2 p3 p4 = dihedralR p1 p2 p3 p4 := by
  unfold srcDihedralR
  rw [srcDihedral_eq]
  rfl

/-- the `degrees=True` branch of the source is `np.degrees` of the radian value: `angleDegR`,
`dihedralDegR` of `Props/C18Real.lean` -/
theorem src_degrees_eq (p1 p2 p3 p4 : V3 ℝ) :
    srcAngleR true p1 p2 p3 = angleDegR p1 p2 p3 ∧
    srcDihedralR true p1 p2 p3 p4 = dihedralDegR p1 p2 p3 p4 := by
  unfold srcAngleR srcDihedralR
  rw [srcAngle_eq, srcDihedral_eq]
  exact ⟨rfl, rfl⟩

end real

/-! ## the pair loop of `guess_connectivity` -/
section conn
variable {K : Type} [Field K] [LinearOrder K] [IsStrictOrderedRing K]

/-- the exact test of the generated loop is defined on every pair and is the hand model's `bonded` -/
theorem exactTest_connSpec (thr : K) (a b : Atom K) :
    exactTest connSpec (connEnv thr (toAtomS a) (toAtomS b) b.r) = some (bonded thr a b) := by
  unfold connSpec bonded
  simp only [exactTest, evalS, evalV, exactOps, Env.some, connEnv, toAtomS, toVec, cmpSqrt,
    Option.bind_eq_bind, Option.pure_def, Option.bind_some, Int.cast_zero, if_true, if_false,
    OfNat.ofNat_ne_zero, one_ne_zero, OfNat.ofNat_ne_one]
  v3_unfold
  by_cases h1 : 0 < (a.r + b.r) * thr <;>
    by_cases h2 : (a.p.x - b.p.x) * (a.p.x - b.p.x) + (a.p.y - b.p.y) * (a.p.y - b.p.y)
      + (a.p.z - b.p.z) * (a.p.z - b.p.z) < (a.r + b.r) * thr * ((a.r + b.r) * thr) <;>
    simp [h1, h2]

/-- the driver's definedness check never fires on the generated loop -/
theorem srcConnExactDefined_true (thr : K) (atoms : List (Atom K)) :
    srcConnExactDefined thr atoms = true := by
  unfold srcConnExactDefined
  simp only [List.all_eq_true]
  intro a _ b _
  rw [exactTest_connSpec]
  rfl

theorem srcConnRow_eq (test : Env K → Bool) (thr : K) (x : Nat) (a : Atom K)
    (ht : ∀ b : Atom K, test (connEnv thr (toAtomS a) (toAtomS b) b.r) = bonded thr a b) :
    ∀ (l : List (Atom K)) (k : Nat),
      srcConnRow connSpec test thr x (toAtomS a) k (l.map toAtomS) ((l.map toAtomS).map AtomS.r)
        = connRow thr x a (k + x + 1) l
  | [], _ => by simp [srcConnRow, connRow]
  | b :: rest, k => by
      have ih := srcConnRow_eq test thr x a ht rest (k + 1)
      have e : k + 1 + x + 1 = k + x + 1 + 1 := by omega
      have e2 : connSpec.pairFirstIsX = true := rfl
      have e3 : connSpec.whereOff = 1 := rfl
      have hb : (toAtomS b).r = b.r := rfl
      simp only [List.map_cons, srcConnRow, connRow]
      rw [ih, e, hb, ht b, e2, e3]
      rfl

theorem srcConnFrom_eq (test : Env K → Bool) (thr : K)
    (ht : ∀ a b : Atom K, test (connEnv thr (toAtomS a) (toAtomS b) b.r) = bonded thr a b) :
    ∀ (l : List (Atom K)) (x : Nat),
      srcConnFrom connSpec test thr x (l.map toAtomS) = connFrom thr x l
  | [], _ => by simp [srcConnFrom, connFrom]
  | a :: rest, x => by
      have ih := srcConnFrom_eq test thr ht rest (x + 1)
      have hr := srcConnRow_eq test thr x a (ht a) rest 0
      simp only [List.map_cons, srcConnFrom, connFrom]
      rw [ih]
      have e : (connSpec.geomOff = 1) ∧ (connSpec.radOff = 1) := ⟨rfl, rfl⟩
      rw [e.1, e.2]
      simp only [List.drop_succ_cons, List.drop_zero]
      rw [hr]
      simp

/-- the generated pair loop (loop bounds, slice offsets, index shift, `<`, `(rᵢ + rⱼ)·threshold`,
pair order — all read from the source) with the exact test lists exactly the hand model's bonds -/
theorem srcConnExact_eq_guessConnectivity (thr : K) (atoms : List (Atom K)) :
    srcConnExact thr atoms = guessConnectivity thr atoms := by
  unfold srcConnExact srcConn guessConnectivity
  apply srcConnFrom_eq
  intro a b
  unfold exactTestB
  rw [exactTest_connSpec]
  cases bonded thr a b <;> rfl

end conn

section connReal

/-- the comparison operator read from the source, on reals -/
noncomputable def cmpR : Cmp → ℝ → ℝ → Bool
  | .lt, a, b => decide (a < b)
  | .le, a, b => decide (a ≤ b)
  | .gt, a, b => decide (a > b)
  | .ge, a, b => decide (a ≥ b)

/-- the source's test as written: `dists cmp cutoff` with `dists = np.sqrt(einsum(diffs, diffs))`
evaluated with `Real.sqrt` -/
noncomputable def realTest (ρ : Env ℝ) : Bool :=
  cmpR connSpec.cmp (evalS (fieldOps realFns) ρ connSpec.dist) (evalS (fieldOps realFns) ρ connSpec.cutoff)

/-- `guess_connectivity`'s pair loop regenerated from the source, over ℝ with the real square root -/
noncomputable def srcConnR (thr : ℝ) (atoms : List (Atom ℝ)) : List (Nat × Nat) :=
  srcConn connSpec realTest thr (atoms.map toAtomS)

theorem realTest_connSpec (thr : ℝ) (a b : Atom ℝ) :
    realTest (connEnv thr (toAtomS a) (toAtomS b) b.r) = bonded thr a b := by
  have h0 : 0 ≤ distSq a.p b.p := (distSq_nonneg_zero a.p b.p).1
  have key := sqrt_lt_iff (Real.sqrt (distSq a.p b.p)) (distSq a.p b.p) ((a.r + b.r) * thr)
    (Real.sqrt_nonneg _) (Real.mul_self_sqrt h0)
  have e1 : evalS (fieldOps realFns) (connEnv thr (toAtomS a) (toAtomS b) b.r) connSpec.dist
      = Real.sqrt (distSq a.p b.p) := by
    unfold connSpec
    simp only [evalS, evalV, fieldOps, realFns, connEnv, toAtomS, toVec, if_true, if_false,
      OfNat.ofNat_ne_zero, one_ne_zero, OfNat.ofNat_ne_one]
    v3_unfold
  have e2 : evalS (fieldOps realFns) (connEnv thr (toAtomS a) (toAtomS b) b.r) connSpec.cutoff
      = (a.r + b.r) * thr := by
    unfold connSpec
    simp only [evalS, evalV, fieldOps, realFns, connEnv, toAtomS, toVec, if_true, if_false,
      OfNat.ofNat_ne_zero, one_ne_zero, OfNat.ofNat_ne_one]
  have e3 : connSpec.cmp = .lt := rfl
  unfold realTest bonded
  rw [e1, e2, e3]
  simp only [cmpR, decide_eq_decide]
  exact key

/-- with the real square root and the source's own `<`, the generated loop lists exactly the hand
model's bonds (which uses the root-free test): the two forms of the test agree by `sqrt_lt_iff` -/
theorem srcConnR_eq_guessConnectivity (thr : ℝ) (atoms : List (Atom ℝ)) :
    srcConnR thr atoms = guessConnectivity thr atoms := by
  unfold srcConnR srcConn guessConnectivity
  exact srcConnFrom_eq realTest thr (realTest_connSpec thr) atoms 0

end connReal

/-! ## the headline clauses of C18, restated over the source-derived functions -/
section headlines

theorem srcAngleR_cases (deg : Bool) (p1 p2 p3 : V3 ℝ) :
    srcAngleR deg p1 p2 p3 = if deg then angleDegR p1 p2 p3 else angleR p1 p2 p3 := by
  cases deg
  · exact srcAngleR_eq_angleR p1 p2 p3
  · exact (src_degrees_eq p1 p2 p3 p3).1

theorem srcDihedralR_cases (deg : Bool) (p1 p2 p3 p4 : V3 ℝ) :
    srcDihedralR deg p1 p2 p3 p4 = if deg then dihedralDegR p1 p2 p3 p4 else dihedralR p1 p2 p3 p4 := by
  cases deg
  · exact srcDihedralR_eq_dihedralR p1 p2 p3 p4
  · exact (src_degrees_eq p1 p2 p3 p4).2

/-- INVARIANCE: the source-derived distance, angle and dihedral (either `degrees` flag) are unchanged
by every proper rigid motion `p ↦ R p + t` (`R Rᵀ = I`, `det R = 1`) -/
theorem src_rigid_invariant (T : Motion ℝ) (h : T.R.IsRotation) (deg : Bool) (p1 p2 p3 p4 : V3 ℝ) :
    srcDistR (T.apply p1) (T.apply p2) = srcDistR p1 p2 ∧
    srcAngleR deg (T.apply p1) (T.apply p2) (T.apply p3) = srcAngleR deg p1 p2 p3 ∧
    srcDihedralR deg (T.apply p1) (T.apply p2) (T.apply p3) (T.apply p4)
      = srcDihedralR deg p1 p2 p3 p4 := by
  obtain ⟨d1, d2⟩ := degrees_rigid_invariant T h p1 p2 p3 p4
  refine ⟨?_, ?_, ?_⟩
  · rw [srcDistR_eq_distR, srcDistR_eq_distR, distR_rigid_invariant T h.1]
  · rw [srcAngleR_cases, srcAngleR_cases, d1, angleR_rigid_invariant T h.1]
  · rw [srcDihedralR_cases, srcDihedralR_cases, d2, dihedralR_rigid_invariant T h]

/-- RANGES: source-derived distance in `[0, ∞)`, angle in `[0, π]` (degrees: `[0, 180]`), dihedral in
`(−π, π]` (degrees: `(−180, 180]`) — for all inputs of the real model -/
theorem src_ranges (p1 p2 p3 p4 : V3 ℝ) :
    0 ≤ srcDistR p1 p2 ∧
    (0 ≤ srcAngleR false p1 p2 p3 ∧ srcAngleR false p1 p2 p3 ≤ Real.pi) ∧
    (-Real.pi < srcDihedralR false p1 p2 p3 p4 ∧ srcDihedralR false p1 p2 p3 p4 ≤ Real.pi) ∧
    (0 ≤ srcAngleR true p1 p2 p3 ∧ srcAngleR true p1 p2 p3 ≤ 180) ∧
    (-180 < srcDihedralR true p1 p2 p3 p4 ∧ srcDihedralR true p1 p2 p3 p4 ≤ 180) := by
  obtain ⟨-, -, -, -, ha, hd⟩ := degrees_spec p1 p2 p3 p4
  rw [srcDistR_eq_distR, srcAngleR_eq_angleR, srcDihedralR_eq_dihedralR, (src_degrees_eq p1 p2 p3 p4).1,
    (src_degrees_eq p1 p2 p3 p4).2]
  exact ⟨(distR_range p1 p2).1, angleR_range p1 p2 p3, dihedralR_range p1 p2 p3 p4, ha, hd⟩

/-- REFLECTION: under an improper orthogonal map (`det R = −1`) the source-derived distance and angle
are unchanged and the dihedral changes sign (the edge value `π`, planar trans, stays `π`) -/
theorem src_dihedral_reflection (T : Motion ℝ) (h : T.R.IsReflection) (p1 p2 p3 p4 : V3 ℝ) :
    srcDistR (T.apply p1) (T.apply p2) = srcDistR p1 p2 ∧
    srcAngleR false (T.apply p1) (T.apply p2) (T.apply p3) = srcAngleR false p1 p2 p3 ∧
    srcDihedralR false (T.apply p1) (T.apply p2) (T.apply p3) (T.apply p4)
      = if srcDihedralR false p1 p2 p3 p4 = Real.pi then Real.pi
        else -srcDihedralR false p1 p2 p3 p4 := by
  refine ⟨?_, ?_, ?_⟩
  · rw [srcDistR_eq_distR, srcDistR_eq_distR, distR_rigid_invariant T h.1]
  · rw [srcAngleR_eq_angleR, srcAngleR_eq_angleR, angleR_rigid_invariant T h.1]
  · rw [srcDihedralR_eq_dihedralR, srcDihedralR_eq_dihedralR, dihedralR_reflection T h]

/-- REVERSAL: listing the points backwards leaves the source-derived distance, angle and dihedral
unchanged (either `degrees` flag) -/
theorem src_reversal (deg : Bool) (p1 p2 p3 p4 : V3 ℝ) :
    srcDistR p2 p1 = srcDistR p1 p2 ∧
    srcAngleR deg p3 p2 p1 = srcAngleR deg p1 p2 p3 ∧
    srcDihedralR deg p4 p3 p2 p1 = srcDihedralR deg p1 p2 p3 p4 := by
  refine ⟨?_, ?_, ?_⟩
  · rw [srcDistR_eq_distR, srcDistR_eq_distR, (distR_range p1 p2).2.2]
  · rw [srcAngleR_cases, srcAngleR_cases]
    unfold angleDegR
    rw [angleR_reversal]
  · rw [srcDihedralR_cases, srcDihedralR_cases]
    unfold dihedralDegR
    rw [dihedralR_reversal]

/-- DEGREES: the `degrees=True` result of the source is the radian result times `180/π` -/
theorem src_degrees_factor (p1 p2 p3 p4 : V3 ℝ) :
    srcAngleR true p1 p2 p3 = srcAngleR false p1 p2 p3 * (180 / Real.pi) ∧
    srcDihedralR true p1 p2 p3 p4 = srcDihedralR false p1 p2 p3 p4 * (180 / Real.pi) := by
  rw [(src_degrees_eq p1 p2 p3 p4).1, (src_degrees_eq p1 p2 p3 p4).2, srcAngleR_eq_angleR,
    srcDihedralR_eq_dihedralR]
  exact ⟨rfl, rfl⟩

/-- TEXTBOOK: for non-degenerate input the source-derived values are `√(Δx²+Δy²+Δz²)`, the `arccos`
of the normalised dot product of the bond vectors at the vertex, and the IUPAC signed dihedral in
`atan2` form -/
theorem src_textbook (p1 p2 p3 p4 : V3 ℝ) (h12 : p1 ≠ p2) (h32 : p3 ≠ p2) :
    srcDistR p1 p2 = Real.sqrt ((p1.x - p2.x) ^ 2 + (p1.y - p2.y) ^ 2 + (p1.z - p2.z) ^ 2) ∧
    srcAngleR false p1 p2 p3
      = Real.arccos (dot (p1 - p2) (p3 - p2) / (normR (p1 - p2) * normR (p3 - p2))) ∧
    srcDihedralR false p1 p2 p3 p4
      = atan2 (normR (p3 - p2) * dot (p2 - p1) (cross (p3 - p2) (p4 - p3)))
          (dot (cross (p2 - p1) (p3 - p2)) (cross (p3 - p2) (p4 - p3))) := by
  rw [srcDistR_eq_distR, srcAngleR_eq_angleR, srcDihedralR_eq_dihedralR]
  exact ⟨(distR_textbook p1 p2).1, (angleR_textbook p1 p2 p3 h12 h32).1,
    dihedralR_textbook p1 p2 p3 p4 h32⟩

/-- non-vacuity of `src_textbook`'s hypotheses (test) -/
example : (⟨1, 0, 0⟩ : V3 ℝ) ≠ ⟨0, 0, 0⟩ ∧ (⟨0, 1, 0⟩ : V3 ℝ) ≠ ⟨0, 0, 0⟩ :=
  ⟨fun e => one_ne_zero (congrArg V3.x e), fun e => one_ne_zero (congrArg V3.y e)⟩

/-- non-vacuity of `src_exactDihedral_partial`'s hypothesis (test) -/
example : nsq ((⟨0, 1, 0⟩ : V3 ℚ) - ⟨0, 0, 0⟩) ≠ 0 := by v3_unfold; norm_num

variable {K : Type} [Field K] [LinearOrder K] [IsStrictOrderedRing K]

/-- CONNECTIVITY, exactness: the source-derived list contains `(i, j)` iff `i < j`, both atoms exist
and `0 < (rᵢ+rⱼ)·thr`, `d² < ((rᵢ+rⱼ)·thr)²` -/
theorem src_connectivity_exact (thr : K) (atoms : List (Atom K)) (i j : Nat) :
    (i, j) ∈ srcConnExact thr atoms ↔
      i < j ∧ ∃ a b, atoms[i]? = some a ∧ atoms[j]? = some b ∧
        0 < (a.r + b.r) * thr ∧
        distSq a.p b.p < ((a.r + b.r) * thr) * ((a.r + b.r) * thr) := by
  rw [srcConnExact_eq_guessConnectivity]
  exact connectivity_exact thr atoms i j

/-- CONNECTIVITY, rigid motion: unchanged by every orthogonal motion of the geometry -/
theorem src_connectivity_rigid_invariant (T : Motion K) (h : T.R.IsOrthogonal) (thr : K)
    (atoms : List (Atom K)) :
    srcConnExact thr (atoms.map (Atom.move T)) = srcConnExact thr atoms := by
  rw [srcConnExact_eq_guessConnectivity, srcConnExact_eq_guessConnectivity]
  exact connectivity_rigid_invariant T h thr atoms

/-- CONNECTIVITY, relabelling: under an injective relabelling `σ` of the atoms the bonds correspond
(re-sorted within the pair) -/
theorem src_connectivity_relabel (thr : K) (atoms atoms' : List (Atom K)) (σ : Nat → Nat)
    (hσ : ∀ k a, atoms[k]? = some a → atoms'[σ k]? = some a)
    (hinj : ∀ i j, i < atoms.length → j < atoms.length → σ i = σ j → i = j)
    (i j : Nat) (hij : i < j) (hj : j < atoms.length) :
    (i, j) ∈ srcConnExact thr atoms ↔
      (min (σ i) (σ j), max (σ i) (σ j)) ∈ srcConnExact thr atoms' := by
  rw [srcConnExact_eq_guessConnectivity, srcConnExact_eq_guessConnectivity]
  exact connectivity_relabel thr atoms atoms' σ hσ hinj i j hij hj

/-- non-vacuity of `src_connectivity_relabel`'s hypotheses: swapping two atoms (test) -/
example : ∃ (atoms atoms' : List (Atom ℚ)) (σ : Nat → Nat),
    (∀ k a, atoms[k]? = some a → atoms'[σ k]? = some a) ∧
    (∀ i j, i < atoms.length → j < atoms.length → σ i = σ j → i = j) ∧ 0 < 1 ∧ 1 < atoms.length := by
  refine ⟨[⟨1, ⟨0, 0, 0⟩⟩, ⟨2, ⟨1, 0, 0⟩⟩], [⟨2, ⟨1, 0, 0⟩⟩, ⟨1, ⟨0, 0, 0⟩⟩], fun k => 1 - k, ?_, ?_,
    by decide, by decide⟩
  · intro k a hk
    match k, hk with
    | 0, hk => simpa using hk
    | 1, hk => simpa using hk
    | k + 2, hk => simp at hk
  · intro i j hi hj hs
    simp only [List.length_cons, List.length_nil] at hi hj
    dsimp only at hs
    omega

/-- TEST (the real rotation / reflection hypotheses are inhabited): see `Props/C18Real.lean` -/
example : (quatRot (1 : ℝ) 2 3 4).IsRotation := quatRot_isRotation _ _ _ _ (by norm_num)

end headlines

end QcelVerif.MeasureSrc
