import QcelVerif.Lemmas.FormulaRe
import QcelVerif.Props.C15Symbols
/-!
# C15 (formula part) — the two regular expressions are the ones in the source

`Gen/FormulaRegex.lean` is regenerated on every run from `qcelemental/molutil/molecular_formula.py` by
`harness/c15.py:gen_formula_regex`: CPython's own parse trees of the pattern given to `re.findall` and of the pattern given to
`re.match` in `order_molecular_formula`, the two group numbers read, and the entry points (the translator compares the whole
function body with the shape `Model/FormulaRe.lean` transcribes and refuses any other).  The theorems below tie the
hand-written cuts of `Model/Formula.lean` — `cutUpper`, `splitCount`, the ones every string-level C15 theorem reasons about and
the ones C04's schema model uses through `orderFormula` — to the generic regex engine run on those generated ASTs, for
**every** string (no length bound, no restriction to ASCII on the Lean side: the engine's classes are `Nat` ranges):

  * `formula_regex_shape`      [rfl] the generated ASTs / groups / entry points are the ones the lemmas are about
  * `cutUpper_eq_findall`      engine `findall` on the generated `[A-Z][^A-Z]*` = the chunks of the hand `cutUpper`
  * `cut_join_iff`             the `"".join(matches) == formula` test = "the hand cut leaves no unmatched prefix"
  * `splitCount_eq_match`      engine `match` on the generated `(\D+)(\d*)` + the two group reads = the hand `splitCount`
                                whenever the text starts with a non-digit; no match otherwise
  * `split_groups`             the groups themselves (group 1 = leading non-digits, group 2 = the digits that follow)
  * `assert_never_fails`       on the chunks `findall` returns, `re.match` always succeeds (the `assert match_n` cannot fire)
  * `orderFormulaRe_eq`        hence `order_molecular_formula` through the generated regexes = the hand `orderFormula`
  * `parse_render_re`, `order_formula_of_formula_re`, `order_formula_periodic_re`
                                the string-level theorems restated over the source's own patterns — no hand regex left
  * `generated_formula_wf`     the generated ASTs repeat no nullable body (the engine's fuel never truncates)

What stays differential: that the engine (+ its `findall`) and the translator reproduce CPython's `re` on ASCII text
(three-way `cut` / `spl` / `ofr` lines and the `fi` probe lines of the driver), and `str.title()` / `str(int)` / `int(str)`.
-/
namespace QcelVerif.Formula
open QcelVerif.Regex

/-- **`_shape` obligations** (all `rfl`: any edit of the patterns that changes CPython's parse tree, of the groups read,
or of the entry points breaks this line) -/
theorem formula_regex_shape :
    Gen.FormulaRegex.cut = cutShape ∧ Gen.FormulaRegex.split = splitShape ∧
    Gen.FormulaRegex.cutEntry = Entry.findall ∧ Gen.FormulaRegex.splitEntry = Entry.match ∧
    Gen.FormulaRegex.cutGroups = 0 ∧ Gen.FormulaRegex.splitGroups = 2 ∧
    Gen.FormulaRegex.nameGroup = 1 ∧ Gen.FormulaRegex.countGroup = 2 ∧
    Gen.FormulaRegex.cutPattern = toCodes "[A-Z][^A-Z]*".toList ∧
    Gen.FormulaRegex.splitPattern = toCodes "(\\D+)(\\d*)".toList :=
  ⟨rfl, rfl, rfl, rfl, rfl, rfl, rfl, rfl, by decide, by decide⟩

/-- the generated ASTs repeat no nullable body: `rep_fuel_irrelevant` applies to every repetition in them -/
theorem generated_formula_wf : Gen.FormulaRegex.cut.wf = true ∧ Gen.FormulaRegex.split.wf = true := by decide

/-! ### `re.findall(r"[A-Z][^A-Z]*", ·)` -/

theorem scan_cut_eq (n : Nat) : ∀ (l : List Char) (prev : Option Nat), l.length ≤ n →
    (scan cutShape 0 prev (toCodes l)).map (·.text) = (cutUpper l).2.map toCodes := by
  induction n with
  | zero =>
    intro l prev h
    have : l = [] := List.length_eq_zero_iff.1 (Nat.le_zero.1 h)
    subst this
    rw [show toCodes [] = [] from rfl, scan_cut_nil]; rfl
  | succ n ih =>
    intro l prev h
    cases l with
    | nil => rw [show toCodes [] = [] from rfl, scan_cut_nil]; rfl
    | cons c t =>
      rw [show toCodes (c :: t) = c.toNat :: toCodes t from rfl]
      have ht : t.length ≤ n := by simpa using h
      by_cases hc : isAsciiUpper c = true
      · have hcN : upN c.toNat = true := (cls_upper c).trans hc
        rw [scan_cut_upper _ _ _ hcN, cutUpper_upper c t hc, takeWhile_codes nupN _ cls_notUpper,
          dropWhile_codes nupN _ cls_notUpper]
        simp only [List.map_cons]
        rw [ih _ _ (Nat.le_trans (List.dropWhile_sublist _).length_le ht)]
        rfl
      · have hc' : isAsciiUpper c = false := bool_false_of_not hc
        have hcN : upN c.toNat = false := (cls_upper c).trans hc'
        rw [scan_cut_other _ _ _ hcN, cutUpper_other c t hc']
        exact ih t _ ht

/-- **`re.findall` on the generated pattern is the hand cut** — for every string: the engine's `findall` run on the AST
regenerated from the source returns exactly the chunks of `cutUpper`, in order (as code points) -/
theorem cutUpper_eq_findall (l : List Char) :
    Gen.FormulaRegex.cut.findall0 (toCodes l) = (cutUpper l).2.map toCodes := by
  rw [formula_regex_shape.1]
  unfold Re.findall0 Re.finditer
  exact scan_cut_eq l.length l none (Nat.le_refl _)

/-- the same on characters: `cutRe` (what `orderFormulaRe` runs) -/
theorem cutRe_eq (l : List Char) : cutRe l = (cutUpper l).2 := by
  unfold cutRe
  rw [cutUpper_eq_findall, List.map_map]
  conv => rhs; rw [← List.map_id (cutUpper l).2]
  apply List.map_congr_left
  intro m _
  exact ofCodes_toCodes m

/-- **the validity test**: `"".join(matches) == formula` holds exactly when the hand cut leaves no unmatched text in front -/
theorem cut_join_iff (l : List Char) : (cutRe l).flatten = l ↔ (cutUpper l).1 = [] := by
  rw [cutRe_eq]
  constructor
  · intro h
    have := cutUpper_join l
    rw [h] at this
    exact List.append_left_eq_self.1 this
  · intro h
    have := cutUpper_join l
    rw [h, List.nil_append] at this
    exact this

/-! ### `re.match(r"(\D+)(\d*)", ·)` -/

/-- **the groups of `re.match` on the generated pattern** — for every string: there is a match iff the text starts with a
non-digit; then group 1 is the leading run of non-digits and group 2 the run of digits that follows it (possibly empty) -/
theorem split_groups (m : List Char) :
    (Gen.FormulaRegex.split.matchPrefix (toCodes m)).map (fun st => (st.group 1, st.group 2)) =
      if m.takeWhile (fun c => !isAsciiDigit c) = [] then none
      else some (some (toCodes (m.takeWhile (fun c => !isAsciiDigit c))),
                 some (toCodes ((m.dropWhile (fun c => !isAsciiDigit c)).takeWhile isAsciiDigit))) := by
  rw [formula_regex_shape.2.1, matchPrefix_split, takeWhile_codes ndN _ cls_notDigit, dropWhile_codes ndN _ cls_notDigit,
    takeWhile_codes dN _ cls_digit]
  cases h : m.takeWhile (fun c => !isAsciiDigit c) with
  | nil => simp [toCodes]
  | cons a t => simp [toCodes, St.group, List.lookup]

/-- **`re.match` + the group reads on the generated pattern is the hand split** — for every string that starts with a
non-digit `splitCountRe = some ∘ splitCount`; for the others (empty, digit first) there is no match -/
theorem splitCount_eq_match (m : List Char) :
    splitCountRe m = if m.takeWhile (fun c => !isAsciiDigit c) = [] then none else some (splitCount m) := by
  unfold splitCountRe
  rw [formula_regex_shape.2.1, formula_regex_shape.2.2.2.2.2.2.1, formula_regex_shape.2.2.2.2.2.2.2.1,
    matchPrefix_split, takeWhile_codes ndN _ cls_notDigit, dropWhile_codes ndN _ cls_notDigit, takeWhile_codes dN _ cls_digit]
  cases h : m.takeWhile (fun c => !isAsciiDigit c) with
  | nil => simp [toCodes]
  | cons a t =>
    have hlen : 1 ≤ (toCodes (a :: t)).length := by simp [toCodes]
    rw [if_pos hlen, if_neg (by simp)]
    simp only [St.group, List.lookup, show ((2 : Nat) == 2) = true from rfl, show ((1 : Nat) == 2) = false from rfl,
      show ((1 : Nat) == 1) = true from rfl, Option.getD_some, ofCodes_toCodes]
    unfold splitCount
    rw [h]

/-- a chunk returned by `findall` starts with an upper-case letter, so `re.match` succeeds on it -/
theorem splitCountRe_chunk {m : List Char} (h : ∃ c body, m = c :: body ∧ isAsciiUpper c = true) :
    splitCountRe m = some (splitCount m) := by
  obtain ⟨c, body, rfl, hc⟩ := h
  rw [splitCount_eq_match, if_neg]
  simp [not_digit_of_upper hc]

/-- **`assert match_n` never fails**: on every chunk that `re.findall(<cut>, formula)` returns, for every formula
string, `re.match(<split>, chunk)` matches -/
theorem assert_never_fails (l : List Char) : ∀ m ∈ cutRe l, splitCountRe m ≠ none := by
  intro m hm
  rw [cutRe_eq] at hm
  rw [splitCountRe_chunk (cutUpper_chunk_head l m hm)]
  simp

theorem foldCountsRe_eq : ∀ (ms : List (List Char)) (acc : List (String × Nat)),
    (∀ m ∈ ms, ∃ c body, m = c :: body ∧ isAsciiUpper c = true) →
    foldCountsRe ms acc = .ok (ms.foldl (fun acc m => let (k, n) := splitCount m; addCount acc k n) acc)
  | [], _, _ => rfl
  | m :: ms, acc, h => by
      rw [foldCountsRe, splitCountRe_chunk (h m (List.mem_cons_self ..))]
      simp only [List.foldl_cons]
      exact foldCountsRe_eq ms _ (fun m' hm' => h m' (List.mem_cons_of_mem _ hm'))

/-- lines 23-34 through the generated regexes = the hand model's `parseCounts`, for every string -/
theorem parseCountsRe_eq (l : List Char) :
    parseCountsRe l = match parseCounts l with | some t => .ok t | none => .error .invalid := by
  unfold parseCountsRe parseCounts
  simp only
  have hj := cut_join_iff l
  rw [cutRe_eq] at hj ⊢
  cases hcu : cutUpper l with
  | mk pre ms =>
    rw [hcu] at hj
    simp only at hj ⊢
    by_cases hp : pre = []
    · have : ms.flatten = l := hj.2 hp
      subst hp
      simp only [this, bne_self_eq_false, Bool.false_eq_true, if_false, List.isEmpty_nil, Bool.not_true]
      have hch := cutUpper_chunk_head l
      rw [hcu] at hch
      exact foldCountsRe_eq ms [] hch
    · have hne : ms.flatten ≠ l := fun e => hp (hj.1 e)
      have hie : pre.isEmpty = false := by cases pre <;> simp_all
      simp [hne, hie]

/-- **`order_molecular_formula` through the source's own patterns is the hand model** — for EVERY formula string and
both orders: the model that runs the generic engine on the generated ASTs returns what the hand model returns; a `none` of
the hand model is the `ValueError` of line 25, and the `AssertionError` of line 29 is never raised -/
theorem orderFormulaRe_eq (formula : String) (ord : Order) :
    orderFormulaRe formula ord = match orderFormula formula ord with | some s => .ok s | none => .error .invalid := by
  unfold orderFormulaRe
  rw [parseCountsRe_eq, orderFormula_eq]
  cases parseCounts formula.toList <;> rfl

/-! ### the string-level theorems, restated over the generated regexes -/

/-- **parse ∘ render = id through the source's patterns.**  For every token list whose keys satisfy `KeyOK`, are pairwise
distinct, and whose counts are positive: `re.findall` / `re.match` (engine on the generated ASTs) and the dict fold applied
to the rendered string give exactly the element counts back, in the same order. -/
theorem parse_render_re (toks : List (String × Nat)) (hk : ∀ t ∈ toks, KeyOK t.1)
    (hpos : ∀ t ∈ toks, 0 < t.2) (hnd : (toks.map Prod.fst).Nodup) :
    parseCountsRe (render toks).toList = .ok toks := by
  rw [parseCountsRe_eq, parse_render toks hk hpos hnd]

/-- **`order_molecular_formula` (generated regexes) on a formula written by the library** — all symbol lists whose
title-cased forms are `WFSym`, both conventions `ord`, `ord'`: succeeds and equals the formula of the same symbols in `ord'` -/
theorem order_formula_of_formula_re (syms : List String) (ord ord' : Order) (hwf : ∀ s ∈ syms, WFSym (title s)) :
    orderFormulaRe (fromSymbols syms ord) ord' = .ok (fromSymbols syms ord') := by
  rw [orderFormulaRe_eq, order_formula_of_formula syms ord ord' hwf]

/-- **… for every list of periodic-table symbols** (no hypothesis left; the table is regenerated from the source) -/
theorem order_formula_periodic_re (syms : List String) (ord ord' : Order)
    (h : ∀ s ∈ syms, ∃ row ∈ Gen.PT.elements, s = PStr.toStr (PStr.unpack row.2.1)) :
    orderFormulaRe (fromSymbols syms ord) ord' = .ok (fromSymbols syms ord') := by
  rw [orderFormulaRe_eq, order_formula_periodic syms ord ord' h]

/-! non-vacuity and tests (concrete evaluations of the engine on the generated ASTs) -/

-- non-vacuity of `parse_render_re` / `order_formula_of_formula_re`: hypotheses met, conclusion computed by the engine model
example : (∀ t ∈ [("C", 2), ("H", 12), ("Cl", 1)], KeyOK t.1) ∧ (∀ t ∈ [("C", 2), ("H", 12), ("Cl", 1)], 0 < t.2) := by decide
#guard parseCountsRe (render [("C", 2), ("H", 12), ("Cl", 1), ("Uue", 3)]).toList == .ok [("C", 2), ("H", 12), ("Cl", 1), ("Uue", 3)]
#guard orderFormulaRe (fromSymbols ["h", "C", "cL", "H", "O", "HE"] .alphabetical) .hill == .ok (fromSymbols ["h", "C", "cL", "H", "O", "HE"] .hill)
-- non-vacuity of `order_formula_periodic_re`: the hypothesis is met by rows of the regenerated table (here chlorine)
example : ∃ row ∈ Gen.PT.elements, PStr.unpack row.2.1 = [67, 108] := ⟨Gen.PT.elements[17], List.getElem_mem _, by decide⟩
-- non-vacuity of `assert_never_fails` / `splitCountRe_chunk`: 'CH3(OH)' has chunks, each matched
#guard cutRe "CH3(OH)".toList == ["C".toList, "H3(".toList, "O".toList, "H)".toList]
#guard ("CH3(OH)".toList |> cutRe).map splitCountRe == [some ("C", 1), some ("H", 3), some ("O", 1), some ("H)", 1)]
-- tests: near-miss strings — lower-case first letter / digit first / empty are not valid formulas; the hand model agrees
#guard orderFormulaRe "cH4" .alphabetical == .error .invalid && orderFormula "cH4" .alphabetical == none
#guard orderFormulaRe "2H" .hill == .error .invalid && orderFormula "2H" .hill == none
#guard orderFormulaRe "" .hill == .ok "" && orderFormula "" .hill == some ""
#guard orderFormulaRe "CH3(OH)" .hill == .ok "CH3H)O" && orderFormula "CH3(OH)" .hill == some "CH3H)O"
-- tests: a digit-first / empty text has no `(\D+)(\d*)` match
#guard splitCountRe "12".toList == none && splitCountRe [] == none
-- tests of the generic findall, empty-match rule of CPython >= 3.7: re.findall('x*', 'ax') == ['', 'x', ''];
-- re.findall('x*', 'xa') == ['x', '', '']; re.findall('a|', 'ba') == ['', 'a', '']
example : (Re.rep 0 none true (.cls false [.ch 120])).findall0 [97, 120] = [[], [120], []] := by decide
example : (Re.rep 0 none true (.cls false [.ch 120])).findall0 [120, 97] = [[120], [], []] := by decide
example : (Re.alt (.cls false [.ch 97]) .eps).findall0 [98, 97] = [[], [97], []] := by decide
-- test: lazy `x*?` reports an empty match first, then (must_advance) the non-empty one at the same place: ['', 'x', '']
example : (Re.rep 0 none false (.cls false [.ch 120])).findall0 [120] = [[], [120], []] := by decide

end QcelVerif.Formula
