import QcelVerif.Model.RandRot
import QcelVerif.Lemmas.RotUnique
import Mathlib.Analysis.SpecialFunctions.Trigonometric.Basic
import Mathlib.Analysis.Real.Sqrt
/-!
# C12 — `random_rotation_matrix` returns a proper rotation (the generator behind `Molecule.scramble(do_rotate=True)`)

About the model `Model/RandRot.lean` of `qcelemental/util/np_rand3drot.py`.

* **`random_rotation_is_proper`**        `|v|² = 1`, `st² + ct² = 1` ⇒ `M = (2 v vᵀ − I)·R_z(θ)·R_z(π)` has `M Mᵀ = I` and
                                         `det M = +1` (any commutative ring)
* `random_rotation_is_proper_source`     the same in the source's normalisation `|V|² = 2`, `M = (V Vᵀ − I)·R·R_z(π)`
* `outerMinusOne_eq_householderNeg`      the two forms agree when `V = s·v`, `s² = 2`
* `poleVector_nrm2`                      the source's `V` has `|V|² = 2` as soon as `sin²φ + cos²φ = 1`, `r² = z`, `w² = 2 − z`
* **`randomRotationMatrix_proper`**      the whole function, for EVERY deflection and every three numbers, and every
                                         `sin`/`cos`/`sqrt`/`2π` satisfying the normalisation at the arguments used
* **`randomRotationMatrix_proper_real`** over ℝ with `Real.sin`, `Real.cos`, `Real.sqrt`, `2π`: proper rotation whenever
                                         `0 ≤ u3·2·deflection ≤ 2` — in particular for all `deflection, u3 ∈ [0, 1]`
                                         (`randomRotationMatrix_proper_unit_interval`), any `u1`, `u2`
* `randomRotationMatrix_deflection_zero` `deflection = 0` ⇒ the identity ("For 0, no rotation", docstring) — this is
                                         what the factor `R_z(π)` is for
* `improper_without_normalisation_example` (test) the normalisation is needed: `V = (1, 0, 0)` (|V|² = 1) gives a
                                         matrix that is not orthogonal
-/
namespace QcelVerif.RandRot
open QcelVerif.Kabsch
variable {K : Type}

section Ring
variable [CommRing K]

theorem rotZ_orth (st ct : K) (h : st ^ 2 + ct ^ 2 = 1) : (rotZ st ct).mul (rotZ st ct).transpose = M3.one := by
  ext <;> simp only [rotZ, M3.mul, M3.transpose, M3.one] <;> first
    | ring1
    | linear_combination h

theorem rotZ_det (st ct : K) (h : st ^ 2 + ct ^ 2 = 1) : (rotZ st ct).det = 1 := by
  simp only [rotZ, M3.det]; linear_combination h

theorem rotZpi_isRot : IsRot (rotZpi : M3 K) :=
  ⟨by ext <;> simp only [rotZpi, M3.mul, M3.transpose, M3.one] <;> ring, by simp only [rotZpi, M3.det]; ring⟩

theorem householderNeg_orth (v : V3 K) (hv : v.nrm2 = 1) :
    (householderNeg v).mul (householderNeg v).transpose = M3.one := by
  simp only [V3.nrm2] at hv
  ext <;> simp only [householderNeg, M3.mul, M3.transpose, M3.one]
  · linear_combination (4 * v.x * v.x) * hv
  · linear_combination (4 * v.x * v.y) * hv
  · linear_combination (4 * v.x * v.z) * hv
  · linear_combination (4 * v.y * v.x) * hv
  · linear_combination (4 * v.y * v.y) * hv
  · linear_combination (4 * v.y * v.z) * hv
  · linear_combination (4 * v.z * v.x) * hv
  · linear_combination (4 * v.z * v.y) * hv
  · linear_combination (4 * v.z * v.z) * hv

/-- `det(2 v vᵀ − I) = 2|v|² − 1`: `+1` for a unit vector (a half-turn, not a reflection) -/
theorem householderNeg_det (v : V3 K) : (householderNeg v).det = 2 * v.nrm2 - 1 := by
  simp only [householderNeg, M3.det, V3.nrm2]; ring

theorem householderNeg_isRot (v : V3 K) (hv : v.nrm2 = 1) : IsRot (householderNeg v) :=
  ⟨householderNeg_orth v hv, by rw [householderNeg_det, hv]; ring⟩

/-- **`|v|² = 1 → M Mᵀ = 1 ∧ det M = 1`** for `M = (2 v vᵀ − I)·R_z(θ)·R_z(π)`, `(st, ct)` any pair with
    `st² + ct² = 1` -/
theorem random_rotation_is_proper (v : V3 K) (st ct : K) (hv : v.nrm2 = 1) (ht : st ^ 2 + ct ^ 2 = 1) :
    (assembleUnit v st ct).mul (assembleUnit v st ct).transpose = M3.one ∧ (assembleUnit v st ct).det = 1 := by
  have h := ((householderNeg_isRot v hv).mul ⟨rotZ_orth st ct ht, rotZ_det st ct ht⟩).mul rotZpi_isRot
  exact ⟨h.orth, h.det⟩

theorem outerMinusOne_orth (V : V3 K) (hV : V.nrm2 = 2) :
    (outerMinusOne V).mul (outerMinusOne V).transpose = M3.one := by
  simp only [V3.nrm2] at hV
  ext <;> simp only [outerMinusOne, M3.mul, M3.transpose, M3.one]
  · linear_combination (V.x * V.x) * hV
  · linear_combination (V.x * V.y) * hV
  · linear_combination (V.x * V.z) * hV
  · linear_combination (V.y * V.x) * hV
  · linear_combination (V.y * V.y) * hV
  · linear_combination (V.y * V.z) * hV
  · linear_combination (V.z * V.x) * hV
  · linear_combination (V.z * V.y) * hV
  · linear_combination (V.z * V.z) * hV

/-- `det(V Vᵀ − I) = |V|² − 1` -/
theorem outerMinusOne_det (V : V3 K) : (outerMinusOne V).det = V.nrm2 - 1 := by
  simp only [outerMinusOne, M3.det, V3.nrm2]; ring

/-- the source's normalisation: `|V|² = 2` ("V has length sqrt(2) to eliminate the 2 in the Householder matrix") -/
theorem random_rotation_is_proper_source (V : V3 K) (st ct : K) (hV : V.nrm2 = 2) (ht : st ^ 2 + ct ^ 2 = 1) :
    (assemble V st ct).mul (assemble V st ct).transpose = M3.one ∧ (assemble V st ct).det = 1 := by
  have hH : IsRot (outerMinusOne V) := ⟨outerMinusOne_orth V hV, by rw [outerMinusOne_det, hV]; ring⟩
  have h := (hH.mul ⟨rotZ_orth st ct ht, rotZ_det st ct ht⟩).mul rotZpi_isRot
  exact ⟨h.orth, h.det⟩

/-- the two forms are the same matrix: `V = s·v` with `s² = 2` -/
theorem outerMinusOne_eq_householderNeg (v : V3 K) (s : K) (hs : s ^ 2 = 2) :
    outerMinusOne (V3.smul s v) = householderNeg v := by
  ext <;> simp only [outerMinusOne, householderNeg, V3.smul]
  · linear_combination (v.x * v.x) * hs
  · linear_combination (v.x * v.y) * hs
  · linear_combination (v.x * v.z) * hs
  · linear_combination (v.y * v.x) * hs
  · linear_combination (v.y * v.y) * hs
  · linear_combination (v.y * v.z) * hs
  · linear_combination (v.z * v.x) * hs
  · linear_combination (v.z * v.y) * hs
  · linear_combination (v.z * v.z) * hs

theorem assemble_eq_assembleUnit (v : V3 K) (s st ct : K) (hs : s ^ 2 = 2) :
    assemble (V3.smul s v) st ct = assembleUnit v st ct := by
  rw [assemble, assembleUnit, outerMinusOne_eq_householderNeg v s hs]

/-- `|V|² = (sin²φ + cos²φ)·r² + w² = z + (2 − z) = 2` -/
theorem poleVector_nrm2 (sp cp r w z : K) (hp : sp ^ 2 + cp ^ 2 = 1) (hr : r ^ 2 = z) (hw : w ^ 2 = 2 - z) :
    (poleVector sp cp r w).nrm2 = 2 := by
  simp only [poleVector, V3.nrm2]
  linear_combination (r ^ 2) * hp + hr + hw

end Ring

section Field
variable [Field K]

/-- **the whole function returns a proper rotation**: for every deflection and every three numbers, and every
    `sn`, `cs`, `sq`, `twoPi` that satisfy, at the arguments the source evaluates them at, the normalisation it relies
    on — `sin² + cos² = 1` at `θ` and `φ`, `sqrt(z)² = z`, `sqrt(2 − z)² = 2 − z` -/
theorem randomRotationMatrix_proper (sn cs sq : K → K) (twoPi deflection u1 u2 u3 : K)
    (hθ : sn ((u1 - 1 / 2) * deflection * twoPi) ^ 2 + cs ((u1 - 1 / 2) * deflection * twoPi) ^ 2 = 1)
    (hφ : sn (u2 * twoPi) ^ 2 + cs (u2 * twoPi) ^ 2 = 1)
    (hz : sq (u3 * 2 * deflection) ^ 2 = u3 * 2 * deflection)
    (hw : sq (2 - u3 * 2 * deflection) ^ 2 = 2 - u3 * 2 * deflection) :
    (randomRotationMatrix sn cs sq twoPi deflection u1 u2 u3).mul
        (randomRotationMatrix sn cs sq twoPi deflection u1 u2 u3).transpose = M3.one
      ∧ (randomRotationMatrix sn cs sq twoPi deflection u1 u2 u3).det = 1 := by
  simp only [randomRotationMatrix]
  exact random_rotation_is_proper_source _ _ _ (poleVector_nrm2 _ _ _ _ _ hφ hz hw) hθ

/-- `deflection = 0` gives the identity ("For 0, no rotation"): `θ = 0`, `z = 0`, `V = (0, 0, √2)`,
    `V Vᵀ − I = diag(−1, −1, 1)`, and the factor `R_z(π)` turns that into `I` -/
theorem randomRotationMatrix_deflection_zero (sn cs sq : K → K) (twoPi u1 u2 u3 : K)
    (hs0 : sn 0 = 0) (hc0 : cs 0 = 1) (hq0 : sq 0 = 0) (hq2 : sq 2 ^ 2 = 2) :
    randomRotationMatrix sn cs sq twoPi 0 u1 u2 u3 = M3.one := by
  simp only [randomRotationMatrix, mul_zero, zero_mul, sub_zero, hs0, hc0, hq0]
  ext <;> simp only [assemble, outerMinusOne, poleVector, rotZ, rotZpi, M3.mul, M3.one] <;> first
    | ring1
    | linear_combination hq2

end Field

/-! ## over ℝ with the real functions -/

/-- **over ℝ**: `random_rotation_matrix(deflection, randnums = (u1, u2, u3))` with the real `sin`, `cos`, `sqrt` and
    `2π` is a proper rotation whenever `0 ≤ z = u3·2·deflection ≤ 2` (the domain of the two square roots) -/
theorem randomRotationMatrix_proper_real (deflection u1 u2 u3 : ℝ)
    (h0 : 0 ≤ u3 * 2 * deflection) (h2 : u3 * 2 * deflection ≤ 2) :
    (randomRotationMatrix Real.sin Real.cos Real.sqrt (2 * Real.pi) deflection u1 u2 u3).mul
        (randomRotationMatrix Real.sin Real.cos Real.sqrt (2 * Real.pi) deflection u1 u2 u3).transpose = M3.one
      ∧ (randomRotationMatrix Real.sin Real.cos Real.sqrt (2 * Real.pi) deflection u1 u2 u3).det = 1 :=
  randomRotationMatrix_proper Real.sin Real.cos Real.sqrt (2 * Real.pi) deflection u1 u2 u3
    (Real.sin_sq_add_cos_sq _) (Real.sin_sq_add_cos_sq _) (Real.sq_sqrt h0) (Real.sq_sqrt (by linarith))

/-- in particular for every `deflection ∈ [0, 1]` and every `u3 ∈ [0, 1]` (`u1`, `u2` arbitrary): the quantifier
    of `Molecule.scramble(deflection=…)` -/
theorem randomRotationMatrix_proper_unit_interval (deflection u1 u2 u3 : ℝ)
    (hd0 : 0 ≤ deflection) (hd1 : deflection ≤ 1) (hu0 : 0 ≤ u3) (hu1 : u3 ≤ 1) :
    (randomRotationMatrix Real.sin Real.cos Real.sqrt (2 * Real.pi) deflection u1 u2 u3).mul
        (randomRotationMatrix Real.sin Real.cos Real.sqrt (2 * Real.pi) deflection u1 u2 u3).transpose = M3.one
      ∧ (randomRotationMatrix Real.sin Real.cos Real.sqrt (2 * Real.pi) deflection u1 u2 u3).det = 1 := by
  apply randomRotationMatrix_proper_real
  · positivity
  · nlinarith

/-- over ℝ, `deflection = 0` is the identity -/
theorem randomRotationMatrix_deflection_zero_real (u1 u2 u3 : ℝ) :
    randomRotationMatrix Real.sin Real.cos Real.sqrt (2 * Real.pi) 0 u1 u2 u3 = M3.one :=
  randomRotationMatrix_deflection_zero _ _ _ _ _ _ _ Real.sin_zero Real.cos_zero Real.sqrt_zero
    (Real.sq_sqrt (by norm_num))

-- non-vacuity (test) of `random_rotation_is_proper` / `_source` at ℚ: v = (2/3, 1/3, 2/3), (st, ct) = (3/5, 4/5);
-- V = (1, 1, 0) has |V|² = 2
example : (⟨2 / 3, 1 / 3, 2 / 3⟩ : V3 ℚ).nrm2 = 1 ∧ ((3 : ℚ) / 5) ^ 2 + (4 / 5) ^ 2 = 1
    ∧ (⟨1, 1, 0⟩ : V3 ℚ).nrm2 = 2 := by
  refine ⟨by simp only [V3.nrm2]; norm_num, by norm_num, by simp only [V3.nrm2]; norm_num⟩

-- non-vacuity (test) of `randomRotationMatrix_proper` at ℚ with genuinely non-trivial parameters: "sin/cos"
-- the constant pair (3/5, 4/5), "sqrt" the function that is exact on the two arguments used (z = 1: u3 = 1/2, deflection = 1)
example :
    let sn : ℚ → ℚ := fun _ => 3 / 5
    let cs : ℚ → ℚ := fun _ => 4 / 5
    let sq : ℚ → ℚ := fun _ => 1
    sn ((1 / 3 - 1 / 2) * 1 * 6) ^ 2 + cs ((1 / 3 - 1 / 2) * 1 * 6) ^ 2 = 1
      ∧ sq ((1 / 2 : ℚ) * 2 * 1) ^ 2 = (1 / 2 : ℚ) * 2 * 1 ∧ sq (2 - (1 / 2 : ℚ) * 2 * 1) ^ 2 = 2 - (1 / 2 : ℚ) * 2 * 1 := by
  refine ⟨by norm_num, by norm_num, by norm_num⟩

/-- (test) the normalisation is needed: with `V = (1, 0, 0)` (`|V|² = 1 ≠ 2`) the matrix `V Vᵀ − I = diag(0, −1, −1)`
    is singular, so `M` is not a rotation -/
theorem improper_without_normalisation_example : (assemble (⟨1, 0, 0⟩ : V3 ℚ) 0 1).det = 0 := by
  simp only [assemble, outerMinusOne, rotZ, rotZpi, M3.mul, M3.det]; norm_num

end QcelVerif.RandRot
