import QcelVerif.Props.C10
import QcelVerif.Lemmas.SerializeRoundtrip
/-!
# C10 — msgpack-ext byte-stream round trip over whole payload trees (FULL strength)

Completes `msgpack_roundtrip_partial` of `Props/C10.lean`: for every value tree `v` that msgpack can hold,
`mpDecode (mpEnc v) = .ok v` — the decoder (object hook included) reads back exactly the tree that was written, ndarray
leaves come back as ndarray leaves with the same dtype, shape and bytes — and re-serialising what was read gives the
identical payload. No bound on depth, width or sizes other than the limits of the wire format itself.

Manifest: `mpDec_mpEnc_prefix`, `msgpack_roundtrip`, `reserialise_identical`, `wellFormed_nd_iff`,
`hook_keeps_map_iff` (the `_nd_` side condition is necessary, not only sufficient).
-/
namespace QcelVerif.Ser

/-! ## the side conditions -/

/-- decidable form of `ndWF`: rank ≥ 1, known non-zero itemsize, `len(data) = itemsize · ∏ shape` -/
def ndOK (dt : Bytes) (shape : List Nat) (data : Bytes) : Bool :=
  decide (1 ≤ shape.length) &&
    match itemsize dt with
    | some isz => decide (0 < isz) && decide (data.length = isz * prodL shape)
    | none => false

theorem ndOK_iff (dt : Bytes) (shape : List Nat) (data : Bytes) :
    ndOK dt shape data = true ↔ ndWF dt shape data := by
  unfold ndOK ndWF
  cases h : itemsize dt with
  | none => simp
  | some isz => simp

mutual
  /-- `wf v`: what the wire format can hold and the reader maps back to the same tree.
  * ints in −2^63 … 2^64−1 (msgpack's int64 ∪ uint64; anything else makes `msgpack.dumps` raise OverflowError)
  * float payloads exactly 8 bytes
  * str / bin / array / map lengths < 2^32 (the widest length field)
  * a user map has no `bytes` key `b"_nd_"` (the hook treats every such map as an array envelope)
  * ndarray leaves: rank ≥ 1 and `len(data) = itemsize · ∏ shape` (`ndWF`), dtype string / data / rank < 2^32, each
    extent < 2^64 -/
  def wf : Val → Bool
    | .nil => true
    | .bool _ => true
    | .int i => decide (-9223372036854775808 ≤ i) && decide (i < 18446744073709551616)
    | .f64 b => decide (b.length = 8)
    | .str s => decide (s.length < 4294967296)
    | .bin b => decide (b.length < 4294967296)
    | .arr l => decide (l.length < 4294967296) && wfL l
    | .map l => decide (l.length < 4294967296) && (lookupBin "_nd_" l).isNone && wfP l
    | .nd dt shape data =>
        ndOK dt shape data && decide (dt.length < 4294967296) && decide (data.length < 4294967296)
          && decide (shape.length < 4294967296) && shape.all (fun n => decide (n < 18446744073709551616))
  def wfL : List Val → Bool
    | [] => true
    | v :: t => wf v && wfL t
  def wfP : List (Val × Val) → Bool
    | [] => true
    | (k, v) :: t => wf k && wf v && wfP t
end

/-- the quantifier of the round-trip theorems -/
def WellFormed (v : Val) : Prop := wf v = true

instance : DecidablePred WellFormed := fun v => inferInstanceAs (Decidable (wf v = true))

/-- what `WellFormed` says of an ndarray leaf, in terms of the model's `ndWF` -/
theorem wellFormed_nd_iff (dt : Bytes) (shape : List Nat) (data : Bytes) :
    WellFormed (.nd dt shape data) ↔
      ndWF dt shape data ∧ dt.length < 4294967296 ∧ data.length < 4294967296 ∧ shape.length < 4294967296 ∧
        ∀ n ∈ shape, n < 18446744073709551616 := by
  unfold WellFormed
  rw [wf]
  simp only [Bool.and_eq_true, ndOK_iff, decide_eq_true_eq, List.all_eq_true, and_assoc]

/-- the hook leaves a decoded map alone exactly when it has no `b"_nd_"` key: the side condition on user maps is
necessary as well as sufficient -/
theorem hook_keeps_map_iff (l : List (Val × Val)) : mpHook l = .ok (.map l) ↔ lookupBin "_nd_" l = none := by
  constructor
  · intro h
    cases hk : lookupBin "_nd_" l with
    | none => rfl
    | some x =>
      exfalso
      unfold mpHook at h
      rw [hk] at h
      simp only [] at h
      repeat' split at h
      all_goals first | exact absurd h (by simp) | skip
  · intro h
    unfold mpHook
    rw [h]

/-! ## decode one value from a prefix of the stream -/

mutual
  theorem dec_enc : ∀ (v : Val), wf v = true → ∀ (fuel : Nat) (rest : Bytes), (mpEnc v).length ≤ fuel →
      mpDec fuel (mpEnc v ++ rest) = .ok (v, rest)
    | .nil, _, fuel, rest, hf => by
      rw [mpEnc] at hf ⊢
      have hf' : 1 ≤ fuel := hf
      obtain ⟨f, rfl⟩ : ∃ f, fuel = f + 1 := ⟨fuel - 1, by omega⟩
      exact dec_nil f rest
    | .bool b, _, fuel, rest, hf => by
      cases b
      · rw [mpEnc] at hf ⊢
        have hf' : 1 ≤ fuel := hf
        obtain ⟨f, rfl⟩ : ∃ f, fuel = f + 1 := ⟨fuel - 1, by omega⟩
        exact dec_false f rest
      · rw [mpEnc] at hf ⊢
        have hf' : 1 ≤ fuel := hf
        obtain ⟨f, rfl⟩ : ∃ f, fuel = f + 1 := ⟨fuel - 1, by omega⟩
        exact dec_true f rest
    | .int i, h, fuel, rest, hf => by
      have ⟨h1, h2⟩ : -9223372036854775808 ≤ i ∧ i < 18446744073709551616 := by
        rw [wf] at h; simpa using h
      rw [mpEnc] at hf ⊢
      have hp := mpInt_length_pos i
      obtain ⟨f, rfl⟩ : ∃ f, fuel = f + 1 := ⟨fuel - 1, by omega⟩
      exact dec_int f i rest h1 h2
    | .f64 b, h, fuel, rest, hf => by
      have hb : b.length = 8 := by rw [wf] at h; simpa using h
      rw [mpEnc] at hf ⊢
      rw [List.length_cons] at hf
      obtain ⟨f, rfl⟩ : ∃ f, fuel = f + 1 := ⟨fuel - 1, by omega⟩
      rw [List.cons_append]
      exact dec_f64 f b rest hb
    | .str s, h, fuel, rest, hf => by
      have hs : s.length < 4294967296 := by rw [wf] at h; simpa using h
      rw [mpEnc] at hf ⊢
      rw [List.length_append] at hf
      have hp := mpStrHead_length_pos s.length
      obtain ⟨f, rfl⟩ : ∃ f, fuel = f + 1 := ⟨fuel - 1, by omega⟩
      rw [List.append_assoc]
      exact dec_str f _ s rest rfl hs
    | .bin b, h, fuel, rest, hf => by
      have hb : b.length < 4294967296 := by rw [wf] at h; simpa using h
      rw [mpEnc] at hf ⊢
      rw [List.length_append] at hf
      have hp := mpBinHead_length_pos b.length
      obtain ⟨f, rfl⟩ : ∃ f, fuel = f + 1 := ⟨fuel - 1, by omega⟩
      rw [List.append_assoc]
      exact dec_bin f _ b rest rfl hb
    | .arr l, h, fuel, rest, hf => by
      have ⟨hlen, hl⟩ : l.length < 4294967296 ∧ wfL l = true := by rw [wf] at h; simpa using h
      rw [mpEnc] at hf ⊢
      rw [List.length_append] at hf
      have hp := mpArrHead_length_pos l.length
      obtain ⟨f, rfl⟩ : ∃ f, fuel = f + 1 := ⟨fuel - 1, by omega⟩
      rw [List.append_assoc, dec_arrHead f _ _ hlen]
      exact arrOf_ok (dec_encL l hl f rest (by omega))
    | .map l, h, fuel, rest, hf => by
      have ⟨⟨hlen, hk⟩, hl⟩ : (l.length < 4294967296 ∧ lookupBin "_nd_" l = none) ∧ wfP l = true := by
        rw [wf] at h; simpa using h
      rw [mpEnc] at hf ⊢
      rw [List.length_append] at hf
      have hp := mpMapHead_length_pos l.length
      obtain ⟨f, rfl⟩ : ∃ f, fuel = f + 1 := ⟨fuel - 1, by omega⟩
      rw [List.append_assoc, dec_mapHead f _ _ hlen]
      exact mapOf_ok (dec_encP l hl f rest (by omega)) ((hook_keeps_map_iff l).2 hk)
    | .nd dt shape data, h, fuel, rest, hf => by
      obtain ⟨hwf, hdt, hdata, hrank, hdims⟩ := (wellFormed_nd_iff dt shape data).1 h
      have hp := mpEnc_nd_length dt shape data
      obtain ⟨f, rfl⟩ : ∃ f, fuel = f + 3 := ⟨fuel - 3, by omega⟩
      rw [mpEnc_nd_eq, List.append_assoc, dec_mapHead (f + 2) _ _ (ndList_length_lt dt shape data)]
      exact mapOf_ok (dec_ndPairs f dt data shape rest hdt hdata hrank hdims)
        (ext_envelope_roundtrip_msgpack dt data shape hwf _ (ndEnvelope_eq dt shape data))
  theorem dec_encL : ∀ (l : List Val), wfL l = true → ∀ (fuel : Nat) (rest : Bytes), (mpEncL l).length ≤ fuel →
      mpDecL fuel l.length (mpEncL l ++ rest) = .ok (l, rest)
    | [], _, fuel, rest, _ => by
      rw [mpEncL]
      exact mpDecL_zero _ _
    | v :: t, h, fuel, rest, hf => by
      have ⟨hv, ht⟩ : wf v = true ∧ wfL t = true := by rw [wfL] at h; simpa using h
      rw [mpEncL] at hf ⊢
      rw [List.length_append] at hf
      rw [List.append_assoc, List.length_cons]
      exact mpDecL_cons_ok (dec_enc v hv fuel _ (by omega)) (dec_encL t ht fuel rest (by omega))
  theorem dec_encP : ∀ (l : List (Val × Val)), wfP l = true → ∀ (fuel : Nat) (rest : Bytes),
      (mpEncP l).length ≤ fuel → mpDecP fuel l.length (mpEncP l ++ rest) = .ok (l, rest)
    | [], _, fuel, rest, _ => by
      rw [mpEncP]
      exact mpDecP_zero _ _
    | (k, v) :: t, h, fuel, rest, hf => by
      have ⟨⟨hk, hv⟩, ht⟩ : (wf k = true ∧ wf v = true) ∧ wfP t = true := by rw [wfP] at h; simpa using h
      rw [mpEncP] at hf ⊢
      rw [List.length_append, List.length_append] at hf
      rw [List.append_assoc, List.append_assoc, List.length_cons]
      exact mpDecP_cons_ok (dec_enc k hk fuel _ (by omega)) (dec_enc v hv fuel _ (by omega))
        (dec_encP t ht fuel rest (by omega))
end

/-! ## the property theorems -/

/-- **decode one value from a prefix**: on the bytes of a well-formed tree followed by anything, one decoding step with
at least `len(bytes)` fuel returns exactly that tree and exactly the rest of the stream -/
theorem mpDec_mpEnc_prefix (v : Val) (h : WellFormed v) (fuel : Nat) (rest : Bytes)
    (hf : (mpEnc v).length ≤ fuel) : mpDec fuel (mpEnc v ++ rest) = .ok (v, rest) :=
  dec_enc v h fuel rest hf

/-- **msgpack-ext round trip over whole trees**: `msgpack.loads(msgpack.dumps(v, default=msgpackext_encode),
object_hook=msgpackext_decode)` is `v` — scalars, strings, bytes, lists and dicts nested at any depth come back
unchanged and every ndarray leaf comes back as an ndarray with the same dtype, shape and bytes. The fuel `mpDecode`
derives from the input length (`len + 1`) suffices, and no trailing bytes are left. -/
theorem msgpack_roundtrip : ∀ v : Val, WellFormed v → mpDecode (mpEnc v) = .ok v := by
  intro v h
  have hd := dec_enc v h ((mpEnc v).length + 1) [] (by omega)
  rw [List.append_nil] at hd
  unfold mpDecode
  rw [hd]

/-- **re-serialising what was read back gives the identical payload** -/
theorem reserialise_identical (v v' : Val) (h : WellFormed v) (hd : mpDecode (mpEnc v) = .ok v') :
    mpEnc v' = mpEnc v := by
  rw [msgpack_roundtrip v h] at hd
  cases hd
  rfl

/-! ## non-vacuity -/

/-- a payload shaped like a model dump: a (2,3) float64 geometry, a list mixing int16 / uint32 / float / nil / bool
scalars, and a dict under a `bytes` key holding an int-keyed empty bool array two levels down -/
def exampleTree : Val :=
  .map [(.str (asciiBytes "geometry"), .nd (asciiBytes "<f8") [2, 3] (List.replicate 48 0x11)),
        (.str (asciiBytes "n"),
          .arr [.int (-129), .int 70000, .f64 [0x40, 0x09, 0x21, 0xfb, 0x54, 0x44, 0x2d, 0x18], .nil, .bool true]),
        (.bin [1, 2, 3], .map [(.int 5, .nd (asciiBytes "|b1") [0] [])])]

/-- non-vacuity: the hypotheses of `msgpack_roundtrip` hold of a nested tree with two ndarray leaves … -/
example : WellFormed exampleTree := by decide

/-- … so it round-trips through the byte stream and re-serialises identically -/
example : mpDecode (mpEnc exampleTree) = .ok exampleTree := msgpack_roundtrip _ (by decide)
example (v' : Val) (hd : mpDecode (mpEnc exampleTree) = .ok v') : mpEnc v' = mpEnc exampleTree :=
  reserialise_identical _ _ (by decide) hd

/-- non-vacuity at the width boundaries: the extreme ints, and a rank-1 array (no `shape` key in its envelope) -/
example : WellFormed (.arr [.int (-9223372036854775808), .int 18446744073709551615,
    .nd (asciiBytes ">i4") [2] [0, 0, 0, 1, 0, 0, 0, 2]]) := by decide

/-- the side conditions bite: one past either end of the integer range, a 7-byte float payload, a user dict with a
`b"_nd_"` key, a rank-0 array and an array whose buffer does not match its shape are all outside `WellFormed` -/
example : ¬ WellFormed (.int 18446744073709551616) := by decide
example : ¬ WellFormed (.int (-9223372036854775809)) := by decide
example : ¬ WellFormed (.f64 [0, 0, 0, 0, 0, 0, 0]) := by decide
example : ¬ WellFormed (.map [(.bin (asciiBytes "_nd_"), .nil)]) := by decide
example : ¬ WellFormed (.nd (asciiBytes "<f8") [] [0, 0, 0, 0, 0, 0, 0, 0]) := by decide
example : ¬ WellFormed (.nd (asciiBytes "<f8") [2] [0, 0, 0, 0, 0, 0, 0, 0]) := by decide

/-- TEST (concrete): the bytes of a small tree — fixarray(2), int16 −129, fixstr "a" -/
example : mpEnc (.arr [.int (-129), .str [0x61]]) = [0x92, 0xd1, 0xff, 0x7f, 0xa1, 0x61] := by decide

end QcelVerif.Ser
