import QcelVerif.Model.CodataBuild
import QcelVerif.Gen.Codata2014
/-! C02 table theorems, CODATA 2014 (kernel evaluation over the generated tables; re-checked whenever
the data files change). -/
namespace QcelVerif.Codata
open QcelVerif
set_option maxRecDepth 100000

/-- **The shipped 2014 table is NIST's published ASCII table** (`raw_data/nist_data/codata-2014.txt`):
row for row, in order, none missing or extra — key = lower-cased name, same name, same value text
after deleting blanks and the `...` of exact values (hence the same Decimal digits and exponent),
same uncertainty text, unit equal up to `{}` exponent markup. -/
theorem shipped_eq_nist_2014 :
    tableMatchesTxt Gen.Codata2014.shipped Gen.Codata2014.raw = true := by decide +kernel

/-- test (not a property): the table is not empty — 335 rows -/
example : Gen.Codata2014.shipped.length = 335 := by decide +kernel

end QcelVerif.Codata
