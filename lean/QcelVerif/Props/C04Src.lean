import QcelVerif.Props.C04
import QcelVerif.Gen.FromArraysSrc
/-!
# C04 — the validation LOGIC of three stage functions, regenerated from the source

`harness/c04_src.py` reads the bodies of `validate_and_fill_geometry`, `validate_and_fill_nuclei` and
`validate_and_fill_fragments` (qcelemental/molparse/from_arrays.py) by `ast` and emits them as terms
(`Gen/FromArraysSrc.lean`: `Gen.geomFn`, `Gen.nucFn`, `Gen.fragFn`) of the small syntax of `Model/FromArraysAst.lean`.
This file proves, for ALL inputs (any number of atoms, any arrays, any separators, any reconciler):

  * `evalGeom_eq`       evaluator at `Gen.geomFn`  = hand model `validateGeometry`
  * `evalNuclei_eq`     evaluator at `Gen.nucFn`   = hand model `validateNuclei`
  * `evalFragments_eq`  evaluator at `Gen.fragFn`  = hand model `validateFragments`
  * `fromArraysWith_eq` / `fromSchemaWith_eq`  the pipeline with the three source-derived stages = `fromArrays` / `fromSchema`

and restates the headline theorems of `Props/C04.lean` over the source-derived pipeline (`…_src`).

PROPERTY-THEOREMS:
  translation_ok  evalGeom_eq  evalNuclei_eq  evalFragments_eq  fromArraysWith_eq  fromSchemaWith_eq
  from_arrays_inv_src  from_arrays_idempotent_src  refuses_geom_not_3n_src  refuses_too_close_src
  refuses_length_mismatch_src  refuses_bad_separators_src  refuses_fragment_length_mismatch_src
  src_fragments_partition  src_exact_threshold_accepted  src_sum_test_redundant

-- FULL (not reached here): the remaining stage functions (`validate_and_fill_units`, `validate_and_fill_frame`,
--   `from_arrays`' own dispatch on `domain` / `missing_enabled_return`, the chgmult call with `Z·real`) are still the hand
--   model inside `fromArraysWith`; numpy's `reshape`, `einsum`, `np.split`, `np.asarray` are given their meaning by the
--   evaluator (`rows3`, `dist2`, `npSplit`, lists), not derived from numpy.
-/
namespace QcelVerif.FromArrays
open Src

theorem geom_hits (tc : Rat) : ∀ rows : List R3,
    (pairHits Gen.geomFn (tc * tc) rows).isEmpty = !anyTooClose tc rows
  | [] => rfl
  | p :: t => by
    have ih := geom_hits tc t
    by_cases h : t.any (fun q => decide (dist2 p q < tc * tc)) = true
    · have hne : (t.filter (fun q => decide (dist2 p q < tc * tc))) ≠ [] := by
        intro h0
        rw [List.filter_eq_nil_iff] at h0
        obtain ⟨x, hx, hc⟩ := List.any_eq_true.1 h
        exact h0 x hx hc
      simp [pairHits, Gen.geomFn, Cmp.holds, anyTooClose, h, hne]
    · simp only [Bool.not_eq_true] at h
      simp [pairHits, Gen.geomFn, Cmp.holds, anyTooClose, h]
      exact ih

/-- **Source tie, geometry.** -/
theorem evalGeom_eq (tc : Rat) (g : List Rat) : evalGeom Gen.geomFn tc g = validateGeometry tc g := by
  unfold evalGeom validateGeometry
  cases rows3 g with
  | none => simp [Gen.geomFn]
  | some rows =>
    have : powR tc Gen.geomFn.metricPow = tc * tc := rfl
    simp only [this, geom_hits]
    cases anyTooClose tc rows <;> simp [Gen.geomFn]

/-! ## nuclei -/

theorem map_minusOne_id : ∀ l : List (Option Int), l.contains (some (-1)) = false →
    l.map (fun a => if a = some (-1) then none else a) = l
  | [], _ => rfl
  | a :: t, h => by
    simp only [List.contains_cons, Bool.or_eq_false_iff] at h
    have ha : ¬ a = some (-1) := by
      intro h0; subst h0; simp at h
    simp only [List.map_cons, ha, if_false]
    rw [map_minusOne_id t h.2]

theorem normMinusOne_true (l : List (Option Int)) : normMinusOne true l = eleaNorm l := by
  unfold normMinusOne eleaNorm
  cases h : l.contains (some (-1))
  · simp only [Bool.and_false, Bool.false_eq_true, if_false]
    exact (map_minusOne_id l h).symm
  · simp

theorem normMinusOne_false (l : List (Option Int)) : normMinusOne false l = l := by
  simp [normMinusOne]

theorem eleaNorm_replicate (n : Nat) : eleaNorm (List.replicate n none) = List.replicate n none := by
  simp [eleaNorm]

theorem srcArrays_eq (nat : Nat) (i : Inp) : srcArrays Gen.nucFn nat i = nucArrays nat i := by
  have h1 : Gen.nucFn.minusOne .elea = true := by decide
  have h2 : Gen.nucFn.minusOne .elez = false := by decide
  unfold srcArrays nucArrays
  rw [h1, h2]
  congr 1
  · cases i.elea with
    | none => simp [fillInt, fillNone, eleaNorm_replicate]
    | some l => simp [fillInt, fillNone, normMinusOne_true]
  · cases i.elez with
    | none => rfl
    | some l => simp [fillInt, fillNone, normMinusOne_false]

theorem reconLoop_eq (rc : Clue → Except Err Nuc) : ∀ (n : Nat) (a z : List (Option Int)) (e : List (Option String))
    (m : List (Option Rat)) (r : List (Option Bool)) (l : List (Option String)),
    a.length = n → z.length = n → e.length = n → m.length = n → r.length = n → l.length = n →
    reconLoop rc n a z e m r l = mapE rc (clues a z e m r l)
  | 0, a, z, e, m, r, l, ha, hz, he, hm, hr, hl => by
    cases a <;> simp_all [reconLoop, clues, mapE]
  | n + 1, a, z, e, m, r, l, ha, hz, he, hm, hr, hl => by
    cases a with | nil => simp at ha | cons a as =>
    cases z with | nil => simp at hz | cons z zs =>
    cases e with | nil => simp at he | cons e es =>
    cases m with | nil => simp at hm | cons m ms =>
    cases r with | nil => simp at hr | cons r rs =>
    cases l with | nil => simp at hl | cons l ls =>
    simp only [List.length_cons, Nat.add_right_cancel_iff] at ha hz he hm hr hl
    simp only [reconLoop, clues, mapE]
    rw [reconLoop_eq rc n as zs es ms rs ls ha hz he hm hr hl]
    cases rc { A := a, Z := z, E := e, mass := m, real := r, label := l } with
    | error _ => rfl
    | ok b => cases mapE rc (clues as zs es ms rs ls) <;> rfl

theorem evalNBody_eq (rc : Clue → Except Err Nuc) (nat : Nat) (a : NucArrays) :
    evalNBody rc nat a Gen.nucFn.body none =
      if a.elea.length = nat ∧ a.elez.length = nat ∧ a.elem.length = nat ∧
         a.mass.length = nat ∧ a.real.length = nat ∧ a.elbl.length = nat then
        mapE rc (clues a.elea a.elez a.elem a.mass a.real a.elbl)
      else .error .validation := by
  by_cases h : a.elea.length = nat ∧ a.elez.length = nat ∧ a.elem.length = nat ∧
         a.mass.length = nat ∧ a.real.length = nat ∧ a.elbl.length = nat
  · rw [if_pos h]
    obtain ⟨h1, h2, h3, h4, h5, h6⟩ := h
    have hl := reconLoop_eq rc nat a.elea a.elez a.elem a.mass a.real a.elbl h1 h2 h3 h4 h5 h6
    cases hn : nat with
    | zero =>
      subst hn
      rw [List.length_eq_zero_iff] at h1 h2 h3 h4 h5 h6
      simp [Gen.nucFn, evalNBody, termLen, lenOf, chainEq, h1, h2, h3, h4, h5, h6, clues, mapE]
    | succ k =>
      subst hn
      simp only [Gen.nucFn, evalNBody, termLen, lenOf, chainEq, List.map_cons, List.map_nil, h1, h2, h3, h4, h5, h6,
        beq_self_eq_true, Bool.and_self, Bool.false_and, Bool.false_eq_true, if_false, if_true, Bool.true_and]
      rw [hl]
      simp
      cases mapE rc (clues a.elea a.elez a.elem a.mass a.real a.elbl) <;> rfl
  · rw [if_neg h]
    have hc : chainEq [nat, a.elea.length, a.elez.length, a.elem.length, a.mass.length, a.real.length, a.elbl.length] = false := by
      cases hb : chainEq [nat, a.elea.length, a.elez.length, a.elem.length, a.mass.length, a.real.length, a.elbl.length]
      · rfl
      · exfalso
        simp only [chainEq, Bool.and_true, Bool.and_eq_true, beq_iff_eq] at hb
        apply h
        omega
    simp [Gen.nucFn, evalNBody, termLen, lenOf, hc]

/-- **Source tie, nuclei.** -/
theorem evalNuclei_eq (rc : Reconciler) (nat : Nat) (i : Inp) :
    evalNuclei Gen.nucFn rc nat i = validateNuclei rc nat i := by
  unfold evalNuclei validateNuclei
  rw [srcArrays_eq, evalNBody_eq]

/-! ## fragments -/

theorem chain3 (a b c : Nat) : (¬a = b ∨ ¬b = c) ↔ ¬(a = c ∧ b = c) := by omega

set_option linter.unusedSimpArgs false in
/-- **Source tie, fragments.** -/
theorem evalFragments_eq (nat : Nat) (seps : Option (List Int)) (fc fm : Option (List (Option Int))) :
    evalFragments Gen.fragFn nat seps fc fm = validateFragments nat seps fc fm := by
  cases seps with
  | none =>
    cases fc <;> cases fm <;>
      simp [evalFragments, Gen.fragFn, evalFS, evalFB, evalFI, evalFL, argIsNone, validateFragments, chainEq]
  | some s =>
    simp only [evalFragments, Gen.fragFn, evalFS, evalFB, evalFI, evalFL, argIsNone, validateFragments]
    generalize npSplit (List.replicate nat ()) s = P
    rcases Nat.eq_zero_or_pos nat with h2 | h2
    · subst h2
      by_cases h1 : [] ∈ P <;>
      by_cases h3 : (List.map List.length P).sum = 0 <;>
      by_cases h4 : P.length = s.length + 1 <;>
      cases fc with
      | none =>
        cases fm with
        | none => simp [chainEq, evalFI, evalFB, evalFS, evalFL, argIsNone, h1, h3, h4, chain3]
        | some m =>
          by_cases h5 : m.length = s.length + 1 <;>
            simp [chainEq, evalFI, evalFB, evalFS, evalFL, argIsNone, h1, h3, h4, chain3, h5]
      | some c =>
        by_cases h6 : c.length = s.length + 1 <;>
        cases fm with
        | none => simp [chainEq, evalFI, evalFB, evalFS, evalFL, argIsNone, h1, h3, h4, chain3, h6]
        | some m =>
          by_cases h5 : m.length = s.length + 1 <;>
            simp [chainEq, evalFI, evalFB, evalFS, evalFL, argIsNone, h1, h3, h4, chain3, h5, h6]
    · have h2 : nat ≠ 0 := by omega
      by_cases h1 : [] ∈ P <;>
      by_cases h3 : (List.map List.length P).sum = nat <;>
      by_cases h4 : P.length = s.length + 1 <;>
      cases fc with
      | none =>
        cases fm with
        | none => simp [chainEq, evalFI, evalFB, evalFS, evalFL, argIsNone, h1, h2, h3, h4, chain3]
        | some m =>
          by_cases h5 : m.length = s.length + 1 <;>
            simp [chainEq, evalFI, evalFB, evalFS, evalFL, argIsNone, h1, h2, h3, h4, chain3, h5]
      | some c =>
        by_cases h6 : c.length = s.length + 1 <;>
        cases fm with
        | none => simp [chainEq, evalFI, evalFB, evalFS, evalFL, argIsNone, h1, h2, h3, h4, chain3, h6]
        | some m =>
          by_cases h5 : m.length = s.length + 1 <;>
            simp [chainEq, evalFI, evalFB, evalFS, evalFL, argIsNone, h1, h2, h3, h4, chain3, h5, h6]

/-! ## the pipeline -/

/-- the translator recognised every region of the source (an unrecognised shape leaves `ok := false`) -/
theorem translation_ok : Gen.progs.ok = true := by decide

/-- **Source tie, from_arrays.** -/
theorem fromArraysWith_eq (env : Env) (i : Inp) : fromArraysWith Gen.progs env i = fromArrays env i := by
  unfold fromArraysWith fromArrays
  simp only [Gen.progs, evalGeom_eq, evalNuclei_eq, evalFragments_eq]
  rfl

/-- **Source tie, from_schema.** -/
theorem fromSchemaWith_eq (env : Env) (s : Schema) : fromSchemaWith Gen.progs env s = fromSchema env s := by
  unfold fromSchemaWith fromSchema
  simp only [fromArraysWith_eq]
  rfl

/-! ## the headlines over the source-derived pipeline -/

/-- **Invariant** (source-derived stages): a successful build satisfies `Inv`. -/
theorem from_arrays_inv_src (env : Env) (valid : NucSettings → Nuc → Prop) (hs : NucSound env.recon valid)
    (i : Inp) (r : Molrec) (h : fromArraysWith Gen.progs env i = .ok r) :
    Inv valid env.angToAu (nucSettings i) i.tooclose r :=
  from_arrays_inv env valid hs i r (fromArraysWith_eq env i ▸ h)

/-- **Fixed point** (source-derived stages). -/
theorem from_arrays_idempotent_src (env : Env) (hid : NucIdem env.recon)
    (i : Inp) (r : Molrec) (h : fromArraysWith Gen.progs env i = .ok r) :
    fromArraysWith Gen.progs env (asInput i r) = .ok r := by
  rw [fromArraysWith_eq] at h ⊢
  exact from_arrays_idempotent env hid i r h

theorem refuses_geom_not_3n_src (env : Env) (i : Inp) (g : List Rat) (hg : i.geom = some g)
    (h3 : rows3 g = none) : fromArraysWith Gen.progs env i = .error .validation := by
  rw [fromArraysWith_eq]; exact refuses_geom_not_3n env i g hg h3

/-- **Overlapping atoms ⇒ ValidationError** (source-derived pair loop). -/
theorem refuses_too_close_src (env : Env) (i : Inp) (g : List Rat) (rows : List R3) (hg : i.geom = some g)
    (h3 : rows3 g = some rows) (hclose : ¬ rows.Pairwise (fun p q => ¬ dist2 p q < i.tooclose * i.tooclose)) :
    fromArraysWith Gen.progs env i = .error .validation := by
  rw [fromArraysWith_eq]; exact refuses_too_close env i g rows hg h3 hclose

/-- **Mismatched per-atom lengths ⇒ ValidationError** (source-derived shape chain). -/
theorem refuses_length_mismatch_src (env : Env) (i : Inp) (g : List Rat) (hg : i.geom = some g)
    (hm : LengthMismatch i (g.length / 3)) : fromArraysWith Gen.progs env i = .error .validation := by
  rw [fromArraysWith_eq]; exact refuses_length_mismatch env i g hg hm

/-- **Empty / unsorted / out-of-range separators are never accepted** (source-derived checks). -/
theorem refuses_bad_separators_src (env : Env) (i : Inp) (g : List Rat) (s : List Int)
    (hg : i.geom = some g) (hs : i.seps = some s) (hn : g.length / 3 ≠ 0)
    (hempty : ∃ p ∈ npSplit (List.replicate (g.length / 3) ()) s, p = []) :
    ∃ e, fromArraysWith Gen.progs env i = .error e ∧ (e = .validation ∨ ∃ st c, env.recon st c = .error e) := by
  rw [fromArraysWith_eq]; exact refuses_bad_separators env i g s hg hs hn hempty

/-- **Wrong number of fragment charges / multiplicities is never accepted** (source-derived length chain). -/
theorem refuses_fragment_length_mismatch_src (env : Env) (i : Inp) (s : List Int) (hs : i.seps = some s)
    (hbad : (∃ l, i.fc = some l ∧ l.length ≠ s.length + 1) ∨ (∃ l, i.fm = some l ∧ l.length ≠ s.length + 1)) :
    ∃ e, fromArraysWith Gen.progs env i = .error e ∧ (e = .validation ∨ ∃ st c, env.recon st c = .error e) := by
  rw [fromArraysWith_eq]; exact refuses_fragment_length_mismatch env i s hs hbad

/-- **Fragments partition the atoms in order**, stated directly on the source-derived fragment stage: whatever it
accepts for `nat > 0` atoms cuts them into non-empty consecutive blocks whose sizes add up to `nat`, with one charge and
one multiplicity slot per block. -/
theorem src_fragments_partition (nat : Nat) (seps : Option (List Int)) (fc fm : Option (List (Option Int)))
    (fr : FragOut) (h : evalFragments Gen.fragFn nat seps fc fm = .ok fr) :
    (nat = 0 ∨ ∀ p ∈ npSplit (List.replicate nat ()) fr.seps, p ≠ []) ∧
    ((npSplit (List.replicate nat ()) fr.seps).map List.length).sum = nat ∧
    fr.fc.length = fr.seps.length + 1 ∧ fr.fm.length = fr.seps.length + 1 := by
  rw [evalFragments_eq] at h
  obtain ⟨h1, h2, h3, _⟩ := validateFragments_ok h
  refine ⟨h1, ?_, h2, h3⟩
  have := sum_lengths_npSplit (List.replicate nat ()) fr.seps (by simpa using h1)
  simpa using this

/-- **The sum-of-lengths test can never fire** (a finding about the source, from_arrays.py:740-745 "… yields overlapping
fragment(s) …, possibly unsorted"): whenever the empty-fragment test just before it lets the separators through
(no empty block, or zero atoms), the block sizes of the trial split already add up to `nat`.  Unsorted separators always
produce an empty block and are refused by the FIRST test.  Deleting the second test is therefore an equivalent mutant:
it changes the generated program (so `evalFragments_eq` has to be re-proved) but no input distinguishes the two. -/
theorem src_sum_test_redundant (nat : Nat) (s : List Int)
    (h : ¬ ((npSplit (List.replicate nat ()) s).any (fun f => f.length == 0) = true ∧ nat ≠ 0)) :
    ((npSplit (List.replicate nat ()) s).map List.length).sum = nat := by
  have := sum_lengths_npSplit (List.replicate nat ()) s (by
    by_cases h0 : nat = 0
    · left; simp [h0]
    · right
      intro p hp hpe
      apply h
      refine ⟨?_, h0⟩
      rw [List.any_eq_true]
      exact ⟨p, hp, by simp [hpe]⟩)
  simpa using this

/-- non-vacuity (tests): the hypothesis holds for a sorted split and for zero atoms, fails for unsorted separators -/
example : ¬ ((npSplit (List.replicate 4 ()) [1, 3]).any (fun f => f.length == 0) = true ∧ 4 ≠ 0) := by decide
example : (npSplit (List.replicate 4 ()) [3, 1]).any (fun f => f.length == 0) = true ∧ 4 ≠ 0 := by decide

/-- non-vacuity (test): the source-derived stage accepts a two-fragment split of three atoms -/
example : evalFragments Gen.fragFn 3 (some [1]) none (some [some 1, none]) =
    .ok { seps := [1], fc := [none, none], fm := [some 1, none] } := by rfl
/-- tests: unsorted / empty / out-of-range separators and wrong slot counts are refused by the source-derived stage -/
example : evalFragments Gen.fragFn 4 (some [3, 1]) none none = .error .validation := by rfl
example : evalFragments Gen.fragFn 4 (some [0]) none none = .error .validation := by rfl
example : evalFragments Gen.fragFn 4 (some [2, 7]) none none = .error .validation := by rfl
example : evalFragments Gen.fragFn 4 (some [2]) (some [none, none, none]) none = .error .validation := by rfl
example : evalFragments Gen.fragFn 4 none (some [none]) none = .error .validation := by rfl

/-- 0 = accepted, 1 = ValidationError, 2 = any other error class -/
def resClass {α} : Except Err α → Nat
  | .ok _ => 0
  | .error .validation => 1
  | .error (.other _) => 2

/-- **The threshold is exclusive**: a geometry whose closest pair lies EXACTLY at `tooclose` passes the source-derived
overlap screen (`dists < metric`, not `<=`) — here two atoms at distance 1/2 with `tooclose = 1/2` — while anything
closer is refused.  (Kernel-evaluated tests of the generated program.) -/
theorem src_exact_threshold_accepted :
    resClass (evalGeom Gen.geomFn (1 / 2) [0, 0, 0, 0, 0, 1 / 2]) = 0 ∧
    resClass (evalGeom Gen.geomFn (1 / 2) [0, 0, 0, 0, 0, 1 / 4]) = 1 ∧
    resClass (evalGeom Gen.geomFn (1 / 2) [0, 0, 0, 0, 0]) = 1 := by decide +kernel

/-- tests: the source-derived nuclei stage checks the lengths even for zero atoms, and maps `-1` to `None` -/
example : evalNuclei Gen.nucFn toyEnv.recon 0 { toyInp with elez := some [some 2] } = .error .validation := by
  rfl
example : (srcArrays Gen.nucFn 2 { toyInp with elea := some [some (-1), some 4] }).elea = [none, some 4] := by
  decide +kernel

/-- test: the toy input of `Props/C04.lean` through the source-derived pipeline -/
example : fromArraysWith Gen.progs toyEnv toyInp = .ok toyRecOut := by
  rw [fromArraysWith_eq]; exact toy_ok
example : fromArraysWith Gen.progs toyEnv (asInput toyInp toyRecOut) = .ok toyRecOut :=
  from_arrays_idempotent_src toyEnv toyRec_idem _ _ (by rw [fromArraysWith_eq]; exact toy_ok)

end QcelVerif.FromArrays
